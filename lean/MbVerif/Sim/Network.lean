/-
  Model of network.rs (`Network`, `NetworkBottleneck`, `WindowCount`, `sim_network_stack`)
  and delay.rs (the three aggregate-delay heuristics).  Durations are `Nat` nanoseconds with
  the `std::time::Duration` ceiling `durMax`; `Instant - Instant` and `duration_since` saturate
  (`dsince`), `Duration * u32`, `Duration / u32` and `+=` are checked.
-/
import MbVerif.Sim.Event

namespace Mb.Sim
open Mb

/-- checked duration result -/
def durChk (n : Nat) : Except SimFault Nat := if n > durMax then .error .durOverflow else .ok n

structure Network where
  delay : Nat
  pps : Option Nat
  deriving Repr, DecidableEq, Inhabited

/-- `WindowCount`: timestamps oldest first -/
structure WindowCount where
  window : Nat
  stamps : List Int
  deriving Repr, DecidableEq, Inhabited

/-- the pruning loop: drop from the front while `now - oldest > window` -/
def WindowCount.prune (window : Nat) (now : Int) : List Int → List Int
  | [] => []
  | o :: r => if dsince now o > window then WindowCount.prune window now r else o :: r

/-- `WindowCount::add`: returns the count -/
def WindowCount.add (w : WindowCount) (now : Int) : Nat × WindowCount :=
  let st := WindowCount.prune w.window now (w.stamps ++ [now])
  (st.length, { w with stamps := st })

structure PendingAgg where
  time : Int
  delay : Nat
  client : Bool
  deriving Repr, DecidableEq, Inhabited

/-- Rust `a <= b` for `PendingAggregateDelay` (reversed time order) -/
def PendingAgg.le (a b : PendingAgg) : Bool := b.time ≤ a.time

/-- ghost counters used only for the coverage signature of a run -/
structure Ghost where
  aggPushed : Nat := 0
  aggPopped : Nat := 0
  ppsHit : Nat := 0
  replaced : Nat := 0
  replacedBypass : Nat := 0
  movedByBlocking : Nat := 0
  deriving Repr, DecidableEq, Inhabited

structure Bottleneck where
  clientAgg : Nat
  serverAgg : Nat
  aggQueue : Heap PendingAgg
  network : Network
  clientWindow : WindowCount
  serverWindow : WindowCount
  ppsAddedDelay : Nat
  ppsLimit : Nat
  ghost : Ghost
  deriving Repr, DecidableEq, Inhabited

def usizeMax : Nat := 2 ^ 64 - 1

namespace Bottleneck

/-- `NetworkBottleneck::new(network, window, queue_pps)` -/
def new (network : Network) (window : Nat) (queuePps : Option Nat) : Except SimFault Bottleneck :=
  let pps := network.pps.getD (queuePps.getD usizeMax)
  let div := min pps (2 ^ 32 - 1)   -- `u32::try_from(pps).unwrap_or(u32::MAX)`
  if div = 0 then .error .divZero else
  .ok { clientAgg := 0, serverAgg := 0, aggQueue := Heap.empty, network := network,
        clientWindow := ⟨window, []⟩, serverWindow := ⟨window, []⟩,
        ppsAddedDelay := window / div, ppsLimit := pps, ghost := {} }

def agg (b : Bottleneck) (isClient : Bool) : Nat := if isClient then b.clientAgg else b.serverAgg

/-- the extra delay of `sample` for a window count -/
def ppsDelay (b : Bottleneck) (count : Nat) : Except SimFault Nat :=
  if count > b.ppsLimit then durChk (b.ppsAddedDelay * ((count - b.ppsLimit) % 2 ^ 32)) else pure 0

/-- the result of `sample` given the extra delay -/
def sampleResult (b : Bottleneck) (delay : Nat) : Except SimFault ((Nat × Option Nat) × Bottleneck) :=
  if delay > 0 then do
    let tot ← durChk (delay + b.network.delay)
    pure ((tot, some delay), { b with ghost := { b.ghost with ppsHit := b.ghost.ppsHit + 1 } })
  else pure ((b.network.delay, none), b)

/-- `NetworkBottleneck::sample` -/
def sample (b : Bottleneck) (now : Int) (isClient : Bool) : Except SimFault ((Nat × Option Nat) × Bottleneck) := do
  let cw := (if isClient then b.clientWindow else b.serverWindow).add now
  let b := if isClient then { b with clientWindow := cw.2 } else { b with serverWindow := cw.2 }
  let delay ← ppsDelay b cw.1
  sampleResult b delay

def peekAggregateDelay (b : Bottleneck) (now : Int) : Nat :=
  match b.aggQueue.peek with
  | some d => dsince d.time now
  | none => durMax

/-- `push_aggregate_delay` -/
def pushAggregateDelay (b : Bottleneck) (blockDur : Nat) (now : Int) (clientExpiry : Bool) : Except SimFault Bottleneck := do
  let d := b.network.delay
  -- the two multiples of the delay the taken branch of the code computes (`u32 * Duration` is checked)
  let mc ← durChk ((if clientExpiry then Gen.SIM_AGG_CLIENTEXP_CLIENT else Gen.SIM_AGG_SERVEREXP_CLIENT) * d)
  let ms ← durChk ((if clientExpiry then Gen.SIM_AGG_CLIENTEXP_SERVER else Gen.SIM_AGG_SERVEREXP_SERVER) * d)
  let (c, s) := (if mc > blockDur then mc - blockDur else 0, if ms > blockDur then ms - blockDur else 0)
  let q := Heap.push PendingAgg.le b.aggQueue { time := now + c, delay := blockDur, client := true }
  let q := Heap.push PendingAgg.le q { time := now + s, delay := blockDur, client := false }
  pure { b with aggQueue := q, ghost := { b.ghost with aggPushed := b.ghost.aggPushed + 1 } }

/-- `pop_aggregate_delay` -/
def popAggregateDelay (b : Bottleneck) : Except SimFault Bottleneck :=
  match Heap.pop PendingAgg.le b.aggQueue with
  | none => .ok b
  | some (a, q) => do
    let b := { b with aggQueue := q, ghost := { b.ghost with aggPopped := b.ghost.aggPopped + 1 } }
    if a.client then
      let v ← durChk (b.clientAgg + a.delay)
      pure { b with clientAgg := v }
    else
      let v ← durChk (b.serverAgg + a.delay)
      pure { b with serverAgg := v }

end Bottleneck

/-! ### delay.rs -/

def msec : Nat := 1000000

/-- `agg_delay_on_blocking_expire` -/
def aggDelayOnBlockingExpire (sq : SimQueue) (isClient : Bool) (expire : Int) (head : SimEvent) (aggBase : Nat) : Option Nat :=
  let q := sq.side isClient
  let bufferSize := q.blocking.len + q.bypassable.len
  let tail :=
    if bufferSize > Gen.SIM_EXPIRE_BUFFER_MIN then
      (q.blocking.toList ++ q.bypassable.toList).foldl
        (fun tail e => if dsince e.time head.time ≤ Gen.SIM_EXPIRE_BUFFER_WINDOW_NS && e.time > tail then e.time else tail) head.time
    else head.time
  if expire = tail then none else
  match q.base.peek with
  | some base =>
    if dsince (base.time + aggBase) head.time ≤ Gen.SIM_EXPIRE_BASE_WINDOW_NS then none else some (dsince expire tail)
  | none => some (dsince expire tail)

/-- `agg_delay_on_padding_bypass_replace` -/
def aggDelayOnPaddingBypassReplace (sq : SimQueue) (isClient : Bool) (now : Int) (head : SimEvent) (aggBase : Nat) : Option Nat :=
  let q := sq.side isClient
  if (q.blocking.toList ++ q.bypassable.toList).any (fun e => dsince e.time head.time ≤ Gen.SIM_REPLACE_ADJACENT_WINDOW_NS) then none else
  match q.base.peek with
  | some base =>
    if dsince (base.time + aggBase) head.time ≤ Gen.SIM_REPLACE_BASE_WINDOW_NS then none else some (dsince now head.time)
  | none => some (dsince now head.time)

/-- `should_delayed_packet_prop_agg_delay` -/
def shouldDelayedPacketPropAggDelay (sq : SimQueue) (isClient : Bool) (pkt : SimEvent) (aggBase : Nat) : Bool :=
  let q := sq.side isClient
  if (q.blocking.toList ++ q.bypassable.toList).any (fun e => dsince e.time pkt.time ≤ Gen.SIM_PROP_ADJACENT_WINDOW_NS) then false else
  match q.base.peek with
  | some base => !(dsince (base.time + aggBase) pkt.time ≤ Gen.SIM_PROP_BASE_WINDOW_NS)
  | none => true

/-! ### sim_network_stack -/

/-- queue the aggregate delay, if any, caused by a bypass-replace of a blocked packet -/
def replaceAgg (sq : SimQueue) (next entry : SimEvent) (net : Bottleneck) (now : Int) : Except SimFault Bottleneck :=
  match aggDelayOnPaddingBypassReplace sq next.client now entry (net.agg next.client) with
  | some bd => net.pushAggregateDelay bd now next.client
  | none => pure net

/-- bypass-replace: pop the blocked normal packet and queue it again flagged as bypass -/
def replaceBypass (next : SimEvent) (sq : SimQueue) (qid : Queue) (stateBypassable : Bool) (net : Bottleneck) (now : Int) :
    Except SimFault (SimQueue × Bottleneck) := do
  let r ← sq.popBlocking qid stateBypassable next.client (net.agg next.client)
  match r with
  | none => .error (.unwrapNone 4)
  | some (entry, sq) =>
    let entry := { entry with bypass := true, replace := false }
    let net ← replaceAgg sq next entry { net with ghost := { net.ghost with replacedBypass := net.ghost.replacedBypass + 1 } } now
    pure (sq.pushSim entry, net)

/-- the PaddingSent arm of `sim_network_stack`: replace a queued normal packet or queue a
    padding TunnelSent -/
def netPaddingSent (next : SimEvent) (sq : SimQueue) (stateBypassable : Bool) (net : Bottleneck) (now : Int) :
    Except SimFault (SimQueue × Bottleneck) :=
  let queueUp : Except SimFault (SimQueue × Bottleneck) :=
    .ok (sq.pushSim ⟨.tunnelSent, next.time, next.client, true, next.bypass, next.replace⟩, net)
  if next.replace then
    match sq.peekBlocking stateBypassable next.client with
    | (some queued, qid) =>
      if queued.client == next.client && queued.event == .tunnelSent && !queued.containsPadding then
        if !next.bypass then
          .ok (sq, { net with ghost := { net.ghost with replaced := net.ghost.replaced + 1 } })
        else replaceBypass next sq qid stateBypassable net now
      else queueUp
    | (none, _) => queueUp
  else queueUp

/-- queue the aggregate delay, if any, caused by the bottleneck delaying a packet -/
def ppsAgg (sq : SimQueue) (next : SimEvent) (net : Bottleneck) (baseline : Option Nat) (now : Int) :
    Except SimFault Bottleneck :=
  match baseline with
  | some ppsDelay =>
    -- NB: the code passes the *client* aggregate delay for both sides
    if shouldDelayedPacketPropAggDelay sq next.client next net.clientAgg then
      net.pushAggregateDelay ppsDelay now next.client
    else pure net
  | none => pure net

/-- the TunnelRecv queued for a TunnelSent with the sampled network delay -/
def recvFor (next : SimEvent) (networkDelay : Nat) (now : Int) : SimEvent :=
  if !next.containsPadding then
    ⟨.tunnelRecv, max (next.time + networkDelay) now, !next.client, false, false, false⟩
  else
    ⟨.tunnelRecv, next.time + networkDelay, !next.client, true, false, false⟩

/-- the TunnelSent arm of `sim_network_stack`: sample the network, maybe queue an aggregate
    delay, queue the TunnelRecv at the other side -/
def netTunnelSent (next : SimEvent) (sq : SimQueue) (net : Bottleneck) (now : Int) :
    Except SimFault (SimQueue × Bottleneck) := do
  let r ← net.sample now next.client
  let net ← ppsAgg sq next r.2 r.1.2 now
  pure (sq.pushSim (recvFor next r.1.1 now), net)

/-- `sim_network_stack(next, sq, state, recipient, network, current_time)`; of `state` only the
    `blocking_bypassable` flag is read, of `recipient` only the (zero) reporting delay.
    Returns the network-activity flag. -/
def simNetworkStack (next : SimEvent) (sq : SimQueue) (stateBypassable : Bool) (net : Bottleneck) (now : Int) :
    Except SimFault (Bool × SimQueue × Bottleneck) :=
  match next.event with
  | .normalSent =>
    .ok (false, sq.pushSim ⟨.tunnelSent, next.time, next.client, false, false, false⟩, net)
  | .paddingSent _ => (netPaddingSent next sq stateBypassable net now).map fun x => (false, x.1, x.2)
  | .tunnelSent => (netTunnelSent next sq net now).map fun x => (true, x.1, x.2)
  | .tunnelRecv =>
    if next.containsPadding then
      .ok (true, sq.pushSim ⟨.paddingRecv, next.time, next.client, true, false, false⟩, net)
    else
      .ok (true, sq.pushSim ⟨.normalRecv, next.time, next.client, false, false, false⟩, net)
  | _ => .ok (false, sq, net)

end Mb.Sim
