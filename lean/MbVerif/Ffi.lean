/-
  Model of crates/maybenot-ffi (src/lib.rs, src/ffi.rs, src/error.rs) and of the C view of its
  data given by maybenot.h.

  * C layout: size / alignment / offsets are *computed* from the field lists the translator
    extracts from maybenot.h (`Mb.Gen.Ffi.hStructs`, `hUnions`, `hTypedefs`) for the x86-64
    SysV ABI.  Nothing below mentions a concrete offset.
  * `encodeAction` / `decodeAction`: the bytes of a `MaybenotAction` slot.  Fields are placed and
    read *by name* (`machine`, `timeout.secs`, `replace`, …); padding bytes are unspecified in C
    and are modelled by a fixed filler that the decoder never looks at.
  * `convertAction`, `convertEvent`: mirrors of `convert_action` / `convert_event` (lib.rs).
  * `onEvents`: convert events → `triggerEvents` → convert actions → zip with the first
    `num_machines` slots of the caller's buffer; `startRc` / `onEventsRc`: the argument checks of
    ffi.rs with the result codes of error.rs.
-/
import MbVerif.Framework
import MbVerif.Validate
import MbVerif.Generated.Ffi

namespace Mb.Ffi
open Mb Mb.Gen.Ffi

abbrev Bytes := List UInt8

/-! ## C layout -/

/-- round `n` up to a multiple of `a` -/
def alignUp (n a : Nat) : Nat := (n + a - 1) / a * a

/-- a scalar member of a (nested) struct: path of field names, byte offset, byte size -/
structure Leaf where
  path : List String
  off : Nat
  size : Nat
  deriving Repr, DecidableEq, Inhabited

structure Layout where
  size : Nat
  align : Nat
  leaves : List Leaf
  deriving Repr, DecidableEq, Inhabited

/-- size and alignment of the scalar C types (x86-64 SysV: LP64) -/
def prim : String → Option (Nat × Nat)
  | "uint64_t" => some (8, 8)
  | "int64_t" => some (8, 8)
  | "uintptr_t" => some (8, 8)
  | "size_t" => some (8, 8)
  | "uint32_t" => some (4, 4)
  | "int32_t" => some (4, 4)
  | "uint16_t" => some (2, 2)
  | "uint8_t" => some (1, 1)
  | "bool" => some (1, 1)
  | _ => none

/-- look a struct / union up by the type spelling used at the point of use (`X` or `struct X`) -/
def findNamed (t kw : String) (tbl : List (String × List (String × String))) : Option (List (String × String)) :=
  (tbl.find? (fun e => t == e.1 || t == kw ++ e.1)).map (·.2)

def Leaf.under (name : String) (base : Nat) (l : Leaf) : Leaf :=
  { path := if name == "" then l.path else name :: l.path, off := base + l.off, size := l.size }

/-- members one after the other, each at the next multiple of its alignment; total size rounded
    up to the struct's alignment -/
def structLayout (rec : String → Option Layout) (fs : List (String × String)) : Option Layout :=
  (fs.foldl (fun acc f =>
    match acc, rec f.2 with
    | some (cur, al, leaves), some l =>
      let off := alignUp cur l.align
      some (off + l.size, max al l.align, leaves ++ l.leaves.map (Leaf.under f.1 off))
    | _, _ => none) (some (0, 1, []))).map
  (fun (cur, al, leaves) => { size := alignUp cur al, align := al, leaves := leaves })

/-- all members at offset 0; size = largest member rounded up to the largest alignment -/
def unionLayout (rec : String → Option Layout) (fs : List (String × String)) : Option Layout :=
  (fs.foldl (fun acc f =>
    match acc, rec f.2 with
    | some (sz, al, leaves), some l =>
      some (max sz l.size, max al l.align, leaves ++ l.leaves.map (Leaf.under f.1 0))
    | _, _ => none) (some (0, 1, []))).map
  (fun (sz, al, leaves) => { size := alignUp sz al, align := al, leaves := leaves })

/-- layout of a C type of maybenot.h (fuel = nesting depth) -/
def layoutOf : Nat → String → Option Layout
  | 0, _ => none
  | fuel + 1, t =>
    match prim t with
    | some (s, a) => some { size := s, align := a, leaves := [{ path := [], off := 0, size := s }] }
    | none =>
    match assoc t hTypedefs with
    | some u => layoutOf fuel u
    | none =>
    match findNamed t "struct " hStructs with
    | some fs => structLayout (layoutOf fuel) fs
    | none =>
    match findNamed t "union " hUnions with
    | some fs => unionLayout (layoutOf fuel) fs
    | none => none

def LAYOUT_FUEL : Nat := 6

/-- `MaybenotAction` (the tagged union `{ tag; union { bodies } }`) -/
def actionL : Layout := (layoutOf LAYOUT_FUEL "MaybenotAction").getD default
/-- `MaybenotEvent` -/
def eventL : Layout := (layoutOf LAYOUT_FUEL "MaybenotEvent").getD default

def Layout.leafAt (L : Layout) (p : List String) : Option Leaf := L.leaves.find? (fun l => l.path == p)

/-- every leaf lies inside `total` bytes and no two overlap -/
def leavesOK (total : Nat) : List Leaf → Bool
  | [] => true
  | l :: ls => decide (l.off + l.size ≤ total) &&
      ls.all (fun m => decide (l.off + l.size ≤ m.off) || decide (m.off + m.size ≤ l.off)) &&
      leavesOK total ls

/-! ## Bytes -/

/-- value of padding bytes (unspecified in C; the decoder never reads them) -/
def FILLER : UInt8 := 0xAA

/-- little-endian bytes of `n`, exactly `k` of them -/
def leBytes : Nat → Nat → Bytes
  | 0, _ => []
  | k + 1, n => UInt8.ofNat (n % 256) :: leBytes k (n / 256)

/-- little-endian value -/
def leVal : Bytes → Nat
  | [] => 0
  | b :: bs => b.toNat + 256 * leVal bs

def writeAt (buf : Bytes) (off : Nat) (seg : Bytes) : Bytes :=
  buf.take off ++ seg ++ buf.drop (off + seg.length)

def readAt (buf : Bytes) (off n : Nat) : Bytes := (buf.drop off).take n

def writeLeaf (buf : Bytes) (l : Leaf) (v : Nat) : Bytes := writeAt buf l.off (leBytes l.size v)

def readLeaf (buf : Bytes) (l : Leaf) : Nat := leVal (readAt buf l.off l.size)

def writeAll (buf : Bytes) (ws : List (Leaf × Nat)) : Bytes :=
  ws.foldl (fun b w => writeLeaf b w.1 w.2) buf

/-! ## The C data types -/

/-- `MaybenotDuration` -/
structure CDuration where
  secs : Nat
  nanos : Nat
  deriving Repr, DecidableEq, Inhabited

/-- `MaybenotAction` (lib.rs), fields in the declared order -/
inductive CAction where
  | cancel (machine : Nat) (timer : Timer)
  | sendPadding (machine : Nat) (timeout : CDuration) (replace bypass : Bool)
  | blockOutgoing (machine : Nat) (timeout : CDuration) (replace bypass : Bool) (duration : CDuration)
  | updateTimer (machine : Nat) (duration : CDuration) (replace : Bool)
  deriving Repr, DecidableEq, Inhabited

/-- `MaybenotEvent` -/
structure CEvent where
  eventType : Nat
  machine : Nat
  deriving Repr, DecidableEq, Inhabited

inductive Variant where
  | cancel | sendPadding | blockOutgoing | updateTimer
  deriving Repr, DecidableEq, Inhabited

/-- the Rust variant name -/
def Variant.name : Variant → String
  | .cancel => "Cancel"
  | .sendPadding => "SendPadding"
  | .blockOutgoing => "BlockOutgoing"
  | .updateTimer => "UpdateTimer"

def Variant.all : List Variant := [.cancel, .sendPadding, .blockOutgoing, .updateTimer]

/-- the scalar fields of a variant's body, by name -/
def Variant.paths : Variant → List (List String)
  | .cancel => [["machine"], ["timer"]]
  | .sendPadding => [["machine"], ["timeout", "secs"], ["timeout", "nanos"], ["replace"], ["bypass"]]
  | .blockOutgoing => [["machine"], ["timeout", "secs"], ["timeout", "nanos"], ["replace"], ["bypass"],
                       ["duration", "secs"], ["duration", "nanos"]]
  | .updateTimer => [["machine"], ["duration", "secs"], ["duration", "nanos"], ["replace"]]

def CAction.variant : CAction → Variant
  | .cancel .. => .cancel
  | .sendPadding .. => .sendPadding
  | .blockOutgoing .. => .blockOutgoing
  | .updateTimer .. => .updateTimer

/-- header constant `<Enum>_<Name>` -/
def enumConst (enum name : String) : Option Nat :=
  (assoc enum hEnums).bind (assoc (enum ++ "_" ++ name))

def timerName : Timer → String
  | .action => "Action"
  | .internal => "Internal"
  | .all => "All"

/-- `impl From<maybenot::Timer> for MaybenotTimer` followed by the `repr(u32)` discriminant -/
def timerCode (t : Timer) : Nat := (enumConst "MaybenotTimer" (timerName t)).getD 0xFFFFFFFF

def timerOfCode (c : Nat) : Option Timer :=
  [Timer.action, Timer.internal, Timer.all].find? (fun t => enumConst "MaybenotTimer" (timerName t) == some c)

/-- tag constant `MaybenotAction_<Variant>` of `enum MaybenotAction_Tag` -/
def Variant.tag (v : Variant) : Nat :=
  ((assoc "MaybenotAction_Tag" hEnums).bind (assoc ("MaybenotAction_" ++ v.name))).getD 0xFFFFFFFF

def variantOfTag (t : Nat) : Option Variant := Variant.all.find? (fun v => v.tag == t)

/-- the union member holding the body of a variant: the one of type `MaybenotAction_<Variant>_Body` -/
def Variant.member (v : Variant) : String :=
  (((assoc "MaybenotAction::anon0" hUnions).getD []).find?
    (fun u => u.2 == "MaybenotAction_" ++ v.name ++ "_Body")).map (·.1) |>.getD "?"

def tagLeaf : Leaf := (actionL.leafAt ["tag"]).getD default

/-- the leaves of a variant's fields, in the order of `Variant.paths` -/
def Variant.leaves (v : Variant) : List Leaf :=
  v.paths.map (fun p => (actionL.leafAt (v.member :: p)).getD default)

def boolVal (b : Bool) : Nat := if b then 1 else 0

/-- the scalar values of an action, in the order of `Variant.paths` -/
def CAction.values : CAction → List Nat
  | .cancel machine timer => [machine, timerCode timer]
  | .sendPadding machine timeout replace bypass =>
    [machine, timeout.secs, timeout.nanos, boolVal replace, boolVal bypass]
  | .blockOutgoing machine timeout replace bypass duration =>
    [machine, timeout.secs, timeout.nanos, boolVal replace, boolVal bypass, duration.secs, duration.nanos]
  | .updateTimer machine duration replace => [machine, duration.secs, duration.nanos, boolVal replace]

/-- a C `bool` holds 0 or 1 -/
def boolOf : Nat → Option Bool
  | 0 => some false
  | 1 => some true
  | _ => none

/-- inverse of `CAction.values` -/
def CAction.build : Variant → List Nat → Option CAction
  | .cancel, [machine, timer] => (timerOfCode timer).map (CAction.cancel machine)
  | .sendPadding, [machine, ts, tn, replace, bypass] =>
    match boolOf replace, boolOf bypass with
    | some r, some b => some (.sendPadding machine ⟨ts, tn⟩ r b)
    | _, _ => none
  | .blockOutgoing, [machine, ts, tn, replace, bypass, ds, dn] =>
    match boolOf replace, boolOf bypass with
    | some r, some b => some (.blockOutgoing machine ⟨ts, tn⟩ r b ⟨ds, dn⟩)
    | _, _ => none
  | .updateTimer, [machine, ds, dn, replace] =>
    (boolOf replace).map (CAction.updateTimer machine ⟨ds, dn⟩)
  | _, _ => none

/-- the (leaf, value) pairs written for an action: the tag, then the fields of its variant -/
def CAction.writes (c : CAction) : List (Leaf × Nat) :=
  (tagLeaf, c.variant.tag) :: c.variant.leaves.zip c.values

/-- the bytes of one `MaybenotAction` slot -/
def encodeAction (c : CAction) : Bytes :=
  writeAll (List.replicate actionL.size FILLER) c.writes

/-- read a `MaybenotAction` slot with the header-derived layout -/
def decodeAction (bs : Bytes) : Option CAction :=
  if bs.length ≠ actionL.size then none else
  match variantOfTag (readLeaf bs tagLeaf) with
  | none => none
  | some v => CAction.build v (v.leaves.map (readLeaf bs))

/-- every value fits its field (what a Rust value of the `repr(C)` type satisfies by typing) -/
def CAction.fits (c : CAction) : Bool :=
  (c.variant.leaves.zip c.values).all (fun w => decide (w.2 < 256 ^ w.1.size))

/-- the layout can hold every variant: distinct, in-bounds, non-overlapping leaves (tag included) -/
def variantOK (v : Variant) : Bool :=
  leavesOK actionL.size (tagLeaf :: v.leaves) && v.leaves.length == v.paths.length &&
  decide (v.tag < 256 ^ tagLeaf.size) && variantOfTag v.tag == some v &&
  (v.paths.all fun p => (actionL.leafAt (v.member :: p)).isSome) && (actionL.leafAt ["tag"]).isSome

def actionLayoutOK : Bool := Variant.all.all variantOK && (layoutOf LAYOUT_FUEL "MaybenotAction").isSome

/-! ### Events -/

def evTypeLeaf : Leaf := (eventL.leafAt ["event_type"]).getD default
def evMachineLeaf : Leaf := (eventL.leafAt ["machine"]).getD default

def encodeEvent (e : CEvent) : Bytes :=
  writeAll (List.replicate eventL.size FILLER) [(evTypeLeaf, e.eventType), (evMachineLeaf, e.machine)]

def decodeEvent (bs : Bytes) : Option CEvent :=
  if bs.length ≠ eventL.size then none else
  some { eventType := readLeaf bs evTypeLeaf, machine := readLeaf bs evMachineLeaf }

def eventLayoutOK : Bool :=
  leavesOK eventL.size [evTypeLeaf, evMachineLeaf] && (eventL.leafAt ["event_type"]).isSome &&
  (eventL.leafAt ["machine"]).isSome && (layoutOf LAYOUT_FUEL "MaybenotEvent").isSome

/-- header constant `MaybenotEventType_<name>` -/
def evType (name : String) : Nat := (enumConst "MaybenotEventType" name).getD 0xFFFFFFFF

/-- `convert_event` (lib.rs).  The machine id is read for every event but only used by the four
    per-machine events.  A value that is not a declared discriminant has no Rust counterpart
    (producing one is undefined behaviour on the caller's side): `none`. -/
def convertEvent (e : CEvent) : Option TEvent :=
  if e.eventType = evType "NormalRecv" then some .normalRecv
  else if e.eventType = evType "PaddingRecv" then some .paddingRecv
  else if e.eventType = evType "TunnelRecv" then some .tunnelRecv
  else if e.eventType = evType "NormalSent" then some .normalSent
  else if e.eventType = evType "PaddingSent" then some (.paddingSent e.machine)
  else if e.eventType = evType "TunnelSent" then some .tunnelSent
  else if e.eventType = evType "BlockingBegin" then some (.blockingBegin e.machine)
  else if e.eventType = evType "BlockingEnd" then some .blockingEnd
  else if e.eventType = evType "TimerBegin" then some (.timerBegin e.machine)
  else if e.eventType = evType "TimerEnd" then some (.timerEnd e.machine)
  else none

/-- the C event an integrator builds for a framework event (machine 0 where there is none) -/
def eventOf : TEvent → CEvent
  | .normalRecv => ⟨evType "NormalRecv", 0⟩
  | .paddingRecv => ⟨evType "PaddingRecv", 0⟩
  | .tunnelRecv => ⟨evType "TunnelRecv", 0⟩
  | .normalSent => ⟨evType "NormalSent", 0⟩
  | .paddingSent m => ⟨evType "PaddingSent", m⟩
  | .tunnelSent => ⟨evType "TunnelSent", 0⟩
  | .blockingBegin m => ⟨evType "BlockingBegin", m⟩
  | .blockingEnd => ⟨evType "BlockingEnd", 0⟩
  | .timerBegin m => ⟨evType "TimerBegin", m⟩
  | .timerEnd m => ⟨evType "TimerEnd", m⟩

/-! ### Actions -/

/-- `Duration::from_micros(µs)` (framework) followed by `impl From<Duration> for MaybenotDuration`
    (`as_secs`, `subsec_nanos`) -/
def durOfMicros (us : Nat) : CDuration :=
  { secs := us / 1000000, nanos := us % 1000000 * 1000 }

/-- `convert_action` (lib.rs) -/
def convertAction : TAction → CAction
  | .cancel machine timer => CAction.cancel (machine := machine) (timer := timer)
  | .sendPadding timeout bypass replace machine =>
    CAction.sendPadding (timeout := durOfMicros timeout) (replace := replace) (bypass := bypass) (machine := machine)
  | .blockOutgoing timeout duration bypass replace machine =>
    CAction.blockOutgoing (timeout := durOfMicros timeout) (duration := durOfMicros duration)
      (replace := replace) (bypass := bypass) (machine := machine)
  | .updateTimer duration replace machine =>
    CAction.updateTimer (duration := durOfMicros duration) (replace := replace) (machine := machine)

/-- SPECIFICATION of the split: whole seconds and remaining nanoseconds of `µs` microseconds -/
def splitNanos (us : Nat) : CDuration :=
  { secs := us * 1000 / 1000000000, nanos := us * 1000 % 1000000000 }

/-- SPECIFICATION (property text): what the integrator must see for a framework action —
    same kind, machine, flags under their own names, timer, and the durations split -/
def view : TAction → CAction
  | .cancel m t => .cancel (machine := m) (timer := t)
  | .sendPadding to b r m => .sendPadding (machine := m) (timeout := splitNanos to) (bypass := b) (replace := r)
  | .blockOutgoing to du b r m =>
    .blockOutgoing (machine := m) (timeout := splitNanos to) (duration := splitNanos du) (bypass := b) (replace := r)
  | .updateTimer du r m => .updateTimer (machine := m) (duration := splitNanos du) (replace := r)

/-- the framework action's numbers fit the Rust types (`usize`, `u64` microseconds) -/
def inRange : TAction → Prop
  | .cancel m _ => m < 2 ^ 64
  | .sendPadding to _ _ m => m < 2 ^ 64 ∧ to < 2 ^ 64
  | .blockOutgoing to du _ _ m => m < 2 ^ 64 ∧ to < 2 ^ 64 ∧ du < 2 ^ 64
  | .updateTimer du _ m => m < 2 ^ 64 ∧ du < 2 ^ 64

instance : (a : TAction) → Decidable (inRange a)
  | .cancel .. => by unfold inRange; exact inferInstance
  | .sendPadding .. => by unfold inRange; exact inferInstance
  | .blockOutgoing .. => by unfold inRange; exact inferInstance
  | .updateTimer .. => by unfold inRange; exact inferInstance

/-! ### The output buffer -/

/-- `actions.zip(out.iter_mut()).map(|(a, o)| o.write(a)).count()`: the slots after the writes and
    the count -/
def zipWrite : List CAction → List Bytes → List Bytes × Nat
  | a :: as, _ :: slots => let r := zipWrite as slots; (encodeAction a :: r.1, r.2 + 1)
  | _, slots => (slots, 0)

/-- ffi.rs forms the slice `from_raw_parts_mut(actions_out, num_machines)` of the caller's
    memory `buf` (a list of `MaybenotAction`-sized slots, possibly longer than `n`) -/
def writeSlots (acts : List CAction) (n : Nat) (buf : List Bytes) : List Bytes × Nat :=
  let r := zipWrite acts (buf.take n)
  (r.1 ++ buf.drop n, r.2)

/-! ### Result codes and argument checks -/

def resCode (name : String) : Nat := (enumConst "MaybenotResult" name).getD 0xFFFFFFFF

def RC_Ok : Nat := resCode "Ok"
def RC_MachineStringNotUtf8 : Nat := resCode "MachineStringNotUtf8"
def RC_InvalidMachineString : Nat := resCode "InvalidMachineString"
def RC_StartFramework : Nat := resCode "StartFramework"
def RC_NullPointer : Nat := resCode "NullPointer"

/-- the machine-string argument of `maybenot_start` as the Rust API sees it -/
inductive MachinesArg where
  /-- `CStr::to_str` fails -/
  | notUtf8
  /-- some line is rejected by `Machine::from_str` -/
  | invalid
  /-- every line parses (and hence validates) -/
  | parsed (ms : List Machine)
  deriving Repr, Inhabited

/-- `maybenot_start` (ffi.rs) + `MaybenotFramework::start` (lib.rs): the checks in code order -/
def startRc (outNull : Bool) (arg : MachinesArg) (fp fb : F64) : Nat :=
  if outNull then RC_NullPointer else
  match arg with
  | .notUtf8 => RC_MachineStringNotUtf8
  | .invalid => RC_InvalidMachineString
  | .parsed ms => if Validate.frameworkNew ms fp fb then RC_Ok else RC_StartFramework

structure Nulls where
  this : Bool
  events : Bool
  actions : Bool
  count : Bool
  deriving Repr, DecidableEq, Inhabited

def Nulls.any (n : Nulls) : Bool := n.this || n.events || n.actions || n.count

/-- the pointer checks of `maybenot_on_events` -/
def onEventsRc (n : Nulls) : Nat :=
  if n.this then RC_NullPointer
  else if n.events || n.actions || n.count then RC_NullPointer
  else RC_Ok

section
variable {σ : Type} (ρ : Oracle σ)

/-- `MaybenotFramework::on_events`: returns the framework, the caller's buffer and the count.
    `none`: an event carried an undeclared discriminant (outside the contract). -/
def onEvents (s : Fw σ) (now : Int) (evs : List CEvent) (buf : List Bytes) : Option (Fw σ × List Bytes × Nat) :=
  match evs.mapM convertEvent with
  | none => none
  | some tes =>
    let s' := triggerEvents ρ tes now s
    let r := writeSlots (s'.actionsOut.map convertAction) s.machines.length buf
    some (s', r.1, r.2)

/-- what the caller observes of one `maybenot_on_events` call: result code, its buffer, and the
    count cell (`none` = not written) -/
structure CallOut (σ : Type) where
  fw : Fw σ
  rc : Nat
  buf : List Bytes
  count : Option Nat

/-- `maybenot_on_events` (ffi.rs) -/
def apiOnEvents (nulls : Nulls) (s : Fw σ) (now : Int) (evs : List CEvent) (buf : List Bytes) : Option (CallOut σ) :=
  if onEventsRc nulls ≠ RC_Ok then some { fw := s, rc := onEventsRc nulls, buf := buf, count := none } else
  (onEvents ρ s now evs buf).map fun r => { fw := r.1, rc := RC_Ok, buf := r.2.1, count := some r.2.2 }

end

/-- oracle for machines with deterministic sampling: the transition draw is 0.0 (any value in
    [0,1) selects the only target of a probability-1 vector) and the raw sample is ignored by the
    `low == high` fast path -/
def constOracle : Oracle Unit where
  u _ := (0, ())
  d _ _ := (0, ())

end Mb.Ffi
