/-
  C07, the exact count: what one reported completion (PaddingSent / BlockingBegin / TimerBegin
  for a machine) does to the machine's state limit when the machine's current state has no
  transition on the completion event, and what `k` such calls in a row do.
-/
import MbVerif.Proofs.Exhausted
import MbVerif.Proofs.NonInterf
import MbVerif.Proofs.LogCount
import MbVerif.Proofs.SigCount

namespace Mb.Countdown
variable {σ : Type} (ρ : Oracle σ)

/-! ### the log only grows, and the first entry of a transition is its own `trans` entry -/

/-- the log of `t` extends the log of `s` -/
def LogExt (s t : Fw σ) : Prop := ∃ l, t.log = l ++ s.log

theorem LogExt.refl (s : Fw σ) : LogExt s s := ⟨[], rfl⟩

theorem LogExt.trans {s t u : Fw σ} (h₁ : LogExt s t) (h₂ : LogExt t u) : LogExt s u := by
  obtain ⟨l1, e1⟩ := h₁
  obtain ⟨l2, e2⟩ := h₂
  exact ⟨l2 ++ l1, by rw [e2, e1, List.append_assoc]⟩

theorem LogExt.ofEq {s t : Fw σ} (h : t.log = s.log) : LogExt s t := ⟨[], by simp [h]⟩
theorem LogExt.push (s : Fw σ) (e : LogEntry) : LogExt s (s.push e) := ⟨[e], rfl⟩
theorem LogExt.withFault (s : Fw σ) (f : Fault) : LogExt s (s.withFault f) := LogExt.ofEq (by simp)
theorem LogExt.modRt (s : Fw σ) (mi : Nat) (f : Runtime → Runtime) : LogExt s (s.modRt mi f) :=
  LogExt.ofEq (by simp)
theorem LogExt.ofReach {k : Nat} {s t : Fw σ} (h : Reach k s t) : LogExt s t := h.logExt
theorem LogExt.ofQQ {k : Nat} {s t : Fw σ} (h : QQ k s t) : LogExt s t := by
  obtain ⟨l, e, _⟩ := h
  exact ⟨l, e⟩

theorem logExt_transition (fuel mi : Nat) (ev : Event) (s : Fw σ) : LogExt s (transition ρ fuel mi ev s).1 :=
  LogExt.ofReach (transition_reach ρ fuel mi ev s)

theorem logExt_decrement (mi : Nat) (s : Fw σ) : LogExt s (decrementLimit ρ mi s) :=
  LogExt.ofReach (decrementLimit_reach ρ mi s)

theorem logExt_signalRound (s : Fw σ) : LogExt s (signalRound ρ s) := LogExt.ofQQ (qq_signalRound ρ (mi := 0) s)

theorem logExt_fold {α : Type} (F : Fw σ → α → Fw σ) (hF : ∀ s j, LogExt s (F s j)) (l : List α) (s : Fw σ) :
    LogExt s (l.foldl F s) := by
  induction l generalizing s with
  | nil => exact LogExt.refl s
  | cons j t ih => exact (hF s j).trans (ih _)

/-- a transition of a machine that exists starts by logging its own delivery: the log afterwards
    is the old log, then `trans mi ev cur`, then whatever the transition caused -/
theorem transition_logFirst (n mi : Nat) (ev : Event) (s : Fw σ) (r : Runtime) (m : Machine)
    (hr : s.rt[mi]? = some r) (hm : s.machines[mi]? = some m) :
    LogExt (s.push (.trans mi ev.toNat r.currentState)) (transition ρ (n + 1) mi ev s).1 := by
  rw [transition, hr, hm]
  simp only []
  have h0 := LogExt.refl (s.push (.trans mi ev.toNat r.currentState))
  split
  · exact h0
  · cases hst : m.states[r.currentState]? with
    | none => exact LogExt.withFault _ _
    | some st =>
    simp only []
    cases htr : st.transitions[ev.toNat]? with
    | none => exact LogExt.withFault _ _
    | some ov =>
    cases ov with
    | none => exact h0
    | some vec =>
    simp only []
    have h1 : LogExt (s.push (.trans mi ev.toNat r.currentState))
        (({ s.push (.trans mi ev.toNat r.currentState) with
              rng := (ρ.u (s.push (.trans mi ev.toNat r.currentState)).rng).2 }).push
            (.draw (ρ.u (s.push (.trans mi ev.toNat r.currentState)).rng).1)) :=
      ⟨[.draw (ρ.u (s.push (.trans mi ev.toNat r.currentState)).rng).1], rfl⟩
    split
    · exact h1
    · next nxt _ =>
      have h2 := h1.trans (LogExt.push _ (.sampled mi ev.toNat nxt))
      split
      · exact h2.trans (LogExt.modRt _ _ _)
      · split
        · exact h2.trans (LogExt.ofEq rfl)
        · have h3 := h2.trans (LogExt.ofQQ (qq_enterState ρ (mi := mi) m r.currentState nxt _))
          generalize enterState ρ mi m r.currentState nxt _ = s3 at h3 ⊢
          cases hr3 : s3.rt[mi]? with
          | none => exact h3.trans (LogExt.withFault _ _)
          | some r1 =>
          simp only []
          cases hb : belowActionLimits s3.g r1 m with
          | none => exact h3.trans (LogExt.withFault _ _)
          | some below =>
          simp only []
          have h4 := h3.trans (LogExt.ofReach (updateCounter_reach ρ n mi s3))
          have h5 : LogExt (s.push (.trans mi ev.toNat r.currentState))
              (if ((updateCounter ρ n mi s3).2.1 && below) = true
                then scheduleAction ρ mi nxt (updateCounter ρ n mi s3).1 else (updateCounter ρ n mi s3).1) := by
            split
            · obtain ⟨l2, e2, _⟩ := schedule_spec ρ (mi := mi) nxt (updateCounter ρ n mi s3).1
              exact h4.trans ⟨l2, e2⟩
            · exact h4
          generalize (if ((updateCounter ρ n mi s3).2.1 && below) = true
              then scheduleAction ρ mi nxt (updateCounter ρ n mi s3).1 else (updateCounter ρ n mi s3).1) = s5 at h5 ⊢
          cases hr5 : s5.rt[mi]? with
          | none => exact h5.trans (LogExt.withFault _ _)
          | some r2 => exact h5

/-! ### a delivery without a transition, and the two outcomes of the decrement -/

/-- a machine whose current state has no transition on the event: the delivery is logged and
    nothing else happens -/
theorem transition_noTrans (mi : Nat) (ev : Event) (s : Fw σ) (r : Runtime) (m : Machine) (st : State)
    (hr : s.rt[mi]? = some r) (hm : s.machines[mi]? = some m) (hne : r.currentState ≠ STATE_END)
    (hst : m.states[r.currentState]? = some st) (htr : st.transitions[ev.toNat]? = some none) :
    transition ρ FUEL mi ev s = (s.push (.trans mi ev.toNat r.currentState), false) := by
  show transition ρ (7 + 1) mi ev s = _
  rw [transition, hr, hm]
  simp only [hne, if_false, hst, htr]

theorem notEnded_of (mi : Nat) (s : Fw σ) (r : Runtime) (hr : s.rt[mi]? = some r)
    (hne : r.currentState ≠ STATE_END) : notEnded s mi = true := by
  unfold notEnded
  rw [hr]
  simpa using hne

/-- the decrement when the limit is not used up by it (or the state's action has no limit):
    the limit goes down by one (not below 0), the decrement is logged, nothing else happens -/
theorem decrementLimit_keep (mi : Nat) (s : Fw σ) (r : Runtime) (m : Machine) (st : State)
    (hr : s.rt[mi]? = some r) (hm : s.machines[mi]? = some m) (hst : m.states[r.currentState]? = some st)
    (hk : ∀ a, st.action = some a → a.hasLimit = true → 2 ≤ r.stateLimit) :
    decrementLimit ρ mi s =
      (s.modRt mi (fun r' => { r' with stateLimit := r.stateLimit - 1 })).push (.limit mi (r.stateLimit - 1) true) := by
  unfold decrementLimit
  rw [hr, hm]
  simp only [hst]
  have hlim : (if r.stateLimit > 0 then r.stateLimit - 1 else r.stateLimit) = r.stateLimit - 1 := by
    split <;> omega
  rw [hlim]
  cases hact : st.action with
  | none => rfl
  | some a =>
    simp only []
    have hc : ¬ (decide (r.stateLimit - 1 = 0) && a.hasLimit) = true := by
      simp only [Bool.and_eq_true, decide_eq_true_eq]
      rintro ⟨h1, h2⟩
      have := hk a hact h2
      omega
    rw [if_neg hc]

/-- the decrement that uses the limit up: the slot is cleared and LimitReached is delivered -/
theorem decrementLimit_fire (mi : Nat) (s : Fw σ) (r : Runtime) (m : Machine) (st : State) (a : Action)
    (hr : s.rt[mi]? = some r) (hm : s.machines[mi]? = some m) (hst : m.states[r.currentState]? = some st)
    (hact : st.action = some a) (hl : a.hasLimit = true) (h1 : r.stateLimit ≤ 1) (hlen : mi < s.actions.length) :
    decrementLimit ρ mi s =
      (transition ρ FUEL mi .limitReached
        { (s.modRt mi (fun r' => { r' with stateLimit := 0 })).push (.limit mi 0 true) with
          actions := s.actions.set mi none }).1 := by
  unfold decrementLimit
  rw [hr, hm]
  simp only [hst, hact]
  have hlim : (if r.stateLimit > 0 then r.stateLimit - 1 else r.stateLimit) = 0 := by
    split <;> omega
  rw [hlim]
  simp only [hl, decide_true, Bool.and_self, if_true]
  have : ¬ mi ≥ ((s.modRt mi (fun r' => { r' with stateLimit := 0 })).push (.limit mi 0 true)).actions.length := by
    simpa using hlen
  rw [if_neg this]
  simp

/-! ### the three completion events for a machine whose state has no transition on them -/

/-- PaddingSent for machine `mi`: accounting, the logged delivery, then the decrement -/
theorem processEvent_paddingSent_noTrans (mi : Nat) (s : Fw σ) (r : Runtime) (m : Machine) (st : State)
    (hr : s.rt[mi]? = some r) (hm : s.machines[mi]? = some m) (hne : r.currentState ≠ STATE_END)
    (hst : m.states[r.currentState]? = some st) (htr : st.transitions[Event.paddingSent.toNat]? = some none) :
    processEvent ρ (.paddingSent mi) s =
      decrementLimit ρ mi
        ((({ s with g := { s.g with paddingSent := s.g.paddingSent + 1 } } : Fw σ).modRt mi
            (fun r => { r with acct := { r.acct with paddingSent := r.acct.paddingSent + 1 } })).push
          (.trans mi Event.paddingSent.toNat r.currentState)) := by
  have hlt : mi < s.rt.length := by
    rcases Nat.lt_or_ge mi s.rt.length with h | h
    · exact h
    · simp [List.getElem?_eq_none h] at hr
  simp only [processEvent]
  rw [if_neg (by simpa using hlt)]
  have hr2 : (({ s with g := { s.g with paddingSent := s.g.paddingSent + 1 } } : Fw σ).modRt mi
      (fun r => { r with acct := { r.acct with paddingSent := r.acct.paddingSent + 1 } })).rt[mi]? =
      some { r with acct := { r.acct with paddingSent := r.acct.paddingSent + 1 } } := by
    rw [Fw.modRt_rt_self]; simp [hr]
  rw [transition_noTrans ρ mi .paddingSent _ _ m st hr2 (by simpa using hm) hne hst htr]
  simp only []
  rw [if_pos]
  simp only [Bool.not_false, Bool.true_and]
  exact notEnded_of mi _ { r with acct := { r.acct with paddingSent := r.acct.paddingSent + 1 } } hr2 hne

/-- TimerBegin for machine `mi`: the logged delivery, then the decrement -/
theorem processEvent_timerBegin_noTrans (mi : Nat) (s : Fw σ) (r : Runtime) (m : Machine) (st : State)
    (hr : s.rt[mi]? = some r) (hm : s.machines[mi]? = some m) (hne : r.currentState ≠ STATE_END)
    (hst : m.states[r.currentState]? = some st) (htr : st.transitions[Event.timerBegin.toNat]? = some none) :
    processEvent ρ (.timerBegin mi) s =
      decrementLimit ρ mi (s.push (.trans mi Event.timerBegin.toNat r.currentState)) := by
  have hlt : mi < s.rt.length := by
    rcases Nat.lt_or_ge mi s.rt.length with h | h
    · exact h
    · simp [List.getElem?_eq_none h] at hr
  simp only [processEvent]
  rw [if_neg (by simpa using hlt)]
  rw [transition_noTrans ρ mi .timerBegin _ _ m st hr hm hne hst htr]
  simp only []
  rw [if_pos]
  simp only [Bool.not_false, Bool.true_and]
  exact notEnded_of mi _ r hr hne

/-! ### one single-event call -/

theorem callStart_rt (s : Fw σ) (t : Int) (mi : Nat) (r : Runtime) (hr : s.rt[mi]? = some r) :
    (s.callStart t).rt[mi]? = some { r with zeroedA := false, zeroedB := false } := by
  simp [Fw.callStart, List.getElem?_map, hr]

theorem signalRound_none (s : Fw σ) (h : s.signalPending = none) : signalRound ρ s = s := by
  unfold signalRound; rw [h]

theorem modRt_fault_some (s : Fw σ) (mi : Nat) (f : Runtime → Runtime) (r : Runtime) (h : s.rt[mi]? = some r) :
    (s.modRt mi f).fault = s.fault := by
  rw [Fw.modRt_of_some s mi f r h]

/-- the decrement after a logged delivery `e`, followed by the signal round, when the limit is
    not used up: the complete effect -/
theorem decrement_round_keep (mi : Nat) (e : LogEntry) (A : Fw σ) (rA : Runtime) (m : Machine) (st : State)
    (hrA : A.rt[mi]? = some rA) (hm : A.machines[mi]? = some m) (hst : m.states[rA.currentState]? = some st)
    (hsig : A.signalPending = none)
    (hk : ∀ a, st.action = some a → a.hasLimit = true → 2 ≤ rA.stateLimit) :
    (signalRound ρ (decrementLimit ρ mi (A.push e))).rt[mi]? = some { rA with stateLimit := rA.stateLimit - 1 } ∧
    (∀ j, j ≠ mi → (signalRound ρ (decrementLimit ρ mi (A.push e))).rt[j]? = A.rt[j]?) ∧
    (signalRound ρ (decrementLimit ρ mi (A.push e))).log = .limit mi (rA.stateLimit - 1) true :: e :: A.log ∧
    (signalRound ρ (decrementLimit ρ mi (A.push e))).actions = A.actions ∧
    (signalRound ρ (decrementLimit ρ mi (A.push e))).machines = A.machines ∧
    (signalRound ρ (decrementLimit ρ mi (A.push e))).signalPending = none ∧
    (signalRound ρ (decrementLimit ρ mi (A.push e))).fault = A.fault ∧
    (signalRound ρ (decrementLimit ρ mi (A.push e))).rng = A.rng ∧
    (signalRound ρ (decrementLimit ρ mi (A.push e))).g = A.g := by
  rw [decrementLimit_keep ρ mi (A.push e) rA m st hrA hm hst hk]
  rw [signalRound_none ρ _ (by simpa using hsig)]
  refine ⟨?_, fun j hj => ?_, ?_, ?_, ?_, ?_, ?_, ?_, ?_⟩
  · rw [Fw.push_rt, Fw.modRt_rt_self, Fw.push_rt, hrA]; rfl
  · rw [Fw.push_rt, Fw.modRt_rt_other _ _ _ _ hj, Fw.push_rt]
  · simp [Fw.push]
  · simp
  · simp
  · simpa using hsig
  · rw [Fw.push_fault, modRt_fault_some _ mi _ rA (by simpa using hrA)]; rfl
  · simp
  · simp

/-- the same when the decrement uses the limit up: LimitReached is delivered at once, to a
    framework `X` in which the machine's limit is 0 and its slot is empty -/
theorem decrement_round_fire (mi : Nat) (e : LogEntry) (A : Fw σ) (rA : Runtime) (m : Machine) (st : State) (a : Action)
    (hrA : A.rt[mi]? = some rA) (hm : A.machines[mi]? = some m) (hst : m.states[rA.currentState]? = some st)
    (hact : st.action = some a) (hl : a.hasLimit = true) (h1 : rA.stateLimit ≤ 1) (hlen : mi < A.actions.length) :
    ∃ X : Fw σ, signalRound ρ (decrementLimit ρ mi (A.push e)) = signalRound ρ (transition ρ FUEL mi .limitReached X).1 ∧
      X.rt[mi]? = some { rA with stateLimit := 0 } ∧ (∀ j, j ≠ mi → X.rt[j]? = A.rt[j]?) ∧
      X.actions = A.actions.set mi none ∧ X.machines = A.machines ∧ X.signalPending = A.signalPending ∧
      X.fault = A.fault ∧ X.rng = A.rng ∧ X.g = A.g ∧
      X.log = .limit mi 0 true :: e :: A.log ∧
      ∃ l, (signalRound ρ (decrementLimit ρ mi (A.push e))).log =
        l ++ .trans mi Event.limitReached.toNat rA.currentState :: .limit mi 0 true :: e :: A.log := by
  have heq := decrementLimit_fire ρ mi (A.push e) rA m st a hrA hm hst hact hl h1 hlen
  have hrX : ({ ((A.push e).modRt mi (fun r' => { r' with stateLimit := 0 })).push (.limit mi 0 true) with
      actions := (A.push e).actions.set mi none } : Fw σ).rt[mi]? = some { rA with stateLimit := 0 } := by
    show ((A.push e).modRt mi (fun r' => { r' with stateLimit := 0 })).rt[mi]? = _
    rw [Fw.modRt_rt_self, Fw.push_rt, hrA]; rfl
  refine ⟨_, by rw [heq], hrX, fun j hj => ?_, rfl, ?_, ?_, ?_, ?_, ?_, ?_, ?_⟩
  · show ((A.push e).modRt mi (fun r' => { r' with stateLimit := 0 })).rt[j]? = _
    rw [Fw.modRt_rt_other _ _ _ _ hj, Fw.push_rt]
  · simp
  · simp
  · show ((A.push e).modRt mi (fun r' => { r' with stateLimit := 0 })).fault = _
    rw [modRt_fault_some _ mi _ rA (by simpa using hrA)]; rfl
  · simp
  · simp
  · simp [Fw.push]
  · rw [heq]
    have hmX : ({ ((A.push e).modRt mi (fun r' => { r' with stateLimit := 0 })).push (.limit mi 0 true) with
        actions := (A.push e).actions.set mi none } : Fw σ).machines[mi]? = some m := by simpa using hm
    obtain ⟨l, hl⟩ := (transition_logFirst ρ 7 mi .limitReached _ _ m hrX hmX).trans (logExt_signalRound ρ _)
    refine ⟨l, ?_⟩
    rw [show (7 + 1 : Nat) = FUEL from rfl] at hl
    rw [hl]
    simp [Fw.push]

theorem set_none_map {α β : Type} (l : List α) (i : Nat) :
    (l.map (fun _ => (none : Option β))).set i none = l.map (fun _ => none) := by
  apply List.ext_getElem?
  intro j
  rw [List.getElem?_set]
  by_cases h : i = j
  · subst h
    by_cases hl : i < l.length <;> simp [hl]
  · simp [h]

/-- **A counted completion that does not use the limit up**: the complete effect of the call on
    the framework. `r` is the machine's runtime before the call, `r'` after it, `ev` the internal
    event delivered, `g'` the framework-wide accounting after the call. -/
structure CallKeep (mi : Nat) (ev : Event) (r r' : Runtime) (g' : Globals) (s u : Fw σ) : Prop where
  /-- the machine's runtime afterwards -/
  rt : u.rt[mi]? = some r'
  /-- every other machine: only the per-call CounterZero flags are reset -/
  rtOther : ∀ j, j ≠ mi → u.rt[j]? = (s.rt[j]?).map (fun r => { r with zeroedA := false, zeroedB := false })
  /-- exactly two log entries: the delivery of the event and the decrement -/
  log : u.log = .limit mi (r.stateLimit - 1) true :: .trans mi ev.toNat r.currentState :: s.log
  /-- no action is returned, for any machine -/
  actions : u.actions = s.actions.map (fun _ => none)
  machines : u.machines = s.machines
  signal : u.signalPending = none
  fault : u.fault = s.fault
  rng : u.rng = s.rng
  g : u.g = g'

/-- the slot of the machine is empty after such a call -/
theorem CallKeep.slot {mi : Nat} {ev : Event} {r r' : Runtime} {g' : Globals} {s u : Fw σ}
    (h : CallKeep mi ev r r' g' s u) (hlen : mi < s.actions.length) : u.actions[mi]? = some none := by
  rw [h.actions]; simp [hlen]

/-- LimitReached was not delivered to the machine in such a call -/
theorem CallKeep.noLimitReached {mi : Nat} {ev : Event} {r r' : Runtime} {g' : Globals} {s u : Fw σ}
    (h : CallKeep mi ev r r' g' s u) (hev : ev ≠ .limitReached) :
    ∃ l, u.log = l ++ s.log ∧ ∀ st', LogEntry.trans mi Event.limitReached.toNat st' ∉ l := by
  refine ⟨[.limit mi (r.stateLimit - 1) true, .trans mi ev.toNat r.currentState], by rw [h.log]; rfl, fun st' hmem => ?_⟩
  simp only [List.mem_cons, List.mem_nil_iff, or_false] at hmem
  rcases hmem with h1 | h1
  · cases h1
  · injection h1 with _ h2 _
    apply hev
    cases ev <;> first | rfl | (exfalso; revert h2; decide)

theorem call_paddingSent_keep (mi : Nat) (t : Int) (s : Fw σ) (r : Runtime) (m : Machine) (st : State)
    (hr : s.rt[mi]? = some r) (hm : s.machines[mi]? = some m) (hne : r.currentState ≠ STATE_END)
    (hst : m.states[r.currentState]? = some st) (htr : st.transitions[Event.paddingSent.toNat]? = some none)
    (hsig : s.signalPending = none)
    (hk : ∀ a, st.action = some a → a.hasLimit = true → 2 ≤ r.stateLimit) :
    CallKeep mi .paddingSent r
      { r with stateLimit := r.stateLimit - 1, zeroedA := false, zeroedB := false,
               acct := { r.acct with paddingSent := r.acct.paddingSent + 1 } }
      { s.g with now := t, paddingSent := s.g.paddingSent + 1 } s
      (triggerEvents ρ [.paddingSent mi] t s) := by
  unfold triggerEvents
  simp only [List.foldl]
  have hr0 := callStart_rt s t mi r hr
  have hm0 : (s.callStart t).machines[mi]? = some m := hm
  rw [processEvent_paddingSent_noTrans ρ mi (s.callStart t) _ m st hr0 hm0 hne hst htr]
  have hrA : (({ s.callStart t with g := { (s.callStart t).g with paddingSent := (s.callStart t).g.paddingSent + 1 } } : Fw σ).modRt mi
            (fun r => { r with acct := { r.acct with paddingSent := r.acct.paddingSent + 1 } })).rt[mi]? =
      some { r with zeroedA := false, zeroedB := false, acct := { r.acct with paddingSent := r.acct.paddingSent + 1 } } := by
    rw [Fw.modRt_rt_self]
    simp [Fw.callStart, List.getElem?_map, hr]
  obtain ⟨h1, h2, h3, h4, h5, h6, h7, h8, h9⟩ :=
    decrement_round_keep ρ mi (.trans mi Event.paddingSent.toNat r.currentState) _ _ m st hrA (by simpa using hm0) hst
      (by simpa [Fw.callStart] using hsig) hk
  refine ⟨h1, fun j hj => ?_, ?_, ?_, ?_, h6, ?_, ?_, ?_⟩
  · rw [h2 j hj, Fw.modRt_rt_other _ _ _ _ hj]
    simp [Fw.callStart, List.getElem?_map]
  · rw [h3]; simp [Fw.callStart]
  · rw [h4]; simp [Fw.callStart]
  · rw [h5]; simp [Fw.callStart]
  · rw [h7, modRt_fault_some _ mi _ _ (by simpa using hr0)]; rfl
  · rw [h8]; simp [Fw.callStart]
  · rw [h9]; simp [Fw.callStart]

theorem call_timerBegin_keep (mi : Nat) (t : Int) (s : Fw σ) (r : Runtime) (m : Machine) (st : State)
    (hr : s.rt[mi]? = some r) (hm : s.machines[mi]? = some m) (hne : r.currentState ≠ STATE_END)
    (hst : m.states[r.currentState]? = some st) (htr : st.transitions[Event.timerBegin.toNat]? = some none)
    (hsig : s.signalPending = none)
    (hk : ∀ a, st.action = some a → a.hasLimit = true → 2 ≤ r.stateLimit) :
    CallKeep mi .timerBegin r
      { r with stateLimit := r.stateLimit - 1, zeroedA := false, zeroedB := false }
      { s.g with now := t } s
      (triggerEvents ρ [.timerBegin mi] t s) := by
  unfold triggerEvents
  simp only [List.foldl]
  have hr0 := callStart_rt s t mi r hr
  have hm0 : (s.callStart t).machines[mi]? = some m := hm
  rw [processEvent_timerBegin_noTrans ρ mi (s.callStart t) _ m st hr0 hm0 hne hst htr]
  obtain ⟨h1, h2, h3, h4, h5, h6, h7, h8, h9⟩ :=
    decrement_round_keep ρ mi (.trans mi Event.timerBegin.toNat r.currentState) _ _ m st hr0 hm0 hst
      (by simpa [Fw.callStart] using hsig) hk
  refine ⟨h1, fun j hj => ?_, ?_, ?_, ?_, h6, ?_, ?_, ?_⟩
  · rw [h2 j hj]
    simp [Fw.callStart, List.getElem?_map]
  · rw [h3]; simp [Fw.callStart]
  · rw [h4]; simp [Fw.callStart]
  · rw [h5]; simp [Fw.callStart]
  · rw [h7]; rfl
  · rw [h8]; simp [Fw.callStart]
  · rw [h9]; simp [Fw.callStart]

/-- **The completion that uses the limit up** (the state's action has a limit and the limit is
    at most 1 when the completion is reported): after the delivery of the completion event and
    the decrement to 0 the framework is some `X` in which the machine's runtime is `r0` (limit 0),
    every slot is empty and the log holds exactly the delivery and the decrement; LimitReached is
    delivered to the machine in `X` at once (and then the signal round runs). In the log of the
    call the LimitReached delivery, in the machine's unchanged state, directly follows the
    decrement to 0 (the log is newest first). -/
structure CallFire (mi : Nat) (ev : Event) (r r0 : Runtime) (g' : Globals) (s u : Fw σ) : Prop where
  deliver : ∃ X : Fw σ, u = signalRound ρ (transition ρ FUEL mi .limitReached X).1 ∧
    X.rt[mi]? = some r0 ∧
    (∀ j, j ≠ mi → X.rt[j]? = (s.rt[j]?).map (fun r => { r with zeroedA := false, zeroedB := false })) ∧
    X.actions = s.actions.map (fun _ => none) ∧ X.machines = s.machines ∧ X.signalPending = none ∧
    X.fault = s.fault ∧ X.rng = s.rng ∧ X.g = g' ∧
    X.log = .limit mi 0 true :: .trans mi ev.toNat r.currentState :: s.log
  log : ∃ l, u.log = l ++ .trans mi Event.limitReached.toNat r.currentState :: .limit mi 0 true ::
    .trans mi ev.toNat r.currentState :: s.log

theorem call_paddingSent_fire (mi : Nat) (t : Int) (s : Fw σ) (r : Runtime) (m : Machine) (st : State) (a : Action)
    (hr : s.rt[mi]? = some r) (hm : s.machines[mi]? = some m) (hne : r.currentState ≠ STATE_END)
    (hst : m.states[r.currentState]? = some st) (htr : st.transitions[Event.paddingSent.toNat]? = some none)
    (hsig : s.signalPending = none) (hlen : mi < s.actions.length)
    (hact : st.action = some a) (hl : a.hasLimit = true) (h1 : r.stateLimit ≤ 1) :
    CallFire ρ mi .paddingSent r
      { r with stateLimit := 0, zeroedA := false, zeroedB := false,
               acct := { r.acct with paddingSent := r.acct.paddingSent + 1 } }
      { s.g with now := t, paddingSent := s.g.paddingSent + 1 } s
      (triggerEvents ρ [.paddingSent mi] t s) := by
  unfold triggerEvents
  simp only [List.foldl]
  have hr0 := callStart_rt s t mi r hr
  have hm0 : (s.callStart t).machines[mi]? = some m := hm
  rw [processEvent_paddingSent_noTrans ρ mi (s.callStart t) _ m st hr0 hm0 hne hst htr]
  have hrA : (({ s.callStart t with g := { (s.callStart t).g with paddingSent := (s.callStart t).g.paddingSent + 1 } } : Fw σ).modRt mi
            (fun r => { r with acct := { r.acct with paddingSent := r.acct.paddingSent + 1 } })).rt[mi]? =
      some { r with zeroedA := false, zeroedB := false, acct := { r.acct with paddingSent := r.acct.paddingSent + 1 } } := by
    rw [Fw.modRt_rt_self]
    simp [Fw.callStart, List.getElem?_map, hr]
  obtain ⟨X, hX, h1', h2, h3, h4, h5, h6, h7, h8, h9, hlog⟩ :=
    decrement_round_fire ρ mi (.trans mi Event.paddingSent.toNat r.currentState) _ _ m st a hrA (by simpa using hm0) hst
      hact hl h1 (by simpa [Fw.callStart] using hlen)
  refine ⟨⟨X, hX, h1', fun j hj => ?_, ?_, ?_, ?_, ?_, ?_, ?_, ?_⟩, ?_⟩
  · rw [h2 j hj, Fw.modRt_rt_other _ _ _ _ hj]
    simp [Fw.callStart, List.getElem?_map]
  · rw [h3]; simp [Fw.callStart]
  · rw [h4]; simp [Fw.callStart]
  · rw [h5]; simpa [Fw.callStart] using hsig
  · rw [h6, modRt_fault_some _ mi _ _ (by simpa using hr0)]; rfl
  · rw [h7]; simp [Fw.callStart]
  · rw [h8]; simp [Fw.callStart]
  · rw [h9]; simp [Fw.callStart]
  · obtain ⟨l, hl⟩ := hlog
    exact ⟨l, by rw [hl]; simp [Fw.callStart]⟩

theorem call_timerBegin_fire (mi : Nat) (t : Int) (s : Fw σ) (r : Runtime) (m : Machine) (st : State) (a : Action)
    (hr : s.rt[mi]? = some r) (hm : s.machines[mi]? = some m) (hne : r.currentState ≠ STATE_END)
    (hst : m.states[r.currentState]? = some st) (htr : st.transitions[Event.timerBegin.toNat]? = some none)
    (hsig : s.signalPending = none) (hlen : mi < s.actions.length)
    (hact : st.action = some a) (hl : a.hasLimit = true) (h1 : r.stateLimit ≤ 1) :
    CallFire ρ mi .timerBegin r
      { r with stateLimit := 0, zeroedA := false, zeroedB := false }
      { s.g with now := t } s
      (triggerEvents ρ [.timerBegin mi] t s) := by
  unfold triggerEvents
  simp only [List.foldl]
  have hr0 := callStart_rt s t mi r hr
  have hm0 : (s.callStart t).machines[mi]? = some m := hm
  rw [processEvent_timerBegin_noTrans ρ mi (s.callStart t) _ m st hr0 hm0 hne hst htr]
  obtain ⟨X, hX, h1', h2, h3, h4, h5, h6, h7, h8, h9, hlog⟩ :=
    decrement_round_fire ρ mi (.trans mi Event.timerBegin.toNat r.currentState) _ _ m st a hr0 hm0 hst
      hact hl h1 (by simpa [Fw.callStart] using hlen)
  refine ⟨⟨X, hX, h1', fun j hj => ?_, ?_, ?_, ?_, ?_, ?_, ?_, ?_⟩, ?_⟩
  · rw [h2 j hj]
    simp [Fw.callStart, List.getElem?_map]
  · rw [h3]; simp [Fw.callStart]
  · rw [h4]; simp [Fw.callStart]
  · rw [h5]; simpa [Fw.callStart] using hsig
  · rw [h6]; rfl
  · rw [h7]; simp [Fw.callStart]
  · rw [h8]; simp [Fw.callStart]
  · rw [h9]; simp [Fw.callStart]
  · obtain ⟨l, hl⟩ := hlog
    exact ⟨l, by rw [hl]; simp [Fw.callStart]⟩

/-! ### `k` completions in a row -/

/-- what `k` counted completions in a row (one per call), none of which uses the limit up, do -/
structure Counted (mi : Nat) (r' : Runtime) (s u : Fw σ) : Prop where
  rt : u.rt[mi]? = some r'
  machines : u.machines = s.machines
  signal : u.signalPending = s.signalPending
  actLen : u.actions.length = s.actions.length
  fault : u.fault = s.fault
  rng : u.rng = s.rng
  /-- LimitReached was never delivered to the machine, and its limit was never resampled -/
  log : ∃ l, u.log = l ++ s.log ∧ (∀ st', LogEntry.trans mi Event.limitReached.toNat st' ∉ l) ∧
    (∀ x, LogEntry.limit mi x false ∉ l)

theorem countdown_generic (mi : Nat) (E : TEvent) (ev : Event) (upd : RtAcct → RtAcct) (G : Int → Globals → Globals)
    (m : Machine) (st : State) (cur : Nat) (hev : ev ≠ .limitReached)
    (H : ∀ (t : Int) (s : Fw σ) (r : Runtime), s.rt[mi]? = some r → s.machines[mi]? = some m →
        r.currentState = cur → s.signalPending = none →
        (∀ a, st.action = some a → a.hasLimit = true → 2 ≤ r.stateLimit) →
        CallKeep mi ev r { r with stateLimit := r.stateLimit - 1, zeroedA := false, zeroedB := false, acct := upd r.acct }
          (G t s.g) s (triggerEvents ρ [E] t s))
    (ts : List Int) (s : Fw σ) (r : Runtime)
    (hr : s.rt[mi]? = some r) (hm : s.machines[mi]? = some m) (hcur : r.currentState = cur)
    (hsig : s.signalPending = none)
    (hk : ∀ a, st.action = some a → a.hasLimit = true → ts.length < r.stateLimit) :
    Counted mi
      { r with stateLimit := r.stateLimit - ts.length, zeroedA := r.zeroedA && ts.isEmpty,
               zeroedB := r.zeroedB && ts.isEmpty, acct := upd^[ts.length] r.acct }
      s (runCalls ρ s (ts.map (fun t => ([E], t)))) ∧
    (ts ≠ [] → (runCalls ρ s (ts.map (fun t => ([E], t)))).actions = s.actions.map (fun _ => none)) := by
  induction ts generalizing s r with
  | nil =>
    refine ⟨⟨?_, rfl, rfl, rfl, rfl, rfl, ⟨[], rfl, fun _ h => (by cases h), fun _ h => (by cases h)⟩⟩, fun h => absurd rfl h⟩
    simp [runCalls, hr]
  | cons t ts ih =>
    have hk1 : ∀ a, st.action = some a → a.hasLimit = true → 2 ≤ r.stateLimit := by
      intro a ha hl
      have := hk a ha hl
      simp only [List.length_cons] at this
      omega
    have hc := H t s r hr hm hcur hsig hk1
    have hk2 : ∀ a, st.action = some a → a.hasLimit = true →
        ts.length < ({ r with stateLimit := r.stateLimit - 1, zeroedA := false, zeroedB := false, acct := upd r.acct } : Runtime).stateLimit := by
      intro a ha hl
      have := hk a ha hl
      simp only [List.length_cons] at this
      show ts.length < r.stateLimit - 1
      omega
    obtain ⟨ih1, ih2⟩ := ih (triggerEvents ρ [E] t s) _ hc.rt (by rw [hc.machines]; exact hm) hcur hc.signal hk2
    have hrun : runCalls ρ s ((t :: ts).map (fun t => ([E], t))) =
        runCalls ρ (triggerEvents ρ [E] t s) (ts.map (fun t => ([E], t))) := by
      simp [runCalls]
    rw [hrun]
    obtain ⟨l0, hl0, hn0⟩ := hc.noLimitReached hev
    obtain ⟨l1, hl1, hn1, hx1⟩ := ih1.log
    refine ⟨⟨?_, ih1.machines.trans hc.machines, by rw [ih1.signal, hc.signal, hsig], ?_, ih1.fault.trans hc.fault,
      ih1.rng.trans hc.rng, ⟨l1 ++ l0, by rw [hl1, hl0, List.append_assoc], ?_, ?_⟩⟩, fun _ => ?_⟩
    · rw [ih1.rt]
      simp only [List.length_cons, Function.iterate_succ, Function.comp_apply, List.isEmpty_cons, Bool.and_false,
        Bool.false_and, Nat.sub_sub, Nat.add_comm 1]
    · rw [ih1.actLen, hc.actions]; simp
    · intro st' hmem
      rcases List.mem_append.mp hmem with h | h
      · exact hn1 st' h
      · exact hn0 st' h
    · intro x hmem
      rcases List.mem_append.mp hmem with h | h
      · exact hx1 x h
      · have hl0' : l0 = [.limit mi (r.stateLimit - 1) true, .trans mi ev.toNat r.currentState] := by
          have := hc.log
          rw [hl0] at this
          exact List.append_cancel_right (by simpa using this)
        rw [hl0'] at h
        simp at h
    · cases ts with
      | nil => simpa [runCalls] using hc.actions
      | cons t' ts' =>
        rw [ih2 (by simp), hc.actions]; simp

theorem iterate_paddingSent (k : Nat) (a : RtAcct) :
    (fun a : RtAcct => { a with paddingSent := a.paddingSent + 1 })^[k] a = { a with paddingSent := a.paddingSent + k } := by
  induction k generalizing a with
  | zero => rfl
  | succ k ih =>
    rw [Function.iterate_succ, Function.comp_apply, ih]
    simp only [Nat.add_assoc, Nat.add_comm 1]

/-- **Countdown, PaddingSent**: `k = ts.length` calls in a row, each reporting one PaddingSent for
    machine `mi` whose current state `cur` has no transition on PaddingSent. If the state's action
    has a limit, `k` is less than the limit `L = r.stateLimit` (so that no call uses it up); if it
    has none, `k` is arbitrary. Then the machine is still in `cur`, its limit is `L - k`, it has
    accounted `k` more padding packets, LimitReached was never delivered to it and its limit was
    never resampled. -/
theorem countdown_paddingSent (mi : Nat) (m : Machine) (st : State) (ts : List Int) (s : Fw σ) (r : Runtime)
    (hr : s.rt[mi]? = some r) (hm : s.machines[mi]? = some m) (hne : r.currentState ≠ STATE_END)
    (hst : m.states[r.currentState]? = some st) (htr : st.transitions[Event.paddingSent.toNat]? = some none)
    (hsig : s.signalPending = none)
    (hk : ∀ a, st.action = some a → a.hasLimit = true → ts.length < r.stateLimit) :
    Counted mi
      { r with stateLimit := r.stateLimit - ts.length, zeroedA := r.zeroedA && ts.isEmpty,
               zeroedB := r.zeroedB && ts.isEmpty,
               acct := { r.acct with paddingSent := r.acct.paddingSent + ts.length } }
      s (runCalls ρ s (ts.map (fun t => ([TEvent.paddingSent mi], t)))) ∧
    (ts ≠ [] → (runCalls ρ s (ts.map (fun t => ([TEvent.paddingSent mi], t)))).actions = s.actions.map (fun _ => none)) := by
  have := countdown_generic ρ mi (.paddingSent mi) .paddingSent
    (fun a => { a with paddingSent := a.paddingSent + 1 })
    (fun t g => { g with now := t, paddingSent := g.paddingSent + 1 }) m st r.currentState (by decide)
    (fun t s' r' hr' hm' hcur' hsig' hk' =>
      call_paddingSent_keep ρ mi t s' r' m st hr' hm' (by rw [hcur']; exact hne) (by rw [hcur']; exact hst) htr hsig' hk')
    ts s r hr hm rfl hsig hk
  rw [iterate_paddingSent] at this
  exact this

/-- **Countdown, TimerBegin**: the same for `k` calls each reporting one TimerBegin for `mi`. -/
theorem countdown_timerBegin (mi : Nat) (m : Machine) (st : State) (ts : List Int) (s : Fw σ) (r : Runtime)
    (hr : s.rt[mi]? = some r) (hm : s.machines[mi]? = some m) (hne : r.currentState ≠ STATE_END)
    (hst : m.states[r.currentState]? = some st) (htr : st.transitions[Event.timerBegin.toNat]? = some none)
    (hsig : s.signalPending = none)
    (hk : ∀ a, st.action = some a → a.hasLimit = true → ts.length < r.stateLimit) :
    Counted mi
      { r with stateLimit := r.stateLimit - ts.length, zeroedA := r.zeroedA && ts.isEmpty,
               zeroedB := r.zeroedB && ts.isEmpty }
      s (runCalls ρ s (ts.map (fun t => ([TEvent.timerBegin mi], t)))) ∧
    (ts ≠ [] → (runCalls ρ s (ts.map (fun t => ([TEvent.timerBegin mi], t)))).actions = s.actions.map (fun _ => none)) := by
  have := countdown_generic ρ mi (.timerBegin mi) .timerBegin id
    (fun t g => { g with now := t }) m st r.currentState (by decide)
    (fun t s' r' hr' hm' hcur' hsig' hk' =>
      call_timerBegin_keep ρ mi t s' r' m st hr' hm' (by rw [hcur']; exact hne) (by rw [hcur']; exact hst) htr hsig' hk')
    ts s r hr hm rfl hsig hk
  rw [Function.iterate_id] at this
  exact this

/-- **The `L`-th completion**: after `L - 1` counted PaddingSent completions (`L` the sampled limit
    of a state whose action has a limit; also `L = 0` with no previous completion), the next
    PaddingSent for the machine uses the limit up and LimitReached is delivered in that call. -/
theorem countdown_paddingSent_fire (mi : Nat) (m : Machine) (st : State) (a : Action) (ts : List Int) (t : Int)
    (s : Fw σ) (r : Runtime)
    (hr : s.rt[mi]? = some r) (hm : s.machines[mi]? = some m) (hne : r.currentState ≠ STATE_END)
    (hst : m.states[r.currentState]? = some st) (htr : st.transitions[Event.paddingSent.toNat]? = some none)
    (hsig : s.signalPending = none) (hlen : mi < s.actions.length)
    (hact : st.action = some a) (hl : a.hasLimit = true) (hL : ts.length = r.stateLimit - 1) :
    runCalls ρ s ((ts ++ [t]).map (fun t => ([TEvent.paddingSent mi], t))) =
      triggerEvents ρ [.paddingSent mi] t (runCalls ρ s (ts.map (fun t => ([TEvent.paddingSent mi], t)))) ∧
    CallFire ρ mi .paddingSent
      { r with stateLimit := r.stateLimit - ts.length, zeroedA := r.zeroedA && ts.isEmpty,
               zeroedB := r.zeroedB && ts.isEmpty,
               acct := { r.acct with paddingSent := r.acct.paddingSent + ts.length } }
      { r with stateLimit := 0, zeroedA := false, zeroedB := false,
               acct := { r.acct with paddingSent := r.acct.paddingSent + ts.length + 1 } }
      { (runCalls ρ s (ts.map (fun t => ([TEvent.paddingSent mi], t)))).g with
          now := t, paddingSent := (runCalls ρ s (ts.map (fun t => ([TEvent.paddingSent mi], t)))).g.paddingSent + 1 }
      (runCalls ρ s (ts.map (fun t => ([TEvent.paddingSent mi], t))))
      (triggerEvents ρ [.paddingSent mi] t (runCalls ρ s (ts.map (fun t => ([TEvent.paddingSent mi], t))))) := by
  refine ⟨by simp [runCalls, List.foldl_append], ?_⟩
  have hk : ∀ a', st.action = some a' → a'.hasLimit = true → ts.length < r.stateLimit ∨ ts = [] := by
    intro _ _ _
    by_cases h0 : r.stateLimit = 0
    · right; exact List.length_eq_zero_iff.mp (by omega)
    · left; omega
  by_cases hts : ts = []
  · subst hts
    have h1 : r.stateLimit ≤ 1 := by simp at hL; omega
    have := call_paddingSent_fire ρ mi t s r m st a hr hm hne hst htr hsig hlen hact hl h1
    simpa [runCalls] using this
  · have hk' : ∀ a', st.action = some a' → a'.hasLimit = true → ts.length < r.stateLimit := by
      intro a' h1 h2
      rcases hk a' h1 h2 with h | h
      · exact h
      · exact absurd h hts
    obtain ⟨hc, _⟩ := countdown_paddingSent ρ mi m st ts s r hr hm hne hst htr hsig hk'
    have := call_paddingSent_fire ρ mi t _ _ m st a hc.rt (by rw [hc.machines]; exact hm) hne hst htr
      (by rw [hc.signal]; exact hsig) (by rw [hc.actLen]; exact hlen) hact hl
      (by show r.stateLimit - ts.length ≤ 1; omega)
    exact this

/-! ### steps that leave machine `mi` alone and deliver no LimitReached to it -/

/-- weight 1 on the LimitReached deliveries to machine `mi` -/
def μLR (mi : Nat) : LogEntry → Nat
  | .trans m ev _ => if m = mi ∧ ev = Gen.EV_LimitReached then 1 else 0
  | _ => 0

theorem μLR_transOnly (mi : Nat) : TransOnly (μLR mi) := by
  intro e he
  cases e with
  | trans m ev st => exact absurd rfl (he m ev st)
  | _ => rfl

/-- LimitReached events delivered to machine `mi` according to the log -/
def lrOf (mi : Nat) (s : Fw σ) : Nat := wsum (μLR mi) s.log

theorem toNat_limitReached (ev : Event) : ev.toNat = Gen.EV_LimitReached ↔ ev = .limitReached := by
  cases ev <;> decide

theorem lr_transition (mi j : Nat) (ev : Event) (s : Fw σ) :
    lrOf mi (transition ρ FUEL j ev s).1 ≤ lrOf mi s + (if j = mi ∧ ev = .limitReached then 1 else 0) := by
  have := (count_main ρ (μLR_transOnly mi) 0 FUEL).1 j ev (if j = mi ∧ ev = .limitReached then 1 else 0) s
    (fun st => by
      simp only [μLR, toNat_limitReached]
      split <;> simp_all)
    (fun st => by
      simp only [μLR]
      have : ¬ (Event.counterZero.toNat = Gen.EV_LimitReached) := by decide
      simp [this])
  unfold lrOf; omega

theorem lr_same {mi : Nat} {s t : Fw σ} (h : t.log = s.log) : lrOf mi t = lrOf mi s := by
  unfold lrOf; rw [h]

theorem lr_push (mi : Nat) (s : Fw σ) (e : LogEntry) (he : μLR mi e = 0) : lrOf mi (s.push e) = lrOf mi s := by
  simp [lrOf, Fw.push, wsum_cons, he]

theorem lr_decrement_other (mi j : Nat) (s : Fw σ) (hj : j ≠ mi) : lrOf mi (decrementLimit ρ j s) ≤ lrOf mi s := by
  unfold decrementLimit
  cases hr : s.rt[j]? with
  | none => exact Nat.le_of_eq (lr_same (by simp))
  | some r =>
  cases hm : s.machines[j]? with
  | none => exact Nat.le_of_eq (lr_same (by simp))
  | some m =>
  simp only []
  generalize (if r.stateLimit > 0 then r.stateLimit - 1 else r.stateLimit) = lim
  have h1 : lrOf mi ((s.modRt j (fun r' => { r' with stateLimit := lim })).push (.limit j lim true)) = lrOf mi s :=
    (lr_push mi _ _ rfl).trans (lr_same (by simp))
  generalize (s.modRt j (fun r' => { r' with stateLimit := lim })).push (.limit j lim true) = s1 at h1 ⊢
  cases hst : m.states[r.currentState]? with
  | none => exact Nat.le_of_eq ((lr_same (by simp)).trans h1)
  | some st =>
  simp only []
  cases hact : st.action with
  | none => exact Nat.le_of_eq h1
  | some a =>
    simp only []
    split
    · split
      · exact Nat.le_of_eq ((lr_same (by simp)).trans h1)
      · have := lr_transition ρ mi j .limitReached { s1 with actions := s1.actions.set j none }
        simp only [hj, false_and, if_false, Nat.add_zero] at this
        exact Nat.le_trans this (Nat.le_of_eq ((lr_same (t := { s1 with actions := s1.actions.set j none }) rfl).trans h1))
    · exact Nat.le_of_eq h1

theorem wsum_append (μ : LogEntry → Nat) (l l' : List LogEntry) : wsum μ (l ++ l') = wsum μ l + wsum μ l' := by
  simp [wsum]

theorem wsum_mem_le (μ : LogEntry → Nat) (l : List LogEntry) (e : LogEntry) (h : e ∈ l) : μ e ≤ wsum μ l := by
  induction l with
  | nil => cases h
  | cons a l ih =>
    rw [wsum_cons]
    rcases List.mem_cons.mp h with h' | h'
    · subst h'; omega
    · have := ih h'; omega

/-- a log segment over which the LimitReached count of `mi` did not grow holds no LimitReached
    delivery to `mi` -/
theorem noLR_of_le {mi : Nat} {s u : Fw σ} {l : List LogEntry} (hl : u.log = l ++ s.log) (hle : lrOf mi u ≤ lrOf mi s) :
    ∀ st', LogEntry.trans mi Event.limitReached.toNat st' ∉ l := by
  intro st' hmem
  unfold lrOf at hle
  rw [hl, wsum_append] at hle
  have h0 : wsum (μLR mi) l = 0 := by omega
  have : μLR mi (.trans mi Event.limitReached.toNat st') ≤ wsum (μLR mi) l := wsum_mem_le _ _ _ hmem
  rw [h0] at this
  simp [μLR] at this
  exact this (by decide)

/-- `t` agrees with `s` on everything that belongs to machine `mi` (the machine, its runtime, its
    slot), its log extends that of `s`, and LimitReached was not delivered to `mi` in between -/
structure Quiet (mi : Nat) (s t : Fw σ) : Prop where
  m : t.machines[mi]? = s.machines[mi]?
  rt : t.rt[mi]? = s.rt[mi]?
  act : t.actions[mi]? = s.actions[mi]?
  lr : lrOf mi t ≤ lrOf mi s
  ext : LogExt s t

theorem Quiet.refl (mi : Nat) (s : Fw σ) : Quiet mi s s := ⟨rfl, rfl, rfl, Nat.le_refl _, LogExt.refl _⟩

theorem Quiet.trans {mi : Nat} {s t u : Fw σ} (h₁ : Quiet mi s t) (h₂ : Quiet mi t u) : Quiet mi s u :=
  ⟨h₂.m.trans h₁.m, h₂.rt.trans h₁.rt, h₂.act.trans h₁.act, Nat.le_trans h₂.lr h₁.lr, h₁.ext.trans h₂.ext⟩

theorem Quiet.ofSame {mi : Nat} {s t : Fw σ} (h : Same mi s t) (hlr : lrOf mi t ≤ lrOf mi s) (hext : LogExt s t) :
    Quiet mi s t := ⟨h.m, h.rt, h.act, hlr, hext⟩

theorem Quiet.sameLog {mi : Nat} {s t : Fw σ} (h : Same mi s t) (hl : t.log = s.log) : Quiet mi s t :=
  Quiet.ofSame h (Nat.le_of_eq (lr_same hl)) (LogExt.ofEq hl)

theorem Quiet.setG (mi : Nat) (s : Fw σ) (g' : Globals) : Quiet mi s { s with g := g' } :=
  ⟨rfl, rfl, rfl, Nat.le_refl _, LogExt.refl _⟩

theorem Quiet.modRt_other (mi j : Nat) (s : Fw σ) (f : Runtime → Runtime) (hj : j ≠ mi) : Quiet mi s (s.modRt j f) :=
  ⟨by simp, Fw.modRt_rt_other s j mi f (Ne.symm hj), by simp, Nat.le_of_eq (lr_same (by simp)), LogExt.ofEq (by simp)⟩

theorem quiet_transition_other (mi j : Nat) (ev : Event) (s : Fw σ) (hj : j ≠ mi) :
    Quiet mi s (transition ρ FUEL j ev s).1 := by
  refine Quiet.ofSame (Same.ofFrame (transition_reach ρ FUEL j ev s).frame (Ne.symm hj)) ?_ (logExt_transition ρ _ _ _ _)
  have := lr_transition ρ mi j ev s
  simpa [hj] using this

theorem quiet_decrement_other (mi j : Nat) (s : Fw σ) (hj : j ≠ mi) : Quiet mi s (decrementLimit ρ j s) :=
  Quiet.ofSame (Same.ofFrame (decrementLimit_reach ρ j s).frame (Ne.symm hj)) (lr_decrement_other ρ mi j s hj)
    (logExt_decrement ρ _ _)

/-- a delivery to `mi` itself in a state without a transition vector for the event -/
theorem transition_noVec_same (mi : Nat) (ev : Event) (fuel : Nat) (s : Fw σ) (r : Runtime) (m : Machine)
    (hr : s.rt[mi]? = some r) (hm : s.machines[mi]? = some m)
    (hnv : ∀ st vec, m.states[r.currentState]? = some st → st.transitions[ev.toNat]? ≠ some (some vec)) :
    Same mi s (transition ρ fuel mi ev s).1 := by
  cases fuel with
  | zero => rw [transition]; exact Same.withFault _ _ _
  | succ n =>
    rw [transition, hr, hm]
    simp only []
    split
    · exact Same.push _ _ _
    · cases hst : m.states[r.currentState]? with
      | none => exact (Same.push _ _ _).trans (Same.withFault _ _ _)
      | some st =>
        simp only []
        cases htr : st.transitions[ev.toNat]? with
        | none => exact (Same.push _ _ _).trans (Same.withFault _ _ _)
        | some ov =>
          cases ov with
          | none => exact Same.push _ _ _
          | some vec => exact absurd htr (hnv st vec hst)

theorem quiet_transition_noVec (mi : Nat) (ev : Event) (hev : ev ≠ .limitReached) (s : Fw σ) (r : Runtime) (m : Machine)
    (hr : s.rt[mi]? = some r) (hm : s.machines[mi]? = some m)
    (hnv : ∀ st vec, m.states[r.currentState]? = some st → st.transitions[ev.toNat]? ≠ some (some vec)) :
    Quiet mi s (transition ρ FUEL mi ev s).1 := by
  refine Quiet.ofSame (transition_noVec_same ρ mi ev FUEL s r m hr hm hnv) ?_ (logExt_transition ρ _ _ _ _)
  have := lr_transition ρ mi mi ev s
  simpa [hev] using this

/-- machine `mi` is `m` and is in state `cur` -/
def InState (mi : Nat) (m : Machine) (cur : Nat) (s : Fw σ) : Prop :=
  s.machines[mi]? = some m ∧ ∃ r, s.rt[mi]? = some r ∧ r.currentState = cur

theorem InState.same {mi : Nat} {m : Machine} {cur : Nat} {s t : Fw σ} (h : InState mi m cur s) (hs : Quiet mi s t) :
    InState mi m cur t := by
  obtain ⟨h1, r, h2, h3⟩ := h
  exact ⟨by rw [hs.m]; exact h1, r, by rw [hs.rt]; exact h2, h3⟩

theorem fold_quiet {mi : Nat} {m : Machine} {cur : Nat} (F : Fw σ → Nat → Fw σ)
    (hF : ∀ s j, InState mi m cur s → Quiet mi s (F s j)) (l : List Nat) (s : Fw σ) (hs : InState mi m cur s) :
    Quiet mi s (l.foldl F s) := by
  induction l generalizing s with
  | nil => exact Quiet.refl _ _
  | cons j t ih =>
    have h1 := hF s j hs
    exact h1.trans (ih _ (hs.same h1))

/-- the signal round leaves a machine alone whose current state has no transition on Signal -/
theorem signalRound_quiet (mi : Nat) (m : Machine) (cur : Nat)
    (hns : ∀ st vec, m.states[cur]? = some st → st.transitions[Event.signal.toNat]? ≠ some (some vec))
    (s : Fw σ) (hs : InState mi m cur s) : Quiet mi s (signalRound ρ s) := by
  have hT : ∀ (a : Fw σ) (j : Nat), InState mi m cur a → Quiet mi a (transition ρ FUEL j .signal a).1 := by
    intro a j ha
    by_cases hj : j = mi
    · subst hj
      obtain ⟨h1, r, h2, h3⟩ := ha
      exact quiet_transition_noVec ρ j .signal (by decide) a r m h2 h1 (by rw [h3]; exact hns)
    · exact quiet_transition_other ρ mi j .signal a hj
  have hSig : ∀ (a : Fw σ) (p : Option SignalTarget), Quiet mi a { a with signalPending := p } :=
    fun a p => Quiet.sameLog (Same.signal _ _ _) rfl
  have hFold : ∀ (excluded : Option Nat) (n : Nat) (a : Fw σ), InState mi m cur a →
      Quiet mi a ((List.range n).foldl (fun s j =>
        if (excluded == some j) = true then s else (transition ρ FUEL j .signal s).1) a) := by
    intro excluded n a ha
    refine fold_quiet _ (fun b j hb => ?_) _ a ha
    split
    · exact Quiet.refl _ _
    · exact hT b j hb
  unfold signalRound
  cases hsig : s.signalPending with
  | none => exact Quiet.refl _ _
  | some sig =>
    have h1 : Quiet mi s { s with signalPending := none } := hSig s none
    have hs1 : InState mi m cur ({ s with signalPending := none } : Fw σ) := hs.same h1
    cases sig with
    | all =>
      simp only []
      have h3 := h1.trans (hFold none s.rt.length { s with signalPending := none } hs1)
      generalize ((List.range s.rt.length).foldl (fun s j =>
          if ((none : Option Nat) == some j) = true then s else (transition ρ FUEL j .signal s).1)
          ({ s with signalPending := none } : Fw σ)) = s2 at h3 ⊢
      cases hs2 : s2.signalPending with
      | none => exact h3
      | some _ => exact h3.trans (hSig s2 none)
    | allExcept x =>
      simp only []
      have h3 := h1.trans (hFold (some x) s.rt.length { s with signalPending := none } hs1)
      generalize ((List.range s.rt.length).foldl (fun s j =>
          if (some x == some j) = true then s else (transition ρ FUEL j .signal s).1)
          ({ s with signalPending := none } : Fw σ)) = s2 at h3 ⊢
      cases hs2 : s2.signalPending with
      | none => exact h3
      | some _ =>
        simp only []
        have h4 := h3.trans (hSig s2 none)
        exact h4.trans (hT _ x (hs.same h4))

/-! ### completions reported for other machines -/

theorem quiet_transDec_other (mi j : Nat) (ev : Event) (s : Fw σ) (hj : j ≠ mi) (c : Fw σ × Bool → Bool) :
    Quiet mi s (if c (transition ρ FUEL j ev s) = true then decrementLimit ρ j (transition ρ FUEL j ev s).1
                else (transition ρ FUEL j ev s).1) := by
  split
  · exact (quiet_transition_other ρ mi j ev s hj).trans (quiet_decrement_other ρ mi j _ hj)
  · exact quiet_transition_other ρ mi j ev s hj

/-- the three completion events, reported for machine `j` -/
inductive CompletionFor (j : Nat) : TEvent → Prop
  | paddingSent : CompletionFor j (.paddingSent j)
  | blockingBegin : CompletionFor j (.blockingBegin j)
  | timerBegin : CompletionFor j (.timerBegin j)

/-- a completion reported for another machine `j ≠ mi` (or for an unknown id) leaves machine `mi`
    alone — provided, for BlockingBegin (which is delivered to every machine), that `mi`'s current
    state has no transition on BlockingBegin -/
theorem processEvent_other_quiet (mi j : Nat) (hj : j ≠ mi) (m : Machine) (cur : Nat) (E : TEvent)
    (hE : CompletionFor j E)
    (hbb : E = .blockingBegin j →
      ∀ st vec, m.states[cur]? = some st → st.transitions[Event.blockingBegin.toNat]? ≠ some (some vec))
    (s : Fw σ) (hs : InState mi m cur s) : Quiet mi s (processEvent ρ E s) := by
  cases hE with
  | paddingSent =>
    simp only [processEvent]
    refine (Quiet.setG mi s { s.g with paddingSent := s.g.paddingSent + 1 }).trans ?_
    split
    · exact Quiet.refl _ _
    · exact (Quiet.modRt_other mi j _ _ hj).trans
        (quiet_transDec_other ρ mi j .paddingSent _ hj (fun p => !p.2 && notEnded p.1 j))
  | timerBegin =>
    simp only [processEvent]
    split
    · exact Quiet.refl _ _
    · exact quiet_transDec_other ρ mi j .timerBegin _ hj (fun p => !p.2 && notEnded p.1 j)
  | blockingBegin =>
    simp only [processEvent]
    have h1 : Quiet mi s (if !s.g.blockingActive then
        { s with g := { s.g with blockingActive := true, blockingStarted := s.g.now } } else s) := by
      split
      · exact Quiet.setG mi s _
      · exact Quiet.refl _ _
    refine h1.trans (fold_quiet _ (fun a k ha => ?_) _ _ (hs.same h1))
    by_cases hk : k = mi
    · subst hk
      obtain ⟨ha1, r, ha2, ha3⟩ := ha
      have hb : (k == j) = false := by simpa using (Ne.symm hj)
      have hq := quiet_transition_noVec ρ k .blockingBegin (by decide) a r m ha2 ha1 (by rw [ha3]; exact hbb rfl)
      show Quiet k a (if (fun p : Fw σ × Bool => !p.2 && notEnded p.1 k && k == j) (transition ρ FUEL k .blockingBegin a) = true
        then decrementLimit ρ k (transition ρ FUEL k .blockingBegin a).1 else (transition ρ FUEL k .blockingBegin a).1)
      simp only [hb, Bool.and_false, Bool.false_eq_true, if_false]
      exact hq
    · exact quiet_transDec_other ρ mi k .blockingBegin a hk (fun p => !p.2 && notEnded p.1 k && k == j)

/-- **A completion reported for another machine never consumes the limit**: in a single-event call
    that reports a completion for `j ≠ mi`, machine `mi` keeps its state, its limit, its counters
    and its accounting (only the per-call CounterZero flags are reset by the start of the call),
    its slot is empty and LimitReached is not delivered to it — provided its current state has no
    transition on Signal (a neighbour may signal) and, for BlockingBegin, none on BlockingBegin
    (that event is delivered to every machine). Nothing is assumed about the pending-signal slot,
    the other machines or the well-formedness of the framework. -/
theorem other_machine_completion (mi j : Nat) (hj : j ≠ mi) (E : TEvent) (hE : CompletionFor j E)
    (t : Int) (s : Fw σ) (r : Runtime) (m : Machine)
    (hr : s.rt[mi]? = some r) (hm : s.machines[mi]? = some m)
    (hns : ∀ st vec, m.states[r.currentState]? = some st → st.transitions[Event.signal.toNat]? ≠ some (some vec))
    (hbb : E = .blockingBegin j →
      ∀ st vec, m.states[r.currentState]? = some st → st.transitions[Event.blockingBegin.toNat]? ≠ some (some vec)) :
    (triggerEvents ρ [E] t s).rt[mi]? = some { r with zeroedA := false, zeroedB := false } ∧
    (triggerEvents ρ [E] t s).actions[mi]? = (s.actions[mi]?).map (fun _ => none) ∧
    (triggerEvents ρ [E] t s).machines[mi]? = some m ∧
    ∃ l, (triggerEvents ρ [E] t s).log = l ++ s.log ∧ ∀ st', LogEntry.trans mi Event.limitReached.toNat st' ∉ l := by
  unfold triggerEvents
  simp only [List.foldl]
  have hr0 := callStart_rt s t mi r hr
  have hs0 : InState mi m r.currentState (s.callStart t) := ⟨hm, _, hr0, rfl⟩
  have h1 := processEvent_other_quiet ρ mi j hj m r.currentState E hE hbb _ hs0
  have h2 := h1.trans (signalRound_quiet ρ mi m r.currentState hns _ (hs0.same h1))
  refine ⟨by rw [h2.rt, hr0], ?_, by rw [h2.m]; exact hm, ?_⟩
  · rw [h2.act]; simp only [Fw.callStart, List.getElem?_map]
  · obtain ⟨l, hl⟩ := h2.ext
    exact ⟨l, hl, noLR_of_le (s := s.callStart t) hl h2.lr⟩

/-! ### BlockingBegin for the machine itself: delivered to every machine, counted for one -/

/-- a loop over distinct machines in which only the visit of `mi` turns `Pre` into `Post` -/
theorem fold_visit_once {Pre Post : Fw σ → Prop} (F : Fw σ → Nat → Fw σ) (mi : Nat)
    (hPre : ∀ s j, j ≠ mi → Pre s → Pre (F s j))
    (hPost : ∀ s j, j ≠ mi → Post s → Post (F s j))
    (hself : ∀ s, Pre s → Post (F s mi))
    (l : List Nat) (hnd : l.Nodup) (hmem : mi ∈ l) (s : Fw σ) (hs : Pre s) : Post (l.foldl F s) := by
  have hrest : ∀ (l : List Nat), mi ∉ l → ∀ s, Post s → Post (l.foldl F s) := by
    intro l
    induction l with
    | nil => intro _ s hs; exact hs
    | cons a l ih =>
      intro hni s hs
      simp only [List.mem_cons, not_or] at hni
      exact ih hni.2 _ (hPost s a (fun h => hni.1 h.symm) hs)
  induction l generalizing s with
  | nil => cases hmem
  | cons a l ih =>
    simp only [List.nodup_cons] at hnd
    simp only [List.foldl_cons]
    by_cases ha : a = mi
    · subst ha
      exact hrest l hnd.1 _ (hself s hs)
    · have : mi ∈ l := by
        rcases List.mem_cons.mp hmem with h | h
        · exact absurd h.symm ha
        · exact h
      exact ih hnd.2 this _ (hPre s a ha hs)

/-- the visit of machine `mi` itself in the BlockingBegin loop for `mi`, in a state without a
    transition on BlockingBegin: the delivery is logged, then the decrement runs -/
theorem bbStep_self (mi : Nat) (a : Fw σ) (r : Runtime) (m : Machine) (st : State)
    (hr : a.rt[mi]? = some r) (hm : a.machines[mi]? = some m) (hne : r.currentState ≠ STATE_END)
    (hst : m.states[r.currentState]? = some st) (htr : st.transitions[Event.blockingBegin.toNat]? = some none) :
    (if (fun p : Fw σ × Bool => !p.2 && notEnded p.1 mi && mi == mi) (transition ρ FUEL mi .blockingBegin a) = true
      then decrementLimit ρ mi (transition ρ FUEL mi .blockingBegin a).1 else (transition ρ FUEL mi .blockingBegin a).1) =
    decrementLimit ρ mi (a.push (.trans mi Event.blockingBegin.toNat r.currentState)) := by
  rw [transition_noTrans ρ mi .blockingBegin a r m st hr hm hne hst htr]
  have := notEnded_of mi (a.push (.trans mi Event.blockingBegin.toNat r.currentState)) r hr hne
  simp [this]

theorem decrement_fire_log (mi : Nat) (e : LogEntry) (A : Fw σ) (rA : Runtime) (m : Machine) (st : State) (a : Action)
    (hrA : A.rt[mi]? = some rA) (hm : A.machines[mi]? = some m) (hst : m.states[rA.currentState]? = some st)
    (hact : st.action = some a) (hl : a.hasLimit = true) (h1 : rA.stateLimit ≤ 1) (hlen : mi < A.actions.length) :
    ∃ l, (decrementLimit ρ mi (A.push e)).log =
      l ++ .trans mi Event.limitReached.toNat rA.currentState :: .limit mi 0 true :: e :: A.log := by
  rw [decrementLimit_fire ρ mi (A.push e) rA m st a hrA hm hst hact hl h1 hlen]
  have hrX : ({ ((A.push e).modRt mi (fun r' => { r' with stateLimit := 0 })).push (.limit mi 0 true) with
      actions := (A.push e).actions.set mi none } : Fw σ).rt[mi]? = some { rA with stateLimit := 0 } := by
    show ((A.push e).modRt mi (fun r' => { r' with stateLimit := 0 })).rt[mi]? = _
    rw [Fw.modRt_rt_self, Fw.push_rt, hrA]; rfl
  have hmX : ({ ((A.push e).modRt mi (fun r' => { r' with stateLimit := 0 })).push (.limit mi 0 true) with
      actions := (A.push e).actions.set mi none } : Fw σ).machines[mi]? = some m := by simpa using hm
  obtain ⟨l, hl⟩ := transition_logFirst ρ 7 mi .limitReached _ _ m hrX hmX
  refine ⟨l, ?_⟩
  rw [show (7 + 1 : Nat) = FUEL from rfl] at hl
  rw [hl]
  simp [Fw.push]

theorem μLR_blockingBegin (mi k st' : Nat) : μLR mi (.trans k Event.blockingBegin.toNat st') = 0 := by
  show (if k = mi ∧ Event.blockingBegin.toNat = Gen.EV_LimitReached then 1 else 0) = 0
  rw [if_neg]
  rintro ⟨_, h⟩
  revert h
  decide

/-- the loop body of BlockingBegin for `mi`, for another machine -/
theorem bbStep_other (mi k : Nat) (hk : k ≠ mi) (a : Fw σ) :
    Quiet mi a (if (fun p : Fw σ × Bool => !p.2 && notEnded p.1 k && k == mi) (transition ρ FUEL k .blockingBegin a) = true
      then decrementLimit ρ k (transition ρ FUEL k .blockingBegin a).1 else (transition ρ FUEL k .blockingBegin a).1) :=
  quiet_transDec_other ρ mi k .blockingBegin a hk (fun p => !p.2 && notEnded p.1 k && k == mi)

/-- **BlockingBegin for `mi`, counted, limit not used up** -/
theorem call_blockingBegin_keep (mi : Nat) (t : Int) (s : Fw σ) (r : Runtime) (m : Machine) (st : State)
    (hr : s.rt[mi]? = some r) (hm : s.machines[mi]? = some m) (hne : r.currentState ≠ STATE_END)
    (hst : m.states[r.currentState]? = some st) (htr : st.transitions[Event.blockingBegin.toNat]? = some none)
    (hns : ∀ vec, st.transitions[Event.signal.toNat]? ≠ some (some vec))
    (hk : ∀ a, st.action = some a → a.hasLimit = true → 2 ≤ r.stateLimit) :
    (triggerEvents ρ [.blockingBegin mi] t s).rt[mi]? =
      some { r with stateLimit := r.stateLimit - 1, zeroedA := false, zeroedB := false } ∧
    (triggerEvents ρ [.blockingBegin mi] t s).actions[mi]? = (s.actions[mi]?).map (fun _ => none) ∧
    (triggerEvents ρ [.blockingBegin mi] t s).machines[mi]? = some m ∧
    ∃ l, (triggerEvents ρ [.blockingBegin mi] t s).log = l ++ s.log ∧
      (∀ st', LogEntry.trans mi Event.limitReached.toNat st' ∉ l) ∧
      ∃ l1 l2, l = l1 ++ .limit mi (r.stateLimit - 1) true :: .trans mi Event.blockingBegin.toNat r.currentState :: l2 := by
  unfold triggerEvents
  simp only [List.foldl, processEvent]
  have hr0 := callStart_rt s t mi r hr
  generalize hb : (if !(s.callStart t).g.blockingActive then
      ({ s.callStart t with g := { (s.callStart t).g with blockingActive := true, blockingStarted := (s.callStart t).g.now } } : Fw σ)
      else s.callStart t) = b
  have hqb : Quiet mi (s.callStart t) b := by
    subst hb; split
    · exact Quiet.setG mi _ _
    · exact Quiet.refl _ _
  have hlen : b.rt.length = (s.callStart t).rt.length := by
    subst hb; split <;> rfl
  have hmi : mi < b.rt.length := by
    rw [hlen]
    rcases Nat.lt_or_ge mi (s.callStart t).rt.length with h | h
    · exact h
    · simp [List.getElem?_eq_none h] at hr0
  -- the loop
  let r1 : Runtime := { r with stateLimit := r.stateLimit - 1, zeroedA := false, zeroedB := false }
  have hloop := fold_visit_once
    (Pre := fun a => Quiet mi (s.callStart t) a)
    (Post := fun a => a.machines[mi]? = some m ∧ a.rt[mi]? = some r1 ∧
      a.actions[mi]? = (s.callStart t).actions[mi]? ∧ lrOf mi a ≤ lrOf mi (s.callStart t) ∧
      ∃ l1 l2, a.log = l1 ++ .limit mi (r.stateLimit - 1) true :: .trans mi Event.blockingBegin.toNat r.currentState ::
        l2 ++ (s.callStart t).log)
    (fun a k => if (fun p : Fw σ × Bool => !p.2 && notEnded p.1 k && k == mi) (transition ρ FUEL k .blockingBegin a) = true
      then decrementLimit ρ k (transition ρ FUEL k .blockingBegin a).1 else (transition ρ FUEL k .blockingBegin a).1)
    mi
    (fun a k hk ha => ha.trans (bbStep_other ρ mi k hk a))
    (fun a k hk ha => by
      have q := bbStep_other ρ mi k hk a
      obtain ⟨p1, p2, p3, p4, l1, l2, p5⟩ := ha
      obtain ⟨l, hl⟩ := q.ext
      exact ⟨by rw [q.m]; exact p1, by rw [q.rt]; exact p2, by rw [q.act]; exact p3, Nat.le_trans q.lr p4,
        l ++ l1, l2, by rw [hl, p5]; simp⟩)
    (fun a ha => by
      have hra : a.rt[mi]? = some { r with zeroedA := false, zeroedB := false } := by rw [ha.rt]; exact hr0
      have hma : a.machines[mi]? = some m := by rw [ha.m]; exact hm
      simp only []
      have hstep := (bbStep_self ρ mi a _ m st hra hma hne hst htr).trans
        (decrementLimit_keep ρ mi (a.push (.trans mi Event.blockingBegin.toNat r.currentState))
          { r with zeroedA := false, zeroedB := false } m st hra hma hst hk)
      rw [hstep]
      obtain ⟨l, hl⟩ := ha.ext
      refine ⟨by simpa using hma, ?_, by simpa using ha.act, ?_, [], l, ?_⟩
      · rw [Fw.push_rt, Fw.modRt_rt_self, Fw.push_rt, hra]; rfl
      · rw [lr_push mi _ _ rfl, lr_same (Fw.modRt_log _ _ _), lr_push mi _ _ (μLR_blockingBegin mi mi _)]
        exact ha.lr
      · simp [Fw.push, hl])
    (List.range b.rt.length) List.nodup_range (List.mem_range.mpr hmi) b hqb
  obtain ⟨p1, p2, p3, p4, l1, l2, p5⟩ := hloop
  -- the signal round
  have hq := signalRound_quiet ρ mi m r.currentState
    (fun st' vec hst' => by rw [hst] at hst'; cases hst'; exact hns vec) _ ⟨p1, r1, p2, rfl⟩
  obtain ⟨l, hl⟩ := hq.ext
  refine ⟨by rw [hq.rt]; exact p2, ?_, by rw [hq.m]; exact p1, l ++ l1 ++ .limit mi (r.stateLimit - 1) true ::
    .trans mi Event.blockingBegin.toNat r.currentState :: l2, ?_, ?_, l ++ l1, l2, rfl⟩
  · rw [hq.act, p3]; simp only [Fw.callStart, List.getElem?_map]
  · rw [hl, p5]; simp [Fw.callStart]
  · refine noLR_of_le (s := s.callStart t) (by rw [hl, p5]; simp) (Nat.le_trans hq.lr p4)

/-- **BlockingBegin for `mi` that uses the limit up**: LimitReached is delivered to the machine,
    in its unchanged state, directly after the decrement to 0 (the log is newest first; `l2` is
    what the machines visited before `mi` logged, `l1` what happened afterwards) -/
theorem call_blockingBegin_fire (mi : Nat) (t : Int) (s : Fw σ) (r : Runtime) (m : Machine) (st : State) (a : Action)
    (hr : s.rt[mi]? = some r) (hm : s.machines[mi]? = some m) (hne : r.currentState ≠ STATE_END)
    (hst : m.states[r.currentState]? = some st) (htr : st.transitions[Event.blockingBegin.toNat]? = some none)
    (hlen : mi < s.actions.length)
    (hact : st.action = some a) (hl : a.hasLimit = true) (h1 : r.stateLimit ≤ 1) :
    ∃ l1 l2, (triggerEvents ρ [.blockingBegin mi] t s).log =
      l1 ++ .trans mi Event.limitReached.toNat r.currentState :: .limit mi 0 true ::
        .trans mi Event.blockingBegin.toNat r.currentState :: l2 ++ s.log := by
  unfold triggerEvents
  simp only [List.foldl, processEvent]
  have hr0 := callStart_rt s t mi r hr
  generalize hb : (if !(s.callStart t).g.blockingActive then
      ({ s.callStart t with g := { (s.callStart t).g with blockingActive := true, blockingStarted := (s.callStart t).g.now } } : Fw σ)
      else s.callStart t) = b
  have hqb : Quiet mi (s.callStart t) b := by
    subst hb; split
    · exact Quiet.setG mi _ _
    · exact Quiet.refl _ _
  have hlen' : b.rt.length = (s.callStart t).rt.length := by
    subst hb; split <;> rfl
  have hmi : mi < b.rt.length := by
    rw [hlen']
    rcases Nat.lt_or_ge mi (s.callStart t).rt.length with h | h
    · exact h
    · simp [List.getElem?_eq_none h] at hr0
  have hloop := fold_visit_once
    (Pre := fun a => Quiet mi (s.callStart t) a)
    (Post := fun a => ∃ l1 l2, a.log = l1 ++ .trans mi Event.limitReached.toNat r.currentState :: .limit mi 0 true ::
        .trans mi Event.blockingBegin.toNat r.currentState :: l2 ++ (s.callStart t).log)
    (fun a k => if (fun p : Fw σ × Bool => !p.2 && notEnded p.1 k && k == mi) (transition ρ FUEL k .blockingBegin a) = true
      then decrementLimit ρ k (transition ρ FUEL k .blockingBegin a).1 else (transition ρ FUEL k .blockingBegin a).1)
    mi
    (fun a k hk ha => ha.trans (bbStep_other ρ mi k hk a))
    (fun a k hk ha => by
      obtain ⟨l, hl⟩ := (bbStep_other ρ mi k hk a).ext
      obtain ⟨l1, l2, p5⟩ := ha
      exact ⟨l ++ l1, l2, by rw [hl, p5]; simp⟩)
    (fun a' ha => by
      have hra : a'.rt[mi]? = some { r with zeroedA := false, zeroedB := false } := by rw [ha.rt]; exact hr0
      have hma : a'.machines[mi]? = some m := by rw [ha.m]; exact hm
      have hla : mi < a'.actions.length := by
        have h := ha.act
        rcases Nat.lt_or_ge mi a'.actions.length with h' | h'
        · exact h'
        · rw [List.getElem?_eq_none h'] at h
          simp [Fw.callStart, hlen] at h
      simp only []
      rw [bbStep_self ρ mi a' _ m st hra hma hne hst htr]
      obtain ⟨l, hl'⟩ := decrement_fire_log ρ mi (.trans mi Event.blockingBegin.toNat r.currentState) a'
        { r with zeroedA := false, zeroedB := false } m st a hra hma hst hact hl h1 hla
      obtain ⟨l0, hl0⟩ := ha.ext
      exact ⟨l, l0, by rw [hl', hl0]; simp⟩)
    (List.range b.rt.length) List.nodup_range (List.mem_range.mpr hmi) b hqb
  obtain ⟨l1, l2, p5⟩ := hloop
  obtain ⟨l, hl'⟩ := logExt_signalRound ρ ((List.range b.rt.length).foldl (fun a k =>
      if (fun p : Fw σ × Bool => !p.2 && notEnded p.1 k && k == mi) (transition ρ FUEL k .blockingBegin a) = true
      then decrementLimit ρ k (transition ρ FUEL k .blockingBegin a).1 else (transition ρ FUEL k .blockingBegin a).1) b)
  exact ⟨l ++ l1, l2, by rw [hl', p5]; simp [Fw.callStart]⟩

theorem lt_length_of_getElem?_some {α : Type} {l : List α} {i : Nat} {x : α} (h : l[i]? = some x) : i < l.length := by
  rcases Nat.lt_or_ge i l.length with h' | h'
  · exact h'
  · rw [List.getElem?_eq_none h'] at h; cases h

/-- **Countdown, BlockingBegin**: `k = ts.length` calls in a row, each reporting one BlockingBegin
    for machine `mi`, whatever the other machines do with the BlockingBegin events they receive.
    The machine's current state has no transition on BlockingBegin nor on Signal. -/
theorem countdown_blockingBegin (mi : Nat) (m : Machine) (st : State) (cur : Nat) (hne : cur ≠ STATE_END)
    (hst : m.states[cur]? = some st) (htr : st.transitions[Event.blockingBegin.toNat]? = some none)
    (hns : ∀ vec, st.transitions[Event.signal.toNat]? ≠ some (some vec))
    (ts : List Int) (s : Fw σ) (r : Runtime)
    (hr : s.rt[mi]? = some r) (hm : s.machines[mi]? = some m) (hcur : r.currentState = cur)
    (hk : ∀ a, st.action = some a → a.hasLimit = true → ts.length < r.stateLimit) :
    (runCalls ρ s (ts.map (fun t => ([TEvent.blockingBegin mi], t)))).rt[mi]? =
      some { r with stateLimit := r.stateLimit - ts.length, zeroedA := r.zeroedA && ts.isEmpty,
                    zeroedB := r.zeroedB && ts.isEmpty } ∧
    (runCalls ρ s (ts.map (fun t => ([TEvent.blockingBegin mi], t)))).machines[mi]? = some m ∧
    (mi < s.actions.length → mi < (runCalls ρ s (ts.map (fun t => ([TEvent.blockingBegin mi], t)))).actions.length) ∧
    (ts ≠ [] → mi < s.actions.length →
      (runCalls ρ s (ts.map (fun t => ([TEvent.blockingBegin mi], t)))).actions[mi]? = some none) ∧
    ∃ l, (runCalls ρ s (ts.map (fun t => ([TEvent.blockingBegin mi], t)))).log = l ++ s.log ∧
      ∀ st', LogEntry.trans mi Event.limitReached.toNat st' ∉ l := by
  induction ts generalizing s r with
  | nil =>
    refine ⟨?_, hm, fun h => h, fun h => absurd rfl h, [], rfl, fun _ h => (by cases h)⟩
    simp [runCalls, hr]
  | cons t ts ih =>
    subst hcur
    have hk1 : ∀ a, st.action = some a → a.hasLimit = true → 2 ≤ r.stateLimit := by
      intro a ha hl
      have := hk a ha hl
      simp only [List.length_cons] at this
      omega
    obtain ⟨c1, c2, c3, l0, c4, c5, _⟩ := call_blockingBegin_keep ρ mi t s r m st hr hm hne hst htr hns hk1
    have hk2 : ∀ a, st.action = some a → a.hasLimit = true →
        ts.length < ({ r with stateLimit := r.stateLimit - 1, zeroedA := false, zeroedB := false } : Runtime).stateLimit := by
      intro a ha hl
      have := hk a ha hl
      simp only [List.length_cons] at this
      show ts.length < r.stateLimit - 1
      omega
    obtain ⟨i1, i2, i3, i4, l1, i5, i6⟩ := ih (triggerEvents ρ [.blockingBegin mi] t s) _ c1 c3 rfl hk2
    have hrun : runCalls ρ s ((t :: ts).map (fun t => ([TEvent.blockingBegin mi], t))) =
        runCalls ρ (triggerEvents ρ [.blockingBegin mi] t s) (ts.map (fun t => ([TEvent.blockingBegin mi], t))) := by
      simp [runCalls]
    rw [hrun]
    have hslot : mi < s.actions.length → (triggerEvents ρ [.blockingBegin mi] t s).actions[mi]? = some none := by
      intro h; rw [c2]; simp [h]
    refine ⟨?_, i2, fun h => i3 (lt_length_of_getElem?_some (hslot h)), fun _ h => ?_,
      l1 ++ l0, by rw [i5, c4, List.append_assoc], ?_⟩
    · rw [i1]
      simp only [List.length_cons, List.isEmpty_cons, Bool.and_false, Bool.false_and, Nat.sub_sub, Nat.add_comm 1]
    · cases ts with
      | nil => simpa [runCalls] using hslot h
      | cons t' ts' => exact i4 (by simp) (lt_length_of_getElem?_some (hslot h))
    · intro st' hmem
      rcases List.mem_append.mp hmem with h | h
      · exact i6 st' h
      · exact c5 st' h

/-- **The `L`-th BlockingBegin** uses the limit up and delivers LimitReached -/
theorem countdown_blockingBegin_fire (mi : Nat) (m : Machine) (st : State) (a : Action) (ts : List Int) (t : Int)
    (s : Fw σ) (r : Runtime)
    (hr : s.rt[mi]? = some r) (hm : s.machines[mi]? = some m) (hne : r.currentState ≠ STATE_END)
    (hst : m.states[r.currentState]? = some st) (htr : st.transitions[Event.blockingBegin.toNat]? = some none)
    (hns : ∀ vec, st.transitions[Event.signal.toNat]? ≠ some (some vec))
    (hlen : mi < s.actions.length)
    (hact : st.action = some a) (hl : a.hasLimit = true) (hL : ts.length = r.stateLimit - 1) :
    ∃ l1 l2, (runCalls ρ s ((ts ++ [t]).map (fun t => ([TEvent.blockingBegin mi], t)))).log =
      l1 ++ .trans mi Event.limitReached.toNat r.currentState :: .limit mi 0 true ::
        .trans mi Event.blockingBegin.toNat r.currentState :: l2 ++
        (runCalls ρ s (ts.map (fun t => ([TEvent.blockingBegin mi], t)))).log := by
  have hrun : runCalls ρ s ((ts ++ [t]).map (fun t => ([TEvent.blockingBegin mi], t))) =
      triggerEvents ρ [.blockingBegin mi] t (runCalls ρ s (ts.map (fun t => ([TEvent.blockingBegin mi], t)))) := by
    simp [runCalls, List.foldl_append]
  rw [hrun]
  by_cases hts : ts = []
  · subst hts
    have h1 : r.stateLimit ≤ 1 := by simp at hL; omega
    simpa [runCalls] using call_blockingBegin_fire ρ mi t s r m st a hr hm hne hst htr hlen hact hl h1
  · have hk' : ∀ a', st.action = some a' → a'.hasLimit = true → ts.length < r.stateLimit := by
      intro _ _ _
      have : ts.length ≠ 0 := fun h => hts (List.length_eq_zero_iff.mp h)
      omega
    obtain ⟨c1, c2, c3, _, _⟩ := countdown_blockingBegin ρ mi m st r.currentState hne hst htr hns ts s r hr hm rfl hk'
    exact call_blockingBegin_fire ρ mi t _
      { r with stateLimit := r.stateLimit - ts.length, zeroedA := r.zeroedA && ts.isEmpty,
               zeroedB := r.zeroedB && ts.isEmpty } m st a c1 c2 hne hst htr (c3 hlen) hact hl
      (by show r.stateLimit - ts.length ≤ 1; omega)

/-! ### a machine's limit is decremented by its own completions only (any batch of events) -/

/-- the weight vanishes on everything but decrement entries (`limit _ _ true`) -/
def DecOnly (μ : LogEntry → Nat) : Prop := ∀ e, (∀ i x, e ≠ .limit i x true) → μ e = 0

/-- weight 1 on the decrements of machine `mi`'s limit -/
def μDec (mi : Nat) : LogEntry → Nat
  | .limit m _ d => if m = mi ∧ d = true then 1 else 0
  | _ => 0

theorem μDec_decOnly (mi : Nat) : DecOnly (μDec mi) := by
  intro e he
  cases e with
  | limit m x d =>
    cases d with
    | true => exact absurd rfl (he m x)
    | false => simp [μDec]
  | _ => rfl

/-- decrements of machine `mi`'s limit according to the log -/
def decOf (mi : Nat) (s : Fw σ) : Nat := wsum (μDec mi) s.log

section
variable {μ : LogEntry → Nat}

theorem dq_push (hμ : DecOnly μ) (s : Fw σ) (e : LogEntry) (he : ∀ i x, e ≠ .limit i x true) :
    QuietLog μ s (s.push e) := ⟨by simp [Fw.push, wsum_cons, hμ e he]⟩

theorem dq_distSample (hμ : DecOnly μ) (d : Dist) (s : Fw σ) : QuietLog μ s (distSample ρ d s).2 := by
  unfold distSample
  exact ⟨by simp [Fw.push, wsum_cons, hμ (.distRaw _) (fun _ _ h => by cases h)]⟩

theorem dq_sampleLimit (hμ : DecOnly μ) (a : Action) (s : Fw σ) : QuietLog μ s (sampleLimit ρ a s).2 := by
  unfold sampleLimit; split
  · exact QuietLog.refl μ s
  · exact dq_distSample ρ hμ _ s

theorem dq_sampleValue (hμ : DecOnly μ) (c : Counter) (s : Fw σ) : QuietLog μ s (sampleValue ρ c s).2 := by
  unfold sampleValue; split
  · exact QuietLog.refl μ s
  · exact dq_distSample ρ hμ _ s

theorem dq_sampleTimeout (hμ : DecOnly μ) (a : Action) (s : Fw σ) : QuietLog μ s (sampleTimeout ρ a s).2 := by
  unfold sampleTimeout; split
  · exact dq_distSample ρ hμ _ s
  · exact dq_distSample ρ hμ _ s
  · exact QuietLog.refl μ s

theorem dq_sampleDuration (hμ : DecOnly μ) (a : Action) (s : Fw σ) : QuietLog μ s (sampleDuration ρ a s).2 := by
  unfold sampleDuration; split
  · exact dq_distSample ρ hμ _ s
  · exact dq_distSample ρ hμ _ s
  · exact QuietLog.refl μ s

theorem dq_enterState (hμ : DecOnly μ) (mi : Nat) (m : Machine) (cur next : Nat) (s : Fw σ) :
    QuietLog μ s (enterState ρ mi m cur next s) := by
  unfold enterState
  split
  · simp only
    have h1 : QuietLog μ s (s.modRt mi (fun r => { r with currentState := next })) := quiet_modRt s mi _
    split
    · exact h1.trans (quiet_withFault _ _)
    · split
      · next a _ =>
        exact ((h1.trans (dq_sampleLimit ρ hμ a _)).trans (quiet_modRt _ mi _)).trans
          (dq_push hμ _ _ (fun _ _ h => by cases h))
      · exact (h1.trans (quiet_modRt _ mi _)).trans (dq_push hμ _ _ (fun _ _ h => by cases h))
  · exact QuietLog.refl μ s

theorem dq_counterOperand (hμ : DecOnly μ) (c : Counter) (other : Nat) (s : Fw σ) :
    QuietLog μ s (counterOperand ρ c other s).2 := by
  unfold counterOperand; split
  · exact QuietLog.refl μ s
  · exact dq_sampleValue ρ hμ c s

theorem dq_applyCounterA (hμ : DecOnly μ) (mi : Nat) (c : Option Counter) (oldA oldB : Nat) (s : Fw σ) :
    QuietLog μ s (applyCounterA ρ mi c oldA oldB s).1 := by
  unfold applyCounterA
  cases c with
  | none => exact QuietLog.refl μ s
  | some c => exact (dq_counterOperand ρ hμ c oldB s).trans (quiet_storeCounterA mi _ _ _)

theorem dq_applyCounterB (hμ : DecOnly μ) (mi : Nat) (c : Option Counter) (oldA oldB : Nat) (s : Fw σ) :
    QuietLog μ s (applyCounterB ρ mi c oldA oldB s).1 := by
  unfold applyCounterB
  cases c with
  | none => exact QuietLog.refl μ s
  | some c => exact (dq_counterOperand ρ hμ c oldA s).trans (quiet_storeCounterB mi _ _ _)

theorem dq_scheduleAction (hμ : DecOnly μ) (mi next : Nat) (s : Fw σ) :
    QuietLog μ s (scheduleAction ρ mi next s) := by
  unfold scheduleAction
  cases hm : s.machines[mi]? with
  | none => exact quiet_withFault s _
  | some m =>
    simp only []
    cases hst : m.states[next]? with
    | none => exact quiet_withFault s _
    | some st =>
      simp only []
      split
      · exact quiet_withFault s _
      · cases hact : st.action with
        | none => exact ⟨rfl⟩
        | some act =>
          cases act with
          | cancel t => exact ⟨rfl⟩
          | sendPadding b rp tmo lim =>
            simp only
            exact (dq_sampleTimeout ρ hμ _ s).trans ⟨rfl⟩
          | blockOutgoing b rp tmo du lim =>
            simp only
            exact ((dq_sampleTimeout ρ hμ _ s).trans (dq_sampleDuration ρ hμ _ _)).trans ⟨rfl⟩
          | updateTimer rp du lim =>
            simp only
            exact (dq_sampleDuration ρ hμ _ s).trans ⟨rfl⟩

/-- no transition (with all its CounterZero follow-ups) ever logs a decrement -/
theorem dq_main (hμ : DecOnly μ) (fuel : Nat) :
    (∀ mi ev (s : Fw σ), QuietLog μ s (transition ρ fuel mi ev s).1) ∧
    (∀ mi (s : Fw σ), QuietLog μ s (updateCounter ρ fuel mi s).1) := by
  induction fuel with
  | zero =>
    refine ⟨fun mi ev s => ?_, fun mi s => ?_⟩
    · rw [transition]; exact quiet_withFault _ _
    · rw [updateCounter]; exact quiet_withFault _ _
  | succ n ih =>
    obtain ⟨ihT, ihU⟩ := ih
    refine ⟨fun mi ev s => ?_, fun mi s => ?_⟩
    · rw [transition]
      cases hr : s.rt[mi]? with
      | none => exact quiet_withFault _ _
      | some r =>
      cases hm : s.machines[mi]? with
      | none => exact quiet_withFault _ _
      | some m =>
      simp only []
      have h0 : QuietLog μ s (s.push (.trans mi ev.toNat r.currentState)) := dq_push hμ _ _ (fun _ _ h => by cases h)
      split
      · exact h0
      · cases hst : m.states[r.currentState]? with
        | none => exact h0.trans (quiet_withFault _ _)
        | some st =>
        simp only []
        cases htr : st.transitions[ev.toNat]? with
        | none => exact h0.trans (quiet_withFault _ _)
        | some ov =>
        cases ov with
        | none => exact h0
        | some vec =>
        simp only []
        have h1 : QuietLog μ s (({ s.push (.trans mi ev.toNat r.currentState) with
              rng := (ρ.u (s.push (.trans mi ev.toNat r.currentState)).rng).2 }).push
            (.draw (ρ.u (s.push (.trans mi ev.toNat r.currentState)).rng).1)) :=
          h0.trans (QuietLog.trans (t := { s.push (.trans mi ev.toNat r.currentState) with
              rng := (ρ.u (s.push (.trans mi ev.toNat r.currentState)).rng).2 }) ⟨rfl⟩
            (dq_push hμ _ _ (fun _ _ h => by cases h)))
        split
        · exact h1
        · next nxt _ =>
          have h2 := h1.trans (dq_push hμ _ (.sampled mi ev.toNat nxt) (fun _ _ h => by cases h))
          split
          · exact h2.trans (quiet_modRt _ _ _)
          · split
            · exact h2.trans ⟨rfl⟩
            · have h3 := h2.trans (dq_enterState ρ hμ mi m r.currentState nxt _)
              generalize enterState ρ mi m r.currentState nxt _ = s3 at h3 ⊢
              cases hr3 : s3.rt[mi]? with
              | none => exact h3.trans (quiet_withFault _ _)
              | some r1 =>
              simp only []
              cases hb : belowActionLimits s3.g r1 m with
              | none => exact h3.trans (quiet_withFault _ _)
              | some below =>
              simp only []
              have h4 := h3.trans (ihU mi s3)
              have h5 : QuietLog μ s (if ((updateCounter ρ n mi s3).2.1 && below) = true
                  then scheduleAction ρ mi nxt (updateCounter ρ n mi s3).1 else (updateCounter ρ n mi s3).1) := by
                split
                · exact h4.trans (dq_scheduleAction ρ hμ mi nxt _)
                · exact h4
              generalize (if ((updateCounter ρ n mi s3).2.1 && below) = true
                  then scheduleAction ρ mi nxt (updateCounter ρ n mi s3).1 else (updateCounter ρ n mi s3).1) = s5 at h5 ⊢
              cases hr5 : s5.rt[mi]? with
              | none => exact h5.trans (quiet_withFault _ _)
              | some r2 => exact h5
    · rw [updateCounter]
      cases hr : s.rt[mi]? with
      | none => exact quiet_withFault _ _
      | some r =>
      cases hm : s.machines[mi]? with
      | none => exact quiet_withFault _ _
      | some m =>
      simp only []
      cases hst : m.states[r.currentState]? with
      | none => exact quiet_withFault _ _
      | some st =>
      simp only []
      have hA := dq_applyCounterA ρ hμ mi st.counterA r.counterA r.counterB s
      generalize applyCounterA ρ mi st.counterA r.counterA r.counterB s = ra at hA ⊢
      have hB := dq_applyCounterB ρ hμ mi st.counterB r.counterA r.counterB ra.1
      generalize applyCounterB ρ mi st.counterB r.counterA r.counterB ra.1 = rb at hB ⊢
      have h2 : QuietLog μ s (rb.1.push (.counter mi r.counterA (counterAOf rb.1 mi) r.counterB (counterBOf rb.1 mi))) :=
        (hA.trans hB).trans (dq_push hμ _ _ (fun _ _ h => by cases h))
      split
      · have hT := h2.trans (ihT mi .counterZero _)
        split
        · exact hT.trans (quiet_withFault _ _)
        · exact hT
      · exact h2

end

theorem dec_transition (mi j : Nat) (ev : Event) (s : Fw σ) : decOf mi (transition ρ FUEL j ev s).1 = decOf mi s :=
  ((dq_main ρ (μDec_decOnly mi) FUEL).1 j ev s).w

theorem dec_same {mi : Nat} {s t : Fw σ} (h : t.log = s.log) : decOf mi t = decOf mi s := by
  unfold decOf; rw [h]

/-- a limit decrement for machine `j` logs exactly one decrement, of `j` -/
theorem dec_decrement (mi j : Nat) (s : Fw σ) :
    decOf mi (decrementLimit ρ j s) ≤ decOf mi s + (if j = mi then 1 else 0) := by
  unfold decrementLimit
  cases hr : s.rt[j]? with
  | none => exact Nat.le_trans (Nat.le_of_eq (dec_same (s := s) (by simp))) (Nat.le_add_right _ _)
  | some r =>
  cases hm : s.machines[j]? with
  | none => exact Nat.le_trans (Nat.le_of_eq (dec_same (s := s) (by simp))) (Nat.le_add_right _ _)
  | some m =>
  simp only []
  generalize (if r.stateLimit > 0 then r.stateLimit - 1 else r.stateLimit) = lim
  have h1 : decOf mi ((s.modRt j (fun r' => { r' with stateLimit := lim })).push (.limit j lim true)) =
      decOf mi s + (if j = mi then 1 else 0) := by
    simp [decOf, Fw.push, wsum_cons, μDec]; omega
  generalize (s.modRt j (fun r' => { r' with stateLimit := lim })).push (.limit j lim true) = s1 at h1 ⊢
  cases hst : m.states[r.currentState]? with
  | none => exact Nat.le_of_eq ((dec_same (s := s1) (by simp)).trans h1)
  | some st =>
  simp only []
  cases hact : st.action with
  | none => exact Nat.le_of_eq h1
  | some a =>
    simp only []
    split
    · split
      · exact Nat.le_of_eq ((dec_same (s := s1) (by simp)).trans h1)
      · rw [dec_transition]
        exact Nat.le_of_eq ((dec_same (s := s1) rfl).trans h1)
    · exact Nat.le_of_eq h1

theorem dec_fold0 {α : Type} (mi : Nat) (F : Fw σ → α → Fw σ) (h : ∀ s j, decOf mi (F s j) ≤ decOf mi s)
    (l : List α) (s : Fw σ) : decOf mi (l.foldl F s) ≤ decOf mi s := by
  induction l generalizing s with
  | nil => exact Nat.le_refl _
  | cons a l ih => exact Nat.le_trans (ih (F s a)) (h s a)

/-- is this event a completion reported for machine `mi` -/
def TEvent.completes (mi : Nat) : TEvent → Bool
  | .paddingSent m => m == mi
  | .blockingBegin m => m == mi
  | .timerBegin m => m == mi
  | _ => false

/-- **An event decrements `mi`'s limit at most once, and only if it is a completion for `mi`.** -/
theorem dec_processEvent (mi : Nat) (e : TEvent) (s : Fw σ) :
    decOf mi (processEvent ρ e s) ≤ decOf mi s + (if TEvent.completes mi e then 1 else 0) := by
  have hall : ∀ (ev : Event) (s' : Fw σ), decOf mi (transitionAll ρ ev s') ≤ decOf mi s' := by
    intro ev s'
    unfold transitionAll
    exact dec_fold0 mi _ (fun s j => Nat.le_of_eq (dec_transition ρ mi j ev s)) _ _
  have hTD : ∀ (j : Nat) (ev : Event) (s' : Fw σ) (c : Fw σ × Bool → Bool),
      decOf mi (if c (transition ρ FUEL j ev s') = true then decrementLimit ρ j (transition ρ FUEL j ev s').1
        else (transition ρ FUEL j ev s').1) ≤ decOf mi s' + (if j = mi then 1 else 0) := by
    intro j ev s' c
    have h := dec_transition ρ mi j ev s'
    split
    · have := dec_decrement ρ mi j (transition ρ FUEL j ev s').1
      omega
    · omega
  unfold processEvent
  cases e with
  | normalRecv => simpa [TEvent.completes] using hall _ s
  | paddingRecv => simpa [TEvent.completes] using hall _ s
  | tunnelRecv => simpa [TEvent.completes] using hall _ s
  | tunnelSent => simpa [TEvent.completes] using hall _ s
  | normalSent =>
    simp only [TEvent.completes, Bool.false_eq_true, if_false, Nat.add_zero]
    refine dec_fold0 mi _ (fun s j => ?_) _ _
    rw [dec_transition]
    exact Nat.le_of_eq (dec_same (by simp))
  | paddingSent x =>
    simp only [TEvent.completes, beq_iff_eq]
    split
    · exact Nat.le_add_right _ _
    · have := hTD x .paddingSent
        (({ s with g := { s.g with paddingSent := s.g.paddingSent + 1 } } : Fw σ).modRt x
          (fun r => { r with acct := { r.acct with paddingSent := r.acct.paddingSent + 1 } }))
        (fun p => !p.2 && notEnded p.1 x)
      refine Nat.le_trans this (Nat.le_of_eq ?_)
      rw [dec_same (s := s) (by simp)]
  | blockingBegin x =>
    simp only [TEvent.completes, beq_iff_eq]
    generalize hb : (if !s.g.blockingActive then
        ({ s with g := { s.g with blockingActive := true, blockingStarted := s.g.now } } : Fw σ) else s) = b
    have hb0 : decOf mi b = decOf mi s := by subst hb; split <;> rfl
    by_cases hx : x = mi
    · subst hx
      have := wsum_foldl (μ := μDec x) (fun (s : Fw σ) k =>
          if (fun p : Fw σ × Bool => !p.2 && notEnded p.1 k && k == x) (transition ρ FUEL k .blockingBegin s) = true
          then decrementLimit ρ k (transition ρ FUEL k .blockingBegin s).1 else (transition ρ FUEL k .blockingBegin s).1)
        (fun k => if k = x then 1 else 0)
        (fun s k => hTD k .blockingBegin s (fun p => !p.2 && notEnded p.1 k && k == x)) (List.range b.rt.length) b
      have hs := sum_indicator_nodup x _ (List.nodup_range (n := b.rt.length))
      have hle : (if x ∈ List.range b.rt.length then 1 else 0) ≤ 1 := by split <;> omega
      simp only [if_true]
      refine Nat.le_trans this ?_
      unfold decOf at hb0 ⊢
      omega
    · simp only [hx, if_false, Nat.add_zero]
      refine Nat.le_trans (dec_fold0 mi _ (fun a k => ?_) _ _) (Nat.le_of_eq hb0)
      show decOf mi (if (fun p : Fw σ × Bool => !p.2 && notEnded p.1 k && k == x) (transition ρ FUEL k .blockingBegin a) = true
        then decrementLimit ρ k (transition ρ FUEL k .blockingBegin a).1 else (transition ρ FUEL k .blockingBegin a).1) ≤ _
      by_cases hk : k = x
      · have := hTD k .blockingBegin a (fun p => !p.2 && notEnded p.1 k && k == x)
        have hkm : ¬ k = mi := by rw [hk]; exact hx
        simpa [hkm] using this
      · have hkb : (k == x) = false := by simpa using hk
        simp only [hkb, Bool.and_false, Bool.false_eq_true, if_false]
        exact Nat.le_of_eq (dec_transition ρ mi k .blockingBegin a)
  | blockingEnd =>
    simp only [TEvent.completes, Bool.false_eq_true, if_false, Nat.add_zero]
    generalize (if s.g.blockingActive then durSince s.g.now s.g.blockingStarted else 0) = blocked
    refine Nat.le_trans (dec_fold0 mi _ (fun s' j => ?_) _ _) ?_
    · rw [dec_transition]
      unfold decOf
      split
      · cases s'.rt[j]? with
        | none => simp
        | some r => simp only []; split <;> simp
      · exact Nat.le_refl _
    · unfold decOf
      split
      · split <;> simp
      · exact Nat.le_refl _
  | timerBegin x =>
    simp only [TEvent.completes, beq_iff_eq]
    split
    · exact Nat.le_add_right _ _
    · exact hTD x .timerBegin s (fun p => !p.2 && notEnded p.1 x)
  | timerEnd x =>
    simp only [TEvent.completes, Bool.false_eq_true, if_false, Nat.add_zero]
    split
    · exact Nat.le_refl _
    · exact Nat.le_of_eq (dec_transition ρ mi x .timerEnd s)

/-- the signal round never decrements a limit -/
theorem dec_signalRound (mi : Nat) (s : Fw σ) : decOf mi (signalRound ρ s) = decOf mi s := by
  have hfold : ∀ (excluded : Option Nat) (n : Nat) (a : Fw σ),
      decOf mi ((List.range n).foldl (fun s j =>
        if (excluded == some j) = true then s else (transition ρ FUEL j .signal s).1) a) = decOf mi a := by
    intro excluded n a
    generalize List.range n = l
    induction l generalizing a with
    | nil => rfl
    | cons j l ih =>
      simp only [List.foldl_cons]
      rw [ih]
      split
      · rfl
      · exact dec_transition ρ mi j .signal a
  unfold signalRound
  cases hsig : s.signalPending with
  | none => rfl
  | some sig =>
    cases sig with
    | all =>
      simp only []
      have h3 := hfold none s.rt.length { s with signalPending := none }
      generalize ((List.range s.rt.length).foldl (fun s j =>
          if ((none : Option Nat) == some j) = true then s else (transition ρ FUEL j .signal s).1)
          ({ s with signalPending := none } : Fw σ)) = s2 at h3 ⊢
      cases hs2 : s2.signalPending with
      | none => exact h3
      | some _ => exact h3
    | allExcept x =>
      simp only []
      have h3 := hfold (some x) s.rt.length { s with signalPending := none }
      generalize ((List.range s.rt.length).foldl (fun s j =>
          if (some x == some j) = true then s else (transition ρ FUEL j .signal s).1)
          ({ s with signalPending := none } : Fw σ)) = s2 at h3 ⊢
      cases hs2 : s2.signalPending with
      | none => exact h3
      | some _ =>
        simp only []
        rw [dec_transition]
        exact h3

/-- **One call decrements `mi`'s limit at most as often as the call reports completions for `mi`** -/
theorem dec_triggerEvents (mi : Nat) (es : List TEvent) (t : Int) (s : Fw σ) :
    decOf mi (triggerEvents ρ es t s) ≤ decOf mi s + es.countP (TEvent.completes mi) := by
  unfold triggerEvents
  rw [dec_signalRound]
  have h0 : decOf mi (s.callStart t) = decOf mi s := rfl
  rw [← h0]
  generalize s.callStart t = a
  induction es generalizing a with
  | nil => simp
  | cons e es ih =>
    simp only [List.foldl_cons, List.countP_cons]
    have h1 := dec_processEvent ρ mi e a
    have h2 := ih (processEvent ρ e a)
    omega

/-- the same over a history -/
theorem dec_runCalls (mi : Nat) (h : List Call) (s : Fw σ) :
    decOf mi (runCalls ρ s h) ≤ decOf mi s + (h.map (fun c => c.1.countP (TEvent.completes mi))).sum := by
  unfold runCalls
  induction h generalizing s with
  | nil => simp
  | cons c cs ih =>
    simp only [List.foldl_cons, List.map_cons, List.sum_cons]
    have h1 := dec_triggerEvents ρ mi c.1 c.2 s
    have h2 := ih (triggerEvents ρ c.1 c.2 s)
    omega

/-- is this log entry a decrement of machine `mi`'s limit -/
def isDecrementOf (mi : Nat) : LogEntry → Bool
  | .limit m _ d => m == mi && d
  | _ => false

theorem wsum_μDec (mi : Nat) (l : List LogEntry) : wsum (μDec mi) l = l.countP (isDecrementOf mi) := by
  induction l with
  | nil => rfl
  | cons e l ih =>
    rw [wsum_cons, List.countP_cons, ih]
    cases e with
    | limit m x d => cases d <;> by_cases hm : m = mi <;> (simp [μDec, isDecrementOf, hm]; try omega)
    | _ => simp [μDec, isDecrementOf]

/-- log-segment form: the segment a history adds to the log holds at most as many decrements of
    `mi`'s limit as the history reports completions for `mi` -/
theorem decrements_le_completions (mi : Nat) (h : List Call) (s : Fw σ) :
    ∃ l, (runCalls ρ s h).log = l ++ s.log ∧
      l.countP (isDecrementOf mi) ≤ (h.map (fun c => c.1.countP (TEvent.completes mi))).sum := by
  obtain ⟨l, hl⟩ := runCalls_logExt ρ h s
  refine ⟨l, hl, ?_⟩
  have := dec_runCalls ρ mi h s
  unfold decOf at this
  rw [hl, wsum_append, wsum_μDec] at this
  omega

/-- a history that reports no completion for `mi` never decrements `mi`'s limit -/
theorem no_completion_no_decrement (mi : Nat) (h : List Call) (s : Fw σ)
    (hno : ∀ c ∈ h, ∀ e ∈ c.1, TEvent.completes mi e = false) :
    ∃ l, (runCalls ρ s h).log = l ++ s.log ∧ ∀ x, LogEntry.limit mi x true ∉ l := by
  obtain ⟨l, hl, hle⟩ := decrements_le_completions ρ mi h s
  refine ⟨l, hl, fun x hmem => ?_⟩
  have hz : (h.map (fun c => c.1.countP (TEvent.completes mi))).sum = 0 := by
    apply List.sum_eq_zero
    intro n hn
    obtain ⟨c, hc, rfl⟩ := List.mem_map.mp hn
    rw [List.countP_eq_zero]
    intro e he
    simp [hno c hc e he]
  have hpos : 0 < l.countP (isDecrementOf mi) :=
    List.countP_pos_iff.mpr ⟨_, hmem, by simp [isDecrementOf]⟩
  omega

end Mb.Countdown
