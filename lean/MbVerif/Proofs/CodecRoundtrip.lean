/-
  Round-trip lemmas for the bincode model, one per layer, all in the composable form
  `dec (enc x ++ r) = some (x, r)`.
-/
import MbVerif.Codec
import MbVerif.Codec.WF

set_option linter.unusedSimpArgs false

namespace Mb
namespace Codec

/-- `enc`/`dec` round-trip on `a`, with arbitrary trailing bytes -/
def RT {α} (enc : α → Bytes) (dec : Bytes → Option (α × Bytes)) (a : α) : Prop :=
  ∀ r, dec (enc a ++ r) = some (a, r)

/-! ### integers -/

theorem readLE_leBytes (k n : Nat) (h : n < 256 ^ k) (r : Bytes) :
    readLE k (leBytes k n ++ r) = some (n, r) := by
  induction k generalizing n with
  | zero => simp [Nat.pow_zero] at h; subst h; simp [readLE, leBytes]
  | succ k ih =>
    have h' : n / 256 < 256 ^ k := by
      rw [Nat.pow_succ] at h
      exact Nat.div_lt_of_lt_mul (by rwa [Nat.mul_comm] at h)
    have hb : (UInt8.ofNat (n % 256)).toNat = n % 256 := by
      simp [UInt8.toNat_ofNat']
    simp only [leBytes, List.cons_append, readLE, ih _ h', hb]
    congr 2
    omega

theorem leBytes_length (k n : Nat) : (leBytes k n).length = k := by
  induction k generalizing n with
  | zero => rfl
  | succ k ih => simp [leBytes, ih]

theorem readLE_lt {k : Nat} {bs r : Bytes} {v : Nat} (h : readLE k bs = some (v, r)) : v < 256 ^ k := by
  induction k generalizing bs v r with
  | zero => simp [readLE] at h; omega
  | succ k ih =>
    cases bs with
    | nil => simp [readLE] at h
    | cons b bs =>
      simp only [readLE] at h
      split at h
      · simp at h
      · rename_i v' r' hv
        simp at h
        have := ih hv
        have hb := b.toNat_lt
        rw [Nat.pow_succ]
        omega

theorem encVarint_RT (n : Nat) (h : n < U64) : RT encVarint decVarint n := by
  intro r
  unfold U64 at h
  unfold encVarint
  split
  · rename_i h1
    have : (UInt8.ofNat n).toNat = n := by simp [UInt8.toNat_ofNat']; omega
    simp [decVarint, this, h1]
  · split
    · rename_i h1 h2
      have := readLE_leBytes 2 n (by omega) r
      simp [decVarint, this]
    · split
      · rename_i h1 h2 h3
        have := readLE_leBytes 4 n (by omega) r
        simp [decVarint, this]
      · have := readLE_leBytes 8 n (by omega) r
        simp [decVarint, this]

theorem encVarint_ne_nil (n : Nat) : 1 ≤ (encVarint n).length := by
  unfold encVarint
  split <;> (try split) <;> (try split) <;> simp

theorem decVarint_lt {bs r : Bytes} {v : Nat} (h : decVarint bs = some (v, r)) : v < U64 := by
  unfold U64
  cases bs with
  | nil => simp [decVarint] at h
  | cons b bs =>
    simp only [decVarint] at h
    split at h
    · simp at h; omega
    · split at h
      · have := readLE_lt h; omega
      · split at h
        · have := readLE_lt h; omega
        · split at h
          · have := readLE_lt h; omega
          · simp at h

theorem decU32_encVarint (n : Nat) (h : n < 2 ^ 32) (r : Bytes) :
    decU32 (encVarint n ++ r) = some (n, r) := by
  have := encVarint_RT n (by unfold U64; omega) r
  simp [decU32, this, h]

/-! ### bool, floats -/

theorem encBool_RT (b : Bool) : RT encBool decBool b := by
  intro r; cases b <;> simp [encBool, decBool]

theorem encF64_RT (x : F64) : RT encF64 decF64 x := by
  intro r
  have h : x.toNat < 256 ^ 8 := by have := x.toNat_lt; omega
  simp [encF64, decF64, readLE_leBytes 8 _ h]

theorem encF32_RT (x : F32) : RT encF32 decF32 x := by
  intro r
  have h : x.toNat < 256 ^ 4 := by have := x.toNat_lt; omega
  simp [encF32, decF32, readLE_leBytes 4 _ h]

theorem dec2F64_enc (a b : F64) (r : Bytes) : dec2F64 (encF64 a ++ (encF64 b ++ r)) = some ((a, b), r) := by
  simp [dec2F64, encF64_RT a _, encF64_RT b _]

/-! ### option, sequences -/

theorem encOption_RT {α} (enc : α → Bytes) (dec : Bytes → Option (α × Bytes)) (o : Option α)
    (h : ∀ a, o = some a → RT enc dec a) : RT (encOption enc) (decOption dec) o := by
  intro r
  cases o with
  | none => simp [encOption, decOption]
  | some a => simp [encOption, decOption, h a rfl r]

theorem encOption_ne_nil {α} (enc : α → Bytes) (o : Option α) : 1 ≤ (encOption enc o).length := by
  cases o <;> simp [encOption]

theorem encList_cons {α} (enc : α → Bytes) (a : α) (l : List α) :
    encList enc (a :: l) = enc a ++ encList enc l := rfl

theorem decN_encList {α} (enc : α → Bytes) (dec : Bytes → Option (α × Bytes)) (l : List α)
    (h : ∀ a ∈ l, RT enc dec a) (r : Bytes) :
    decN dec l.length (encList enc l ++ r) = some (l, r) := by
  induction l with
  | nil => simp [decN, encList]
  | cons a l ih =>
    have ha := h a (by simp) (encList enc l ++ r)
    have hl := ih (fun b hb => h b (by simp [hb]))
    simp [decN, encList_cons, List.append_assoc, ha, hl]

theorem encList_length_ge {α} (enc : α → Bytes) (l : List α) (h : ∀ a ∈ l, 1 ≤ (enc a).length) :
    l.length ≤ (encList enc l).length := by
  induction l with
  | nil => simp
  | cons a l ih =>
    have := h a (by simp)
    have := ih (fun b hb => h b (by simp [hb]))
    simp [encList_cons]; omega

theorem hasAtLeast_iff (n : Nat) (bs : Bytes) : hasAtLeast n bs = true ↔ n ≤ bs.length := by
  induction n generalizing bs with
  | zero => simp [hasAtLeast]
  | succ n ih =>
    cases bs with
    | nil => simp [hasAtLeast]
    | cons b bs => simp [hasAtLeast, ih]

theorem encVec_RT {α} (enc : α → Bytes) (dec : Bytes → Option (α × Bytes)) (l : List α)
    (hlen : l.length < U64) (hne : ∀ a ∈ l, 1 ≤ (enc a).length) (h : ∀ a ∈ l, RT enc dec a) :
    RT (encVec enc) (decVec dec) l := by
  intro r
  have h1 := encVarint_RT l.length hlen (encList enc l ++ r)
  have h2 := encList_length_ge enc l hne
  have h3 : hasAtLeast l.length (encList enc l ++ r) = true := by
    rw [hasAtLeast_iff, List.length_append]; omega
  simp [encVec, decVec, List.append_assoc, h1, h3, decN_encList enc dec l h r]

theorem encVec_ne_nil {α} (enc : α → Bytes) (l : List α) : 1 ≤ (encVec enc l).length := by
  have := encVarint_ne_nil l.length
  simp [encVec]; omega

theorem decN_length {α} {dec : Bytes → Option (α × Bytes)} {n : Nat} {bs r : Bytes} {l : List α}
    (h : decN dec n bs = some (l, r)) : l.length = n := by
  induction n generalizing bs l r with
  | zero => simp [decN] at h; simp [h.1.symm]
  | succ n ih =>
    simp only [decN] at h
    split at h
    · simp at h
    · split at h
      · simp at h
      · rename_i hx
        simp at h
        rw [← h.1]
        simp [ih hx]

theorem decN_all {α} {dec : Bytes → Option (α × Bytes)} {P : α → Prop}
    (hP : ∀ bs a r, dec bs = some (a, r) → P a) {n : Nat} {bs r : Bytes} {l : List α}
    (h : decN dec n bs = some (l, r)) : ∀ a ∈ l, P a := by
  induction n generalizing bs l r with
  | zero =>
    simp [decN] at h
    rcases h with ⟨h1, _⟩
    subst h1
    intro a ha
    simp at ha
  | succ n ih =>
    simp only [decN] at h
    split at h
    · simp at h
    · rename_i a0 r0 h0
      split at h
      · simp at h
      · rename_i hx
        simp at h
        rw [← h.1]
        intro a ha
        simp at ha
        rcases ha with rfl | ha
        · exact hP _ _ _ h0
        · exact ih hx a ha

/-! ### DistType, Dist -/

theorem encDistType_RT (d : DistType) (h : wfDistType d = true) : RT encDistType decDistType d := by
  intro r
  cases d <;>
    simp [encDistType, decDistType, List.append_assoc, decU32_encVarint, dec2F64_enc, encF64_RT _ _,
      Gen.DT_Uniform, Gen.DT_Normal, Gen.DT_SkewNormal, Gen.DT_LogNormal, Gen.DT_Binomial,
      Gen.DT_Geometric, Gen.DT_Pareto, Gen.DT_Poisson, Gen.DT_Weibull, Gen.DT_Gamma, Gen.DT_Beta]
  case binomial t p =>
    simp [wfDistType] at h
    simp [encVarint_RT t h _, encF64_RT _ _]

theorem encDist_RT (d : Dist) (h : wfDist d = true) : RT encDist decDist d := by
  intro r
  simp [encDist, decDist, List.append_assoc, encDistType_RT d.dist h _, dec2F64_enc]

theorem encOptDist_RT (o : Option Dist) (h : wfOptDist o = true) : RT (encOption encDist) (decOption decDist) o :=
  encOption_RT _ _ o (fun a ha => encDist_RT a (by subst ha; exact h))

/-! ### Action -/

theorem encTimer_RT (t : Timer) : RT encTimer decTimer t := by
  intro r
  cases t <;> simp [encTimer, decTimer, decU32_encVarint, Gen.TIMER_Action, Gen.TIMER_Internal, Gen.TIMER_All]

theorem encAction_RT (a : Action) (h : wfAction a = true) : RT encAction decAction a := by
  intro r
  cases a with
  | cancel t =>
    simp [encAction, decAction, List.append_assoc, decU32_encVarint, encTimer_RT t _,
      Gen.ACT_Cancel, Gen.ACT_SendPadding, Gen.ACT_BlockOutgoing, Gen.ACT_UpdateTimer]
  | sendPadding b rp to lim =>
    simp [wfAction] at h
    simp [encAction, decAction, List.append_assoc, decU32_encVarint, encBool_RT _ _, encDist_RT to h.1 _,
      encOptDist_RT lim h.2 _,
      Gen.ACT_Cancel, Gen.ACT_SendPadding, Gen.ACT_BlockOutgoing, Gen.ACT_UpdateTimer]
  | blockOutgoing b rp to du lim =>
    simp [wfAction] at h
    simp [encAction, decAction, List.append_assoc, decU32_encVarint, encBool_RT _ _, encDist_RT to h.1.1 _,
      encDist_RT du h.1.2 _, encOptDist_RT lim h.2 _,
      Gen.ACT_Cancel, Gen.ACT_SendPadding, Gen.ACT_BlockOutgoing, Gen.ACT_UpdateTimer]
  | updateTimer rp du lim =>
    simp [wfAction] at h
    simp [encAction, decAction, List.append_assoc, decU32_encVarint, encBool_RT _ _, encDist_RT du h.1 _,
      encOptDist_RT lim h.2 _,
      Gen.ACT_Cancel, Gen.ACT_SendPadding, Gen.ACT_BlockOutgoing, Gen.ACT_UpdateTimer]

/-! ### Counter -/

theorem encOperation_RT (o : Operation) : RT encOperation decOperation o := by
  intro r
  cases o <;> simp [encOperation, decOperation, decU32_encVarint, Gen.OP_Increment, Gen.OP_Decrement, Gen.OP_Set]

theorem encCounter_RT (c : Counter) (h : wfCounter c = true) : RT encCounter decCounter c := by
  intro r
  simp [encCounter, decCounter, List.append_assoc, encOperation_RT _ _, encOptDist_RT c.dist h _, encBool_RT _ _]

/-! ### Trans, State, Machine -/

theorem encTrans_RT (t : Trans) (h : wfTrans t = true) : RT encTrans decTrans t := by
  intro r
  simp [wfTrans] at h
  simp [encTrans, decTrans, List.append_assoc, encVarint_RT t.target h _, encF32_RT _ _]

theorem encTrans_ne_nil (t : Trans) : 1 ≤ (encTrans t).length := by
  have := encVarint_ne_nil t.target
  simp [encTrans]; omega

theorem encTransVec_RT (ts : List Trans) (h : wfTransVec ts = true) : RT (encVec encTrans) (decVec decTrans) ts := by
  simp [wfTransVec] at h
  exact encVec_RT _ _ ts h.1 (fun a _ => encTrans_ne_nil a) (fun a ha => encTrans_RT a (by simpa using h.2 a ha))

theorem encOptTransVec_RT (o : Option (List Trans)) (h : wfOptTransVec o = true) :
    RT (encOption (encVec encTrans)) (decOption (decVec decTrans)) o :=
  encOption_RT _ _ o (fun a ha => encTransVec_RT a (by subst ha; exact h))

theorem encState_RT (s : State) (h : wfState s = true) : RT encState decState s := by
  intro r
  simp [wfState] at h
  obtain ⟨⟨⟨⟨ha, hca⟩, hcb⟩, hlen⟩, hts⟩ := h
  have h1 := encOption_RT encAction decAction s.action
    (fun a e => encAction_RT a (by subst_vars; simpa [wfOptAction, e] using ha))
  have h2 := encOption_RT encCounter decCounter s.counterA
    (fun a e => encCounter_RT a (by simpa [wfOptCounter, e] using hca))
  have h3 := encOption_RT encCounter decCounter s.counterB
    (fun a e => encCounter_RT a (by simpa [wfOptCounter, e] using hcb))
  have h4 := decN_encList (encOption (encVec encTrans)) (decOption (decVec decTrans)) s.transitions
    (fun o ho => encOptTransVec_RT o (hts o ho)) r
  rw [hlen] at h4
  simp [encState, decState, List.append_assoc, h1 _, h2 _, h3 _, h4]

theorem encState_ne_nil (s : State) : 1 ≤ (encState s).length := by
  have := encOption_ne_nil encAction s.action
  simp [encState]; omega

theorem encMachine_RT (m : Machine) (h : WFm m = true) : RT encMachine decMachine m := by
  intro r
  simp [WFm] at h
  obtain ⟨⟨⟨h1, h2⟩, h3⟩, h4⟩ := h
  have hv := encVec_RT encState decState m.states h3 (fun a _ => encState_ne_nil a)
    (fun a ha => encState_RT a (h4 a ha))
  simp [encMachine, decMachine, List.append_assoc, encVarint_RT _ h1 _, encVarint_RT _ h2 _,
    encF64_RT _ _, hv _]

theorem decodeMachine_encMachine (m : Machine) (h : WFm m = true) : decodeMachine (encMachine m) = some m := by
  have := encMachine_RT m h []
  simp at this
  simp [decodeMachine, this]

end Codec
end Mb
