/-
  C09, lower bound / exactness: every invocation of `transition` for a machine that exists records
  its own `trans` entry in the ghost log, so the delivery round delivers exactly one Signal to each
  machine it visits.
-/
import MbVerif.Proofs.SigCount
import MbVerif.Proofs.Exhausted

namespace Mb
variable {σ : Type} (ρ : Oracle σ)

/-! ### counting on appended logs -/

theorem wsum_append (μ : LogEntry → Nat) (l l' : List LogEntry) : wsum μ (l ++ l') = wsum μ l + wsum μ l' := by
  simp [wsum]

theorem wsum_mem_le (μ : LogEntry → Nat) (e : LogEntry) (l : List LogEntry) (h : e ∈ l) : μ e ≤ wsum μ l := by
  induction l with
  | nil => cases h
  | cons a l ih =>
    rw [wsum_cons]
    rcases List.mem_cons.mp h with rfl | h'
    · omega
    · have := ih h'; omega

/-- the log only grows, so no count ever decreases -/
theorem sigOf_mono_of_ext (mi0 : Nat) {s t : Fw σ} (h : ∃ l, t.log = l ++ s.log) : sigOf mi0 s ≤ sigOf mi0 t := by
  obtain ⟨l, e⟩ := h
  unfold sigOf
  rw [e, wsum_append]; omega

/-! ### the own entry of a transition -/

/-- the log of `t` extends the log of `s` -/
def LogExt (s t : Fw σ) : Prop := ∃ l, t.log = l ++ s.log

theorem LogExt.refl (s : Fw σ) : LogExt s s := ⟨[], rfl⟩

theorem LogExt.trans {s t u : Fw σ} (h₁ : LogExt s t) (h₂ : LogExt t u) : LogExt s u := by
  obtain ⟨l1, e1⟩ := h₁
  obtain ⟨l2, e2⟩ := h₂
  exact ⟨l2 ++ l1, by rw [e2, e1, List.append_assoc]⟩

theorem LogExt.ofQQ {mi : Nat} {s t : Fw σ} (h : QQ mi s t) : LogExt s t := by
  obtain ⟨l, e, _⟩ := h
  exact ⟨l, e⟩

theorem LogExt.ofReach {mi : Nat} {s t : Fw σ} (h : Reach mi s t) : LogExt s t := h.logExt

theorem LogExt.withFault (s : Fw σ) (f : Fault) : LogExt s (s.withFault f) := ⟨[], by simp⟩

theorem LogExt.push (s : Fw σ) (e : LogEntry) : LogExt s (s.push e) := ⟨[e], rfl⟩

theorem LogExt.same {s t : Fw σ} (h : t.log = s.log) : LogExt s t := ⟨[], by simp [h]⟩

/-- after pushing its own `trans` entry, the rest of a `transition` only extends the log -/
theorem transition_after_push (n j : Nat) (ev : Event) (s : Fw σ) (r : Runtime) (m : Machine)
    (hr : s.rt[j]? = some r) (hm : s.machines[j]? = some m) :
    LogExt (s.push (.trans j ev.toNat r.currentState)) (transition ρ (n + 1) j ev s).1 := by
  rw [transition, hr, hm]
  simp only []
  have h0 : LogExt (s.push (.trans j ev.toNat r.currentState)) (s.push (.trans j ev.toNat r.currentState)) :=
    LogExt.refl _
  split
  · exact h0
  · cases hst : m.states[r.currentState]? with
    | none => exact h0.trans (LogExt.withFault _ _)
    | some st =>
    simp only []
    cases htr : st.transitions[ev.toNat]? with
    | none => exact h0.trans (LogExt.withFault _ _)
    | some ov =>
    cases ov with
    | none => exact h0
    | some vec =>
    simp only []
    have h1 : LogExt (s.push (.trans j ev.toNat r.currentState)) (({ s.push (.trans j ev.toNat r.currentState) with
          rng := (ρ.u (s.push (.trans j ev.toNat r.currentState)).rng).2 }).push
        (.draw (ρ.u (s.push (.trans j ev.toNat r.currentState)).rng).1)) :=
      ⟨[.draw (ρ.u (s.push (.trans j ev.toNat r.currentState)).rng).1], rfl⟩
    split
    · exact h1
    · next nxt _ =>
      have h2 := h1.trans (LogExt.push _ (.sampled j ev.toNat nxt))
      split
      · exact h2.trans (LogExt.same (by simp))
      · split
        · exact h2.trans (LogExt.same rfl)
        · have h3 := h2.trans (LogExt.ofQQ (qq_enterState ρ (mi := j) m r.currentState nxt _))
          generalize enterState ρ j m r.currentState nxt _ = s3 at h3 ⊢
          refine h3.trans ?_
          cases hr3 : s3.rt[j]? with
          | none => exact LogExt.withFault _ _
          | some r1 =>
          simp only []
          cases hb : belowActionLimits s3.g r1 m with
          | none => exact LogExt.withFault _ _
          | some below =>
          simp only []
          have hU : LogExt s3 (updateCounter ρ n j s3).1 := LogExt.ofQQ ((qq_main ρ (mi := j) n).2 s3)
          have h5 : LogExt s3 (if ((updateCounter ρ n j s3).2.1 && below) = true
              then scheduleAction ρ j nxt (updateCounter ρ n j s3).1 else (updateCounter ρ n j s3).1) := by
            split
            · obtain ⟨l2, e2, _⟩ := schedule_spec ρ (mi := j) nxt (updateCounter ρ n j s3).1
              exact hU.trans ⟨l2, e2⟩
            · exact hU
          generalize (if ((updateCounter ρ n j s3).2.1 && below) = true
              then scheduleAction ρ j nxt (updateCounter ρ n j s3).1 else (updateCounter ρ n j s3).1) = s5 at h5 ⊢
          cases hr5 : s5.rt[j]? with
          | none => exact h5.trans (LogExt.withFault _ _)
          | some r2 => exact h5

/-- **Own entry**: an invocation of `transition` for an existing machine extends the log by a
    segment that contains the invocation's own `trans` entry. -/
theorem transition_logs_own_entry (n j : Nat) (ev : Event) (s : Fw σ) (r : Runtime) (m : Machine)
    (hr : s.rt[j]? = some r) (hm : s.machines[j]? = some m) :
    ∃ l, (transition ρ (n + 1) j ev s).1.log = l ++ s.log ∧ LogEntry.trans j ev.toNat r.currentState ∈ l := by
  obtain ⟨l, e⟩ := transition_after_push ρ n j ev s r m hr hm
  refine ⟨l ++ [.trans j ev.toNat r.currentState], ?_, by simp⟩
  rw [e]; simp [Fw.push]

/-! ### exact effect of one Signal delivery -/

theorem Prim.logExt {s t : Fw σ} (h : Prim s t) : LogExt s t := by
  cases h with
  | step mi st => exact st.logExt
  | setG => exact LogExt.same rfl
  | setAcct => exact LogExt.same (by simp)
  | callStart => exact LogExt.same rfl

theorem Run.logExt {s t : Fw σ} (h : Run s t) : LogExt s t := by
  induction h with
  | refl => exact LogExt.refl _
  | tail _ hp ih => exact ih.trans hp.logExt

theorem run_machines {s t : Fw σ} (h : Run s t) : t.machines = s.machines :=
  Run.inv (fun u : Fw σ => u.machines = s.machines)
    (fun a b ha hp => by
      cases hp with
      | step mi st => rw [st.frame.machines]; exact ha
      | setG => exact ha
      | setAcct => simpa using ha
      | callStart => exact ha) h rfl

/-- machine `j` exists: it has a runtime and a description -/
def Present (j : Nat) (s : Fw σ) : Prop := j < s.rt.length ∧ j < s.machines.length

theorem Present.ofRun {j : Nat} {s t : Fw σ} (h : Run s t) (hp : Present j s) : Present j t := by
  unfold Present
  rw [run_rtLen h, run_machines h]; exact hp

theorem Present.get {j : Nat} {s : Fw σ} (hp : Present j s) :
    ∃ r m, s.rt[j]? = some r ∧ s.machines[j]? = some m :=
  ⟨s.rt[j]'hp.1, s.machines[j]'hp.2, List.getElem?_eq_getElem hp.1, List.getElem?_eq_getElem hp.2⟩

theorem FUEL_succ : FUEL = 7 + 1 := rfl

/-- delivering a Signal to an existing machine `j` adds exactly one Signal delivery for `j` to the
    log and none for any other machine (whatever the machine does in response) -/
theorem sig_transition_signal_eq (mi0 j : Nat) (s : Fw σ) (hp : Present mi0 s) :
    sigOf mi0 (transition ρ FUEL j .signal s).1 = sigOf mi0 s + (if j = mi0 then 1 else 0) := by
  have hup := sig_transition ρ mi0 j .signal s
  simp only [and_true] at hup
  refine Nat.le_antisymm hup ?_
  by_cases hj : j = mi0
  · subst hj
    simp only [if_true]
    obtain ⟨r, m, hr, hm⟩ := hp.get
    obtain ⟨l, e, hmem⟩ := transition_logs_own_entry ρ 7 j .signal s r m hr hm
    rw [← FUEL_succ] at e
    unfold sigOf
    rw [e, wsum_append]
    have h1 := wsum_mem_le (μSig j) _ l hmem
    have h2 : μSig j (.trans j Event.signal.toNat r.currentState) = 1 := by
      have : Event.signal.toNat = Gen.EV_Signal := (toNat_signal _).mpr rfl
      simp [μSig, this]
    omega
  · simp only [hj, if_false, Nat.add_zero]
    exact sigOf_mono_of_ext mi0 (transition_reach ρ FUEL j .signal s).logExt

/-- a transition for the machine itself on the Signal event: exactly one more delivery -/
theorem sig_transition_own (j : Nat) (s : Fw σ) (hp : Present j s) :
    sigOf j (transition ρ FUEL j .signal s).1 = sigOf j s + 1 := by
  have := sig_transition_signal_eq ρ j j s hp
  simpa using this

/-- delivering Signal to each machine of a duplicate-free list delivers exactly one Signal to each
    machine of the list and none to the others -/
theorem sig_fold_signal_eq (mi0 : Nat) (l : List Nat) (hl : l.Nodup) (s : Fw σ) (hp : Present mi0 s) :
    sigOf mi0 (l.foldl (fun s mi => (transition ρ FUEL mi .signal s).1) s) =
      sigOf mi0 s + (if mi0 ∈ l then 1 else 0) := by
  induction l generalizing s with
  | nil => simp
  | cons a l ih =>
    rw [List.nodup_cons] at hl
    simp only [List.foldl_cons]
    have hp' : Present mi0 (transition ρ FUEL a .signal s).1 :=
      hp.ofRun (Run.ofReach (transition_reach ρ FUEL a .signal s))
    rw [ih hl.2 _ hp', sig_transition_signal_eq ρ mi0 a s hp]
    by_cases ha : a = mi0
    · subst ha
      have hn : ¬ a ∈ l := hl.1
      simp [hn]
    · have hne : ¬ mi0 = a := fun h => ha h.symm
      simp [ha, hne]

theorem signalFold_run' (l : List Nat) (s : Fw σ) :
    Run s (l.foldl (fun s mi => (transition ρ FUEL mi .signal s).1) s) :=
  Run.foldl _ (fun s mi => Run.ofReach (transition_reach ρ FUEL mi .signal s)) _ _

end Mb

namespace Mb.C09
open Mb
variable {σ : Type} (ρ : Oracle σ)

/-- the state after the first delivery round: the slot is reset and Signal is delivered to every
    machine but the excluded one -/
def afterFirst (s : Fw σ) (excluded : Option Nat) : Fw σ :=
  (firstRound s.rt.length excluded).foldl (fun s mi => (transition ρ FUEL mi .signal s).1)
    ({ s with signalPending := none } : Fw σ)

/-- the first round delivers exactly one Signal to every machine but the excluded one -/
theorem sig_afterFirst (s : Fw σ) (excluded : Option Nat) (j : Nat) (hp : Present j s) :
    sigOf j (afterFirst ρ s excluded) = sigOf j s + (if excluded = some j then 0 else 1) := by
  unfold afterFirst
  have hp0 : Present j ({ s with signalPending := none } : Fw σ) := hp
  rw [sig_fold_signal_eq ρ j _ (sr_targets_nodup _ _) _ hp0]
  have e0 : sigOf j ({ s with signalPending := none } : Fw σ) = sigOf j s := rfl
  rw [e0]
  by_cases hx : excluded = some j
  · subst hx
    simp [sr_excluded_not_visited]
  · have := sr_targets_complete s.rt.length excluded j hp.1 hx
    simp [this, hx]

theorem present_afterFirst (s : Fw σ) (excluded : Option Nat) (j : Nat) (hp : Present j s) :
    Present j (afterFirst ρ s excluded) := by
  unfold afterFirst
  have hp0 : Present j ({ s with signalPending := none } : Fw σ) := hp
  exact hp0.ofRun (signalFold_run' ρ _ _)

/-- **The delivery round delivers exactly.** For an existing machine `j`:
    nothing pending: no Signal; `all` pending: exactly one Signal; `allExcept x` pending: exactly
    one Signal for `j ≠ x`, and for `x` itself exactly one if the first round left a signal pending
    (some machine answered a delivered Signal by signalling) and none otherwise. -/
theorem round_delivers (s : Fw σ) (j : Nat) (hp : Present j s) :
    (s.signalPending = none → sigOf j (signalRound ρ s) = sigOf j s) ∧
    (s.signalPending = some .all → sigOf j (signalRound ρ s) = sigOf j s + 1) ∧
    (∀ x, s.signalPending = some (.allExcept x) →
      (j ≠ x → sigOf j (signalRound ρ s) = sigOf j s + 1) ∧
      (j = x → sigOf j (signalRound ρ s) =
        sigOf j s + (if (afterFirst ρ s (some x)).signalPending.isSome then 1 else 0))) := by
  refine ⟨fun h => by rw [sr_round_none ρ s h], fun h => ?_, fun x h => ?_⟩
  · rw [sr_round_all ρ s h]
    simp only []
    have h2 := sig_afterFirst ρ s none j hp
    unfold afterFirst at h2
    simp only [reduceCtorEq, if_false] at h2
    generalize ((firstRound s.rt.length none).foldl (fun s mi => (transition ρ FUEL mi .signal s).1)
      ({ s with signalPending := none } : Fw σ)) = s2 at h2 ⊢
    cases hs2 : s2.signalPending with
    | none => exact h2
    | some _ => exact h2
  · rw [sr_round_lone ρ s x h]
    simp only []
    have h2 := sig_afterFirst ρ s (some x) j hp
    have hp2 := present_afterFirst ρ s (some x) j hp
    unfold afterFirst at h2 hp2 ⊢
    generalize ((firstRound s.rt.length (some x)).foldl (fun s mi => (transition ρ FUEL mi .signal s).1)
      ({ s with signalPending := none } : Fw σ)) = s2 at h2 hp2 ⊢
    have hp3 : Present j ({ s2 with signalPending := none } : Fw σ) := hp2
    have h3 := sig_transition_signal_eq ρ j x ({ s2 with signalPending := none } : Fw σ) hp3
    have e3 : sigOf j ({ s2 with signalPending := none } : Fw σ) = sigOf j s2 := rfl
    rw [e3] at h3
    refine ⟨fun hne => ?_, fun heq => ?_⟩
    · have hne' : ¬ x = j := fun h' => hne h'.symm
      have hne'' : ¬ some x = some j := fun h' => hne' (Option.some.inj h')
      simp only [hne'', if_false] at h2
      simp only [hne', if_false, Nat.add_zero] at h3
      cases hs2 : s2.signalPending with
      | none => exact h2
      | some _ => simp only []; rw [h3]; exact h2
    · subst heq
      simp only [if_true, Nat.add_zero] at h2 h3
      cases hs2 : s2.signalPending with
      | none => simpa using h2
      | some _ => simp only [Option.isSome_some, if_true]; rw [h3, h2]

/-- the state after the reported events of a call, before the delivery round -/
def eventsDone (es : List TEvent) (t : Int) (s : Fw σ) : Fw σ :=
  es.foldl (fun s e => processEvent ρ e s) (s.callStart t)

theorem triggerEvents_eq (es : List TEvent) (t : Int) (s : Fw σ) :
    triggerEvents ρ es t s = signalRound ρ (eventsDone ρ es t s) := rfl

theorem eventsDone_run (es : List TEvent) (t : Int) (s : Fw σ) : Run s (eventsDone ρ es t s) :=
  (Run.single (Prim.callStart s t)).trans (Run.foldl _ (fun s e => processEvent_run ρ e s) _ _)

/-- the reported events of a call deliver no Signal at all -/
theorem sig_eventsDone (es : List TEvent) (t : Int) (s : Fw σ) (j : Nat) :
    sigOf j (eventsDone ρ es t s) = sigOf j s := by
  refine Nat.le_antisymm ?_ (sigOf_mono_of_ext j (eventsDone_run ρ es t s).logExt)
  have h1 : sigOf j (eventsDone ρ es t s) ≤ sigOf j (s.callStart t) :=
    sig_fold0 j _ (fun s e => sig_processEvent ρ j e s) _ _
  exact h1

/-- **A whole call delivers exactly.** With `p` the pending slot after the reported events of the
    call: see `round_delivers`. -/
theorem call_delivers (es : List TEvent) (t : Int) (s : Fw σ) (j : Nat) (hp : Present j s) :
    ((eventsDone ρ es t s).signalPending = none → sigOf j (triggerEvents ρ es t s) = sigOf j s) ∧
    ((eventsDone ρ es t s).signalPending = some .all → sigOf j (triggerEvents ρ es t s) = sigOf j s + 1) ∧
    (∀ x, (eventsDone ρ es t s).signalPending = some (.allExcept x) →
      (j ≠ x → sigOf j (triggerEvents ρ es t s) = sigOf j s + 1) ∧
      (j = x → sigOf j (triggerEvents ρ es t s) =
        sigOf j s + (if (afterFirst ρ (eventsDone ρ es t s) (some x)).signalPending.isSome then 1 else 0))) := by
  have hp1 : Present j (eventsDone ρ es t s) := hp.ofRun (eventsDone_run ρ es t s)
  have h := round_delivers ρ (eventsDone ρ es t s) j hp1
  rw [sig_eventsDone ρ es t s j] at h
  rw [triggerEvents_eq]
  exact h

end Mb.C09
