/-
  Recording is a pure function of the event stream: the final stable sort is the identity on the
  (time-ordered) stream, and filtering the stream with the run's filters is filtering the
  recorded events.
-/
import MbVerif.Proofs.SimLoop

namespace Mb.Sim
open Mb Mb.SimSpec

/-- a stream as the main loop produces it: ordered by time, network flag determined by the event -/
def GoodStream (s : List StepRec) : Prop :=
  (∀ r ∈ s, r.net = isNetwork r.ev) ∧ s.Pairwise (fun a b => a.ev.time ≤ b.ev.time)

theorem record_eq_filter (args : Args) (s : List StepRec) (h : s.Pairwise (fun a b => a.ev.time ≤ b.ev.time)) :
    record args s = (s.filter args.keep).map (·.ev) := by
  unfold record
  apply List.mergeSort_of_pairwise
  rw [List.pairwise_map]
  have := List.Pairwise.filter args.keep h
  exact this.imp (by intro a b hab; simpa using hab)

theorem keep_eq_keepObs (on oc : Bool) (r : StepRec) (h : r.net = isNetwork r.ev) :
    keep on oc r = keepObs on oc r.ev := by
  simp [keep, keepObs, h]

theorem filter_stream_eq (on oc : Bool) (s : List StepRec) (h : ∀ r ∈ s, r.net = isNetwork r.ev) :
    (s.filter (keep on oc)).map (·.ev) = (s.map (·.ev)).filter (keepObs on oc) := by
  rw [List.filter_map]
  congr 1
  apply List.filter_congr
  intro r hr
  simpa using keep_eq_keepObs on oc r (h r hr)

/-- filtering with "no filter" keeps everything -/
theorem filter_keep_none (s : List StepRec) : s.filter (keep false false) = s := by
  apply List.filter_eq_self.2
  intro r _
  simp [keep]

section
variable {σ : Type}

theorem finish_fault (args : Args) (o : LoopOut σ) (f : SimFault) (h : o.stop = .fault f) :
    finish args o = ⟨[], o.stream, .fault f, none⟩ := by
  unfold finish; rw [h]

theorem finish_ok (args : Args) (o : LoopOut σ) (h : ∀ f, o.stop ≠ .fault f) :
    finish args o = ⟨record args o.stream, o.stream, o.stop, o.final⟩ := by
  unfold finish
  cases hs : o.stop with
  | fault f => exact absurd hs (h f)
  | queueEmpty | maxTrace | maxIter | noNormal | loopFuel => rfl

theorem finish_stop (args : Args) (o : LoopOut σ) : (finish args o).stop = o.stop := by
  unfold finish
  cases hs : o.stop <;> rfl

theorem finish_stream (args : Args) (o : LoopOut σ) : (finish args o).stream = o.stream := by
  unfold finish
  cases hs : o.stop <;> rfl

/-- the trace of a finished run whose stream is ordered by time -/
theorem finish_trace (args : Args) (o : LoopOut σ) (hp : o.stream.Pairwise (fun a b => a.ev.time ≤ b.ev.time)) :
    (finish args o).trace = if o.stop.isFault then [] else (o.stream.filter args.keep).map (·.ev) := by
  cases hs : o.stop with
  | fault f => rw [finish_fault args o f hs]; simp [Stop.isFault]
  | queueEmpty | maxTrace | maxIter | noNormal | loopFuel =>
    rw [finish_ok args o (by intro f h; rw [hs] at h; cases h)]
    simp only [Stop.isFault]
    exact record_eq_filter args _ hp

end

theorem sameButFilters_unfiltered (a : Args) : sameButFilters a a.unfiltered := by
  simp [sameButFilters, Args.unfiltered]

theorem initState_unfiltered {σ : Type} (ρ : Oracle σ) (mc ms : List Machine) (sq : SimQueue) (a : Args) (orc : σ) :
    initState ρ mc ms sq a.unfiltered orc = initState ρ mc ms sq a orc := rfl

/-! a concrete two-packet state without machines, built directly so that the kernel can evaluate
    runs from it (used by the non-vacuity examples of the property files) -/
def exArgs : Args :=
  { network := ⟨10, none⟩, maxTraceLength := 0, maxSimIterations := 0, continueAfterAllNormal := false,
    onlyClientEvents := true, onlyNetworkActivity := false, fpClient := 0, fbClient := 0, fpServer := 0, fbServer := 0 }
def exOracle : Oracle Unit := ⟨fun u => (0, u), fun _ u => (0, u)⟩
def exSide : Side Unit :=
  { fw := Fw.init exOracle [] 0 0 0 (), schedAction := [], schedTimer := [], blockingUntil := none, blockingBypassable := false }
def exState : Option (St Unit) :=
  let sq := parseTrace [(0, true), (1000, false)] 10
  match Bottleneck.new ⟨10, none⟩ 1000000000 sq.maxPps with
  | .ok net => some { sq := sq, client := exSide, server := exSide, net := net, now := 0, orc := () }
  | .error _ => none

end Mb.Sim
