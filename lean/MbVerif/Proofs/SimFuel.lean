/-
  `pick_next` terminates: every recursive call removes one pending aggregate delay, internal
  timer or scheduled action, so fuel `pickMeasure st + 1` is never exhausted.
-/
import MbVerif.Proofs.SimBasic

namespace Mb.Sim
open Mb

/-! ### the heap model keeps its length -/

section heap
variable {α : Type} (le : α → α → Bool)

theorem siftUp_length (x : α) : ∀ (fuel : Nat) (d : List α) (start pos : Nat),
    (Heap.siftUp le x fuel d start pos).length = d.length := by
  intro fuel
  induction fuel with
  | zero => intro d start pos; simp [Heap.siftUp]
  | succ n ih =>
    intro d start pos
    unfold Heap.siftUp
    split
    · simp only []
      split
      · simp
      · split
        · simp
        · rw [ih]; simp
    · simp

theorem siftDownLoop_length : ∀ (fuel : Nat) (d : List α) (endd hole : Nat),
    (Heap.siftDownLoop le fuel d endd hole).1.length = d.length := by
  intro fuel
  induction fuel with
  | zero => intro d endd hole; simp [Heap.siftDownLoop]
  | succ n ih =>
    intro d endd hole
    unfold Heap.siftDownLoop
    simp only []
    split
    · split
      · rw [ih]; simp
      · rfl
    · split
      · split
        · simp
        · rfl
      · rfl

theorem siftDownToBottom_length (x : α) (d : List α) : (Heap.siftDownToBottom le x d).length = d.length := by
  unfold Heap.siftDownToBottom
  simp only []
  rw [siftUp_length, siftDownLoop_length]

theorem heap_pop_len {h h' : Heap α} {x : α} (hp : Heap.pop le h = some (x, h')) : h'.len + 1 = h.len := by
  unfold Heap.pop at hp
  cases hl : h.data.getLast? with
  | none => simp [hl] at hp
  | some last =>
    simp only [hl] at hp
    have hne : h.data ≠ [] := by
      intro he; simp [he] at hl
    have hlen : h.data.dropLast.length + 1 = h.data.length := by
      have := List.length_dropLast (xs := h.data)
      have hpos : 0 < h.data.length := List.length_pos_iff.2 hne
      omega
    cases hr : h.data.dropLast with
    | nil =>
      simp only [hr] at hp
      cases hp
      simp [Heap.len, hr] at hlen ⊢
      omega
    | cons root rest =>
      simp only [hr] at hp
      cases hp
      simp only [Heap.len, siftDownToBottom_length]
      rw [← hr]; exact hlen

theorem heap_pop_none {h : Heap α} (hp : Heap.pop le h = none) : h.len = 0 := by
  unfold Heap.pop at hp
  cases hl : h.data.getLast? with
  | none =>
    have : h.data = [] := by simpa using hl
    simp [Heap.len, this]
  | some last =>
    simp only [hl] at hp
    cases hr : h.data.dropLast <;> simp [hr] at hp

theorem heap_peek_none {h : Heap α} (hp : h.peek = none) : h.len = 0 := by
  unfold Heap.peek at hp
  cases hd : h.data with
  | nil => simp [Heap.len, hd]
  | cons a r => simp [hd] at hp

end heap

/-! ### every recursive branch shrinks the measure -/

theorem findSlot_spec {α : Type} (p : α → Bool) : ∀ (l : List (Option α)) (i j : Nat) (a : α),
    findSlot p l i = some (j, a) → ∃ k, j = i + k ∧ l[k]? = some (some a) := by
  intro l
  induction l with
  | nil => intro i j a h; simp [findSlot] at h
  | cons x xs ih =>
    intro i j a h
    cases x with
    | none =>
      simp only [findSlot] at h
      obtain ⟨k, hk, hl⟩ := ih _ _ _ h
      exact ⟨k + 1, by omega, by simpa using hl⟩
    | some b =>
      simp only [findSlot] at h
      split at h
      · cases h; exact ⟨0, by omega, by simp⟩
      · obtain ⟨k, hk, hl⟩ := ih _ _ _ h
        exact ⟨k + 1, by omega, by simpa using hl⟩

theorem count_set_none {α : Type} : ∀ (l : List (Option α)) (k : Nat) (a : α), l[k]? = some (some a) →
    ((l.set k none).filter Option.isSome).length + 1 = (l.filter Option.isSome).length := by
  intro l
  induction l with
  | nil => intro k a h; simp at h
  | cons x xs ih =>
    intro k a h
    cases k with
    | zero =>
      simp at h
      subst h
      simp
    | succ k =>
      simp at h
      have := ih k a h
      cases x <;> simp [List.set, List.filter] <;> omega

section
variable {σ : Type}

theorem pickAgg_measure {st st' : St σ} (h : pickAgg st = .ok st') :
    pickMeasure st' + 1 = pickMeasure st := by
  unfold pickAgg at h
  split at h
  · cases h
  rename_i hd
  rw [bind_ok_iff] at h
  obtain ⟨net, h1, h2⟩ := h
  simp only [pure, Except.pure] at h2
  cases h2
  unfold Bottleneck.popAggregateDelay at h1
  cases hp : Heap.pop PendingAgg.le st.net.aggQueue with
  | none =>
    have := heap_pop_none _ hp
    omega
  | some p =>
    obtain ⟨a, q⟩ := p
    have hl := heap_pop_len _ hp
    simp only [hp] at h1
    split at h1
    · rw [bind_ok_iff] at h1
      obtain ⟨v, _, h4⟩ := h1
      simp only [pure, Except.pure] at h4
      cases h4
      simp only [pickMeasure]
      omega
    · rw [bind_ok_iff] at h1
      obtain ⟨v, _, h4⟩ := h1
      simp only [pure, Except.pure] at h4
      cases h4
      simp only [pickMeasure]
      omega

theorem pickTimer_measure {st st' : St σ} {i : Nat} (h : pickTimer st i = .ok st') :
    pickMeasure st' + 1 = pickMeasure st := by
  unfold pickTimer at h
  rw [bind_ok_iff] at h
  obtain ⟨⟨ev, st1⟩, h1, h2⟩ := h
  simp only [pure, Except.pure] at h2
  cases h2
  unfold doInternalTimer at h1
  split at h1
  · rename_i id a hf
    cases h1
    obtain ⟨k, hk, hl⟩ := findSlot_spec _ _ _ _ _ hf
    have hk' : id = k := by omega
    subst hk'
    have := count_set_none _ _ _ hl
    simp only [pickMeasure]
    omega
  · split at h1
    · rename_i id a hf
      cases h1
      obtain ⟨k, hk, hl⟩ := findSlot_spec _ _ _ _ _ hf
      have hk' : id = k := by omega
      subst hk'
      have := count_set_none _ _ _ hl
      simp only [pickMeasure]
      omega
    · cases h1

theorem setSide_measure_action (st : St σ) (c : Bool) (sd : Side σ)
    (ht : sd.schedTimer = (st.side c).schedTimer)
    (ha : (sd.schedAction.filter Option.isSome).length + 1 = ((st.side c).schedAction.filter Option.isSome).length) :
    pickMeasure (st.setSide c sd) + 1 = pickMeasure st := by
  cases c
  · simp only [St.setSide, St.side, pickMeasure] at *
    simp only [Bool.false_eq_true, if_false] at *
    rw [ht]; omega
  · simp only [St.setSide, St.side, pickMeasure] at *
    simp only [if_true] at *
    rw [ht]; omega

theorem pickAction_measure {st st' : St σ} {s : Nat} (h : pickAction st s = .ok st') :
    pickMeasure st' + 1 = pickMeasure st := by
  unfold pickAction at h
  rw [bind_ok_iff] at h
  obtain ⟨⟨ev, st1⟩, h1, h2⟩ := h
  simp only [pure, Except.pure] at h2
  cases h2
  unfold doScheduledAction at h1
  simp only [] at h1
  split at h1
  · cases h1
  · rename_i isClient i a hfound
    -- the slot found is `some a` on side `isClient`
    have hslot : (st.side isClient).schedAction[i]? = some (some a) := by
      unfold findAction at hfound
      split at hfound
      · rename_i j b hf
        cases hfound
        obtain ⟨k, hk, hl⟩ := findSlot_spec _ _ _ _ _ hf
        rw [Nat.zero_add] at hk
        subst hk
        simpa [St.side] using hl
      · split at hfound
        · rename_i j b hf
          cases hfound
          obtain ⟨k, hk, hl⟩ := findSlot_spec _ _ _ _ _ hf
          rw [Nat.zero_add] at hk
          subst hk
          simpa [St.side] using hl
        · cases hfound
    have hcnt := count_set_none _ _ _ hslot
    split at h1
    · cases h1
    · cases h1
    · cases h1
      have := setSide_measure_action st isClient
        { (st.side isClient) with schedAction := (st.side isClient).schedAction.set i none } rfl hcnt
      simpa [pickMeasure] using this
    · rename_i x to dur byp rep m heq
      cases h1
      have := setSide_measure_action st isClient
        { (st.side isClient) with
            schedAction := (st.side isClient).schedAction.set i none,
            blockingUntil := (blockUpdate (st.side isClient).blockingUntil (st.side isClient).blockingBypassable a.time
              (dur * 1000) byp rep).1,
            blockingBypassable := (blockUpdate (st.side isClient).blockingUntil (st.side isClient).blockingBypassable a.time
              (dur * 1000) byp rep).2 } rfl hcnt
      simpa [pickMeasure] using this

/-- **Fuel sufficiency**: with more fuel than pending items `pick_next` is defined. -/
theorem pickNext_fuel_ok : ∀ (fuel : Nat) (st : St σ), pickMeasure st < fuel → (pickNext fuel st).isSome = true := by
  intro fuel
  induction fuel with
  | zero => intro st h; omega
  | succ n ih =>
    intro st hm
    unfold pickNext
    split
    · rfl
    · rfl
    · split
      · rfl
      · rename_i st1 ha
        have := pickAgg_measure ha
        exact ih st1 (by omega)
    · split <;> rfl
    · split <;> rfl
    · split
      · rfl
      · rename_i st1 ht
        have := pickTimer_measure ht
        exact ih st1 (by omega)
    · split
      · rfl
      · rename_i st1 ha
        have := pickAction_measure ha
        exact ih st1 (by omega)

end
end Mb.Sim
