/-
  Signal slot algebra and the unfolding of the delivery round (helper lemmas for C09).
-/
import MbVerif.Proofs.SafeCall
import Mathlib.Data.List.Nodup
import Mathlib.Data.List.Range

namespace Mb.C09
open Mb

variable {σ : Type} (ρ : Oracle σ)

/-- the pending-signal slot as a function of the previous slot and the signalling machine -/
def sigStep (p : Option SignalTarget) (mi : Nat) : Option SignalTarget :=
  match p with
  | none => some (.allExcept mi)
  | some (.allExcept other) => if other = mi then some (.allExcept mi) else some .all
  | some .all => some .all

theorem signalFrom_pending (mi : Nat) (s : Fw σ) : (signalFrom mi s).signalPending = sigStep s.signalPending mi := by
  unfold signalFrom sigStep
  cases s.signalPending with
  | none => rfl
  | some p => cases p <;> rfl

/-- once `all`, always `all` -/
theorem sigStep_all (ids : List Nat) : ids.foldl sigStep (some .all) = some .all := by
  induction ids with
  | nil => rfl
  | cons i ids ih => simpa [sigStep] using ih

/-- a lone signaller stays excluded however often it signals; a second machine widens to all -/
theorem sr_pending_spec (x : Nat) (ids : List Nat) :
    ids.foldl sigStep (some (.allExcept x)) =
      if ids.all (· == x) then some (.allExcept x) else some .all := by
  induction ids with
  | nil => rfl
  | cons i ids ih =>
    simp only [List.foldl_cons, List.all_cons]
    by_cases hi : i = x
    · subst hi
      simp only [sigStep, if_true, beq_self_eq_true, Bool.true_and]
      exact ih
    · have : (i == x) = false := by simpa using hi
      have hx : ¬ x = i := fun h => hi h.symm
      simp only [sigStep, hx, if_false, this, Bool.false_and]
      simpa using sigStep_all ids

/-- the first signal of a call excludes its sender -/
theorem sr_first (x : Nat) (ids : List Nat) :
    (x :: ids).foldl sigStep none = if ids.all (· == x) then some (.allExcept x) else some .all :=
  sr_pending_spec x ids

/-- the machines visited by the first delivery round -/
def firstRound (n : Nat) (excluded : Option Nat) : List Nat :=
  (List.range n).filter (fun mi => !(excluded == some mi))

theorem sr_targets_nodup (n : Nat) (excluded : Option Nat) : (firstRound n excluded).Nodup :=
  (List.nodup_range (n := n)).filter _

theorem sr_targets_complete (n : Nat) (excluded : Option Nat) (mi : Nat) (h : mi < n) (hne : excluded ≠ some mi) :
    mi ∈ firstRound n excluded := by
  unfold firstRound
  rw [List.mem_filter]
  refine ⟨List.mem_range.mpr h, ?_⟩
  cases excluded with
  | none => rfl
  | some x =>
    have : ¬ x = mi := fun hx => hne (by rw [hx])
    simp [this]

theorem sr_excluded_not_visited (n x : Nat) : x ∉ firstRound n (some x) := by
  unfold firstRound
  simp [List.mem_filter]

/-- the fold of the model's delivery round visits exactly `firstRound` -/
theorem sr_round_fold (excluded : Option Nat) (s : Fw σ) (n : Nat) :
    (List.range n).foldl (fun s mi =>
      if (excluded == some mi) = true then s else (transition ρ FUEL mi .signal s).1) s =
    (firstRound n excluded).foldl (fun s mi => (transition ρ FUEL mi .signal s).1) s := by
  unfold firstRound
  generalize List.range n = l
  induction l generalizing s with
  | nil => rfl
  | cons a l ih =>
    simp only [List.foldl_cons, List.filter_cons]
    cases h : (excluded == some a) with
    | true =>
      simp only [if_true, Bool.not_true, Bool.false_eq_true, if_false]
      exact ih s
    | false =>
      simp only [Bool.false_eq_true, if_false, Bool.not_false, if_true, List.foldl_cons]
      exact ih _

/-- no signal pending: the delivery round does nothing -/
theorem sr_round_none (s : Fw σ) (h : s.signalPending = none) : signalRound ρ s = s := by
  unfold signalRound; rw [h]

/-- several signallers: every machine is visited once, nobody twice -/
theorem sr_round_all (s : Fw σ) (h : s.signalPending = some .all) :
    signalRound ρ s =
      let s2 := (firstRound s.rt.length none).foldl (fun s mi => (transition ρ FUEL mi .signal s).1)
        ({ s with signalPending := none } : Fw σ)
      match s2.signalPending with
      | none => s2
      | some _ => { s2 with signalPending := none } := by
  unfold signalRound
  rw [h]
  simp only []
  rw [sr_round_fold]
  cases hp : ((firstRound s.rt.length none).foldl (fun s mi => (transition ρ FUEL mi .signal s).1)
        ({ s with signalPending := none } : Fw σ)).signalPending <;> simp [hp]

/-- a lone signaller `x`: every other machine is visited once; `x` is visited (once, afterwards)
    iff one of them answered by signalling -/
theorem sr_round_lone (s : Fw σ) (x : Nat) (h : s.signalPending = some (.allExcept x)) :
    signalRound ρ s =
      let s2 := (firstRound s.rt.length (some x)).foldl (fun s mi => (transition ρ FUEL mi .signal s).1)
        ({ s with signalPending := none } : Fw σ)
      match s2.signalPending with
      | none => s2
      | some _ => (transition ρ FUEL x .signal ({ s2 with signalPending := none } : Fw σ)).1 := by
  unfold signalRound
  rw [h]
  simp only []
  rw [sr_round_fold]
  cases hp : ((firstRound s.rt.length (some x)).foldl (fun s mi => (transition ρ FUEL mi .signal s).1)
        ({ s with signalPending := none } : Fw σ)).signalPending <;> simp [hp]

/-- Non-vacuity: machine 2 signalling three times keeps excluding machine 2; machines 2 and 0 give `all`. -/
example : [2, 2, 2].foldl sigStep none = some (.allExcept 2) := by decide
example : [2, 0, 2].foldl sigStep none = some .all := by decide
example : firstRound 4 (some 2) = [0, 1, 3] := by decide

end Mb.C09
