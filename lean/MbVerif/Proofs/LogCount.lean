/-
  Counting entries of the ghost log (the model's copy of the hook log): how many transition
  invocations one `transition` call can cause. Generic in a weight `μ` on log entries that
  vanishes on everything but `trans` entries.
-/
import MbVerif.Proofs.SafeCall

namespace Mb
variable {σ : Type} (ρ : Oracle σ)

/-- total weight of a log -/
def wsum (μ : LogEntry → Nat) (l : List LogEntry) : Nat := (l.map μ).sum

/-- the weight only counts `trans` entries -/
def TransOnly (μ : LogEntry → Nat) : Prop :=
  ∀ e, (∀ m ev st, e ≠ .trans m ev st) → μ e = 0

theorem wsum_cons (μ : LogEntry → Nat) (e : LogEntry) (l : List LogEntry) : wsum μ (e :: l) = μ e + wsum μ l := by
  simp [wsum]

/-- `t` has the same log weight as `s`, the same runtime of every machine and the same lengths -/
structure QuietLog (μ : LogEntry → Nat) (s t : Fw σ) : Prop where
  w : wsum μ t.log = wsum μ s.log

theorem QuietLog.refl (μ) (s : Fw σ) : QuietLog μ s s := ⟨rfl⟩
theorem QuietLog.trans {μ} {s t u : Fw σ} (h₁ : QuietLog μ s t) (h₂ : QuietLog μ t u) : QuietLog μ s u :=
  ⟨h₂.w.trans h₁.w⟩

variable {μ : LogEntry → Nat}

theorem quiet_push (hμ : TransOnly μ) (s : Fw σ) (e : LogEntry) (he : ∀ m ev st, e ≠ .trans m ev st) :
    QuietLog μ s (s.push e) := ⟨by simp [Fw.push, wsum_cons, hμ e he]⟩

theorem quiet_modRt (s : Fw σ) (mi : Nat) (f : Runtime → Runtime) : QuietLog μ s (s.modRt mi f) := ⟨by simp⟩
theorem quiet_withFault (s : Fw σ) (f : Fault) : QuietLog μ s (s.withFault f) := ⟨by simp⟩

theorem quiet_distSample (hμ : TransOnly μ) (d : Dist) (s : Fw σ) : QuietLog μ s (distSample ρ d s).2 := by
  unfold distSample
  exact ⟨by simp [Fw.push, wsum_cons, hμ (.distRaw _) (fun _ _ _ h => by cases h)]⟩

theorem quiet_sampleLimit (hμ : TransOnly μ) (a : Action) (s : Fw σ) : QuietLog μ s (sampleLimit ρ a s).2 := by
  unfold sampleLimit; split
  · exact QuietLog.refl μ s
  · exact quiet_distSample ρ hμ _ s

theorem quiet_sampleValue (hμ : TransOnly μ) (c : Counter) (s : Fw σ) : QuietLog μ s (sampleValue ρ c s).2 := by
  unfold sampleValue; split
  · exact QuietLog.refl μ s
  · exact quiet_distSample ρ hμ _ s

theorem quiet_sampleTimeout (hμ : TransOnly μ) (a : Action) (s : Fw σ) : QuietLog μ s (sampleTimeout ρ a s).2 := by
  unfold sampleTimeout; split
  · exact quiet_distSample ρ hμ _ s
  · exact quiet_distSample ρ hμ _ s
  · exact QuietLog.refl μ s

theorem quiet_sampleDuration (hμ : TransOnly μ) (a : Action) (s : Fw σ) : QuietLog μ s (sampleDuration ρ a s).2 := by
  unfold sampleDuration; split
  · exact quiet_distSample ρ hμ _ s
  · exact quiet_distSample ρ hμ _ s
  · exact QuietLog.refl μ s

theorem quiet_enterState (hμ : TransOnly μ) (mi : Nat) (m : Machine) (cur next : Nat) (s : Fw σ) :
    QuietLog μ s (enterState ρ mi m cur next s) := by
  unfold enterState
  split
  · simp only
    have h1 : QuietLog μ s (s.modRt mi (fun r => { r with currentState := next })) := quiet_modRt s mi _
    split
    · exact h1.trans (quiet_withFault _ _)
    · split
      · next a _ =>
        exact ((h1.trans (quiet_sampleLimit ρ hμ a _)).trans (quiet_modRt _ mi _)).trans
          (quiet_push hμ _ _ (fun _ _ _ h => by cases h))
      · exact (h1.trans (quiet_modRt _ mi _)).trans (quiet_push hμ _ _ (fun _ _ _ h => by cases h))
  · exact QuietLog.refl μ s

theorem quiet_counterOperand (hμ : TransOnly μ) (c : Counter) (other : Nat) (s : Fw σ) :
    QuietLog μ s (counterOperand ρ c other s).2 := by
  unfold counterOperand; split
  · exact QuietLog.refl μ s
  · exact quiet_sampleValue ρ hμ c s

theorem quiet_storeCounterA (mi oldA newA : Nat) (s : Fw σ) : QuietLog μ s (storeCounterA mi oldA newA s).1 := by
  unfold storeCounterA; simp only
  split
  · exact (quiet_modRt s mi _).trans (quiet_modRt _ mi _)
  · exact quiet_modRt s mi _

theorem quiet_storeCounterB (mi oldB newB : Nat) (s : Fw σ) : QuietLog μ s (storeCounterB mi oldB newB s).1 := by
  unfold storeCounterB; simp only
  split
  · exact (quiet_modRt s mi _).trans (quiet_modRt _ mi _)
  · exact quiet_modRt s mi _

theorem quiet_applyCounterA (hμ : TransOnly μ) (mi : Nat) (c : Option Counter) (oldA oldB : Nat) (s : Fw σ) :
    QuietLog μ s (applyCounterA ρ mi c oldA oldB s).1 := by
  unfold applyCounterA
  cases c with
  | none => exact QuietLog.refl μ s
  | some c => exact (quiet_counterOperand ρ hμ c oldB s).trans (quiet_storeCounterA mi _ _ _)

theorem quiet_applyCounterB (hμ : TransOnly μ) (mi : Nat) (c : Option Counter) (oldA oldB : Nat) (s : Fw σ) :
    QuietLog μ s (applyCounterB ρ mi c oldA oldB s).1 := by
  unfold applyCounterB
  cases c with
  | none => exact QuietLog.refl μ s
  | some c => exact (quiet_counterOperand ρ hμ c oldA s).trans (quiet_storeCounterB mi _ _ _)

theorem quiet_scheduleAction (hμ : TransOnly μ) (mi next : Nat) (s : Fw σ) :
    QuietLog μ s (scheduleAction ρ mi next s) := by
  unfold scheduleAction
  cases hm : s.machines[mi]? with
  | none => exact quiet_withFault s _
  | some m =>
    simp only []
    cases hst : m.states[next]? with
    | none => exact quiet_withFault s _
    | some st =>
      simp only []
      split
      · exact quiet_withFault s _
      · cases hact : st.action with
        | none => exact ⟨rfl⟩
        | some act =>
          cases act with
          | cancel t => exact ⟨rfl⟩
          | sendPadding b rp tmo lim =>
            simp only
            exact (quiet_sampleTimeout ρ hμ _ s).trans ⟨rfl⟩
          | blockOutgoing b rp tmo du lim =>
            simp only
            exact ((quiet_sampleTimeout ρ hμ _ s).trans (quiet_sampleDuration ρ hμ _ _)).trans ⟨rfl⟩
          | updateTimer rp du lim =>
            simp only
            exact (quiet_sampleDuration ρ hμ _ s).trans ⟨rfl⟩


theorem unset_push (s : Fw σ) (e : LogEntry) (mi : Nat) : unset (s.push e) mi = unset s mi := rfl

theorem unset_withFault (s : Fw σ) (f : Fault) (mi : Nat) : unset (s.withFault f) mi = unset s mi :=
  unset_congr (by simp)

/-- entering a state does not touch the CounterZero guard flags -/
theorem unset_enterState (mi : Nat) (m : Machine) (cur next : Nat) (s : Fw σ) :
    unset (enterState ρ mi m cur next s) mi = unset s mi := by
  unfold enterState
  split
  · simp only
    have k1 : unset (s.modRt mi (fun r => { r with currentState := next })) mi = unset s mi :=
      unset_modRt_keep s mi (fun r => { r with currentState := next }) (fun _ => rfl) (fun _ => rfl)
    split
    · rw [unset_withFault]; exact k1
    · split
      · next a' _ =>
        obtain ⟨hrl, _⟩ := sampleLimit_spec ρ mi a' (s.modRt mi (fun r => { r with currentState := next }))
        rw [unset_push]
        have := unset_modRt_keep (sampleLimit ρ a' (s.modRt mi (fun r => { r with currentState := next }))).2 mi
          (fun r => { r with stateLimit := (sampleLimit ρ a' (s.modRt mi (fun r => { r with currentState := next }))).1 })
          (fun _ => rfl) (fun _ => rfl)
        rw [this, unset_congr (s := s.modRt mi (fun r => { r with currentState := next })) (by rw [hrl.rt])]
        exact k1
      · rw [unset_push]
        have := unset_modRt_keep (s.modRt mi (fun r => { r with currentState := next })) mi
          (fun r => { r with stateLimit := STATE_LIMIT_MAX }) (fun _ => rfl) (fun _ => rfl)
        rw [this]; exact k1
  · rfl

/-- `scheduleAction` leaves every runtime alone -/
theorem scheduleAction_rt (mi next : Nat) (s : Fw σ) : (scheduleAction ρ mi next s).rt = s.rt := by
  unfold scheduleAction
  split
  · simp
  · split
    · simp
    · split
      · simp
      · split
        · rfl
        · rfl
        · next b rp tmo lim _ => exact (sampleTimeout_spec ρ mi (.sendPadding b rp tmo lim) s).1.rt
        · next b rp tmo du lim _ =>
          exact ((sampleDuration_spec ρ mi (.blockOutgoing b rp tmo du lim)
            (sampleTimeout ρ (.blockOutgoing b rp tmo du lim) s).2).1.rt).trans
            (sampleTimeout_spec ρ mi (.blockOutgoing b rp tmo du lim) s).1.rt
        · next rp du lim _ => exact (sampleDuration_spec ρ mi (.updateTimer rp du lim) s).1.rt

/-- The main counting lemma, in potential form: log weight plus (unset guard flags of the machine)
    x (weight of a CounterZero entry) grows by at most the weight of the transition's own entry. -/
theorem count_main (hμ : TransOnly μ) (c : Nat) (fuel : Nat) :
    (∀ mi (ev : Event) (a : Nat) (s : Fw σ),
      (∀ st, μ (.trans mi ev.toNat st) ≤ a) → (∀ st, μ (.trans mi Event.counterZero.toNat st) ≤ c) →
      wsum μ (transition ρ fuel mi ev s).1.log + unset (transition ρ fuel mi ev s).1 mi * c
        ≤ wsum μ s.log + a + unset s mi * c) ∧
    (∀ mi (s : Fw σ), (∀ st, μ (.trans mi Event.counterZero.toNat st) ≤ c) →
      wsum μ (updateCounter ρ fuel mi s).1.log + unset (updateCounter ρ fuel mi s).1 mi * c
        ≤ wsum μ s.log + unset s mi * c) := by
  induction fuel with
  | zero =>
    refine ⟨fun mi ev a s _ _ => ?_, fun mi s _ => ?_⟩
    · simp only [transition]; rw [(quiet_withFault (μ := μ) s _).w, unset_withFault]; omega
    · simp only [updateCounter]; rw [(quiet_withFault (μ := μ) s _).w, unset_withFault]
  | succ n ih =>
    obtain ⟨ihT, ihU⟩ := ih
    refine ⟨fun mi ev a s ha hc => ?_, fun mi s hc => ?_⟩
    · rw [transition]
      cases hr : s.rt[mi]? with
      | none => simp only []; rw [(quiet_withFault (μ := μ) s _).w, unset_withFault]; omega
      | some r =>
      cases hm : s.machines[mi]? with
      | none => simp only []; rw [(quiet_withFault (μ := μ) s _).w, unset_withFault]; omega
      | some m =>
      simp only []
      have h0 : wsum μ (s.push (.trans mi ev.toNat r.currentState)).log ≤ wsum μ s.log + a := by
        simp only [Fw.push, wsum_cons]; have := ha r.currentState; omega
      have hq : ∀ t, QuietLog μ (s.push (.trans mi ev.toNat r.currentState)) t → unset t mi ≤ unset s mi →
          wsum μ t.log + unset t mi * c ≤ wsum μ s.log + a + unset s mi * c := by
        intro t ht hu
        rw [ht.w]
        have := Nat.mul_le_mul_right c hu
        omega
      split
      · exact hq _ (QuietLog.refl μ _) (Nat.le_refl _)
      · cases hst : m.states[r.currentState]? with
        | none => simp only []; exact hq _ (quiet_withFault _ _) (by rw [unset_withFault]; exact Nat.le_refl _)
        | some st =>
        simp only []
        cases hvec : st.transitions[ev.toNat]? with
        | none => simp only []; exact hq _ (quiet_withFault _ _) (by rw [unset_withFault]; exact Nat.le_refl _)
        | some ov =>
        cases ov with
        | none => simp only []; exact hq _ (QuietLog.refl μ _) (Nat.le_refl _)
        | some vec =>
        simp only []
        generalize hs1 : (({ (s.push (.trans mi ev.toNat r.currentState)) with
            rng := (ρ.u (s.push (.trans mi ev.toNat r.currentState)).rng).2 }).push
              (.draw (ρ.u (s.push (.trans mi ev.toNat r.currentState)).rng).1)) = s1
        have q1 : QuietLog μ (s.push (.trans mi ev.toNat r.currentState)) s1 := by
          subst hs1
          exact ⟨by simp [Fw.push, wsum_cons, hμ (.draw _) (fun _ _ _ h => by cases h)]⟩
        have e1 : s1.rt = s.rt := by subst hs1; rfl
        cases hss : sampleState vec (ρ.u (s.push (.trans mi ev.toNat r.currentState)).rng).1 with
        | none => simp only []; exact hq _ q1 (Nat.le_of_eq (unset_congr (by rw [e1])))
        | some next =>
        simp only []
        have q2 : QuietLog μ (s.push (.trans mi ev.toNat r.currentState)) (s1.push (.sampled mi ev.toNat next)) :=
          q1.trans (quiet_push hμ _ _ (fun _ _ _ h => by cases h))
        generalize hs2 : s1.push (.sampled mi ev.toNat next) = s2 at q2 ⊢
        have e2 : s2.rt = s.rt := by subst hs2; exact e1
        have hu2 : unset s2 mi = unset s mi := unset_congr (by rw [e2])
        split
        · refine hq _ (q2.trans (quiet_modRt _ _ _)) ?_
          have hk : unset (s2.modRt mi (fun r => { r with currentState := STATE_END })) mi = unset s2 mi :=
            unset_modRt_keep s2 mi _ (fun _ => rfl) (fun _ => rfl)
          exact Nat.le_of_eq (hk.trans hu2)
        · split
          · exact hq _ (q2.trans ⟨rfl⟩) (Nat.le_of_eq hu2)
          · have q3 := q2.trans (quiet_enterState ρ hμ mi m r.currentState next s2)
            have hre3 : unset (enterState ρ mi m r.currentState next s2) mi ≤ unset s mi := by
              rw [unset_enterState]; exact Nat.le_of_eq hu2
            generalize enterState ρ mi m r.currentState next s2 = s3 at q3 hre3 ⊢
            cases hr3 : s3.rt[mi]? with
            | none => simp only []; exact hq _ (q3.trans (quiet_withFault _ _)) (by rw [unset_withFault]; exact hre3)
            | some r1 =>
            simp only []
            cases hb : belowActionLimits s3.g r1 m with
            | none => simp only []; exact hq _ (q3.trans (quiet_withFault _ _)) (by rw [unset_withFault]; exact hre3)
            | some below =>
            simp only []
            have hU := ihU mi s3 hc
            have hlog4 : wsum μ (updateCounter ρ n mi s3).1.log + unset (updateCounter ρ n mi s3).1 mi * c
                ≤ wsum μ s.log + a + unset s mi * c := by
              rw [q3.w] at hU
              have : unset s3 mi * c ≤ unset s mi * c := Nat.mul_le_mul_right c hre3
              omega
            have hlog5 : wsum μ (if ((updateCounter ρ n mi s3).2.1 && below) = true
                then scheduleAction ρ mi next (updateCounter ρ n mi s3).1 else (updateCounter ρ n mi s3).1).log
                + unset (if ((updateCounter ρ n mi s3).2.1 && below) = true
                then scheduleAction ρ mi next (updateCounter ρ n mi s3).1 else (updateCounter ρ n mi s3).1) mi * c
                ≤ wsum μ s.log + a + unset s mi * c := by
              split
              · rw [(quiet_scheduleAction ρ hμ mi next _).w,
                  unset_congr (s := (updateCounter ρ n mi s3).1) (by rw [scheduleAction_rt])]
                exact hlog4
              · exact hlog4
            generalize (if ((updateCounter ρ n mi s3).2.1 && below) = true
                then scheduleAction ρ mi next (updateCounter ρ n mi s3).1 else (updateCounter ρ n mi s3).1) = s5 at hlog5 ⊢
            cases hr5 : s5.rt[mi]? with
            | none => simp only []; rw [(quiet_withFault (μ := μ) s5 _).w, unset_withFault]; exact hlog5
            | some r2 => simp only []; exact hlog5
    · rw [updateCounter]
      cases hr : s.rt[mi]? with
      | none => simp only []; rw [(quiet_withFault (μ := μ) s _).w, unset_withFault]
      | some r =>
      cases hm : s.machines[mi]? with
      | none => simp only []; rw [(quiet_withFault (μ := μ) s _).w, unset_withFault]
      | some m =>
      simp only []
      cases hst : m.states[r.currentState]? with
      | none => simp only []; rw [(quiet_withFault (μ := μ) s _).w, unset_withFault]
      | some st =>
      simp only []
      have hmi : mi < s.rt.length := by
        rcases Nat.lt_or_ge mi s.rt.length with h | h
        · exact h
        · simp [List.getElem?_eq_none h] at hr
      have qA := quiet_applyCounterA ρ hμ mi st.counterA r.counterA r.counterB s
      have kA := keep_applyCounterA ρ mi st.counterA r.counterA r.counterB s hmi
      have uA := unset_applyCounterA ρ mi st.counterA r.counterA r.counterB s hmi
      generalize applyCounterA ρ mi st.counterA r.counterA r.counterB s = ra at qA kA uA ⊢
      have hmiA : mi < ra.1.rt.length := by rw [kA.rtLen]; exact hmi
      have qB := quiet_applyCounterB ρ hμ mi st.counterB r.counterA r.counterB ra.1
      have uB := unset_applyCounterB ρ mi st.counterB r.counterA r.counterB ra.1 hmiA
      generalize applyCounterB ρ mi st.counterB r.counterA r.counterB ra.1 = rb at qB uB ⊢
      have q2 : QuietLog μ s (rb.1.push (.counter mi r.counterA (counterAOf rb.1 mi) r.counterB (counterBOf rb.1 mi))) :=
        (qA.trans qB).trans (quiet_push hμ _ _ (fun _ _ _ h => by cases h))
      generalize hs2 : rb.1.push (.counter mi r.counterA (counterAOf rb.1 mi) r.counterB (counterBOf rb.1 mi)) = s2 at q2 ⊢
      have hus2 : unset s2 mi = unset rb.1 mi := by subst hs2; rfl
      split
      · next hz =>
        have hflag : unset s2 mi + 1 ≤ unset s mi := by
          have : (if ra.2 = true then 1 else 0) + (if rb.2 = true then 1 else 0) ≥ 1 := by
            cases ha : ra.2 <;> cases hb : rb.2 <;> simp_all
          omega
        have hT := ihT mi .counterZero c s2 hc hc
        rw [q2.w] at hT
        have hmul : (unset s2 mi + 1) * c ≤ unset s mi * c := Nat.mul_le_mul_right c hflag
        have hfin : wsum μ (transition ρ n mi .counterZero s2).1.log + unset (transition ρ n mi .counterZero s2).1 mi * c
            ≤ wsum μ s.log + unset s mi * c := by
          rw [Nat.add_mul] at hmul; omega
        split
        · rw [(quiet_withFault (μ := μ) _ _).w, unset_withFault]; exact hfin
        · exact hfin
      · rw [q2.w]
        have h1 : unset s2 mi ≤ unset s mi := by omega
        exact Nat.add_le_add_left (Nat.mul_le_mul_right c h1) _

end Mb
