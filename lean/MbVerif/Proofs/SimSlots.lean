/-
  Lemmas about the per-machine slots: `applyAction` against the contract, the event produced by
  `do_scheduled_action`, and the minimum computed by `peek_scheduled_action`.
-/
import MbVerif.Proofs.SimBlocking
import MbVerif.Spec.C17

namespace Mb.Sim
open Mb

section
variable {σ : Type}

theorem list_set_self {α : Type} (l : List α) (i : Nat) (x : α) (h : l[i]? = some x) : l.set i x = l := by
  induction l generalizing i with
  | nil => simp
  | cons y ys ih =>
    cases i with
    | zero => simp at h; simp [h]
    | succ i => simp at h; simp [ih i h]

theorem applyAction_slot {sd sd' : Side σ} {sq sq' : SimQueue} {now : Int} {cl : Bool} {a : TAction}
    {pend : Option SchedAction → Option C17.Pending}
    (h : applyAction sd sq now cl a = .ok (sd', sq'))
    (hp : ∀ x, pend x = match x with | some a => some ⟨a.action, a.time⟩ | none => none) :
    sd'.schedAction.map pend =
      (sd.schedAction.map pend).set a.machine (C17.slotSpec (pend (sd.schedAction[a.machine]?.join)) now a) := by
  have hnone : pend none = none := by rw [hp]
  cases a with
  | cancel m t =>
    simp only [applyAction] at h
    split at h
    · cases h
    · split at h
      · cases h
      · rename_i h1 h2
        cases t with
        | action =>
          simp at h; obtain ⟨h3, _⟩ := h; subst h3
          simp [TAction.machine, C17.slotSpec, List.map_set, hnone]
        | internal =>
          simp at h; obtain ⟨h3, _⟩ := h; subst h3
          simp only [TAction.machine, C17.slotSpec]
          cases hm : sd.schedAction[m]? with
          | none =>
            have : m ≥ sd.schedAction.length := by simpa using hm
            simp [List.set_eq_of_length_le, this]
          | some x =>
            simp only [Option.join]
            rw [list_set_self]
            simp [hm]
        | all =>
          simp at h; obtain ⟨h3, _⟩ := h; subst h3
          simp [TAction.machine, C17.slotSpec, List.map_set, hnone]
  | sendPadding to b r m =>
    simp only [applyAction] at h
    split at h
    · cases h
    · simp at h; obtain ⟨h3, _⟩ := h; subst h3
      simp [TAction.machine, C17.slotSpec, List.map_set, hp]
  | blockOutgoing to d b r m =>
    simp only [applyAction] at h
    split at h
    · cases h
    · simp at h; obtain ⟨h3, _⟩ := h; subst h3
      simp [TAction.machine, C17.slotSpec, List.map_set, hp]
  | updateTimer d r m =>
    simp only [applyAction] at h
    have hsame : sd'.schedAction = sd.schedAction := by
      cases hc : sd.schedTimer[m]? with
      | none => simp [hc] at h
      | some cur =>
        simp only [hc] at h
        split at h
        · simp at h; obtain ⟨h3, _⟩ := h; subst h3; rfl
        · simp at h; obtain ⟨h3, _⟩ := h; subst h3; rfl
    rw [hsame]
    simp only [TAction.machine, C17.slotSpec]
    cases hm : sd.schedAction[m]? with
    | none =>
      have : m ≥ sd.schedAction.length := by simpa using hm
      simp [List.set_eq_of_length_le, this]
    | some x =>
      simp only [Option.join]
      rw [list_set_self]
      simp [hm]

/-- `apply_action` leaves the queue alone or pushes one TimerBegin stamped with the clock -/
theorem C18_aux {sd sd' : Side σ} {sq sq' : SimQueue} {now : Int} {cl : Bool} {a : TAction}
    (h : applyAction sd sq now cl a = .ok (sd', sq')) :
    sq' = sq ∨ ∃ m, sq' = sq.pushSim ⟨.timerBegin m, now, cl, false, false, false⟩ := by
  cases a with
  | cancel m t =>
    left
    simp only [applyAction] at h
    split at h
    · cases h
    · split at h
      · cases h
      · cases t <;> simp at h <;> exact h.2.symm
  | sendPadding to b r m =>
    left
    simp only [applyAction] at h
    split at h
    · cases h
    · simp at h; exact h.2.symm
  | blockOutgoing to d b r m =>
    left
    simp only [applyAction] at h
    split at h
    · cases h
    · simp at h; exact h.2.symm
  | updateTimer d r m =>
    simp only [applyAction] at h
    cases hc : sd.schedTimer[m]? with
    | none => simp [hc] at h
    | some cur =>
      simp only [hc] at h
      split at h
      · right; simp at h; exact ⟨m, h.2.symm⟩
      · left; simp at h; exact h.2.symm

theorem doScheduledAction_event {st st' : St σ} {target : Int} {e : SimEvent}
    (h : doScheduledAction st target = .ok (e, st')) :
    e.time = target ∧ ∃ i a, (st.side e.client).schedAction[i]? = some (some a) ∧ a.time = target ∧
      (st'.side e.client).schedAction = (st.side e.client).schedAction.set i none ∧
      ((∃ to b r m, a.action = .sendPadding to b r m ∧ e.event = .paddingSent m ∧ e.bypass = b ∧ e.replace = r) ∨
       (∃ to d b r m, a.action = .blockOutgoing to d b r m ∧ e.event = .blockingBegin m)) := by
  unfold doScheduledAction at h
  simp only [] at h
  split at h
  · cases h
  · rename_i isClient i a hfound
    have hslot : (st.side isClient).schedAction[i]? = some (some a) ∧ a.time = target := by
      unfold findAction at hfound
      split at hfound
      · rename_i j b hf
        cases hfound
        obtain ⟨k, hk, hl⟩ := findSlot_spec _ _ _ _ _ hf
        have hp := findSlot_sat _ _ _ _ _ hf
        rw [Nat.zero_add] at hk
        subst hk
        exact ⟨by simpa [St.side] using hl, by simpa using hp⟩
      · split at hfound
        · rename_i j b hf
          cases hfound
          obtain ⟨k, hk, hl⟩ := findSlot_spec _ _ _ _ _ hf
          have hp := findSlot_sat _ _ _ _ _ hf
          rw [Nat.zero_add] at hk
          subst hk
          exact ⟨by simpa [St.side] using hl, by simpa using hp⟩
        · cases hfound
    split at h
    · cases h
    · cases h
    · rename_i x to b r m heq
      cases h
      exact ⟨hslot.2, i, a, hslot.1, hslot.2, by simp, Or.inl ⟨to, b, r, m, heq, rfl, rfl, rfl⟩⟩
    · rename_i x to d b r m heq
      cases h
      exact ⟨hslot.2, i, a, hslot.1, hslot.2, by simp, Or.inr ⟨to, d, b, r, m, heq, rfl⟩⟩

end

/-- the fold step of `peek_scheduled_action` -/
def peekStep (now : Int) (earliest : Nat) (a : Option SchedAction) : Nat :=
  match a with
  | some a => if a.time ≥ now && dsince a.time now < earliest then dsince a.time now else earliest
  | none => earliest

theorem peekStep_le (now : Int) (acc : Nat) (x : Option SchedAction) : peekStep now acc x ≤ acc := by
  unfold peekStep
  cases x with
  | none => exact Nat.le_refl _
  | some a =>
    simp only []
    split
    · rename_i h
      simp at h
      omega
    · exact Nat.le_refl _

theorem foldl_peekStep_le_init (now : Int) : ∀ (l : List (Option SchedAction)) (init : Nat),
    l.foldl (peekStep now) init ≤ init := by
  intro l
  induction l with
  | nil => intro init; exact Nat.le_refl _
  | cons x xs ih =>
    intro init
    exact Nat.le_trans (ih _) (peekStep_le now init x)

theorem foldl_peekStep_le_mem (now : Int) (a : SchedAction) (hn : now ≤ a.time) :
    ∀ (l : List (Option SchedAction)) (init : Nat), some a ∈ l → l.foldl (peekStep now) init ≤ dsince a.time now := by
  intro l
  induction l with
  | nil => intro init h; simp at h
  | cons x xs ih =>
    intro init h
    simp only [List.mem_cons] at h
    rcases h with h | h
    · subst h
      refine Nat.le_trans (foldl_peekStep_le_init now xs _) ?_
      unfold peekStep
      simp only []
      split
      · exact Nat.le_refl _
      · rename_i hc
        simp at hc
        have := hc hn
        omega
    · exact ih _ h

theorem peekScheduledAction_eq (c s : List (Option SchedAction)) (now : Int) :
    peekScheduledAction c s now = s.foldl (peekStep now) (c.foldl (peekStep now) durMax) := rfl

theorem peekScheduledAction_le_mem (c s : List (Option SchedAction)) (now : Int) (a : SchedAction)
    (hm : some a ∈ c ∨ some a ∈ s) (hn : now ≤ a.time) :
    peekScheduledAction c s now ≤ dsince a.time now := by
  rw [peekScheduledAction_eq]
  rcases hm with hm | hm
  · exact Nat.le_trans (foldl_peekStep_le_init now s _) (foldl_peekStep_le_mem now a hn c _ hm)
  · exact foldl_peekStep_le_mem now a hn s _ hm

end Mb.Sim
