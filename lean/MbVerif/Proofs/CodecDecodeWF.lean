/-
  Whatever the bincode model decodes is representable: decoded integers are below 2^64, every
  decoded state has exactly EVENT_NUM transition slots.
-/
import MbVerif.Proofs.CodecRoundtrip

set_option linter.unusedSimpArgs false

namespace Mb
namespace Codec

theorem decOption_wf {α} {dec : Bytes → Option (α × Bytes)} {P : α → Prop}
    (hP : ∀ bs a r, dec bs = some (a, r) → P a) {bs r : Bytes} {o : Option α}
    (h : decOption dec bs = some (o, r)) : ∀ a, o = some a → P a := by
  cases bs with
  | nil => simp [decOption] at h
  | cons b bs =>
    simp only [decOption] at h
    split at h
    · simp at h; intro a ha; rw [← h.1] at ha; simp at ha
    · split at h
      · split at h
        · rename_i a r' hx
          simp at h
          intro a' ha'
          rw [← h.1] at ha'
          simp at ha'
          subst ha'
          exact hP _ _ _ hx
        · simp at h
      · simp at h

theorem decVec_wf {α} {dec : Bytes → Option (α × Bytes)} {P : α → Prop}
    (hP : ∀ bs a r, dec bs = some (a, r) → P a) {bs r : Bytes} {l : List α}
    (h : decVec dec bs = some (l, r)) : l.length < U64 ∧ ∀ a ∈ l, P a := by
  simp only [decVec] at h
  split at h
  · simp at h
  · rename_i n r' hn
    split at h
    · have := decN_length h
      have hlt := decVarint_lt hn
      exact ⟨by omega, decN_all hP h⟩
    · simp at h

theorem decDistType_wf {bs r : Bytes} {d : DistType} (h : decDistType bs = some (d, r)) : wfDistType d = true := by
  simp only [decDistType] at h
  split at h
  · simp at h
  · rename_i tag r' _
    repeat' split at h
    all_goals (try simp at h)
    all_goals (try (obtain ⟨_, _, _, rfl, _⟩ := h; rfl))
    all_goals (try (obtain ⟨_, _, _, _, rfl, _⟩ := h; rfl))
    rename_i hv
    obtain ⟨a, _, rfl⟩ := h
    simpa [wfDistType] using decVarint_lt hv

theorem decDist_wf {bs r : Bytes} {d : Dist} (h : decDist bs = some (d, r)) : wfDist d = true := by
  simp only [decDist] at h
  split at h
  · simp at h
  · rename_i hd
    split at h
    · simp at h
    · simp at h
      rw [← h.1]
      exact decDistType_wf hd

theorem decOptDist_wf {bs r : Bytes} {o : Option Dist} (h : decOption decDist bs = some (o, r)) :
    wfOptDist o = true := by
  have := decOption_wf (P := fun d => wfDist d = true) (fun _ _ _ hx => decDist_wf hx) h
  cases o with
  | none => rfl
  | some d => exact this d rfl

theorem decAction_wf {bs r : Bytes} {a : Action} (h : decAction bs = some (a, r)) : wfAction a = true := by
  simp only [decAction] at h
  split at h
  · simp at h
  · repeat' split at h
    all_goals (try simp at h)
    all_goals (try (obtain ⟨_, _, rfl⟩ := h; rfl))
    all_goals (rw [← h.1]; simp [wfAction, decDist_wf, decOptDist_wf, *])
    · exact ⟨decDist_wf (by assumption), decOptDist_wf (by assumption)⟩
    · exact ⟨⟨decDist_wf (by assumption), decDist_wf (by assumption)⟩, decOptDist_wf (by assumption)⟩
    · exact ⟨decDist_wf (by assumption), decOptDist_wf (by assumption)⟩

theorem decCounter_wf {bs r : Bytes} {c : Counter} (h : decCounter bs = some (c, r)) : wfCounter c = true := by
  simp only [decCounter] at h
  repeat' split at h
  all_goals (try simp at h)
  rw [← h.1]
  exact decOptDist_wf (by assumption)

theorem decTrans_wf {bs r : Bytes} {t : Trans} (h : decTrans bs = some (t, r)) : wfTrans t = true := by
  simp only [decTrans] at h
  repeat' split at h
  all_goals (try simp at h)
  rw [← h.1]
  rename_i hv _ _ _ _
  simpa [wfTrans] using decVarint_lt hv

theorem decOptTransVec_wf {bs r : Bytes} {o : Option (List Trans)}
    (h : decOption (decVec decTrans) bs = some (o, r)) : wfOptTransVec o = true := by
  have := decOption_wf (P := fun ts => wfTransVec ts = true) (fun _ ts _ hx => by
    have := decVec_wf (P := fun t => wfTrans t = true) (fun _ _ _ ht => decTrans_wf ht) hx
    simpa [wfTransVec] using this) h
  cases o with
  | none => rfl
  | some d => exact this d rfl

theorem decOptAction_wf {bs r : Bytes} {o : Option Action} (h : decOption decAction bs = some (o, r)) :
    wfOptAction o = true := by
  have := decOption_wf (P := fun a => wfAction a = true) (fun _ _ _ hx => decAction_wf hx) h
  cases o with
  | none => rfl
  | some d => exact this d rfl

theorem decOptCounter_wf {bs r : Bytes} {o : Option Counter} (h : decOption decCounter bs = some (o, r)) :
    wfOptCounter o = true := by
  have := decOption_wf (P := fun a => wfCounter a = true) (fun _ _ _ hx => decCounter_wf hx) h
  cases o with
  | none => rfl
  | some d => exact this d rfl

theorem decState_wf {bs r : Bytes} {s : State} (h : decState bs = some (s, r)) : wfState s = true := by
  simp only [decState] at h
  repeat' split at h
  all_goals (try simp at h)
  rw [← h.1]
  simp only [wfState, Bool.and_eq_true, decide_eq_true_eq, List.all_eq_true]
  exact ⟨⟨⟨⟨decOptAction_wf (by assumption), decOptCounter_wf (by assumption)⟩, decOptCounter_wf (by assumption)⟩,
    decN_length (by assumption)⟩,
    decN_all (P := fun o => wfOptTransVec o = true) (fun _ _ _ hx => decOptTransVec_wf hx) (by assumption)⟩

theorem decMachine_wf {bs r : Bytes} {m : Machine} (h : decMachine bs = some (m, r)) : WFm m = true := by
  simp only [decMachine] at h
  repeat' split at h
  all_goals (try simp at h)
  rw [← h.1]
  have := decVec_wf (P := fun s => wfState s = true) (fun _ _ _ hx => decState_wf hx) (by assumption)
  simp only [WFm, Bool.and_eq_true, decide_eq_true_eq, List.all_eq_true]
  exact ⟨⟨⟨decVarint_lt (by assumption), decVarint_lt (by assumption)⟩, this.1⟩, this.2⟩

/-! ### the decoder never builds more states than it was given bytes -/

theorem readLE_len {k : Nat} {bs r : Bytes} {v : Nat} (h : readLE k bs = some (v, r)) : r.length + k = bs.length := by
  induction k generalizing bs v r with
  | zero => simp [readLE] at h; simp [h.2]
  | succ k ih =>
    cases bs with
    | nil => simp [readLE] at h
    | cons b bs =>
      simp only [readLE] at h
      split at h
      · simp at h
      · rename_i v' r' hv
        simp at h
        have := ih hv
        simp only [List.length_cons]
        rw [← h.2]; omega

theorem decVarint_len {bs r : Bytes} {v : Nat} (h : decVarint bs = some (v, r)) : r.length ≤ bs.length := by
  cases bs with
  | nil => simp [decVarint] at h
  | cons b bs =>
    simp only [decVarint] at h
    repeat' split at h
    all_goals (try simp at h)
    · simp only [List.length_cons]; rw [← h.2]; omega
    all_goals (have := readLE_len h; simp only [List.length_cons]; omega)

theorem decF64_len {bs r : Bytes} {v : F64} (h : decF64 bs = some (v, r)) : r.length ≤ bs.length := by
  simp only [decF64] at h
  split at h
  · rename_i hx; simp at h; have := readLE_len hx; rw [← h.2]; omega
  · simp at h

theorem decMachine_states_le {bs r : Bytes} {m : Machine} (h : decMachine bs = some (m, r)) :
    m.states.length ≤ bs.length := by
  simp only [decMachine] at h
  repeat' split at h
  all_goals (try simp at h)
  rename_i _ _ r1 h1 _ _ r2 h2 _ _ r3 h3 _ _ r4 h4 _ sts r5 h5
  rw [← h.1]
  simp only
  have l1 := decVarint_len h1
  have l2 := decF64_len h2
  have l3 := decVarint_len h3
  have l4 := decF64_len h4
  simp only [decVec] at h5
  split at h5
  · simp at h5
  · rename_i n r' hn
    split at h5
    · rename_i hle
      rw [hasAtLeast_iff] at hle
      have := decN_length h5
      have := decVarint_len hn
      omega
    · simp at h5

theorem decodeMachine_states_le {bs : Bytes} {m : Machine} (h : decodeMachine bs = some m) :
    m.states.length ≤ bs.length := by
  simp only [decodeMachine] at h
  split at h
  · rename_i hm; simp at h; subst h; exact decMachine_states_le hm
  · simp at h

theorem decodeMachine_wf {bs : Bytes} {m : Machine} (h : decodeMachine bs = some m) : WFm m = true := by
  simp only [decodeMachine] at h
  split at h
  · rename_i hm; simp at h; subst h; exact decMachine_wf hm
  · simp at h

end Codec
end Mb
