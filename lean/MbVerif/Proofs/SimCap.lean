/-
  The length cap only cuts the run short: the kept events of a capped run are the first `cap`
  kept events of the uncapped run with the same inputs.
-/
import MbVerif.Proofs.SimRecord

namespace Mb.Sim
open Mb

/-- the same arguments without a length cap -/
def Args.uncapped (a : Args) : Args := { a with maxTraceLength := 0 }

section
variable {σ : Type} (ρ : Oracle σ)

theorem bump_uncapped (a : Args) (r : StepRec) (c : Nat) : bump a.uncapped r c = bump a r c := rfl

theorem stopCheck_below_cap (a : Args) (st : St σ) (iters x x0 : Nat) (hx : x < a.maxTraceLength) :
    stopCheck a st iters x = stopCheck a.uncapped st iters x0 := by
  unfold stopCheck
  have h1 : ¬ (x ≥ a.maxTraceLength) := by omega
  simp [Args.uncapped, h1]

theorem stopCheck_at_cap (a : Args) (st : St σ) (iters x : Nat) (hc : a.maxTraceLength > 0)
    (hx : x ≥ a.maxTraceLength) : stopCheck a st iters x = some .maxTrace := by
  unfold stopCheck
  simp [hc, hx]

/-- relation between the capped loop and the uncapped loop from the same state -/
theorem loop_cap_prefix (a : Args) (hc : a.maxTraceLength > 0) :
    ∀ (fuel : Nat) (st : St σ) (iters cnt cnt0 : Nat), cnt < a.maxTraceLength →
      ((loop ρ a fuel st iters cnt).stream.filter a.keep =
        ((loop ρ a.uncapped fuel st iters cnt0).stream.filter a.keep).take (a.maxTraceLength - cnt)) ∧
      (∀ f, (loop ρ a fuel st iters cnt).stop = .fault f → (loop ρ a.uncapped fuel st iters cnt0).stop = .fault f) := by
  intro fuel
  induction fuel with
  | zero => intro st iters cnt cnt0 h; simp [loop]
  | succ n ih =>
    intro st iters cnt cnt0 hlt
    cases hs : step ρ st with
    | error f => simp [loop, hs]
    | ok o =>
      cases o with
      | none => simp [loop, hs]
      | some p =>
        obtain ⟨r, st'⟩ := p
        rw [loop_succ_some ρ a n st st' iters cnt r hs, loop_succ_some ρ a.uncapped n st st' iters cnt0 r hs]
        by_cases hx : bump a r cnt ≥ a.maxTraceLength
        · -- the cap is reached by this event: it is kept and it is the last one
          have hk : a.keep r = true := by
            unfold bump at hx
            by_cases hk : a.keep r = true
            · exact hk
            · simp [hk] at hx; omega
          have hone : a.maxTraceLength - cnt = 1 := by
            unfold bump at hx; simp [hk] at hx; omega
          rw [stopCheck_at_cap a st' iters _ hc hx]
          simp only []
          constructor
          · rw [hone]
            cases stopCheck a.uncapped st' iters (bump a.uncapped r cnt0) <;> simp [hk]
          · intro f hf; cases hf
        · have hx' : bump a r cnt < a.maxTraceLength := by omega
          rw [stopCheck_below_cap a st' iters (bump a r cnt) (bump a.uncapped r cnt0) hx']
          cases hsc : stopCheck a.uncapped st' iters (bump a.uncapped r cnt0) with
          | some s =>
            simp only []
            constructor
            · have h1 : a.maxTraceLength - cnt ≥ 1 := by omega
              by_cases hk : a.keep r = true
              · simp only [List.filter_cons, hk, if_true, List.filter_nil]
                rw [List.take_of_length_le]
                simp; omega
              · simp [hk]
            · intro f hf; exact hf
          | none =>
            simp only []
            have ih' := ih st' (iters + 1) (bump a r cnt) (bump a.uncapped r cnt0) hx'
            constructor
            · by_cases hk : a.keep r = true
              · have hb : bump a r cnt = cnt + 1 := by simp [bump, hk]
                rw [hb] at ih' hx' ⊢
                simp only [List.filter_cons, hk, if_true]
                rw [ih'.1]
                have : a.maxTraceLength - cnt = (a.maxTraceLength - (cnt + 1)) + 1 := by
                  omega
                rw [this, List.take_succ_cons]
              · have hk' : a.keep r = false := by simpa using hk
                have hb : bump a r cnt = cnt := by simp [bump, hk']
                rw [hb] at ih' ⊢
                simp only [List.filter_cons, hk', Bool.false_eq_true, if_false]
                exact ih'.1
            · intro f hf; exact ih'.2 f hf

end
end Mb.Sim

namespace Mb.Sim
open Mb

section
variable {σ : Type}

/-- the event `pick_next` returns is never before the clock -/
theorem pickNext_time_ge : ∀ (fuel : Nat) (st st' : St σ) (e : SimEvent),
    pickNext fuel st = some (.ok (some e, st')) → st.now ≤ e.time := by
  intro fuel
  induction fuel with
  | zero => intro st st' e h; simp [pickNext] at h
  | succ n ih =>
    intro st st' e h
    unfold pickNext at h
    split at h
    · cases h
    · cases h
    · split at h
      · cases h
      · rename_i st1 h1
        have := ih _ _ _ h
        rw [pickAgg_now h1] at this; exact this
    · split at h
      · cases h
      · rename_i e1 st1 h1
        cases h
        have := pickBlockExp_ev h1
        rw [this]; simp; omega
    · split at h
      · cases h
      · rename_i e1 st1 h1
        cases h
        have := pickQueue_time h1
        omega
    · split at h
      · cases h
      · rename_i st1 h1
        have := ih _ _ _ h
        rw [pickTimer_now h1] at this; exact this
    · split at h
      · cases h
      · rename_i st1 h1
        have := ih _ _ _ h
        rw [pickAction_now h1] at this; exact this

end
end Mb.Sim
