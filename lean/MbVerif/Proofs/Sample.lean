/-
  Helper lemmas for C13: the clamp of `Dist::sample`, the consumers, constructor preconditions.
-/
import MbVerif.Spec.C13
import MbVerif.Validate
import MbVerif.Proofs.Fp

namespace Mb
namespace C13
open Fp

theorem gt_zero_iff_maxSet {mx : FV} : gt mx (.fin 0) = true ↔ MaxSet mx := by
  rcases mx with _ | ⟨_ | _⟩ | m <;> simp [gt, lt, MaxSet]

/-- `0.0f64.max(x)` is never NaN and never negative, whatever `x` is -/
theorem fmax_zero_nonNeg (x : FV) : NonNeg (fmax (.fin 0) x) := by
  rcases x with _ | ⟨_ | _⟩ | q
  · simp [fmax, NonNeg]
  · simp [fmax, lt, NonNeg]
  · simp [fmax, lt, NonNeg]
  · simp only [fmax, lt_fin_fin, decide_eq_true_eq]
    split
    · rename_i h; exact h.le
    · exact le_refl _

theorem nonNeg_ne_nan {v : FV} (h : NonNeg v) : v ≠ .nan := by
  intro e; subst e; exact h

/-- `r.min(max)` for a non-negative non-NaN `r` and `max > 0` -/
theorem fmin_inRange {r mx : FV} (hr : NonNeg r) (hm : MaxSet mx) :
    NonNeg (fmin r mx) ∧ AtMost mx (fmin r mx) := by
  rcases r with _ | ⟨_ | _⟩ | q
  · exact hr.elim
  · rcases mx with _ | ⟨_ | _⟩ | m
    · exact hm.elim
    · simp [fmin, lt, NonNeg, AtMost]
    · simp [MaxSet] at hm
    · simp only [MaxSet] at hm
      simp [fmin, lt, NonNeg, AtMost, hm.le]
  · simp [NonNeg] at hr
  · simp only [NonNeg] at hr
    rcases mx with _ | ⟨_ | _⟩ | m
    · exact hm.elim
    · simp [fmin, lt, NonNeg, AtMost, hr]
    · simp [MaxSet] at hm
    · simp only [MaxSet] at hm
      simp only [fmin, lt_fin_fin, decide_eq_true_eq]
      split
      · rename_i h; exact ⟨hm.le, le_refl m⟩
      · rename_i h; exact ⟨hr, not_lt.mp h⟩

/-- the body of `Dist::sample` after the family sampler returned `x - start` -/
theorem clampCore_inRange (x mx : FV) :
    InRange mx (if gt mx (.fin 0) then fmin (fmax (.fin 0) x) mx else fmax (.fin 0) x) := by
  have hr := fmax_zero_nonNeg x
  by_cases hm : gt mx (.fin 0) = true
  · rw [if_pos hm]
    have := fmin_inRange hr (gt_zero_iff_maxSet.mp hm)
    exact ⟨this.1, fun _ => this.2⟩
  · rw [if_neg hm]
    exact ⟨hr, fun h => absurd (gt_zero_iff_maxSet.mpr h) hm⟩

/-! ### consumers -/

/-- `min(M).round() as u64` never exceeds `M`, for any sampled value (NaN, ±inf included) -/
theorem toMicros_le (M : Nat) (v : FV) : toMicros M v ≤ M := by
  unfold toMicros
  have key : ∀ w : FV, (w = .inf true ∨ ∃ q : ℚ, w = .fin q ∧ q ≤ (M : ℚ)) → toU64 (fround w) ≤ M := by
    intro w hw
    rcases hw with rfl | ⟨q, rfl, hq⟩
    · simp [fround, toU64]
    · obtain ⟨r, hr, hrM⟩ := fround_le_of_le hq
      rw [hr]; exact toU64_le_of_le hrM
  apply key
  rcases v with _ | ⟨_ | _⟩ | q
  · right; exact ⟨M, by simp [fmin], le_refl _⟩
  · right; exact ⟨M, by simp [fmin, lt], le_refl _⟩
  · left; simp [fmin, lt]
  · right
    simp only [fmin, lt_fin_fin, decide_eq_true_eq]
    split
    · exact ⟨M, rfl, le_refl _⟩
    · rename_i h; exact ⟨q, rfl, not_lt.mp h⟩

/-! ### constructors -/

theorem finite_eq_isFinite (v : FV) : finite v = Validate.isFinite v := by cases v <;> rfl

/-- a distribution accepted by `Dist::validate` meets every precondition of the constructor call
    (and of `gen_range`) made by `dist_sample` -/
theorem ctorOK_of_validate {d : DistType} (h : Validate.distType d = true) : ctorOK d = true := by
  cases d with
  | uniform lo hi =>
    simp only [Validate.distType] at h
    simp only [ctorOK]
    generalize val64 lo = l at h ⊢
    generalize val64 hi = u at h ⊢
    rcases l with _ | _ | a
    · simp [isNan] at h
    · simp [isNan, isInf] at h
    · rcases u with _ | _ | b
      · simp [isNan] at h
      · simp [isNan, isInf] at h
      · have hs : sub f64 (.fin b) (.fin a) = f64.round (b - a) := by
          simp [sub, neg, add, sub_eq_add_neg]
        rw [hs] at h ⊢
        by_cases hab : a = b
        · simp [feq, hab]
        · rcases Fmt.round_cases f64 (b - a) with hr | hr | hr <;> rw [hr] at h ⊢ <;>
            simp only [isNan, isInf, Bool.or_self, Bool.false_eq_true, ↓reduceIte, gt, lt_fin_fin,
              decide_eq_true_eq, feq, hab, decide_false, finite, Bool.and_true, Bool.and_false] at h ⊢
          · split at h <;> simp at h
          · split at h <;> simp at h
          · by_cases hba : b < a
            · simp [hba] at h
            · exact lt_of_le_of_ne (not_lt.mp hba) hab
  | normal mean stdev => simpa [ctorOK, Validate.distType, finite_eq_isFinite] using h
  | skewNormal loc scale shape =>
    simp only [Validate.distType] at h
    simp only [ctorOK, finite_eq_isFinite, Validate.zero] at h ⊢
    by_cases h1 : Validate.isFinite (val64 scale) = true <;> by_cases h2 : gt (val64 scale) (.fin 0) = true <;>
      by_cases h3 : Validate.isFinite (val64 shape) = true <;> simp_all
  | logNormal mu sigma => simpa [ctorOK, Validate.distType, finite_eq_isFinite] using h
  | binomial trials p =>
    simp only [Validate.distType] at h
    simp only [ctorOK]
    by_cases h0 : (!feq (val64 p) Validate.zero && lt (val64 p) Validate.distMinProbability) = true
    · rw [if_pos h0] at h; simp at h
    · rw [if_neg h0] at h
      by_cases ht : trials > Gen.BINOMIAL_MAX_TRIALS
      · rw [if_pos ht] at h; simp at h
      · rw [if_neg ht] at h
        by_cases h1 : ge (val64 p) Validate.zero = true <;> by_cases h2 : le (val64 p) Validate.one = true <;>
          simp_all [Validate.zero, Validate.one]
  | geometric p =>
    simp only [Validate.distType] at h
    simp only [ctorOK, finite_eq_isFinite]
    by_cases h0 : (!feq (val64 p) Validate.zero && lt (val64 p) Validate.distMinProbability) = true
    · rw [if_pos h0] at h; simp at h
    · rw [if_neg h0] at h
      by_cases h1 : Validate.isFinite (val64 p) = true <;> by_cases h2 : lt (val64 p) Validate.zero = true <;>
        by_cases h3 : gt (val64 p) Validate.one = true <;> simp_all [Validate.zero, Validate.one]
  | pareto scale shape =>
    simp only [Validate.distType, Validate.zero] at h
    simp only [ctorOK]
    by_cases h1 : gt (val64 scale) (.fin 0) = true <;> by_cases h2 : gt (val64 shape) (.fin 0) = true <;> simp_all
  | poisson lambda =>
    simp only [Validate.distType, Validate.zero] at h
    simp only [ctorOK]
    by_cases h0 : gt (val64 lambda) Validate.poissonMaxLambda = true
    · rw [if_pos h0] at h; simp at h
    · rw [if_neg h0] at h
      by_cases h1 : gt (val64 lambda) (.fin 0) = true <;> simp_all
  | weibull scale shape =>
    simp only [Validate.distType, Validate.zero] at h
    simp only [ctorOK]
    by_cases h1 : gt (val64 scale) (.fin 0) = true <;> by_cases h2 : gt (val64 shape) (.fin 0) = true <;> simp_all
  | gamma scale shape =>
    simp only [Validate.distType, Validate.zero, Validate.one] at h
    simp only [ctorOK]
    by_cases h1 : gt (val64 shape) (.fin 0) = true <;> by_cases h2 : gt (val64 scale) (.fin 0) = true <;>
      by_cases h3 : feq (val64 shape) (.fin 1) = true <;> simp_all
  | beta alpha beta =>
    simp only [Validate.distType, Validate.zero] at h
    simp only [ctorOK]
    by_cases h1 : gt (val64 alpha) (.fin 0) = true <;> by_cases h2 : gt (val64 beta) (.fin 0) = true <;> simp_all

end C13
end Mb

namespace Mb
namespace C13
open Fp

theorem le_zero_of_nonNeg {v : FV} (h : NonNeg v) : le (.fin 0) v = true := by
  rcases v with _ | ⟨_ | _⟩ | q <;> simp_all [NonNeg, le]

theorem le_of_atMost {mx v : FV} (h : AtMost mx v) : le v mx = true := by
  rcases v with _ | ⟨_ | _⟩ | q <;> rcases mx with _ | ⟨_ | _⟩ | m <;> simp_all [AtMost, le]

theorem clamp_eq (d : Dist) (raw : F64) :
    d.clamp raw =
      (if gt (val64 d.max) (.fin 0) then
        fmin (fmax (.fin 0) (add f64 (val64 raw) (val64 d.start))) (val64 d.max)
      else fmax (.fin 0) (add f64 (val64 raw) (val64 d.start))) := rfl

end C13
end Mb

namespace Mb
namespace C13
open Fp

theorem unit64_nonneg (w : UInt64) : 0 ≤ unit64 w := by unfold unit64; positivity

/-- what validation gives for a proper range: real bounds `a < b` and a finite scale `s ≥ 0` -/
theorem uniform_range_facts {lo hi : F64} (h : Validate.distType (.uniform lo hi) = true)
    (hne : feq (val64 lo) (val64 hi) = false) :
    ∃ a b s : ℚ, val64 lo = .fin a ∧ val64 hi = .fin b ∧ a < b ∧
      sub f64 (val64 hi) (val64 lo) = .fin s ∧ 0 ≤ s := by
  have hc := ctorOK_of_validate h
  simp only [ctorOK, hne, Bool.false_eq_true, ↓reduceIte, Bool.and_eq_true] at hc
  obtain ⟨⟨⟨h1, h2⟩, h3⟩, h4⟩ := hc
  generalize hl : val64 lo = l at *
  generalize hh : val64 hi = u at *
  rcases l with _ | _ | a <;> simp only [finite, Bool.false_eq_true] at h2
  rcases u with _ | _ | b <;> simp only [finite, Bool.false_eq_true] at h3
  have hab : a < b := by simpa using h1
  have hs : sub f64 (.fin b) (.fin a) = f64.round (b - a) := by simp [sub, neg, add, sub_eq_add_neg]
  rw [hs] at h4 ⊢
  rcases Fmt.round_of_nonneg f64 (by linarith : 0 ≤ b - a) with hr | ⟨hr, hnn⟩
  · rw [hr] at h4; simp [finite] at h4
  · exact ⟨a, b, _, rfl, rfl, hab, hr, hnn⟩

/-- `debug_assert!(low <= res)` inside the `gen_range` loop cannot fire -/
theorem uniformRes_ge_low {lo hi : F64} (h : Validate.distType (.uniform lo hi) = true)
    (hne : feq (val64 lo) (val64 hi) = false) (w : UInt64) :
    le (val64 lo) (uniformRes lo hi w) = true := by
  obtain ⟨a, b, s, hl, hh, _, hs, hs0⟩ := uniform_range_facts h hne
  have hself := val64_round_self lo hl
  unfold uniformRes
  simp only []
  rw [hs, hl]
  simp only [mul]
  have hv := unit64_nonneg w
  rcases Fmt.round_of_nonneg f64 (mul_nonneg hv hs0) with hr | ⟨hr, hy⟩
  · rw [hr]; rfl
  · rw [hr]
    simp only [add]
    have := Fmt.round_mono f64 (by decide) (show a ≤ rne f64.p f64.emin (unit64 w * s) + a by linarith)
    rwa [hself] at this

/-- a word whose 52 mantissa bits are all zero ends the loop at once with `low` -/
theorem uniformF64_zero_word {lo hi : F64} (h : Validate.distType (.uniform lo hi) = true)
    (hne : feq (val64 lo) (val64 hi) = false) (w : UInt64) (hw : w.toNat / 2 ^ 12 = 0) :
    uniformF64 lo hi w = some (val64 lo) := by
  obtain ⟨a, b, s, hl, hh, hab, hs, _⟩ := uniform_range_facts h hne
  have hself := val64_round_self lo hl
  have hu : unit64 w = 0 := by unfold unit64; rw [hw]; simp
  have hres : uniformRes lo hi w = .fin a := by
    unfold uniformRes
    simp only []
    rw [hs, hl]
    simp only [hu, mul, zero_mul]
    have h0 : f64.round 0 = .fin 0 := Fmt.round_eq_self_of_rep f64 (rep_zero _ _) (pow2_pos _) (by have := pow2_pos f64.emax; linarith)
    rw [h0]
    simp only [add, zero_add]
    exact hself
  unfold uniformF64
  rw [hres, hh, hl]
  simp [hab]

end C13
end Mb
