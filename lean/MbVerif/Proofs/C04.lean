/-
  C04 invariant: every filled slot `i` holds an action for machine `i` that projects an action of
  one of that machine's states, with bounded times.
-/
import MbVerif.Proofs.ReachMain

namespace Mb
variable {σ : Type}

/-- slot invariant of the framework -/
structure Inv04 (s : Fw σ) : Prop where
  actLen : s.actions.length = s.machines.length
  rtLen : s.rt.length = s.machines.length
  slots : ∀ i a, s.actions[i]? = some (some a) → a.machine = i ∧ C04.actionOK s.machines a = true

theorem mkAction_machine (act : Action) (mi tmo dur : Nat) : (mkAction act mi tmo dur).machine = mi := by
  cases act <;> rfl

theorem mkAction_projects (act : Action) (mi tmo dur : Nat) : C04.projects (mkAction act mi tmo dur) act = true := by
  cases act <;> simp [mkAction, C04.projects]

theorem Inv04.step {mi : Nat} {s t : Fw σ} (hI : Inv04 s) (h : Step mi s t) : Inv04 t := by
  have hf := h.frame
  refine ⟨by rw [hf.actLen, hf.machines]; exact hI.actLen, by rw [hf.rtLen, hf.machines]; exact hI.rtLen, ?_⟩
  intro i a hia
  rw [hf.machines]
  cases h with
  | push => exact hI.slots i a hia
  | fault => exact hI.slots i a (by simpa using hia)
  | rng => exact hI.slots i a hia
  | setState => exact hI.slots i a (by simpa using hia)
  | setLimit => exact hI.slots i a (by simpa using hia)
  | setCtrA => exact hI.slots i a (by simpa using hia)
  | setCtrB => exact hI.slots i a (by simpa using hia)
  | signal => exact hI.slots i a hia
  | zeroA => exact hI.slots i a (by simpa using hia)
  | zeroB => exact hI.slots i a (by simpa using hia)
  | clear hlen =>
    rcases set_getElem?_some _ _ _ _ _ hia with ⟨_, h2⟩ | ⟨_, h2⟩
    · cases h2
    · exact hI.slots i a h2
  | sched m r next act tmo dur hm hr hlen hg htimes =>
    rcases set_getElem?_some _ _ _ _ _ hia with ⟨h1, h2⟩ | ⟨_, h2⟩
    · have ha : a = mkAction act mi tmo dur := by simpa using h2
      subst ha
      subst h1
      refine ⟨mkAction_machine _ _ _ _, ?_⟩
      unfold C04.actionOK
      rw [mkAction_machine, hm]
      obtain ⟨r₁, st, _, _, hst, hact, _⟩ := hg
      simp only [Bool.and_eq_true]
      refine ⟨?_, htimes⟩
      rw [List.any_eq_true]
      refine ⟨st, List.mem_of_getElem? hst, ?_⟩
      rw [hact]; exact mkAction_projects _ _ _ _
    · exact hI.slots i a h2

theorem Inv04.prim {s t : Fw σ} (hI : Inv04 s) (h : Prim s t) : Inv04 t := by
  cases h with
  | step mi st => exact hI.step st
  | setG g' => exact ⟨hI.actLen, hI.rtLen, hI.slots⟩
  | setAcct mi a =>
    refine ⟨by simpa using hI.actLen, by simpa using hI.rtLen, ?_⟩
    intro i a hia
    have := hI.slots i a (by simpa using hia)
    simpa using this
  | callStart t =>
    refine ⟨by simpa [Fw.callStart] using hI.actLen, by simpa [Fw.callStart] using hI.rtLen, ?_⟩
    intro i a hia
    exfalso
    change (List.map (fun _ => (none : Option TAction)) s.actions)[i]? = some (some a) at hia
    rw [List.getElem?_map] at hia
    cases h : s.actions[i]? <;> simp [h] at hia

theorem Inv04.run {s t : Fw σ} (h : Run s t) (hI : Inv04 s) : Inv04 t :=
  Run.inv Inv04 (fun _ _ hI hp => hI.prim hp) h hI

/-- slots in increasing machine order, each for its own index ⇒ ids strictly increasing -/
theorem idsIncreasing_filterMap (l : List (Option TAction)) (k : Nat)
    (h : ∀ i a, l[i]? = some (some a) → a.machine = k + i) :
    C04.idsIncreasing (l.filterMap id) = true ∧ ∀ a ∈ l.filterMap id, k ≤ a.machine := by
  induction l generalizing k with
  | nil => simp [C04.idsIncreasing]
  | cons x l ih =>
    have hl : ∀ i a, l[i]? = some (some a) → a.machine = (k + 1) + i := by
      intro i a hia
      have := h (i + 1) a (by simpa using hia)
      omega
    obtain ⟨ih1, ih2⟩ := ih (k + 1) hl
    cases x with
    | none =>
      have : (none :: l).filterMap id = l.filterMap id := rfl
      rw [this]
      exact ⟨ih1, fun a ha => by have := ih2 a ha; omega⟩
    | some a0 =>
      have h0 : a0.machine = k := by simpa using h 0 a0 (by simp)
      have : (some a0 :: l).filterMap id = a0 :: l.filterMap id := rfl
      rw [this]
      constructor
      · cases hrest : l.filterMap id with
        | nil => simp [C04.idsIncreasing]
        | cons b rest =>
          have hb : k + 1 ≤ b.machine := ih2 b (by rw [hrest]; simp)
          rw [hrest] at ih1
          simp only [C04.idsIncreasing, Bool.and_eq_true, decide_eq_true_eq]
          exact ⟨by omega, ih1⟩
      · intro a ha
        simp only [List.mem_cons] at ha
        rcases ha with rfl | ha
        · omega
        · have := ih2 a ha; omega

theorem Inv04.outOK {s : Fw σ} (hI : Inv04 s) : C04.outOK s.machines s.actionsOut = true := by
  unfold C04.outOK Fw.actionsOut
  simp only [Bool.and_eq_true]
  constructor
  · exact (idsIncreasing_filterMap s.actions 0 (fun i a hia => by simpa using (hI.slots i a hia).1)).1
  · rw [List.all_eq_true]
    intro a ha
    rw [List.mem_filterMap] at ha
    obtain ⟨x, hx, hxa⟩ := ha
    simp only [id] at hxa
    subst hxa
    obtain ⟨i, hi⟩ := List.getElem?_of_mem hx
    exact (hI.slots i a hi).2

end Mb

namespace Mb
variable {σ : Type} (ρ : Oracle σ)

theorem initLimit_run (s : Fw σ) (mi : Nat) : Run s (initLimit ρ s mi) := by
  unfold initLimit
  cases hm : s.machines[mi]? with
  | none => exact withFault_run s _
  | some m =>
    simp only []
    cases hst : m.states[0]? with
    | none => exact withFault_run s _
    | some st =>
      simp only []
      cases hact : st.action with
      | none => exact Run.refl s
      | some a =>
        simp only []
        obtain ⟨_, hre⟩ := sampleLimit_spec ρ mi a s
        exact Run.ofReach (Reach.tail hre (Step.setLimit _ _))

theorem init_run (ms : List Machine) (fp fb : F64) (t0 : Int) (rng : σ) :
    Run (Fw.init0 ms fp fb t0 rng) (Fw.init ρ ms fp fb t0 rng) := by
  unfold Fw.init
  exact Run.foldl _ (fun s mi => initLimit_run ρ s mi) _ _

theorem Inv04.init0 (ms : List Machine) (fp fb : F64) (t0 : Int) (rng : σ) :
    Inv04 (Fw.init0 ms fp fb t0 rng) := by
  refine ⟨by simp [Fw.init0], by simp [Fw.init0], ?_⟩
  intro i a hia
  exfalso
  change (List.map (fun _ => (none : Option TAction)) ms)[i]? = some (some a) at hia
  rw [List.getElem?_map] at hia
  cases h : ms[i]? <;> simp [h] at hia

theorem Inv04.init (ms : List Machine) (fp fb : F64) (t0 : Int) (rng : σ) :
    Inv04 (Fw.init ρ ms fp fb t0 rng) :=
  (Inv04.init0 ms fp fb t0 rng).run (init_run ρ ms fp fb t0 rng)

/-- every state of the observable run is reached by a run of primitive steps -/
theorem runStates_run (s : Fw σ) (h : List Call) : ∀ s' ∈ runStates ρ s h, Run s s' := by
  induction h generalizing s with
  | nil => intro s' hs'; simp [runStates] at hs'
  | cons c h ih =>
    intro s' hs'
    simp only [runStates, List.mem_cons] at hs'
    rcases hs' with rfl | hs'
    · exact triggerEvents_run ρ c.1 c.2 s
    · exact (triggerEvents_run ρ c.1 c.2 s).trans (ih _ s' hs')

end Mb
