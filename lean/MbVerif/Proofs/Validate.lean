/-
  Helper lemmas for C12: what the validation model `Validate.*With c` implies, for an
  arbitrary triple `c` of range tests that is sound on the inputs at hand.
-/
import MbVerif.Validate
import MbVerif.Spec.C12
import MbVerif.Proofs.Fp

namespace Mb
namespace Validate
open Fp C12

/-! ### the three range tests -/

/-- NaN slips through the comparisons used today … -/
theorem fracBadCur_nan : fracBadCur .nan = false := rfl
theorem probBadCur_nan : probBadCur .nan = false := rfl
theorem sumBadCur_nan : sumBadCur .nan = false := rfl
/-- … and is caught by the negated-conjunction style -/
theorem fracBadFixed_nan : fracBadFixed .nan = true := rfl
theorem probBadFixed_nan : probBadFixed .nan = true := rfl
theorem sumBadFixed_nan : sumBadFixed .nan = true := rfl

/-- **the one lemma about the comparison style (fractions)**: except on NaN the two styles agree -/
theorem fracBadCur_eq_fixed {x : FV} (h : x ≠ .nan) : fracBadCur x = fracBadFixed x := by
  rcases x with _ | ⟨_ | _⟩ | q
  · exact absurd rfl h
  · rfl
  · rfl
  · simp only [fracBadCur, fracBadFixed, zero, one, gt, ge, lt_fin_fin, le_fin_fin]
    by_cases h1 : q < 0 <;> by_cases h2 : 1 < q <;> simp [h1, h2, not_lt.mp, not_le.mpr] <;> linarith

theorem probBadCur_eq_fixed {x : FV} (h : x ≠ .nan) : probBadCur x = probBadFixed x := by
  rcases x with _ | ⟨_ | _⟩ | q
  · exact absurd rfl h
  · rfl
  · rfl
  · simp only [probBadCur, probBadFixed, zero, one, gt, lt_fin_fin, le_fin_fin]
    by_cases h1 : q ≤ 0 <;> by_cases h2 : 1 < q <;> simp [h1, h2, not_lt.mp, not_le.mp, not_le.mpr, not_lt.mpr] <;> linarith

theorem sumBadCur_eq_fixed {x : FV} (h : x ≠ .nan) : sumBadCur x = sumBadFixed x :=
  probBadCur_eq_fixed h

theorem fracBadFixed_sound {x : FV} (h : fracBadFixed x = false) : Real01 x := by
  rcases x with _ | ⟨_ | _⟩ | q
  · simp [fracBadFixed] at h
  · simp [fracBadFixed, ge, le, zero, one] at h
  · simp [fracBadFixed, ge, le, zero, one] at h
  · simpa [fracBadFixed, ge, zero, one, Real01] using h

theorem probBadFixed_sound {x : FV} (h : probBadFixed x = false) : Prob x := by
  rcases x with _ | ⟨_ | _⟩ | q
  · simp [probBadFixed, gt] at h
  · simp [probBadFixed, gt, lt, le, zero, one] at h
  · simp [probBadFixed, gt, lt, le, zero, one] at h
  · simpa [probBadFixed, gt, zero, one, Prob] using h

theorem fracBadCur_sound {x : FV} (hx : x ≠ .nan) (h : fracBadCur x = false) : Real01 x :=
  fracBadFixed_sound (by rw [← fracBadCur_eq_fixed hx]; exact h)

theorem probBadCur_sound {x : FV} (hx : x ≠ .nan) (h : probBadCur x = false) : Prob x :=
  probBadFixed_sound (by rw [← probBadCur_eq_fixed hx]; exact h)

/-- what a sound triple of range tests guarantees on inputs satisfying `P` -/
structure ChecksSoundOn (P : FV → Prop) (c : Checks) : Prop where
  frac : ∀ x, P x → c.fracBad x = false → Real01 x
  prob : ∀ x, P x → c.probBad x = false → Prob x
  /-- the sum test only ever sees sums of accepted probabilities, which are never NaN -/
  sum : ∀ x, x ≠ .nan → c.sumBad x = false → Prob x

abbrev ChecksSound (c : Checks) : Prop := ChecksSoundOn (fun _ => True) c

theorem checksFixed_sound : ChecksSound checksFixed where
  frac := fun _ _ h => fracBadFixed_sound h
  prob := fun _ _ h => probBadFixed_sound h
  sum := fun _ _ h => probBadFixed_sound h

/-- today's tests are sound on everything except NaN -/
theorem checksCur_sound_on_non_nan : ChecksSoundOn (· ≠ .nan) checksCur where
  frac := fun _ hx h => fracBadCur_sound hx h
  prob := fun _ hx h => probBadCur_sound hx h
  sum := fun _ hx h => probBadCur_sound hx h

/-- today's tests are NOT sound: NaN is a counterexample for the fraction and the probability test -/
theorem checksCur_unsound : ¬ ChecksSound checksCur := by
  intro h
  exact h.frac .nan trivial rfl

/-! ### distributions -/

theorem isFinite_iff {v : FV} : isFinite v = true ↔ C12.Finite v := by
  cases v <;> simp [isFinite, C12.Finite]

theorem gt_zero_iff_pos {v : FV} : gt v zero = true ↔ Pos v := by
  rcases v with _ | ⟨_ | _⟩ | q <;> simp [gt, lt, zero, Pos]

theorem distMinProbability_eq : distMinProbability = .fin C12.minProbability := by
  decide +kernel

theorem poissonMaxLambda_eq : poissonMaxLambda = .fin C12.maxLambda := by
  decide +kernel

theorem slowSafe_of_checks {v : FV}
    (h1 : (!feq v zero && lt v distMinProbability) = false)
    (h2 : ge v zero = true) (h3 : le v one = true) : SlowSafeProb v := by
  rw [distMinProbability_eq] at h1
  rcases v with _ | ⟨_ | _⟩ | q
  · simp [ge] at h2
  · simp [le, one] at h3
  · simp [ge, le, zero] at h2
  · simp only [ge, zero, one, le_fin_fin, decide_eq_true_eq] at h2 h3
    refine ⟨h2, h3, ?_⟩
    by_cases hq : q = 0
    · left; exact hq
    · right
      simp only [feq, zero, hq, decide_false, Bool.not_false, Bool.true_and, lt_fin_fin,
        decide_eq_false_iff_not, not_lt] at h1
      exact h1

theorem distType_sound {d : DistType} (h : distType d = true) : DistParamOK d := by
  cases d with
  | uniform lo hi =>
    simp only [distType] at h
    simp only [DistParamOK]
    generalize val64 lo = l at h ⊢
    generalize val64 hi = u at h ⊢
    rcases l with _ | _ | a
    · simp [isNan] at h
    · simp [isNan, isInf] at h
    · rcases u with _ | _ | b
      · simp [isNan] at h
      · simp [isNan, isInf] at h
      · have hs : sub f64 (.fin b) (.fin a) = f64.round (b - a) := by
          simp [sub, neg, add, sub_eq_add_neg]
        rw [hs] at h
        simp only [UniformOK]
        rcases Fmt.round_cases f64 (b - a) with hr | hr | hr <;> rw [hr] at h ⊢ <;>
          simp only [isNan, isInf, Bool.or_self, Bool.false_eq_true, ↓reduceIte, gt, lt_fin_fin,
            decide_eq_true_eq, C12.Finite, and_true, and_false] at h ⊢
        · split at h <;> simp at h
        · split at h <;> simp at h
        · by_cases hab : b < a
          · simp [hab] at h
          · exact not_lt.mp hab
  | normal mean stdev =>
    simp only [distType] at h
    exact isFinite_iff.mp h
  | skewNormal loc scale shape =>
    simp only [distType] at h
    simp only [DistParamOK]
    generalize val64 scale = sc at h ⊢
    generalize val64 shape = sh at h ⊢
    rcases sc with _ | _ | a
    · simp [isFinite] at h
    · simp [isFinite] at h
    · rcases sh with _ | _ | b
      · simp [isFinite] at h
      · simp [isFinite] at h
      · simp only [isFinite, Bool.not_true, gt, zero, lt_fin_fin, Bool.false_or] at h
        by_cases ha : 0 < a
        · exact ⟨ha, trivial⟩
        · simp [ha] at h
  | logNormal mu sigma =>
    simp only [distType] at h
    exact isFinite_iff.mp h
  | binomial trials p =>
    simp only [distType] at h
    simp only [DistParamOK]
    generalize val64 p = v at h ⊢
    by_cases h1 : (!feq v zero && lt v distMinProbability) = true
    · simp [h1] at h
    · have h1' : (!feq v zero && lt v distMinProbability) = false := by simpa using h1
      rw [h1'] at h
      by_cases h2 : trials > Gen.BINOMIAL_MAX_TRIALS
      · simp [h2] at h
      · by_cases h3 : ge v zero = true
        · by_cases h4 : le v one = true
          · exact ⟨slowSafe_of_checks h1' h3 h4, by simpa [Gen.BINOMIAL_MAX_TRIALS] using h2⟩
          · simp [h2, h3, h4] at h
        · simp [h2, h3] at h
  | geometric p =>
    simp only [distType] at h
    simp only [DistParamOK]
    generalize val64 p = v at h ⊢
    by_cases h1 : (!feq v zero && lt v distMinProbability) = true
    · simp [h1] at h
    · have h1' : (!feq v zero && lt v distMinProbability) = false := by simpa using h1
      rw [h1'] at h
      rcases v with _ | _ | q
      · simp [isFinite] at h
      · simp [isFinite] at h
      · simp only [Bool.false_eq_true, ↓reduceIte, isFinite, Bool.not_true, zero, lt_fin_fin, gt, one,
          Bool.false_or] at h
        by_cases hq0 : q < 0
        · simp [hq0] at h
        · by_cases hq1 : 1 < q
          · simp [hq1] at h
          · exact slowSafe_of_checks h1' (by simpa [ge, zero] using not_lt.mp hq0)
              (by simpa [one] using not_lt.mp hq1)
  | pareto scale shape =>
    simp only [distType] at h
    simp only [DistParamOK]
    by_cases h1 : gt (val64 scale) zero = true
    · by_cases h2 : gt (val64 shape) zero = true
      · exact ⟨gt_zero_iff_pos.mp h1, gt_zero_iff_pos.mp h2⟩
      · simp [h1, h2] at h
    · simp [h1] at h
  | poisson lambda =>
    simp only [distType] at h
    simp only [DistParamOK]
    rw [poissonMaxLambda_eq] at h
    generalize val64 lambda = v at h ⊢
    rcases v with _ | ⟨_ | _⟩ | q
    · simp [gt, zero] at h
    · simp [gt, lt, zero] at h
    · simp [gt, lt, zero] at h
    · simp only [gt, zero, lt_fin_fin] at h
      by_cases h1 : C12.maxLambda < q
      · simp [h1] at h
      · by_cases h2 : 0 < q
        · exact ⟨h2, not_lt.mp h1⟩
        · simp [h1, h2] at h
  | weibull scale shape =>
    simp only [distType] at h
    simp only [DistParamOK]
    by_cases h1 : gt (val64 scale) zero = true
    · by_cases h2 : gt (val64 shape) zero = true
      · exact ⟨gt_zero_iff_pos.mp h1, gt_zero_iff_pos.mp h2⟩
      · simp [h1, h2] at h
    · simp [h1] at h
  | gamma scale shape =>
    simp only [distType] at h
    simp only [DistParamOK]
    by_cases h1 : gt (val64 shape) zero = true
    · by_cases h2 : gt (val64 scale) zero = true
      · exact ⟨gt_zero_iff_pos.mp h2, gt_zero_iff_pos.mp h1⟩
      · simp [h1, h2] at h
    · simp [h1] at h
  | beta alpha beta =>
    simp only [distType] at h
    simp only [DistParamOK]
    by_cases h1 : gt (val64 alpha) zero = true
    · by_cases h2 : gt (val64 beta) zero = true
      · exact ⟨gt_zero_iff_pos.mp h1, gt_zero_iff_pos.mp h2⟩
      · simp [h1, h2] at h
    · simp [h1] at h

theorem dist_sound {d : Dist} (h : dist d = true) : DistOK d := distType_sound h

theorem optDist_sound {d : Option Dist} (h : optDist d = true) : OptDistOK d := by
  cases d with
  | none => trivial
  | some d => exact dist_sound h

theorem action_sound {a : Action} (h : action a = true) : ActionOK a := by
  cases a with
  | cancel t => trivial
  | sendPadding b r tmo lim =>
    simp only [action, Bool.and_eq_true] at h
    exact ⟨dist_sound h.1, optDist_sound h.2⟩
  | blockOutgoing b r tmo du lim =>
    simp only [action, Bool.and_eq_true] at h
    exact ⟨dist_sound h.1.1, dist_sound h.1.2, optDist_sound h.2⟩
  | updateTimer r du lim =>
    simp only [action, Bool.and_eq_true] at h
    exact ⟨dist_sound h.1, optDist_sound h.2⟩

theorem counter_sound {c : Counter} (h : counter c = true) : CounterOK c := optDist_sound h

/-! ### transition vectors -/

/-- the running f32 sum from an arbitrary start value -/
def sumFrom (sum : FV) (ts : List Trans) : FV :=
  ts.foldl (fun s t => Fp.add Fp.f32 s (Fp.val32 t.prob)) sum

theorem transLoopWith_spec (c : Checks) (n : Nat) :
    ∀ (ts : List Trans) (seen : List Nat) (sum s : FV),
      transLoopWith c n ts seen sum = some s →
        (∀ t ∈ ts, TargetOK n t.target) ∧ (∀ t ∈ ts, t.target ∉ seen) ∧ (ts.map (·.target)).Nodup ∧
        (∀ t ∈ ts, c.probBad (val32 t.prob) = false) ∧ s = sumFrom sum ts := by
  intro ts
  induction ts with
  | nil =>
    intro seen sum s h
    simp only [transLoopWith, Option.some.injEq] at h
    simp [sumFrom, h]
  | cons t ts ih =>
    intro seen sum s h
    simp only [transLoopWith] at h
    split at h
    · exact absurd h (by simp)
    · rename_i hT
      split at h
      · exact absurd h (by simp)
      · rename_i hS
        split at h
        · exact absurd h (by simp)
        · rename_i hP
          obtain ⟨i1, i2, i3, i4, i5⟩ := ih _ _ _ h
          have hT' : TargetOK n t.target := by
            unfold TargetOK
            simp only [ge_iff_le, Bool.and_eq_true, decide_eq_true_eq, bne_iff_ne, ne_eq, not_and,
              Decidable.not_not] at hT
            by_cases h1 : n ≤ t.target
            · by_cases h2 : t.target = STATE_END
              · right; left; exact h2
              · right; right; exact hT ⟨h1, h2⟩
            · left; omega
          have hS' : t.target ∉ seen := by simpa using hS
          refine ⟨?_, ?_, ?_, ?_, ?_⟩
          · intro t' ht'
            rcases List.mem_cons.mp ht' with rfl | h'
            · exact hT'
            · exact i1 t' h'
          · intro t' ht'
            rcases List.mem_cons.mp ht' with rfl | h'
            · exact hS'
            · exact fun hm => i2 t' h' (List.mem_cons_of_mem _ hm)
          · simp only [List.map_cons, List.nodup_cons]
            refine ⟨?_, i3⟩
            intro hm
            obtain ⟨t', ht', he⟩ := List.mem_map.mp hm
            exact i2 t' ht' (by rw [he]; exact List.mem_cons_self)
          · intro t' ht'
            rcases List.mem_cons.mp ht' with rfl | h'
            · simpa using hP
            · exact i4 t' h'
          · simpa [sumFrom] using i5

/-- `+inf` or a non-negative real: what a running sum of positive reals can be -/
def NonNegOrInf : FV → Prop
  | .fin q => 0 ≤ q
  | .inf neg => neg = false
  | .nan => False

theorem add_f32_nonNegOrInf {s p : FV} (hs : NonNegOrInf s) (hp : Prob p) :
    NonNegOrInf (add f32 s p) := by
  rcases p with _ | _ | q
  · exact hp.elim
  · exact hp.elim
  · rcases s with _ | _ | a
    · exact hs.elim
    · simp only [NonNegOrInf] at hs; subst hs; simp [add, NonNegOrInf]
    · simp only [add]
      have h0 : 0 ≤ a + q := by have := hp.1; simp only [NonNegOrInf] at hs; linarith
      rcases Fmt.round_of_nonneg f32 h0 with h | ⟨h, hr⟩ <;> rw [h]
      · simp [NonNegOrInf]
      · exact hr

theorem sumFrom_nonNegOrInf : ∀ (ts : List Trans) (s : FV), NonNegOrInf s →
    (∀ t ∈ ts, Prob (val32 t.prob)) → NonNegOrInf (sumFrom s ts) := by
  intro ts
  induction ts with
  | nil => intro s hs _; exact hs
  | cons t ts ih =>
    intro s hs hp
    simp only [sumFrom, List.foldl_cons]
    exact ih _ (add_f32_nonNegOrInf hs (hp t List.mem_cons_self))
      (fun t' ht' => hp t' (List.mem_cons_of_mem _ ht'))

theorem nonNegOrInf_ne_nan {v : FV} (h : NonNegOrInf v) : v ≠ .nan := by
  intro e; subst e; exact h

theorem f32sum_eq_sumFrom (ts : List Trans) : f32sum ts = sumFrom (.fin 0) ts := rfl

theorem transVecWith_sound {P : FV → Prop} {c : Checks} (hc : ChecksSoundOn P c) {n : Nat} {ts : List Trans}
    (hP : ∀ t ∈ ts, P (val32 t.prob)) (h : transVecWith c n ts = true) : VecWF n ts := by
  unfold transVecWith at h
  split at h
  · exact absurd h (by simp)
  · rename_i sum hl
    obtain ⟨i1, _, i3, i4, i5⟩ := transLoopWith_spec c n ts [] zero sum hl
    have hprobs : ∀ t ∈ ts, Prob (val32 t.prob) := fun t ht => hc.prob _ (hP t ht) (i4 t ht)
    have hsum : sum = f32sum ts := by rw [i5]; rfl
    have hnn : sum ≠ .nan := by
      rw [i5]
      exact nonNegOrInf_ne_nan (sumFrom_nonNegOrInf ts zero (by simp [zero, NonNegOrInf]) hprobs)
    have hsb : c.sumBad sum = false := by simpa using h
    have hps : Prob sum := hc.sum sum hnn hsb
    refine ⟨?_, i1, i3, hprobs, ?_⟩
    · intro e
      subst e
      simp only [sumFrom, List.foldl_nil, zero] at i5
      rw [i5] at hps
      exact absurd hps.1 (lt_irrefl 0)
    · rw [← hsum]
      rcases sum with _ | _ | q
      · exact hps.elim
      · exact hps.elim
      · exact hps.2

/-! ### states and machines -/

theorem stateWith_sound {P : FV → Prop} {c : Checks} (hc : ChecksSoundOn P c) {n : Nat} {s : State}
    (hP : ∀ v ∈ s.transitions, ∀ ts, v = some ts → ∀ t ∈ ts, P (val32 t.prob))
    (h : stateWith c n s = true) : StateWF n s := by
  simp only [stateWith, Bool.and_eq_true, List.all_eq_true] at h
  obtain ⟨⟨⟨h1, h2⟩, h3⟩, h4⟩ := h
  refine ⟨?_, ?_, ?_, ?_⟩
  · intro v hv ts e
    subst e
    exact transVecWith_sound hc (hP _ hv ts rfl) (h1 _ hv)
  · intro a e; rw [e] at h2; exact action_sound h2
  · intro a e; rw [e] at h3; exact counter_sound h3
  · intro a e; rw [e] at h4; exact counter_sound h4

/-- the inputs of the three range tests: both machine fractions and every transition probability -/
structure InputsSat (P : FV → Prop) (m : Machine) : Prop where
  paddingFrac : P (val64 m.maxPaddingFrac)
  blockingFrac : P (val64 m.maxBlockingFrac)
  probs : ∀ s ∈ m.states, ∀ v ∈ s.transitions, ∀ ts, v = some ts → ∀ t ∈ ts, P (val32 t.prob)

theorem inputsSat_true (m : Machine) : InputsSat (fun _ => True) m :=
  ⟨trivial, trivial, fun _ _ _ _ _ _ _ _ => trivial⟩

/-- **core of C12**: with range tests that are sound on the machine's inputs, acceptance implies `WF` -/
theorem machineWith_sound {P : FV → Prop} {c : Checks} (hc : ChecksSoundOn P c) {m : Machine}
    (hP : InputsSat P m) (h : machineWith c m = true) : WF m := by
  unfold machineWith at h
  simp only [] at h
  split at h
  · exact absurd h (by simp)
  · rename_i hf1
    split at h
    · exact absurd h (by simp)
    · rename_i hf2
      split at h
      · exact absurd h (by simp)
      · rename_i hl0
        split at h
        · exact absurd h (by simp)
        · rename_i hlm
          refine ⟨hc.frac _ hP.paddingFrac (by simpa using hf1), hc.frac _ hP.blockingFrac (by simpa using hf2),
            ?_, ?_, ?_⟩
          · have : m.states.length ≠ 0 := by simpa using hl0
            omega
          · omega
          · intro s hs
            rw [List.all_eq_true] at h
            exact stateWith_sound hc (hP.probs s hs) (h s hs)

/-! ### off NaN the two comparison styles give the same judgement -/

theorem transLoop_cur_eq_fixed (n : Nat) : ∀ (ts : List Trans) (seen : List Nat) (sum : FV),
    (∀ t ∈ ts, val32 t.prob ≠ .nan) →
    transLoopWith checksCur n ts seen sum = transLoopWith checksFixed n ts seen sum := by
  intro ts
  induction ts with
  | nil => intro _ _ _; rfl
  | cons t ts ih =>
    intro seen sum hnn
    have ht : val32 t.prob ≠ .nan := hnn t List.mem_cons_self
    have hp : checksCur.probBad (val32 t.prob) = checksFixed.probBad (val32 t.prob) :=
      probBadCur_eq_fixed ht
    simp only [transLoopWith, hp]
    rw [ih _ _ (fun t' ht' => hnn t' (List.mem_cons_of_mem _ ht'))]

theorem transVec_cur_eq_fixed (n : Nat) (ts : List Trans) (hnn : ∀ t ∈ ts, val32 t.prob ≠ .nan) :
    transVecWith checksCur n ts = transVecWith checksFixed n ts := by
  unfold transVecWith
  rw [transLoop_cur_eq_fixed n ts [] zero hnn]
  cases hl : transLoopWith checksFixed n ts [] zero with
  | none => rfl
  | some sum =>
    -- the loop passed, so every probability is in (0,1] and the sum is not NaN
    obtain ⟨_, _, _, i4, i5⟩ := transLoopWith_spec checksFixed n ts [] zero sum hl
    have hprobs : ∀ t ∈ ts, Prob (val32 t.prob) := fun t ht => probBadFixed_sound (i4 t ht)
    have hsn : sum ≠ .nan := by
      rw [i5]
      exact nonNegOrInf_ne_nan (sumFrom_nonNegOrInf ts zero (by simp [zero, NonNegOrInf]) hprobs)
    have : checksCur.sumBad sum = checksFixed.sumBad sum := sumBadCur_eq_fixed hsn
    simp only [this]

theorem all_congr_mem {α : Type} {l : List α} {f g : α → Bool} (h : ∀ a ∈ l, f a = g a) :
    l.all f = l.all g := by
  induction l with
  | nil => rfl
  | cons a l ih =>
    simp only [List.all_cons]
    rw [h a List.mem_cons_self, ih (fun b hb => h b (List.mem_cons_of_mem _ hb))]

theorem machine_cur_eq_fixed {m : Machine} (hnn : InputsSat (· ≠ .nan) m) :
    machineWith checksCur m = machineWith checksFixed m := by
  unfold machineWith
  have h1 : checksCur.fracBad (val64 m.maxPaddingFrac) = checksFixed.fracBad (val64 m.maxPaddingFrac) :=
    fracBadCur_eq_fixed hnn.paddingFrac
  have h2 : checksCur.fracBad (val64 m.maxBlockingFrac) = checksFixed.fracBad (val64 m.maxBlockingFrac) :=
    fracBadCur_eq_fixed hnn.blockingFrac
  simp only [h1, h2]
  have hall : m.states.all (stateWith checksCur m.states.length) =
      m.states.all (stateWith checksFixed m.states.length) := by
    apply all_congr_mem
    intro s hs
    unfold stateWith
    congr 3
    apply all_congr_mem
    intro v hv
    cases v with
    | none => rfl
    | some ts => exact transVec_cur_eq_fixed _ ts (hnn.probs s hs _ hv ts rfl)
  rw [hall]

end Validate
end Mb
