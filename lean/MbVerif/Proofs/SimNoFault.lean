/-
  Totality of the simulator with machines, part 4: the bounds instantiated with multiples of the
  24 h cap, the main loop, the initial state, and the whole run.

  For a run of at most `N` iterations over a queue whose times lie in `[-d, T]`:
  * a queued TunnelSent is at most `k · W` old after `k` iterations (`W` = 48 h), so one pending
    aggregate delay is at most `aggD N = N · W + N · window`,
  * a side's total aggregate delay is at most `2 N · aggD N`,
  * the clock is at most `T + 2 N · aggD N + k · stepZ N d` after `k` iterations,
  * all clock values handed to the two frameworks lie in a window of width `span N T d`.
  The guard `(N + 2) · span N T d ≤ Duration::MAX` then excludes every checked-arithmetic
  overflow in the simulator and (by the potential argument of `Proofs/DurBound.lean`) in the
  frameworks.
-/
import MbVerif.Proofs.SimNoFaultStep
import MbVerif.Proofs.ValidateOK

namespace Mb.Sim
open Mb

namespace TB
/-- the bottleneck window, in ns -/
def WB : Nat := Gen.SIM_BOTTLENECK_WINDOW_NS
/-- bound on one pending aggregate delay in a run of at most `N` iterations -/
def aggD (N : Nat) : Nat := N * W + WB * N
/-- growth of the horizon per iteration -/
def stepZ (N d : Nat) : Nat := (TO + TD + d + WB * N) + W
/-- width of the window of all clock values of a run of at most `N` iterations over a queue with
    times in `[-d, T]` and network delay `d` -/
def span (N T d : Nat) : Nat := T + d + aggK * d + N * (aggD N + aggD N) + N * stepZ N d
end TB

/-- the parameters of the invariant for a run of at most `N` iterations -/
def mkPar (N d T : Nat) (t0 : Int) : TPar :=
  { d := d, Tm := (T : Int), t0 := t0, pw := TB.WB, P := TB.WB * N, D := TB.aggD N,
    JM := N * (TB.aggD N + TB.aggD N) }

theorem mkPar_S (N d T : Nat) (t0 : Int) : (mkPar N d T t0).S + TB.W = TB.stepZ N d := rfl

theorem mkPar_ok {N d T : Nat} (t0 : Int) (hN : 0 < N) (hg : (N + 2) * TB.span N T d ≤ durMax) :
    (mkPar N d T t0).OK := by
  have h1 : TB.span N T d ≤ (N + 2) * TB.span N T d := Nat.le_mul_of_pos_left _ (by omega)
  have h2 : TB.aggD N + TB.aggD N ≤ N * (TB.aggD N + TB.aggD N) := Nat.le_mul_of_pos_left _ hN
  have hs : TB.span N T d = T + d + TB.aggK * d + N * (TB.aggD N + TB.aggD N) + N * TB.stepZ N d := rfl
  refine ⟨?_, ?_, ?_⟩
  · show N * (TB.aggD N + TB.aggD N) ≤ durMax
    omega
  · show TB.aggK * d ≤ durMax
    omega
  · show TB.WB * N + d ≤ durMax
    have : TB.WB * N ≤ TB.aggD N := by unfold TB.aggD; omega
    omega

section
variable {σ : Type} (ρ : Oracle σ)

/-- the loop invariant after `k` iterations -/
def LI (N d T : Nat) (t0 : Int) (k : Nat) (st : St σ) : Prop :=
  PI (mkPar N d T t0) (k * TB.W)
    ((T : Int) + ((N * (TB.aggD N + TB.aggD N) + k * TB.stepZ N d : Nat) : Int)) k
    (k * (TB.aggD N + TB.aggD N)) st ∧
  FwI t0 (TB.span N T d) k st

theorem PI.cast {π : TPar} {A : Nat} {Hn Hn' : Int} {kw J J' : Nat} {st : St σ} (h : PI π A Hn kw J st)
    (h1 : Hn = Hn') (h2 : J = J') : PI π A Hn' kw J' st := by
  subst h1; subst h2; exact h

theorem PI.slotsOK {π : TPar} {A : Nat} {Hn : Int} {kw J : Nat} {st : St σ} (h : PI π A Hn kw J st) : st.slotsOK := by
  have key : ∀ c, Mb.Sim.slotsOK (st.side c).schedAction := by
    intro c a ha
    have := ((h.sides c).acts a ha).2
    cases haa : a.action <;> rw [haa] at this <;> first | rfl | exact absurd this id
  exact ⟨key true, key false⟩

/-- one iteration keeps the loop invariant and raises no environmental fault -/
theorem step_LI {N d T : Nat} {t0 : Int} {k : Nat} {st : St σ} (h : LI N d T t0 k st) (hk : k < N)
    (ht0 : -(d : Int) ≤ t0) (hg : (N + 2) * TB.span N T d ≤ durMax) :
    (∀ f, step ρ st = .error f → f.isBug = true) ∧
    (∀ r st', step ρ st = .ok (some (r, st')) → LI N d T t0 (k + 1) st') := by
  have hN : 0 < N := by omega
  have hok := mkPar_ok (T := T) (d := d) t0 hN hg
  have e1 : (k + 1) * TB.W = k * TB.W + TB.W := Nat.succ_mul _ _
  have e2 : (k + 1) * (TB.aggD N + TB.aggD N) = k * (TB.aggD N + TB.aggD N) + (TB.aggD N + TB.aggD N) := Nat.succ_mul _ _
  have e3 : (k + 1) * TB.stepZ N d = k * TB.stepZ N d + TB.stepZ N d := Nat.succ_mul _ _
  have e4 : (k + 1 + 1) * TB.span N T d = (k + 1) * TB.span N T d + TB.span N T d := Nat.succ_mul _ _
  have l1 : (k + 1) * TB.W ≤ N * TB.W := Nat.mul_le_mul_right _ hk
  have l2 : (k + 1) * (TB.aggD N + TB.aggD N) ≤ N * (TB.aggD N + TB.aggD N) := Nat.mul_le_mul_right _ hk
  have l3 : (k + 1) * TB.stepZ N d ≤ N * TB.stepZ N d := Nat.mul_le_mul_right _ hk
  have l4 : (k + 1 + 1) * TB.span N T d ≤ (N + 2) * TB.span N T d := Nat.mul_le_mul_right _ (by omega)
  have l5 : TB.WB * (k + 1) ≤ TB.WB * N := Nat.mul_le_mul_left _ hk
  have hD : TB.aggD N = N * TB.W + TB.WB * N := rfl
  have hst := step_ti ρ (π := mkPar N d T t0) (A := k * TB.W) (A' := (k + 1) * TB.W)
    (Hn := (T : Int) + ((N * (TB.aggD N + TB.aggD N) + k * TB.stepZ N d : Nat) : Int)) (kw := k)
    (J := k * (TB.aggD N + TB.aggD N)) (B := TB.span N T d) (k := k) h.1 h.2 hok
    (by show k * (TB.aggD N + TB.aggD N) + TB.aggD N + TB.aggD N ≤ N * (TB.aggD N + TB.aggD N); omega)
    (by show (T : Int) + ((N * (TB.aggD N + TB.aggD N) : Nat) : Int) ≤ _; omega)
    (by show k * TB.W + TB.W ≤ TB.aggD N; omega)
    (by omega)
    (by show (k + 1) * TB.W ≤ TB.aggD N; omega)
    (by show TB.WB * N ≤ TB.aggD N; omega)
    (by show TB.WB * (k + 1) ≤ TB.WB * N; exact l5)
    (by omega)
    (by
      rw [mkPar_S]
      show (T : Int) + ((N * (TB.aggD N + TB.aggD N) + k * TB.stepZ N d : Nat) : Int) + (TB.stepZ N d : Int) ≤
        t0 + (TB.span N T d : Int)
      have hs : TB.span N T d = T + d + TB.aggK * d + N * (TB.aggD N + TB.aggD N) + N * TB.stepZ N d := rfl
      omega)
  refine ⟨hst.1, fun r st' hs => ?_⟩
  obtain ⟨hp, hf⟩ := hst.2 r st' hs
  refine ⟨hp.cast ?_ ?_, hf⟩
  · rw [mkPar_S]
    omega
  · show k * (TB.aggD N + TB.aggD N) + TB.aggD N + TB.aggD N = (k + 1) * (TB.aggD N + TB.aggD N)
    omega

/-- the run is capped at `N` iterations: by `max_sim_iterations = N`, or — with both output
    filters off, so that every iteration records its event — by `max_trace_length = N` -/
def CappedAt (args : Args) (N : Nat) : Prop :=
  args.maxSimIterations = N ∨
  (args.maxTraceLength = N ∧ args.onlyClientEvents = false ∧ args.onlyNetworkActivity = false)

/-- **The main loop does not fault**: from a state satisfying the loop invariant, with a cap of
    `N` iterations (see `CappedAt`), the loop never stops on a fault. -/
theorem loop_LI {N d T : Nat} {t0 : Int} (args : Args) (hcap : CappedAt args N)
    (ht0 : -(d : Int) ≤ t0) (hg : (N + 2) * TB.span N T d ≤ durMax) :
    ∀ (fuel : Nat) (st : St σ) (iters cnt : Nat), LI N d T t0 iters st → iters < N →
    (args.maxSimIterations = N ∨ cnt = iters) →
    ∀ f, (loop ρ args fuel st iters cnt).stop ≠ .fault f := by
  intro fuel
  induction fuel with
  | zero => intro st iters cnt _ _ _ f h; simp [loop] at h
  | succ n ih =>
    intro st iters cnt hli hlt hrel f h
    have hst := step_LI ρ hli hlt ht0 hg
    have htot := step_total ρ hli.1.slotsOK
    cases hs : step ρ st with
    | error f0 =>
      have h1 := hst.1 f0 hs
      have h2 := htot.1 f0 hs
      rw [h1] at h2; cases h2
    | ok o =>
      cases o with
      | none => simp [loop, hs] at h
      | some p =>
        obtain ⟨r, st'⟩ := p
        rw [loop_succ_some ρ args n st st' iters cnt r hs] at h
        cases hstop : stopCheck args st' iters (bump args r cnt) with
        | some s =>
          simp only [hstop] at h
          subst h
          unfold stopCheck at hstop
          repeat (first | cases hstop | split at hstop)
        | none =>
          simp only [hstop] at h
          have hnext : iters + 1 < N ∧ (args.maxSimIterations = N ∨ bump args r cnt = iters + 1) := by
            unfold stopCheck at hstop
            split at hstop
            · cases hstop
            · rename_i hnt
              split at hstop
              · cases hstop
              · rename_i hni
                rcases hrel with hrel | hrel
                · rw [hrel] at hni
                  simp only [Bool.and_eq_true, decide_eq_true_eq, not_and, Nat.not_le] at hni
                  exact ⟨hni (by omega), Or.inl hrel⟩
                · rcases hcap with hcap | ⟨hc1, hc2, hc3⟩
                  · rw [hcap] at hni
                    simp only [Bool.and_eq_true, decide_eq_true_eq, not_and, Nat.not_le] at hni
                    exact ⟨hni (by omega), Or.inl hcap⟩
                  · have hb : bump args r cnt = cnt + 1 := by
                      unfold bump Args.keep Sim.keep
                      simp [hc2, hc3]
                    rw [hc1, hb] at hnt
                    simp only [Bool.and_eq_true, decide_eq_true_eq, not_and, Nat.not_le] at hnt
                    have := hnt (by omega)
                    exact ⟨by omega, Or.inr (by omega)⟩
          exact ih st' (iters + 1) (bump args r cnt) (hst.2 r st' hs) hnext.1 hnext.2 f h

/-! ### the initial state -/

/-- what the run needs of the queue: well-formed, heap-ordered, only trace packets (base heaps),
    with times in `[lo, T]`, not empty -/
structure QueueOK (sq : SimQueue) (lo T : Int) : Prop where
  wf : sq.WF
  ord : sq.Ord
  onlyBase : ∀ c qi, qi ≠ .base → ((sq.side c).heap qi).data = []
  times : sq.AllE fun e => lo ≤ e.time ∧ e.time ≤ T
  nonempty : ∃ t0, sq.firstTime = some t0

/-- the hypotheses on a machine list: accepted by validation, and of the shape of the Rust type -/
def MachinesOK (ms : List Machine) : Prop :=
  ∀ m ∈ ms, Validate.machine m = true ∧ ∀ st ∈ m.states, st.transitions.length = EVENT_NUM

/-- `SimState::new` on accepted machines: no fault, and the framework invariant holds -/
theorem Side.new_ti {ms : List Machine} (hms : MachinesOK ms) {fp fb : F64}
    (hfp : Validate.fracOK fp = true) (hfb : Validate.fracOK fb = true) (t0 : Int) (B : Nat) (orc : σ) :
    ∃ sd o, Side.new ρ ms t0 fp fb orc = .ok (sd, o) ∧ FI t0 B 0 sd ∧ ∀ now, SlotI now sd := by
  have hfn : Validate.frameworkNew ms fp fb = true := by
    unfold Validate.frameworkNew
    simp only [hfp, hfb, Bool.true_and, List.all_eq_true]
    exact fun m hm => (hms m hm).1
  have hok : ∀ m ∈ ms, MachineOK m := fun m hm => machineOK_of_validate m (hms m hm).1 (hms m hm).2
  have hV0 := valid_init0 ms fp fb t0 orc hok
  have hS0 : SigOK (Fw.init0 ms fp fb t0 orc) := by intro x hx; simp [Fw.init0] at hx
  obtain ⟨hV1, hS1, hN1, _⟩ := okS_init ρ ms fp fb t0 orc hV0 hS0
  have hG : Good t0 B 0 (Fw.init ρ ms fp fb t0 orc) :=
    good_init ρ ms fp fb t0 orc ⟨Int.le_refl _, by omega⟩
  have hF : (Fw.init ρ ms fp fb t0 orc).fault = none := by
    rcases hN1 with h | ⟨_, h⟩
    · rw [h]; rfl
    · exact absurd h hG.2
  have hI := Inv04.init ρ ms fp fb t0 orc
  have hM : (Fw.init ρ ms fp fb t0 orc).machines = ms := run_machines (init_run ρ ms fp fb t0 orc)
  unfold Side.new
  simp only [hfn, Bool.not_true, Bool.false_eq_true, if_false, hF]
  refine ⟨_, _, rfl, ?_, ?_⟩
  · exact ⟨⟨hV1.lenRt, hV1.lenAct, hV1.ok, hV1.cur⟩, hS1,
      ⟨⟨hG.1.nowLo, hG.1.nowHi, hG.1.stLo, hG.1.phi, hG.1.le⟩, (by unfold NoDur; simp)⟩, ⟨hI.actLen, hI.rtLen, hI.slots⟩, rfl,
      by simp [hM], by simp [hM]⟩
  · intro now
    refine ⟨fun a ha => ?_, fun t ht => ?_, fun u hu => by cases hu⟩
    · simp only [List.mem_map] at ha
      obtain ⟨_, _, ha⟩ := ha
      cases ha
    · simp only [List.mem_map] at ht
      obtain ⟨_, _, ht⟩ := ht
      cases ht

/-- the state at the top of the main loop exists and satisfies the loop invariant -/
theorem initState_LI {mc ms : List Machine} (hmc : MachinesOK mc) (hms : MachinesOK ms) {sq : SimQueue} {a : Args}
    {N d T : Nat} (hq : QueueOK sq (-(d : Int)) (T : Int))
    (hfrac : Validate.fracOK a.fpClient = true ∧ Validate.fracOK a.fbClient = true ∧
      Validate.fracOK a.fpServer = true ∧ Validate.fracOK a.fbServer = true)
    (hd : a.network.delay = d) (hpps : 1 ≤ effPps a.network sq.maxPps) (orc : σ) :
    ∃ t0 st, initState ρ mc ms sq a orc = .ok st ∧ -(d : Int) ≤ t0 ∧ LI N d T t0 0 st := by
  obtain ⟨t0, hft⟩ := hq.nonempty
  obtain ⟨_, cm, rm, hrm, hrt⟩ := firstTime_min hq.ord hq.onlyBase hft
  have hrange : -(d : Int) ≤ rm.time ∧ rm.time ≤ (T : Int) := hq.times cm .base rm hrm
  rw [hrt] at hrange
  obtain ⟨c, o1, hc, hfc, hsc⟩ := Side.new_ti ρ hmc hfrac.1 hfrac.2.1 t0 (TB.span N T d) orc
  obtain ⟨s, o2, hsv, hfs, hss⟩ := Side.new_ti ρ hms hfrac.2.2.1 hfrac.2.2.2 t0 (TB.span N T d) o1
  have hdiv : ¬ min (a.network.pps.getD (sq.maxPps.getD usizeMax)) (2 ^ 32 - 1) = 0 := by
    unfold effPps at hpps
    have : (2 : Nat) ^ 32 - 1 ≠ 0 := by decide
    omega
  have hnew : ∃ net, Bottleneck.new a.network Gen.SIM_BOTTLENECK_WINDOW_NS sq.maxPps = .ok net ∧
      NetI (mkPar N d T t0) 0 (0 * (TB.aggD N + TB.aggD N)) net := by
    unfold Bottleneck.new
    simp only [hdiv, if_false]
    refine ⟨_, rfl, ⟨hd, Nat.div_le_self _ _, Nat.zero_le _, Nat.zero_le _, ?_, ?_, fun p hp => by cases hp⟩⟩
    · show 0 + TB.aggD N * 0 ≤ 0 * (TB.aggD N + TB.aggD N)
      omega
    · show 0 + TB.aggD N * 0 ≤ 0 * (TB.aggD N + TB.aggD N)
      omega
  obtain ⟨net, hnew, hnet⟩ := hnew
  have hinit : initState ρ mc ms sq a orc =
      .ok { sq := sq, client := c, server := s, net := net, now := t0, orc := o2 } := by
    unfold initState firstTimeE
    simp only [hft, bind, Except.bind, hc, hsv, hnew, pure, Except.pure]
  refine ⟨t0, _, hinit, hrange.1, ?_, ?_⟩
  · refine ⟨Int.le_refl _, ?_, hq.wf, hq.ord, ?_, fun c' => by cases c' <;> [exact hss t0; exact hsc t0], hnet⟩
    · show t0 ≤ (T : Int) + _
      have := hrange.2
      omega
    · intro c' qi e he
      by_cases hqi : qi = .base
      · subst hqi
        exact (hq.times c' .base e he).2
      · rw [hq.onlyBase c' qi hqi] at he
        cases he
  · intro c'
    cases c'
    · exact ⟨0, Nat.le_refl _, hfs⟩
    · exact ⟨0, Nat.le_refl _, hfc⟩

/-! ### the whole run -/

/-- **Totality of `sim_advanced` with machines** (general queue): accepted machines and
    fractions, a non-empty queue of trace packets with times in `[-d, T]`, a packets-per-second
    limit of at least 1, a cap of `N ≥ 1` iterations (`CappedAt`), and `(N + 2) · span N T d ≤ Duration::MAX`:
    the run does not fault, for every oracle. -/
theorem simAdvanced_no_fault (budget : Nat) {mc ms : List Machine} (hmc : MachinesOK mc) (hms : MachinesOK ms)
    {sq : SimQueue} {a : Args} {N d T : Nat} (hq : QueueOK sq (-(d : Int)) (T : Int))
    (hfrac : Validate.fracOK a.fpClient = true ∧ Validate.fracOK a.fbClient = true ∧
      Validate.fracOK a.fpServer = true ∧ Validate.fracOK a.fbServer = true)
    (hd : a.network.delay = d) (hpps : 1 ≤ effPps a.network sq.maxPps)
    (hcap : CappedAt a N) (hN : 0 < N) (hg : (N + 2) * TB.span N T d ≤ durMax) (orc : σ) :
    ∀ f, (simAdvanced ρ budget mc ms sq a orc).stop ≠ .fault f := by
  obtain ⟨t0, st, hi, ht0, hli⟩ := initState_LI ρ hmc hms (N := N) hq hfrac hd hpps orc
  intro f
  unfold simAdvanced
  simp only [hi]
  rw [finish_stop]
  exact loop_LI ρ a hcap ht0 hg (loopFuel a budget) st 0 0 hli hN (Or.inr rfl) f

end


/-! ### queues built by `parse_trace` -/

/-- the queue `parse_trace` builds from a non-empty trace with times up to `T` -/
theorem parseTrace_queueOK {trace : List TraceLine} (d : Nat) {T : Nat} (hne : trace ≠ [])
    (hT : ∀ l ∈ trace, l.1 ≤ T) : QueueOK (parseTrace trace d) (-(d : Int)) (T : Int) := by
  obtain ⟨hs1, hs2⟩ := parseTrace_sides trace d
  have hside := side_congr hs1 hs2
  refine ⟨(parseTrace_spec trace d).1, ?_, parseTrace_other_empty trace d, ?_, parseTrace_firstTime_some trace d hne⟩
  · intro c qi
    rw [hside]
    exact pushAll_ord _ _ empty_ord c qi
  · refine SimQueue.allE_mono (parseTrace_mem trace d) ?_
    intro e he
    simp only [List.mem_map] at he
    obtain ⟨l, hl, hle⟩ := he
    subst hle
    have := hT l hl
    unfold nsOf
    split <;> simp only [] <;> omega

/-- the packets-per-second limit `parse_trace` derives from a non-empty trace is at least 1 -/
theorem parseTrace_pps_pos {trace : List TraceLine} (d : Nat) (hne : trace ≠ []) :
    ∃ lim, (parseTrace trace d).maxPps = some lim ∧ 1 ≤ lim := by
  obtain ⟨lim, hlim, hs, hr⟩ := parseTrace_limit trace d
  refine ⟨lim, hlim, ?_⟩
  have hf : 1 ≤ Gen.SIM_PARSE_PPS_FACTOR := by decide
  cases htr : trace with
  | nil => exact absurd htr hne
  | cons l ls =>
    cases hl : l.2
    · have : rTimes trace = (l.1 : Int) :: rTimes ls := by rw [htr]; simp [rTimes, hl]
      rw [this] at hr
      have := hr 1 (feedCounts_head _ _ _)
      omega
    · have : sTimes trace = (l.1 : Int) :: sTimes ls := by rw [htr]; simp [sTimes, hl]
      rw [this] at hs
      have := hs 1 (feedCounts_head _ _ _)
      omega

theorem parseTrace_effPps {trace : List TraceLine} (d : Nat) (hne : trace ≠ []) (net : Network)
    (hpps : ∀ p, net.pps = some p → 1 ≤ p) : 1 ≤ effPps net (parseTrace trace d).maxPps := by
  unfold effPps
  cases hp : net.pps with
  | some p => exact hpps p hp
  | none =>
    obtain ⟨lim, hlim, hpos⟩ := parseTrace_pps_pos d hne
    simp [hlim, hpos]

end Mb.Sim
