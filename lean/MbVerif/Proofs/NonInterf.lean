/-
  Non-interference, the "own steps are local" half (C10).

  `Rel m i k s s'` relates a framework `s` in which machine `m` sits at index `i` to a framework
  `s'` in which the same machine sits at index `k`: same machine, same runtime, same action slot
  up to the machine id stored in the action, same framework-wide accounting. Nothing is said
  about the other machines, the random state, the log, the fault flag or the pending signal.
  Every model function run for the machine on both sides preserves `Rel` and returns the same
  value, provided the two random sources agree on what the machine can observe of them
  (`DrawAgree`).
-/
import MbVerif.Proofs.ReachMain

namespace Mb

/-- an action with the machine id removed -/
def TAction.erase : TAction → TAction
  | .cancel _ t => .cancel 0 t
  | .sendPadding t b r _ => .sendPadding t b r 0
  | .blockOutgoing t d b r _ => .blockOutgoing t d b r 0
  | .updateTimer d r _ => .updateTimer d r 0

/-- the distributions of an action -/
def Action.dists : Action → List Dist
  | .cancel _ => []
  | .sendPadding _ _ tmo l => tmo :: l.toList
  | .blockOutgoing _ _ tmo du l => tmo :: du :: l.toList
  | .updateTimer _ du l => du :: l.toList

/-- `d` is one of the distributions of machine `m` -/
def DistIn (m : Machine) (d : Dist) : Prop :=
  ∃ st, st ∈ m.states ∧
    ((∃ a, st.action = some a ∧ d ∈ a.dists) ∨
     (∃ c, (st.counterA = some c ∨ st.counterB = some c) ∧ c.dist = some d))

/-- the value `distSample` works with: the oracle's raw value unless the constant fast path applies -/
def effRaw {σ : Type} (ρ : Oracle σ) (d : Dist) (a : σ) : F64 :=
  match d.constUniform with
  | some lo => lo
  | none => (ρ.d d a).1

/-- two random sources agree on everything machine `m` can observe of them, whatever their states -/
structure DrawAgree {σ σ' : Type} (ρ : Oracle σ) (ρ' : Oracle σ') (m : Machine) : Prop where
  u : ∀ (st : State) (e : Nat) (vec : List Trans), st ∈ m.states → st.transitions[e]? = some (some vec) →
        ∀ a b, sampleState vec (ρ.u a).1 = sampleState vec (ρ'.u b).1
  d : ∀ d, DistIn m d → ∀ a b, effRaw ρ d a = effRaw ρ' d b

variable {σ σ' : Type}

/-- `t` agrees with `s` on everything that belongs to machine index `i` and on the globals -/
structure Same (i : Nat) (s t : Fw σ) : Prop where
  m : t.machines[i]? = s.machines[i]?
  rt : t.rt[i]? = s.rt[i]?
  act : t.actions[i]? = s.actions[i]?
  g : t.g = s.g

theorem Same.refl (i : Nat) (s : Fw σ) : Same i s s := ⟨rfl, rfl, rfl, rfl⟩
theorem Same.trans {i : Nat} {s t u : Fw σ} (h₁ : Same i s t) (h₂ : Same i t u) : Same i s u :=
  ⟨h₂.m.trans h₁.m, h₂.rt.trans h₁.rt, h₂.act.trans h₁.act, h₂.g.trans h₁.g⟩

theorem Same.push (i : Nat) (s : Fw σ) (e) : Same i s (s.push e) := ⟨rfl, rfl, rfl, rfl⟩
theorem Same.withFault (i : Nat) (s : Fw σ) (f) : Same i s (s.withFault f) :=
  ⟨by simp, by simp, by simp, by simp⟩
theorem Same.rng (i : Nat) (s : Fw σ) (g : σ) : Same i s { s with rng := g } := ⟨rfl, rfl, rfl, rfl⟩
theorem Same.signal (i : Nat) (s : Fw σ) (p) : Same i s { s with signalPending := p } := ⟨rfl, rfl, rfl, rfl⟩

/-- what a neighbour does leaves the machine's component alone -/
theorem Same.ofFrame {i j : Nat} {s t : Fw σ} (h : Frame j s t) (hij : i ≠ j) : Same i s t :=
  ⟨by rw [h.machines], h.rtOther i hij, h.actOther i hij, h.g⟩

structure Rel (m : Machine) (i k : Nat) (s : Fw σ) (s' : Fw σ') : Prop where
  mOK : ∀ m', s.machines[i]? = some m' → m' = m
  m : s.machines[i]? = s'.machines[k]?
  rt : s.rt[i]? = s'.rt[k]?
  act : (s.actions[i]?).map (Option.map TAction.erase) = (s'.actions[k]?).map (Option.map TAction.erase)
  g : s.g = s'.g

namespace Rel
variable {m : Machine} {i k : Nat} {s t : Fw σ} {s' t' : Fw σ'}

theorem left (h : Rel m i k s s') (hs : Same i s t) : Rel m i k t s' :=
  ⟨by rw [hs.m]; exact h.mOK, by rw [hs.m]; exact h.m, by rw [hs.rt]; exact h.rt, by rw [hs.act]; exact h.act,
   by rw [hs.g]; exact h.g⟩

theorem right (h : Rel m i k s s') (hs : Same k s' t') : Rel m i k s t' :=
  ⟨h.mOK, by rw [hs.m]; exact h.m, by rw [hs.rt]; exact h.rt, by rw [hs.act]; exact h.act,
   by rw [hs.g]; exact h.g⟩

theorem both (h : Rel m i k s s') (hs : Same i s t) (hs' : Same k s' t') : Rel m i k t t' :=
  (h.left hs).right hs'

theorem rtLt (h : Rel m i k s s') : i < s.rt.length ↔ k < s'.rt.length := by
  have := h.rt
  constructor
  · intro hi
    by_contra hk
    rw [List.getElem?_eq_getElem hi, List.getElem?_eq_none (by omega)] at this
    cases this
  · intro hk
    by_contra hi
    rw [List.getElem?_eq_getElem hk, List.getElem?_eq_none (by omega)] at this
    cases this

theorem actLt (h : Rel m i k s s') : i < s.actions.length ↔ k < s'.actions.length := by
  have := h.act
  constructor
  · intro hi
    by_contra hk
    rw [List.getElem?_eq_getElem hi, List.getElem?_eq_none (by omega)] at this
    cases this
  · intro hk
    by_contra hi
    rw [List.getElem?_eq_getElem hk, List.getElem?_eq_none (by omega)] at this
    cases this

theorem modRt (h : Rel m i k s s') (f : Runtime → Runtime) : Rel m i k (s.modRt i f) (s'.modRt k f) :=
  ⟨by simpa using h.mOK, by simpa using h.m, by rw [Fw.modRt_rt_self, Fw.modRt_rt_self, h.rt],
   by simpa using h.act, by simpa using h.g⟩

theorem setAct (h : Rel m i k s s') (a a' : Option TAction) (ha : a.map TAction.erase = a'.map TAction.erase) :
    Rel m i k { s with actions := s.actions.set i a } { s' with actions := s'.actions.set k a' } := by
  refine ⟨h.mOK, h.m, h.rt, ?_, h.g⟩
  simp only [List.getElem?_set_self']
  by_cases hi : i < s.actions.length
  · have hk := h.actLt.mp hi
    simp [hi, hk, ha]
  · have hk : ¬ k < s'.actions.length := fun hk => hi (h.actLt.mpr hk)
    simp [hi, hk]

end Rel

/-! ### sampling -/

section
variable (ρ : Oracle σ) (ρ' : Oracle σ')

theorem distSample_fst (d : Dist) (s : Fw σ) : (distSample ρ d s).1 = d.clamp (effRaw ρ d s.rng) := by
  unfold distSample effRaw
  cases ρ.d d s.rng with
  | mk raw g => rfl

theorem distSample_same (i : Nat) (d : Dist) (s : Fw σ) : Same i s (distSample ρ d s).2 := by
  unfold distSample
  exact ⟨rfl, rfl, rfl, rfl⟩

/-- the two sources agree on every distribution of action `a` -/
def AgreeA (a : Action) : Prop := ∀ d ∈ a.dists, ∀ x y, effRaw ρ d x = effRaw ρ' d y

theorem distSample_val (d : Dist) (s : Fw σ) (s' : Fw σ') (h : ∀ x y, effRaw ρ d x = effRaw ρ' d y) :
    (distSample ρ d s).1 = (distSample ρ' d s').1 := by
  rw [distSample_fst, distSample_fst, h]

theorem sampleTimeout_sim (i k : Nat) (a : Action) (s : Fw σ) (s' : Fw σ') (h : AgreeA ρ ρ' a) :
    (sampleTimeout ρ a s).1 = (sampleTimeout ρ' a s').1 ∧
    Same i s (sampleTimeout ρ a s).2 ∧ Same k s' (sampleTimeout ρ' a s').2 := by
  cases a with
  | cancel t => exact ⟨rfl, Same.refl _ _, Same.refl _ _⟩
  | updateTimer r du l => exact ⟨rfl, Same.refl _ _, Same.refl _ _⟩
  | sendPadding b r tmo l =>
    simp only [sampleTimeout]
    exact ⟨by rw [distSample_val ρ ρ' tmo s s' (h tmo (by simp [Action.dists]))],
      distSample_same ρ i tmo s, distSample_same ρ' k tmo s'⟩
  | blockOutgoing b r tmo du l =>
    simp only [sampleTimeout]
    exact ⟨by rw [distSample_val ρ ρ' tmo s s' (h tmo (by simp [Action.dists]))],
      distSample_same ρ i tmo s, distSample_same ρ' k tmo s'⟩

theorem sampleDuration_sim (i k : Nat) (a : Action) (s : Fw σ) (s' : Fw σ') (h : AgreeA ρ ρ' a) :
    (sampleDuration ρ a s).1 = (sampleDuration ρ' a s').1 ∧
    Same i s (sampleDuration ρ a s).2 ∧ Same k s' (sampleDuration ρ' a s').2 := by
  cases a with
  | cancel t => exact ⟨rfl, Same.refl _ _, Same.refl _ _⟩
  | sendPadding b r tmo l => exact ⟨rfl, Same.refl _ _, Same.refl _ _⟩
  | updateTimer r du l =>
    simp only [sampleDuration]
    exact ⟨by rw [distSample_val ρ ρ' du s s' (h du (by simp [Action.dists]))],
      distSample_same ρ i du s, distSample_same ρ' k du s'⟩
  | blockOutgoing b r tmo du l =>
    simp only [sampleDuration]
    exact ⟨by rw [distSample_val ρ ρ' du s s' (h du (by simp [Action.dists]))],
      distSample_same ρ i du s, distSample_same ρ' k du s'⟩

theorem sampleLimit_sim (i k : Nat) (a : Action) (s : Fw σ) (s' : Fw σ') (h : AgreeA ρ ρ' a) :
    (sampleLimit ρ a s).1 = (sampleLimit ρ' a s').1 ∧
    Same i s (sampleLimit ρ a s).2 ∧ Same k s' (sampleLimit ρ' a s').2 := by
  unfold sampleLimit
  cases hl : a.limit with
  | none => exact ⟨rfl, Same.refl _ _, Same.refl _ _⟩
  | some l =>
    have hmem : l ∈ a.dists := by
      cases a <;> simp [Action.limit] at hl <;> simp [Action.dists, hl]
    simp only
    exact ⟨by rw [distSample_val ρ ρ' l s s' (h l hmem)], distSample_same ρ i l s, distSample_same ρ' k l s'⟩

theorem sampleValue_sim (i k : Nat) (c : Counter) (s : Fw σ) (s' : Fw σ')
    (h : ∀ d, c.dist = some d → ∀ x y, effRaw ρ d x = effRaw ρ' d y) :
    (sampleValue ρ c s).1 = (sampleValue ρ' c s').1 ∧
    Same i s (sampleValue ρ c s).2 ∧ Same k s' (sampleValue ρ' c s').2 := by
  unfold sampleValue
  cases hd : c.dist with
  | none => exact ⟨rfl, Same.refl _ _, Same.refl _ _⟩
  | some d =>
    simp only
    exact ⟨by rw [distSample_val ρ ρ' d s s' (h d hd)], distSample_same ρ i d s, distSample_same ρ' k d s'⟩

end

/-! ### the pieces of `transition` -/

section
variable (ρ : Oracle σ) (ρ' : Oracle σ') {m : Machine} {i k : Nat}

/-- the two sources agree on all distributions of state `st` -/
def AgreeSt (st : State) : Prop :=
  (∀ a, st.action = some a → AgreeA ρ ρ' a) ∧
  (∀ c, (st.counterA = some c ∨ st.counterB = some c) → ∀ d, c.dist = some d → ∀ x y, effRaw ρ d x = effRaw ρ' d y)

theorem DrawAgree.agreeSt (hda : DrawAgree ρ ρ' m) (st : State) (hst : st ∈ m.states) : AgreeSt ρ ρ' st :=
  ⟨fun a ha d hd => hda.d d ⟨st, hst, Or.inl ⟨a, ha, hd⟩⟩,
   fun c hc d hd => hda.d d ⟨st, hst, Or.inr ⟨c, hc, hd⟩⟩⟩

theorem erase_mk (act : Action) (a b tmo dur : Nat) :
    (mkAction act a tmo dur).erase = (mkAction act b tmo dur).erase := by
  cases act <;> rfl

theorem scheduleAction_sim (hda : DrawAgree ρ ρ' m) (state : Nat) (s : Fw σ) (s' : Fw σ') (h : Rel m i k s s') :
    Rel m i k (scheduleAction ρ i state s) (scheduleAction ρ' k state s') := by
  unfold scheduleAction
  rw [← h.m]
  cases hm : s.machines[i]? with
  | none => exact h.both (Same.withFault _ _ _) (Same.withFault _ _ _)
  | some m' =>
  have hmm := h.mOK m' hm
  subst hmm
  simp only
  cases hst : m'.states[state]? with
  | none => exact h.both (Same.withFault _ _ _) (Same.withFault _ _ _)
  | some st =>
  have hag := (hda.agreeSt ρ ρ' st (List.mem_of_getElem? hst)).1
  simp only
  by_cases hlen : i ≥ s.actions.length
  · have hlen' : k ≥ s'.actions.length := by
      have := h.actLt; omega
    rw [if_pos hlen, if_pos hlen']
    exact h.both (Same.withFault _ _ _) (Same.withFault _ _ _)
  · have hlen' : ¬ k ≥ s'.actions.length := by
      have := h.actLt; omega
    rw [if_neg hlen, if_neg hlen']
    cases hact : st.action with
    | none => exact h.setAct none none rfl
    | some act =>
      have hA := hag act hact
      cases act with
      | cancel t => exact h.setAct _ _ rfl
      | sendPadding b rp tmo lim =>
        simp only
        obtain ⟨hv, h1, h2⟩ := sampleTimeout_sim ρ ρ' i k (.sendPadding b rp tmo lim) s s' hA
        have := (h.both h1 h2).setAct
          (some (.sendPadding (sampleTimeout ρ (.sendPadding b rp tmo lim) s).1 b rp i))
          (some (.sendPadding (sampleTimeout ρ' (.sendPadding b rp tmo lim) s').1 b rp k))
          (by simp [TAction.erase, hv])
        exact this
      | blockOutgoing b rp tmo du lim =>
        simp only
        obtain ⟨hv, h1, h2⟩ := sampleTimeout_sim ρ ρ' i k (.blockOutgoing b rp tmo du lim) s s' hA
        obtain ⟨hv2, h3, h4⟩ := sampleDuration_sim ρ ρ' i k (.blockOutgoing b rp tmo du lim)
          (sampleTimeout ρ (.blockOutgoing b rp tmo du lim) s).2 (sampleTimeout ρ' (.blockOutgoing b rp tmo du lim) s').2 hA
        have := (h.both (h1.trans h3) (h2.trans h4)).setAct
          (some (.blockOutgoing (sampleTimeout ρ (.blockOutgoing b rp tmo du lim) s).1
            (sampleDuration ρ (.blockOutgoing b rp tmo du lim) (sampleTimeout ρ (.blockOutgoing b rp tmo du lim) s).2).1 b rp i))
          (some (.blockOutgoing (sampleTimeout ρ' (.blockOutgoing b rp tmo du lim) s').1
            (sampleDuration ρ' (.blockOutgoing b rp tmo du lim) (sampleTimeout ρ' (.blockOutgoing b rp tmo du lim) s').2).1 b rp k))
          (by simp [TAction.erase, hv, hv2])
        exact this
      | updateTimer rp du lim =>
        simp only
        obtain ⟨hv, h1, h2⟩ := sampleDuration_sim ρ ρ' i k (.updateTimer rp du lim) s s' hA
        have := (h.both h1 h2).setAct
          (some (.updateTimer (sampleDuration ρ (.updateTimer rp du lim) s).1 rp i))
          (some (.updateTimer (sampleDuration ρ' (.updateTimer rp du lim) s').1 rp k))
          (by simp [TAction.erase, hv])
        exact this

theorem enterState_sim (hda : DrawAgree ρ ρ' m) (cur next : Nat) (s : Fw σ) (s' : Fw σ') (h : Rel m i k s s') :
    Rel m i k (enterState ρ i m cur next s) (enterState ρ' k m cur next s') := by
  unfold enterState
  by_cases hc : cur ≠ next
  · rw [if_pos hc, if_pos hc]
    simp only
    have h1 := h.modRt (fun r => { r with currentState := next })
    cases hst : m.states[next]? with
    | none => exact h1.both (Same.withFault _ _ _) (Same.withFault _ _ _)
    | some nst =>
      have hag := (hda.agreeSt ρ ρ' nst (List.mem_of_getElem? hst)).1
      simp only
      cases hact : nst.action with
      | none =>
        simp only
        exact ((h1.modRt (fun r => { r with stateLimit := STATE_LIMIT_MAX })).both (Same.push _ _ _) (Same.push _ _ _))
      | some a =>
        simp only
        obtain ⟨hv, h2, h3⟩ := sampleLimit_sim ρ ρ' i k a (s.modRt i (fun r => { r with currentState := next }))
          (s'.modRt k (fun r => { r with currentState := next })) (hag a hact)
        have h4 := (h1.both h2 h3).modRt (fun r => { r with stateLimit := (sampleLimit ρ a (s.modRt i (fun r => { r with currentState := next }))).1 })
        rw [← hv]
        exact h4.both (Same.push _ _ _) (Same.push _ _ _)
  · rw [if_neg hc, if_neg hc]; exact h

theorem zeroedAOf_sim {s : Fw σ} {s' : Fw σ'} (h : Rel m i k s s') : zeroedAOf s i = zeroedAOf s' k := by
  unfold zeroedAOf; rw [h.rt]
theorem zeroedBOf_sim {s : Fw σ} {s' : Fw σ'} (h : Rel m i k s s') : zeroedBOf s i = zeroedBOf s' k := by
  unfold zeroedBOf; rw [h.rt]
theorem counterAOf_sim {s : Fw σ} {s' : Fw σ'} (h : Rel m i k s s') : counterAOf s i = counterAOf s' k := by
  unfold counterAOf; rw [h.rt]
theorem counterBOf_sim {s : Fw σ} {s' : Fw σ'} (h : Rel m i k s s') : counterBOf s i = counterBOf s' k := by
  unfold counterBOf; rw [h.rt]

theorem storeCounterA_sim (oldA newA : Nat) (s : Fw σ) (s' : Fw σ') (h : Rel m i k s s') :
    Rel m i k (storeCounterA i oldA newA s).1 (storeCounterA k oldA newA s').1 ∧
    (storeCounterA i oldA newA s).2 = (storeCounterA k oldA newA s').2 := by
  unfold storeCounterA
  simp only
  have h1 := h.modRt (fun r => { r with counterA := newA })
  rw [zeroedAOf_sim h1]
  split
  · exact ⟨h1.modRt _, rfl⟩
  · exact ⟨h1, rfl⟩

theorem storeCounterB_sim (oldB newB : Nat) (s : Fw σ) (s' : Fw σ') (h : Rel m i k s s') :
    Rel m i k (storeCounterB i oldB newB s).1 (storeCounterB k oldB newB s').1 ∧
    (storeCounterB i oldB newB s).2 = (storeCounterB k oldB newB s').2 := by
  unfold storeCounterB
  simp only
  have h1 := h.modRt (fun r => { r with counterB := newB })
  rw [zeroedBOf_sim h1]
  split
  · exact ⟨h1.modRt _, rfl⟩
  · exact ⟨h1, rfl⟩

theorem counterOperand_sim (c : Counter) (other : Nat) (s : Fw σ) (s' : Fw σ')
    (hc : ∀ d, c.dist = some d → ∀ x y, effRaw ρ d x = effRaw ρ' d y) :
    (counterOperand ρ c other s).1 = (counterOperand ρ' c other s').1 ∧
    Same i s (counterOperand ρ c other s).2 ∧ Same k s' (counterOperand ρ' c other s').2 := by
  unfold counterOperand
  split
  · exact ⟨rfl, Same.refl _ _, Same.refl _ _⟩
  · exact sampleValue_sim ρ ρ' i k c s s' hc

theorem applyCounterA_sim (c : Option Counter) (oldA oldB : Nat) (s : Fw σ) (s' : Fw σ') (h : Rel m i k s s')
    (hc : ∀ c', c = some c' → ∀ d, c'.dist = some d → ∀ x y, effRaw ρ d x = effRaw ρ' d y) :
    Rel m i k (applyCounterA ρ i c oldA oldB s).1 (applyCounterA ρ' k c oldA oldB s').1 ∧
    (applyCounterA ρ i c oldA oldB s).2 = (applyCounterA ρ' k c oldA oldB s').2 := by
  unfold applyCounterA
  cases c with
  | none => exact ⟨h, rfl⟩
  | some c =>
    simp only
    obtain ⟨hv, h1, h2⟩ := counterOperand_sim ρ ρ' (i := i) (k := k) c oldB s s' (hc c rfl)
    rw [hv]
    exact storeCounterA_sim _ _ _ _ (h.both h1 h2)

theorem applyCounterB_sim (c : Option Counter) (oldA oldB : Nat) (s : Fw σ) (s' : Fw σ') (h : Rel m i k s s')
    (hc : ∀ c', c = some c' → ∀ d, c'.dist = some d → ∀ x y, effRaw ρ d x = effRaw ρ' d y) :
    Rel m i k (applyCounterB ρ i c oldA oldB s).1 (applyCounterB ρ' k c oldA oldB s').1 ∧
    (applyCounterB ρ i c oldA oldB s).2 = (applyCounterB ρ' k c oldA oldB s').2 := by
  unfold applyCounterB
  cases c with
  | none => exact ⟨h, rfl⟩
  | some c =>
    simp only
    obtain ⟨hv, h1, h2⟩ := counterOperand_sim ρ ρ' (i := i) (k := k) c oldA s s' (hc c rfl)
    rw [hv]
    exact storeCounterB_sim _ _ _ _ (h.both h1 h2)

theorem signalFrom_same (j i : Nat) (s : Fw σ) : Same i s (signalFrom j s) := ⟨rfl, rfl, rfl, rfl⟩

end

/-! ### `transition` / `updateCounter` -/

section
variable (ρ : Oracle σ) (ρ' : Oracle σ') {m : Machine} {i k : Nat}

theorem sim_main (hda : DrawAgree ρ ρ' m) (fuel : Nat) :
    (∀ ev (s : Fw σ) (s' : Fw σ'), Rel m i k s s' →
      Rel m i k (transition ρ fuel i ev s).1 (transition ρ' fuel k ev s').1 ∧
      (transition ρ fuel i ev s).2 = (transition ρ' fuel k ev s').2) ∧
    (∀ (s : Fw σ) (s' : Fw σ'), Rel m i k s s' →
      Rel m i k (updateCounter ρ fuel i s).1 (updateCounter ρ' fuel k s').1 ∧
      (updateCounter ρ fuel i s).2 = (updateCounter ρ' fuel k s').2) := by
  induction fuel with
  | zero =>
    refine ⟨fun ev s s' h => ?_, fun s s' h => ?_⟩
    · rw [transition, transition]; exact ⟨h.both (Same.withFault _ _ _) (Same.withFault _ _ _), rfl⟩
    · rw [updateCounter, updateCounter]; exact ⟨h.both (Same.withFault _ _ _) (Same.withFault _ _ _), rfl⟩
  | succ n ih =>
    obtain ⟨ihT, ihU⟩ := ih
    refine ⟨fun ev s s' h => ?_, fun s s' h => ?_⟩
    · -- transition
      rw [transition, transition, ← h.rt, ← h.m]
      cases hr : s.rt[i]? with
      | none => exact ⟨h.both (Same.withFault _ _ _) (Same.withFault _ _ _), rfl⟩
      | some r =>
      cases hm : s.machines[i]? with
      | none => exact ⟨h.both (Same.withFault _ _ _) (Same.withFault _ _ _), rfl⟩
      | some m' =>
      have hmm := h.mOK m' hm
      subst hmm
      simp only []
      have h0 : Rel m' i k (s.push (.trans i ev.toNat r.currentState)) (s'.push (.trans k ev.toNat r.currentState)) :=
        h.both (Same.push _ _ _) (Same.push _ _ _)
      by_cases hend : r.currentState = STATE_END
      · rw [if_pos hend, if_pos hend]; exact ⟨h0, rfl⟩
      · rw [if_neg hend, if_neg hend]
        cases hst : m'.states[r.currentState]? with
        | none => exact ⟨h0.both (Same.withFault _ _ _) (Same.withFault _ _ _), rfl⟩
        | some st =>
        simp only []
        cases htr : st.transitions[ev.toNat]? with
        | none => exact ⟨h0.both (Same.withFault _ _ _) (Same.withFault _ _ _), rfl⟩
        | some ov =>
        cases ov with
        | none => exact ⟨h0, rfl⟩
        | some vec =>
        simp only []
        have hu := hda.u st ev.toNat vec (List.mem_of_getElem? hst) htr
          (s.push (.trans i ev.toNat r.currentState)).rng (s'.push (.trans k ev.toNat r.currentState)).rng
        rw [← hu]
        have h1 : Rel m' i k
            (({ s.push (.trans i ev.toNat r.currentState) with
                rng := (ρ.u (s.push (.trans i ev.toNat r.currentState)).rng).2 }).push
              (.draw (ρ.u (s.push (.trans i ev.toNat r.currentState)).rng).1))
            (({ s'.push (.trans k ev.toNat r.currentState) with
                rng := (ρ'.u (s'.push (.trans k ev.toNat r.currentState)).rng).2 }).push
              (.draw (ρ'.u (s'.push (.trans k ev.toNat r.currentState)).rng).1)) :=
          h0.both ((Same.rng _ _ _).trans (Same.push _ _ _)) ((Same.rng _ _ _).trans (Same.push _ _ _))
        cases hss : sampleState vec (ρ.u (s.push (.trans i ev.toNat r.currentState)).rng).1 with
        | none => exact ⟨h1, rfl⟩
        | some next =>
        simp only []
        have h2 := h1.both (Same.push i _ (.sampled i ev.toNat next)) (Same.push k _ (.sampled k ev.toNat next))
        by_cases hne : next = STATE_END
        · rw [if_pos hne, if_pos hne]; exact ⟨h2.modRt _, rfl⟩
        · rw [if_neg hne, if_neg hne]
          by_cases hns : next = STATE_SIGNAL
          · rw [if_pos hns, if_pos hns]
            exact ⟨h2.both (signalFrom_same _ _ _) (signalFrom_same _ _ _), rfl⟩
          · rw [if_neg hns, if_neg hns]
            have h3 := enterState_sim ρ ρ' hda r.currentState next _ _ h2
            generalize enterState ρ i m' r.currentState next _ = sa at h3 ⊢
            generalize enterState ρ' k m' r.currentState next _ = sb at h3 ⊢
            rw [← h3.rt]
            cases hr1 : sa.rt[i]? with
            | none => exact ⟨h3.both (Same.withFault _ _ _) (Same.withFault _ _ _), rfl⟩
            | some r1 =>
            simp only []
            rw [← h3.g]
            cases hbl : belowActionLimits sa.g r1 m' with
            | none => exact ⟨h3.both (Same.withFault _ _ _) (Same.withFault _ _ _), rfl⟩
            | some below =>
            simp only []
            obtain ⟨h4, hv4⟩ := ihU sa sb h3
            rw [← hv4]
            generalize updateCounter ρ n i sa = ra at h4 ⊢
            generalize updateCounter ρ' n k sb = rb at h4 ⊢
            have h5 : Rel m' i k (if ra.2.1 && below then scheduleAction ρ i next ra.1 else ra.1)
                (if ra.2.1 && below then scheduleAction ρ' k next rb.1 else rb.1) := by
              split
              · exact scheduleAction_sim ρ ρ' hda next _ _ h4
              · exact h4
            generalize (if ra.2.1 && below then scheduleAction ρ i next ra.1 else ra.1) = sc at h5 ⊢
            generalize (if ra.2.1 && below then scheduleAction ρ' k next rb.1 else rb.1) = sd at h5 ⊢
            rw [← h5.rt]
            cases hr2 : sc.rt[i]? with
            | none => exact ⟨h5.both (Same.withFault _ _ _) (Same.withFault _ _ _), rfl⟩
            | some r2 => exact ⟨h5, rfl⟩
    · -- updateCounter
      rw [updateCounter, updateCounter, ← h.rt, ← h.m]
      cases hr : s.rt[i]? with
      | none => exact ⟨h.both (Same.withFault _ _ _) (Same.withFault _ _ _), rfl⟩
      | some r =>
      cases hm : s.machines[i]? with
      | none => exact ⟨h.both (Same.withFault _ _ _) (Same.withFault _ _ _), rfl⟩
      | some m' =>
      have hmm := h.mOK m' hm
      subst hmm
      simp only []
      cases hst : m'.states[r.currentState]? with
      | none => exact ⟨h.both (Same.withFault _ _ _) (Same.withFault _ _ _), rfl⟩
      | some st =>
      simp only []
      have hag := (hda.agreeSt ρ ρ' st (List.mem_of_getElem? hst)).2
      obtain ⟨ha, hva⟩ := applyCounterA_sim ρ ρ' st.counterA r.counterA r.counterB s s' h
        (fun c' hc' => hag c' (Or.inl hc'))
      rw [← hva]
      generalize applyCounterA ρ i st.counterA r.counterA r.counterB s = ra at ha ⊢
      generalize applyCounterA ρ' k st.counterA r.counterA r.counterB s' = ra' at ha ⊢
      obtain ⟨hb, hvb⟩ := applyCounterB_sim ρ ρ' st.counterB r.counterA r.counterB ra.1 ra'.1 ha
        (fun c' hc' => hag c' (Or.inr hc'))
      rw [← hvb]
      generalize applyCounterB ρ i st.counterB r.counterA r.counterB ra.1 = rb at hb ⊢
      generalize applyCounterB ρ' k st.counterB r.counterA r.counterB ra'.1 = rb' at hb ⊢
      have hs2 : Rel m' i k (rb.1.push (.counter i r.counterA (counterAOf rb.1 i) r.counterB (counterBOf rb.1 i)))
          (rb'.1.push (.counter k r.counterA (counterAOf rb'.1 k) r.counterB (counterBOf rb'.1 k))) :=
        hb.both (Same.push _ _ _) (Same.push _ _ _)
      by_cases hz : (ra.2 || rb.2) = true
      · rw [if_pos hz, if_pos hz]
        obtain ⟨h6, hv6⟩ := ihT .counterZero _ _ hs2
        rw [← hv6]
        generalize transition ρ n i .counterZero _ = ta at h6 ⊢
        generalize transition ρ' n k .counterZero _ = tb at h6 ⊢
        have hact := h6.act
        cases ha1 : ta.1.actions[i]? with
        | none =>
          rw [ha1] at hact
          cases ha2 : tb.1.actions[k]? with
          | none => exact ⟨h6.both (Same.withFault _ _ _) (Same.withFault _ _ _), rfl⟩
          | some b => rw [ha2] at hact; cases hact
        | some a =>
          rw [ha1] at hact
          cases ha2 : tb.1.actions[k]? with
          | none => rw [ha2] at hact; cases hact
          | some b =>
            rw [ha2] at hact
            simp only [Option.map_some, Option.some.injEq] at hact
            refine ⟨h6, ?_⟩
            cases a <;> cases b <;> simp_all
      · rw [if_neg hz, if_neg hz]; exact ⟨hs2, rfl⟩

theorem transition_sim (hda : DrawAgree ρ ρ' m) (fuel : Nat) (ev : Event) (s : Fw σ) (s' : Fw σ')
    (h : Rel m i k s s') :
    Rel m i k (transition ρ fuel i ev s).1 (transition ρ' fuel k ev s').1 ∧
    (transition ρ fuel i ev s).2 = (transition ρ' fuel k ev s').2 :=
  (sim_main ρ ρ' hda fuel).1 ev s s' h

end

/-! ### limit decrement, neighbours, folds over the machines -/

section
variable (ρ : Oracle σ) (ρ' : Oracle σ') {m : Machine} {i k : Nat}

theorem decrementLimit_sim (hda : DrawAgree ρ ρ' m) (s : Fw σ) (s' : Fw σ') (h : Rel m i k s s') :
    Rel m i k (decrementLimit ρ i s) (decrementLimit ρ' k s') := by
  unfold decrementLimit
  rw [← h.rt, ← h.m]
  cases hr : s.rt[i]? with
  | none => exact h.both (Same.withFault _ _ _) (Same.withFault _ _ _)
  | some r =>
  cases hm : s.machines[i]? with
  | none => exact h.both (Same.withFault _ _ _) (Same.withFault _ _ _)
  | some m' =>
  have hmm := h.mOK m' hm
  subst hmm
  simp only []
  generalize (if r.stateLimit > 0 then r.stateLimit - 1 else r.stateLimit) = lim
  have h1 : Rel m' i k ((s.modRt i (fun r' => { r' with stateLimit := lim })).push (.limit i lim true))
      ((s'.modRt k (fun r' => { r' with stateLimit := lim })).push (.limit k lim true)) :=
    (h.modRt _).both (Same.push _ _ _) (Same.push _ _ _)
  cases hst : m'.states[r.currentState]? with
  | none => exact h1.both (Same.withFault _ _ _) (Same.withFault _ _ _)
  | some st =>
  simp only []
  cases hact : st.action with
  | none => exact h1
  | some a =>
  simp only []
  by_cases hc : (lim = 0 && a.hasLimit) = true
  · rw [if_pos hc, if_pos hc]
    by_cases hlen : i ≥ ((s.modRt i (fun r' => { r' with stateLimit := lim })).push (.limit i lim true)).actions.length
    · have hlen' : k ≥ ((s'.modRt k (fun r' => { r' with stateLimit := lim })).push (.limit k lim true)).actions.length := by
        have := h1.actLt; omega
      rw [if_pos hlen, if_pos hlen']
      exact h1.both (Same.withFault _ _ _) (Same.withFault _ _ _)
    · have hlen' : ¬ k ≥ ((s'.modRt k (fun r' => { r' with stateLimit := lim })).push (.limit k lim true)).actions.length := by
        have := h1.actLt; omega
      rw [if_neg hlen, if_neg hlen']
      exact (transition_sim ρ ρ' hda FUEL .limitReached _ _ (h1.setAct none none rfl)).1
  · rw [if_neg hc, if_neg hc]; exact h1

theorem notEnded_sim {s : Fw σ} {s' : Fw σ'} (h : Rel m i k s s') : notEnded s i = notEnded s' k := by
  unfold notEnded; rw [h.rt]

/-- a neighbour's transition leaves the component of machine `i` alone -/
theorem transition_other (fuel j : Nat) (ev : Event) (s : Fw σ) (hij : i ≠ j) :
    Same i s (transition ρ fuel j ev s).1 :=
  Same.ofFrame (transition_reach ρ fuel j ev s).frame hij

theorem decrementLimit_other (j : Nat) (s : Fw σ) (hij : i ≠ j) : Same i s (decrementLimit ρ j s) :=
  Same.ofFrame (decrementLimit_reach ρ j s).frame hij

theorem modRt_other (j : Nat) (f : Runtime → Runtime) (s : Fw σ) (hij : i ≠ j) : Same i s (s.modRt j f) :=
  ⟨by simp, Fw.modRt_rt_other s j i f hij, by simp, by simp⟩

end

/-- a fold whose steps for `j ≠ i` leave the component of `i` alone -/
theorem fold_same {i : Nat} (F : Fw σ → Nat → Fw σ) (hF : ∀ s j, j ≠ i → Same i s (F s j))
    (l : List Nat) (hl : i ∉ l) (s : Fw σ) : Same i s (l.foldl F s) := by
  induction l generalizing s with
  | nil => exact Same.refl _ _
  | cons j t ih =>
    simp only [List.mem_cons, not_or] at hl
    exact (hF s j (Ne.symm hl.1)).trans (ih hl.2 _)

/-- a fold over a duplicate-free list containing `i` is: steps that leave `i` alone, the step for
    `i`, steps that leave `i` alone -/
theorem fold_split {i : Nat} (F : Fw σ → Nat → Fw σ) (hF : ∀ s j, j ≠ i → Same i s (F s j))
    (l : List Nat) (hnd : l.Nodup) (hl : i ∈ l) (s : Fw σ) :
    ∃ a, Same i s a ∧ Same i (F a i) (l.foldl F s) := by
  induction l generalizing s with
  | nil => cases hl
  | cons j t ih =>
    rw [List.nodup_cons] at hnd
    by_cases hj : j = i
    · subst hj
      exact ⟨s, Same.refl _ _, fold_same F hF t hnd.1 _⟩
    · have hit : i ∈ t := by
        rcases List.mem_cons.mp hl with h | h
        · exact absurd h.symm hj
        · exact h
      obtain ⟨a, h1, h2⟩ := ih hnd.2 hit (F s j)
      exact ⟨a, (hF s j hj).trans h1, h2⟩

theorem fold_sim {m : Machine} {i k : Nat} (F : Fw σ → Nat → Fw σ) (F' : Fw σ' → Nat → Fw σ')
    (hF : ∀ s j, j ≠ i → Same i s (F s j)) (hF' : ∀ s j, j ≠ k → Same k s (F' s j))
    (hFF : ∀ s s', Rel m i k s s' → Rel m i k (F s i) (F' s' k))
    (n n' : Nat) (hn : i < n ↔ k < n') (s : Fw σ) (s' : Fw σ') (h : Rel m i k s s') :
    Rel m i k ((List.range n).foldl F s) ((List.range n').foldl F' s') := by
  by_cases hi : i < n
  · have hk := hn.mp hi
    obtain ⟨a, h1, h2⟩ := fold_split F hF (List.range n) List.nodup_range (List.mem_range.mpr hi) s
    obtain ⟨a', h1', h2'⟩ := fold_split F' hF' (List.range n') List.nodup_range (List.mem_range.mpr hk) s'
    exact (hFF a a' (h.both h1 h1')).both h2 h2'
  · have hk : ¬ k < n' := fun hk => hi (hn.mpr hk)
    exact h.both (fold_same F hF _ (by simpa using hi) s) (fold_same F' hF' _ (by simpa using hk) s')

/-! ### events -/

/-- rename the machine ids carried by events -/
def mapEv (f : Nat → Nat) : TEvent → TEvent
  | .paddingSent x => .paddingSent (f x)
  | .blockingBegin x => .blockingBegin (f x)
  | .timerBegin x => .timerBegin (f x)
  | .timerEnd x => .timerEnd (f x)
  | .normalRecv => .normalRecv
  | .paddingRecv => .paddingRecv
  | .tunnelRecv => .tunnelRecv
  | .normalSent => .normalSent
  | .tunnelSent => .tunnelSent
  | .blockingEnd => .blockingEnd

section
variable (ρ : Oracle σ) (ρ' : Oracle σ') {m : Machine} {i k : Nat}

theorem trans_dec_sim (hda : DrawAgree ρ ρ' m) (ev : Event) (s : Fw σ) (s' : Fw σ') (h : Rel m i k s s')
    (c : Fw σ × Bool → Bool) (c' : Fw σ' × Bool → Bool)
    (hc : ∀ (a : Fw σ) (a' : Fw σ') b, Rel m i k a a' → c (a, b) = c' (a', b)) :
    Rel m i k
      (if c (transition ρ FUEL i ev s) = true then decrementLimit ρ i (transition ρ FUEL i ev s).1
       else (transition ρ FUEL i ev s).1)
      (if c' (transition ρ' FUEL k ev s') = true then decrementLimit ρ' k (transition ρ' FUEL k ev s').1
       else (transition ρ' FUEL k ev s').1) := by
  obtain ⟨h1, hv⟩ := transition_sim ρ ρ' hda FUEL ev s s' h
  have hcc : c (transition ρ FUEL i ev s) = c' (transition ρ' FUEL k ev s') :=
    calc c (transition ρ FUEL i ev s)
        = c' ((transition ρ' FUEL k ev s').1, (transition ρ FUEL i ev s).2) :=
          hc (transition ρ FUEL i ev s).1 (transition ρ' FUEL k ev s').1 (transition ρ FUEL i ev s).2 h1
      _ = c' (transition ρ' FUEL k ev s') := by rw [hv]
  rw [hcc]
  split
  · exact decrementLimit_sim ρ ρ' hda _ _ h1
  · exact h1

theorem trans_dec_other (j : Nat) (ev : Event) (s : Fw σ) (hij : i ≠ j) (c : Fw σ × Bool → Bool) :
    Same i s
      (if c (transition ρ FUEL j ev s) = true then decrementLimit ρ j (transition ρ FUEL j ev s).1
       else (transition ρ FUEL j ev s).1) := by
  split
  · exact (transition_other ρ FUEL j ev s hij).trans (decrementLimit_other ρ j _ hij)
  · exact transition_other ρ FUEL j ev s hij

theorem Rel.setG {s : Fw σ} {s' : Fw σ'} (h : Rel m i k s s') (F : Globals → Globals) :
    Rel m i k { s with g := F s.g } { s' with g := F s'.g } :=
  ⟨h.mOK, h.m, h.rt, h.act, by simp [h.g]⟩

theorem transitionAll_sim (hda : DrawAgree ρ ρ' m) (ev : Event) (s : Fw σ) (s' : Fw σ') (h : Rel m i k s s') :
    Rel m i k (transitionAll ρ ev s) (transitionAll ρ' ev s') := by
  unfold transitionAll
  exact fold_sim _ _ (fun s j hj => transition_other ρ FUEL j ev s (Ne.symm hj))
    (fun s j hj => transition_other ρ' FUEL j ev s (Ne.symm hj))
    (fun a a' ha => (transition_sim ρ ρ' hda FUEL ev a a' ha).1) _ _ h.rtLt s s' h

theorem blockingEnd_acct_sim (blocked : Nat) (s : Fw σ) (s' : Fw σ') (h : Rel m i k s s') :
    Rel m i k
      (if blocked ≠ 0 then
        match s.rt[i]? with
        | none => s.withFault .oob
        | some r =>
          (if r.acct.blockingDur + blocked > durMax then s.withFault .durOverflow else s).modRt i
            (fun r => { r with acct := { r.acct with blockingDur := r.acct.blockingDur + blocked } })
      else s)
      (if blocked ≠ 0 then
        match s'.rt[k]? with
        | none => s'.withFault .oob
        | some r =>
          (if r.acct.blockingDur + blocked > durMax then s'.withFault .durOverflow else s').modRt k
            (fun r => { r with acct := { r.acct with blockingDur := r.acct.blockingDur + blocked } })
      else s') := by
  by_cases hb : blocked ≠ 0
  · rw [if_pos hb, if_pos hb, ← h.rt]
    cases hr : s.rt[i]? with
    | none => exact h.both (Same.withFault _ _ _) (Same.withFault _ _ _)
    | some r =>
      simp only []
      refine Rel.modRt ?_ _
      split
      · exact h.both (Same.withFault _ _ _) (Same.withFault _ _ _)
      · exact h
  · rw [if_neg hb, if_neg hb]; exact h

theorem blockingEnd_acct_other (j blocked : Nat) (s : Fw σ) (hij : i ≠ j) :
    Same i s
      (if blocked ≠ 0 then
        match s.rt[j]? with
        | none => s.withFault .oob
        | some r =>
          (if r.acct.blockingDur + blocked > durMax then s.withFault .durOverflow else s).modRt j
            (fun r => { r with acct := { r.acct with blockingDur := r.acct.blockingDur + blocked } })
      else s) := by
  split
  · split
    · exact Same.withFault _ _ _
    · refine Same.trans ?_ (modRt_other j _ _ hij)
      split
      · exact Same.withFault _ _ _
      · exact Same.refl _ _
  · exact Same.refl _ _

theorem processEvent_sim (hda : DrawAgree ρ ρ' m) (f : Nat → Nat) (hf : ∀ x, x = i ↔ f x = k)
    (e : TEvent) (s : Fw σ) (s' : Fw σ') (h : Rel m i k s s') :
    Rel m i k (processEvent ρ e s) (processEvent ρ' (mapEv f e) s') := by
  cases e with
  | normalRecv => exact transitionAll_sim ρ ρ' hda _ s s' h
  | paddingRecv => exact transitionAll_sim ρ ρ' hda _ s s' h
  | tunnelRecv => exact transitionAll_sim ρ ρ' hda _ s s' h
  | tunnelSent => exact transitionAll_sim ρ ρ' hda _ s s' h
  | normalSent =>
    simp only [processEvent, mapEv]
    have h1 := h.setG (fun g => { g with normalSent := g.normalSent + 1 })
    refine fold_sim _ _ (fun a j hj => ?_) (fun a j hj => ?_) (fun a a' ha => ?_) _ _ h1.rtLt _ _ h1
    · exact (modRt_other j _ a (Ne.symm hj)).trans (transition_other ρ FUEL j _ _ (Ne.symm hj))
    · exact (modRt_other j _ a (Ne.symm hj)).trans (transition_other ρ' FUEL j _ _ (Ne.symm hj))
    · exact (transition_sim ρ ρ' hda FUEL _ _ _ (ha.modRt _)).1
  | paddingSent x =>
    simp only [processEvent, mapEv]
    have h1 := h.setG (fun g => { g with paddingSent := g.paddingSent + 1 })
    generalize ({ s with g := { s.g with paddingSent := s.g.paddingSent + 1 } } : Fw σ) = a at h1 ⊢
    generalize ({ s' with g := { s'.g with paddingSent := s'.g.paddingSent + 1 } } : Fw σ') = a' at h1 ⊢
    by_cases hx : x = i
    · have hx' : f x = k := (hf x).mp hx
      subst hx
      rw [hx']
      by_cases hlen : x ≥ s.rt.length
      · have hlen' : k ≥ s'.rt.length := by have := h.rtLt; omega
        rw [if_pos hlen, if_pos hlen']; exact h1
      · have hlen' : ¬ k ≥ s'.rt.length := by have := h.rtLt; omega
        rw [if_neg hlen, if_neg hlen']
        exact trans_dec_sim ρ ρ' hda .paddingSent _ _ (h1.modRt _)
          (fun p => !p.2 && notEnded p.1 x) (fun p => !p.2 && notEnded p.1 k)
          (fun b b' c hb => by simp only [notEnded_sim hb])
    · have hx' : f x ≠ k := fun hfx => hx ((hf x).mpr hfx)
      refine h1.both ?_ ?_
      · split
        · exact Same.refl _ _
        · exact (modRt_other x _ a (Ne.symm hx)).trans
            (trans_dec_other ρ x .paddingSent _ (Ne.symm hx) (fun p => !p.2 && notEnded p.1 x))
      · split
        · exact Same.refl _ _
        · exact (modRt_other (f x) _ a' (Ne.symm hx')).trans
            (trans_dec_other ρ' (f x) .paddingSent _ (Ne.symm hx') (fun p => !p.2 && notEnded p.1 (f x)))
  | blockingBegin x =>
    simp only [processEvent, mapEv]
    have h1 : Rel m i k
        (if !s.g.blockingActive then { s with g := { s.g with blockingActive := true, blockingStarted := s.g.now } } else s)
        (if !s'.g.blockingActive then { s' with g := { s'.g with blockingActive := true, blockingStarted := s'.g.now } } else s') := by
      have hb : s'.g.blockingActive = s.g.blockingActive := by rw [h.g]
      rw [hb]
      split
      · exact h.setG (fun g => { g with blockingActive := true, blockingStarted := g.now })
      · exact h
    refine fold_sim _ _ (fun a j hj => ?_) (fun a j hj => ?_) (fun a a' ha => ?_) _ _ h1.rtLt _ _ h1
    · exact trans_dec_other ρ j .blockingBegin a (Ne.symm hj) (fun p => !p.2 && notEnded p.1 j && j == x)
    · exact trans_dec_other ρ' j .blockingBegin a (Ne.symm hj) (fun p => !p.2 && notEnded p.1 j && j == f x)
    · refine trans_dec_sim ρ ρ' hda .blockingBegin a a' ha
        (fun p => !p.2 && notEnded p.1 i && i == x) (fun p => !p.2 && notEnded p.1 k && k == f x)
        (fun b b' c hb => ?_)
      have he : (i == x) = (k == f x) := by
        by_cases hx : x = i
        · have := (hf x).mp hx; subst hx; simp [this]
        · have hx' : f x ≠ k := fun hfx => hx ((hf x).mpr hfx)
          simp [Ne.symm hx, Ne.symm hx']
      simp only [notEnded_sim hb, he]
  | blockingEnd =>
    simp only [processEvent, mapEv]
    rw [← h.g]
    generalize (if s.g.blockingActive then durSince s.g.now s.g.blockingStarted else 0) = blocked
    have h1 : Rel m i k
        (if s.g.blockingActive then
          { (if s.g.blockingDur + blocked > durMax then s.withFault .durOverflow else s) with
            g := { (if s.g.blockingDur + blocked > durMax then s.withFault .durOverflow else s).g with
              blockingDur := (if s.g.blockingDur + blocked > durMax then s.withFault .durOverflow else s).g.blockingDur + blocked,
              blockingActive := false } }
         else s)
        (if s.g.blockingActive then
          { (if s.g.blockingDur + blocked > durMax then s'.withFault .durOverflow else s') with
            g := { (if s.g.blockingDur + blocked > durMax then s'.withFault .durOverflow else s').g with
              blockingDur := (if s.g.blockingDur + blocked > durMax then s'.withFault .durOverflow else s').g.blockingDur + blocked,
              blockingActive := false } }
         else s') := by
      split
      · have h2 : Rel m i k (if s.g.blockingDur + blocked > durMax then s.withFault .durOverflow else s)
            (if s.g.blockingDur + blocked > durMax then s'.withFault .durOverflow else s') := by
          split
          · exact h.both (Same.withFault _ _ _) (Same.withFault _ _ _)
          · exact h
        exact h2.setG (fun g => { g with blockingDur := g.blockingDur + blocked, blockingActive := false })
      · exact h
    refine fold_sim _ _ (fun a j hj => ?_) (fun a j hj => ?_) (fun a a' ha => ?_) _ _ h1.rtLt _ _ h1
    · exact (blockingEnd_acct_other j blocked a (Ne.symm hj)).trans (transition_other ρ FUEL j _ _ (Ne.symm hj))
    · exact (blockingEnd_acct_other j blocked a (Ne.symm hj)).trans (transition_other ρ' FUEL j _ _ (Ne.symm hj))
    · exact (transition_sim ρ ρ' hda FUEL _ _ _ (blockingEnd_acct_sim blocked a a' ha)).1
  | timerBegin x =>
    simp only [processEvent, mapEv]
    by_cases hx : x = i
    · have hx' : f x = k := (hf x).mp hx
      subst hx
      rw [hx']
      by_cases hlen : x ≥ s.rt.length
      · have hlen' : k ≥ s'.rt.length := by have := h.rtLt; omega
        rw [if_pos hlen, if_pos hlen']; exact h
      · have hlen' : ¬ k ≥ s'.rt.length := by have := h.rtLt; omega
        rw [if_neg hlen, if_neg hlen']
        exact trans_dec_sim ρ ρ' hda .timerBegin _ _ h
          (fun p => !p.2 && notEnded p.1 x) (fun p => !p.2 && notEnded p.1 k)
          (fun b b' c hb => by simp only [notEnded_sim hb])
    · have hx' : f x ≠ k := fun hfx => hx ((hf x).mpr hfx)
      refine h.both ?_ ?_
      · split
        · exact Same.refl _ _
        · exact trans_dec_other ρ x .timerBegin _ (Ne.symm hx) (fun p => !p.2 && notEnded p.1 x)
      · split
        · exact Same.refl _ _
        · exact trans_dec_other ρ' (f x) .timerBegin _ (Ne.symm hx') (fun p => !p.2 && notEnded p.1 (f x))
  | timerEnd x =>
    simp only [processEvent, mapEv]
    by_cases hx : x = i
    · have hx' : f x = k := (hf x).mp hx
      subst hx
      rw [hx']
      by_cases hlen : x ≥ s.rt.length
      · have hlen' : k ≥ s'.rt.length := by have := h.rtLt; omega
        rw [if_pos hlen, if_pos hlen']; exact h
      · have hlen' : ¬ k ≥ s'.rt.length := by have := h.rtLt; omega
        rw [if_neg hlen, if_neg hlen']
        exact (transition_sim ρ ρ' hda FUEL _ _ _ h).1
    · have hx' : f x ≠ k := fun hfx => hx ((hf x).mpr hfx)
      refine h.both ?_ ?_
      · split
        · exact Same.refl _ _
        · exact transition_other ρ FUEL x _ _ (Ne.symm hx)
      · split
        · exact Same.refl _ _
        · exact transition_other ρ' FUEL (f x) _ _ (Ne.symm hx')

end

/-! ### the signal round: a machine without transitions on Signal is not affected -/

/-- no state of `m` has a transition on the Signal event -/
def NoSigTrans (m : Machine) : Prop :=
  ∀ st ∈ m.states, ∀ vec, st.transitions[Event.signal.toNat]? ≠ some (some vec)

section
variable (ρ : Oracle σ) {i : Nat}

theorem transition_signal_same (M : Option Machine) (hM : ∀ m', M = some m' → NoSigTrans m')
    (fuel : Nat) (s : Fw σ) (hs : s.machines[i]? = M) : Same i s (transition ρ fuel i .signal s).1 := by
  cases fuel with
  | zero => rw [transition]; exact Same.withFault _ _ _
  | succ n =>
    rw [transition]
    cases hr : s.rt[i]? with
    | none => exact Same.withFault _ _ _
    | some r =>
    cases hm : s.machines[i]? with
    | none => exact Same.withFault _ _ _
    | some m' =>
    have hns := hM m' (by rw [← hs, hm])
    simp only []
    split
    · exact Same.push _ _ _
    · cases hst : m'.states[r.currentState]? with
      | none => exact (Same.push _ _ _).trans (Same.withFault _ _ _)
      | some st =>
        simp only []
        cases htr : st.transitions[Event.signal.toNat]? with
        | none => exact (Same.push _ _ _).trans (Same.withFault _ _ _)
        | some ov =>
          cases ov with
          | none => exact Same.push _ _ _
          | some vec => exact absurd htr (hns st (List.mem_of_getElem? hst) vec)

/-- a fold all of whose steps leave the component of `i` alone, as long as machine `i` is `M` -/
theorem fold_same_all (M : Option Machine) (F : Fw σ → Nat → Fw σ)
    (hF : ∀ s j, s.machines[i]? = M → Same i s (F s j)) (l : List Nat) (s : Fw σ) (hs : s.machines[i]? = M) :
    Same i s (l.foldl F s) := by
  induction l generalizing s with
  | nil => exact Same.refl _ _
  | cons j t ih =>
    have h1 := hF s j hs
    exact h1.trans (ih _ (by rw [h1.m]; exact hs))

theorem signalFold_same (M : Option Machine) (hM : ∀ m', M = some m' → NoSigTrans m')
    (excluded : Option Nat) (n : Nat) (s : Fw σ) (hs : s.machines[i]? = M) :
    Same i s ((List.range n).foldl (fun s mi =>
      if (excluded == some mi) = true then s else (transition ρ FUEL mi .signal s).1) s) := by
  refine fold_same_all M _ (fun a j ha => ?_) _ _ hs
  split
  · exact Same.refl _ _
  · by_cases hj : j = i
    · subst hj; exact transition_signal_same ρ M hM FUEL a ha
    · exact Same.ofFrame (transition_reach ρ FUEL j .signal a).frame (Ne.symm hj)

theorem signalRound_same (M : Option Machine) (hM : ∀ m', M = some m' → NoSigTrans m')
    (s : Fw σ) (hs : s.machines[i]? = M) : Same i s (signalRound ρ s) := by
  unfold signalRound
  cases hsig : s.signalPending with
  | none => exact Same.refl _ _
  | some sig =>
    have h1 : Same i s { s with signalPending := none } := Same.signal _ _ _
    cases sig with
    | all =>
      simp only []
      have h3 := h1.trans (signalFold_same ρ M hM none s.rt.length { s with signalPending := none } hs)
      generalize ((List.range s.rt.length).foldl (fun s mi =>
          if ((none : Option Nat) == some mi) = true then s else (transition ρ FUEL mi .signal s).1)
          ({ s with signalPending := none } : Fw σ)) = s2 at h3 ⊢
      cases hs2 : s2.signalPending with
      | none => exact h3
      | some _ => exact h3.trans (Same.signal _ _ _)
    | allExcept x =>
      simp only []
      have h3 := h1.trans (signalFold_same ρ M hM (some x) s.rt.length { s with signalPending := none } hs)
      generalize ((List.range s.rt.length).foldl (fun s mi =>
          if (some x == some mi) = true then s else (transition ρ FUEL mi .signal s).1)
          ({ s with signalPending := none } : Fw σ)) = s2 at h3 ⊢
      have hm2 : s2.machines[i]? = M := by rw [h3.m]; exact hs
      cases hs2 : s2.signalPending with
      | none => exact h3
      | some _ =>
        simp only []
        refine (h3.trans (Same.signal i s2 none)).trans ?_
        by_cases hx : x = i
        · subst hx; exact transition_signal_same ρ M hM FUEL _ hm2
        · exact Same.ofFrame (transition_reach ρ FUEL x .signal _).frame (Ne.symm hx)

end

/-! ### whole calls and histories -/

section
variable (ρ : Oracle σ) (ρ' : Oracle σ') {m : Machine} {i k : Nat}

theorem callStart_sim (t : Int) (s : Fw σ) (s' : Fw σ') (h : Rel m i k s s') :
    Rel m i k (s.callStart t) (s'.callStart t) := by
  refine ⟨h.mOK, h.m, ?_, ?_, ?_⟩
  · simp only [Fw.callStart, List.getElem?_map, h.rt]
  · simp only [Fw.callStart, List.getElem?_map]
    have := h.act
    cases ha : s.actions[i]? <;> cases hb : s'.actions[k]? <;> simp_all
  · simp only [Fw.callStart, h.g]

theorem events_sim (hda : DrawAgree ρ ρ' m) (f : Nat → Nat) (hf : ∀ x, x = i ↔ f x = k)
    (es : List TEvent) (s : Fw σ) (s' : Fw σ') (h : Rel m i k s s') :
    Rel m i k (es.foldl (fun s e => processEvent ρ e s) s)
      ((es.map (mapEv f)).foldl (fun s e => processEvent ρ' e s) s') := by
  induction es generalizing s s' with
  | nil => exact h
  | cons e es ih => exact ih _ _ (processEvent_sim ρ ρ' hda f hf e s s' h)

theorem triggerEvents_sim (hda : DrawAgree ρ ρ' m) (hns : NoSigTrans m) (f : Nat → Nat) (hf : ∀ x, x = i ↔ f x = k)
    (es : List TEvent) (t : Int) (s : Fw σ) (s' : Fw σ') (h : Rel m i k s s') :
    Rel m i k (triggerEvents ρ es t s) (triggerEvents ρ' (es.map (mapEv f)) t s') := by
  unfold triggerEvents
  have h1 := events_sim ρ ρ' hda f hf es _ _ (callStart_sim t s s' h)
  refine h1.both (signalRound_same ρ _ (fun m' hm' => ?_) _ rfl) (signalRound_same ρ' _ (fun m' hm' => ?_) _ rfl)
  · rw [h1.mOK m' hm']; exact hns
  · rw [h1.mOK m' (by rw [h1.m]; exact hm')]; exact hns

/-- rename the machine ids in a history -/
def mapHist (f : Nat → Nat) (h : List Call) : List Call := h.map (fun c => (c.1.map (mapEv f), c.2))

theorem runCalls_sim (hda : DrawAgree ρ ρ' m) (hns : NoSigTrans m) (f : Nat → Nat) (hf : ∀ x, x = i ↔ f x = k)
    (hist : List Call) (s : Fw σ) (s' : Fw σ') (h : Rel m i k s s') :
    Rel m i k (runCalls ρ s hist) (runCalls ρ' s' (mapHist f hist)) := by
  unfold runCalls mapHist
  induction hist generalizing s s' with
  | nil => exact h
  | cons c cs ih => exact ih _ _ (triggerEvents_sim ρ ρ' hda hns f hf c.1 c.2 s s' h)

/-! ### construction -/

theorem initLimit_other (j : Nat) (s : Fw σ) (hij : i ≠ j) : Same i s (initLimit ρ s j) := by
  unfold initLimit
  split
  · exact Same.withFault _ _ _
  · split
    · exact Same.withFault _ _ _
    · split
      · exact Same.refl _ _
      · next a _ =>
        have h1 : Same i s (sampleLimit ρ a s).2 := by
          unfold sampleLimit
          split
          · exact Same.refl _ _
          · exact distSample_same ρ i _ s
        exact h1.trans (modRt_other j _ _ hij)

theorem initLimit_sim (hda : DrawAgree ρ ρ' m) (s : Fw σ) (s' : Fw σ') (h : Rel m i k s s') :
    Rel m i k (initLimit ρ s i) (initLimit ρ' s' k) := by
  unfold initLimit
  rw [← h.m]
  cases hm : s.machines[i]? with
  | none => exact h.both (Same.withFault _ _ _) (Same.withFault _ _ _)
  | some m' =>
  have hmm := h.mOK m' hm
  subst hmm
  simp only []
  cases hst : m'.states[0]? with
  | none => exact h.both (Same.withFault _ _ _) (Same.withFault _ _ _)
  | some st =>
  simp only []
  cases hact : st.action with
  | none => exact h
  | some a =>
    simp only []
    obtain ⟨hv, h1, h2⟩ := sampleLimit_sim ρ ρ' i k a s s'
      ((hda.agreeSt ρ ρ' st (List.mem_of_getElem? hst)).1 a hact)
    rw [← hv]
    exact (h.both h1 h2).modRt _

theorem init0_rel (ms ms' : List Machine) (hm : ms[i]? = some m) (hm' : ms'[k]? = some m)
    (fp fb : F64) (t0 : Int) (rng : σ) (rng' : σ') :
    Rel m i k (Fw.init0 ms fp fb t0 rng) (Fw.init0 ms' fp fb t0 rng') := by
  refine ⟨fun m'' h => ?_, ?_, ?_, ?_, rfl⟩
  · simp only [Fw.init0] at h; rw [hm] at h; exact (Option.some.inj h).symm
  · simp only [Fw.init0, hm, hm']
  · simp only [Fw.init0, List.getElem?_map, hm, hm']
  · simp only [Fw.init0, List.getElem?_map, hm, hm']

theorem init_sim (hda : DrawAgree ρ ρ' m) (ms ms' : List Machine) (hm : ms[i]? = some m) (hm' : ms'[k]? = some m)
    (fp fb : F64) (t0 : Int) (rng : σ) (rng' : σ') :
    Rel m i k (Fw.init ρ ms fp fb t0 rng) (Fw.init ρ' ms' fp fb t0 rng') := by
  unfold Fw.init
  refine fold_sim (initLimit ρ) (initLimit ρ') (fun s j hj => initLimit_other ρ j s (Ne.symm hj))
    (fun s j hj => initLimit_other ρ' j s (Ne.symm hj)) (fun a a' ha => initLimit_sim ρ ρ' hda a a' ha)
    _ _ ?_ _ _ (init0_rel ms ms' hm hm' fp fb t0 rng rng')
  have h1 : i < ms.length := by
    by_contra h; rw [List.getElem?_eq_none (by omega)] at hm; cases hm
  have h2 : k < ms'.length := by
    by_contra h; rw [List.getElem?_eq_none (by omega)] at hm'; cases hm'
  exact ⟨fun _ => h2, fun _ => h1⟩

end

end Mb
