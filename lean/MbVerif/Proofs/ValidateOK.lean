/-
  What validation establishes structurally: `MachineOK`.
-/
import MbVerif.Proofs.SafeCall

namespace Mb
open Validate

theorem transLoop_targets (n : Nat) : ∀ (ts : List Trans) (seen : List Nat) (sum : FV) (r : FV),
    transLoop n ts seen sum = some r →
    ∀ t ∈ ts, t.target < n ∨ t.target = STATE_END ∨ t.target = STATE_SIGNAL := by
  intro ts
  induction ts with
  | nil => intro _ _ _ _ t ht; simp at ht
  | cons t0 ts ih =>
    intro seen sum r h t ht
    simp only [transLoop] at h
    split at h
    · cases h
    · next hc1 =>
      split at h
      · cases h
      · split at h
        · cases h
        · simp only [List.mem_cons] at ht
          rcases ht with rfl | ht
          · simp only [Bool.and_eq_true, decide_eq_true_eq, bne_iff_ne, ne_eq, not_and, Classical.not_not] at hc1
            by_cases hlt : t.target < n
            · exact Or.inl hlt
            · have hge : t.target ≥ n := Nat.le_of_not_lt hlt
              by_cases he : t.target = STATE_END
              · exact Or.inr (Or.inl he)
              · exact Or.inr (Or.inr (hc1 ⟨hge, he⟩))
          · exact ih _ _ _ h t ht

theorem machineOK_of_validate (m : Machine) (hv : Validate.machine m = true)
    (hshape : ∀ st ∈ m.states, st.transitions.length = EVENT_NUM) : MachineOK m := by
  unfold Validate.machine at hv
  simp only [] at hv
  split at hv
  · cases hv
  · split at hv
    · cases hv
    · split at hv
      · cases hv
      · next hne =>
        split at hv
        · cases hv
        · next hmax =>
          refine ⟨?_, hshape, ?_, by omega⟩
          · have : m.states.length ≠ 0 := by simpa using hne
            omega
          · intro st hst e vec hvec t ht
            rw [List.all_eq_true] at hv
            have hs := hv st hst
            unfold Validate.state at hs
            simp only [Bool.and_eq_true] at hs
            have hall := hs.1.1.1
            rw [List.all_eq_true] at hall
            have := hall (some vec) (List.mem_of_getElem? hvec)
            simp only [] at this
            unfold transVec at this
            cases hl : transLoop m.states.length vec [] zero with
            | none => rw [hl] at this; cases this
            | some r => exact transLoop_targets _ _ _ _ _ hl t ht

end Mb
