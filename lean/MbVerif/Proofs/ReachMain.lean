/-
  `transition`, `updateCounter`, `decrementLimit` are sequences of primitive steps.
-/
import MbVerif.Proofs.Reach

namespace Mb
variable {σ : Type} (ρ : Oracle σ)

theorem enterState_cur (mi : Nat) (m : Machine) (cur next : Nat) (s : Fw σ) (r : Runtime)
    (hr : s.rt[mi]? = some r) (hc : r.currentState = cur) :
    ∃ r1, (enterState ρ mi m cur next s).rt[mi]? = some r1 ∧ r1.currentState = next := by
  unfold enterState
  split
  · simp only
    have hA : (s.modRt mi (fun r => { r with currentState := next })).rt[mi]?
        = some { r with currentState := next } := by
      rw [Fw.modRt_rt_self, hr]; rfl
    split
    · exact ⟨_, by simpa using hA, rfl⟩
    · split
      · next a _ =>
        obtain ⟨hrl, _⟩ := sampleLimit_spec ρ mi a (s.modRt mi (fun r => { r with currentState := next }))
        refine ⟨{ r with currentState := next, stateLimit :=
          (sampleLimit ρ a (s.modRt mi (fun r => { r with currentState := next }))).1 }, ?_, rfl⟩
        rw [Fw.push_rt, Fw.modRt_rt_self, hrl.rt, hA]; rfl
      · refine ⟨{ r with currentState := next, stateLimit := STATE_LIMIT_MAX }, ?_, rfl⟩
        rw [Fw.push_rt, Fw.modRt_rt_self, hA]; rfl
  · next h =>
    have : cur = next := by
      by_cases h' : cur = next
      · exact h'
      · exact absurd h' (by simpa using h)
    exact ⟨r, hr, by rw [hc, this]⟩

theorem reach_main (fuel : Nat) :
    (∀ mi ev (s : Fw σ), Reach mi s (transition ρ fuel mi ev s).1) ∧
    (∀ mi (s : Fw σ), Reach mi s (updateCounter ρ fuel mi s).1) := by
  induction fuel with
  | zero =>
    refine ⟨fun mi ev s => ?_, fun mi s => ?_⟩
    · simp only [transition]; exact Reach.single (Step.fault s _)
    · simp only [updateCounter]; exact Reach.single (Step.fault s _)
  | succ n ih =>
    obtain ⟨ihT, ihU⟩ := ih
    refine ⟨fun mi ev s => ?_, fun mi s => ?_⟩
    · -- transition
      rw [transition]
      cases hr : s.rt[mi]? with
      | none => simp only []; exact Reach.single (Step.fault s _)
      | some r =>
      cases hm : s.machines[mi]? with
      | none => simp only []; exact Reach.single (Step.fault s _)
      | some m =>
      simp only []
      have h0 : Reach mi s (s.push (.trans mi ev.toNat r.currentState)) := Reach.single (Step.push s _)
      split
      · exact h0
      · cases hst : m.states[r.currentState]? with
        | none => simp only []; exact Reach.tail h0 (Step.fault _ _)
        | some st =>
        simp only []
        cases hvec : st.transitions[ev.toNat]? with
        | none => simp only []; exact Reach.tail h0 (Step.fault _ _)
        | some ov =>
        cases ov with
        | none => simp only []; exact h0
        | some vec =>
        simp only []
        have h1 : Reach mi s (({ (s.push (.trans mi ev.toNat r.currentState)) with
            rng := (ρ.u (s.push (.trans mi ev.toNat r.currentState)).rng).2 }).push
              (.draw (ρ.u (s.push (.trans mi ev.toNat r.currentState)).rng).1)) :=
          Reach.tail (Reach.tail h0 (Step.rng _ _)) (Step.push _ _)
        generalize hs1 : (({ (s.push (.trans mi ev.toNat r.currentState)) with
            rng := (ρ.u (s.push (.trans mi ev.toNat r.currentState)).rng).2 }).push
              (.draw (ρ.u (s.push (.trans mi ev.toNat r.currentState)).rng).1)) = s1 at h1 ⊢
        have hs1m : s1.machines = s.machines := by subst hs1; rfl
        have hs1r : s1.rt = s.rt := by subst hs1; rfl
        cases hss : sampleState vec (ρ.u (s.push (.trans mi ev.toNat r.currentState)).rng).1 with
        | none => simp only []; exact h1
        | some next =>
        simp only []
        have h2 : Reach mi s (s1.push (.sampled mi ev.toNat next)) := Reach.tail h1 (Step.push _ _)
        generalize hs2 : s1.push (.sampled mi ev.toNat next) = s2 at h2 ⊢
        have hs2m : s2.machines = s.machines := by subst hs2; simpa using hs1m
        have hs2r : s2.rt = s.rt := by subst hs2; simpa using hs1r
        obtain ⟨t, htv, htx⟩ := sampleState_mem _ _ _ hss
        have hT0 : ∃ (m : Machine) (r : Runtime) (st : State) (ev : Nat) (vec : List Trans) (t : Trans),
            s2.machines[mi]? = some m ∧ s2.rt[mi]? = some r ∧ m.states[r.currentState]? = some st ∧
            st.transitions[ev]? = some (some vec) ∧ t ∈ vec ∧ t.target = next :=
          ⟨m, r, st, ev.toNat, vec, t, by rw [hs2m]; exact hm, by rw [hs2r]; exact hr, hst, hvec, htv, htx⟩
        split
        · next hend =>
          subst hend
          exact Reach.tail h2 (Step.setState _ _ ⟨hT0, by decide⟩)
        · split
          · exact Reach.tail h2 (Step.signal _ _)
          · next hsig =>
            have hT : TargetOK s2 mi next := ⟨hT0, hsig⟩
            have h3 := h2.trans (enterState_reach ρ mi m r.currentState next s2 hT)
            obtain ⟨r1', hr1', hr1c⟩ := enterState_cur ρ mi m r.currentState next s2 r (by rw [hs2r]; exact hr) rfl
            generalize hs3 : enterState ρ mi m r.currentState next s2 = s3 at h3 hr1' ⊢
            rw [hr1']
            simp only []
            cases hb : belowActionLimits s3.g r1' m with
            | none => simp only []; exact Reach.tail h3 (Step.fault _ _)
            | some below =>
            simp only []
            have h4 := h3.trans (ihU mi s3)
            have hf4 := (ihU mi s3).frame
            have hf3 := h3.frame
            -- the scheduling branch
            have h5 : Reach mi s (if ((updateCounter ρ n mi s3).2.1 && below) = true
                then scheduleAction ρ mi next (updateCounter ρ n mi s3).1 else (updateCounter ρ n mi s3).1) := by
              split
              · next hcond =>
                have hbelow : below = true := by
                  cases below <;> simp_all
                have hm4 : (updateCounter ρ n mi s3).1.machines[mi]? = some m := by
                  rw [hf4.machines, hf3.machines]; exact hm
                have hacct := hf4.acct
                rw [hr1'] at hacct
                cases hr4 : (updateCounter ρ n mi s3).1.rt[mi]? with
                | none => rw [hr4] at hacct; simp at hacct
                | some r4 =>
                  rw [hr4] at hacct
                  have hacct' : r4.acct = r1'.acct := by simpa using hacct
                  refine h4.trans (scheduleAction_reach ρ mi next _ m r4 hm4 hr4 ?_)
                  intro st' act hst' hact
                  exact ⟨r1', st', hacct'.symm, hr1c, hst', hact, by rw [hf4.g, hb, hbelow]⟩
              · exact h4
            generalize hs5 : (if ((updateCounter ρ n mi s3).2.1 && below) = true
                then scheduleAction ρ mi next (updateCounter ρ n mi s3).1 else (updateCounter ρ n mi s3).1) = s5 at h5 ⊢
            cases hr5 : s5.rt[mi]? with
            | none => simp only []; exact Reach.tail h5 (Step.fault _ _)
            | some r2 => simp only []; exact h5
    · -- updateCounter
      rw [updateCounter]
      cases hr : s.rt[mi]? with
      | none => simp only []; exact Reach.single (Step.fault s _)
      | some r =>
      cases hm : s.machines[mi]? with
      | none => simp only []; exact Reach.single (Step.fault s _)
      | some m =>
      simp only []
      cases hst : m.states[r.currentState]? with
      | none => simp only []; exact Reach.single (Step.fault s _)
      | some st =>
      simp only []
      have hA := applyCounterA_reach ρ mi st.counterA r.counterA r.counterB s
      have hB := Reach.tail (hA.trans (applyCounterB_reach ρ mi st.counterB r.counterA r.counterB _))
        (Step.push _ (.counter mi r.counterA
          (counterAOf (applyCounterB ρ mi st.counterB r.counterA r.counterB
            (applyCounterA ρ mi st.counterA r.counterA r.counterB s).1).1 mi) r.counterB
          (counterBOf (applyCounterB ρ mi st.counterB r.counterA r.counterB
            (applyCounterA ρ mi st.counterA r.counterA r.counterB s).1).1 mi)))
      split
      · have hT := hB.trans (ihT mi .counterZero _)
        split
        · exact Reach.tail hT (Step.fault _ _)
        · exact hT
      · exact hB


theorem transition_reach (fuel mi : Nat) (ev : Event) (s : Fw σ) :
    Reach mi s (transition ρ fuel mi ev s).1 := (reach_main ρ fuel).1 mi ev s

theorem updateCounter_reach (fuel mi : Nat) (s : Fw σ) :
    Reach mi s (updateCounter ρ fuel mi s).1 := (reach_main ρ fuel).2 mi s

theorem decrementLimit_reach (mi : Nat) (s : Fw σ) : Reach mi s (decrementLimit ρ mi s) := by
  unfold decrementLimit
  cases hr : s.rt[mi]? with
  | none => simp only []; exact Reach.single (Step.fault s _)
  | some r =>
  cases hm : s.machines[mi]? with
  | none => simp only []; exact Reach.single (Step.fault s _)
  | some m =>
  simp only []
  generalize (if r.stateLimit > 0 then r.stateLimit - 1 else r.stateLimit) = lim
  have h1 : Reach mi s ((s.modRt mi (fun r' => { r' with stateLimit := lim })).push (.limit mi lim true)) :=
    Reach.tail (Reach.single (Step.setLimit s _)) (Step.push _ _)
  cases hst : m.states[r.currentState]? with
  | none => simp only []; exact Reach.tail h1 (Step.fault _ _)
  | some st =>
  simp only []
  cases hact : st.action with
  | none => simp only []; exact h1
  | some a =>
  simp only []
  by_cases hc : (lim = 0 && a.hasLimit) = true
  · rw [if_pos hc]
    by_cases hlen : mi ≥ ((s.modRt mi (fun r' => { r' with stateLimit := lim })).push (.limit mi lim true)).actions.length
    · rw [if_pos hlen]; exact Reach.tail h1 (Step.fault _ _)
    · rw [if_neg hlen]
      have hlen' : mi < ((s.modRt mi (fun r' => { r' with stateLimit := lim })).push (.limit mi lim true)).actions.length := by omega
      exact (Reach.tail h1 (Step.clear _ hlen')).trans (transition_reach ρ _ _ _ _)
  · rw [if_neg hc]; exact h1

/-! ### whole calls -/

/-- primitive changes at the level of a call: steps for any machine, accounting updates, call start -/
inductive Prim : Fw σ → Fw σ → Prop
  | step (mi : Nat) {s t : Fw σ} (h : Step mi s t) : Prim s t
  | setG (s : Fw σ) (g' : Globals) : Prim s { s with g := g' }
  | setAcct (s : Fw σ) (mi : Nat) (a : RtAcct) :
      Prim s (s.modRt mi (fun r => { r with acct := a }))
  | callStart (s : Fw σ) (t : Int) : Prim s (s.callStart t)

inductive Run : Fw σ → Fw σ → Prop
  | refl (s : Fw σ) : Run s s
  | tail {s t u : Fw σ} : Run s t → Prim t u → Run s u

namespace Run

theorem trans {s t u : Fw σ} (h₁ : Run s t) (h₂ : Run t u) : Run s u := by
  induction h₂ with
  | refl => exact h₁
  | tail _ st ih => exact Run.tail ih st

theorem single {s t : Fw σ} (h : Prim s t) : Run s t := Run.tail (Run.refl s) h

theorem ofReach {mi : Nat} {s t : Fw σ} (h : Reach mi s t) : Run s t := by
  induction h with
  | refl => exact Run.refl _
  | tail _ st ih => exact Run.tail ih (Prim.step mi st)

/-- an invariant preserved by every primitive change holds after any run -/
theorem inv (I : Fw σ → Prop) (hprim : ∀ s t, I s → Prim s t → I t)
    {s t : Fw σ} (h : Run s t) (hs : I s) : I t := by
  induction h with
  | refl => exact hs
  | tail _ st ih => exact hprim _ _ ih st

theorem foldl {α : Type} (f : Fw σ → α → Fw σ) (hf : ∀ s a, Run s (f s a)) (l : List α) (s : Fw σ) :
    Run s (l.foldl f s) := by
  induction l generalizing s with
  | nil => exact Run.refl s
  | cons a l ih => exact (hf s a).trans (ih (f s a))

end Run

theorem transitionAll_run (ev : Event) (s : Fw σ) : Run s (transitionAll ρ ev s) := by
  unfold transitionAll
  exact Run.foldl _ (fun s mi => Run.ofReach (transition_reach ρ _ mi ev s)) _ _

theorem withFault_run (s : Fw σ) (f : Fault) : Run s (s.withFault f) :=
  Run.single (Prim.step 0 (Step.fault s f))

/-- a runtime update that only touches the accounting part is an accounting primitive -/
theorem modRt_acct_run (s : Fw σ) (mi : Nat) (f : Runtime → Runtime)
    (hf : ∀ r, f r = { r with acct := (f r).acct }) : Run s (s.modRt mi f) := by
  cases hr : s.rt[mi]? with
  | none =>
    have : s.modRt mi f = s.withFault .oob := by unfold Fw.modRt; simp [hr]
    rw [this]; exact withFault_run s _
  | some r =>
    have h1 : s.modRt mi f = s.modRt mi (fun r' => { r' with acct := (f r).acct }) := by
      rw [Fw.modRt_of_some s mi f r hr, Fw.modRt_of_some s mi _ r hr, hf r]
    rw [h1]; exact Run.single (Prim.setAcct s mi _)

theorem blockingEnd_acct_run (s : Fw σ) (mi blocked : Nat) :
    Run s (if blocked ≠ 0 then
        match s.rt[mi]? with
        | none => s.withFault .oob
        | some r =>
          (if r.acct.blockingDur + blocked > durMax then s.withFault .durOverflow else s).modRt mi
            (fun r => { r with acct := { r.acct with blockingDur := r.acct.blockingDur + blocked } })
      else s) := by
  by_cases hb : blocked ≠ 0
  · rw [if_pos hb]
    cases hr : s.rt[mi]? with
    | none => exact withFault_run _ _
    | some r =>
      simp only []
      refine Run.trans ?_ (modRt_acct_run _ mi
        (fun r => { r with acct := { r.acct with blockingDur := r.acct.blockingDur + blocked } }) (fun _ => rfl))
      split
      · exact withFault_run _ _
      · exact Run.refl _
  · rw [if_neg hb]; exact Run.refl _

theorem trans_dec_run (mi : Nat) (ev : Event) (s : Fw σ) (c : Fw σ × Bool → Bool) :
    Run s (if c (transition ρ FUEL mi ev s) = true then decrementLimit ρ mi (transition ρ FUEL mi ev s).1
           else (transition ρ FUEL mi ev s).1) := by
  have h := Run.ofReach (transition_reach ρ FUEL mi ev s)
  split
  · exact h.trans (Run.ofReach (decrementLimit_reach ρ mi _))
  · exact h

theorem processEvent_run (e : TEvent) (s : Fw σ) : Run s (processEvent ρ e s) := by
  unfold processEvent
  cases e with
  | normalRecv => exact transitionAll_run ρ _ s
  | paddingRecv => exact transitionAll_run ρ _ s
  | tunnelRecv => exact transitionAll_run ρ _ s
  | tunnelSent => exact transitionAll_run ρ _ s
  | normalSent =>
    simp only []
    refine (Run.single (Prim.setG s { s.g with normalSent := s.g.normalSent + 1 })).trans
      (Run.foldl _ (fun s mi => ?_) _ _)
    exact (modRt_acct_run s mi
      (fun r => { r with acct := { r.acct with normalSent := r.acct.normalSent + 1 } }) (fun _ => rfl)).trans
      (Run.ofReach (transition_reach ρ _ mi _ _))
  | paddingSent mi =>
    simp only []
    refine (Run.single (Prim.setG s { s.g with paddingSent := s.g.paddingSent + 1 })).trans ?_
    split
    · exact Run.refl _
    · refine (modRt_acct_run _ mi
        (fun r => { r with acct := { r.acct with paddingSent := r.acct.paddingSent + 1 } }) (fun _ => rfl)).trans ?_
      exact trans_dec_run ρ mi .paddingSent _ (fun p => !p.2 && notEnded p.1 mi)
  | blockingBegin m =>
    simp only []
    have h1 : Run s (if !s.g.blockingActive then
        { s with g := { s.g with blockingActive := true, blockingStarted := s.g.now } } else s) := by
      split
      · exact Run.single (Prim.setG s _)
      · exact Run.refl s
    refine h1.trans (Run.foldl _ (fun s mi => ?_) _ _)
    exact trans_dec_run ρ mi .blockingBegin _ (fun p => !p.2 && notEnded p.1 mi && mi == m)
  | blockingEnd =>
    simp only []
    have h1 : Run s (if s.g.blockingActive then
        (let s' := if s.g.blockingDur + (if s.g.blockingActive then durSince s.g.now s.g.blockingStarted else 0) > durMax
            then s.withFault .durOverflow else s
         { s' with g := { s'.g with blockingDur := s'.g.blockingDur +
            (if s.g.blockingActive then durSince s.g.now s.g.blockingStarted else 0), blockingActive := false } })
        else s) := by
      split
      · simp only []
        refine Run.trans ?_ (Run.single (Prim.setG _ _))
        split
        · exact withFault_run _ _
        · exact Run.refl _
      · exact Run.refl s
    refine h1.trans (Run.foldl _ (fun s mi => ?_) _ _)
    exact (blockingEnd_acct_run s mi _).trans (Run.ofReach (transition_reach ρ _ mi _ _))
  | timerBegin mi =>
    simp only []
    split
    · exact Run.refl _
    · exact trans_dec_run ρ mi .timerBegin _ (fun p => !p.2 && notEnded p.1 mi)
  | timerEnd mi =>
    simp only []
    split
    · exact Run.refl _
    · exact Run.ofReach (transition_reach ρ _ mi _ _)


theorem signalFold_run (excluded : Option Nat) (s : Fw σ) (n : Nat) :
    Run s ((List.range n).foldl (fun s mi =>
      if (excluded == some mi) = true then s else (transition ρ FUEL mi .signal s).1) s) := by
  refine Run.foldl _ (fun s mi => ?_) _ _
  split
  · exact Run.refl _
  · exact Run.ofReach (transition_reach ρ _ _ _ _)

theorem signalRound_run (s : Fw σ) : Run s (signalRound ρ s) := by
  unfold signalRound
  cases hsig : s.signalPending with
  | none => exact Run.refl s
  | some sig =>
    have h1 : Run s { s with signalPending := none } := Run.single (Prim.step 0 (Step.signal s none))
    cases sig with
    | all =>
      simp only []
      have h3 := h1.trans (signalFold_run ρ none { s with signalPending := none } s.rt.length)
      generalize ((List.range s.rt.length).foldl (fun s mi =>
          if ((none : Option Nat) == some mi) = true then s else (transition ρ FUEL mi .signal s).1)
          ({ s with signalPending := none } : Fw σ)) = s2 at h3 ⊢
      refine h3.trans ?_
      cases hs2 : s2.signalPending with
      | none => exact Run.refl _
      | some _ => exact Run.single (Prim.step 0 (Step.signal s2 none))
    | allExcept x =>
      simp only []
      have h3 := h1.trans (signalFold_run ρ (some x) { s with signalPending := none } s.rt.length)
      generalize ((List.range s.rt.length).foldl (fun s mi =>
          if (some x == some mi) = true then s else (transition ρ FUEL mi .signal s).1)
          ({ s with signalPending := none } : Fw σ)) = s2 at h3 ⊢
      refine h3.trans ?_
      cases hs2 : s2.signalPending with
      | none => exact Run.refl _
      | some _ =>
        exact (Run.single (Prim.step 0 (Step.signal s2 none))).trans (Run.ofReach (transition_reach ρ _ _ _ _))

theorem triggerEvents_run (es : List TEvent) (t : Int) (s : Fw σ) : Run s (triggerEvents ρ es t s) := by
  unfold triggerEvents
  refine (Run.single (Prim.callStart s t)).trans ?_
  refine Run.trans (Run.foldl _ (fun s e => processEvent_run ρ e s) _ _) (signalRound_run ρ _)

theorem runCalls_run (s : Fw σ) (h : List Call) : Run s (runCalls ρ s h) := by
  unfold runCalls
  exact Run.foldl _ (fun s (c : Call) => triggerEvents_run ρ c.1 c.2 s) _ _

end Mb
