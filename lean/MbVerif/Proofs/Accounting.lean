/-
  Refinement: the accounting fields of the framework model after a call are exactly the pure
  accounting function `Acct.call` of the reported events and time.
-/
import MbVerif.Proofs.SlotGate
import MbVerif.Spec.Accounting

namespace Mb
variable {σ : Type} (ρ : Oracle σ)

/-- accounting of machine `i` -/
def acctAt (s : Fw σ) (i : Nat) : Option RtAcct := (s.rt[i]?).map (·.acct)

/-- same globals, same per-machine accounting, same number of machines -/
structure SameAcct (s t : Fw σ) : Prop where
  g : t.g = s.g
  len : t.rt.length = s.rt.length
  at_ : ∀ i, acctAt t i = acctAt s i

theorem SameAcct.refl (s : Fw σ) : SameAcct s s := ⟨rfl, rfl, fun _ => rfl⟩
theorem SameAcct.trans {s t u : Fw σ} (h₁ : SameAcct s t) (h₂ : SameAcct t u) : SameAcct s u :=
  ⟨h₂.g.trans h₁.g, h₂.len.trans h₁.len, fun i => (h₂.at_ i).trans (h₁.at_ i)⟩

theorem SameAcct.ofFrame {mi : Nat} {s t : Fw σ} (h : Frame mi s t) : SameAcct s t := by
  refine ⟨h.g, h.rtLen, fun i => ?_⟩
  unfold acctAt
  by_cases hi : i = mi
  · subst hi; exact h.acct
  · rw [h.rtOther i hi]

theorem walkSameAcct : WalkCore ρ (SameAcct (σ := σ)) where
  refl := SameAcct.refl
  trans := SameAcct.trans
  transition j ev s _ := SameAcct.ofFrame (transition_reach ρ FUEL j ev s).frame
  decrement j s _ := SameAcct.ofFrame (decrementLimit_reach ρ j s).frame
  fault s f := ⟨by simp, by simp, fun i => by simp [acctAt]⟩
  signal _ _ := ⟨rfl, rfl, fun _ => rfl⟩

theorem acctAt_modRt_self (s : Fw σ) (k : Nat) (f : Runtime → Runtime) :
    acctAt (s.modRt k f) k = (s.rt[k]?).map (fun r => (f r).acct) := by
  unfold acctAt; rw [Fw.modRt_rt_self]; cases s.rt[k]? <;> rfl

theorem acctAt_modRt_other (s : Fw σ) (k i : Nat) (f : Runtime → Runtime) (h : i ≠ k) :
    acctAt (s.modRt k f) i = acctAt s i := by
  unfold acctAt; rw [Fw.modRt_rt_other s k i f h]

/-- the accounting state as a function on indices determines `Acct.ofFw` -/
theorem ofFw_eq {s : Fw σ} {g : Globals} {as : List RtAcct} (hg : s.g = g) (hlen : s.rt.length = as.length)
    (hat : ∀ i, acctAt s i = as[i]?) : Acct.ofFw s = (g, as) := by
  unfold Acct.ofFw
  rw [hg]
  congr 1
  apply List.ext_getElem?
  intro i
  rw [List.getElem?_map]
  exact hat i

theorem acctAt_ofFw (s : Fw σ) (i : Nat) : acctAt s i = (Acct.ofFw s).2[i]? := by
  unfold acctAt Acct.ofFw; simp [List.getElem?_map]

/-- loop invariant of a per-machine loop that applies `f i` to machine `i`'s accounting and then
    runs transitions for machine `i` -/
structure AcctLoop (g : Globals) (as : List RtAcct) (f : Nat → RtAcct → RtAcct) (k : Nat) (s : Fw σ) : Prop where
  g : s.g = g
  len : s.rt.length = as.length
  at_ : ∀ i, acctAt s i = if i < k then (as[i]?).map (f i) else as[i]?

theorem AcctLoop.finish {g : Globals} {as : List RtAcct} {f : Nat → RtAcct → RtAcct} {s : Fw σ}
    (h : AcctLoop g as f as.length s) : Acct.ofFw s = (g, as.mapIdx f) := by
  refine ofFw_eq h.g (by simp [h.len]) (fun i => ?_)
  rw [h.at_ i, List.getElem?_mapIdx]
  by_cases hi : i < as.length
  · simp [hi]
  · simp [hi, List.getElem?_eq_none (Nat.le_of_not_lt hi)]

/-- `u` is `s` with machine `k`'s accounting replaced by `f` of it -/
structure AcctBump (f : RtAcct → RtAcct) (k : Nat) (s u : Fw σ) : Prop where
  g : u.g = s.g
  len : u.rt.length = s.rt.length
  self : acctAt u k = (acctAt s k).map f
  other : ∀ i, i ≠ k → acctAt u i = acctAt s i

theorem AcctBump.modRt (s : Fw σ) (k : Nat) (F : Runtime → Runtime) (f : RtAcct → RtAcct)
    (hF : ∀ r, (F r).acct = f r.acct) : AcctBump f k s (s.modRt k F) := by
  refine ⟨by simp, by simp, ?_, fun i hi => acctAt_modRt_other s k i F hi⟩
  rw [acctAt_modRt_self]; unfold acctAt
  cases s.rt[k]? <;> simp [hF]

theorem AcctBump.id (s : Fw σ) (k : Nat) : AcctBump (fun a => a) k s s :=
  ⟨rfl, rfl, by cases h : acctAt s k <;> simp, fun _ _ => rfl⟩

theorem AcctBump.sameAcct {f : RtAcct → RtAcct} {k : Nat} {s u v : Fw σ} (h : AcctBump f k s u) (h2 : SameAcct u v) :
    AcctBump f k s v :=
  ⟨h2.g.trans h.g, h2.len.trans h.len, (h2.at_ k).trans h.self, fun i hi => (h2.at_ i).trans (h.other i hi)⟩

theorem AcctBump.ofSameAcct {f : RtAcct → RtAcct} {k : Nat} {s s' u : Fw σ} (h2 : SameAcct s s') (h : AcctBump f k s' u) :
    AcctBump f k s u :=
  ⟨h.g.trans h2.g, h.len.trans h2.len, by rw [h.self, h2.at_ k], fun i hi => by rw [h.other i hi, h2.at_ i]⟩

theorem AcctLoop.step {g : Globals} {as : List RtAcct} {f : Nat → RtAcct → RtAcct} {k : Nat} {s t : Fw σ}
    (h : AcctLoop g as f k s) (hb : AcctBump (f k) k s t) : AcctLoop g as f (k + 1) t := by
  refine ⟨by rw [hb.g]; exact h.g, by rw [hb.len]; exact h.len, fun i => ?_⟩
  by_cases hi : i = k
  · subst hi
    rw [hb.self, h.at_ i]
    simp only [Nat.lt_irrefl, if_false, Nat.lt_succ_self, if_true]
  · rw [hb.other i hi, h.at_ i]
    have : (i < k + 1) = (i < k) := by
      apply propext; constructor <;> intro h' <;> omega
    simp only [this]

theorem AcctLoop.init (s : Fw σ) (f : Nat → RtAcct → RtAcct) :
    AcctLoop s.g (s.rt.map (·.acct)) f 0 s :=
  ⟨rfl, by simp, fun i => by simp [acctAt, List.getElem?_map]⟩

theorem mapIdx_id (as : List RtAcct) : as.mapIdx (fun _ a => a) = as := by
  apply List.ext_getElem?; intro i; rw [List.getElem?_mapIdx]; cases as[i]? <;> rfl

theorem SameAcct.ofFw {s t : Fw σ} (h : SameAcct s t) : Acct.ofFw t = Acct.ofFw s := by
  refine ofFw_eq h.g (by simp [h.len]) (fun i => ?_)
  rw [h.at_ i, acctAt_ofFw]; rfl

/-- a loop over all machines that bumps machine `k`'s accounting by `f k` and then only runs
    transitions realises `mapIdx f` on the accounting list -/
theorem acctLoop_fold (s : Fw σ) (f : Nat → RtAcct → RtAcct) (F : Fw σ → Nat → Fw σ)
    (hF : ∀ k s', AcctBump (f k) k s' (F s' k)) :
    Acct.ofFw ((List.range s.rt.length).foldl F s) = (s.g, (s.rt.map (·.acct)).mapIdx f) := by
  have h := foldl_range_inv (AcctLoop s.g (s.rt.map (·.acct)) f) F
    (fun k s' hk => hk.step (hF k s')) s.rt.length s (AcctLoop.init s f)
  have hlen : s.rt.length = (s.rt.map (·.acct)).length := by simp
  rw [hlen] at h
  simpa using h.finish

theorem AcctBump.ofFw {f : RtAcct → RtAcct} {k : Nat} {s u : Fw σ} (h : AcctBump f k s u) :
    Acct.ofFw u = (s.g, (s.rt.map (·.acct)).mapIdx (fun i a => if k = i then f a else a)) := by
  refine ofFw_eq h.g (by simp [h.len]) (fun i => ?_)
  rw [List.getElem?_mapIdx, List.getElem?_map]
  by_cases hi : i = k
  · subst hi
    rw [h.self]; unfold acctAt
    cases s.rt[i]? <;> simp
  · rw [h.other i hi]; unfold acctAt
    have : ¬ k = i := fun h' => hi h'.symm
    cases s.rt[i]? <;> simp [this]

theorem acctBump_blockingEnd (s : Fw σ) (k blocked : Nat) :
    AcctBump (fun a => if blocked ≠ 0 then { a with blockingDur := a.blockingDur + blocked } else a) k s
      (if blocked ≠ 0 then
        match s.rt[k]? with
        | none => s.withFault .oob
        | some r =>
          (if r.acct.blockingDur + blocked > durMax then s.withFault .durOverflow else s).modRt k
            (fun r => { r with acct := { r.acct with blockingDur := r.acct.blockingDur + blocked } })
      else s) := by
  have hfault : ∀ f, SameAcct s (s.withFault f) := fun f => ⟨by simp, by simp, fun i => by simp [acctAt]⟩
  by_cases hb : blocked ≠ 0
  · simp only [if_pos hb]
    cases hr : s.rt[k]? with
    | none =>
      refine ⟨by simp, by simp, ?_, fun i _ => by simp [acctAt]⟩
      simp [acctAt, hr]
    | some r =>
      simp only []
      by_cases hd : r.acct.blockingDur + blocked > durMax
      · rw [if_pos hd]
        exact AcctBump.ofSameAcct (hfault _) (AcctBump.modRt _ k _ _ (fun _ => rfl))
      · rw [if_neg hd]
        exact AcctBump.modRt _ k _ _ (fun _ => rfl)
  · simp only [if_neg hb]
    exact AcctBump.id s k

theorem processEvent_acct (e : TEvent) (s : Fw σ) :
    Acct.ofFw (processEvent ρ e s) = Acct.event e (Acct.ofFw s) := by
  have W := walkSameAcct ρ (σ := σ)
  have hid : ∀ (t : Fw σ), SameAcct s t → Acct.ofFw t = (s.g, (s.rt.map (·.acct)).mapIdx (fun _ a => a)) := by
    intro t ht; rw [ht.ofFw, mapIdx_id]; rfl
  unfold processEvent
  cases e with
  | normalRecv => simpa [Acct.event, Acct.gEvent, Acct.rEvent, Acct.ofFw] using hid _ (W.transitionAll _ (by decide) s)
  | paddingRecv => simpa [Acct.event, Acct.gEvent, Acct.rEvent, Acct.ofFw] using hid _ (W.transitionAll _ (by decide) s)
  | tunnelRecv => simpa [Acct.event, Acct.gEvent, Acct.rEvent, Acct.ofFw] using hid _ (W.transitionAll _ (by decide) s)
  | tunnelSent => simpa [Acct.event, Acct.gEvent, Acct.rEvent, Acct.ofFw] using hid _ (W.transitionAll _ (by decide) s)
  | normalSent =>
    simp only []
    have := acctLoop_fold ({ s with g := { s.g with normalSent := s.g.normalSent + 1 } } : Fw σ)
      (fun _ a => { a with normalSent := a.normalSent + 1 })
      (fun s mi => (transition ρ FUEL mi .normalSent
        (s.modRt mi (fun r => { r with acct := { r.acct with normalSent := r.acct.normalSent + 1 } }))).1)
      (fun k s' => (AcctBump.modRt s' k _ _ (fun _ => rfl)).sameAcct
        (SameAcct.ofFrame (transition_reach ρ FUEL k .normalSent _).frame))
    rw [this]; rfl
  | paddingSent mi =>
    simp only []
    have hb : AcctBump (fun a => { a with paddingSent := a.paddingSent + 1 }) mi
        ({ s with g := { s.g with paddingSent := s.g.paddingSent + 1 } } : Fw σ)
        (if mi ≥ s.rt.length then ({ s with g := { s.g with paddingSent := s.g.paddingSent + 1 } } : Fw σ) else
          (if (!(transition ρ FUEL mi .paddingSent (({ s with g := { s.g with paddingSent := s.g.paddingSent + 1 } } : Fw σ).modRt mi
              (fun r => { r with acct := { r.acct with paddingSent := r.acct.paddingSent + 1 } }))).2 &&
              notEnded (transition ρ FUEL mi .paddingSent (({ s with g := { s.g with paddingSent := s.g.paddingSent + 1 } } : Fw σ).modRt mi
              (fun r => { r with acct := { r.acct with paddingSent := r.acct.paddingSent + 1 } }))).1 mi) = true
           then decrementLimit ρ mi (transition ρ FUEL mi .paddingSent (({ s with g := { s.g with paddingSent := s.g.paddingSent + 1 } } : Fw σ).modRt mi
              (fun r => { r with acct := { r.acct with paddingSent := r.acct.paddingSent + 1 } }))).1
           else (transition ρ FUEL mi .paddingSent (({ s with g := { s.g with paddingSent := s.g.paddingSent + 1 } } : Fw σ).modRt mi
              (fun r => { r with acct := { r.acct with paddingSent := r.acct.paddingSent + 1 } }))).1)) := by
      split
      · next hge =>
        refine ⟨rfl, rfl, ?_, fun _ _ => rfl⟩
        have : s.rt[mi]? = none := List.getElem?_eq_none hge
        simp [acctAt, this]
      · exact (AcctBump.modRt _ mi _ _ (fun _ => rfl)).sameAcct
          (W.transDec mi .paddingSent (by decide) _ (fun p => !p.2 && notEnded p.1 mi)
            (fun p hp => by simp only [Bool.and_eq_true] at hp; exact hp.2))
    rw [hb.ofFw]
    simp only [Acct.event, Acct.gEvent, Acct.rEvent, Acct.ofFw]
  | blockingBegin m =>
    simp only []
    refine Eq.trans (SameAcct.ofFw (W.foldl _ (fun s mi => W.transDec mi .blockingBegin (by decide) s
      (fun p => !p.2 && notEnded p.1 mi && mi == m)
      (fun p hp => by simp only [Bool.and_eq_true] at hp; exact hp.1.2)) _ _)) ?_
    simp only [Acct.event, Acct.gEvent, Acct.rEvent, Acct.ofFw, mapIdx_id]
    by_cases hb : (!s.g.blockingActive) = true
    · simp only [hb, ↓reduceIte]
    · simp only [hb, ↓reduceIte, Bool.false_eq_true]
  | blockingEnd =>
    simp only []
    generalize hbl : (if s.g.blockingActive then durSince s.g.now s.g.blockingStarted else 0) = blocked
    generalize hs1 : (if s.g.blockingActive = true then
        ({ (if s.g.blockingDur + blocked > durMax then s.withFault Fault.durOverflow else s) with
            g := { (if s.g.blockingDur + blocked > durMax then s.withFault Fault.durOverflow else s).g with
              blockingDur := (if s.g.blockingDur + blocked > durMax then s.withFault Fault.durOverflow else s).g.blockingDur + blocked,
              blockingActive := false } } : Fw σ) else s) = s1
    have hs1rt : s1.rt = s.rt := by
      subst hs1; split
      · split <;> simp
      · rfl
    have hs1g : s1.g = Acct.gEvent .blockingEnd s.g := by
      subst hs1; subst hbl
      unfold Acct.gEvent
      by_cases ha : s.g.blockingActive = true
      · simp only [ha, if_true]
        split <;> simp
      · simp [ha]
    have := acctLoop_fold s1
      (fun _ a => if blocked ≠ 0 then { a with blockingDur := a.blockingDur + blocked } else a)
      (fun s' mi => (transition ρ FUEL mi .blockingEnd
        (if blocked ≠ 0 then
          match s'.rt[mi]? with
          | none => s'.withFault .oob
          | some r =>
            (if r.acct.blockingDur + blocked > durMax then s'.withFault .durOverflow else s').modRt mi
              (fun r => { r with acct := { r.acct with blockingDur := r.acct.blockingDur + blocked } })
         else s')).1)
      (fun k s' => (acctBump_blockingEnd s' k blocked).sameAcct
        (SameAcct.ofFrame (transition_reach ρ FUEL k .blockingEnd _).frame))
    refine Eq.trans this ?_
    rw [hs1rt, hs1g]
    subst hbl
    rfl
  | timerBegin mi =>
    simp only []
    split
    · simpa [Acct.event, Acct.gEvent, Acct.rEvent, Acct.ofFw] using hid _ (SameAcct.refl s)
    · simpa [Acct.event, Acct.gEvent, Acct.rEvent, Acct.ofFw] using hid _
        (W.transDec mi .timerBegin (by decide) s (fun p => !p.2 && notEnded p.1 mi)
          (fun p hp => by simp only [Bool.and_eq_true] at hp; exact hp.2))
  | timerEnd mi =>
    simp only []
    split
    · simpa [Acct.event, Acct.gEvent, Acct.rEvent, Acct.ofFw] using hid _ (SameAcct.refl s)
    · simpa [Acct.event, Acct.gEvent, Acct.rEvent, Acct.ofFw] using hid _ (W.transition mi .timerEnd s (by decide))


theorem triggerEvents_acct (es : List TEvent) (t : Int) (s : Fw σ) :
    Acct.ofFw (triggerEvents ρ es t s) = Acct.call es t (Acct.ofFw s) := by
  unfold triggerEvents
  rw [((walkSameAcct ρ).signalRound _).ofFw]
  unfold Acct.call
  have h0 : Acct.ofFw (s.callStart t) = ({ (Acct.ofFw s).1 with now := t }, (Acct.ofFw s).2) := by
    simp only [Acct.ofFw, Fw.callStart, List.map_map]
    congr 1
  rw [← h0]
  generalize s.callStart t = s'
  induction es generalizing s' with
  | nil => rfl
  | cons e es ih =>
    simp only [List.foldl_cons]
    rw [ih (processEvent ρ e s'), processEvent_acct]

theorem runCalls_acct (s : Fw σ) (h : List Call) :
    Acct.ofFw (runCalls ρ s h) = Acct.history h (Acct.ofFw s) := by
  unfold runCalls Acct.history
  induction h generalizing s with
  | nil => rfl
  | cons c h ih =>
    simp only [List.foldl_cons]
    rw [ih (triggerEvents ρ c.1 c.2 s), triggerEvents_acct]

theorem init_acct (ms : List Machine) (fp fb : F64) (t0 : Int) (rng : σ) :
    Acct.ofFw (Fw.init ρ ms fp fb t0 rng) = Acct.ofFw (Fw.init0 ms fp fb t0 rng) := by
  have : SameAcct (Fw.init0 ms fp fb t0 rng) (Fw.init ρ ms fp fb t0 rng) := by
    unfold Fw.init
    refine (walkSameAcct ρ).foldl _ (fun s mi => ?_) _ _
    unfold initLimit
    cases hm : s.machines[mi]? with
    | none => exact (walkSameAcct ρ).fault s _
    | some m =>
      simp only []
      cases hst : m.states[0]? with
      | none => exact (walkSameAcct ρ).fault s _
      | some st =>
        simp only []
        cases hact : st.action with
        | none => exact SameAcct.refl s
        | some a =>
          simp only []
          obtain ⟨_, hre⟩ := sampleLimit_spec ρ mi a s
          exact SameAcct.ofFrame (Reach.tail hre (Step.setLimit _ _)).frame
  exact this.ofFw

end Mb
