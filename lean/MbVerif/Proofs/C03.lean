/-
  C03: blocking budgets — gate consequence and the blocking part of the accounting refinement.
-/
import MbVerif.Proofs.C02
import MbVerif.Spec.C03

namespace Mb
variable {σ : Type} (ρ : Oracle σ)

/-- the budget / share part of the blocking limit predicate, on the model's accounting fields -/
def blockOKF (g : Globals) (a : RtAcct) (m : Machine) (rp : Bool) : Prop :=
  (rp = true ∧ g.blockingActive = true) ∨
  a.blockingDur + (if g.blockingActive then durSince g.now g.blockingStarted else 0) < a.allowedBlocked ∨
  (C03.belowShare (a.blockingDur + (if g.blockingActive then durSince g.now g.blockingStarted else 0))
      (durSince g.now a.machineStart) m.maxBlockingFrac = true ∧
   C03.belowShare (g.blockingDur + (if g.blockingActive then durSince g.now g.blockingStarted else 0))
      (durSince g.now g.start) g.maxBlockingFrac = true)

def QBlock (g : Globals) (a : RtAcct) (m : Machine) (act : TAction) : Prop :=
  match act with
  | .blockOutgoing _ _ _ rp _ => blockOKF g a m rp
  | _ => True

theorem belowLimitBlocking_true (g : Globals) (r : Runtime) (m : Machine) (rp : Bool)
    (h : belowLimitBlocking g r m rp = some true) : blockOKF g r.acct m rp := by
  unfold belowLimitBlocking at h
  unfold blockOKF
  by_cases h1 : (rp && g.blockingActive) = true
  · left; simpa using h1
  · right
    rw [if_neg h1] at h
    simp only [] at h
    generalize (if g.blockingActive = true then durSince g.now g.blockingStarted else 0) = ongoing at h ⊢
    by_cases h2 : (g.blockingActive && (decide (r.acct.blockingDur + ongoing > durMax) || decide (g.blockingDur + ongoing > durMax))) = true
    · rw [if_pos h2] at h; simp at h
    · rw [if_neg h2] at h
      by_cases h3 : r.acct.blockingDur + ongoing < r.acct.allowedBlocked
      · left; exact h3
      · right
        rw [if_neg h3] at h
        by_cases h4 : (Fp.gt (Fp.val64 m.maxBlockingFrac) (FV.fin 0) &&
            Fp.ge (divDur (r.acct.blockingDur + ongoing) (durSince g.now r.acct.machineStart)) (Fp.val64 m.maxBlockingFrac)) = true
        · rw [if_pos h4] at h; simp at h
        · rw [if_neg h4] at h
          by_cases h5 : (Fp.gt (Fp.val64 g.maxBlockingFrac) (FV.fin 0) &&
              Fp.ge (divDur (g.blockingDur + ongoing) (durSince g.now g.start)) (Fp.val64 g.maxBlockingFrac)) = true
          · rw [if_pos h5] at h; simp at h
          · unfold C03.belowShare
            have nb : ∀ x : Bool, ¬ x = true → (!x) = true := by intro x hx; cases x <;> simp_all
            exact ⟨nb _ h4, nb _ h5⟩

theorem gateConseq_QBlock : GateConseq QBlock := by
  intro g m r₁ st act mi tmo dur hst hact hb
  cases act with
  | cancel t => simp [mkAction, QBlock]
  | sendPadding => simp [mkAction, QBlock]
  | updateTimer => simp [mkAction, QBlock]
  | blockOutgoing b rp tmo' du lim =>
    simp only [mkAction, QBlock]
    unfold belowActionLimits at hb
    rw [hst] at hb
    simp only [hact] at hb
    exact belowLimitBlocking_true g r₁ m rp hb


/-! ### the accounting function tracks the blocking periods -/

/-- the accounting pair `p` agrees with the recount `b` of the blocking reports -/
structure BlkRel (t0 : Int) (fb : F64) (al : Nat → Nat) (b : C03.BlockAcc) (p : Globals × List RtAcct) : Prop where
  active : p.1.blockingActive = b.active
  started : p.1.blockingStarted = b.started
  total : p.1.blockingDur = b.total
  start : p.1.start = t0
  frac : p.1.maxBlockingFrac = fb
  per : ∀ i a, p.2[i]? = some a → a.blockingDur = b.total ∧ a.machineStart = t0 ∧ a.allowedBlocked = al i

theorem blk_gEvent {b : C03.BlockAcc} {g : Globals} (e : TEvent)
    (h1 : g.blockingActive = b.active) (h2 : g.blockingStarted = b.started) (h3 : g.blockingDur = b.total) :
    (Acct.gEvent e g).blockingActive = (C03.blockEvent g.now e b).active ∧
    (Acct.gEvent e g).blockingStarted = (C03.blockEvent g.now e b).started ∧
    (Acct.gEvent e g).blockingDur = (C03.blockEvent g.now e b).total ∧
    (Acct.gEvent e g).start = g.start ∧ (Acct.gEvent e g).maxBlockingFrac = g.maxBlockingFrac := by
  cases e with
  | blockingBegin m =>
    simp only [Acct.gEvent, C03.blockEvent]
    rw [h1]
    cases hb : b.active <;> simp [h1, h2, h3, hb]
  | blockingEnd =>
    simp only [Acct.gEvent, C03.blockEvent]
    rw [h1]
    cases hb : b.active <;> simp [h1, h2, h3, hb]
  | normalRecv | paddingRecv | tunnelRecv | normalSent | paddingSent _ | tunnelSent | timerBegin _ | timerEnd _ =>
    exact ⟨h1, h2, h3, rfl, rfl⟩

theorem blk_rEvent {b : C03.BlockAcc} {g : Globals} (e : TEvent) (i : Nat) (a : RtAcct)
    (h1 : g.blockingActive = b.active) (h2 : g.blockingStarted = b.started) (ha : a.blockingDur = b.total) :
    (Acct.rEvent e g i a).blockingDur = (C03.blockEvent g.now e b).total ∧
    (Acct.rEvent e g i a).machineStart = a.machineStart ∧ (Acct.rEvent e g i a).allowedBlocked = a.allowedBlocked := by
  cases e with
  | paddingSent m =>
    simp only [Acct.rEvent, C03.blockEvent]
    split <;> exact ⟨ha, rfl, rfl⟩
  | blockingBegin m =>
    simp only [Acct.rEvent, C03.blockEvent]
    split <;> simp [ha]
  | blockingEnd =>
    simp only [Acct.rEvent, C03.blockEvent]
    rw [h1]
    cases hb : b.active
    · simp [ha]
    · simp only [if_true]
      by_cases hz : durSince g.now g.blockingStarted = 0
      · simp [hz, ha, ← h2]
      · simp [hz, ha, ← h2]
  | normalRecv | paddingRecv | tunnelRecv | normalSent | tunnelSent | timerBegin _ | timerEnd _ =>
    exact ⟨ha, rfl, rfl⟩

theorem BlkRel.event {t0 : Int} {fb : F64} {al : Nat → Nat} {b : C03.BlockAcc} {p : Globals × List RtAcct}
    (e : TEvent) (h : BlkRel t0 fb al b p) : BlkRel t0 fb al (C03.blockEvent p.1.now e b) (Acct.event e p) := by
  obtain ⟨g1, g2, g3, g4, g5⟩ := blk_gEvent (g := p.1) e h.active h.started h.total
  refine ⟨g1, g2, g3, g4.trans h.start, g5.trans h.frac, ?_⟩
  intro i a' ha'
  have : ∃ a, p.2[i]? = some a ∧ a' = Acct.rEvent e p.1 i a := by
    simp only [Acct.event, List.getElem?_mapIdx] at ha'
    cases hpi : p.2[i]? with
    | none => rw [hpi] at ha'; simp at ha'
    | some a => rw [hpi] at ha'; exact ⟨a, rfl, by simpa using ha'.symm⟩
  obtain ⟨a, hpa, rfl⟩ := this
  obtain ⟨p1, p2, p3⟩ := h.per i a hpa
  obtain ⟨r1, r2, r3⟩ := blk_rEvent (g := p.1) e i a h.active h.started p1
  exact ⟨r1, r2.trans p2, r3.trans p3⟩

theorem gEvent_now (e : TEvent) (g : Globals) : (Acct.gEvent e g).now = g.now := by
  cases e <;> simp [Acct.gEvent] <;> split <;> rfl

theorem BlkRel.foldEvents {t0 : Int} {fb : F64} {al : Nat → Nat} (now : Int) (es : List TEvent) :
    ∀ (b : C03.BlockAcc) (p : Globals × List RtAcct), p.1.now = now → BlkRel t0 fb al b p →
      BlkRel t0 fb al (es.foldl (fun b e => C03.blockEvent now e b) b) (es.foldl (fun p e => Acct.event e p) p) ∧
      (es.foldl (fun p e => Acct.event e p) p).1.now = now := by
  induction es with
  | nil => intro b p hn h; exact ⟨h, hn⟩
  | cons e es ih =>
    intro b p hn h
    simp only [List.foldl_cons]
    have h' := h.event e
    rw [hn] at h'
    exact ih _ _ (by simp [Acct.event, gEvent_now, hn]) h'

theorem BlkRel.call {t0 : Int} {fb : F64} {al : Nat → Nat} {b : C03.BlockAcc} {p : Globals × List RtAcct}
    (c : Call) (h : BlkRel t0 fb al b p) :
    BlkRel t0 fb al (C03.blockCall c b) (Acct.call c.1 c.2 p) ∧ (Acct.call c.1 c.2 p).1.now = c.2 := by
  unfold C03.blockCall Acct.call
  exact BlkRel.foldEvents c.2 c.1 b _ rfl ⟨h.active, h.started, h.total, h.start, h.frac, h.per⟩

theorem BlkRel.history {t0 : Int} {fb : F64} {al : Nat → Nat} (h : List Call) :
    ∀ (b : C03.BlockAcc) (p : Globals × List RtAcct), BlkRel t0 fb al b p →
      BlkRel t0 fb al (h.foldl (fun b c => C03.blockCall c b) b) (Acct.history h p) := by
  induction h with
  | nil => intro b p hb; exact hb
  | cons c h ih =>
    intro b p hb
    simp only [List.foldl_cons, Acct.history]
    exact ih _ _ (hb.call c).1

end Mb
