/-
  Safety at the level of whole calls: from a valid state, `trigger_events` reaches a valid state
  and raises no fault other than a duration overflow.
-/
import MbVerif.Proofs.Safe

namespace Mb
variable {σ : Type} (ρ : Oracle σ)

/-- from a valid state with a well-formed pending signal we reach such a state again, with the
    same number of machines and no new fault except possibly a duration overflow -/
def OkS (s t : Fw σ) : Prop :=
  Valid s → SigOK s → (Valid t ∧ SigOK t ∧ NoNewBad s t ∧ t.rt.length = s.rt.length)

theorem OkS.refl (s : Fw σ) : OkS s s := fun hV hS => ⟨hV, hS, NoNewBad.refl s, rfl⟩

theorem OkS.trans {s t u : Fw σ} (h₁ : OkS s t) (h₂ : OkS t u) : OkS s u := by
  intro hV hS
  obtain ⟨hV1, hS1, hN1, hL1⟩ := h₁ hV hS
  obtain ⟨hV2, hS2, hN2, hL2⟩ := h₂ hV1 hS1
  exact ⟨hV2, hS2, hN1.trans hN2, hL2.trans hL1⟩

theorem unset_le_two (s : Fw σ) (mi : Nat) : unset s mi ≤ 2 := by
  unfold unset; cases zeroedAOf s mi <;> cases zeroedBOf s mi <;> simp

theorem okS_transition (mi : Nat) (ev : Event) (s : Fw σ) (hmi : mi < s.rt.length) :
    OkS s (transition ρ FUEL mi ev s).1 := by
  intro hV hS
  have h := (safe_main ρ FUEL).1 mi ev s hV hmi (by have := unset_le_two s mi; unfold FUEL; omega)
  have hre := transition_reach ρ FUEL mi ev s
  exact ⟨hV.reach hre, h.2 hS, h.1, hre.frame.rtLen⟩

theorem okS_of_keep {s t : Fw σ} (h : Keep s t) (hV : Valid s → Valid t) : OkS s t :=
  fun hV' hS => ⟨hV hV', h.sigOK hS, h.noNewBad, h.rtLen⟩

theorem okS_decrement (mi : Nat) (s : Fw σ) (hmi : mi < s.rt.length) (hne : notEnded s mi = true) :
    OkS s (decrementLimit ρ mi s) := by
  intro hV hS
  have hre := decrementLimit_reach ρ mi s
  refine ⟨hV.reach hre, ?_, ?_, hre.frame.rtLen⟩ <;>
  · unfold decrementLimit
    have hr' : ∃ r, s.rt[mi]? = some r := ⟨s.rt[mi], List.getElem?_eq_getElem hmi⟩
    obtain ⟨r, hr⟩ := hr'
    have hmi' : mi < s.machines.length := by rw [← hV.lenRt]; exact hmi
    have hm' : ∃ m, s.machines[mi]? = some m := ⟨s.machines[mi], List.getElem?_eq_getElem hmi'⟩
    obtain ⟨m, hm⟩ := hm'
    rw [hr, hm]
    simp only []
    generalize (if r.stateLimit > 0 then r.stateLimit - 1 else r.stateLimit) = lim
    have hnend : r.currentState ≠ STATE_END := by
      unfold notEnded at hne; rw [hr] at hne; simpa using hne
    obtain ⟨st, hst, _⟩ := hV.states_some hm hr hnend
    rw [hst]
    simp only []
    have k1 : Keep s ((s.modRt mi (fun r' => { r' with stateLimit := lim })).push (.limit mi lim true)) :=
      (keep_modRt s mi (fun r' => { r' with stateLimit := lim }) hmi).trans ⟨rfl, rfl, rfl⟩
    have hV1' : Valid (s.modRt mi (fun r' => { r' with stateLimit := lim })) :=
      hV.modRt mi _ (fun m' r' hm' hr' => hV.cur mi m' r' hm' hr')
    have hV1 : Valid ((s.modRt mi (fun r' => { r' with stateLimit := lim })).push (.limit mi lim true)) :=
      ⟨hV1'.lenRt, hV1'.lenAct, hV1'.ok, hV1'.cur⟩
    generalize (s.modRt mi (fun r' => { r' with stateLimit := lim })).push (.limit mi lim true) = s1 at k1 hV1 ⊢
    cases hact : st.action with
    | none => first | exact k1.sigOK hS | exact k1.noNewBad
    | some a =>
      simp only []
      by_cases hc : (lim = 0 && a.hasLimit) = true
      · rw [if_pos hc]
        have hlen : ¬ mi ≥ s1.actions.length := by
          rw [hV1.lenAct, ← hV1.lenRt, k1.rtLen]; omega
        rw [if_neg hlen]
        generalize hs2 : ({ s1 with actions := s1.actions.set mi none } : Fw σ) = s2
        have k2 : Keep s s2 := by subst hs2; exact k1.trans ⟨rfl, rfl, rfl⟩
        have hV2 : Valid s2 := by
          subst hs2
          exact ⟨hV1.lenRt, by simpa using hV1.lenAct, hV1.ok, hV1.cur⟩
        have hT := okS_transition ρ mi .limitReached s2 (by rw [k2.rtLen]; exact hmi) hV2 (k2.sigOK hS)
        first | exact hT.2.1 | exact k2.noNewBad.trans hT.2.2.1
      · rw [if_neg hc]
        first | exact k1.sigOK hS | exact k1.noNewBad

/-- a fold over `0..n` whose body is `OkS` for in-range indices -/
theorem okS_foldRange (F : Fw σ → Nat → Fw σ) (n : Nat)
    (hF : ∀ s j, j < n → s.rt.length = n → OkS s (F s j)) (s : Fw σ) (hn : s.rt.length = n) (k : Nat) (hk : k ≤ n) :
    OkS s ((List.range k).foldl F s) := by
  induction k with
  | zero => exact OkS.refl s
  | succ k ih =>
    rw [List.range_succ, List.foldl_append]
    intro hV hS
    obtain ⟨hV1, hS1, hN1, hL1⟩ := ih (by omega) hV hS
    have := hF ((List.range k).foldl F s) k (by omega) (by rw [hL1]; exact hn) hV1 hS1
    exact ⟨this.1, this.2.1, hN1.trans this.2.2.1, this.2.2.2.trans hL1⟩

theorem okS_foldAll (F : Fw σ → Nat → Fw σ) (s : Fw σ)
    (hF : ∀ s' j, j < s.rt.length → s'.rt.length = s.rt.length → OkS s' (F s' j)) :
    OkS s ((List.range s.rt.length).foldl F s) :=
  okS_foldRange F s.rt.length hF s rfl s.rt.length (Nat.le_refl _)

theorem okS_transDec (mi : Nat) (ev : Event) (s : Fw σ) (hmi : mi < s.rt.length) (c : Fw σ × Bool → Bool)
    (hc : ∀ p, c p = true → notEnded p.1 mi = true) :
    OkS s (if c (transition ρ FUEL mi ev s) = true then decrementLimit ρ mi (transition ρ FUEL mi ev s).1
           else (transition ρ FUEL mi ev s).1) := by
  have h := okS_transition ρ mi ev s hmi
  split
  · next hcond =>
    intro hV hS
    obtain ⟨hV1, hS1, hN1, hL1⟩ := h hV hS
    have := okS_decrement ρ mi _ (by rw [hL1]; exact hmi) (hc _ hcond) hV1 hS1
    exact ⟨this.1, this.2.1, hN1.trans this.2.2.1, this.2.2.2.trans hL1⟩
  · exact h

theorem okS_setG (s : Fw σ) (g' : Globals) : OkS s { s with g := g' } :=
  okS_of_keep ⟨rfl, rfl, rfl⟩ (fun hV => ⟨hV.lenRt, hV.lenAct, hV.ok, hV.cur⟩)

theorem okS_acct (s : Fw σ) (mi : Nat) (f : Runtime → Runtime) (hmi : mi < s.rt.length)
    (hf : ∀ r, (f r).currentState = r.currentState) : OkS s (s.modRt mi f) :=
  okS_of_keep (keep_modRt s mi f hmi)
    (fun hV => hV.modRt mi f (fun m r hm hr => by rw [hf r]; exact hV.cur mi m r hm hr))

theorem okS_durOverflow (s : Fw σ) : OkS s (s.withFault .durOverflow) := by
  intro hV hS
  refine ⟨⟨by simpa using hV.lenRt, by simpa using hV.lenAct, by simpa using hV.ok,
    fun i m r hm hr => hV.cur i m r (by simpa using hm) (by simpa using hr)⟩, ?_, NoNewBad.durOverflow s, by simp⟩
  intro x hx
  have := hS x (by simpa using hx)
  simpa using this

theorem okS_transitionAll (ev : Event) (s : Fw σ) : OkS s (transitionAll ρ ev s) := by
  unfold transitionAll
  exact okS_foldAll _ s (fun s' j hj hl => okS_transition ρ j ev s' (by rw [hl]; exact hj))

theorem okS_processEvent (e : TEvent) (s : Fw σ) : OkS s (processEvent ρ e s) := by
  unfold processEvent
  cases e with
  | normalRecv => exact okS_transitionAll ρ _ s
  | paddingRecv => exact okS_transitionAll ρ _ s
  | tunnelRecv => exact okS_transitionAll ρ _ s
  | tunnelSent => exact okS_transitionAll ρ _ s
  | normalSent =>
    simp only []
    refine (okS_setG s { s.g with normalSent := s.g.normalSent + 1 }).trans ?_
    refine okS_foldAll _ ({ s with g := { s.g with normalSent := s.g.normalSent + 1 } } : Fw σ) (fun s' j hj hl => ?_)
    have hj' : j < s'.rt.length := by rw [hl]; exact hj
    exact (okS_acct s' j (fun r => { r with acct := { r.acct with normalSent := r.acct.normalSent + 1 } }) hj'
      (fun _ => rfl)).trans (okS_transition ρ j .normalSent _ (by simpa using hj'))
  | paddingSent mi =>
    simp only []
    refine (okS_setG s { s.g with paddingSent := s.g.paddingSent + 1 }).trans ?_
    split
    · exact OkS.refl _
    · next hge =>
      have hmi : mi < s.rt.length := by simpa using hge
      refine (okS_acct ({ s with g := { s.g with paddingSent := s.g.paddingSent + 1 } } : Fw σ) mi
        (fun r => { r with acct := { r.acct with paddingSent := r.acct.paddingSent + 1 } }) hmi (fun _ => rfl)).trans ?_
      exact okS_transDec ρ mi .paddingSent _ (by simpa using hmi) (fun p => !p.2 && notEnded p.1 mi)
        (fun p hp => by simp only [Bool.and_eq_true] at hp; exact hp.2)
  | blockingBegin m =>
    simp only []
    have h1 : OkS s (if !s.g.blockingActive then
        { s with g := { s.g with blockingActive := true, blockingStarted := s.g.now } } else s) := by
      split
      · exact okS_setG s _
      · exact OkS.refl s
    refine h1.trans ?_
    have hl1 : (if !s.g.blockingActive then
        ({ s with g := { s.g with blockingActive := true, blockingStarted := s.g.now } } : Fw σ) else s).rt.length = s.rt.length := by
      split <;> rfl
    generalize (if !s.g.blockingActive then
        ({ s with g := { s.g with blockingActive := true, blockingStarted := s.g.now } } : Fw σ) else s) = s1 at hl1 ⊢
    refine okS_foldAll _ s1 (fun s' j hj hl => ?_)
    exact okS_transDec ρ j .blockingBegin s' (by rw [hl]; exact hj) (fun p => !p.2 && notEnded p.1 j && j == m)
      (fun p hp => by simp only [Bool.and_eq_true] at hp; exact hp.1.2)
  | blockingEnd =>
    simp only []
    generalize (if s.g.blockingActive then durSince s.g.now s.g.blockingStarted else 0) = blocked
    have h1 : OkS s (if s.g.blockingActive = true then
        ({ (if s.g.blockingDur + blocked > durMax then s.withFault Fault.durOverflow else s) with
            g := { (if s.g.blockingDur + blocked > durMax then s.withFault Fault.durOverflow else s).g with
              blockingDur := (if s.g.blockingDur + blocked > durMax then s.withFault Fault.durOverflow else s).g.blockingDur + blocked,
              blockingActive := false } } : Fw σ) else s) := by
      split
      · refine OkS.trans ?_ (okS_setG _ _)
        split
        · exact okS_durOverflow s
        · exact OkS.refl s
      · exact OkS.refl s
    refine h1.trans ?_
    have hl1 : (if s.g.blockingActive = true then
        ({ (if s.g.blockingDur + blocked > durMax then s.withFault Fault.durOverflow else s) with
            g := { (if s.g.blockingDur + blocked > durMax then s.withFault Fault.durOverflow else s).g with
              blockingDur := (if s.g.blockingDur + blocked > durMax then s.withFault Fault.durOverflow else s).g.blockingDur + blocked,
              blockingActive := false } } : Fw σ) else s).rt.length = s.rt.length := by
      split
      · split <;> simp
      · rfl
    generalize (if s.g.blockingActive = true then
        ({ (if s.g.blockingDur + blocked > durMax then s.withFault Fault.durOverflow else s) with
            g := { (if s.g.blockingDur + blocked > durMax then s.withFault Fault.durOverflow else s).g with
              blockingDur := (if s.g.blockingDur + blocked > durMax then s.withFault Fault.durOverflow else s).g.blockingDur + blocked,
              blockingActive := false } } : Fw σ) else s) = s1 at hl1 ⊢
    refine okS_foldAll _ s1 (fun s' j hj hl => ?_)
    have hj' : j < s'.rt.length := by rw [hl]; exact hj
    refine OkS.trans ?_ (okS_transition ρ j .blockingEnd _ ?_)
    · by_cases hb : blocked ≠ 0
      · rw [if_pos hb]
        have : ∃ r, s'.rt[j]? = some r := ⟨_, List.getElem?_eq_getElem hj'⟩
        obtain ⟨r, hr⟩ := this
        rw [hr]
        simp only []
        refine OkS.trans ?_ (okS_acct _ j _ ?_ (fun _ => rfl))
        · split
          · exact okS_durOverflow s'
          · exact OkS.refl s'
        · split <;> simpa using hj'
      · rw [if_neg hb]; exact OkS.refl s'
    · by_cases hb : blocked ≠ 0
      · rw [if_pos hb]
        have : ∃ r, s'.rt[j]? = some r := ⟨_, List.getElem?_eq_getElem hj'⟩
        obtain ⟨r, hr⟩ := this
        rw [hr]
        simp only []
        split <;> simpa using hj'
      · rw [if_neg hb]; exact hj'
  | timerBegin mi =>
    simp only []
    split
    · exact OkS.refl _
    · next hge =>
      exact okS_transDec ρ mi .timerBegin s (by simpa using hge) (fun p => !p.2 && notEnded p.1 mi)
        (fun p hp => by simp only [Bool.and_eq_true] at hp; exact hp.2)
  | timerEnd mi =>
    simp only []
    split
    · exact OkS.refl _
    · next hge => exact okS_transition ρ mi .timerEnd s (by simpa using hge)


theorem okS_sigReset (s : Fw σ) : OkS s { s with signalPending := none } :=
  fun hV _ => ⟨⟨hV.lenRt, hV.lenAct, hV.ok, hV.cur⟩, fun x hx => by simp at hx, NoNewBad.refl s, rfl⟩

theorem okS_signalFold (excluded : Option Nat) (s : Fw σ) :
    OkS s ((List.range s.rt.length).foldl (fun s mi =>
      if (excluded == some mi) = true then s else (transition ρ FUEL mi .signal s).1) s) := by
  refine okS_foldAll _ s (fun s' j hj hl => ?_)
  split
  · exact OkS.refl _
  · exact okS_transition ρ j .signal s' (by rw [hl]; exact hj)

theorem okS_signalRound (s : Fw σ) : OkS s (signalRound ρ s) := by
  unfold signalRound
  cases hsig : s.signalPending with
  | none => exact OkS.refl s
  | some sig =>
    cases sig with
    | all =>
      simp only []
      have h3 := (okS_sigReset s).trans (okS_signalFold ρ none ({ s with signalPending := none } : Fw σ))
      generalize ((List.range s.rt.length).foldl (fun s mi =>
          if ((none : Option Nat) == some mi) = true then s else (transition ρ FUEL mi .signal s).1)
          ({ s with signalPending := none } : Fw σ)) = s2 at h3 ⊢
      refine h3.trans ?_
      cases hs2 : s2.signalPending with
      | none => exact OkS.refl _
      | some _ => exact okS_sigReset s2
    | allExcept x =>
      simp only []
      have h3 := (okS_sigReset s).trans (okS_signalFold ρ (some x) ({ s with signalPending := none } : Fw σ))
      generalize ((List.range s.rt.length).foldl (fun s mi =>
          if (some x == some mi) = true then s else (transition ρ FUEL mi .signal s).1)
          ({ s with signalPending := none } : Fw σ)) = s2 at h3 ⊢
      intro hV hS
      have hx : x < s.rt.length := hS x hsig
      obtain ⟨hV2, hS2, hN2, hL2⟩ := h3 hV hS
      cases hs2 : s2.signalPending with
      | none => exact ⟨hV2, hS2, hN2, hL2⟩
      | some _ =>
        simp only []
        obtain ⟨hV3, hS3, hN3, hL3⟩ := okS_sigReset s2 hV2 hS2
        obtain ⟨hV4, hS4, hN4, hL4⟩ := okS_transition ρ x .signal ({ s2 with signalPending := none } : Fw σ)
          (by rw [hL3, hL2]; exact hx) hV3 hS3
        exact ⟨hV4, hS4, (hN2.trans hN3).trans hN4, hL4.trans (hL3.trans hL2)⟩

theorem okS_callStart (s : Fw σ) (t : Int) : OkS s (s.callStart t) := by
  intro hV hS
  have hlen : (s.callStart t).rt.length = s.rt.length := by simp [Fw.callStart]
  refine ⟨⟨by rw [hlen]; exact hV.lenRt, by simpa [Fw.callStart] using hV.lenAct, hV.ok, ?_⟩, ?_, NoNewBad.refl s, hlen⟩
  · intro i m r hm hr
    simp only [Fw.callStart, List.getElem?_map] at hm hr
    cases hr0 : s.rt[i]? with
    | none => rw [hr0] at hr; simp at hr
    | some r0 =>
      rw [hr0] at hr
      simp only [Option.map_some, Option.some.injEq] at hr
      subst hr
      exact hV.cur i m r0 hm hr0
  · intro x hx
    rw [hlen]; exact hS x hx

theorem okS_triggerEvents (es : List TEvent) (t : Int) (s : Fw σ) : OkS s (triggerEvents ρ es t s) := by
  unfold triggerEvents
  refine ((okS_callStart s t).trans ?_).trans (okS_signalRound ρ _)
  generalize s.callStart t = s'
  induction es generalizing s' with
  | nil => exact OkS.refl s'
  | cons e es ih => exact (okS_processEvent ρ e s').trans (ih _)

theorem okS_runCalls (s : Fw σ) (h : List Call) : OkS s (runCalls ρ s h) := by
  unfold runCalls
  induction h generalizing s with
  | nil => exact OkS.refl s
  | cons c h ih => exact (okS_triggerEvents ρ c.1 c.2 s).trans (ih _)

/-! ### construction -/

theorem valid_init0 (ms : List Machine) (fp fb : F64) (t0 : Int) (rng : σ) (hok : ∀ m ∈ ms, MachineOK m) :
    Valid (Fw.init0 ms fp fb t0 rng) := by
  refine ⟨by simp [Fw.init0], by simp [Fw.init0], hok, ?_⟩
  intro i m r hm hr
  simp only [Fw.init0, List.getElem?_map] at hm hr
  rw [hm] at hr
  simp only [Option.map_some, Option.some.injEq] at hr
  subst hr
  exact Or.inl (hok m (List.mem_of_getElem? hm)).nonempty

theorem okS_initLimit (s : Fw σ) (mi : Nat) (hmi : mi < s.rt.length) : OkS s (initLimit ρ s mi) := by
  intro hV hS
  unfold initLimit
  have hmi' : mi < s.machines.length := by rw [← hV.lenRt]; exact hmi
  have hm' : ∃ m, s.machines[mi]? = some m := ⟨s.machines[mi], List.getElem?_eq_getElem hmi'⟩
  obtain ⟨m, hm⟩ := hm'
  rw [hm]
  simp only []
  have hne := (hV.ok m (List.mem_of_getElem? hm)).nonempty
  have : ∃ st, m.states[0]? = some st := ⟨_, List.getElem?_eq_getElem hne⟩
  obtain ⟨st, hst⟩ := this
  rw [hst]
  simp only []
  cases hact : st.action with
  | none => exact ⟨hV, hS, NoNewBad.refl s, rfl⟩
  | some a =>
    simp only []
    obtain ⟨hrl, hre⟩ := sampleLimit_spec ρ mi a s
    have k := (keep_rngLog hrl).trans (keep_modRt (sampleLimit ρ a s).2 mi
      (fun r => { r with stateLimit := (sampleLimit ρ a s).1 }) (by rw [hrl.rt]; exact hmi))
    exact ⟨hV.reach (Reach.tail hre (Step.setLimit _ _)), k.sigOK hS, k.noNewBad, k.rtLen⟩

theorem okS_init (ms : List Machine) (fp fb : F64) (t0 : Int) (rng : σ) :
    OkS (Fw.init0 ms fp fb t0 rng) (Fw.init ρ ms fp fb t0 rng) := by
  unfold Fw.init
  have hl : (Fw.init0 ms fp fb t0 rng).rt.length = ms.length := by simp [Fw.init0]
  rw [← hl]
  exact okS_foldAll _ _ (fun s' j hj hl' => okS_initLimit ρ s' j (by rw [hl']; exact hj))

end Mb
