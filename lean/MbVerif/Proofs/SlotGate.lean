/-
  Single-event calls: whatever sits in a slot after the call was scheduled under the limit
  predicates evaluated with the accounting state *after* that event was accounted for.
  Generic in the consequence `Q` drawn from the gate (used for C02 padding budgets, C03 blocking
  budgets, C07 state limits).
-/
import MbVerif.Proofs.Walk

namespace Mb
variable {σ : Type} (ρ : Oracle σ)

/-- a consequence of the limit predicates: whenever `belowActionLimits g r₁ m = some true` for a
    runtime in state `next` whose action is `act`, `Q` holds of the scheduled action -/
def GateConseq (Q : Globals → RtAcct → Machine → TAction → Prop) : Prop :=
  ∀ (g : Globals) (m : Machine) (r₁ : Runtime) (st : State) (act : Action) (mi tmo dur : Nat),
    m.states[r₁.currentState]? = some st → st.action = some act → belowActionLimits g r₁ m = some true →
    Q g r₁.acct m (mkAction act mi tmo dur)

/-- every filled slot satisfies `Q` w.r.t. the current accounting state -/
def SlotInv (Q : Globals → RtAcct → Machine → TAction → Prop) (s : Fw σ) : Prop :=
  ∀ (mi : Nat) (a : TAction), s.actions[mi]? = some (some a) →
    ∃ (m : Machine) (r : Runtime), s.machines[mi]? = some m ∧ s.rt[mi]? = some r ∧ Q s.g r.acct m a

/-- all slots from index `k` on are empty -/
def NoneFrom (k : Nat) (s : Fw σ) : Prop := ∀ (j : Nat) (a : TAction), k ≤ j → s.actions[j]? ≠ some (some a)

variable {Q : Globals → RtAcct → Machine → TAction → Prop}

theorem SlotInv.step (hQ : GateConseq Q) {mi : Nat} {s t : Fw σ} (hI : SlotInv Q s) (h : Step mi s t) :
    SlotInv Q t := by
  have hf := h.frame
  unfold SlotInv
  intro i a hia
  -- slot i of t
  by_cases hi : i = mi
  · subst hi
    cases h with
    | push => exact hI i a hia
    | fault => simpa using hI i a (by simpa using hia)
    | rng => exact hI i a hia
    | signal => exact hI i a hia
    | setState x hx | setLimit l | setCtrA v | setCtrB v | zeroA | zeroB =>
      obtain ⟨m, r, hm, hr, hq⟩ := hI i a (by simpa using hia)
      have hacct := hf.acct
      rw [hr] at hacct
      cases hr' : (Fw.modRt s i _).rt[i]? with
      | none => rw [hr'] at hacct; simp at hacct
      | some r' =>
        rw [hr'] at hacct
        have : r'.acct = r.acct := by simpa using hacct
        exact ⟨m, r', by simpa using hm, rfl, by rw [this]; simpa using hq⟩
    | clear hlen =>
      rcases set_getElem?_some _ _ _ _ _ hia with ⟨_, h2⟩ | ⟨h1, _⟩
      · cases h2
      · exact absurd rfl h1
    | sched m r next act tmo dur hm hr hlen hg htimes =>
      rcases set_getElem?_some _ _ _ _ _ hia with ⟨_, h2⟩ | ⟨h1, _⟩
      · have ha : a = mkAction act i tmo dur := by simpa using h2
        subst ha
        obtain ⟨r₁, st, hacct, hcur, hst, hact, hb⟩ := hg
        refine ⟨m, r, hm, hr, ?_⟩
        have := hQ s.g m r₁ st act i tmo dur (by rw [hcur]; exact hst) hact hb
        rw [hacct] at this; exact this
      · exact absurd rfl h1
  · obtain ⟨m, r, hm, hr, hq⟩ := hI i a (by rw [← hf.actOther i hi]; exact hia)
    exact ⟨m, r, by rw [hf.machines]; exact hm, by rw [hf.rtOther i hi]; exact hr, by rw [hf.g]; exact hq⟩

theorem SlotInv.reach (hQ : GateConseq Q) {mi : Nat} {s t : Fw σ} (h : Reach mi s t) (hI : SlotInv Q s) :
    SlotInv Q t := Reach.inv (SlotInv Q) (fun _ _ hI st => hI.step hQ st) h hI

theorem NoneFrom.reach {k mi : Nat} {s t : Fw σ} (hmi : mi < k) (h : Reach mi s t) (hN : NoneFrom k s) :
    NoneFrom k t := by
  unfold NoneFrom
  intro j a hj
  rw [h.frame.actOther j (by omega)]
  exact hN j a hj


/-- `SlotInv Q` is carried along by everything that consists of transition steps only -/
theorem walkSlot (hQ : GateConseq Q) : WalkCore ρ (fun (s t : Fw σ) => SlotInv Q s → SlotInv Q t) where
  refl _ h := h
  trans h₁ h₂ h := h₂ (h₁ h)
  transition j ev s _ h := SlotInv.reach hQ (transition_reach ρ FUEL j ev s) h
  decrement j s _ h := SlotInv.reach hQ (decrementLimit_reach ρ j s) h
  fault s f h := SlotInv.step hQ h (Step.fault (mi := 0) s f)
  signal s p h := SlotInv.step hQ h (Step.signal (mi := 0) s p)

theorem SlotInv.ofNone {s : Fw σ} (h : NoneFrom 0 s) : SlotInv Q s := by
  intro mi a hia
  exact absurd hia (h mi a (Nat.zero_le _))

/-- changing the runtime of a machine whose slot is empty keeps the invariant -/
theorem SlotInv.modRt_none {s : Fw σ} (k : Nat) (f : Runtime → Runtime)
    (hnone : ∀ a, s.actions[k]? ≠ some (some a)) (hI : SlotInv Q s) : SlotInv Q (s.modRt k f) := by
  intro i a hia
  have hia' : s.actions[i]? = some (some a) := by simpa using hia
  by_cases hi : i = k
  · subst hi; exact absurd hia' (hnone a)
  · obtain ⟨m, r, hm, hr, hq⟩ := hI i a hia'
    exact ⟨m, r, by simpa using hm, by rw [Fw.modRt_rt_other s k i f hi]; exact hr, by simpa using hq⟩

theorem SlotInv.withFault {s : Fw σ} (f : Fault) (hI : SlotInv Q s) : SlotInv Q (s.withFault f) := by
  intro i a hia
  obtain ⟨m, r, hm, hr, hq⟩ := hI i a (by simpa using hia)
  exact ⟨m, r, by simpa using hm, by simpa using hr, by simpa using hq⟩

theorem NoneFrom.mono {k k' : Nat} {s : Fw σ} (h : k ≤ k') (hN : NoneFrom k s) : NoneFrom k' s :=
  fun j a hj => hN j a (Nat.le_trans h hj)

/-- a loop over `0..n` whose body preserves an index-dependent invariant -/
theorem foldl_range_inv (P : Nat → Fw σ → Prop) (F : Fw σ → Nat → Fw σ)
    (hstep : ∀ k s, P k s → P (k + 1) (F s k)) (n : Nat) (s : Fw σ) (h0 : P 0 s) :
    P n ((List.range n).foldl F s) := by
  induction n with
  | zero => simpa using h0
  | succ n ih =>
    rw [List.range_succ, List.foldl_append]
    exact hstep n _ ih

/-- the loop invariant of the per-machine loops with interleaved accounting -/
def LoopInv (Q : Globals → RtAcct → Machine → TAction → Prop) (k : Nat) (s : Fw σ) : Prop :=
  SlotInv Q s ∧ NoneFrom k s

theorem LoopInv.transition (hQ : GateConseq Q) {k : Nat} {s : Fw σ} (ev : Event)
    (h : SlotInv Q s ∧ NoneFrom (k + 1) s) : LoopInv Q (k + 1) (transition ρ FUEL k ev s).1 :=
  ⟨SlotInv.reach hQ (transition_reach ρ FUEL k ev s) h.1,
   NoneFrom.reach (Nat.lt_succ_self k) (transition_reach ρ FUEL k ev s) h.2⟩

theorem NoneFrom.withFault {k : Nat} {s : Fw σ} (f : Fault) (h : NoneFrom k s) : NoneFrom k (s.withFault f) :=
  fun j a hj => by simpa using h j a hj

theorem NoneFrom.modRt {k : Nat} {s : Fw σ} (i : Nat) (f : Runtime → Runtime) (h : NoneFrom k s) :
    NoneFrom k (s.modRt i f) :=
  fun j a hj => by simpa using h j a hj

theorem LoopInv.blockingEndAcct {k : Nat} {s : Fw σ} (blocked : Nat) (h : LoopInv Q k s) :
    SlotInv Q (if blocked ≠ 0 then
        match s.rt[k]? with
        | none => s.withFault .oob
        | some r =>
          (if r.acct.blockingDur + blocked > durMax then s.withFault .durOverflow else s).modRt k
            (fun r => { r with acct := { r.acct with blockingDur := r.acct.blockingDur + blocked } })
      else s) ∧
    NoneFrom (k + 1) (if blocked ≠ 0 then
        match s.rt[k]? with
        | none => s.withFault .oob
        | some r =>
          (if r.acct.blockingDur + blocked > durMax then s.withFault .durOverflow else s).modRt k
            (fun r => { r with acct := { r.acct with blockingDur := r.acct.blockingDur + blocked } })
      else s) := by
  have hN1 : NoneFrom (k + 1) s := h.2.mono (Nat.le_succ k)
  by_cases hb : blocked ≠ 0
  · rw [if_pos hb]
    cases hr : s.rt[k]? with
    | none => exact ⟨h.1.withFault _, hN1.withFault _⟩
    | some r =>
      simp only []
      by_cases hd : r.acct.blockingDur + blocked > durMax
      · rw [if_pos hd]
        refine ⟨SlotInv.modRt_none k _ (fun a => ?_) (h.1.withFault _), (hN1.withFault _).modRt _ _⟩
        simpa using h.2 k a (Nat.le_refl _)
      · rw [if_neg hd]
        exact ⟨SlotInv.modRt_none k _ (fun a => h.2 k a (Nat.le_refl _)) h.1, hN1.modRt _ _⟩
  · rw [if_neg hb]; exact ⟨h.1, hN1⟩

/-- Single event, all slots empty beforehand: after the event every filled slot was gated with
    the accounting state as it is after the event. -/
theorem processEvent_slotInv (hQ : GateConseq Q) (e : TEvent) (s : Fw σ) (h0 : NoneFrom 0 s) :
    SlotInv Q (processEvent ρ e s) := by
  have W := walkSlot ρ (σ := σ) hQ
  have hI0 : SlotInv Q s := SlotInv.ofNone h0
  unfold processEvent
  cases e with
  | normalRecv => exact W.transitionAll _ (by decide) s hI0
  | paddingRecv => exact W.transitionAll _ (by decide) s hI0
  | tunnelRecv => exact W.transitionAll _ (by decide) s hI0
  | tunnelSent => exact W.transitionAll _ (by decide) s hI0
  | normalSent =>
    simp only []
    refine (foldl_range_inv (LoopInv Q) _ (fun k s hk => ?_) _ _ ?_).1
    · refine LoopInv.transition ρ hQ _ ⟨?_, ?_⟩
      · exact SlotInv.modRt_none k _ (fun a => hk.2 k a (Nat.le_refl _)) hk.1
      · intro j a hj; simpa using hk.2 j a (by omega)
    · exact ⟨SlotInv.ofNone (fun j a hj => h0 j a hj), fun j a hj => h0 j a hj⟩
  | paddingSent mi =>
    simp only []
    split
    · exact SlotInv.ofNone h0
    · refine W.transDec mi .paddingSent (by decide) _ (fun p => !p.2 && notEnded p.1 mi)
        (fun p hp => by simp only [Bool.and_eq_true] at hp; exact hp.2) ?_
      exact SlotInv.modRt_none mi _ (fun a => h0 mi a (Nat.zero_le _)) (SlotInv.ofNone h0)
  | blockingBegin m =>
    simp only []
    refine W.foldl _ (fun s mi => W.transDec mi .blockingBegin (by decide) s (fun p => !p.2 && notEnded p.1 mi && mi == m)
      (fun p hp => by simp only [Bool.and_eq_true] at hp; exact hp.1.2)) _ _ ?_
    split
    · exact SlotInv.ofNone h0
    · exact hI0
  | blockingEnd =>
    simp only []
    generalize (if s.g.blockingActive then durSince s.g.now s.g.blockingStarted else 0) = blocked
    refine (foldl_range_inv (LoopInv Q) _ (fun k s hk => ?_) _ _ ?_).1
    · exact LoopInv.transition ρ hQ _ (LoopInv.blockingEndAcct blocked hk)
    · have hN : ∀ (t : Fw σ), t.actions = s.actions → LoopInv Q 0 t := fun t ht =>
        ⟨SlotInv.ofNone (fun j a hj => by rw [ht]; exact h0 j a hj), fun j a hj => by rw [ht]; exact h0 j a hj⟩
      split
      · apply hN
        split <;> simp
      · exact hN s rfl
  | timerBegin mi =>
    simp only []
    split
    · exact hI0
    · exact W.transDec mi .timerBegin (by decide) s (fun p => !p.2 && notEnded p.1 mi)
        (fun p hp => by simp only [Bool.and_eq_true] at hp; exact hp.2) hI0
  | timerEnd mi =>
    simp only []
    split
    · exact hI0
    · exact W.transition mi _ _ (by decide) hI0


theorem callStart_noneFrom (s : Fw σ) (t : Int) : NoneFrom 0 (s.callStart t) := by
  intro j a _ h
  change (List.map (fun _ => (none : Option TAction)) s.actions)[j]? = some (some a) at h
  rw [List.getElem?_map] at h
  cases h' : s.actions[j]? <;> simp [h'] at h

/-- After a single-event call, every action in a slot was scheduled under the limit predicates
    evaluated on the accounting state that includes the event. -/
theorem triggerEvents_single_slotInv (hQ : GateConseq Q) (e : TEvent) (t : Int) (s : Fw σ) :
    SlotInv Q (triggerEvents ρ [e] t s) := by
  unfold triggerEvents
  simp only [List.foldl_cons, List.foldl_nil]
  exact (walkSlot ρ hQ).signalRound _ (processEvent_slotInv ρ hQ e _ (callStart_noneFrom s t))

end Mb
