/-
  C09 for machines that have not ended: the Signal deliveries counted as the monitor counts them
  (`C09.deliveries`: entries `trans mi Signal st` with `st ≠ END`). A machine that has not ended
  when the delivery round starts receives its Signal while not ended.
-/
import MbVerif.Proofs.SigSlot
import MbVerif.Proofs.EndAbs
import MbVerif.Spec.C09

namespace Mb
variable {σ : Type} (ρ : Oracle σ)

/-- weight 1 on the Signal deliveries to machine `mi0` while it has not ended -/
def μLive (mi0 : Nat) : LogEntry → Nat
  | .trans m ev st => if m = mi0 ∧ ev = Gen.EV_Signal ∧ st ≠ STATE_END then 1 else 0
  | _ => 0

/-- Signal events delivered to machine `mi0` while it had not ended, according to the log -/
def liveSigOf (mi0 : Nat) (s : Fw σ) : Nat := wsum (μLive mi0) s.log

theorem μLive_le (mi0 : Nat) (e : LogEntry) : μLive mi0 e ≤ μSig mi0 e := by
  cases e with
  | trans m ev st =>
    simp only [μLive, μSig]
    by_cases h : m = mi0 ∧ ev = Gen.EV_Signal
    · rw [if_pos h]; split <;> omega
    · have : ¬ (m = mi0 ∧ ev = Gen.EV_Signal ∧ st ≠ STATE_END) := fun h' => h ⟨h'.1, h'.2.1⟩
      rw [if_neg this]; omega
  | _ => exact Nat.le_refl _

theorem wsum_le_of_le {μ ν : LogEntry → Nat} (h : ∀ e, μ e ≤ ν e) (l : List LogEntry) : wsum μ l ≤ wsum ν l := by
  induction l with
  | nil => exact Nat.le_refl _
  | cons a l ih => rw [wsum_cons, wsum_cons]; have := h a; omega

theorem wsum_gap {μ ν : LogEntry → Nat} (h : ∀ e, μ e ≤ ν e) (e : LogEntry) (l : List LogEntry) (he : e ∈ l) :
    wsum μ l + ν e ≤ wsum ν l + μ e := by
  induction l with
  | nil => cases he
  | cons a l ih =>
    rw [wsum_cons, wsum_cons]
    rcases List.mem_cons.mp he with rfl | h'
    · have := wsum_le_of_le h l; omega
    · have := ih h'; have := h a; omega

theorem notEnded_transition_other (j mi0 : Nat) (ev : Event) (s : Fw σ) (h : j ≠ mi0) :
    notEnded (transition ρ FUEL j ev s).1 mi0 = notEnded s mi0 := by
  unfold notEnded
  rw [(transition_reach ρ FUEL j ev s).frame.rtOther mi0 (Ne.symm h)]

/-- delivering a Signal to machine `j` adds exactly one live delivery for `j` if `j` has not ended,
    and nothing for any other machine -/
theorem live_transition_signal_eq (mi0 j : Nat) (s : Fw σ) (hp : Present mi0 s) :
    liveSigOf mi0 (transition ρ FUEL j .signal s).1 =
      liveSigOf mi0 s + (if j = mi0 ∧ notEnded s mi0 = true then 1 else 0) := by
  obtain ⟨l, e⟩ := (transition_reach ρ FUEL j .signal s).logExt
  have hs := sig_transition_signal_eq ρ mi0 j s hp
  unfold sigOf at hs
  rw [e, wsum_append] at hs
  have hseg : wsum (μSig mi0) l = (if j = mi0 then 1 else 0) := by omega
  have hle := wsum_le_of_le (μLive_le mi0) l
  unfold liveSigOf
  rw [e, wsum_append]
  suffices hsuf : wsum (μLive mi0) l = (if j = mi0 ∧ notEnded s mi0 = true then 1 else 0) by omega
  by_cases hj : j = mi0
  · subst hj
    simp only [if_true, true_and] at hseg ⊢
    obtain ⟨r, m, hr, hm⟩ := hp.get
    obtain ⟨l', e', hmem⟩ := transition_logs_own_entry ρ 7 j .signal s r m hr hm
    rw [← FUEL_succ] at e'
    have hll : l' = l := List.append_cancel_right (e'.symm.trans e)
    rw [hll] at hmem
    have hsigev : Event.signal.toNat = Gen.EV_Signal := (toNat_signal _).mpr rfl
    have hne : notEnded s j = (r.currentState != STATE_END) := by unfold notEnded; rw [hr]
    have hμs : μSig j (.trans j Event.signal.toNat r.currentState) = 1 := by simp [μSig, hsigev]
    by_cases hend : r.currentState = STATE_END
    · have hf : notEnded s j = false := by rw [hne]; simp [hend]
      have hμl : μLive j (.trans j Event.signal.toNat r.currentState) = 0 := by simp [μLive, hend]
      have := wsum_gap (μLive_le j) _ l hmem
      rw [hμs, hμl] at this
      simp only [hf, Bool.false_eq_true, if_false]
      omega
    · have ht : notEnded s j = true := by rw [hne]; simpa using hend
      have hμl : μLive j (.trans j Event.signal.toNat r.currentState) = 1 := by simp [μLive, hsigev, hend]
      have := wsum_mem_le (μLive j) _ l hmem
      simp only [ht, if_true]
      omega
  · simp only [hj, false_and, if_false] at hseg ⊢
    omega

theorem live_fold_signal_eq (mi0 : Nat) (l : List Nat) (hl : l.Nodup) (s : Fw σ) (hp : Present mi0 s) :
    liveSigOf mi0 (l.foldl (fun s mi => (transition ρ FUEL mi .signal s).1) s) =
      liveSigOf mi0 s + (if mi0 ∈ l ∧ notEnded s mi0 = true then 1 else 0) := by
  induction l generalizing s with
  | nil => simp
  | cons a l ih =>
    rw [List.nodup_cons] at hl
    simp only [List.foldl_cons]
    have hp' : Present mi0 (transition ρ FUEL a .signal s).1 :=
      hp.ofRun (Run.ofReach (transition_reach ρ FUEL a .signal s))
    rw [ih hl.2 _ hp', live_transition_signal_eq ρ mi0 a s hp]
    by_cases ha : a = mi0
    · subst ha
      have hn : ¬ a ∈ l := hl.1
      simp [hn]
    · have hne : ¬ mi0 = a := fun h => ha h.symm
      rw [notEnded_transition_other ρ a mi0 .signal s ha]
      simp [ha, hne]

/-- deliveries to other machines do not change whether `x` has ended -/
theorem notEnded_fold_other (x : Nat) (l : List Nat) (hx : x ∉ l) (s : Fw σ) :
    notEnded (l.foldl (fun s mi => (transition ρ FUEL mi .signal s).1) s) x = notEnded s x := by
  induction l generalizing s with
  | nil => rfl
  | cons a l ih =>
    simp only [List.foldl_cons]
    have ha : a ≠ x := fun h => hx (by simp [h])
    have hl : x ∉ l := fun h => hx (by simp [h])
    rw [ih hl, notEnded_transition_other ρ a x .signal s ha]

/-! ### END is absorbing within the delivery round -/

theorem ended_of_not_notEnded {j : Nat} {s : Fw σ} (hj : j < s.rt.length) (h : notEnded s j = false) : Ended j s := by
  unfold notEnded at h
  unfold Ended
  rw [List.getElem?_eq_getElem hj] at h ⊢
  simp only [Option.map_some, Option.some.injEq]
  simpa using h

theorem walkEnded (mi : Nat) : WalkCore ρ (fun (s t : Fw σ) => Ended mi s → Ended mi t) where
  refl _ h := h
  trans h₁ h₂ h := h₂ (h₁ h)
  transition j ev s _ hq := by
    by_cases hj : j = mi
    · subst hj
      obtain ⟨h1, _⟩ := transition_ended ρ FUEL j ev s hq
      unfold Ended; rw [h1]; exact hq
    · unfold Ended; rw [(transition_reach ρ FUEL j ev s).frame.rtOther mi (Ne.symm hj)]; exact hq
  decrement j s hne hq := by
    by_cases hj : j = mi
    · subst hj
      rw [notEnded_false_of_ended hq] at hne
      exact absurd hne (by simp)
    · unfold Ended; rw [(decrementLimit_reach ρ j s).frame.rtOther mi (Ne.symm hj)]; exact hq
  fault s f hq := by unfold Ended at hq ⊢; simpa using hq
  signal _ _ hq := hq

/-- a machine that has not ended after the delivery round had not ended before it -/
theorem notEnded_before_round (j : Nat) (s : Fw σ) (hj : j < s.rt.length)
    (h : notEnded (signalRound ρ s) j = true) : notEnded s j = true := by
  cases hb : notEnded s j with
  | true => rfl
  | false =>
    have he := (walkEnded ρ (σ := σ) j).signalRound s (ended_of_not_notEnded hj hb)
    rw [notEnded_false_of_ended he] at h
    cases h

end Mb

namespace Mb.C09
open Mb
variable {σ : Type} (ρ : Oracle σ)

theorem live_afterFirst (s : Fw σ) (excluded : Option Nat) (j : Nat) (hp : Present j s) :
    liveSigOf j (afterFirst ρ s excluded) =
      liveSigOf j s + (if excluded ≠ some j ∧ notEnded s j = true then 1 else 0) := by
  unfold afterFirst
  have hp0 : Present j ({ s with signalPending := none } : Fw σ) := hp
  rw [live_fold_signal_eq ρ j _ (sr_targets_nodup _ _) _ hp0]
  have e0 : liveSigOf j ({ s with signalPending := none } : Fw σ) = liveSigOf j s := rfl
  have e1 : notEnded ({ s with signalPending := none } : Fw σ) j = notEnded s j := rfl
  rw [e0, e1]
  by_cases hx : excluded = some j
  · subst hx
    simp [sr_excluded_not_visited]
  · have := sr_targets_complete s.rt.length excluded j hp.1 hx
    simp [this, hx]

/-- **The delivery round, live deliveries.** As `round_delivers`, counting only deliveries to a
    machine that has not ended: a machine that has not ended when the round starts receives its one
    Signal while not ended; a machine that has ended receives none. -/
theorem round_delivers_live (s : Fw σ) (j : Nat) (hp : Present j s) :
    (s.signalPending = none → liveSigOf j (signalRound ρ s) = liveSigOf j s) ∧
    (s.signalPending = some .all →
      liveSigOf j (signalRound ρ s) = liveSigOf j s + (if notEnded s j = true then 1 else 0)) ∧
    (∀ x, s.signalPending = some (.allExcept x) →
      (j ≠ x → liveSigOf j (signalRound ρ s) = liveSigOf j s + (if notEnded s j = true then 1 else 0)) ∧
      (j = x → liveSigOf j (signalRound ρ s) =
        liveSigOf j s +
          (if (afterFirst ρ s (some x)).signalPending.isSome = true ∧ notEnded s j = true then 1 else 0))) := by
  refine ⟨fun h => by rw [sr_round_none ρ s h], fun h => ?_, fun x h => ?_⟩
  · rw [sr_round_all ρ s h]
    simp only []
    have h2 := live_afterFirst ρ s none j hp
    unfold afterFirst at h2
    simp only [ne_eq, reduceCtorEq, not_false_eq_true, true_and] at h2
    generalize ((firstRound s.rt.length none).foldl (fun s mi => (transition ρ FUEL mi .signal s).1)
      ({ s with signalPending := none } : Fw σ)) = s2 at h2 ⊢
    cases hs2 : s2.signalPending with
    | none => exact h2
    | some _ => exact h2
  · rw [sr_round_lone ρ s x h]
    simp only []
    have h2 := live_afterFirst ρ s (some x) j hp
    have hp2 := present_afterFirst ρ s (some x) j hp
    have hne2 : x = j → notEnded (afterFirst ρ s (some x)) j = notEnded s j := by
      intro hxj
      subst hxj
      unfold afterFirst
      exact notEnded_fold_other ρ x _ (sr_excluded_not_visited _ _) _
    unfold afterFirst at h2 hp2 hne2 ⊢
    generalize ((firstRound s.rt.length (some x)).foldl (fun s mi => (transition ρ FUEL mi .signal s).1)
      ({ s with signalPending := none } : Fw σ)) = s2 at h2 hp2 hne2 ⊢
    have hp3 : Present j ({ s2 with signalPending := none } : Fw σ) := hp2
    have h3 := live_transition_signal_eq ρ j x ({ s2 with signalPending := none } : Fw σ) hp3
    have e3 : liveSigOf j ({ s2 with signalPending := none } : Fw σ) = liveSigOf j s2 := rfl
    have e4 : notEnded ({ s2 with signalPending := none } : Fw σ) j = notEnded s2 j := rfl
    rw [e3, e4] at h3
    refine ⟨fun hne => ?_, fun heq => ?_⟩
    · have hne' : ¬ x = j := fun h' => hne h'.symm
      have hne'' : some x ≠ some j := fun h' => hne' (Option.some.inj h')
      simp only [ne_eq, hne'', not_false_eq_true, true_and] at h2
      simp only [hne', false_and, if_false, Nat.add_zero] at h3
      cases hs2 : s2.signalPending with
      | none => exact h2
      | some _ => simp only []; rw [h3]; exact h2
    · subst heq
      simp only [ne_eq, not_true_eq_false, false_and, if_false, Nat.add_zero] at h2
      simp only [true_and] at h3
      rw [hne2 rfl] at h3
      cases hs2 : s2.signalPending with
      | none => simpa using h2
      | some _ => simp only [Option.isSome_some, true_and]; rw [h3, h2]

/-- the reported events of a call deliver no Signal at all -/
theorem live_eventsDone (es : List TEvent) (t : Int) (s : Fw σ) (j : Nat) :
    liveSigOf j (eventsDone ρ es t s) = liveSigOf j s := by
  obtain ⟨l, e⟩ := (eventsDone_run ρ es t s).logExt
  have h := sig_eventsDone ρ es t s j
  unfold sigOf at h
  rw [e, wsum_append] at h
  have := wsum_le_of_le (μLive_le j) l
  unfold liveSigOf
  rw [e, wsum_append]
  omega

/-- **A whole call, live deliveries**; "not ended" refers to the state after the reported events of
    the call (a machine that has not ended at the end of the call had not ended then:
    `notEnded_before_round`). -/
theorem call_delivers_live (es : List TEvent) (t : Int) (s : Fw σ) (j : Nat) (hp : Present j s) :
    ((eventsDone ρ es t s).signalPending = none → liveSigOf j (triggerEvents ρ es t s) = liveSigOf j s) ∧
    ((eventsDone ρ es t s).signalPending = some .all →
      liveSigOf j (triggerEvents ρ es t s) =
        liveSigOf j s + (if notEnded (eventsDone ρ es t s) j = true then 1 else 0)) ∧
    (∀ x, (eventsDone ρ es t s).signalPending = some (.allExcept x) →
      (j ≠ x → liveSigOf j (triggerEvents ρ es t s) =
        liveSigOf j s + (if notEnded (eventsDone ρ es t s) j = true then 1 else 0)) ∧
      (j = x → liveSigOf j (triggerEvents ρ es t s) =
        liveSigOf j s +
          (if (afterFirst ρ (eventsDone ρ es t s) (some x)).signalPending.isSome = true ∧
              notEnded (eventsDone ρ es t s) j = true then 1 else 0))) := by
  have hp1 : Present j (eventsDone ρ es t s) := hp.ofRun (eventsDone_run ρ es t s)
  have h := round_delivers_live ρ (eventsDone ρ es t s) j hp1
  rw [live_eventsDone ρ es t s j] at h
  rw [triggerEvents_eq]
  exact h

/-- a machine that has not ended when the call returns had not ended when the delivery round began -/
theorem live_at_end (es : List TEvent) (t : Int) (s : Fw σ) (j : Nat) (hj : j < s.rt.length)
    (h : notEnded (triggerEvents ρ es t s) j = true) : notEnded (eventsDone ρ es t s) j = true := by
  rw [triggerEvents_eq] at h
  exact notEnded_before_round ρ j _ (by rw [run_rtLen (eventsDone_run ρ es t s)]; exact hj) h

/-- the live count is the monitor's count of deliveries -/
theorem wsum_live_eq_deliveries (j : Nat) (l : List LogEntry) : wsum (μLive j) l = deliveries l j := by
  unfold deliveries
  induction l with
  | nil => rfl
  | cons e l ih =>
    rw [wsum_cons, List.countP_cons, ih, Nat.add_comm]
    congr 1
    cases e with
    | trans m ev st =>
      simp only [μLive]
      by_cases h : m = j ∧ ev = Gen.EV_Signal ∧ st ≠ STATE_END
      · rw [if_pos h]
        obtain ⟨h1, h2, h3⟩ := h
        simp [h1, h2, h3]
      · rw [if_neg h]
        have : ¬ ((m == j && ev == Gen.EV_Signal && st != STATE_END) = true) := by
          intro hc
          simp only [Bool.and_eq_true, beq_iff_eq, bne_iff_ne, ne_eq] at hc
          exact h ⟨hc.1.1, hc.1.2, hc.2⟩
        simp [this]
    | _ => simp [μLive]

/-- **What the monitor checks.** For a machine `j` that has not ended when the call returns, the
    monitor's count of Signal deliveries to `j` in the call's log segment is: 0 if no signal is
    pending after the reported events, 1 if the slot is `all`, 1 if the slot is `allExcept x` with
    `x ≠ j`, and for the lone signaller `x` itself 1 if the first round left a signal pending and 0
    otherwise. -/
theorem call_deliveries (es : List TEvent) (t : Int) (s : Fw σ) (j : Nat) (hp : Present j s)
    (hlive : notEnded (triggerEvents ρ es t s) j = true) :
    ∃ l, (triggerEvents ρ es t s).log = l ++ s.log ∧
      ((eventsDone ρ es t s).signalPending = none → deliveries l j = 0) ∧
      ((eventsDone ρ es t s).signalPending = some .all → deliveries l j = 1) ∧
      (∀ x, (eventsDone ρ es t s).signalPending = some (.allExcept x) →
        (j ≠ x → deliveries l j = 1) ∧
        (j = x → deliveries l j =
          if (afterFirst ρ (eventsDone ρ es t s) (some x)).signalPending.isSome = true then 1 else 0)) := by
  obtain ⟨l, e⟩ := triggerEvents_logExt ρ es t s
  have hl : liveSigOf j (triggerEvents ρ es t s) = deliveries l j + liveSigOf j s := by
    unfold liveSigOf; rw [e, wsum_append, wsum_live_eq_deliveries]
  have hne := live_at_end ρ es t s j hp.1 hlive
  obtain ⟨d1, d2, d3⟩ := call_delivers_live ρ es t s j hp
  simp only [hne, if_true, and_true] at d2 d3
  refine ⟨l, e, fun h => ?_, fun h => ?_, fun x h => ⟨fun hx => ?_, fun hx => ?_⟩⟩
  · have := d1 h; omega
  · have := d2 h; omega
  · have := (d3 x h).1 hx; omega
  · have h4 := (d3 x h).2 hx
    by_cases hs : (afterFirst ρ (eventsDone ρ es t s) (some x)).signalPending.isSome = true
    · rw [if_pos hs] at h4 ⊢; omega
    · rw [if_neg hs] at h4 ⊢; omega

end Mb.C09
