/-
  The monitors `C04.monitor`, `C01.monitor` and `C06.fwMonitor` on the model's OWN trace
  (`LL.modelTrace`: per call the events, outcome, returned actions, snapshot and the call's log, as
  the driver records them; the ghost log is emptied before every call).

  * C04: accepted for every machine set, configuration, oracle and history (`c04_monitor_model`).
  * C01: the monitor returns `none` exactly when neither `Framework::new` nor any call of the trace
    faults (`c01_monitor_iff`; the work bound is met by every call of every machine set), hence
    under the hypotheses of `C01_total` (`c01_monitor_model`).
  * C06 (framework level): the log of every call passes `checkDraws` for every machine set, oracle
    and history, faulting or not (`c06_checkDraws_call`); the range check on the draws needs — and
    only needs — that the oracle's uniform draws are of the form `k/2^23`, `k < 2^23`
    (`c06_monitor_model`).
-/
import MbVerif.Proofs.LimitMonitor
import MbVerif.Proofs.EndAbs
import MbVerif.Proofs.WorkBound
import MbVerif.Proofs.DurBound
import MbVerif.Spec.C06

namespace Mb
namespace MA
open LL (resetLog callRec callRecs modelTrace resOf resOf_ok machines_run inv04_resetLog)

variable {σ : Type} (ρ : Oracle σ)

/-! ## C04 -/

theorem c04_go_nil (t : FwTrace) (i : Nat) (ended : List Nat) : C04.monitor.go t i ended [] = none := by
  rw [C04.monitor.go]

theorem c04_go_cons (t : FwTrace) (i : Nat) (ended : List Nat) (c : CallRec) (cs : List CallRec) :
    C04.monitor.go t i ended (c :: cs) =
      if c.res != .ok then none else
      if !C04.outOK t.machines c.actions then some s!"call {i}: output contract (ids/kinds/flags/times) violated"
      else if !C04.noActionForEnded ended c.actions then some s!"call {i}: action for a machine that had ended"
      else C04.monitor.go t (i + 1) (C04.endedOf c.snap) cs := by
  rw [C04.monitor.go]

/-- the monitor's "ended according to the snapshot" is the model's `Ended` -/
theorem ended_of_mem (s : Fw σ) (mi : Nat) (h : mi ∈ C04.endedOf s.snap) : Ended mi s := by
  unfold C04.endedOf at h
  rw [List.mem_filter] at h
  have h2 := h.2
  unfold Ended
  simp only [Fw.snap, List.getElem?_map] at h2
  cases hr : s.rt[mi]? with
  | none => rw [hr] at h2; simp at h2
  | some r =>
    rw [hr] at h2
    simp only [Option.map_some, beq_iff_eq] at h2
    simp [h2]

/-- no action is returned for a machine that the snapshot before the call shows in END -/
theorem noActionForEnded_call (s : Fw σ) (hI : Inv04 s) (c : Call) :
    C04.noActionForEnded (C04.endedOf s.snap) (triggerEvents ρ c.1 c.2 (resetLog s)).actionsOut = true := by
  unfold C04.noActionForEnded
  rw [List.all_eq_true]
  intro a ha
  cases hc : (C04.endedOf s.snap).contains a.machine with
  | false => rfl
  | true =>
    exfalso
    have hmem : a.machine ∈ C04.endedOf s.snap := by simpa using hc
    have hend : Ended a.machine (resetLog s) := ended_of_mem s a.machine hmem
    have hq := triggerEvents_quiet ρ a.machine c.1 c.2 (resetLog s) hend
    have hI' : Inv04 (triggerEvents ρ c.1 c.2 (resetLog s)) :=
      (inv04_resetLog hI).run (triggerEvents_run ρ c.1 c.2 (resetLog s))
    unfold Fw.actionsOut at ha
    rw [List.mem_filterMap] at ha
    obtain ⟨x, hx, hxa⟩ := ha
    simp only [id] at hxa
    subst hxa
    obtain ⟨i, hi⟩ := List.getElem?_of_mem hx
    have := (hI'.slots i a hi).1
    subst this
    exact hq.2 a hi

theorem c04_go_model (t : FwTrace) (h : List Call) : ∀ (i : Nat) (s : Fw σ), s.machines = t.machines → Inv04 s →
    C04.monitor.go t i (C04.endedOf s.snap) (callRecs ρ s h) = none := by
  induction h with
  | nil => intro i s _ _; exact c04_go_nil _ _ _
  | cons c h ih =>
    intro i s hm hI
    rw [callRecs, c04_go_cons]
    have hrun := triggerEvents_run ρ c.1 c.2 (resetLog s)
    have hI' : Inv04 (triggerEvents ρ c.1 c.2 (resetLog s)) := (inv04_resetLog hI).run hrun
    have hm' : (triggerEvents ρ c.1 c.2 (resetLog s)).machines = t.machines := (machines_run hrun).trans hm
    split
    · rfl
    · have h1 : C04.outOK t.machines (callRec ρ s c).actions = true := by
        rw [← hm']; exact hI'.outOK
      have h2 : C04.noActionForEnded (C04.endedOf s.snap) (callRec ρ s c).actions = true :=
        noActionForEnded_call ρ s hI c
      rw [h1, h2]
      simp only [Bool.not_true, Bool.false_eq_true, if_false]
      exact ih (i + 1) _ hm' hI'

/-- **`C04.monitor` accepts the model's own trace of every history.** -/
theorem c04_monitor_model (ms : List Machine) (fp fb : F64) (t0 : Int) (rng : σ) (h : List Call) :
    C04.monitor (modelTrace ρ ms fp fb t0 rng h) = none := by
  unfold C04.monitor
  exact c04_go_model ρ (modelTrace ρ ms fp fb t0 rng h) h 1 (Fw.init ρ ms fp fb t0 rng)
    (machines_run (init_run ρ ms fp fb t0 rng)) (Inv04.init ρ ms fp fb t0 rng)

/-! ## C01 -/

/-- the body of `C01.monitor.go` for one call, with the recursive call abstracted as `k` -/
def c01Step (t : FwTrace) (i : Nat) (seen : List CallRec) (c : CallRec) (k : Option String) : Option String :=
  match c.res with
  | .panic cls =>
    let sp := C01.span t.t0 (seen ++ [c])
    let spanClass := if sp ≥ 2 ^ 60 * 1000000000 then "span>=2^60s" else "span<2^60s"
    some s!"call {i}: panic {cls} {spanClass}"
  | _ =>
    if C01.steps c.log > C01.workBound c.events.length t.machines.length then
      some s!"call {i}: {C01.steps c.log} transition steps exceed the bound {C01.workBound c.events.length t.machines.length}"
    else k

theorem c01_go_nil (t : FwTrace) (i : Nat) (seen : List CallRec) : C01.monitor.go t i seen [] = none := by
  rw [C01.monitor.go]

theorem c01_go_cons (t : FwTrace) (i : Nat) (seen : List CallRec) (c : CallRec) (cs : List CallRec) :
    C01.monitor.go t i seen (c :: cs) = c01Step t i seen c (C01.monitor.go t (i + 1) (seen ++ [c]) cs) := by
  rw [C01.monitor.go]
  rfl

theorem c01Step_ok (t : FwTrace) (i : Nat) (seen : List CallRec) (c : CallRec) (k : Option String)
    (hres : c.res = .ok) (hw : C01.steps c.log ≤ C01.workBound c.events.length t.machines.length) :
    c01Step t i seen c k = k := by
  unfold c01Step
  rw [hres]
  simp only []
  rw [if_neg (by omega)]

theorem c01Step_fault (t : FwTrace) (i : Nat) (seen : List CallRec) (c : CallRec) (k : Option String)
    (f : Fault) (hres : c.res = resOf (some f)) : c01Step t i seen c k ≠ none := by
  unfold c01Step
  rw [hres]
  cases f <;> simp [resOf]

/-- the monitor's step count of a log is the weight the work-bound lemma counts -/
theorem steps_eq (l : List LogEntry) : C01.steps l.reverse = wsum μSteps l := by
  unfold C01.steps
  rw [List.countP_reverse]
  induction l with
  | nil => rfl
  | cons e l ih =>
    rw [wsum_cons, List.countP_cons, ih]
    cases e <;> simp [μSteps, Nat.add_comm]

/-- **work bound in the monitor's terms**: the log of every call of the model, started from an empty
    log, holds at most `workBound events machines` transition entries -/
theorem work_call (s : Fw σ) (hI : Inv04 s) (c : Call) :
    C01.steps (callRec ρ s c).log ≤ C01.workBound (callRec ρ s c).events.length s.machines.length := by
  show C01.steps (triggerEvents ρ c.1 c.2 (resetLog s)).log.reverse ≤ C01.workBound c.1.length s.machines.length
  rw [steps_eq]
  have h := steps_triggerEvents ρ c.1 c.2 (resetLog s)
  have h0 : stepsOf (resetLog s) = 0 := rfl
  have hl : (resetLog s).rt.length = s.machines.length := hI.rtLen
  rw [h0, hl] at h
  unfold stepsOf at h
  unfold C01.workBound
  have h3 : 3 * (s.machines.length + 1) * (c.1.length + 1) ≤ 6 * (c.1.length + 1) * (s.machines.length + 1) := by
    have : 3 * (s.machines.length + 1) * (c.1.length + 1) = 3 * ((c.1.length + 1) * (s.machines.length + 1)) := by
      rw [Nat.mul_assoc, Nat.mul_comm (s.machines.length + 1)]
    rw [this, Nat.mul_assoc]
    exact Nat.mul_le_mul_right _ (by decide)
  omega

/-- the walk of `C01.monitor` over the model's call records ends with `none` exactly when no record
    reports a fault -/
theorem c01_go_iff (t : FwTrace) (h : List Call) : ∀ (i : Nat) (seen : List CallRec) (s : Fw σ),
    s.machines = t.machines → Inv04 s →
    (C01.monitor.go t i seen (callRecs ρ s h) = none ↔ ∀ r ∈ callRecs ρ s h, r.res = .ok) := by
  induction h with
  | nil => intro i seen s _ _; simp [callRecs, c01_go_nil]
  | cons c h ih =>
    intro i seen s hm hI
    rw [callRecs, c01_go_cons]
    have hrun := triggerEvents_run ρ c.1 c.2 (resetLog s)
    have hI' : Inv04 (triggerEvents ρ c.1 c.2 (resetLog s)) := (inv04_resetLog hI).run hrun
    have hm' : (triggerEvents ρ c.1 c.2 (resetLog s)).machines = t.machines := (machines_run hrun).trans hm
    cases hf : (triggerEvents ρ c.1 c.2 (resetLog s)).fault with
    | none =>
      have hres : (callRec ρ s c).res = .ok := (resOf_ok _).2 hf
      rw [c01Step_ok t i seen _ _ hres (by rw [← hm]; exact work_call ρ s hI c), ih (i + 1) _ _ hm' hI']
      simp [hres]
    | some f =>
      have hres : (callRec ρ s c).res = resOf (some f) := by show resOf _ = _; rw [hf]
      constructor
      · intro h0; exact absurd h0 (c01Step_fault t i seen _ _ f hres)
      · intro h0
        have := h0 _ (List.mem_cons_self)
        rw [hres] at this
        cases f <;> simp [resOf] at this

/-- **`C01.monitor` on the model's own trace**: it returns `none` exactly when neither the
    construction nor any call of the trace reports a fault (the work bound is never the reason for a
    report: every call of every machine set meets it) -/
theorem c01_monitor_iff (ms : List Machine) (fp fb : F64) (t0 : Int) (rng : σ) (h : List Call) :
    C01.monitor (modelTrace ρ ms fp fb t0 rng h) = none ↔
      (modelTrace ρ ms fp fb t0 rng h).newRes = .ok ∧ ∀ r ∈ (modelTrace ρ ms fp fb t0 rng h).calls, r.res = .ok := by
  have hgo := c01_go_iff ρ (modelTrace ρ ms fp fb t0 rng h) h 1 [] (Fw.init ρ ms fp fb t0 rng)
    (machines_run (init_run ρ ms fp fb t0 rng)) (Inv04.init ρ ms fp fb t0 rng)
  unfold C01.monitor
  cases hf : (Fw.init ρ ms fp fb t0 rng).fault with
  | none =>
    have hnew : (modelTrace ρ ms fp fb t0 rng h).newRes = .ok := by show resOf _ = _; rw [hf]; rfl
    rw [hnew]
    simp only [bne_self_eq_false, Bool.false_and, Bool.false_eq_true, if_false, true_and]
    exact hgo
  | some f =>
    have hnew : (modelTrace ρ ms fp fb t0 rng h).newRes = resOf (some f) := by show resOf _ = _; rw [hf]
    rw [hnew]
    cases f <;> simp [resOf]

/-- along a history whose clock values stay in a window of width `B` with room for the number of
    calls, no call record of the model reports a fault (validated machines): the invariants of
    `C01_no_crash` and `C01_total` do not mention the ghost log, so they survive its reset -/
theorem callRecs_ok {lo : Int} {B : Nat} (h : List Call) : ∀ (c : Nat) (s : Fw σ), Valid s → SigOK s → Good lo B c s →
    s.fault = none → (c + h.length) * B + B ≤ durMax → (∀ cl ∈ h, lo ≤ cl.2 ∧ cl.2 ≤ lo + B) →
    ∀ r ∈ callRecs ρ s h, r.res = .ok := by
  induction h with
  | nil => intro c s _ _ _ _ _ _ r hr; simp [callRecs] at hr
  | cons cl h ih =>
    intro c s hV hS hG hf hg ht r hr
    have hV0 : Valid (resetLog s) := ⟨hV.lenRt, hV.lenAct, hV.ok, hV.cur⟩
    have hS0 : SigOK (resetLog s) := fun x hx => hS x hx
    have hG0 : Good lo B c (resetLog s) := ⟨⟨hG.1.nowLo, hG.1.nowHi, hG.1.stLo, hG.1.phi, hG.1.le⟩, hG.2⟩
    obtain ⟨hV1, hS1, hN1, _⟩ := okS_triggerEvents ρ cl.1 cl.2 (resetLog s) hV0 hS0
    have hmono : (c + 1) * B + B ≤ durMax := by
      have : (c + 1) * B ≤ (c + (h.length + 1)) * B := Nat.mul_le_mul_right B (by omega)
      simp only [List.length_cons] at hg
      omega
    have hG1 := good_triggerEvents ρ hmono cl.1 cl.2 (ht cl (by simp)) (resetLog s) hG0
    have hf1 : (triggerEvents ρ cl.1 cl.2 (resetLog s)).fault = none := by
      rcases hN1 with h1 | ⟨_, h1⟩
      · rw [h1]; exact hf
      · exact absurd h1 hG1.2
    rw [callRecs, List.mem_cons] at hr
    rcases hr with rfl | hr
    · exact (resOf_ok _).2 hf1
    · refine ih (c + 1) _ hV1 hS1 hG1 hf1 ?_ (fun x hx => ht x (by simp [hx])) r hr
      simp only [List.length_cons] at hg
      rw [show c + 1 + h.length = c + (h.length + 1) by omega]
      exact hg

/-- **`C01.monitor` accepts the model's own trace** under the hypotheses of `C01_total`: machines of
    the validated shape, start time and call times in a window `[lo, lo + B]` (not necessarily
    monotone) with `(calls + 1) * B ≤ Duration::MAX` -/
theorem c01_monitor_model (ms : List Machine) (hok : ∀ m ∈ ms, MachineOK m) (fp fb : F64) (t0 : Int) (rng : σ)
    (h : List Call) (lo : Int) (B : Nat) (ht0 : lo ≤ t0 ∧ t0 ≤ lo + B)
    (ht : ∀ cl ∈ h, lo ≤ cl.2 ∧ cl.2 ≤ lo + B) (hg : (h.length + 1) * B ≤ durMax) :
    C01.monitor (modelTrace ρ ms fp fb t0 rng h) = none := by
  have hV0 := valid_init0 ms fp fb t0 rng hok
  have hS0 : SigOK (Fw.init0 ms fp fb t0 rng) := by intro x hx; simp [Fw.init0] at hx
  obtain ⟨hV1, hS1, hN1, _⟩ := okS_init ρ ms fp fb t0 rng hV0 hS0
  have hG1 : Good lo B 0 (Fw.init ρ ms fp fb t0 rng) := good_init ρ ms fp fb t0 rng ht0
  have hf1 : (Fw.init ρ ms fp fb t0 rng).fault = none := by
    rcases hN1 with h1 | ⟨_, h1⟩
    · rw [h1]; rfl
    · exact absurd h1 hG1.2
  rw [c01_monitor_iff]
  refine ⟨(resOf_ok _).2 hf1, ?_⟩
  refine callRecs_ok ρ h 0 _ hV1 hS1 hG1 hf1 ?_ ht
  rw [Nat.zero_add]; rw [Nat.add_mul, Nat.one_mul] at hg; exact hg

/-! ## C06 (framework level): one fresh draw per transition lookup -/

open C06 (Pending closePending stepDraws checkDrawsFrom checkDraws lookup drawInRange)

/-- the monitor's walk over a log as a fold: the pending state after the log, or the first error -/
def runDraws (ms : List Machine) : Pending → List LogEntry → Except String Pending
  | p, [] => .ok p
  | p, e :: rest =>
    match stepDraws ms p e with
    | .error err => .error err
    | .ok p' => runDraws ms p' rest

theorem checkDrawsFrom_eq (ms : List Machine) (l : List LogEntry) : ∀ p : Pending,
    checkDrawsFrom ms p l = match runDraws ms p l with
      | .error e => some e
      | .ok p' => closePending p' := by
  induction l with
  | nil => intro p; rfl
  | cons e l ih =>
    intro p
    rw [checkDrawsFrom, runDraws]
    cases stepDraws ms p e with
    | error err => rfl
    | ok p' => exact ih p'

theorem runDraws_append (ms : List Machine) (a b : List LogEntry) : ∀ (p p' : Pending),
    runDraws ms p a = .ok p' → runDraws ms p (a ++ b) = runDraws ms p' b := by
  induction a with
  | nil => intro p p' h; rw [runDraws] at h; cases h; rfl
  | cons e a ih =>
    intro p p' h
    rw [runDraws] at h
    rw [List.cons_append, runDraws]
    cases hs : stepDraws ms p e with
    | error err => rw [hs] at h; cases h
    | ok q => rw [hs] at h; exact ih q p' h

/-- nothing is owed: no draw and no sampling is awaited -/
def Closed (p : Pending) : Prop := closePending p = none

/-- a log segment the monitor walks through from any closed state, ending in a closed state -/
def Acc (ms : List Machine) (c : List LogEntry) : Prop :=
  ∀ p, Closed p → ∃ p', Closed p' ∧ runDraws ms p c = .ok p'

theorem Acc.nil (ms : List Machine) : Acc ms [] := fun p hp => ⟨p, hp, rfl⟩

theorem Acc.append {ms : List Machine} {a b : List LogEntry} (ha : Acc ms a) (hb : Acc ms b) : Acc ms (a ++ b) := by
  intro p hp
  obtain ⟨p1, hp1, h1⟩ := ha p hp
  obtain ⟨p2, hp2, h2⟩ := hb p1 hp1
  exact ⟨p2, hp2, by rw [runDraws_append ms a b p p1 h1]; exact h2⟩

/-- entries that belong to no lookup -/
def plain : LogEntry → Bool
  | .trans .. => false
  | .draw _ => false
  | .sampled .. => false
  | _ => true

theorem Acc.single (ms : List Machine) (e : LogEntry) (he : plain e = true) : Acc ms [e] := by
  intro p hp
  refine ⟨.idle, rfl, ?_⟩
  unfold Closed at hp
  cases e with
  | trans => cases he
  | draw => cases he
  | sampled => cases he
  | distRaw b => simp [runDraws, stepDraws, hp]
  | counter => simp [runDraws, stepDraws, hp]
  | limit => simp [runDraws, stepDraws, hp]

/-- a lookup in END, in a missing state or without a transition list: the entry alone -/
theorem Acc.trans0 (ms : List Machine) (mi ev st : Nat) (h : lookup ms mi ev st = none) : Acc ms [.trans mi ev st] := by
  intro p hp
  refine ⟨.noLookup mi ev st, rfl, ?_⟩
  unfold Closed at hp
  simp [runDraws, stepDraws, hp, h]

/-- a lookup with a list whose draw selects nothing -/
theorem Acc.transDraw (ms : List Machine) (mi ev st : Nat) (v : List Trans) (b : F32)
    (h : lookup ms mi ev st = some v) (hs : sampleState v b = none) : Acc ms [.trans mi ev st, .draw b] := by
  intro p hp
  refine ⟨.afterDraw mi ev st b none, rfl, ?_⟩
  unfold Closed at hp
  simp [runDraws, stepDraws, hp, h, hs]

/-- a lookup with a list whose draw selects `next` -/
theorem Acc.transSampled (ms : List Machine) (mi ev st : Nat) (v : List Trans) (b : F32) (next : Nat)
    (h : lookup ms mi ev st = some v) (hs : sampleState v b = some next) :
    Acc ms [.trans mi ev st, .draw b, .sampled mi ev next] := by
  intro p hp
  refine ⟨.idle, rfl, ?_⟩
  unfold Closed at hp
  simp [runDraws, stepDraws, hp, h, hs]

/-- what a state change appends to the log: a segment the monitor accepts, every draw in which came
    from the oracle; the machine list is untouched -/
def R (s t : Fw σ) : Prop :=
  t.machines = s.machines ∧ ∃ c, t.log = c ++ s.log ∧ Acc s.machines c.reverse ∧
    ∀ b, LogEntry.draw b ∈ c → ∃ g, b = (ρ.u g).1

theorem R.refl (s : Fw σ) : R ρ s s := ⟨rfl, [], rfl, Acc.nil _, fun _ h => by cases h⟩

theorem R.trans {s t u : Fw σ} (h₁ : R ρ s t) (h₂ : R ρ t u) : R ρ s u := by
  obtain ⟨hm1, c1, hl1, ha1, hd1⟩ := h₁
  obtain ⟨hm2, c2, hl2, ha2, hd2⟩ := h₂
  refine ⟨hm2.trans hm1, c2 ++ c1, by rw [hl2, hl1, List.append_assoc], ?_, ?_⟩
  · rw [List.reverse_append]
    rw [hm1] at ha2
    exact ha1.append ha2
  · intro b hb
    rcases List.mem_append.1 hb with h | h
    · exact hd2 b h
    · exact hd1 b h

theorem R.keep {s t : Fw σ} (hm : t.machines = s.machines) (hl : t.log = s.log) : R ρ s t :=
  ⟨hm, [], by simp [hl], Acc.nil _, fun _ h => by cases h⟩

theorem R.log1 {s t : Fw σ} (e : LogEntry) (he : plain e = true) (hm : t.machines = s.machines)
    (hl : t.log = e :: s.log) : R ρ s t := by
  refine ⟨hm, [e], by simp [hl], Acc.single _ e he, ?_⟩
  intro b hb
  simp only [List.mem_singleton] at hb
  subst hb
  cases he

theorem r_withFault (s : Fw σ) (f : Fault) : R ρ s (s.withFault f) := R.keep ρ (by simp) (by simp)
theorem r_modRt (s : Fw σ) (mi : Nat) (f : Runtime → Runtime) : R ρ s (s.modRt mi f) := R.keep ρ (by simp) (by simp)
theorem r_push (s : Fw σ) (e : LogEntry) (he : plain e = true) : R ρ s (s.push e) := R.log1 ρ e he rfl rfl

theorem r_distSample (d : Dist) (s : Fw σ) : R ρ s (distSample ρ d s).2 := by
  unfold distSample
  exact R.log1 ρ (.distRaw _) rfl rfl rfl

theorem r_sampleLimit (a : Action) (s : Fw σ) : R ρ s (sampleLimit ρ a s).2 := by
  unfold sampleLimit; split
  · exact R.refl ρ s
  · exact r_distSample ρ _ s

theorem r_sampleValue (c : Counter) (s : Fw σ) : R ρ s (sampleValue ρ c s).2 := by
  unfold sampleValue; split
  · exact R.refl ρ s
  · exact r_distSample ρ _ s

theorem r_sampleTimeout (a : Action) (s : Fw σ) : R ρ s (sampleTimeout ρ a s).2 := by
  unfold sampleTimeout; split
  · exact r_distSample ρ _ s
  · exact r_distSample ρ _ s
  · exact R.refl ρ s

theorem r_sampleDuration (a : Action) (s : Fw σ) : R ρ s (sampleDuration ρ a s).2 := by
  unfold sampleDuration; split
  · exact r_distSample ρ _ s
  · exact r_distSample ρ _ s
  · exact R.refl ρ s

theorem r_enterState (mi : Nat) (m : Machine) (cur next : Nat) (s : Fw σ) : R ρ s (enterState ρ mi m cur next s) := by
  unfold enterState
  split
  · simp only
    have h1 : R ρ s (s.modRt mi (fun r => { r with currentState := next })) := r_modRt ρ s mi _
    split
    · exact h1.trans ρ (r_withFault ρ _ _)
    · split
      · next a _ =>
        exact ((h1.trans ρ (r_sampleLimit ρ a _)).trans ρ (r_modRt ρ _ mi _)).trans ρ (r_push ρ _ _ rfl)
      · exact (h1.trans ρ (r_modRt ρ _ mi _)).trans ρ (r_push ρ _ _ rfl)
  · exact R.refl ρ s

theorem r_counterOperand (c : Counter) (other : Nat) (s : Fw σ) : R ρ s (counterOperand ρ c other s).2 := by
  unfold counterOperand; split
  · exact R.refl ρ s
  · exact r_sampleValue ρ c s

theorem r_storeCounterA (mi oldA newA : Nat) (s : Fw σ) : R ρ s (storeCounterA mi oldA newA s).1 := by
  unfold storeCounterA; simp only
  split
  · exact (r_modRt ρ s mi _).trans ρ (r_modRt ρ _ mi _)
  · exact r_modRt ρ s mi _

theorem r_storeCounterB (mi oldB newB : Nat) (s : Fw σ) : R ρ s (storeCounterB mi oldB newB s).1 := by
  unfold storeCounterB; simp only
  split
  · exact (r_modRt ρ s mi _).trans ρ (r_modRt ρ _ mi _)
  · exact r_modRt ρ s mi _

theorem r_applyCounterA (mi : Nat) (c : Option Counter) (oldA oldB : Nat) (s : Fw σ) :
    R ρ s (applyCounterA ρ mi c oldA oldB s).1 := by
  unfold applyCounterA
  cases c with
  | none => exact R.refl ρ s
  | some c => exact (r_counterOperand ρ c oldB s).trans ρ (r_storeCounterA ρ mi _ _ _)

theorem r_applyCounterB (mi : Nat) (c : Option Counter) (oldA oldB : Nat) (s : Fw σ) :
    R ρ s (applyCounterB ρ mi c oldA oldB s).1 := by
  unfold applyCounterB
  cases c with
  | none => exact R.refl ρ s
  | some c => exact (r_counterOperand ρ c oldA s).trans ρ (r_storeCounterB ρ mi _ _ _)

theorem r_scheduleAction (mi next : Nat) (s : Fw σ) : R ρ s (scheduleAction ρ mi next s) := by
  unfold scheduleAction
  cases hm : s.machines[mi]? with
  | none => exact r_withFault ρ s _
  | some m =>
    simp only []
    cases hst : m.states[next]? with
    | none => exact r_withFault ρ s _
    | some st =>
      simp only []
      split
      · exact r_withFault ρ s _
      · cases hact : st.action with
        | none => exact R.keep ρ rfl rfl
        | some act =>
          cases act with
          | cancel t => exact R.keep ρ rfl rfl
          | sendPadding b rp tmo lim =>
            simp only
            exact (r_sampleTimeout ρ _ s).trans ρ (R.keep ρ rfl rfl)
          | blockOutgoing b rp tmo du lim =>
            simp only
            exact ((r_sampleTimeout ρ _ s).trans ρ (r_sampleDuration ρ _ _)).trans ρ (R.keep ρ rfl rfl)
          | updateTimer rp du lim =>
            simp only
            exact (r_sampleDuration ρ _ s).trans ρ (R.keep ρ rfl rfl)

/-- the head of a transition's log segment: the lookup entry, its draw and (if the draw selects a
    target) the sampling entry -/
theorem r_head {s t : Fw σ} (c : List LogEntry) (hm : t.machines = s.machines) (hl : t.log = c ++ s.log)
    (ha : Acc s.machines c.reverse) (hd : ∀ b, LogEntry.draw b ∈ c → ∃ g, b = (ρ.u g).1) : R ρ s t :=
  ⟨hm, c, hl, ha, hd⟩

/-- **Main lemma** (one more induction over the mutual recursion): whatever `transition` and
    `update_counter` append to the log is accepted by the monitor's walk — every lookup whose state
    declares a list for the event is directly followed by a draw of its own, and by the sampling entry
    exactly when `sampleState` of that list and that draw selects a target. No hypothesis on the
    machines, the fuel or the fault state. -/
theorem c06_main (fuel : Nat) :
    (∀ mi (ev : Event) (s : Fw σ), R ρ s (transition ρ fuel mi ev s).1) ∧
    (∀ mi (s : Fw σ), R ρ s (updateCounter ρ fuel mi s).1) := by
  induction fuel with
  | zero =>
    refine ⟨fun mi ev s => ?_, fun mi s => ?_⟩
    · simp only [transition]; exact r_withFault ρ s _
    · simp only [updateCounter]; exact r_withFault ρ s _
  | succ n ih =>
    obtain ⟨ihT, ihU⟩ := ih
    refine ⟨fun mi ev s => ?_, fun mi s => ?_⟩
    · rw [transition]
      cases hr : s.rt[mi]? with
      | none => simp only []; exact r_withFault ρ s _
      | some r =>
      cases hm : s.machines[mi]? with
      | none => simp only []; exact r_withFault ρ s _
      | some m =>
      simp only []
      -- the lookup entry alone
      have h0 : lookup s.machines mi ev.toNat r.currentState = none →
          R ρ s (s.push (.trans mi ev.toNat r.currentState)) := fun hlk =>
        r_head ρ [.trans mi ev.toNat r.currentState] rfl rfl (Acc.trans0 _ _ _ _ hlk) (fun b hb => by simp at hb)
      split
      · next hend => exact h0 (by simp [lookup, hend])
      · next hne =>
        cases hst : m.states[r.currentState]? with
        | none => simp only []; exact (h0 (by simp [lookup, hne, hm, hst])).trans ρ (r_withFault ρ _ _)
        | some st =>
        simp only []
        cases hvec : st.transitions[ev.toNat]? with
        | none => simp only []; exact (h0 (by simp [lookup, hne, hm, hst, hvec])).trans ρ (r_withFault ρ _ _)
        | some ov =>
        cases ov with
        | none => simp only []; exact h0 (by simp [lookup, hne, hm, hst, hvec])
        | some vec =>
        simp only []
        have hlk : lookup s.machines mi ev.toNat r.currentState = some vec := by simp [lookup, hne, hm, hst, hvec]
        generalize hb : (ρ.u (s.push (.trans mi ev.toNat r.currentState)).rng).1 = b
        have hbo : ∃ g, b = (ρ.u g).1 := ⟨_, hb.symm⟩
        generalize hs1 : (({ (s.push (.trans mi ev.toNat r.currentState)) with
            rng := (ρ.u (s.push (.trans mi ev.toNat r.currentState)).rng).2 }).push (.draw b)) = s1
        have e1m : s1.machines = s.machines := by subst hs1; rfl
        have e1l : s1.log = [.draw b, .trans mi ev.toNat r.currentState] ++ s.log := by subst hs1; rfl
        cases hss : sampleState vec b with
        | none =>
          simp only []
          exact r_head ρ _ e1m e1l (Acc.transDraw _ _ _ _ vec b hlk hss)
            (fun b' hb' => by simp at hb'; subst hb'; exact hbo)
        | some next =>
        simp only []
        have q2 : R ρ s (s1.push (.sampled mi ev.toNat next)) :=
          r_head ρ [.sampled mi ev.toNat next, .draw b, .trans mi ev.toNat r.currentState] e1m
            (by show _ :: s1.log = _; rw [e1l]; rfl) (Acc.transSampled _ _ _ _ vec b next hlk hss)
            (fun b' hb' => by simp at hb'; subst hb'; exact hbo)
        generalize s1.push (.sampled mi ev.toNat next) = s2 at q2 ⊢
        split
        · exact q2.trans ρ (r_modRt ρ _ _ _)
        · split
          · exact q2.trans ρ (R.keep ρ rfl rfl)
          · have q3 := q2.trans ρ (r_enterState ρ mi m r.currentState next s2)
            generalize enterState ρ mi m r.currentState next s2 = s3 at q3 ⊢
            cases hr3 : s3.rt[mi]? with
            | none => simp only []; exact q3.trans ρ (r_withFault ρ _ _)
            | some r1 =>
            simp only []
            cases hbl : belowActionLimits s3.g r1 m with
            | none => simp only []; exact q3.trans ρ (r_withFault ρ _ _)
            | some below =>
            simp only []
            have q4 := q3.trans ρ (ihU mi s3)
            have q5 : R ρ s (if ((updateCounter ρ n mi s3).2.1 && below) = true
                then scheduleAction ρ mi next (updateCounter ρ n mi s3).1 else (updateCounter ρ n mi s3).1) := by
              split
              · exact q4.trans ρ (r_scheduleAction ρ mi next _)
              · exact q4
            generalize (if ((updateCounter ρ n mi s3).2.1 && below) = true
                then scheduleAction ρ mi next (updateCounter ρ n mi s3).1 else (updateCounter ρ n mi s3).1) = s5 at q5 ⊢
            cases hr5 : s5.rt[mi]? with
            | none => simp only []; exact q5.trans ρ (r_withFault ρ _ _)
            | some r2 => simp only []; exact q5
    · rw [updateCounter]
      cases hr : s.rt[mi]? with
      | none => simp only []; exact r_withFault ρ s _
      | some r =>
      cases hm : s.machines[mi]? with
      | none => simp only []; exact r_withFault ρ s _
      | some m =>
      simp only []
      cases hst : m.states[r.currentState]? with
      | none => simp only []; exact r_withFault ρ s _
      | some st =>
      simp only []
      have qA := r_applyCounterA ρ mi st.counterA r.counterA r.counterB s
      generalize applyCounterA ρ mi st.counterA r.counterA r.counterB s = ra at qA ⊢
      have qB := qA.trans ρ (r_applyCounterB ρ mi st.counterB r.counterA r.counterB ra.1)
      generalize applyCounterB ρ mi st.counterB r.counterA r.counterB ra.1 = rb at qB ⊢
      have q2 : R ρ s (rb.1.push (.counter mi r.counterA (counterAOf rb.1 mi) r.counterB (counterBOf rb.1 mi))) :=
        qB.trans ρ (r_push ρ _ _ rfl)
      generalize rb.1.push (.counter mi r.counterA (counterAOf rb.1 mi) r.counterB (counterBOf rb.1 mi)) = s2 at q2 ⊢
      split
      · have q3 := q2.trans ρ (ihT mi .counterZero s2)
        split
        · exact q3.trans ρ (r_withFault ρ _ _)
        · exact q3
      · exact q2

theorem r_transition (j : Nat) (ev : Event) (s : Fw σ) : R ρ s (transition ρ FUEL j ev s).1 :=
  (c06_main ρ FUEL).1 j ev s

theorem r_decrement (j : Nat) (s : Fw σ) : R ρ s (decrementLimit ρ j s) := by
  unfold decrementLimit
  cases hr : s.rt[j]? with
  | none => exact r_withFault ρ s _
  | some r =>
  cases hm : s.machines[j]? with
  | none => exact r_withFault ρ s _
  | some m =>
  simp only []
  generalize (if r.stateLimit > 0 then r.stateLimit - 1 else r.stateLimit) = lim
  have h1 : R ρ s ((s.modRt j (fun r' => { r' with stateLimit := lim })).push (.limit j lim true)) :=
    (r_modRt ρ s j _).trans ρ (r_push ρ _ _ rfl)
  generalize (s.modRt j (fun r' => { r' with stateLimit := lim })).push (.limit j lim true) = s1 at h1 ⊢
  cases hst : m.states[r.currentState]? with
  | none => exact h1.trans ρ (r_withFault ρ _ _)
  | some st =>
  simp only []
  cases hact : st.action with
  | none => exact h1
  | some a =>
    simp only []
    split
    · split
      · exact h1.trans ρ (r_withFault ρ _ _)
      · exact (h1.trans ρ (R.keep ρ (t := { s1 with actions := s1.actions.set j none }) rfl rfl)).trans ρ
          (r_transition ρ j .limitReached _)
    · exact h1

/-- the relation walks over whole calls -/
theorem walkR : Walk ρ (R ρ) where
  refl := R.refl ρ
  trans := fun h₁ h₂ => R.trans ρ h₁ h₂
  transition j ev s _ := r_transition ρ j ev s
  decrement j s _ := r_decrement ρ j s
  fault s f := r_withFault ρ s f
  signal s p := R.keep ρ rfl rfl
  setG s g' := R.keep ρ rfl rfl
  acct s j f _ := r_modRt ρ s j f
  callStart s t := R.keep ρ rfl rfl

theorem r_call (es : List TEvent) (t : Int) (s : Fw σ) : R ρ s (triggerEvents ρ es t s) :=
  (walkR ρ).triggerEvents es t s

theorem r_initLimit (s : Fw σ) (mi : Nat) : R ρ s (initLimit ρ s mi) := by
  unfold initLimit
  split
  · exact r_withFault ρ s _
  · split
    · exact r_withFault ρ s _
    · split
      · exact R.refl ρ s
      · next a _ => exact (r_sampleLimit ρ a s).trans ρ (r_modRt ρ _ mi _)

theorem r_init (ms : List Machine) (fp fb : F64) (t0 : Int) (rng : σ) :
    R ρ (Fw.init0 ms fp fb t0 rng) (Fw.init ρ ms fp fb t0 rng) := by
  unfold Fw.init
  exact (walkR ρ).toWalkCore.foldl _ (fun s mi => r_initLimit ρ s mi) _ _

/-- a log that is the reverse of an accepted segment passes `checkDraws` -/
theorem checkDraws_of_acc (ms : List Machine) (l : List LogEntry) (h : Acc ms l) : checkDraws ms l = none := by
  unfold checkDraws
  rw [checkDrawsFrom_eq]
  obtain ⟨p', hp', hrun⟩ := h .idle rfl
  rw [hrun]
  exact hp'

/-- **the log of every call of the model passes `checkDraws`** — any machines, any oracle, any batch,
    any state, faulting or not -/
theorem c06_checkDraws_call (s : Fw σ) (c : Call) : checkDraws s.machines (callRec ρ s c).log = none := by
  obtain ⟨_, cl, hl, ha, _⟩ := r_call ρ c.1 c.2 (resetLog s)
  apply checkDraws_of_acc
  show Acc s.machines (triggerEvents ρ c.1 c.2 (resetLog s)).log.reverse
  rw [hl]
  simpa [resetLog] using ha

/-- every draw in the log of a call of the model came from the oracle -/
theorem c06_draws_call (s : Fw σ) (c : Call) (b : F32) (hb : LogEntry.draw b ∈ (callRec ρ s c).log) :
    ∃ g, b = (ρ.u g).1 := by
  obtain ⟨_, cl, hl, _, hd⟩ := r_call ρ c.1 c.2 (resetLog s)
  apply hd b
  have : LogEntry.draw b ∈ (triggerEvents ρ c.1 c.2 (resetLog s)).log := List.mem_reverse.1 hb
  rw [hl] at this
  simpa [resetLog] using this

theorem c06_go_nil (t : FwTrace) (i : Nat) : C06.fwMonitor.go t i [] = none := by
  rw [C06.fwMonitor.go]

theorem c06_go_cons (t : FwTrace) (i : Nat) (c : CallRec) (cs : List CallRec) :
    C06.fwMonitor.go t i (c :: cs) =
      if c.res != .ok then none else
      match checkDraws t.machines c.log with
      | some e => some s!"call {i}: {e}"
      | none =>
        match c.log.find? (fun e => match e with | .draw b => !drawInRange b | _ => false) with
        | some (.draw b) => some s!"call {i}: draw {b.toNat} is not one of the 2^23 values k/2^23 in [0,1)"
        | _ => C06.fwMonitor.go t (i + 1) cs := by
  rw [C06.fwMonitor.go]
  rfl

theorem c06_go_model (hu : ∀ g, drawInRange (ρ.u g).1 = true) (t : FwTrace) (h : List Call) :
    ∀ (i : Nat) (s : Fw σ), s.machines = t.machines → C06.fwMonitor.go t i (callRecs ρ s h) = none := by
  induction h with
  | nil => intro i s _; exact c06_go_nil _ _
  | cons c h ih =>
    intro i s hm
    rw [callRecs, c06_go_cons]
    split
    · rfl
    · rw [← hm, c06_checkDraws_call ρ s c]
      simp only []
      have hrun := triggerEvents_run ρ c.1 c.2 (resetLog s)
      have hnext := ih (i + 1) _ ((machines_run hrun).trans hm)
      cases hfind : (callRec ρ s c).log.find? (fun e => match e with | .draw b => !drawInRange b | _ => false) with
      | none => simp only []; exact hnext
      | some e =>
        cases e with
        | draw b =>
          exfalso
          have hp := List.find?_some hfind
          have hmem := List.mem_of_find?_eq_some hfind
          obtain ⟨g, hg⟩ := c06_draws_call ρ s c b hmem
          simp only [Bool.not_eq_true'] at hp
          rw [hg, hu g] at hp
          cases hp
        | trans => simp only []; exact hnext
        | sampled => simp only []; exact hnext
        | distRaw => simp only []; exact hnext
        | counter => simp only []; exact hnext
        | limit => simp only []; exact hnext

/-- the log of the construction passes `checkDraws` (it holds no lookup at all) -/
theorem c06_checkDraws_init (ms : List Machine) (fp fb : F64) (t0 : Int) (rng : σ) :
    checkDraws ms (Fw.init ρ ms fp fb t0 rng).log.reverse = none := by
  obtain ⟨_, cl, hl, ha, _⟩ := r_init ρ ms fp fb t0 rng
  apply checkDraws_of_acc
  rw [hl]
  simpa [Fw.init0] using ha

theorem c06_checkDraws_recs (ms : List Machine) (h : List Call) : ∀ s : Fw σ, s.machines = ms →
    ∀ r ∈ callRecs ρ s h, checkDraws ms r.log = none := by
  induction h with
  | nil => intro s _ r hr; simp [callRecs] at hr
  | cons c h ih =>
    intro s hm r hr
    rw [callRecs, List.mem_cons] at hr
    rcases hr with rfl | hr
    · rw [← hm]; exact c06_checkDraws_call ρ s c
    · exact ih _ ((machines_run (triggerEvents_run ρ c.1 c.2 (resetLog s))).trans hm) r hr

/-- **every log of the model's trace passes `checkDraws`** — any machines, any oracle, any history,
    faulting or not: each lookup whose state declares a list for the event is directly followed by a
    draw of its own and by the sampling entry exactly when the declared probabilities assign a target
    to that draw; no draw and no sampling occurs anywhere else -/
theorem c06_checkDraws_trace (ms : List Machine) (fp fb : F64) (t0 : Int) (rng : σ) (h : List Call) :
    checkDraws ms (modelTrace ρ ms fp fb t0 rng h).log0 = none ∧
    ∀ r ∈ (modelTrace ρ ms fp fb t0 rng h).calls, checkDraws ms r.log = none :=
  ⟨c06_checkDraws_init ρ ms fp fb t0 rng,
   c06_checkDraws_recs ρ ms h _ (machines_run (init_run ρ ms fp fb t0 rng))⟩

/-- **`C06.fwMonitor` accepts the model's own trace of every history**, for every oracle whose uniform
    draws are among the `2^23` values `k/2^23` (the rule on the draws and samplings needs no
    hypothesis at all: `c06_checkDraws_trace`) -/
theorem c06_monitor_model (hu : ∀ g, drawInRange (ρ.u g).1 = true) (ms : List Machine) (fp fb : F64) (t0 : Int)
    (rng : σ) (h : List Call) : C06.fwMonitor (modelTrace ρ ms fp fb t0 rng h) = none := by
  unfold C06.fwMonitor
  show (match checkDraws ms (Fw.init ρ ms fp fb t0 rng).log.reverse with
    | some e => some s!"new: {e}"
    | none => C06.fwMonitor.go (modelTrace ρ ms fp fb t0 rng h) 0 (callRecs ρ (Fw.init ρ ms fp fb t0 rng) h)) = none
  rw [c06_checkDraws_init ρ ms fp fb t0 rng]
  exact c06_go_model ρ hu (modelTrace ρ ms fp fb t0 rng h) h 0 (Fw.init ρ ms fp fb t0 rng)
    (machines_run (init_run ρ ms fp fb t0 rng))

end MA
end Mb
