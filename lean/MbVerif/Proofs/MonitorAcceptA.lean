/-
  The monitors `C04.monitor`, `C01.monitor` and `C06.fwMonitor` on the model's OWN trace
  (`LL.modelTrace`: per call the events, outcome, returned actions, snapshot and the call's log, as
  the driver records them; the ghost log is emptied before every call).

  * C04: accepted for every machine set, configuration, oracle and history (`c04_monitor_model`).
  * C01: the monitor returns `none` exactly when neither `Framework::new` nor any call of the trace
    faults (`c01_monitor_iff`; the work bound is met by every call of every machine set), hence
    under the hypotheses of `C01_total` (`c01_monitor_model`).
  * C06 (framework level): the log of every call passes `checkDraws` for every machine set, oracle
    and history, faulting or not (`c06_checkDraws_call`); the range check on the draws needs — and
    only needs — that the oracle's uniform draws are of the form `k/2^23`, `k < 2^23`
    (`c06_monitor_model`).
-/
import MbVerif.Proofs.LimitMonitor
import MbVerif.Proofs.EndAbs
import MbVerif.Proofs.WorkBound
import MbVerif.Proofs.DurBound
import MbVerif.Spec.C06

namespace Mb
namespace MA
open LL (resetLog callRec callRecs modelTrace resOf resOf_ok machines_run inv04_resetLog)

variable {σ : Type} (ρ : Oracle σ)

/-! ## C04 -/

theorem c04_go_nil (t : FwTrace) (i : Nat) (ended : List Nat) : C04.monitor.go t i ended [] = none := by
  rw [C04.monitor.go]

theorem c04_go_cons (t : FwTrace) (i : Nat) (ended : List Nat) (c : CallRec) (cs : List CallRec) :
    C04.monitor.go t i ended (c :: cs) =
      if c.res != .ok then none else
      if !C04.outOK t.machines c.actions then some s!"call {i}: output contract (ids/kinds/flags/times) violated"
      else if !C04.noActionForEnded ended c.actions then some s!"call {i}: action for a machine that had ended"
      else C04.monitor.go t (i + 1) (C04.endedOf c.snap) cs := by
  rw [C04.monitor.go]

/-- the monitor's "ended according to the snapshot" is the model's `Ended` -/
theorem ended_of_mem (s : Fw σ) (mi : Nat) (h : mi ∈ C04.endedOf s.snap) : Ended mi s := by
  unfold C04.endedOf at h
  rw [List.mem_filter] at h
  have h2 := h.2
  unfold Ended
  simp only [Fw.snap, List.getElem?_map] at h2
  cases hr : s.rt[mi]? with
  | none => rw [hr] at h2; simp at h2
  | some r =>
    rw [hr] at h2
    simp only [Option.map_some, beq_iff_eq] at h2
    simp [h2]

/-- no action is returned for a machine that the snapshot before the call shows in END -/
theorem noActionForEnded_call (s : Fw σ) (hI : Inv04 s) (c : Call) :
    C04.noActionForEnded (C04.endedOf s.snap) (triggerEvents ρ c.1 c.2 (resetLog s)).actionsOut = true := by
  unfold C04.noActionForEnded
  rw [List.all_eq_true]
  intro a ha
  cases hc : (C04.endedOf s.snap).contains a.machine with
  | false => rfl
  | true =>
    exfalso
    have hmem : a.machine ∈ C04.endedOf s.snap := by simpa using hc
    have hend : Ended a.machine (resetLog s) := ended_of_mem s a.machine hmem
    have hq := triggerEvents_quiet ρ a.machine c.1 c.2 (resetLog s) hend
    have hI' : Inv04 (triggerEvents ρ c.1 c.2 (resetLog s)) :=
      (inv04_resetLog hI).run (triggerEvents_run ρ c.1 c.2 (resetLog s))
    unfold Fw.actionsOut at ha
    rw [List.mem_filterMap] at ha
    obtain ⟨x, hx, hxa⟩ := ha
    simp only [id] at hxa
    subst hxa
    obtain ⟨i, hi⟩ := List.getElem?_of_mem hx
    have := (hI'.slots i a hi).1
    subst this
    exact hq.2 a hi

theorem c04_go_model (t : FwTrace) (h : List Call) : ∀ (i : Nat) (s : Fw σ), s.machines = t.machines → Inv04 s →
    C04.monitor.go t i (C04.endedOf s.snap) (callRecs ρ s h) = none := by
  induction h with
  | nil => intro i s _ _; exact c04_go_nil _ _ _
  | cons c h ih =>
    intro i s hm hI
    rw [callRecs, c04_go_cons]
    have hrun := triggerEvents_run ρ c.1 c.2 (resetLog s)
    have hI' : Inv04 (triggerEvents ρ c.1 c.2 (resetLog s)) := (inv04_resetLog hI).run hrun
    have hm' : (triggerEvents ρ c.1 c.2 (resetLog s)).machines = t.machines := (machines_run hrun).trans hm
    split
    · rfl
    · have h1 : C04.outOK t.machines (callRec ρ s c).actions = true := by
        rw [← hm']; exact hI'.outOK
      have h2 : C04.noActionForEnded (C04.endedOf s.snap) (callRec ρ s c).actions = true :=
        noActionForEnded_call ρ s hI c
      rw [h1, h2]
      simp only [Bool.not_true, Bool.false_eq_true, if_false]
      exact ih (i + 1) _ hm' hI'

/-- **`C04.monitor` accepts the model's own trace of every history.** -/
theorem c04_monitor_model (ms : List Machine) (fp fb : F64) (t0 : Int) (rng : σ) (h : List Call) :
    C04.monitor (modelTrace ρ ms fp fb t0 rng h) = none := by
  unfold C04.monitor
  exact c04_go_model ρ (modelTrace ρ ms fp fb t0 rng h) h 1 (Fw.init ρ ms fp fb t0 rng)
    (machines_run (init_run ρ ms fp fb t0 rng)) (Inv04.init ρ ms fp fb t0 rng)

end MA
end Mb
