/-
  The monitors `C04.monitor`, `C01.monitor` and `C06.fwMonitor` on the model's OWN trace
  (`LL.modelTrace`: per call the events, outcome, returned actions, snapshot and the call's log, as
  the driver records them; the ghost log is emptied before every call).

  * C04: accepted for every machine set, configuration, oracle and history (`c04_monitor_model`).
  * C01: the monitor returns `none` exactly when neither `Framework::new` nor any call of the trace
    faults (`c01_monitor_iff`; the work bound is met by every call of every machine set), hence
    under the hypotheses of `C01_total` (`c01_monitor_model`).
  * C06 (framework level): the log of every call passes `checkDraws` for every machine set, oracle
    and history, faulting or not (`c06_checkDraws_call`); the range check on the draws needs — and
    only needs — that the oracle's uniform draws are of the form `k/2^23`, `k < 2^23`
    (`c06_monitor_model`).
-/
import MbVerif.Proofs.LimitMonitor
import MbVerif.Proofs.EndAbs
import MbVerif.Proofs.WorkBound
import MbVerif.Proofs.DurBound
import MbVerif.Spec.C06

namespace Mb
namespace MA
open LL (resetLog callRec callRecs modelTrace resOf resOf_ok machines_run inv04_resetLog)

variable {σ : Type} (ρ : Oracle σ)

/-! ## C04 -/

theorem c04_go_nil (t : FwTrace) (i : Nat) (ended : List Nat) : C04.monitor.go t i ended [] = none := by
  rw [C04.monitor.go]

theorem c04_go_cons (t : FwTrace) (i : Nat) (ended : List Nat) (c : CallRec) (cs : List CallRec) :
    C04.monitor.go t i ended (c :: cs) =
      if c.res != .ok then none else
      if !C04.outOK t.machines c.actions then some s!"call {i}: output contract (ids/kinds/flags/times) violated"
      else if !C04.noActionForEnded ended c.actions then some s!"call {i}: action for a machine that had ended"
      else C04.monitor.go t (i + 1) (C04.endedOf c.snap) cs := by
  rw [C04.monitor.go]

/-- the monitor's "ended according to the snapshot" is the model's `Ended` -/
theorem ended_of_mem (s : Fw σ) (mi : Nat) (h : mi ∈ C04.endedOf s.snap) : Ended mi s := by
  unfold C04.endedOf at h
  rw [List.mem_filter] at h
  have h2 := h.2
  unfold Ended
  simp only [Fw.snap, List.getElem?_map] at h2
  cases hr : s.rt[mi]? with
  | none => rw [hr] at h2; simp at h2
  | some r =>
    rw [hr] at h2
    simp only [Option.map_some, beq_iff_eq] at h2
    simp [h2]

/-- no action is returned for a machine that the snapshot before the call shows in END -/
theorem noActionForEnded_call (s : Fw σ) (hI : Inv04 s) (c : Call) :
    C04.noActionForEnded (C04.endedOf s.snap) (triggerEvents ρ c.1 c.2 (resetLog s)).actionsOut = true := by
  unfold C04.noActionForEnded
  rw [List.all_eq_true]
  intro a ha
  cases hc : (C04.endedOf s.snap).contains a.machine with
  | false => rfl
  | true =>
    exfalso
    have hmem : a.machine ∈ C04.endedOf s.snap := by simpa using hc
    have hend : Ended a.machine (resetLog s) := ended_of_mem s a.machine hmem
    have hq := triggerEvents_quiet ρ a.machine c.1 c.2 (resetLog s) hend
    have hI' : Inv04 (triggerEvents ρ c.1 c.2 (resetLog s)) :=
      (inv04_resetLog hI).run (triggerEvents_run ρ c.1 c.2 (resetLog s))
    unfold Fw.actionsOut at ha
    rw [List.mem_filterMap] at ha
    obtain ⟨x, hx, hxa⟩ := ha
    simp only [id] at hxa
    subst hxa
    obtain ⟨i, hi⟩ := List.getElem?_of_mem hx
    have := (hI'.slots i a hi).1
    subst this
    exact hq.2 a hi

theorem c04_go_model (t : FwTrace) (h : List Call) : ∀ (i : Nat) (s : Fw σ), s.machines = t.machines → Inv04 s →
    C04.monitor.go t i (C04.endedOf s.snap) (callRecs ρ s h) = none := by
  induction h with
  | nil => intro i s _ _; exact c04_go_nil _ _ _
  | cons c h ih =>
    intro i s hm hI
    rw [callRecs, c04_go_cons]
    have hrun := triggerEvents_run ρ c.1 c.2 (resetLog s)
    have hI' : Inv04 (triggerEvents ρ c.1 c.2 (resetLog s)) := (inv04_resetLog hI).run hrun
    have hm' : (triggerEvents ρ c.1 c.2 (resetLog s)).machines = t.machines := (machines_run hrun).trans hm
    split
    · rfl
    · have h1 : C04.outOK t.machines (callRec ρ s c).actions = true := by
        rw [← hm']; exact hI'.outOK
      have h2 : C04.noActionForEnded (C04.endedOf s.snap) (callRec ρ s c).actions = true :=
        noActionForEnded_call ρ s hI c
      rw [h1, h2]
      simp only [Bool.not_true, Bool.false_eq_true, if_false]
      exact ih (i + 1) _ hm' hI'

/-- **`C04.monitor` accepts the model's own trace of every history.** -/
theorem c04_monitor_model (ms : List Machine) (fp fb : F64) (t0 : Int) (rng : σ) (h : List Call) :
    C04.monitor (modelTrace ρ ms fp fb t0 rng h) = none := by
  unfold C04.monitor
  exact c04_go_model ρ (modelTrace ρ ms fp fb t0 rng h) h 1 (Fw.init ρ ms fp fb t0 rng)
    (machines_run (init_run ρ ms fp fb t0 rng)) (Inv04.init ρ ms fp fb t0 rng)

/-! ## C01 -/

/-- the body of `C01.monitor.go` for one call, with the recursive call abstracted as `k` -/
def c01Step (t : FwTrace) (i : Nat) (seen : List CallRec) (c : CallRec) (k : Option String) : Option String :=
  match c.res with
  | .panic cls =>
    let sp := C01.span t.t0 (seen ++ [c])
    let spanClass := if sp ≥ 2 ^ 60 * 1000000000 then "span>=2^60s" else "span<2^60s"
    some s!"call {i}: panic {cls} {spanClass}"
  | _ =>
    if C01.steps c.log > C01.workBound c.events.length t.machines.length then
      some s!"call {i}: {C01.steps c.log} transition steps exceed the bound {C01.workBound c.events.length t.machines.length}"
    else k

theorem c01_go_nil (t : FwTrace) (i : Nat) (seen : List CallRec) : C01.monitor.go t i seen [] = none := by
  rw [C01.monitor.go]

theorem c01_go_cons (t : FwTrace) (i : Nat) (seen : List CallRec) (c : CallRec) (cs : List CallRec) :
    C01.monitor.go t i seen (c :: cs) = c01Step t i seen c (C01.monitor.go t (i + 1) (seen ++ [c]) cs) := by
  rw [C01.monitor.go]
  rfl

theorem c01Step_ok (t : FwTrace) (i : Nat) (seen : List CallRec) (c : CallRec) (k : Option String)
    (hres : c.res = .ok) (hw : C01.steps c.log ≤ C01.workBound c.events.length t.machines.length) :
    c01Step t i seen c k = k := by
  unfold c01Step
  rw [hres]
  simp only []
  rw [if_neg (by omega)]

theorem c01Step_fault (t : FwTrace) (i : Nat) (seen : List CallRec) (c : CallRec) (k : Option String)
    (f : Fault) (hres : c.res = resOf (some f)) : c01Step t i seen c k ≠ none := by
  unfold c01Step
  rw [hres]
  cases f <;> simp [resOf]

/-- the monitor's step count of a log is the weight the work-bound lemma counts -/
theorem steps_eq (l : List LogEntry) : C01.steps l.reverse = wsum μSteps l := by
  unfold C01.steps
  rw [List.countP_reverse]
  induction l with
  | nil => rfl
  | cons e l ih =>
    rw [wsum_cons, List.countP_cons, ih]
    cases e <;> simp [μSteps, Nat.add_comm]

/-- **work bound in the monitor's terms**: the log of every call of the model, started from an empty
    log, holds at most `workBound events machines` transition entries -/
theorem work_call (s : Fw σ) (hI : Inv04 s) (c : Call) :
    C01.steps (callRec ρ s c).log ≤ C01.workBound (callRec ρ s c).events.length s.machines.length := by
  show C01.steps (triggerEvents ρ c.1 c.2 (resetLog s)).log.reverse ≤ C01.workBound c.1.length s.machines.length
  rw [steps_eq]
  have h := steps_triggerEvents ρ c.1 c.2 (resetLog s)
  have h0 : stepsOf (resetLog s) = 0 := rfl
  have hl : (resetLog s).rt.length = s.machines.length := hI.rtLen
  rw [h0, hl] at h
  unfold stepsOf at h
  unfold C01.workBound
  have h3 : 3 * (s.machines.length + 1) * (c.1.length + 1) ≤ 6 * (c.1.length + 1) * (s.machines.length + 1) := by
    have : 3 * (s.machines.length + 1) * (c.1.length + 1) = 3 * ((c.1.length + 1) * (s.machines.length + 1)) := by
      rw [Nat.mul_assoc, Nat.mul_comm (s.machines.length + 1)]
    rw [this, Nat.mul_assoc]
    exact Nat.mul_le_mul_right _ (by decide)
  omega

/-- the walk of `C01.monitor` over the model's call records ends with `none` exactly when no record
    reports a fault -/
theorem c01_go_iff (t : FwTrace) (h : List Call) : ∀ (i : Nat) (seen : List CallRec) (s : Fw σ),
    s.machines = t.machines → Inv04 s →
    (C01.monitor.go t i seen (callRecs ρ s h) = none ↔ ∀ r ∈ callRecs ρ s h, r.res = .ok) := by
  induction h with
  | nil => intro i seen s _ _; simp [callRecs, c01_go_nil]
  | cons c h ih =>
    intro i seen s hm hI
    rw [callRecs, c01_go_cons]
    have hrun := triggerEvents_run ρ c.1 c.2 (resetLog s)
    have hI' : Inv04 (triggerEvents ρ c.1 c.2 (resetLog s)) := (inv04_resetLog hI).run hrun
    have hm' : (triggerEvents ρ c.1 c.2 (resetLog s)).machines = t.machines := (machines_run hrun).trans hm
    cases hf : (triggerEvents ρ c.1 c.2 (resetLog s)).fault with
    | none =>
      have hres : (callRec ρ s c).res = .ok := (resOf_ok _).2 hf
      rw [c01Step_ok t i seen _ _ hres (by rw [← hm]; exact work_call ρ s hI c), ih (i + 1) _ _ hm' hI']
      simp [hres]
    | some f =>
      have hres : (callRec ρ s c).res = resOf (some f) := by show resOf _ = _; rw [hf]
      constructor
      · intro h0; exact absurd h0 (c01Step_fault t i seen _ _ f hres)
      · intro h0
        have := h0 _ (List.mem_cons_self)
        rw [hres] at this
        cases f <;> simp [resOf] at this

/-- **`C01.monitor` on the model's own trace**: it returns `none` exactly when neither the
    construction nor any call of the trace reports a fault (the work bound is never the reason for a
    report: every call of every machine set meets it) -/
theorem c01_monitor_iff (ms : List Machine) (fp fb : F64) (t0 : Int) (rng : σ) (h : List Call) :
    C01.monitor (modelTrace ρ ms fp fb t0 rng h) = none ↔
      (modelTrace ρ ms fp fb t0 rng h).newRes = .ok ∧ ∀ r ∈ (modelTrace ρ ms fp fb t0 rng h).calls, r.res = .ok := by
  have hgo := c01_go_iff ρ (modelTrace ρ ms fp fb t0 rng h) h 1 [] (Fw.init ρ ms fp fb t0 rng)
    (machines_run (init_run ρ ms fp fb t0 rng)) (Inv04.init ρ ms fp fb t0 rng)
  unfold C01.monitor
  cases hf : (Fw.init ρ ms fp fb t0 rng).fault with
  | none =>
    have hnew : (modelTrace ρ ms fp fb t0 rng h).newRes = .ok := by show resOf _ = _; rw [hf]; rfl
    rw [hnew]
    simp only [bne_self_eq_false, Bool.false_and, Bool.false_eq_true, if_false, true_and]
    exact hgo
  | some f =>
    have hnew : (modelTrace ρ ms fp fb t0 rng h).newRes = resOf (some f) := by show resOf _ = _; rw [hf]
    rw [hnew]
    cases f <;> simp [resOf]

/-- along a history whose clock values stay in a window of width `B` with room for the number of
    calls, no call record of the model reports a fault (validated machines): the invariants of
    `C01_no_crash` and `C01_total` do not mention the ghost log, so they survive its reset -/
theorem callRecs_ok {lo : Int} {B : Nat} (h : List Call) : ∀ (c : Nat) (s : Fw σ), Valid s → SigOK s → Good lo B c s →
    s.fault = none → (c + h.length) * B + B ≤ durMax → (∀ cl ∈ h, lo ≤ cl.2 ∧ cl.2 ≤ lo + B) →
    ∀ r ∈ callRecs ρ s h, r.res = .ok := by
  induction h with
  | nil => intro c s _ _ _ _ _ _ r hr; simp [callRecs] at hr
  | cons cl h ih =>
    intro c s hV hS hG hf hg ht r hr
    have hV0 : Valid (resetLog s) := ⟨hV.lenRt, hV.lenAct, hV.ok, hV.cur⟩
    have hS0 : SigOK (resetLog s) := fun x hx => hS x hx
    have hG0 : Good lo B c (resetLog s) := ⟨⟨hG.1.nowLo, hG.1.nowHi, hG.1.stLo, hG.1.phi, hG.1.le⟩, hG.2⟩
    obtain ⟨hV1, hS1, hN1, _⟩ := okS_triggerEvents ρ cl.1 cl.2 (resetLog s) hV0 hS0
    have hmono : (c + 1) * B + B ≤ durMax := by
      have : (c + 1) * B ≤ (c + (h.length + 1)) * B := Nat.mul_le_mul_right B (by omega)
      simp only [List.length_cons] at hg
      omega
    have hG1 := good_triggerEvents ρ hmono cl.1 cl.2 (ht cl (by simp)) (resetLog s) hG0
    have hf1 : (triggerEvents ρ cl.1 cl.2 (resetLog s)).fault = none := by
      rcases hN1 with h1 | ⟨_, h1⟩
      · rw [h1]; exact hf
      · exact absurd h1 hG1.2
    rw [callRecs, List.mem_cons] at hr
    rcases hr with rfl | hr
    · exact (resOf_ok _).2 hf1
    · refine ih (c + 1) _ hV1 hS1 hG1 hf1 ?_ (fun x hx => ht x (by simp [hx])) r hr
      simp only [List.length_cons] at hg
      rw [show c + 1 + h.length = c + (h.length + 1) by omega]
      exact hg

/-- **`C01.monitor` accepts the model's own trace** under the hypotheses of `C01_total`: machines of
    the validated shape, start time and call times in a window `[lo, lo + B]` (not necessarily
    monotone) with `(calls + 1) * B ≤ Duration::MAX` -/
theorem c01_monitor_model (ms : List Machine) (hok : ∀ m ∈ ms, MachineOK m) (fp fb : F64) (t0 : Int) (rng : σ)
    (h : List Call) (lo : Int) (B : Nat) (ht0 : lo ≤ t0 ∧ t0 ≤ lo + B)
    (ht : ∀ cl ∈ h, lo ≤ cl.2 ∧ cl.2 ≤ lo + B) (hg : (h.length + 1) * B ≤ durMax) :
    C01.monitor (modelTrace ρ ms fp fb t0 rng h) = none := by
  have hV0 := valid_init0 ms fp fb t0 rng hok
  have hS0 : SigOK (Fw.init0 ms fp fb t0 rng) := by intro x hx; simp [Fw.init0] at hx
  obtain ⟨hV1, hS1, hN1, _⟩ := okS_init ρ ms fp fb t0 rng hV0 hS0
  have hG1 : Good lo B 0 (Fw.init ρ ms fp fb t0 rng) := good_init ρ ms fp fb t0 rng ht0
  have hf1 : (Fw.init ρ ms fp fb t0 rng).fault = none := by
    rcases hN1 with h1 | ⟨_, h1⟩
    · rw [h1]; rfl
    · exact absurd h1 hG1.2
  rw [c01_monitor_iff]
  refine ⟨(resOf_ok _).2 hf1, ?_⟩
  refine callRecs_ok ρ h 0 _ hV1 hS1 hG1 hf1 ?_ ht
  rw [Nat.zero_add]; rw [Nat.add_mul, Nat.one_mul] at hg; exact hg

end MA
end Mb
