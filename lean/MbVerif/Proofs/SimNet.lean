/-
  Lemmas about the network stack: what each arm of `sim_network_stack` pushes.
-/
import MbVerif.Proofs.SimRecord

namespace Mb.Sim
open Mb

theorem durChk_ok {n v : Nat} (h : durChk n = .ok v) : v = n := by
  unfold durChk at h
  split at h
  · cases h
  · cases h; rfl

theorem pushAggregateDelay_network {b b' : Bottleneck} {bd : Nat} {now : Int} {c : Bool}
    (h : b.pushAggregateDelay bd now c = .ok b') : b'.network = b.network := by
  unfold Bottleneck.pushAggregateDelay at h
  rw [bind_ok_iff] at h
  obtain ⟨d4, _, h⟩ := h
  rw [bind_ok_iff] at h
  obtain ⟨d3, _, h⟩ := h
  simp only [pure, Except.pure] at h
  cases h
  rfl

/-- `NetworkBottleneck::sample` returns at least the configured delay and keeps the network model -/
theorem sample_spec {b b' : Bottleneck} {now : Int} {c : Bool} {r : Nat × Option Nat}
    (h : b.sample now c = .ok (r, b')) : b.network.delay ≤ r.1 ∧ b'.network = b.network := by
  unfold Bottleneck.sample at h
  simp only [] at h
  rw [bind_ok_iff] at h
  obtain ⟨delay, _, h⟩ := h
  unfold Bottleneck.sampleResult at h
  split at h
  · rw [bind_ok_iff] at h
    obtain ⟨tot, ht, h⟩ := h
    simp only [pure, Except.pure] at h
    cases h
    have := durChk_ok ht
    constructor
    · cases c <;> simp at this ⊢ <;> omega
    · split <;> rfl
  · simp only [pure, Except.pure] at h
    cases h
    constructor
    · split <;> exact Nat.le_refl _
    · split <;> rfl

theorem ppsAgg_network {sq : SimQueue} {next : SimEvent} {net net' : Bottleneck} {bl : Option Nat} {now : Int}
    (h : ppsAgg sq next net bl now = .ok net') : net'.network = net.network := by
  unfold ppsAgg at h
  split at h
  · split at h
    · exact pushAggregateDelay_network h
    · cases h; rfl
  · cases h; rfl

theorem recvFor_spec (next : SimEvent) (nd : Nat) (now : Int) :
    ∃ t : Int, recvFor next nd now = ⟨.tunnelRecv, t, !next.client, next.containsPadding, false, false⟩ ∧
      next.time + nd ≤ t := by
  unfold recvFor
  by_cases hp : next.containsPadding = true
  · simp only [hp, Bool.not_true, Bool.false_eq_true, if_false]
    exact ⟨_, rfl, Int.le_refl _⟩
  · have hp' : next.containsPadding = false := by simpa using hp
    simp only [hp', Bool.not_false, if_true]
    exact ⟨_, rfl, Int.le_max_left _ _⟩

/-- **One TunnelRecv per TunnelSent**: the TunnelSent arm queues exactly one TunnelRecv, on the
    other side, of the same kind, at least one configured network delay after the send. -/
theorem netTunnelSent_spec {next : SimEvent} {sq sq' : SimQueue} {net net' : Bottleneck} {now : Int}
    (h : netTunnelSent next sq net now = .ok (sq', net')) :
    ∃ t : Int, sq' = sq.pushSim ⟨.tunnelRecv, t, !next.client, next.containsPadding, false, false⟩ ∧
      next.time + net.network.delay ≤ t := by
  unfold netTunnelSent at h
  rw [bind_ok_iff] at h
  obtain ⟨⟨r, n1⟩, hs, h⟩ := h
  have hsp := sample_spec hs
  rw [bind_ok_iff] at h
  obtain ⟨n2, _, h⟩ := h
  simp only [pure, Except.pure] at h
  cases h
  obtain ⟨t, ht, hle⟩ := recvFor_spec next r.1 now
  exact ⟨t, by rw [ht], by omega⟩

/-- the PaddingSent arm never creates a normal packet: it queues a padding TunnelSent, or drops
    the padding (replaced by an already queued normal packet), or pops one queued
    TunnelSent and re-queues the very same packet with the bypass flag -/
theorem netPaddingSent_spec {next : SimEvent} {sq sq' : SimQueue} {byp : Bool} {net net' : Bottleneck} {now : Int}
    (h : netPaddingSent next sq byp net now = .ok (sq', net')) :
    sq' = sq.pushSim ⟨.tunnelSent, next.time, next.client, true, next.bypass, next.replace⟩ ∨ sq' = sq ∨
    ∃ qid entry sq1, sq.popBlocking qid byp next.client (net.agg next.client) = .ok (some (entry, sq1)) ∧
      sq' = sq1.pushSim { entry with bypass := true, replace := false } := by
  unfold netPaddingSent at h
  simp only [] at h
  split at h
  · split at h
    · split at h
      · split at h
        · cases h; right; left; rfl
        · rename_i queued qid _ _ _
          unfold replaceBypass at h
          rw [bind_ok_iff] at h
          obtain ⟨r, hr, h⟩ := h
          cases r with
          | none => simp at h
          | some p =>
            obtain ⟨entry, sq1⟩ := p
            simp only [] at h
            rw [bind_ok_iff] at h
            obtain ⟨n2, _, h⟩ := h
            simp only [pure, Except.pure] at h
            cases h
            right; right
            exact ⟨qid, entry, sq1, hr, rfl⟩
      · cases h; left; rfl
    · cases h; left; rfl
  · cases h; left; rfl

end Mb.Sim
