/-
  C07, the remaining rules of `C07.monitor` on the model's own log, and the monitor over whole
  histories of the model.

  * rule "own completions only": per call, decrements of `j` <= completions reported for `j`
    (`Countdown.dec_triggerEvents`);
  * rule "a completion that leaves the state unchanged consumes exactly one unit, one that changes
    the state consumes none" for single-event calls (`RuleC`, from `LimitStep.main2`: the Boolean
    `Changed` returned by `transition` is the monitor's `changedState` over the log segment);
  * rule "no limited action while the limit stayed 0" (`Exhausted.exhausted_call` and the slot
    invariant `Inv04`);
  * `monitor_model`: `C07.monitor` returns `none` on the trace the model produces for any history.
-/
import MbVerif.Proofs.LimitStep
import MbVerif.Proofs.C04
import MbVerif.Proofs.SigCount

namespace Mb
namespace LL
open C07 (isRegular)

/-! ### lists: the single-completion rule on segments -/

/-- the monitor's test "not a decrement of `m`" -/
def notDec (m : Nat) : LogEntry → Bool := fun e => match e with
  | LogEntry.limit mm _ true => mm != m
  | _ => true

def isSigTrans : LogEntry → Bool
  | .trans _ ev _ => ev == Gen.EV_Signal
  | _ => false

/-- no effect on the single-completion rule for machine `m`: not a sampled state of `m`, not a
    decrement of `m`, not a Signal delivery -/
def neutral (m : Nat) (e : LogEntry) : Prop :=
  (∀ ev nx, e ≠ .sampled m ev nx) ∧ notDec m e = true ∧ isSigTrans e = false

/-- the single-completion rule of the monitor on the pre-signal part `pre` of a call's log -/
def RuleC (m cur : Nat) (pre : List LogEntry) : Prop :=
  (C07.decrements m pre = 0 ∧ C07.changedState m cur pre = true) ∨
  (C07.decrements m pre = 1 ∧ C07.changedState m cur (pre.takeWhile (notDec m)) = false)

theorem decrements_eq (m : Nat) (l : List LogEntry) : C07.decrements m l = l.countP (fun e => !notDec m e) := by
  unfold C07.decrements
  congr 1
  funext e
  cases e with
  | limit mm v d => cases d <;> simp [notDec, bne]
  | _ => rfl

theorem decrements_append (m : Nat) (a b : List LogEntry) :
    C07.decrements m (a ++ b) = C07.decrements m a + C07.decrements m b := by
  simp [decrements_eq, List.countP_append]

theorem decrements_zero (m : Nat) (a : List LogEntry) (h : ∀ e ∈ a, notDec m e = true) : C07.decrements m a = 0 := by
  rw [decrements_eq, List.countP_eq_zero]
  intro e he
  simp [h e he]

theorem takeWhile_all {p : LogEntry → Bool} (a b : List LogEntry) (h : ∀ e ∈ a, p e = true) :
    (a ++ b).takeWhile p = a ++ b.takeWhile p := by
  induction a with
  | nil => rfl
  | cons e a ih =>
    simp only [List.cons_append, List.takeWhile_cons, h e (by simp), if_true]
    rw [ih (fun e' he' => h e' (by simp [he']))]

theorem takeWhile_stop {p : LogEntry → Bool} (a b : List LogEntry) (h : ∃ e ∈ a, p e = false) :
    (a ++ b).takeWhile p = a.takeWhile p := by
  induction a with
  | nil => obtain ⟨e, he, _⟩ := h; cases he
  | cons x a ih =>
    simp only [List.cons_append, List.takeWhile_cons]
    by_cases hx : p x = true
    · simp only [hx, if_true]
      obtain ⟨e, he, hp⟩ := h
      rcases List.mem_cons.1 he with rfl | he'
      · rw [hx] at hp; cases hp
      · rw [ih ⟨e, he', hp⟩]
    · simp [hx]

theorem csFold_neutral (m : Nat) (a : List LogEntry) (acc : Nat × Bool) (h : ∀ e ∈ a, neutral m e) :
    a.foldl (csStep m) acc = acc := by
  induction a generalizing acc with
  | nil => rfl
  | cons e a ih =>
    rw [List.foldl_cons]
    have he := (h e (by simp)).1
    have : csStep m acc e = acc := by
      cases e with
      | sampled j ev nx =>
        by_cases hj : j = m
        · subst hj; exact absurd rfl (he ev nx)
        · exact csStep_other m j hj acc ev nx
      | _ => rfl
    rw [this]
    exact ih acc (fun e' he' => h e' (by simp [he']))

theorem changedState_left (m cur : Nat) (a c : List LogEntry) (h : ∀ e ∈ a, neutral m e) :
    C07.changedState m cur (a ++ c) = C07.changedState m cur c := by
  rw [changedState_eq, changedState_eq, List.foldl_append, csFold_neutral m a _ h]

theorem changedState_right (m cur : Nat) (c b : List LogEntry) (h : ∀ e ∈ b, neutral m e) :
    C07.changedState m cur (c ++ b) = C07.changedState m cur c := by
  rw [changedState_eq, changedState_eq, List.foldl_append, csFold_neutral m b _ h]

theorem exists_dec_of_one (m : Nat) (c : List LogEntry) (h : C07.decrements m c = 1) :
    ∃ e ∈ c, notDec m e = false := by
  rw [decrements_eq] at h
  have : 0 < c.countP (fun e => !notDec m e) := by omega
  obtain ⟨e, he, hp⟩ := List.countP_pos_iff.1 this
  exact ⟨e, he, by simpa using hp⟩

theorem RuleC.left {m cur : Nat} {a c : List LogEntry} (ha : ∀ e ∈ a, neutral m e) (hc : RuleC m cur c) :
    RuleC m cur (a ++ c) := by
  have hd : C07.decrements m a = 0 := decrements_zero m a (fun e he => (ha e he).2.1)
  rcases hc with ⟨h1, h2⟩ | ⟨h1, h2⟩
  · exact Or.inl ⟨by rw [decrements_append, hd, h1], by rw [changedState_left m cur a c ha]; exact h2⟩
  · refine Or.inr ⟨by rw [decrements_append, hd, h1], ?_⟩
    rw [takeWhile_all a c (fun e he => (ha e he).2.1), changedState_left m cur a _ ha]
    exact h2

theorem RuleC.right {m cur : Nat} {c b : List LogEntry} (hb : ∀ e ∈ b, neutral m e) (hc : RuleC m cur c) :
    RuleC m cur (c ++ b) := by
  have hd : C07.decrements m b = 0 := decrements_zero m b (fun e he => (hb e he).2.1)
  rcases hc with ⟨h1, h2⟩ | ⟨h1, h2⟩
  · exact Or.inl ⟨by rw [decrements_append, hd, h1], by rw [changedState_right m cur c b hb]; exact h2⟩
  · refine Or.inr ⟨by rw [decrements_append, hd, h1], ?_⟩
    rw [takeWhile_stop c b (exists_dec_of_one m c h1)]
    exact h2

/-- the pre-signal part of `c₁ ++ c₂` is `c₁` when `c₁` holds no Signal delivery and `c₂` is empty
    or starts with one -/
theorem beforeSignals_append (c₁ c₂ : List LogEntry) (h1 : ∀ e ∈ c₁, isSigTrans e = false)
    (h2 : c₂ = [] ∨ ∃ e rest, c₂ = e :: rest ∧ isSigTrans e = true) : C07.beforeSignals (c₁ ++ c₂) = c₁ := by
  have hb : ∀ l, C07.beforeSignals l = l.takeWhile (fun e => !isSigTrans e) := by
    intro l
    unfold C07.beforeSignals
    congr 1
    funext e
    cases e <;> simp [isSigTrans, bne]
  rw [hb, takeWhile_all c₁ c₂ (fun e he => by rw [h1 e he]; rfl)]
  rcases h2 with rfl | ⟨e, rest, rfl, he⟩
  · simp
  · simp [he]

/-! ### faults are sticky -/

variable {σ : Type} (ρ : Oracle σ)

theorem modRt_fault_ne (s : Fw σ) (j : Nat) (g : Runtime → Runtime) (h : s.fault ≠ none) : (s.modRt j g).fault ≠ none := by
  unfold Fw.modRt
  split
  · exact h
  · exact withFault_fault_ne _ _

theorem step_fault {mi : Nat} {s t : Fw σ} (h : Step mi s t) (hs : s.fault ≠ none) : t.fault ≠ none := by
  cases h with
  | push => exact hs
  | fault => exact withFault_fault_ne _ _
  | rng => exact hs
  | setState => exact modRt_fault_ne _ _ _ hs
  | setLimit => exact modRt_fault_ne _ _ _ hs
  | setCtrA => exact modRt_fault_ne _ _ _ hs
  | setCtrB => exact modRt_fault_ne _ _ _ hs
  | signal => exact hs
  | zeroA => exact modRt_fault_ne _ _ _ hs
  | zeroB => exact modRt_fault_ne _ _ _ hs
  | clear => exact hs
  | sched => exact hs

theorem reach_fault_mono {mi : Nat} {s t : Fw σ} (h : Reach mi s t) (ht : t.fault = none) : s.fault = none := by
  cases hs : s.fault with
  | none => rfl
  | some f =>
    have := Reach.inv (fun x : Fw σ => x.fault ≠ none) (fun _ _ hx hst => step_fault hst hx) h (by rw [hs]; simp)
    exact absurd ht this

/-! ### the steps of a completion event -/

theorem ok_props {k : Nat} (e : LogEntry) (h : ok k e) (m : Nat) : notDec m e = true ∧ isSigTrans e = false := by
  cases e with
  | trans j ev st =>
    obtain ⟨_, rfl⟩ := h
    exact ⟨rfl, rfl⟩
  | limit j v d =>
    obtain ⟨_, rfl⟩ := h
    exact ⟨rfl, rfl⟩
  | _ => exact ⟨rfl, rfl⟩

theorem ok_neutral {k m : Nat} (hk : k ≠ m) (e : LogEntry) (h : ok k e) : neutral m e := by
  refine ⟨fun ev nx he => ?_, (ok_props e h m).1, (ok_props e h m).2⟩
  subst he
  exact hk h.symm

theorem isSigTrans_ev (j : Nat) (ev : Event) (st : Nat) (hev : ev ≠ .signal) :
    isSigTrans (.trans j ev.toNat st) = false := by
  have : ev.toNat ≠ Gen.EV_Signal := fun h => hev ((toNat_signal ev).1 h)
  simpa [isSigTrans] using this

theorem transition_oob (m : Nat) (ev : Event) (a : Fw σ) (h : a.rt[m]? = none ∨ a.machines[m]? = none) :
    (transition ρ FUEL m ev a).1.fault ≠ none := by
  show (transition ρ (7 + 1) m ev a).1.fault ≠ none
  rw [transition]
  rcases h with h | h
  · rw [h]; exact withFault_fault_ne _ _
  · rw [h]
    cases a.rt[m]? <;> exact withFault_fault_ne _ _

/-- the log of a limit decrement: the decrement entry, then (if LimitReached is delivered) entries
    that are neither decrements nor Signal deliveries -/
theorem dec_shape (m : Nat) (x : Fw σ) (hok : (decrementLimit ρ m x).fault = none) :
    x.fault = none ∧ ∃ (v : Nat) (cR : List LogEntry),
      (decrementLimit ρ m x).log = cR.reverse ++ .limit m v true :: x.log ∧
      ∀ e ∈ cR, notDec m e = true ∧ isSigTrans e = false := by
  refine ⟨reach_fault_mono (decrementLimit_reach ρ m x) hok, ?_⟩
  revert hok
  unfold decrementLimit
  cases hr : x.rt[m]? with
  | none => simp only []; intro h; exact absurd h (withFault_fault_ne _ _)
  | some r =>
  cases hm : x.machines[m]? with
  | none => simp only []; intro h; exact absurd h (withFault_fault_ne _ _)
  | some mm =>
  simp only []
  generalize (if r.stateLimit > 0 then r.stateLimit - 1 else r.stateLimit) = v
  have hl1 : ((x.modRt m (fun r' => { r' with stateLimit := v })).push (.limit m v true)).log =
      .limit m v true :: x.log := by simp [Fw.push]
  have hr1 : ((x.modRt m (fun r' => { r' with stateLimit := v })).push (.limit m v true)).rt[m]? =
      some { r with stateLimit := v } := by rw [Fw.push_rt, Fw.modRt_rt_self, hr]; rfl
  have hm1 : ((x.modRt m (fun r' => { r' with stateLimit := v })).push (.limit m v true)).machines[m]? = some mm := by
    simp [hm]
  generalize (x.modRt m (fun r' => { r' with stateLimit := v })).push (.limit m v true) = s1 at hl1 hr1 hm1 ⊢
  cases hst : mm.states[r.currentState]? with
  | none => simp only []; intro h; exact absurd h (withFault_fault_ne _ _)
  | some stt =>
  simp only []
  cases hact : stt.action with
  | none => simp only []; intro _; exact ⟨v, [], by simp [hl1], by simp⟩
  | some a =>
    simp only []
    split
    · split
      · intro h; exact absurd h (withFault_fault_ne _ _)
      · intro hok
        have T := (main2 ρ m FUEL).1 .limitReached ({ s1 with actions := s1.actions.set m none } : Fw σ) _ mm hr1 hm1
        obtain ⟨_, cT, hlT, hokT, _⟩ := T hok
        refine ⟨v, .trans m Event.limitReached.toNat r.currentState :: cT, ?_, fun e he => ?_⟩
        · rw [hlT]; simp [Fw.push, hl1]
        · rcases List.mem_cons.1 he with rfl | he'
          · exact ⟨rfl, rfl⟩
          · exact ok_props e (hokT e he') m
    · intro _; exact ⟨v, [], by simp [hl1], by simp⟩

theorem changedState_cons_trans (m cur j ev st : Nat) (c : List LogEntry) :
    C07.changedState m cur (.trans j ev st :: c) = C07.changedState m cur c := by
  rw [changedState_eq, changedState_eq]; rfl

/-- the step of the machine the completion is reported for: delivery, then the decrement unless
    the transition changed the state or ended the machine -/
theorem selfStep (m : Nat) (ev : Event) (hev : ev ≠ .signal) (a : Fw σ) (r : Runtime) (hr : a.rt[m]? = some r)
    (hne : r.currentState ≠ STATE_END) (cond : Bool)
    (hcond : cond = (!(transition ρ FUEL m ev a).2 && notEnded (transition ρ FUEL m ev a).1 m))
    (hok : (if cond = true then decrementLimit ρ m (transition ρ FUEL m ev a).1
      else (transition ρ FUEL m ev a).1).fault = none) :
    a.fault = none ∧ ∃ c : List LogEntry,
      (if cond = true then decrementLimit ρ m (transition ρ FUEL m ev a).1 else (transition ρ FUEL m ev a).1).log =
        c.reverse ++ a.log ∧
      RuleC m r.currentState c ∧ ∀ e ∈ c, isSigTrans e = false := by
  have hpf : (transition ρ FUEL m ev a).1.fault = none := by
    cases cond with
    | true => exact reach_fault_mono (decrementLimit_reach ρ m _) hok
    | false => exact hok
  cases hm : a.machines[m]? with
  | none => exact absurd hpf (transition_oob ρ m ev a (Or.inr hm))
  | some mm =>
  have T : Tr m (transition ρ FUEL m ev a).2 (a.push (.trans m ev.toNat r.currentState)) (transition ρ FUEL m ev a).1 :=
    (main2 ρ m FUEL).1 ev a r mm hr hm
  generalize transition ρ FUEL m ev a = p at T hpf hcond hok ⊢
  obtain ⟨haf, cT, hlT, hokT, hpT⟩ := T hpf
  obtain ⟨r', hr', hfold, hk⟩ := hpT r hr
  have hcs : C07.changedState m r.currentState (.trans m ev.toNat r.currentState :: cT) = p.2 := by
    rw [changedState_cons_trans, changedState_eq, hfold]; simp
  have hd0 : C07.decrements m (.trans m ev.toNat r.currentState :: cT) = 0 :=
    decrements_zero m _ (fun e he => by
      rcases List.mem_cons.1 he with rfl | he'
      · rfl
      · exact (ok_props e (hokT e he') m).1)
  have hns : ∀ e ∈ (.trans m ev.toNat r.currentState :: cT : List LogEntry), isSigTrans e = false := by
    intro e he
    rcases List.mem_cons.1 he with rfl | he'
    · exact isSigTrans_ev m ev _ hev
    · exact (ok_props e (hokT e he') m).2
  refine ⟨haf, ?_⟩
  cases cond with
  | true =>
    simp only [if_true] at hok ⊢
    have hc : p.2 = false ∧ notEnded p.1 m = true := by
      have := hcond.symm; simp only [Bool.and_eq_true, Bool.not_eq_true'] at this; exact this
    obtain ⟨_, v, cR, hlR, hR⟩ := dec_shape ρ m p.1 hok
    refine ⟨(.trans m ev.toNat r.currentState :: cT) ++ (.limit m v true :: cR), ?_, Or.inr ⟨?_, ?_⟩, ?_⟩
    · rw [hlR, hlT]; simp [Fw.push]
    · rw [decrements_append, hd0, decrements_eq, List.countP_cons]
      have : ∀ e ∈ cR, ¬ ((!notDec m e) = true) := by
        intro e he; simp [(hR e he).1]
      rw [List.countP_eq_zero.2 this]
      simp [notDec]
    · rw [takeWhile_all _ _ (fun e he => by
        rcases List.mem_cons.1 he with rfl | he'
        · rfl
        · exact (ok_props e (hokT e he') m).1)]
      have : (LogEntry.limit m v true :: cR).takeWhile (notDec m) = [] := by simp [notDec]
      rw [this, List.append_nil, hcs]
      exact hc.1
    · intro e he
      rcases List.mem_append.1 he with h | h
      · exact hns e h
      · rcases List.mem_cons.1 h with rfl | h'
        · rfl
        · exact (hR e h').2
  | false =>
    simp only [Bool.false_eq_true, if_false] at hok ⊢
    refine ⟨.trans m ev.toNat r.currentState :: cT, by rw [hlT]; simp [Fw.push], Or.inl ⟨hd0, ?_⟩, hns⟩
    rw [hcs]
    cases hp2 : p.2 with
    | true => rfl
    | false =>
      exfalso
      have hne' : notEnded p.1 m = false := by
        have := hcond.symm; rw [hp2] at this; simpa using this
      unfold notEnded at hne'
      rw [hr'] at hne'
      have : r'.currentState = STATE_END := by simpa using hne'
      rw [hk hp2] at this
      exact hne this

/-- the step of another machine: its entries do not affect the rule for `m` -/
theorem otherStep (m k : Nat) (hk : k ≠ m) (ev : Event) (hev : ev ≠ .signal) (a : Fw σ)
    (hok : (transition ρ FUEL k ev a).1.fault = none) :
    a.fault = none ∧ ∃ c : List LogEntry, (transition ρ FUEL k ev a).1.log = c.reverse ++ a.log ∧
      (∀ e ∈ c, neutral m e) ∧ (transition ρ FUEL k ev a).1.rt[m]? = a.rt[m]? := by
  have hrt := (transition_reach ρ FUEL k ev a).frame.rtOther m (Ne.symm hk)
  cases hr : a.rt[k]? with
  | none => exact absurd hok (transition_oob ρ k ev a (Or.inl hr))
  | some r =>
  cases hm : a.machines[k]? with
  | none => exact absurd hok (transition_oob ρ k ev a (Or.inr hm))
  | some mm =>
    obtain ⟨haf, cT, hlT, hokT, _⟩ := (main2 ρ k FUEL).1 ev a r mm hr hm hok
    refine ⟨haf, .trans k ev.toNat r.currentState :: cT, by rw [hlT]; simp [Fw.push], fun e he => ?_, hrt⟩
    rcases List.mem_cons.1 he with rfl | he'
    · exact ⟨fun _ _ h => (by cases h), rfl, isSigTrans_ev k ev _ hev⟩
    · exact ok_neutral hk e (hokT e he')

/-! ### the three completion events -/

/-- `b` extends the log of `a` by a segment without Signal deliveries that satisfies the
    single-completion rule for `m` (started in state `cur`) -/
def EvSeg (m cur : Nat) (a b : Fw σ) : Prop :=
  b.fault = none → a.fault = none ∧ ∃ c : List LogEntry, b.log = c.reverse ++ a.log ∧ RuleC m cur c ∧
    ∀ e ∈ c, isSigTrans e = false

theorem EvSeg.src {m cur : Nat} {a a1 b : Fw σ} (hf : a1.fault = a.fault) (hl : a1.log = a.log)
    (h : EvSeg m cur a1 b) : EvSeg m cur a b := by
  intro hb
  obtain ⟨h0, c, hc1, hc2⟩ := h hb
  exact ⟨by rw [← hf]; exact h0, c, by rw [← hl]; exact hc1, hc2⟩

theorem pe_timerBegin (m : Nat) (a : Fw σ) (r : Runtime) (hr : a.rt[m]? = some r) (hne : r.currentState ≠ STATE_END) :
    EvSeg m r.currentState a (processEvent ρ (.timerBegin m) a) := by
  have hlt : ¬ m ≥ a.rt.length := by
    intro h; rw [List.getElem?_eq_none h] at hr; cases hr
  unfold processEvent
  simp only [hlt, if_false]
  intro hb
  exact selfStep ρ m .timerBegin (by decide) a r hr hne
    (!(transition ρ FUEL m .timerBegin a).2 && notEnded (transition ρ FUEL m .timerBegin a).1 m) rfl hb

theorem pe_paddingSent (m : Nat) (a : Fw σ) (r : Runtime) (hr : a.rt[m]? = some r) (hne : r.currentState ≠ STATE_END) :
    EvSeg m r.currentState a (processEvent ρ (.paddingSent m) a) := by
  have hlt : ¬ m ≥ a.rt.length := by
    intro h; rw [List.getElem?_eq_none h] at hr; cases hr
  unfold processEvent
  simp only [hlt, if_false]
  have hr1 : ({ a with g := { a.g with paddingSent := a.g.paddingSent + 1 } } : Fw σ).rt[m]? = some r := hr
  generalize hA : (({ a with g := { a.g with paddingSent := a.g.paddingSent + 1 } } : Fw σ).modRt m
    (fun r => { r with acct := { r.acct with paddingSent := r.acct.paddingSent + 1 } })) = a2
  have hr2 : a2.rt[m]? = some { r with acct := { r.acct with paddingSent := r.acct.paddingSent + 1 } } := by
    subst hA; rw [Fw.modRt_rt_self, hr1]; rfl
  have hf2 : a2.fault = a.fault := by subst hA; exact Countdown.modRt_fault_some _ _ _ r hr1
  have hl2 : a2.log = a.log := by subst hA; simp
  intro hb
  have := selfStep ρ m .paddingSent (by decide) a2 _ hr2 hne
    (!(transition ρ FUEL m .paddingSent a2).2 && notEnded (transition ρ FUEL m .paddingSent a2).1 m) rfl hb
  rw [hf2, hl2] at this
  exact this

theorem pe_blockingBegin (m : Nat) (a : Fw σ) (r : Runtime) (hr : a.rt[m]? = some r) (hne : r.currentState ≠ STATE_END) :
    EvSeg m r.currentState a (processEvent ρ (.blockingBegin m) a) := by
  have hlt : m < a.rt.length := by
    rcases Nat.lt_or_ge m a.rt.length with h | h
    · exact h
    · rw [List.getElem?_eq_none h] at hr; cases hr
  unfold processEvent
  simp only []
  generalize hA : (if (!a.g.blockingActive) = true then
      ({ a with g := { a.g with blockingActive := true, blockingStarted := a.g.now } } : Fw σ) else a) = a1
  have hr1 : a1.rt = a.rt := by subst hA; split <;> rfl
  have hf1 : a1.fault = a.fault := by subst hA; split <;> rfl
  have hl1 : a1.log = a.log := by subst hA; split <;> rfl
  refine EvSeg.src hf1 hl1 ?_
  have hrm : a1.rt[m]? = some r := by rw [hr1]; exact hr
  clear hA
  let F : Fw σ → Nat → Fw σ := fun s k =>
    if (fun p : Fw σ × Bool => !p.2 && notEnded p.1 k && k == m) (transition ρ FUEL k .blockingBegin s) = true
    then decrementLimit ρ k (transition ρ FUEL k .blockingBegin s).1 else (transition ρ FUEL k .blockingBegin s).1
  have hother : ∀ s k, k ≠ m → F s k = (transition ρ FUEL k .blockingBegin s).1 := by
    intro s k hk
    simp only [F]
    split
    · next h => simp [hk] at h
    · rfl
  let Pre : Fw σ → Prop := fun x => x.fault = none → a1.fault = none ∧ ∃ c : List LogEntry,
    x.log = c.reverse ++ a1.log ∧ (∀ e ∈ c, neutral m e) ∧ x.rt[m]? = a1.rt[m]?
  have main := Countdown.fold_visit_once (Pre := Pre) (Post := EvSeg m r.currentState a1) F m
    (fun s k hk hs => by
      show Pre (F s k)
      rw [hother s k hk]
      intro hx
      obtain ⟨hsf, c2, hl2, hn2, hrt2⟩ := otherStep ρ m k hk .blockingBegin (by decide) s hx
      obtain ⟨h0, c1, hl1', hn1, hrt1⟩ := hs hsf
      refine ⟨h0, c1 ++ c2, by rw [hl2, hl1', List.reverse_append, List.append_assoc], fun e he => ?_, hrt2.trans hrt1⟩
      rcases List.mem_append.1 he with h | h
      · exact hn1 e h
      · exact hn2 e h)
    (fun s k hk hs => by
      show EvSeg m r.currentState a1 (F s k)
      rw [hother s k hk]
      intro hx
      obtain ⟨hsf, c2, hl2, hn2, _⟩ := otherStep ρ m k hk .blockingBegin (by decide) s hx
      obtain ⟨h0, c1, hl1', hc1, hs1⟩ := hs hsf
      refine ⟨h0, c1 ++ c2, by rw [hl2, hl1', List.reverse_append, List.append_assoc], hc1.right hn2, fun e he => ?_⟩
      rcases List.mem_append.1 he with h | h
      · exact hs1 e h
      · exact (hn2 e h).2.2)
    (fun s hs => by
      show EvSeg m r.currentState a1 (F s m)
      intro hx
      have hsf : s.fault = none := by
        have h1 : (transition ρ FUEL m .blockingBegin s).1.fault = none := by
          by_cases hc : (fun p : Fw σ × Bool => !p.2 && notEnded p.1 m && m == m) (transition ρ FUEL m .blockingBegin s) = true
          · simp only [F, hc, if_true] at hx
            exact reach_fault_mono (decrementLimit_reach ρ m _) hx
          · simp only [F, hc] at hx
            exact hx
        exact reach_fault_mono (transition_reach ρ FUEL m .blockingBegin s) h1
      obtain ⟨h0, c1, hl1', hn1, hrt1⟩ := hs hsf
      have hrs : s.rt[m]? = some r := by rw [hrt1]; exact hrm
      obtain ⟨_, c2, hl2, hc2, hs2⟩ := selfStep ρ m .blockingBegin (by decide) s r hrs hne
        (!(transition ρ FUEL m .blockingBegin s).2 && notEnded (transition ρ FUEL m .blockingBegin s).1 m)
        rfl (by simpa [F] using hx)
      refine ⟨h0, c1 ++ c2, ?_, hc2.left hn1, fun e he => ?_⟩
      · have : (F s m).log = c2.reverse ++ s.log := by simpa [F] using hl2
        rw [this, hl1', List.reverse_append, List.append_assoc]
      · rcases List.mem_append.1 he with h | h
        · exact (hn1 e h).2.2
        · exact hs2 e h)
    (List.range a1.rt.length) List.nodup_range (by rw [List.mem_range, hr1]; exact hlt) a1
    (fun h => ⟨h, [], rfl, by simp, rfl⟩)
  exact main

/-! ### the signal round starts with a Signal delivery -/

def SigHead (c : List LogEntry) : Prop := c = [] ∨ ∃ e rest, c = e :: rest ∧ isSigTrans e = true

theorem SigHead.append {c₁ c₂ : List LogEntry} (h₁ : SigHead c₁) (h₂ : SigHead c₂) : SigHead (c₁ ++ c₂) := by
  rcases h₁ with rfl | ⟨e, rest, rfl, he⟩
  · exact h₂
  · exact Or.inr ⟨e, rest ++ c₂, rfl, he⟩

/-- if `t` has no fault then `s` has none, and the segment added is empty or starts with a Signal
    delivery -/
def S (s t : Fw σ) : Prop :=
  t.fault = none → s.fault = none ∧ ∃ c : List LogEntry, t.log = c.reverse ++ s.log ∧ SigHead c

theorem S.refl (s : Fw σ) : S s s := fun h => ⟨h, [], rfl, Or.inl rfl⟩

theorem S.trans {s t u : Fw σ} (h₁ : S s t) (h₂ : S t u) : S s u := by
  intro hu
  obtain ⟨ht, c2, e2, g2⟩ := h₂ hu
  obtain ⟨hs, c1, e1, g1⟩ := h₁ ht
  exact ⟨hs, c1 ++ c2, by rw [e2, e1, List.reverse_append, List.append_assoc], g1.append g2⟩

theorem s_transition (j : Nat) (a : Fw σ) : S a (transition ρ FUEL j .signal a).1 := by
  intro hok
  refine ⟨reach_fault_mono (transition_reach ρ FUEL j .signal a) hok, ?_⟩
  cases hr : a.rt[j]? with
  | none => exact absurd hok (transition_oob ρ j .signal a (Or.inl hr))
  | some r =>
  cases hm : a.machines[j]? with
  | none => exact absurd hok (transition_oob ρ j .signal a (Or.inr hm))
  | some mm =>
    obtain ⟨l, hl⟩ := Countdown.transition_logFirst ρ 7 j .signal a r mm hr hm
    refine ⟨.trans j Event.signal.toNat r.currentState :: l.reverse, ?_, Or.inr ⟨_, _, rfl, rfl⟩⟩
    show (transition ρ (7 + 1) j .signal a).1.log = _
    rw [hl]; simp [Fw.push]

theorem s_signalRound (s : Fw σ) : S s (signalRound ρ s) := by
  have hfold : ∀ (excluded : Option Nat) (n : Nat) (a : Fw σ),
      S a ((List.range n).foldl (fun s j =>
        if (excluded == some j) = true then s else (transition ρ FUEL j .signal s).1) a) := by
    intro excluded n a
    generalize List.range n = l
    induction l generalizing a with
    | nil => exact S.refl a
    | cons j l ih =>
      simp only [List.foldl_cons]
      refine S.trans ?_ (ih _)
      split
      · exact S.refl a
      · exact s_transition ρ j a
  have hsame : ∀ (a : Fw σ) (p : Option SignalTarget), S a { a with signalPending := p } :=
    fun a p h => ⟨h, [], rfl, Or.inl rfl⟩
  unfold signalRound
  cases hsig : s.signalPending with
  | none => exact S.refl s
  | some sig =>
    cases sig with
    | all =>
      simp only []
      have h3 := (hsame s none).trans (hfold none s.rt.length { s with signalPending := none })
      generalize ((List.range s.rt.length).foldl (fun s j =>
          if ((none : Option Nat) == some j) = true then s else (transition ρ FUEL j .signal s).1)
          ({ s with signalPending := none } : Fw σ)) = s2 at h3 ⊢
      cases hs2 : s2.signalPending with
      | none => exact h3
      | some _ => exact h3.trans (hsame s2 none)
    | allExcept x =>
      simp only []
      have h3 := (hsame s none).trans (hfold (some x) s.rt.length { s with signalPending := none })
      generalize ((List.range s.rt.length).foldl (fun s j =>
          if (some x == some j) = true then s else (transition ρ FUEL j .signal s).1)
          ({ s with signalPending := none } : Fw σ)) = s2 at h3 ⊢
      cases hs2 : s2.signalPending with
      | none => exact h3
      | some _ =>
        simp only []
        exact (h3.trans (hsame s2 none)).trans (s_transition ρ x _)

/-! ### the rules of the monitor, per call -/

/-- **Single-completion rule.** In a single-event call reporting a completion for machine `m`
    (which has a runtime and has not ended), the pre-signal part of the call's log either holds no
    decrement of `m` and a change of `m`'s state, or exactly one decrement of `m` and no change of
    `m`'s state before it. -/
theorem ruleC_call (m : Nat) (e : TEvent) (he : e = .paddingSent m ∨ e = .blockingBegin m ∨ e = .timerBegin m)
    (t : Int) (s : Fw σ) (r : Runtime) (hr : s.rt[m]? = some r) (hne : r.currentState ≠ STATE_END)
    (hok : (triggerEvents ρ [e] t s).fault = none)
    (l : List LogEntry) (hl : (triggerEvents ρ [e] t s).log = l ++ s.log) :
    RuleC m r.currentState (C07.beforeSignals l.reverse) := by
  have hcs : (s.callStart t).rt[m]? = some { r with zeroedA := false, zeroedB := false } :=
    Countdown.callStart_rt s t m r hr
  have hE : EvSeg m r.currentState (s.callStart t) (processEvent ρ e (s.callStart t)) := by
    rcases he with rfl | rfl | rfl
    · exact pe_paddingSent ρ m (s.callStart t) { r with zeroedA := false, zeroedB := false } hcs hne
    · exact pe_blockingBegin ρ m (s.callStart t) { r with zeroedA := false, zeroedB := false } hcs hne
    · exact pe_timerBegin ρ m (s.callStart t) { r with zeroedA := false, zeroedB := false } hcs hne
  have hT : triggerEvents ρ [e] t s = signalRound ρ (processEvent ρ e (s.callStart t)) := rfl
  rw [hT] at hok hl
  obtain ⟨hpf, c2, hl2, hh2⟩ := s_signalRound ρ _ hok
  obtain ⟨_, c1, hl1, hc1, hs1⟩ := hE hpf
  have hlog : (s.callStart t).log = s.log := rfl
  have : l = (c1 ++ c2).reverse := by
    apply List.append_cancel_right (bs := s.log)
    rw [← hl, hl2, hl1, hlog, List.reverse_append, List.append_assoc]
  subst this
  rw [List.reverse_reverse, beforeSignals_append c1 c2 hs1 hh2]
  exact hc1

/-- **Own completions only**, per call, in the monitor's vocabulary -/
theorem decrements_le_call (j : Nat) (es : List TEvent) (t : Int) (s : Fw σ)
    (l : List LogEntry) (hl : (triggerEvents ρ es t s).log = l ++ s.log) :
    C07.decrements j l.reverse ≤ C07.completions j es := by
  have h := Countdown.dec_triggerEvents ρ j es t s
  unfold Countdown.decOf at h
  rw [hl, Countdown.wsum_append, Countdown.wsum_μDec] at h
  have h1 : C07.decrements j l.reverse = l.countP (Countdown.isDecrementOf j) := by
    unfold C07.decrements
    rw [List.countP_reverse]
    congr 1
    funext e
    cases e with
    | limit mm v d => cases d <;> simp [Countdown.isDecrementOf]
    | _ => rfl
  have h2 : C07.completions j es = es.countP (Countdown.TEvent.completes j) := by
    unfold C07.completions
    congr 1
  omega

/-- did the log touch the limit of machine `j` (assignment or decrement) -/
def touched (log : List LogEntry) (j : Nat) : Bool :=
  log.any fun e => match e with
    | .limit m _ _ => m == j
    | _ => false

/-- the monitor's test for an action scheduled although the limit was 0 throughout the call -/
def badAct (lim : Nat → Nat) (log : List LogEntry) (a : TAction) : Bool :=
  match a with
  | .cancel .. => false
  | _ => lim a.machine == 0 && !touched log a.machine

/-- **No limited action while the limit stayed 0**, per call, in the monitor's vocabulary -/
theorem no_limited_action (es : List TEvent) (t : Int) (s : Fw σ) (hI : Inv04 s)
    (l : List LogEntry) (hl : (triggerEvents ρ es t s).log = l ++ s.log)
    (a : TAction) (ha : a ∈ (triggerEvents ρ es t s).actionsOut) :
    badAct (limOf s.snap) l.reverse a = false := by
  cases hb : badAct (limOf s.snap) l.reverse a with
  | false => rfl
  | true =>
    exfalso
    have hI' : Inv04 (triggerEvents ρ es t s) := hI.run (triggerEvents_run ρ es t s)
    unfold Fw.actionsOut at ha
    rw [List.mem_filterMap] at ha
    obtain ⟨x, hx, hxa⟩ := ha
    simp only [id] at hxa
    subst hxa
    obtain ⟨i, hi⟩ := List.getElem?_of_mem hx
    have hmi : a.machine = i := (hI'.slots i a hi).1
    subst hmi
    have hnc : a.isCancel = false ∧ limOf s.snap a.machine = 0 ∧ touched l.reverse a.machine = false := by
      cases a <;> simp_all [badAct, TAction.isCancel]
    have hz : ∀ r, s.rt[a.machine]? = some r → r.stateLimit = 0 := by
      intro r hr; rw [← (limOf_snap s a.machine r hr).1]; exact hnc.2.1
    obtain ⟨l', hl', p⟩ := exhausted_call ρ (mi := a.machine) es t s hz
    have : l' = l := List.append_cancel_right (hl'.symm.trans hl)
    subst this
    rcases p with ⟨x, hx⟩ | hp
    · have : touched l'.reverse a.machine = true := by
        unfold touched
        rw [List.any_eq_true]
        exact ⟨_, List.mem_reverse.2 hx, by simp⟩
      rw [hnc.2.2] at this; cases this
    · have := hp.slot a hi
      rw [hnc.1] at this; cases this

/-! ### one step of the monitor -/

def ownOf (es : List TEvent) : Option Nat :=
  match es with
  | [.paddingSent m] => some m
  | [.blockingBegin m] => some m
  | [.timerBegin m] => some m
  | _ => none

/-- the monitor's single-completion check -/
def missingOf (n : Nat) (st : Nat → Nat) (log : List LogEntry) (own : Option Nat) : Option String :=
  match own with
  | some m =>
    if m < n && st m != STATE_END then
      let pre := C07.beforeSignals log
      let preDec := pre.takeWhile (notDec m)
      let d := C07.decrements m pre
      if d == 0 then
        if !C07.changedState m (st m) pre then some s!"machine {m}: completion without state change consumed no unit of the limit"
        else none
      else if d != 1 then some s!"machine {m}: one completion consumed {d} units of the limit"
      else if C07.changedState m (st m) preDec then some s!"machine {m}: limit decremented although the completion changed its state"
      else none
    else none
  | none => none

/-- the body of `C07.monitor.go` for one call, with the recursive call abstracted as `k` -/
def stepOf (ms : List Machine) (n i : Nat) (prev : Snap) (c : CallRec) (k : Option String) : Option String :=
  if c.res != .ok then none else
  match C07.checkLog ms (limOf prev) (stOf prev) (fun _ => none) c.log with
  | some msg => some s!"call {i}: {msg}"
  | none =>
    match (List.range n).find? (fun j => C07.decrements j c.log > C07.completions j c.events) with
    | some j => some s!"call {i}: machine {j}: {C07.decrements j c.log} decrements for {C07.completions j c.events} own completions"
    | none =>
      match missingOf n (stOf prev) c.log (ownOf c.events) with
      | some msg => some s!"call {i}: {msg}"
      | none =>
        match c.actions.find? (badAct (limOf prev) c.log) with
        | some a => some s!"call {i}: action scheduled for machine {a.machine} although its state limit was 0 throughout the call"
        | none => k

theorem go_cons (t : FwTrace) (n i : Nat) (prev : Snap) (c : CallRec) (cs : List CallRec) :
    C07.monitor.go t n i prev (c :: cs) = stepOf t.machines n i prev c (C07.monitor.go t n (i + 1) c.snap cs) := by
  rw [C07.monitor.go]
  rfl

theorem go_nil (t : FwTrace) (n i : Nat) (prev : Snap) : C07.monitor.go t n i prev [] = none := by
  rw [C07.monitor.go]

theorem missingOf_none (n : Nat) (st : Nat → Nat) (log : List LogEntry) (own : Option Nat)
    (h : ∀ m, own = some m → m < n → st m ≠ STATE_END → RuleC m (st m) (C07.beforeSignals log)) :
    missingOf n st log own = none := by
  unfold missingOf
  cases own with
  | none => rfl
  | some m =>
    simp only []
    split
    · next hc =>
      simp only [Bool.and_eq_true, decide_eq_true_eq, bne_iff_ne, ne_eq] at hc
      rcases h m rfl hc.1 hc.2 with ⟨h1, h2⟩ | ⟨h1, h2⟩
      · simp [h1, h2]
      · simp [h1, h2]
    · rfl

theorem stepOf_ok (ms : List Machine) (n i : Nat) (prev : Snap) (c : CallRec) (k : Option String)
    (h1 : C07.checkLog ms (limOf prev) (stOf prev) (fun _ => none) c.log = none)
    (h2 : ∀ j, C07.decrements j c.log ≤ C07.completions j c.events)
    (h3 : ∀ m, ownOf c.events = some m → m < n → stOf prev m ≠ STATE_END →
      RuleC m (stOf prev m) (C07.beforeSignals c.log))
    (h4 : ∀ a ∈ c.actions, badAct (limOf prev) c.log a = false) :
    stepOf ms n i prev c k = if c.res != .ok then none else k := by
  unfold stepOf
  split
  · rfl
  · rw [h1]
    simp only []
    have e2 : (List.range n).find? (fun j => decide (C07.decrements j c.log > C07.completions j c.events)) = none := by
      rw [List.find?_eq_none]
      intro j _
      have := h2 j
      simp only [decide_eq_true_eq]; omega
    rw [e2]
    simp only []
    rw [missingOf_none n (stOf prev) c.log (ownOf c.events) h3]
    simp only []
    have e4 : c.actions.find? (badAct (limOf prev) c.log) = none := by
      rw [List.find?_eq_none]
      intro a ha
      rw [h4 a ha]; simp
    rw [e4]

theorem stepOf_bad (ms : List Machine) (n i : Nat) (prev : Snap) (c : CallRec) (k : Option String)
    (h : c.res ≠ .ok) : stepOf ms n i prev c k = none := by
  unfold stepOf
  have : (c.res != Res.ok) = true := by simpa using h
  simp [this]

theorem ownOf_some (es : List TEvent) (m : Nat) (h : ownOf es = some m) :
    ∃ e, es = [e] ∧ (e = .paddingSent m ∨ e = .blockingBegin m ∨ e = .timerBegin m) := by
  unfold ownOf at h
  split at h
  · cases h; exact ⟨_, rfl, Or.inl rfl⟩
  · cases h; exact ⟨_, rfl, Or.inr (Or.inl rfl)⟩
  · cases h; exact ⟨_, rfl, Or.inr (Or.inr rfl)⟩
  · cases h

/-! ### the model's own trace, as the driver records it -/

/-- the outcome of an operation as the driver reports it -/
def resOf : Option Fault → Res
  | none => .ok
  | some .durOverflow => .panic "dur"
  | some .oob => .panic "oob"
  | some .fuel => .panic "fuel"

/-- the framework before a call as the driver sets it up: the ghost log is emptied, so that after
    the call it holds exactly the entries of that call -/
def resetLog (s : Fw σ) : Fw σ := { s with log := [] }

/-- the record of one call of the model: events, outcome, returned actions, snapshot and the log of
    the call (oldest first) -/
def callRec (s : Fw σ) (c : Call) : CallRec :=
  { t := c.2, events := c.1, res := resOf (triggerEvents ρ c.1 c.2 (resetLog s)).fault,
    actions := (triggerEvents ρ c.1 c.2 (resetLog s)).actionsOut,
    snap := (triggerEvents ρ c.1 c.2 (resetLog s)).snap,
    log := (triggerEvents ρ c.1 c.2 (resetLog s)).log.reverse }

def callRecs (s : Fw σ) : List Call → List CallRec
  | [] => []
  | c :: h => callRec ρ s c :: callRecs (triggerEvents ρ c.1 c.2 (resetLog s)) h

/-- the trace of the model for a history of calls, in the shape the monitors consume -/
def modelTrace (ms : List Machine) (fp fb : F64) (t0 : Int) (rng : σ) (h : List Call) : FwTrace :=
  { machines := ms, fp := fp, fb := fb, t0 := t0, newRes := resOf (Fw.init ρ ms fp fb t0 rng).fault,
    snap0 := (Fw.init ρ ms fp fb t0 rng).snap, log0 := (Fw.init ρ ms fp fb t0 rng).log.reverse,
    calls := callRecs ρ (Fw.init ρ ms fp fb t0 rng) h }

theorem resOf_ok (f : Option Fault) : resOf f = .ok ↔ f = none := by
  cases f with
  | none => simp [resOf]
  | some x => cases x <;> simp [resOf]

theorem machines_prim {a b : Fw σ} (hp : Prim a b) : b.machines = a.machines := by
  cases hp with
  | step mi st => exact st.frame.machines
  | setG => rfl
  | setAcct => simp
  | callStart => rfl

theorem machines_run {a b : Fw σ} (hr : Run a b) : b.machines = a.machines := by
  induction hr with
  | refl => rfl
  | tail _ hp ih => rw [machines_prim hp, ih]

theorem inv04_resetLog {s : Fw σ} (hI : Inv04 s) : Inv04 (resetLog s) := ⟨hI.actLen, hI.rtLen, hI.slots⟩

/-- **One call of the model passes one step of `C07.monitor`**: the call's record either reports a
    fault (then the monitor stops) or satisfies all four rules -/
theorem step_model (ms : List Machine) (i : Nat) (s : Fw σ) (hm : s.machines = ms) (hI : Inv04 s) (c : Call)
    (k : Option String) :
    stepOf ms ms.length i s.snap (callRec ρ s c) k =
      if (triggerEvents ρ c.1 c.2 (resetLog s)).fault = none then k else none := by
  have hlog : (triggerEvents ρ c.1 c.2 (resetLog s)).log = (triggerEvents ρ c.1 c.2 (resetLog s)).log ++ (resetLog s).log := by
    simp [resetLog]
  by_cases hok : (triggerEvents ρ c.1 c.2 (resetLog s)).fault = none
  · rw [if_pos hok]
    have hres : (callRec ρ s c).res = .ok := (resOf_ok _).2 hok
    rw [stepOf_ok]
    · simp [hres]
    · have := call_accepted ρ c.1 c.2 (resetLog s) hok _ hlog (fun _ => none)
      rw [← hm]
      exact this
    · intro j
      exact decrements_le_call ρ j c.1 c.2 (resetLog s) _ hlog
    · intro m hown hlt hne
      obtain ⟨e, hes, he⟩ := ownOf_some _ m hown
      have hes' : c.1 = [e] := hes
      have hlt' : m < s.rt.length := by rw [hI.rtLen, hm]; exact hlt
      have hr : (resetLog s).rt[m]? = some s.rt[m] := List.getElem?_eq_getElem hlt'
      have hst : stOf s.snap m = (s.rt[m]).currentState := (limOf_snap s m _ (List.getElem?_eq_getElem hlt')).2
      rw [hst] at hne ⊢
      have h1 := hok
      have h2 := hlog
      show RuleC m _ (C07.beforeSignals (triggerEvents ρ c.1 c.2 (resetLog s)).log.reverse)
      rw [hes'] at h1 h2 ⊢
      exact ruleC_call ρ m e he c.2 (resetLog s) _ hr hne h1 _ h2
    · intro a ha
      exact no_limited_action ρ c.1 c.2 (resetLog s) (inv04_resetLog hI) _ hlog a ha
  · rw [if_neg hok]
    exact stepOf_bad _ _ _ _ _ _ (fun h => hok ((resOf_ok _).1 h))

theorem go_model (t : FwTrace) (h : List Call) : ∀ (i : Nat) (s : Fw σ), s.machines = t.machines → Inv04 s →
    C07.monitor.go t t.machines.length i s.snap (callRecs ρ s h) = none := by
  induction h with
  | nil => intro i s _ _; exact go_nil _ _ _ _
  | cons c h ih =>
    intro i s hm hI
    rw [callRecs, go_cons, step_model ρ t.machines i s hm hI c]
    split
    · have hrun := triggerEvents_run ρ c.1 c.2 (resetLog s)
      exact ih (i + 1) _ ((machines_run hrun).trans hm) ((inv04_resetLog hI).run hrun)
    · rfl

/-- **`C07.monitor` accepts the model's own trace of every history.** -/
theorem monitor_model (ms : List Machine) (fp fb : F64) (t0 : Int) (rng : σ) (h : List Call) :
    C07.monitor (modelTrace ρ ms fp fb t0 rng h) = none := by
  unfold C07.monitor
  exact go_model ρ (modelTrace ρ ms fp fb t0 rng h) h 1 (Fw.init ρ ms fp fb t0 rng)
    (machines_run (init_run ρ ms fp fb t0 rng)) (Inv04.init ρ ms fp fb t0 rng)

end LL
end Mb
