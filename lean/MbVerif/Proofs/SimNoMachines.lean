/-
  A framework without machines: no actions, no random draws, whatever events it is fed.
-/
import MbVerif.Proofs.SimNet

namespace Mb.Sim
open Mb

section
variable {σ : Type} (ρ : Oracle σ)

/-- the part of a framework state that matters to the simulator when there are no machines -/
def Quiet (s : Fw σ) : Prop := s.rt = [] ∧ s.actions = [] ∧ s.signalPending = none

@[simp] theorem withFault_rt (s : Fw σ) (f : Fault) : (s.withFault f).rt = s.rt := by
  unfold Fw.withFault; split <;> rfl
@[simp] theorem withFault_actions (s : Fw σ) (f : Fault) : (s.withFault f).actions = s.actions := by
  unfold Fw.withFault; split <;> rfl
@[simp] theorem withFault_signal (s : Fw σ) (f : Fault) : (s.withFault f).signalPending = s.signalPending := by
  unfold Fw.withFault; split <;> rfl
@[simp] theorem withFault_rng (s : Fw σ) (f : Fault) : (s.withFault f).rng = s.rng := by
  unfold Fw.withFault; split <;> rfl

theorem processEvent_quiet (e : TEvent) (s : Fw σ) (h : Quiet s) :
    Quiet (processEvent ρ e s) ∧ (processEvent ρ e s).rng = s.rng := by
  obtain ⟨hrt, hact, hsig⟩ := h
  cases e with
  | normalRecv => simp [processEvent, transitionAll, hrt, Quiet, hact, hsig]
  | paddingRecv => simp [processEvent, transitionAll, hrt, Quiet, hact, hsig]
  | tunnelRecv => simp [processEvent, transitionAll, hrt, Quiet, hact, hsig]
  | tunnelSent => simp [processEvent, transitionAll, hrt, Quiet, hact, hsig]
  | normalSent => simp [processEvent, hrt, Quiet, hact, hsig]
  | paddingSent m => simp [processEvent, hrt, Quiet, hact, hsig]
  | blockingBegin m =>
    simp only [processEvent]
    split <;> simp [hrt, Quiet, hact, hsig]
  | blockingEnd =>
    simp only [processEvent]
    by_cases ha : s.g.blockingActive = true
    · by_cases ho : s.g.blockingDur + durSince s.g.now s.g.blockingStarted > durMax
      · simp [ha, ho, hrt, Quiet, hact, hsig]
      · simp [ha, ho, hrt, Quiet, hact, hsig]
    · simp [ha, hrt, Quiet, hact, hsig]
  | timerBegin m => simp [processEvent, hrt, Quiet, hact, hsig]
  | timerEnd m => simp [processEvent, hrt, Quiet, hact, hsig]

theorem foldl_processEvent_quiet : ∀ (es : List TEvent) (s : Fw σ), Quiet s →
    Quiet (es.foldl (fun s e => processEvent ρ e s) s) ∧ (es.foldl (fun s e => processEvent ρ e s) s).rng = s.rng := by
  intro es
  induction es with
  | nil => intro s h; exact ⟨h, rfl⟩
  | cons e es ih =>
    intro s h
    have h1 := processEvent_quiet ρ e s h
    have h2 := ih _ h1.1
    simp only [List.foldl_cons]
    exact ⟨h2.1, by rw [h2.2, h1.2]⟩

/-- **No machines ⇒ no actions and no draws**, for every batch of events and every clock value -/
theorem triggerEvents_quiet (es : List TEvent) (t : Int) (s : Fw σ) (h : Quiet s) :
    Quiet (triggerEvents ρ es t s) ∧ (triggerEvents ρ es t s).rng = s.rng ∧ (triggerEvents ρ es t s).actionsOut = [] := by
  obtain ⟨hrt, hact, hsig⟩ := h
  unfold triggerEvents
  have hq : Quiet (s.callStart t) := by
    simp [Quiet, Fw.callStart, hrt, hact, hsig]
  have hr : (s.callStart t).rng = s.rng := by simp [Fw.callStart]
  have h1 := foldl_processEvent_quiet ρ es _ hq
  have hsr : ∀ x : Fw σ, Quiet x → signalRound ρ x = x := by
    intro x hx
    unfold signalRound
    simp [hx.2.2]
  rw [hsr _ h1.1]
  refine ⟨h1.1, by rw [h1.2, hr], ?_⟩
  unfold Fw.actionsOut
  rw [h1.1.2.1]
  rfl

theorem init_quiet (fp fb : F64) (t0 : Int) (orc : σ) :
    Quiet (Fw.init ρ [] fp fb t0 orc) ∧ (Fw.init ρ [] fp fb t0 orc).rng = orc := by
  simp [Fw.init, Fw.init0, Quiet]

/-- with no machines on the event's side, `trigger_update` returns no actions and changes
    nothing the scheduler looks at: queue, network, oracle, slots, timers and blocking -/
theorem triggerUpdate_quiet {st st' : St σ} {next : SimEvent} {acts : List TAction}
    (hq : Quiet (st.side next.client).fw) (h : triggerUpdate ρ st next = .ok (acts, st')) :
    acts = [] ∧ st'.sq = st.sq ∧ st'.orc = st.orc ∧ st'.net = st.net ∧
    (st'.side next.client).schedAction = (st.side next.client).schedAction ∧
    (st'.side next.client).schedTimer = (st.side next.client).schedTimer ∧
    (st'.side next.client).blockingUntil = (st.side next.client).blockingUntil ∧
    Quiet (st'.side next.client).fw := by
  unfold triggerUpdate at h
  simp only [] at h
  have hq' : Quiet ({ (st.side next.client).fw with rng := st.orc, log := [] } : Fw σ) := hq
  have ht := triggerEvents_quiet ρ [next.event] st.now _ hq'
  split at h
  · cases h
  · rw [ht.2.2] at h
    simp only [applyActions, bind, Except.bind, pure, Except.pure] at h
    cases h
    have hside : ∀ (x : Side σ) (sq : SimQueue) (o : σ),
        ({ (st.setSide next.client x) with sq := sq, orc := o } : St σ).side next.client = x := by
      intro x sq o
      cases next.client <;> simp [St.side, St.setSide]
    refine ⟨rfl, by simp, ?_, by simp, ?_, ?_, ?_, ?_⟩
    · simp [ht.2.1]
    · rw [hside]
    · rw [hside]
    · rw [hside]
    · rw [hside]; exact ht.1

end
end Mb.Sim
