/-
  The v1 parser never faults: every slice / index / usize operation of parsing.rs is in range
  given the length tests that precede it.
-/
import MbVerif.ParseV1

namespace Mb
namespace V1
open Codec (Bytes)

/-- Hoare-style: `x` does not fault and, if it returns, the result satisfies `Q` -/
def Good {α} (x : P α) (Q : α → Prop) : Prop :=
  match x with
  | .ok a => Q a
  | .error .err => True
  | .error (.fault _) => False

theorem Good_ok {α} {a : α} {Q : α → Prop} (h : Q a) : Good (.ok a : P α) Q := h
theorem Good_err {α} {Q : α → Prop} : Good (.error .err : P α) Q := trivial

theorem Good_bind {α β} {x : P α} {g : α → P β} {Q : α → Prop} {R : β → Prop}
    (hx : Good x Q) (hg : ∀ a, Q a → Good (g a) R) : Good (x >>= g) R := by
  cases x with
  | ok a => exact hg a hx
  | error e =>
    cases e with
    | err => trivial
    | fault f => exact hx.elim

theorem Good_mono {α} {x : P α} {Q R : α → Prop} (hx : Good x Q) (h : ∀ a, Q a → R a) : Good x R := by
  cases x with
  | ok a => exact h a hx
  | error e => cases e <;> exact hx

theorem Good_nofault {α} {x : P α} {Q : α → Prop} (hx : Good x Q) (f : Fault) : x ≠ .error (.fault f) := by
  intro h; rw [h] at hx; exact hx

theorem cadd_ok {a b : Nat} (h : a + b < USIZE) : cadd a b = .ok (a + b) := by simp [cadd, h]
theorem cmul_ok {a b : Nat} (h : a * b < USIZE) : cmul a b = .ok (a * b) := by simp [cmul, h]

theorem slice_ok {b : Bytes} {lo hi : Nat} (h1 : lo ≤ hi) (h2 : hi ≤ b.length) :
    slice b lo hi = .ok ((b.drop lo).take (hi - lo)) := by simp [slice, h1, h2]

theorem slice_length {b : Bytes} {lo hi : Nat} (h1 : lo ≤ hi) (h2 : hi ≤ b.length) :
    ((b.drop lo).take (hi - lo)).length = hi - lo := by
  simp [List.length_take, List.length_drop]; omega

theorem sliceFrom_ok {b : Bytes} {lo : Nat} (h : lo ≤ b.length) : sliceFrom b lo = .ok (b.drop lo) := by
  simp [sliceFrom, h]

theorem byteAt_good {b : Bytes} {i : Nat} (h : i < b.length) : Good (byteAt b i) (fun _ => True) := by
  simp [byteAt, List.getElem?_eq_getElem h, Good]

theorem leVal_lt (s : Bytes) : leVal s < 256 ^ s.length := by
  induction s with
  | nil => simp [leVal]
  | cons b bs ih =>
    have := b.toNat_lt
    simp only [leVal, List.length_cons, Nat.pow_succ]
    omega

/-! ### parse_dist -/

theorem parseDist_good (buf : Bytes) : Good (parseDist buf) (fun _ => True) := by
  unfold parseDist
  split
  · exact Good_err
  · rename_i h
    simp only [SERIALIZED_DIST_SIZE] at h
    have h2 : 34 ≤ buf.length := by omega
    rw [slice_ok (by omega) (by omega), slice_ok (by omega) (by omega), slice_ok (by omega) (by omega),
      slice_ok (by omega) (by omega), slice_ok (by omega) (by omega)]
    simp only [bind, Except.bind]
    split <;> exact Good_ok trivial

/-! ### parse_state -/

theorem rowLoop_good (buf : Bytes) (n : Nat) (hlen : buf.length < USIZE) :
    ∀ (k i r : Nat) (acc : List Trans), r + 8 * k ≤ buf.length →
      Good (rowLoop buf n k i r acc) (fun p => p.2 = r + 8 * k) := by
  intro k
  induction k with
  | zero => intro i r acc _; exact Good_ok (by simp)
  | succ k ih =>
    intro i r acc h
    unfold rowLoop
    rw [cadd_ok (by omega), ]
    simp only [bind, Except.bind]
    rw [slice_ok (by omega) (by omega)]
    simp only []
    have step : ∀ acc', Good (rowLoop buf n k (i + 1) (r + 8) acc') (fun p => p.2 = r + 8 * (k + 1)) :=
      fun acc' => Good_mono (ih (i + 1) (r + 8) acc' (by omega)) (fun p hp => by rw [hp]; omega)
    split
    · split
      · exact step _
      · split
        · exact Good_err
        · exact step _
    · exact step _

theorem eventLoop_good (buf : Bytes) (n cnt : Nat) (hlen : buf.length < USIZE) :
    ∀ (es : List Nat) (r : Nat) (acc : List (Nat × List Trans)), r + es.length * (8 * cnt) ≤ buf.length →
      Good (eventLoop buf n cnt es r acc) (fun _ => True) := by
  intro es
  induction es with
  | nil => intro r acc _; exact Good_ok trivial
  | cons e es ih =>
    intro r acc h
    unfold eventLoop
    have hmul : (es.length + 1) * (8 * cnt) = es.length * (8 * cnt) + 8 * cnt := by
      rw [Nat.add_mul]; omega
    simp only [List.length_cons, hmul] at h
    refine Good_bind (rowLoop_good buf n hlen cnt 0 r [] (by omega)) ?_
    intro p hp
    obtain ⟨row, r'⟩ := p
    simp only at hp
    subst hp
    exact ih _ _ (by omega)

theorem stateLenExpr_ok (n : Nat) (h : n < 2 ^ 50) : stateLenExpr n = .ok (106 + 64 * (n + 2)) := by
  have hl : v1Events.length = 7 := rfl
  unfold stateLenExpr
  simp only [SERIALIZED_DIST_SIZE, hl]
  rw [cmul_ok (by unfold USIZE; omega)]
  simp only [bind, Except.bind]
  rw [cadd_ok (by unfold USIZE; omega)]
  simp only []
  rw [cadd_ok (by unfold USIZE; omega)]
  simp only []
  rw [cmul_ok (by unfold USIZE; omega)]
  simp only []
  rw [cadd_ok (by unfold USIZE; omega)]
  simp only []
  rw [cmul_ok (by unfold USIZE; omega)]
  simp only []
  rw [cadd_ok (by unfold USIZE; omega)]
  congr 1
  omega

theorem ok_bind {α β} (a : α) (g : α → P β) : ((Except.ok a : P α) >>= g) = g a := rfl

theorem parseState_good (buf : Bytes) (n : Nat) (hn : n < 2 ^ 50) (hlen : buf.length < USIZE) :
    Good (parseState buf n) (fun _ => True) := by
  unfold parseState
  rw [stateLenExpr_ok n hn, ok_bind]
  split
  · exact Good_err
  · rename_i hneed
    simp only [SERIALIZED_DIST_SIZE]
    rw [cadd_ok (by unfold USIZE; omega), ok_bind, slice_ok (by omega) (by omega), ok_bind]
    refine Good_bind (parseDist_good _) (fun duration _ => ?_)
    rw [cadd_ok (by unfold USIZE; omega), ok_bind, slice_ok (by omega) (by omega), ok_bind]
    refine Good_bind (parseDist_good _) (fun limit _ => ?_)
    rw [cadd_ok (by unfold USIZE; omega), ok_bind, slice_ok (by omega) (by omega), ok_bind]
    refine Good_bind (parseDist_good _) (fun timeout _ => ?_)
    refine Good_bind (byteAt_good (by omega)) (fun b1 _ => ?_)
    rw [cadd_ok (by unfold USIZE; omega), ok_bind]
    refine Good_bind (byteAt_good (by omega)) (fun b2 _ => ?_)
    rw [cadd_ok (by unfold USIZE; omega), ok_bind]
    refine Good_bind (byteAt_good (by omega)) (fun b3 _ => ?_)
    rw [cadd_ok (by unfold USIZE; omega), ok_bind]
    have hl : v1Events.length = 7 := rfl
    have tail : ∀ action : Option Action, Good (do
        let r ← cadd (0 + (2 + 8 * 4) + (2 + 8 * 4) + (2 + 8 * 4) + 1 + 1 + 1) 1
        let cnt ← cadd n 2
        let __x ← eventLoop buf n cnt v1Events r []
        (Except.ok { action := action, counterA := none, counterB := none, transitions := stateNew __x.fst } : P State))
        (fun _ => True) := by
      intro action
      rw [cadd_ok (by unfold USIZE; omega), ok_bind, cadd_ok (by unfold USIZE; omega), ok_bind]
      exact Good_bind (eventLoop_good buf n (n + 2) hlen v1Events _ [] (by rw [hl]; omega))
        (fun p _ => Good_ok trivial)
    split
    · split
      · split
        · exact Good_err
        · rw [ok_bind]; exact tail _
      · rw [ok_bind]; exact tail _
    · rw [ok_bind]; exact tail _

/-! ### parse_v1, parse_v1_machine -/

theorem statesLoop_good (buf : Bytes) (n : Nat) (hn : n < 2 ^ 50) (hlen : buf.length < USIZE) (esl : Nat) :
    ∀ (k r : Nat) (acc : List State), r + k * esl ≤ buf.length →
      Good (statesLoop buf n esl k r acc) (fun _ => True) := by
  intro k
  induction k with
  | zero => intro r acc _; exact Good_ok trivial
  | succ k ih =>
    intro r acc h
    rw [Nat.add_mul, Nat.one_mul] at h
    unfold statesLoop
    rw [cadd_ok (by omega), ok_bind, slice_ok (by omega) (by omega), ok_bind]
    refine Good_bind (parseState_good _ n hn ?_) (fun s _ => ih _ _ (by omega))
    rw [slice_length (by omega) (by omega)]
    omega

theorem leVal_take_lt (k : Nat) (l : Bytes) : leVal (List.take k l) < 256 ^ k := by
  have h1 := leVal_lt (List.take k l)
  have h2 : (List.take k l).length ≤ k := by simp [List.length_take]; omega
  exact Nat.lt_of_lt_of_le h1 (Nat.pow_le_pow_right (by omega) h2)

theorem parseV1States_good (buf : Bytes) (hlen : buf.length < USIZE) (app : Nat) (mpf : F64) (abm : Nat)
    (mbf : F64) (n r : Nat) (hn16 : n < 65536) (hr : r ≤ buf.length) :
    Good (parseV1States buf app mpf abm mbf n r) (fun m => Validate.machine m = true) := by
  unfold parseV1States
  rw [stateLenExpr_ok n (by omega), ok_bind, sliceFrom_ok hr, ok_bind]
  have hmul : (106 + 64 * (n + 2)) * n ≤ 4194474 * 65535 :=
    Nat.mul_le_mul (by omega) (by omega)
  rw [cmul_ok (by unfold USIZE; omega), ok_bind]
  split
  · exact Good_err
  · rename_i htot
    simp only [List.length_drop, ne_eq, Decidable.not_not] at htot
    refine Good_bind (statesLoop_good buf n (by omega) hlen _ n _ [] ?_) (fun states _ => ?_)
    · rw [Nat.mul_comm n]; omega
    · simp only []
      split
      · rename_i hv; exact Good_ok hv
      · exact Good_err

theorem parseV1_good (buf : Bytes) (hlen : buf.length < USIZE) :
    Good (parseV1 buf) (fun m => Validate.machine m = true) := by
  unfold parseV1
  split
  · exact Good_err
  · rename_i h35
    simp only []
    rw [cadd_ok (by unfold USIZE; omega), ok_bind, slice_ok (by omega) (by omega), ok_bind,
      cadd_ok (by unfold USIZE; omega), ok_bind, slice_ok (by omega) (by omega), ok_bind,
      cadd_ok (by unfold USIZE; omega), ok_bind, slice_ok (by omega) (by omega), ok_bind,
      cadd_ok (by unfold USIZE; omega), ok_bind, slice_ok (by omega) (by omega), ok_bind,
      cadd_ok (by unfold USIZE; omega), ok_bind,
      cadd_ok (by unfold USIZE; omega), ok_bind, slice_ok (by omega) (by omega), ok_bind]
    refine parseV1States_good buf hlen _ _ _ _ _ _ ?_ (by omega)
    exact Nat.lt_of_lt_of_le (leVal_take_lt _ _) (by decide)

theorem parseV1Machine_good (buf : Bytes) (hlen : buf.length < USIZE) :
    Good (parseV1Machine buf) (fun m => Validate.machine m = true) := by
  unfold parseV1Machine
  split
  · exact Good_err
  · rw [slice_ok (by omega) (by omega), ok_bind, sliceFrom_ok (by omega), ok_bind]
    split
    · exact parseV1_good _ (by simp only [List.length_drop]; omega)
    · exact Good_err

/-- no input makes the v1 parser panic -/
theorem parseV1Machine_nofault (buf : Bytes) (hlen : buf.length < USIZE) (f : Fault) :
    parseV1Machine buf ≠ .error (.fault f) :=
  Good_nofault (parseV1Machine_good buf hlen) f

/-- whatever the v1 parser returns passed validation -/
theorem parseV1Machine_valid (buf : Bytes) (hlen : buf.length < USIZE) (m : Machine)
    (h : parseV1Machine buf = .ok m) : Validate.machine m = true := by
  have := parseV1Machine_good buf hlen
  rw [h] at this
  exact this

end V1
end Mb
