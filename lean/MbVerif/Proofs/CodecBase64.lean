/-
  `B64.dec (B64.enc b) = some b`.
-/
import MbVerif.Base64

namespace Mb
namespace B64
open Codec (Bytes)

theorem val_chr : ∀ v, v < 64 → val (chr v) = some v := by decide

theorem chr_ne_pad : ∀ v, v < 64 → chr v ≠ pad := by decide

theorem enc_isEmpty (b : Bytes) : (enc b).isEmpty = b.isEmpty := by
  match b with
  | [] => rfl
  | [_] => rfl
  | [_, _] => rfl
  | _ :: _ :: _ :: _ => rfl

theorem last_one (x : UInt8) : last (chr (x.toNat / 4)) (chr (x.toNat % 4 * 16)) pad pad = some [x] := by
  have hx := x.toNat_lt
  have h0 := val_chr (x.toNat / 4) (by omega)
  have h1 := val_chr (x.toNat % 4 * 16) (by omega)
  have e : x.toNat / 4 * 4 + x.toNat % 4 * 16 / 16 = x.toNat := by omega
  have e2 : x.toNat % 4 * 16 % 16 = 0 := by omega
  simp only [last, h0, h1, e, e2, if_true, UInt8.ofNat_toNat]

theorem last_two (x y : UInt8) :
    last (chr (x.toNat / 4)) (chr (x.toNat % 4 * 16 + y.toNat / 16)) (chr (y.toNat % 16 * 4)) pad = some [x, y] := by
  have hx := x.toNat_lt
  have hy := y.toNat_lt
  have h0 := val_chr (x.toNat / 4) (by omega)
  have h1 := val_chr (x.toNat % 4 * 16 + y.toNat / 16) (by omega)
  have h2 := val_chr (y.toNat % 16 * 4) (by omega)
  have n2 := chr_ne_pad (y.toNat % 16 * 4) (by omega)
  have e : x.toNat / 4 * 4 + (x.toNat % 4 * 16 + y.toNat / 16) / 16 = x.toNat := by omega
  have e1 : (x.toNat % 4 * 16 + y.toNat / 16) % 16 * 16 + y.toNat % 16 * 4 / 4 = y.toNat := by omega
  have e2 : y.toNat % 16 * 4 % 4 = 0 := by omega
  simp only [last, h0, h1, h2, if_neg n2, e, e1, e2, if_true, UInt8.ofNat_toNat]

theorem quad_three (x y z : UInt8) :
    quad (chr (x.toNat / 4)) (chr (x.toNat % 4 * 16 + y.toNat / 16))
      (chr (y.toNat % 16 * 4 + z.toNat / 64)) (chr (z.toNat % 64)) = some [x, y, z] := by
  have hx := x.toNat_lt
  have hy := y.toNat_lt
  have hz := z.toNat_lt
  have h0 := val_chr (x.toNat / 4) (by omega)
  have h1 := val_chr (x.toNat % 4 * 16 + y.toNat / 16) (by omega)
  have h2 := val_chr (y.toNat % 16 * 4 + z.toNat / 64) (by omega)
  have h3 := val_chr (z.toNat % 64) (by omega)
  have e : x.toNat / 4 * 4 + (x.toNat % 4 * 16 + y.toNat / 16) / 16 = x.toNat := by omega
  have e1 : (x.toNat % 4 * 16 + y.toNat / 16) % 16 * 16 + (y.toNat % 16 * 4 + z.toNat / 64) / 4 = y.toNat := by omega
  have e2 : (y.toNat % 16 * 4 + z.toNat / 64) % 4 * 64 + z.toNat % 64 = z.toNat := by omega
  simp only [quad, h0, h1, h2, h3, e, e1, e2, UInt8.ofNat_toNat]

theorem last_of_ne_pad (a b c d : UInt8) (h : d ≠ pad) : last a b c d = quad a b c d := by
  simp only [last, if_neg h]

theorem dec_enc (b : Bytes) : dec (enc b) = some b := by
  match b with
  | [] => rfl
  | [x] => simp only [enc, dec, List.isEmpty_nil, if_true, last_one]
  | [x, y] => simp only [enc, dec, List.isEmpty_nil, if_true, last_two]
  | x :: y :: z :: rest =>
    have ih := dec_enc rest
    have hz := z.toNat_lt
    have n3 := chr_ne_pad (z.toNat % 64) (by omega)
    cases hr : rest with
    | nil => simp only [enc, dec, List.isEmpty_nil, if_true, last_of_ne_pad _ _ _ _ n3, quad_three]
    | cons w rest' =>
      have hne : (enc (w :: rest')).isEmpty = false := by rw [enc_isEmpty]; rfl
      rw [hr] at ih
      simp only [enc, dec, hne, quad_three, ih, Bool.false_eq_true, if_false, List.cons_append, List.nil_append]

/-- the encoder only emits 7-bit ASCII -/
theorem chr_ascii : ∀ v, v < 64 → (chr v).toNat < 128 := by decide

theorem enc_ascii (b : Bytes) : ∀ c ∈ enc b, c.toNat < 128 := by
  match b with
  | [] => simp [enc]
  | [x] =>
    have hx := x.toNat_lt
    intro c hc
    simp only [enc, List.mem_cons, List.not_mem_nil, or_false] at hc
    rcases hc with rfl | rfl | rfl | rfl
    · exact chr_ascii _ (by omega)
    · exact chr_ascii _ (by omega)
    · decide
    · decide
  | [x, y] =>
    have hx := x.toNat_lt
    have hy := y.toNat_lt
    intro c hc
    simp only [enc, List.mem_cons, List.not_mem_nil, or_false] at hc
    rcases hc with rfl | rfl | rfl | rfl
    · exact chr_ascii _ (by omega)
    · exact chr_ascii _ (by omega)
    · exact chr_ascii _ (by omega)
    · decide
  | x :: y :: z :: rest =>
    have ih := enc_ascii rest
    have hx := x.toNat_lt
    have hy := y.toNat_lt
    have hz := z.toNat_lt
    intro c hc
    simp only [enc, List.mem_cons] at hc
    rcases hc with rfl | rfl | rfl | rfl | hc
    · exact chr_ascii _ (by omega)
    · exact chr_ascii _ (by omega)
    · exact chr_ascii _ (by omega)
    · exact chr_ascii _ (by omega)
    · exact ih c hc

end B64
end Mb

namespace Mb
namespace B64
open Codec (Bytes)

theorem quad_length {a b c d : UInt8} {t : Bytes} (h : quad a b c d = some t) : t.length = 3 := by
  unfold quad at h
  split at h
  · simp at h; subst h; rfl
  · simp at h

theorem last_length {a b c d : UInt8} {t : Bytes} (h : last a b c d = some t) : t.length ≤ 3 := by
  unfold last at h
  split at h
  · split at h
    · split at h
      · split at h
        · simp at h; subst h; simp
        · simp at h
      · simp at h
    · split at h
      · split at h
        · simp at h; subst h; simp
        · simp at h
      · simp at h
  · rw [quad_length h]; omega

/-- decoded output is never longer than 3/4 of the input -/
theorem dec_length : ∀ (s : Bytes) (b : Bytes), dec s = some b → 4 * b.length ≤ 3 * s.length
  | [], b, h => by simp [dec] at h; subst h; simp
  | [_], b, h => by simp [dec] at h
  | [_, _], b, h => by simp [dec] at h
  | [_, _, _], b, h => by simp [dec] at h
  | a :: b' :: c :: d :: rest, b, h => by
    simp only [dec] at h
    split at h
    · have := last_length h
      simp only [List.length_cons]
      omega
    · split at h
      · simp at h
      · rename_i t ht
        split at h
        · simp at h
        · rename_i u hu
          simp at h
          subst h
          have := dec_length rest u hu
          have := quad_length ht
          simp only [List.length_append, List.length_cons]
          omega

end B64
end Mb
