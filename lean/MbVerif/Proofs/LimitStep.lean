/-
  C07, the "changed" result of `transition` read off the log: the log segment of a transition for
  machine `mi` (after the delivery entry) consists of entries of `mi` only — draws, sampled states,
  limit assignments, counter updates and CounterZero deliveries, never a decrement — and folding
  the monitor's `changedState` over it yields exactly the Boolean `StateChange::Changed` that
  `transition` returns, while tracking the machine's current state. (A sixth induction over the
  mutual recursion; an exhausted fuel or a failed lookup is a fault, and everything is stated for
  executions that end without a fault.)
-/
import MbVerif.Proofs.LimitLog

namespace Mb
namespace LL
open C07 (isRegular)

/-- the step of `C07.changedState` -/
def csStep (mi : Nat) (acc : Nat × Bool) (e : LogEntry) : Nat × Bool :=
  match e with
  | .sampled m _ next =>
    if m == mi && (next == STATE_END || (isRegular next && next != acc.1)) then (next, true) else acc
  | _ => acc

theorem changedState_eq (mi st0 : Nat) (log : List LogEntry) :
    C07.changedState mi st0 log = (log.foldl (csStep mi) (st0, false)).2 := by
  unfold C07.changedState
  congr 2

/-- what a transition of machine `mi` logs after the delivery entry -/
def ok (mi : Nat) : LogEntry → Prop
  | .trans m ev _ => m = mi ∧ ev = Gen.EV_CounterZero
  | .sampled m _ _ => m = mi
  | .limit m _ d => m = mi ∧ d = false
  | .counter m .. => m = mi
  | _ => True

theorem csStep_noSampled (mi : Nat) (acc : Nat × Bool) (e : LogEntry) (h : ∀ m ev nx, e ≠ .sampled m ev nx) :
    csStep mi acc e = acc := by
  cases e with
  | sampled m ev nx => exact absurd rfl (h m ev nx)
  | _ => rfl

theorem csFold_noSampled (mi : Nat) (c : List LogEntry) (acc : Nat × Bool)
    (h : ∀ e ∈ c, ∀ m ev nx, e ≠ .sampled m ev nx) : c.foldl (csStep mi) acc = acc := by
  induction c generalizing acc with
  | nil => rfl
  | cons e c ih =>
    rw [List.foldl_cons, csStep_noSampled mi acc e (h e (by simp))]
    exact ih acc (fun e' he' => h e' (by simp [he']))

theorem csStep_other (mi j : Nat) (hj : j ≠ mi) (acc : Nat × Bool) (ev nx : Nat) :
    csStep mi acc (.sampled j ev nx) = acc := by
  have : (j == mi) = false := by simpa using hj
  simp [csStep, this]

theorem regular_ne_end {next : Nat} (h : isRegular next = true) : (next == STATE_END) = false := by
  unfold isRegular at h
  simp only [Bool.and_eq_true, bne_iff_ne, ne_eq] at h
  simpa using h.1

theorem csStep_regular (mi ev next : Nat) (acc : Nat × Bool) (hreg : isRegular next = true) :
    csStep mi acc (.sampled mi ev next) = if next != acc.1 then (next, true) else acc := by
  simp [csStep, regular_ne_end hreg, hreg]

variable {σ : Type} (ρ : Oracle σ)

/-! ### the relation -/

/-- if `t` has no fault then `s` has none, `t` extends the log of `s` by a segment `c` of entries of
    `mi` (no decrement, no delivery but CounterZero), and folding `changedState` over `c` from the
    machine's state in `s` gives its state in `t` and raises the flag exactly if `chg` -/
def Tr (mi : Nat) (chg : Bool) (s t : Fw σ) : Prop :=
  t.fault = none → s.fault = none ∧ ∃ c : List LogEntry, t.log = c.reverse ++ s.log ∧ (∀ e ∈ c, ok mi e) ∧
    ∀ r, s.rt[mi]? = some r → ∃ r', t.rt[mi]? = some r' ∧
      (∀ b, c.foldl (csStep mi) (r.currentState, b) = (r'.currentState, b || chg)) ∧
      (chg = false → r'.currentState = r.currentState)

variable {mi : Nat}

theorem Tr.refl (s : Fw σ) : Tr mi false s s :=
  fun h => ⟨h, [], rfl, by simp, fun r hr => ⟨r, hr, fun b => by simp, fun _ => rfl⟩⟩

theorem Tr.trans {x y : Bool} {s t u : Fw σ} (h₁ : Tr mi x s t) (h₂ : Tr mi y t u) : Tr mi (x || y) s u := by
  intro hu
  obtain ⟨ht, c2, e2, o2, p2⟩ := h₂ hu
  obtain ⟨hs, c1, e1, o1, p1⟩ := h₁ ht
  refine ⟨hs, c1 ++ c2, by rw [e2, e1, List.reverse_append, List.append_assoc], ?_, fun r hr => ?_⟩
  · intro e he
    rcases List.mem_append.1 he with h | h
    · exact o1 e h
    · exact o2 e h
  · obtain ⟨r1, hr1, f1, k1⟩ := p1 r hr
    obtain ⟨r2, hr2, f2, k2⟩ := p2 r1 hr1
    refine ⟨r2, hr2, fun b => ?_, fun hxy => ?_⟩
    · rw [List.foldl_append, f1, f2, Bool.or_assoc]
    · have hx : x = false := by cases x <;> simp_all
      have hy : y = false := by cases y <;> simp_all
      rw [k2 hy, k1 hx]

theorem Tr.vac {chg : Bool} {s t : Fw σ} (h : t.fault ≠ none) : Tr mi chg s t := fun ht => absurd ht h

theorem Tr.fault {chg : Bool} {s s' : Fw σ} (f : Fault) : Tr mi chg s (s'.withFault f) :=
  Tr.vac (withFault_fault_ne s' f)

theorem Tr.congr {x y : Bool} {s t : Fw σ} (h : x = y) (hT : Tr mi x s t) : Tr mi y s t := h ▸ hT

theorem Tr.keep {s t : Fw σ} (hf : t.fault = none → s.fault = none) (hl : t.log = s.log)
    (hk : (t.rt[mi]?).map (·.currentState) = (s.rt[mi]?).map (·.currentState)) : Tr mi false s t := by
  intro ht
  refine ⟨hf ht, [], by simp [hl], by simp, fun r hr => ?_⟩
  rw [hr] at hk
  cases h : t.rt[mi]? with
  | none => rw [h] at hk; simp at hk
  | some r' =>
    rw [h] at hk
    simp only [Option.map_some, Option.some.injEq] at hk
    exact ⟨r', rfl, fun b => by simp [hk], fun _ => hk⟩

theorem Tr.same {s t : Fw σ} (hf : t.fault = s.fault) (hl : t.log = s.log) (hrt : t.rt = s.rt) : Tr mi false s t :=
  Tr.keep (fun h => by rw [← hf]; exact h) hl (by rw [hrt])

theorem Tr.modRt (s : Fw σ) (j : Nat) (g : Runtime → Runtime) (hg : ∀ r, (g r).currentState = r.currentState) :
    Tr mi false s (s.modRt j g) := by
  refine Tr.keep (fun h => (modRt_fault s j g h).1) (by simp) ?_
  by_cases hj : mi = j
  · subst hj
    rw [Fw.modRt_rt_self]
    cases s.rt[mi]? <;> simp [hg]
  · rw [Fw.modRt_rt_other s j mi g hj]

/-- more entries of `mi`, none of them a sampled state -/
theorem Tr.logs {s t : Fw σ} (c : List LogEntry) (hok : ∀ e ∈ c, ok mi e)
    (hns : ∀ e ∈ c, ∀ m ev nx, e ≠ .sampled m ev nx) (hf : t.fault = s.fault)
    (hl : t.log = c.reverse ++ s.log) (hrt : t.rt = s.rt) : Tr mi false s t := by
  intro ht
  refine ⟨by rw [← hf]; exact ht, c, hl, hok, fun r hr => ⟨r, by rw [hrt]; exact hr, fun b => ?_, fun _ => rfl⟩⟩
  rw [csFold_noSampled mi c _ hns]; simp

theorem Tr.push (s : Fw σ) (e : LogEntry) (hok : ok mi e) (hns : ∀ m ev nx, e ≠ .sampled m ev nx) :
    Tr mi false s (s.push e) :=
  Tr.logs [e] (by simpa using hok) (by simpa using hns) rfl rfl rfl

theorem Q.toTr {s t : Fw σ} (h : Q s t) : Tr mi false s t := by
  obtain ⟨c, e, g, r, _, f, _⟩ := h
  refine Tr.logs c (fun e he => ?_) (fun e he m ev nx => ?_) f e r
  · obtain ⟨b, rfl⟩ := g e he; trivial
  · obtain ⟨b, rfl⟩ := g e he; intro h; cases h

theorem t_scheduleAction (next : Nat) (s : Fw σ) : Tr mi false s (scheduleAction ρ mi next s) := by
  unfold scheduleAction
  cases hm : s.machines[mi]? with
  | none => exact Tr.fault _
  | some m =>
    simp only []
    cases hst : m.states[next]? with
    | none => exact Tr.fault _
    | some st =>
      simp only []
      split
      · exact Tr.fault _
      · cases hact : st.action with
        | none => exact Tr.same rfl rfl rfl
        | some act =>
          cases act with
          | cancel t => exact Tr.same rfl rfl rfl
          | sendPadding b rp tmo lim =>
            simp only
            exact ((q_sampleTimeout ρ _ s).toTr.trans (Tr.same rfl rfl rfl)).congr rfl
          | blockOutgoing b rp tmo du lim =>
            simp only
            exact (((q_sampleTimeout ρ _ s).trans (q_sampleDuration ρ _ _)).toTr.trans (Tr.same rfl rfl rfl)).congr rfl
          | updateTimer rp du lim =>
            simp only
            exact ((q_sampleDuration ρ _ s).toTr.trans (Tr.same rfl rfl rfl)).congr rfl

theorem t_storeCounterA (oldA newA : Nat) (s : Fw σ) : Tr mi false s (storeCounterA mi oldA newA s).1 := by
  unfold storeCounterA
  simp only
  split
  · exact ((Tr.modRt s mi _ (by intro _; rfl)).trans (Tr.modRt _ mi _ (by intro _; rfl))).congr rfl
  · exact Tr.modRt s mi _ (by intro _; rfl)

theorem t_storeCounterB (oldB newB : Nat) (s : Fw σ) : Tr mi false s (storeCounterB mi oldB newB s).1 := by
  unfold storeCounterB
  simp only
  split
  · exact ((Tr.modRt s mi _ (by intro _; rfl)).trans (Tr.modRt _ mi _ (by intro _; rfl))).congr rfl
  · exact Tr.modRt s mi _ (by intro _; rfl)

theorem t_applyCounterA (c : Option Counter) (oldA oldB : Nat) (s : Fw σ) :
    Tr mi false s (applyCounterA ρ mi c oldA oldB s).1 := by
  unfold applyCounterA
  cases c with
  | none => exact Tr.refl s
  | some c => exact ((q_counterOperand ρ c oldB s).toTr.trans (t_storeCounterA _ _ _)).congr rfl

theorem t_applyCounterB (c : Option Counter) (oldA oldB : Nat) (s : Fw σ) :
    Tr mi false s (applyCounterB ρ mi c oldA oldB s).1 := by
  unfold applyCounterB
  cases c with
  | none => exact Tr.refl s
  | some c => exact ((q_counterOperand ρ c oldA s).toTr.trans (t_storeCounterB _ _ _)).congr rfl

/-! ### the state-change block -/

/-- a sampled regular target different from the current state, (the draw of the limit
    distribution,) the limit assignment: the flag is raised and the tracked state is the target -/
theorem t_resample {s t : Fw σ} {ev next v : Nat} {r : Runtime} (d : List LogEntry)
    (hd : d = [] ∨ ∃ b, d = [.distRaw b])
    (hr : s.rt[mi]? = some r) (hne : r.currentState ≠ next) (hreg : isRegular next = true)
    (hf : t.fault = s.fault)
    (hl : t.log = .limit mi v false :: (d.reverse ++ .sampled mi ev next :: s.log))
    (hr' : t.rt[mi]? = some { r with currentState := next, stateLimit := v }) : Tr mi true s t := by
  intro ht
  refine ⟨by rw [← hf]; exact ht, .sampled mi ev next :: d ++ [.limit mi v false], by simp [hl], ?_, fun r0 hr0 => ?_⟩
  · intro e he
    rcases hd with rfl | ⟨b, rfl⟩
    · simp only [List.cons_append, List.nil_append, List.mem_cons, List.not_mem_nil, or_false] at he
      rcases he with rfl | rfl
      · exact rfl
      · exact ⟨rfl, rfl⟩
    · simp only [List.cons_append, List.nil_append, List.mem_cons, List.not_mem_nil, or_false] at he
      rcases he with rfl | rfl | rfl
      · exact rfl
      · trivial
      · exact ⟨rfl, rfl⟩
  · rw [hr] at hr0; cases hr0
    refine ⟨_, hr', fun b => ?_, fun h => by cases h⟩
    have h1 : (next != r.currentState) = true := by simpa using fun h => hne h.symm
    have h2 : csStep mi (r.currentState, b) (.sampled mi ev next) = (next, true) := by
      rw [csStep_regular mi ev next _ hreg]; simp [h1]
    rcases hd with rfl | ⟨b', rfl⟩
    · simp only [List.cons_append, List.nil_append, List.foldl_cons, List.foldl_nil]
      rw [h2]; simp [csStep]
    · simp only [List.cons_append, List.nil_append, List.foldl_cons, List.foldl_nil]
      rw [h2]; simp [csStep]

/-- the sampled entry of a regular target together with the state-change block of `transition`:
    the flag is raised iff the target differs from the current state; afterwards the machine is in
    the target state -/
theorem t_sampledEnter (ev next : Nat) (m : Machine) (r : Runtime) (s : Fw σ)
    (hr : s.rt[mi]? = some r) (hreg : isRegular next = true) :
    Tr mi (decide (r.currentState ≠ next)) s (enterState ρ mi m r.currentState next (s.push (.sampled mi ev next))) ∧
    ((enterState ρ mi m r.currentState next (s.push (.sampled mi ev next))).fault = none →
      ∃ r', (enterState ρ mi m r.currentState next (s.push (.sampled mi ev next))).rt[mi]? = some r' ∧
        r'.currentState = next) := by
  unfold enterState
  split
  · next hne =>
    have hdec : decide (r.currentState ≠ next) = true := by simpa using hne
    rw [hdec]
    simp only
    have hr0 : ((s.push (.sampled mi ev next)).modRt mi (fun r => { r with currentState := next })).rt[mi]? =
        some { r with currentState := next } := by
      rw [Fw.modRt_rt_self, Fw.push_rt, hr]; rfl
    have hf0 : ((s.push (.sampled mi ev next)).modRt mi (fun r => { r with currentState := next })).fault = s.fault :=
      Countdown.modRt_fault_some _ _ _ r (by rw [Fw.push_rt]; exact hr)
    have hl0 : ((s.push (.sampled mi ev next)).modRt mi (fun r => { r with currentState := next })).log =
        .sampled mi ev next :: s.log := by simp [Fw.push]
    generalize (s.push (.sampled mi ev next)).modRt mi (fun r => { r with currentState := next }) = s0
      at hr0 hf0 hl0 ⊢
    cases hst : m.states[next]? with
    | none => simp only []; exact ⟨Tr.fault _, fun h => absurd h (withFault_fault_ne _ _)⟩
    | some nst =>
      simp only
      cases hact : nst.action with
      | none =>
        simp only
        have hrt : ((s0.modRt mi (fun r => { r with stateLimit := STATE_LIMIT_MAX })).push
            (.limit mi STATE_LIMIT_MAX false)).rt[mi]? =
            some { r with currentState := next, stateLimit := STATE_LIMIT_MAX } := by
          rw [Fw.push_rt, Fw.modRt_rt_self, hr0]; rfl
        refine ⟨t_resample (ev := ev) (v := STATE_LIMIT_MAX) [] (Or.inl rfl) hr hne hreg ?_ ?_ hrt, fun _ => ⟨_, hrt, rfl⟩⟩
        · rw [Fw.push_fault, Countdown.modRt_fault_some _ _ _ _ hr0]; exact hf0
        · simp [Fw.push, hl0]
      | some a =>
        simp only
        obtain ⟨k1, k2, k3, d, hd, k4⟩ := sampleLimit_shape ρ a s0
        generalize sampleLimit ρ a s0 = p at k1 k2 k3 k4 ⊢
        have hrp : p.2.rt[mi]? = some { r with currentState := next } := by rw [k1]; exact hr0
        have hrt : ((p.2.modRt mi (fun r => { r with stateLimit := p.1 })).push (.limit mi p.1 false)).rt[mi]? =
            some { r with currentState := next, stateLimit := p.1 } := by
          rw [Fw.push_rt, Fw.modRt_rt_self, hrp]; rfl
        refine ⟨t_resample (ev := ev) (v := p.1) d hd hr hne hreg ?_ ?_ hrt, fun _ => ⟨_, hrt, rfl⟩⟩
        · rw [Fw.push_fault, Countdown.modRt_fault_some _ _ _ _ hrp, k3]; exact hf0
        · simp [Fw.push, k4, hl0]
  · next heq =>
    have heq' : r.currentState = next := by
      rcases Nat.decEq r.currentState next with h | h
      · exact absurd h heq
      · exact h
    have hdec : decide (r.currentState ≠ next) = false := by simpa using heq'
    rw [hdec]
    refine ⟨fun ht => ⟨ht, [.sampled mi ev next], rfl, by simp [ok], fun r0 hr0 => ?_⟩, fun _ => ⟨r, hr, heq'⟩⟩
    rw [hr] at hr0; cases hr0
    refine ⟨r, hr, fun b => ?_, fun _ => rfl⟩
    have h2 : csStep mi (r.currentState, b) (.sampled mi ev next) = (r.currentState, b) := by
      rw [csStep_regular mi ev next _ hreg]; simp [heq']
    simp only [List.foldl_cons, List.foldl_nil]
    rw [h2]; simp

/-! ### `transition` / `update_counter` -/

/-- `Tr` for the pair returned by `transition` -/
def TrP (mi : Nat) (s : Fw σ) (p : Fw σ × Bool) : Prop := Tr mi p.2 s p.1
/-- `Tr` for the triple returned by `update_counter` -/
def TrU (mi : Nat) (s : Fw σ) (p : Fw σ × Bool × Bool) : Prop := Tr mi p.2.2 s p.1

theorem main2 (mi : Nat) (fuel : Nat) :
    (∀ (ev : Event) (s : Fw σ) (r : Runtime) (m : Machine), s.rt[mi]? = some r → s.machines[mi]? = some m →
      TrP mi (s.push (.trans mi ev.toNat r.currentState)) (transition ρ fuel mi ev s)) ∧
    (∀ (s : Fw σ), TrU mi s (updateCounter ρ fuel mi s)) := by
  induction fuel with
  | zero =>
    refine ⟨fun ev s r m _ _ => ?_, fun s => ?_⟩
    · rw [transition]; exact Tr.fault _
    · rw [updateCounter]; exact Tr.fault _
  | succ n ih =>
    obtain ⟨ihT, ihU⟩ := ih
    refine ⟨fun ev s r m hr hm => ?_, fun s => ?_⟩
    · rw [transition, hr, hm]
      simp only []
      have hr0 : (s.push (.trans mi ev.toNat r.currentState)).rt[mi]? = some r := hr
      generalize s.push (.trans mi ev.toNat r.currentState) = s' at hr0 ⊢
      split
      · exact Tr.refl s'
      · cases hst : m.states[r.currentState]? with
        | none => exact Tr.fault _
        | some st =>
        simp only []
        cases htr : st.transitions[ev.toNat]? with
        | none => exact Tr.fault _
        | some ov =>
        cases ov with
        | none => exact Tr.refl s'
        | some vec =>
        simp only []
        generalize hs1 : (({ s' with rng := (ρ.u s'.rng).2 }).push (.draw (ρ.u s'.rng).1)) = s1
        have q1 : Tr mi false s' s1 := by
          subst hs1; exact Tr.logs [.draw _] (by simp [ok]) (by simp) rfl rfl rfl
        have hr1 : s1.rt[mi]? = some r := by subst hs1; exact hr0
        cases hss : sampleState vec (ρ.u s'.rng).1 with
        | none => simp only []; exact q1
        | some next =>
        simp only []
        split
        · next hend =>
          subst hend
          show Tr mi true s' _
          refine (q1.trans (y := true) ?_).congr rfl
          intro ht
          have hf := Countdown.modRt_fault_some (s1.push (.sampled mi ev.toNat STATE_END)) mi
            (fun r => { r with currentState := STATE_END }) r (by rw [Fw.push_rt]; exact hr1)
          refine ⟨by rw [hf] at ht; exact ht, [.sampled mi ev.toNat STATE_END], by simp [Fw.push], by simp [ok],
            fun r0 hr0' => ?_⟩
          rw [hr1] at hr0'; cases hr0'
          refine ⟨{ r with currentState := STATE_END }, by rw [Fw.modRt_rt_self, Fw.push_rt, hr1]; rfl, fun b => ?_,
            fun h => by cases h⟩
          simp [csStep]
        · split
          · next hne hsig =>
            subst hsig
            show Tr mi false s' _
            refine (q1.trans (y := false) ?_).congr rfl
            intro ht
            refine ⟨ht, [.sampled mi ev.toNat STATE_SIGNAL], rfl, by simp [ok], fun r0 hr0' => ?_⟩
            refine ⟨r0, hr0', fun b => ?_, fun _ => rfl⟩
            have h1 : isRegular STATE_SIGNAL = false := by decide
            have h2 : (STATE_SIGNAL == STATE_END) = false := by decide
            simp [csStep, h1, h2]
          · next hne hns =>
            obtain ⟨qE, hE2⟩ := t_sampledEnter ρ (mi := mi) ev.toNat next m r s1 hr1 (isRegular_of hne hns)
            generalize enterState ρ mi m r.currentState next (s1.push (.sampled mi ev.toNat next)) = s3 at qE hE2 ⊢
            cases hr3 : s3.rt[mi]? with
            | none => simp only []; exact Tr.fault _
            | some r1 =>
            simp only []
            cases hb : belowActionLimits s3.g r1 m with
            | none => simp only []; exact Tr.fault _
            | some below =>
            simp only []
            have hU : TrU mi s3 (updateCounter ρ n mi s3) := ihU s3
            generalize updateCounter ρ n mi s3 = res at hU ⊢
            have q45 : Tr mi false res.1 (if (res.2.1 && below) = true then scheduleAction ρ mi next res.1 else res.1) := by
              split
              · exact t_scheduleAction ρ next _
              · exact Tr.refl _
            generalize (if (res.2.1 && below) = true then scheduleAction ρ mi next res.1 else res.1) = s5 at q45 ⊢
            cases hr5 : s5.rt[mi]? with
            | none => simp only []; exact Tr.fault _
            | some r2 =>
            simp only []
            show Tr mi (!(r.currentState == r2.currentState && !res.2.2)) s' s5
            have hU' : Tr mi res.2.2 s3 res.1 := hU
            have T := (q1.trans qE).trans (hU'.trans q45)
            intro ht
            have hX : ((false || decide (r.currentState ≠ next)) || (res.2.2 || false)) =
                (!(r.currentState == r2.currentState && !res.2.2)) := by
              obtain ⟨h45f, _⟩ := q45 ht
              obtain ⟨h3f, _⟩ := hU' h45f
              obtain ⟨r3, hr3', hr3c⟩ := hE2 h3f
              obtain ⟨_, c, _, _, p⟩ := (hU'.trans q45) ht
              obtain ⟨r', hr', _, k⟩ := p r3 hr3'
              rw [hr5] at hr'; cases hr'
              cases hres : res.2.2 with
              | true => simp
              | false =>
                have : r2.currentState = next := by rw [k (by simp [hres]), hr3c]
                rw [this]
                by_cases hc : r.currentState = next <;> simp [hc]
            exact (T.congr hX) ht
    · rw [updateCounter]
      cases hr : s.rt[mi]? with
      | none => exact Tr.fault _
      | some r =>
      cases hm : s.machines[mi]? with
      | none => exact Tr.fault _
      | some m =>
      simp only []
      cases hst : m.states[r.currentState]? with
      | none => exact Tr.fault _
      | some st =>
      simp only []
      have qA := t_applyCounterA ρ (mi := mi) st.counterA r.counterA r.counterB s
      generalize applyCounterA ρ mi st.counterA r.counterA r.counterB s = ra at qA ⊢
      have qB := (qA.trans (t_applyCounterB ρ (mi := mi) st.counterB r.counterA r.counterB ra.1)).congr (y := false) rfl
      generalize applyCounterB ρ mi st.counterB r.counterA r.counterB ra.1 = rb at qB ⊢
      have q2 := (qB.trans (Tr.push (mi := mi) rb.1
        (.counter mi r.counterA (counterAOf rb.1 mi) r.counterB (counterBOf rb.1 mi)) rfl
        (by intro _ _ _ h; cases h))).congr (y := false) rfl
      generalize rb.1.push (.counter mi r.counterA (counterAOf rb.1 mi) r.counterB (counterBOf rb.1 mi)) = s2 at q2 ⊢
      split
      · have qT : Tr mi (transition ρ n mi .counterZero s2).2 s (transition ρ n mi .counterZero s2).1 := by
          cases n with
          | zero => rw [transition]; exact Tr.fault _
          | succ k =>
            cases hr2 : s2.rt[mi]? with
            | none => rw [transition, hr2]; simp only []; exact Tr.fault _
            | some r2 =>
            cases hm2 : s2.machines[mi]? with
            | none => rw [transition, hr2, hm2]; simp only []; exact Tr.fault _
            | some m2 =>
              have h1 : Tr mi false s2 (s2.push (.trans mi Event.counterZero.toNat r2.currentState)) :=
                Tr.push s2 _ ⟨rfl, rfl⟩ (by intro _ _ _ h; cases h)
              have h2 : Tr mi (transition ρ (k + 1) mi .counterZero s2).2
                  (s2.push (.trans mi Event.counterZero.toNat r2.currentState))
                  (transition ρ (k + 1) mi .counterZero s2).1 := ihT .counterZero s2 r2 m2 hr2 hm2
              exact ((q2.trans h1).trans h2).congr (by simp)
        generalize transition ρ n mi .counterZero s2 = res at qT ⊢
        split
        · exact Tr.fault _
        · exact qT
      · exact q2

end LL
end Mb
