/-
  The proof engine for the framework model: every state change performed by
  `transition` / `updateCounter` / `decrementLimit` for machine `mi` is a finite
  sequence of primitive steps (`Step mi`), each carrying the evidence the
  properties need (a sampled target comes from a transition vector of the
  machine; an action is only put in a slot when the limit predicates allowed it).
  Property invariants are then proved per primitive step.
-/
import MbVerif.Framework
import MbVerif.Proofs.FpBasic
import MbVerif.Spec.C04

namespace Mb
variable {σ : Type}

/-- the action put into a slot by `schedule_action` for machine action `act` -/
def mkAction (act : Action) (mi tmo dur : Nat) : TAction :=
  match act with
  | .cancel t => .cancel mi t
  | .sendPadding b r _ _ => .sendPadding tmo b r mi
  | .blockOutgoing b r _ _ _ => .blockOutgoing tmo dur b r mi
  | .updateTimer r _ _ => .updateTimer dur r mi

/-- evidence that the limit predicates allowed scheduling `act` (the action of state `next` of `m`)
    for a machine whose accounting is `acct`, under globals `g` -/
def Gate (g : Globals) (m : Machine) (acct : RtAcct) (next : Nat) (act : Action) : Prop :=
  ∃ (r₁ : Runtime) (st : State), r₁.acct = acct ∧ r₁.currentState = next ∧ m.states[next]? = some st ∧
    st.action = some act ∧ belowActionLimits g r₁ m = some true

/-- `x` is a target the machine can move to from its current state: a target listed in one of the
    transition vectors of the current state (or END) -/
def TargetOK (s : Fw σ) (mi : Nat) (x : Nat) : Prop :=
  (∃ (m : Machine) (r : Runtime) (st : State) (ev : Nat) (vec : List Trans) (t : Trans),
    s.machines[mi]? = some m ∧ s.rt[mi]? = some r ∧ m.states[r.currentState]? = some st ∧
    st.transitions[ev]? = some (some vec) ∧ t ∈ vec ∧ t.target = x) ∧ x ≠ STATE_SIGNAL

/-- primitive state changes made on behalf of machine `mi` -/
inductive Step (mi : Nat) : Fw σ → Fw σ → Prop
  | push (s : Fw σ) (e : LogEntry) : Step mi s (s.push e)
  | fault (s : Fw σ) (f : Fault) : Step mi s (s.withFault f)
  | rng (s : Fw σ) (g : σ) : Step mi s { s with rng := g }
  | setState (s : Fw σ) (x : Nat) (h : TargetOK s mi x) :
      Step mi s (s.modRt mi (fun r => { r with currentState := x }))
  | setLimit (s : Fw σ) (l : Nat) : Step mi s (s.modRt mi (fun r => { r with stateLimit := l }))
  | setCtrA (s : Fw σ) (v : Nat) : Step mi s (s.modRt mi (fun r => { r with counterA := v }))
  | setCtrB (s : Fw σ) (v : Nat) : Step mi s (s.modRt mi (fun r => { r with counterB := v }))
  | signal (s : Fw σ) (p : Option SignalTarget) : Step mi s { s with signalPending := p }
  | zeroA (s : Fw σ) : Step mi s (s.modRt mi (fun r => { r with zeroedA := true }))
  | zeroB (s : Fw σ) : Step mi s (s.modRt mi (fun r => { r with zeroedB := true }))
  | clear (s : Fw σ) (h : mi < s.actions.length) : Step mi s { s with actions := s.actions.set mi none }
  | sched (s : Fw σ) (m : Machine) (r : Runtime) (next : Nat) (act : Action) (tmo dur : Nat)
      (hm : s.machines[mi]? = some m) (hr : s.rt[mi]? = some r) (hlen : mi < s.actions.length)
      (hg : Gate s.g m r.acct next act)
      (htimes : C04.timesOK (mkAction act mi tmo dur) = true) :
      Step mi s { s with actions := s.actions.set mi (some (mkAction act mi tmo dur)) }

/-- reflexive-transitive closure -/
inductive Reach (mi : Nat) : Fw σ → Fw σ → Prop
  | refl (s : Fw σ) : Reach mi s s
  | tail {s t u : Fw σ} : Reach mi s t → Step mi t u → Reach mi s u

namespace Reach

theorem trans {mi : Nat} {s t u : Fw σ} (h₁ : Reach mi s t) (h₂ : Reach mi t u) : Reach mi s u := by
  induction h₂ with
  | refl => exact h₁
  | tail _ st ih => exact Reach.tail ih st

theorem single {mi : Nat} {s t : Fw σ} (h : Step mi s t) : Reach mi s t := Reach.tail (Reach.refl s) h

/-- an invariant preserved by every step holds after any sequence of steps -/
theorem inv {mi : Nat} (I : Fw σ → Prop) (hstep : ∀ s t, I s → Step mi s t → I t)
    {s t : Fw σ} (h : Reach mi s t) (hs : I s) : I t := by
  induction h with
  | refl => exact hs
  | tail _ st ih => exact hstep _ _ ih st

end Reach

section
variable {σ : Type}
theorem set_getElem?_some {α : Type} (l : List α) (mi i : Nat) (x y : α) (h : (l.set mi x)[i]? = some y) :
    (i = mi ∧ y = x) ∨ (i ≠ mi ∧ l[i]? = some y) := by
  by_cases hi : i = mi
  · subst hi
    left
    rw [List.getElem?_set] at h
    split at h
    · split at h
      · exact ⟨rfl, (Option.some.inj h).symm⟩
      · simp at h
    · exact absurd rfl ‹_›
  · right
    refine ⟨hi, ?_⟩
    rw [List.getElem?_set] at h
    simpa [Ne.symm hi] using h

end

/-! ### field lemmas for the primitive updates -/

namespace Fw

@[simp] theorem push_machines (s : Fw σ) (e) : (s.push e).machines = s.machines := rfl
@[simp] theorem push_g (s : Fw σ) (e) : (s.push e).g = s.g := rfl
@[simp] theorem push_rt (s : Fw σ) (e) : (s.push e).rt = s.rt := rfl
@[simp] theorem push_actions (s : Fw σ) (e) : (s.push e).actions = s.actions := rfl
@[simp] theorem push_signal (s : Fw σ) (e) : (s.push e).signalPending = s.signalPending := rfl
@[simp] theorem push_rng (s : Fw σ) (e) : (s.push e).rng = s.rng := rfl
@[simp] theorem push_fault (s : Fw σ) (e) : (s.push e).fault = s.fault := rfl

@[simp] theorem withFault_machines (s : Fw σ) (f) : (s.withFault f).machines = s.machines := by
  unfold withFault; split <;> rfl
@[simp] theorem withFault_g (s : Fw σ) (f) : (s.withFault f).g = s.g := by
  unfold withFault; split <;> rfl
@[simp] theorem withFault_rt (s : Fw σ) (f) : (s.withFault f).rt = s.rt := by
  unfold withFault; split <;> rfl
@[simp] theorem withFault_actions (s : Fw σ) (f) : (s.withFault f).actions = s.actions := by
  unfold withFault; split <;> rfl
@[simp] theorem withFault_signal (s : Fw σ) (f) : (s.withFault f).signalPending = s.signalPending := by
  unfold withFault; split <;> rfl
@[simp] theorem withFault_rng (s : Fw σ) (f) : (s.withFault f).rng = s.rng := by
  unfold withFault; split <;> rfl
@[simp] theorem withFault_log (s : Fw σ) (f) : (s.withFault f).log = s.log := by
  unfold withFault; split <;> rfl

@[simp] theorem modRt_machines (s : Fw σ) (mi f) : (s.modRt mi f).machines = s.machines := by
  unfold modRt; split <;> simp
@[simp] theorem modRt_g (s : Fw σ) (mi f) : (s.modRt mi f).g = s.g := by
  unfold modRt; split <;> simp
@[simp] theorem modRt_actions (s : Fw σ) (mi f) : (s.modRt mi f).actions = s.actions := by
  unfold modRt; split <;> simp
@[simp] theorem modRt_signal (s : Fw σ) (mi f) : (s.modRt mi f).signalPending = s.signalPending := by
  unfold modRt; split <;> simp
@[simp] theorem modRt_rng (s : Fw σ) (mi f) : (s.modRt mi f).rng = s.rng := by
  unfold modRt; split <;> simp
@[simp] theorem modRt_log (s : Fw σ) (mi f) : (s.modRt mi f).log = s.log := by
  unfold modRt; split <;> simp

@[simp] theorem modRt_rt_length (s : Fw σ) (mi f) : (s.modRt mi f).rt.length = s.rt.length := by
  unfold modRt; split <;> simp

theorem modRt_rt_self (s : Fw σ) (mi f) : (s.modRt mi f).rt[mi]? = (s.rt[mi]?).map f := by
  unfold modRt
  split
  · next r h =>
    have hlt : mi < s.rt.length := by
      rcases Nat.lt_or_ge mi s.rt.length with h' | h'
      · exact h'
      · simp [List.getElem?_eq_none h'] at h
    have hr : s.rt[mi] = r := by
      have := List.getElem?_eq_getElem hlt
      rw [this] at h; exact Option.some.inj h
    simp [hlt, hr, h]
  · next h => simp [h]

theorem modRt_rt_other (s : Fw σ) (mi j f) (h : j ≠ mi) : (s.modRt mi f).rt[j]? = s.rt[j]? := by
  unfold modRt
  split
  · simp [Ne.symm h]
  · simp

theorem modRt_of_some (s : Fw σ) (mi f) (r) (h : s.rt[mi]? = some r) :
    s.modRt mi f = { s with rt := s.rt.set mi (f r) } := by
  unfold modRt; simp [h]

end Fw

/-! ### sampling only touches the random state and the log -/

/-- `t` differs from `s` only in the random state and the log -/
structure RngLogOnly (s t : Fw σ) : Prop where
  machines : t.machines = s.machines
  g : t.g = s.g
  rt : t.rt = s.rt
  actions : t.actions = s.actions
  signal : t.signalPending = s.signalPending
  fault : t.fault = s.fault

theorem RngLogOnly.refl (s : Fw σ) : RngLogOnly s s := ⟨rfl, rfl, rfl, rfl, rfl, rfl⟩

theorem RngLogOnly.trans {s t u : Fw σ} (h₁ : RngLogOnly s t) (h₂ : RngLogOnly t u) : RngLogOnly s u :=
  ⟨h₂.machines.trans h₁.machines, h₂.g.trans h₁.g, h₂.rt.trans h₁.rt, h₂.actions.trans h₁.actions,
   h₂.signal.trans h₁.signal, h₂.fault.trans h₁.fault⟩

section
variable (ρ : Oracle σ) (mi : Nat)

theorem distSample_spec (d : Dist) (s : Fw σ) :
    RngLogOnly s (distSample ρ d s).2 ∧ Reach mi s (distSample ρ d s).2 := by
  unfold distSample
  refine ⟨⟨rfl, rfl, rfl, rfl, rfl, rfl⟩, ?_⟩
  exact Reach.tail (Reach.single (Step.rng s _)) (Step.push _ _)

theorem sampleTimeout_spec (a : Action) (s : Fw σ) :
    RngLogOnly s (sampleTimeout ρ a s).2 ∧ Reach mi s (sampleTimeout ρ a s).2 := by
  unfold sampleTimeout
  split
  · exact distSample_spec ρ mi _ s
  · exact distSample_spec ρ mi _ s
  · exact ⟨RngLogOnly.refl s, Reach.refl s⟩

theorem sampleDuration_spec (a : Action) (s : Fw σ) :
    RngLogOnly s (sampleDuration ρ a s).2 ∧ Reach mi s (sampleDuration ρ a s).2 := by
  unfold sampleDuration
  split
  · exact distSample_spec ρ mi _ s
  · exact distSample_spec ρ mi _ s
  · exact ⟨RngLogOnly.refl s, Reach.refl s⟩

theorem sampleLimit_spec (a : Action) (s : Fw σ) :
    RngLogOnly s (sampleLimit ρ a s).2 ∧ Reach mi s (sampleLimit ρ a s).2 := by
  unfold sampleLimit
  split
  · exact ⟨RngLogOnly.refl s, Reach.refl s⟩
  · exact distSample_spec ρ mi _ s

theorem sampleValue_spec (c : Counter) (s : Fw σ) :
    RngLogOnly s (sampleValue ρ c s).2 ∧ Reach mi s (sampleValue ρ c s).2 := by
  unfold sampleValue
  split
  · exact ⟨RngLogOnly.refl s, Reach.refl s⟩
  · exact distSample_spec ρ mi _ s

end


/-! ### frame facts: what a step for `mi` cannot change -/

/-- what steps on behalf of `mi` leave alone -/
structure Frame (mi : Nat) (s t : Fw σ) : Prop where
  machines : t.machines = s.machines
  g : t.g = s.g
  rtLen : t.rt.length = s.rt.length
  actLen : t.actions.length = s.actions.length
  rtOther : ∀ j, j ≠ mi → t.rt[j]? = s.rt[j]?
  actOther : ∀ j, j ≠ mi → t.actions[j]? = s.actions[j]?
  acct : (t.rt[mi]?).map (·.acct) = (s.rt[mi]?).map (·.acct)

theorem Frame.refl (mi : Nat) (s : Fw σ) : Frame mi s s :=
  ⟨rfl, rfl, rfl, rfl, fun _ _ => rfl, fun _ _ => rfl, rfl⟩

theorem Frame.trans {mi : Nat} {s t u : Fw σ} (h₁ : Frame mi s t) (h₂ : Frame mi t u) : Frame mi s u :=
  ⟨h₂.machines.trans h₁.machines, h₂.g.trans h₁.g, h₂.rtLen.trans h₁.rtLen, h₂.actLen.trans h₁.actLen,
   fun j hj => (h₂.rtOther j hj).trans (h₁.rtOther j hj),
   fun j hj => (h₂.actOther j hj).trans (h₁.actOther j hj), h₂.acct.trans h₁.acct⟩

theorem frame_modRt (mi : Nat) (s : Fw σ) (f : Runtime → Runtime) (hf : ∀ r, (f r).acct = r.acct) :
    Frame mi s (s.modRt mi f) := by
  refine ⟨by simp, by simp, by simp, by simp, fun j hj => Fw.modRt_rt_other s mi j f hj, by simp, ?_⟩
  rw [Fw.modRt_rt_self]
  cases h : s.rt[mi]? <;> simp [hf]

theorem Step.frame {mi : Nat} {s t : Fw σ} (h : Step mi s t) : Frame mi s t := by
  cases h with
  | push => exact ⟨rfl, rfl, rfl, rfl, fun _ _ => rfl, fun _ _ => rfl, rfl⟩
  | fault => exact ⟨by simp, by simp, by simp, by simp, by simp, by simp, by simp⟩
  | rng => exact ⟨rfl, rfl, rfl, rfl, fun _ _ => rfl, fun _ _ => rfl, rfl⟩
  | setState => exact frame_modRt mi s _ (fun _ => rfl)
  | setLimit => exact frame_modRt mi s _ (fun _ => rfl)
  | setCtrA => exact frame_modRt mi s _ (fun _ => rfl)
  | setCtrB => exact frame_modRt mi s _ (fun _ => rfl)
  | signal => exact ⟨rfl, rfl, rfl, rfl, fun _ _ => rfl, fun _ _ => rfl, rfl⟩
  | zeroA => exact frame_modRt mi s _ (fun _ => rfl)
  | zeroB => exact frame_modRt mi s _ (fun _ => rfl)
  | clear =>
    refine ⟨rfl, rfl, rfl, by simp, fun _ _ => rfl, fun j hj => ?_, rfl⟩
    simp [List.getElem?_set, Ne.symm hj]
  | sched =>
    refine ⟨rfl, rfl, rfl, by simp, fun _ _ => rfl, fun j hj => ?_, rfl⟩
    simp [List.getElem?_set, Ne.symm hj]

theorem Reach.frame {mi : Nat} {s t : Fw σ} (h : Reach mi s t) : Frame mi s t := by
  induction h with
  | refl => exact Frame.refl mi _
  | tail _ st ih => exact ih.trans st.frame


/-! ### `schedule_action` is a sequence of steps ending in a gated `sched` -/

section
variable (ρ : Oracle σ)

theorem scheduleAction_reach (mi next : Nat) (s : Fw σ) (m : Machine) (r : Runtime)
    (hm : s.machines[mi]? = some m) (hr : s.rt[mi]? = some r)
    (hgate : ∀ st act, m.states[next]? = some st → st.action = some act → Gate s.g m r.acct next act) :
    Reach mi s (scheduleAction ρ mi next s) := by
  unfold scheduleAction
  rw [hm]
  simp only
  cases hst : m.states[next]? with
  | none => exact Reach.single (Step.fault s _)
  | some st =>
    simp only
    split
    · exact Reach.single (Step.fault s _)
    · next hlen =>
      have hlen' : mi < s.actions.length := by omega
      cases hact : st.action with
      | none => exact Reach.single (Step.clear s hlen')
      | some act =>
        have hg := hgate st act hst hact
        cases act with
        | cancel t =>
          exact Reach.single (Step.sched s m r next (.cancel t) 0 0 hm hr hlen' hg (by simp [mkAction, C04.timesOK]))
        | sendPadding b rp tmo lim =>
          simp only
          obtain ⟨hrl, hre⟩ := sampleTimeout_spec ρ mi (.sendPadding b rp tmo lim) s
          refine Reach.tail hre ?_
          have := Step.sched (mi := mi) (sampleTimeout ρ (.sendPadding b rp tmo lim) s).2 m r next
            (.sendPadding b rp tmo lim) (sampleTimeout ρ (.sendPadding b rp tmo lim) s).1 0
            (by rw [hrl.machines]; exact hm) (by rw [hrl.rt]; exact hr) (by rw [hrl.actions]; exact hlen')
            (by rw [hrl.g]; exact hg)
            (by simp [mkAction, C04.timesOK, sampleTimeout]; exact toMicros_le _ _)
          simpa [mkAction] using this
        | blockOutgoing b rp tmo du lim =>
          simp only
          obtain ⟨hrl, hre⟩ := sampleTimeout_spec ρ mi (.blockOutgoing b rp tmo du lim) s
          obtain ⟨hrl2, hre2⟩ := sampleDuration_spec ρ mi (.blockOutgoing b rp tmo du lim)
            (sampleTimeout ρ (.blockOutgoing b rp tmo du lim) s).2
          have hrl3 := hrl.trans hrl2
          refine Reach.tail (hre.trans hre2) ?_
          have := Step.sched (mi := mi)
            (sampleDuration ρ (.blockOutgoing b rp tmo du lim) (sampleTimeout ρ (.blockOutgoing b rp tmo du lim) s).2).2
            m r next (.blockOutgoing b rp tmo du lim)
            (sampleTimeout ρ (.blockOutgoing b rp tmo du lim) s).1
            (sampleDuration ρ (.blockOutgoing b rp tmo du lim) (sampleTimeout ρ (.blockOutgoing b rp tmo du lim) s).2).1
            (by rw [hrl3.machines]; exact hm) (by rw [hrl3.rt]; exact hr) (by rw [hrl3.actions]; exact hlen')
            (by rw [hrl3.g]; exact hg)
            (by simp [mkAction, C04.timesOK, sampleTimeout, sampleDuration]; exact ⟨toMicros_le _ _, toMicros_le _ _⟩)
          simpa [mkAction] using this
        | updateTimer rp du lim =>
          simp only
          obtain ⟨hrl, hre⟩ := sampleDuration_spec ρ mi (.updateTimer rp du lim) s
          refine Reach.tail hre ?_
          have := Step.sched (mi := mi) (sampleDuration ρ (.updateTimer rp du lim) s).2 m r next
            (.updateTimer rp du lim) 0 (sampleDuration ρ (.updateTimer rp du lim) s).1
            (by rw [hrl.machines]; exact hm) (by rw [hrl.rt]; exact hr) (by rw [hrl.actions]; exact hlen')
            (by rw [hrl.g]; exact hg)
            (by simp [mkAction, C04.timesOK, sampleDuration]; exact toMicros_le _ _)
          simpa [mkAction] using this

end


/-! ### the pieces of `transition` -/

theorem sampleLoop_mem (r : FV) : ∀ (sum : FV) (ts : List Trans) (x : Nat),
    sampleLoop r sum ts = some x → ∃ t ∈ ts, t.target = x := by
  intro sum ts
  induction ts generalizing sum with
  | nil => intro x h; simp [sampleLoop] at h
  | cons t ts ih =>
    intro x h
    simp only [sampleLoop] at h
    split at h
    · exact ⟨t, by simp, by simpa using h⟩
    · obtain ⟨t', ht', hx⟩ := ih _ x h
      exact ⟨t', by simp [ht'], hx⟩

theorem sampleState_mem (ts : List Trans) (r : F32) (x : Nat) (h : sampleState ts r = some x) :
    ∃ t ∈ ts, t.target = x := sampleLoop_mem _ _ _ _ h

section
variable (ρ : Oracle σ)

theorem enterState_reach (mi : Nat) (m : Machine) (cur next : Nat) (s : Fw σ)
    (ht : TargetOK s mi next) : Reach mi s (enterState ρ mi m cur next s) := by
  unfold enterState
  split
  · have h1 : Reach mi s (s.modRt mi (fun r => { r with currentState := next })) :=
      Reach.single (Step.setState s next ht)
    simp only
    split
    · exact Reach.tail h1 (Step.fault _ _)
    · split
      · next a _ =>
        obtain ⟨_, hre⟩ := sampleLimit_spec ρ mi a (s.modRt mi (fun r => { r with currentState := next }))
        exact Reach.tail (Reach.tail (h1.trans hre) (Step.setLimit _ _)) (Step.push _ _)
      · exact Reach.tail (Reach.tail h1 (Step.setLimit _ _)) (Step.push _ _)
  · exact Reach.refl s

theorem counterOperand_spec (mi : Nat) (c : Counter) (other : Nat) (s : Fw σ) :
    RngLogOnly s (counterOperand ρ c other s).2 ∧ Reach mi s (counterOperand ρ c other s).2 := by
  unfold counterOperand
  split
  · exact ⟨RngLogOnly.refl s, Reach.refl s⟩
  · exact sampleValue_spec ρ mi c s

theorem storeCounterA_reach (mi : Nat) (oldA newA : Nat) (s : Fw σ) : Reach mi s (storeCounterA mi oldA newA s).1 := by
  unfold storeCounterA
  simp only
  split
  · exact Reach.tail (Reach.single (Step.setCtrA s _)) (Step.zeroA _)
  · exact Reach.single (Step.setCtrA s _)

theorem storeCounterB_reach (mi : Nat) (oldB newB : Nat) (s : Fw σ) : Reach mi s (storeCounterB mi oldB newB s).1 := by
  unfold storeCounterB
  simp only
  split
  · exact Reach.tail (Reach.single (Step.setCtrB s _)) (Step.zeroB _)
  · exact Reach.single (Step.setCtrB s _)

theorem applyCounterA_reach (mi : Nat) (c : Option Counter) (oldA oldB : Nat) (s : Fw σ) :
    Reach mi s (applyCounterA ρ mi c oldA oldB s).1 := by
  unfold applyCounterA
  cases c with
  | none => exact Reach.refl s
  | some c => exact (counterOperand_spec ρ mi c oldB s).2.trans (storeCounterA_reach mi _ _ _)

theorem applyCounterB_reach (mi : Nat) (c : Option Counter) (oldA oldB : Nat) (s : Fw σ) :
    Reach mi s (applyCounterB ρ mi c oldA oldB s).1 := by
  unfold applyCounterB
  cases c with
  | none => exact Reach.refl s
  | some c => exact (counterOperand_spec ρ mi c oldA s).2.trans (storeCounterB_reach mi _ _ _)

end

end Mb
