/-
  C14, "and nothing else": without machines every event the main loop processes is one of the
  four packet events (NormalSent, TunnelSent, TunnelRecv, NormalRecv) without padding, bypass or
  replace flag — no PaddingSent, no blocking, no timers.
-/
import MbVerif.Proofs.SimCausal
import MbVerif.Proofs.SimNoMachines
import MbVerif.Spec.C14

namespace Mb.Sim
open Mb

/-- a plain packet event -/
def pktOK (e : SimEvent) : Bool :=
  !e.containsPadding && !e.bypass && !e.replace &&
    (e.event == .normalSent || e.event == .tunnelSent || e.event == .tunnelRecv || e.event == .normalRecv)

def notPkt (e : SimEvent) : Bool := !pktOK e

section
variable {σ : Type} (ρ : Oracle σ)

/-- the state of a simulation without machines -/
structure NoMach (st : St σ) : Prop where
  qc : Quiet st.client.fw
  qs : Quiet st.server.fw
  ac : ∀ a, some a ∉ st.client.schedAction
  as : ∀ a, some a ∉ st.server.schedAction
  tc : ∀ t, some t ∉ st.client.schedTimer
  ts : ∀ t, some t ∉ st.server.schedTimer
  bc : st.client.blockingUntil = none
  bs : st.server.blockingUntil = none
  pk : tcount notPkt st.sq = 0

theorem peekScheduledAction_none {c s : List (Option SchedAction)} {now : Int}
    (hc : ∀ a, some a ∉ c) (hs : ∀ a, some a ∉ s) : peekScheduledAction c s now = durMax := by
  rw [peekScheduledAction_eq]
  rcases foldl_peekStep_attained now c durMax with h1 | ⟨a, ha, _⟩
  · rw [h1]
    rcases foldl_peekStep_attained now s durMax with h2 | ⟨a, ha, _⟩
    · exact h2
    · exact absurd ha (hs a)
  · exact absurd ha (hc a)

theorem peekScheduledInternalTimer_none {c s : List (Option Int)} {now : Int}
    (hc : ∀ a, some a ∉ c) (hs : ∀ a, some a ∉ s) : peekScheduledInternalTimer c s now = durMax := by
  have heq : peekScheduledInternalTimer c s now = s.foldl (peekStepT now) (c.foldl (peekStepT now) durMax) := rfl
  rw [heq]
  rcases foldl_peekStepT_attained now c durMax with h1 | ⟨a, ha, _⟩
  · rw [h1]
    rcases foldl_peekStepT_attained now s durMax with h2 | ⟨a, ha, _⟩
    · exact h2
    · exact absurd ha (hs a)
  · exact absurd ha (hc a)

/-- without machines `pick_next` only ever serves the queue (or a pending aggregate delay) -/
theorem pickDecide_nomach {st : St σ} (hn : NoMach st) {p : Pick} (h : pickDecide st = .ok p) :
    p = .nothing ∨ p = .agg ∨ ∃ q qid c, p = .queue q qid c := by
  have hs := peekScheduledAction_none (now := st.now) hn.ac hn.as
  have hi := peekScheduledInternalTimer_none (now := st.now) hn.tc hn.ts
  cases p with
  | nothing => exact Or.inl rfl
  | agg => exact Or.inr (Or.inl rfl)
  | queue q qid c => exact Or.inr (Or.inr ⟨q, qid, c, rfl⟩)
  | timer i =>
    have := pickDecide_timer h
    omega
  | action s =>
    have := pickDecide_action h
    omega
  | blockExp b c =>
    exfalso
    have hb : peekBlockedExp st.client.blockingUntil st.server.blockingUntil st.now = (durMax, true) := by
      rw [hn.bc, hn.bs]; rfl
    have hnle : st.net.peekAggregateDelay st.now ≤ durMax := by
      unfold Bottleneck.peekAggregateDelay
      cases st.net.aggQueue.peek with
      | none => exact Nat.le_refl _
      | some d => exact dsince_le' _ _
    unfold pickDecide at h
    simp only [] at h
    rw [bind_ok_iff] at h
    obtain ⟨⟨q, qid, qc⟩, hq, h2⟩ := h
    have hq' := peekQueue_le hq
    rw [hs, hi, hb] at h2
    simp only [pure, Except.pure] at h2
    split at h2
    · cases h2
    · rename_i hall
      split at h2
      · cases h2
      · rename_i hna
        split at h2
        · rename_i hbb
          simp only [Bool.and_eq_true, decide_eq_true_eq] at hall hna hbb
          have hqm : q = durMax := by omega
          apply hna
          refine ⟨⟨⟨hnle, hnle⟩, hnle⟩, by omega⟩
        · split at h2
          · cases h2
          · split at h2 <;> cases h2

theorem pktOK_of_same {e hd : SimEvent} (h : sameButTime e hd) (hp : pktOK hd = true) : pktOK e = true := by
  unfold pktOK at *
  rw [h.1, h.2.2.1, h.2.2.2.1, h.2.2.2.2]; exact hp

/-- `pick_next` without machines: the returned event is a plain packet popped from the queue,
    and the state stays machine-free -/
theorem pickNext_nomach : ∀ (fuel : Nat) (st st' : St σ) (e : SimEvent), NoMach st →
    pickNext fuel st = some (.ok (some e, st')) → NoMach st' ∧ pktOK e = true := by
  intro fuel
  induction fuel with
  | zero => intro st st' e _ h; simp [pickNext] at h
  | succ n ih =>
    intro st st' e hn h
    unfold pickNext at h
    cases hd : pickDecide st with
    | error f => simp [hd] at h
    | ok p =>
      simp only [hd] at h
      rcases pickDecide_nomach hn hd with hp | hp | ⟨q, qid, c, hp⟩
      · subst hp; simp at h
      · subst hp
        simp only [] at h
        cases ha : pickAgg st with
        | error f => simp [ha] at h
        | ok st1 =>
          simp only [ha] at h
          have hsq := pickAgg_sq ha
          have hst1 : NoMach st1 := by
            unfold pickAgg at ha
            split at ha
            · cases ha
            rw [bind_ok_iff] at ha
            obtain ⟨net, _, h2⟩ := ha
            simp only [pure, Except.pure] at h2
            cases h2
            exact ⟨hn.qc, hn.qs, hn.ac, hn.as, hn.tc, hn.ts, hn.bc, hn.bs, hn.pk⟩
          exact ih st1 st' e hst1 h
      · subst hp
        simp only [] at h
        cases hq : pickQueue st q qid c with
        | error f => simp [hq] at h
        | ok pr =>
          obtain ⟨e1, st1⟩ := pr
          simp only [hq, Option.some.injEq, Except.ok.injEq, Prod.mk.injEq] at h
          obtain ⟨he, hst⟩ := h
          subst hst
          have he' : e1 = e := by simpa using he
          subst he'
          unfold pickQueue at hq
          rw [bind_ok_iff] at hq
          obtain ⟨r, hr, h2⟩ := hq
          cases r with
          | none => simp at h2
          | some pr2 =>
            obtain ⟨tmp, sq⟩ := pr2
            simp only [pure, Except.pure, Except.ok.injEq, Prod.mk.injEq] at h2
            obtain ⟨h3, h4⟩ := h2
            obtain ⟨hd', hc, hsame, _⟩ := simQueue_pop_tcount notPkt hr
            have hz := hn.pk
            have hbad : notPkt hd' = false := by
              cases hb : notPkt hd' with
              | false => rfl
              | true => rw [hb] at hc; simp [b2n] at hc; omega
            have hok : pktOK hd' = true := by simpa [notPkt] using hbad
            have htmp : pktOK tmp = true := pktOK_of_same hsame hok
            refine ⟨?_, ?_⟩
            · rw [← h4]
              refine ⟨hn.qc, hn.qs, hn.ac, hn.as, hn.tc, hn.ts, hn.bc, hn.bs, ?_⟩
              simp only []
              rw [hbad] at hc; simp [b2n] at hc; omega
            · rw [← h3]
              split
              · exact htmp
              · exact htmp

end
end Mb.Sim

namespace Mb.Sim
open Mb

theorem simNetworkStack_pkt {next : SimEvent} {sq sq' : SimQueue} {byp : Bool} {net net' : Bottleneck}
    {now : Int} {na : Bool} (hok : pktOK next = true) (hz : tcount notPkt sq = 0)
    (h : simNetworkStack next sq byp net now = .ok (na, sq', net')) : tcount notPkt sq' = 0 := by
  unfold simNetworkStack at h
  split at h
  · cases h
    rw [pushSim_tcount, hz]; rfl
  · rename_i m hev
    simp [pktOK, hev] at hok
  · rename_i hev
    rw [map_ok_iff] at h
    obtain ⟨⟨sq1, net1⟩, h1, h2⟩ := h
    cases h2
    obtain ⟨t, hq, _⟩ := netTunnelSent_spec h1
    have hpad : next.containsPadding = false := by
      simp only [pktOK, Bool.and_eq_true, Bool.not_eq_true'] at hok
      exact hok.1.1.1
    rw [hq, pushSim_tcount, hz, hpad]; rfl
  · rename_i hev
    have hpad : next.containsPadding = false := by
      simp only [pktOK, Bool.and_eq_true, Bool.not_eq_true'] at hok
      exact hok.1.1.1
    simp only [hpad, Bool.false_eq_true, if_false] at h
    cases h
    rw [pushSim_tcount, hz]; rfl
  · cases h; exact hz

section
variable {σ : Type} (ρ : Oracle σ)

theorem triggerUpdate_nomach {st st' : St σ} {next : SimEvent} {acts : List TAction} (hn : NoMach st)
    (h : triggerUpdate ρ st next = .ok (acts, st')) : NoMach st' := by
  have hq : Quiet (st.side next.client).fw := by
    cases next.client
    · exact hn.qs
    · exact hn.qc
  unfold triggerUpdate at h
  simp only [] at h
  have hq' : Quiet ({ (st.side next.client).fw with rng := st.orc, log := [] } : Fw σ) := hq
  have ht := triggerEvents_quiet ρ [next.event] st.now _ hq'
  split at h
  · cases h
  · rw [ht.2.2] at h
    simp only [applyActions, bind, Except.bind, pure, Except.pure] at h
    cases h
    cases hc : next.client
    · simp only [hc] at ht
      exact ⟨hn.qc, by simpa [St.setSide, St.side, hc] using ht.1, hn.ac, by simpa [St.setSide, St.side, hc] using hn.as,
             hn.tc, by simpa [St.setSide, St.side, hc] using hn.ts, hn.bc, by simpa [St.setSide, St.side, hc] using hn.bs,
             by simpa using hn.pk⟩
    · simp only [hc] at ht
      exact ⟨by simpa [St.setSide, St.side, hc] using ht.1, hn.qs, by simpa [St.setSide, St.side, hc] using hn.ac, hn.as,
             by simpa [St.setSide, St.side, hc] using hn.tc, hn.ts, by simpa [St.setSide, St.side, hc] using hn.bc, hn.bs,
             by simpa using hn.pk⟩

/-- one iteration without machines processes a plain packet event and stays machine-free -/
theorem step_nomach {st st' : St σ} {r : StepRec} (hn : NoMach st) (h : step ρ st = .ok (some (r, st'))) :
    NoMach st' ∧ pktOK r.ev = true := by
  unfold step at h
  rw [bind_ok_iff] at h
  obtain ⟨⟨next, st1⟩, hp, h2⟩ := h
  have hp' : pickNext (pickMeasure st + 1) st = some (.ok (next, st1)) := by
    cases hpn : pickNext (pickMeasure st + 1) st with
    | none => simp [hpn] at hp
    | some x => simp [hpn] at hp; rw [hp]
  cases next with
  | none => simp [pure, Except.pure] at h2
  | some next =>
    have h1 := pickNext_nomach _ _ _ _ hn hp'
    simp only [] at h2
    split at h2
    · cases h2
    · rw [bind_ok_iff] at h2
      obtain ⟨⟨na, sq, net⟩, hs, h3⟩ := h2
      rw [bind_ok_iff] at h3
      obtain ⟨⟨acts, st2⟩, ht, h4⟩ := h3
      simp only [pure, Except.pure, Except.ok.injEq, Option.some.injEq, Prod.mk.injEq] at h4
      obtain ⟨hr, hst⟩ := h4
      subst hr; subst hst
      have hz := simNetworkStack_pkt h1.2 h1.1.pk hs
      have hn2 : NoMach ({ ({ st1 with now := if next.time > st1.now then next.time else st1.now } : St σ) with sq := sq, net := net } : St σ) :=
        ⟨h1.1.qc, h1.1.qs, h1.1.ac, h1.1.as, h1.1.tc, h1.1.ts, h1.1.bc, h1.1.bs, hz⟩
      exact ⟨triggerUpdate_nomach ρ hn2 ht, h1.2⟩

theorem loop_nomach (args : Args) : ∀ (fuel : Nat) (st : St σ) (iters cnt : Nat), NoMach st →
    ∀ r ∈ (loop ρ args fuel st iters cnt).stream, pktOK r.ev = true := by
  intro fuel
  induction fuel with
  | zero => intro st iters cnt _ r hr; simp [loop] at hr
  | succ n ih =>
    intro st iters cnt hn r hr
    cases hs : step ρ st with
    | error f => simp [loop, hs] at hr
    | ok o =>
      cases o with
      | none => simp [loop, hs] at hr
      | some pr =>
        obtain ⟨r0, st'⟩ := pr
        have h1 := step_nomach ρ hn hs
        rw [loop_succ_some ρ args n st st' iters cnt r0 hs] at hr
        cases hstop : stopCheck args st' iters (bump args r0 cnt) with
        | some s =>
          simp only [hstop, List.mem_singleton] at hr
          subst hr; exact h1.2
        | none =>
          simp only [hstop, List.mem_cons] at hr
          rcases hr with hr | hr
          · subst hr; exact h1.2
          · exact ih st' (iters + 1) (bump args r0 cnt) h1.1 r hr

/-- the initial state of a run without machines on a parsed trace -/
theorem initState_nomach {trace : List TraceLine} {delay : Nat} {a : Args} {orc : σ} {st : St σ}
    (h : initState ρ [] [] (parseTrace trace delay) a orc = .ok st) : NoMach st := by
  have hsq := initState_sq ρ h
  unfold initState at h
  rw [bind_ok_iff] at h
  obtain ⟨t0, _, h⟩ := h
  rw [bind_ok_iff] at h
  obtain ⟨⟨c, o1⟩, hc, h⟩ := h
  rw [bind_ok_iff] at h
  obtain ⟨⟨s, o2⟩, hs, h⟩ := h
  rw [bind_ok_iff] at h
  obtain ⟨net, _, h⟩ := h
  simp only [pure, Except.pure] at h
  have side : ∀ (t0 : Int) (fp fb : F64) (o : σ) (sd : Side σ) (o' : σ), Side.new ρ [] t0 fp fb o = .ok (sd, o') →
      Quiet sd.fw ∧ sd.schedAction = [] ∧ sd.schedTimer = [] ∧ sd.blockingUntil = none := by
    intro t0 fp fb o sd o' hh
    unfold Side.new at hh
    split at hh
    · cases hh
    · simp only [] at hh
      split at hh
      · cases hh
      · cases hh
        exact ⟨(init_quiet ρ fp fb t0 o).1, rfl, rfl, rfl⟩
  obtain ⟨c1, c2, c3, c4⟩ := side _ _ _ _ _ _ hc
  obtain ⟨s1, s2, s3, s4⟩ := side _ _ _ _ _ _ hs
  cases h
  simp only [] at hsq
  refine ⟨c1, s1, by simp [c2], by simp [s2], by simp [c3], by simp [s3], c4, s4, ?_⟩
  -- the parsed queue holds only NormalSent events
  simp only []
  have key : ∀ (tr : List TraceLine) (acc : ParseAcc), tcount notPkt acc.sq = 0 →
      tcount notPkt (tr.foldl (fun (acc : ParseAcc) (l : TraceLine) =>
        let ts : Int := l.1
        if l.2 then
          let sq := acc.sq.pushSim ⟨.normalSent, ts, true, false, false, false⟩
          let (m, w) := acc.sentW.add ts
          { acc with sq := sq, sentW := w, sentMax := if m > acc.sentMax then m else acc.sentMax }
        else
          let sq := acc.sq.pushSim ⟨.normalSent, ts - delay, false, false, false, false⟩
          let (m, w) := acc.recvW.add ts
          { acc with sq := sq, recvW := w, recvMax := if m > acc.recvMax then m else acc.recvMax }) acc).sq = 0 := by
    intro tr
    induction tr with
    | nil => intro acc h; exact h
    | cons l ls ih =>
      intro acc h
      simp only [List.foldl_cons]
      apply ih
      by_cases hl : l.2 = true
      · simp only [hl, if_true]
        rw [pushSim_tcount, h]; rfl
      · have hl' : l.2 = false := by simpa using hl
        simp only [hl', Bool.false_eq_true, if_false]
        rw [pushSim_tcount, h]; rfl
  have := key trace ⟨SimQueue.empty, ⟨Gen.SIM_PARSE_WINDOW_NS, []⟩, ⟨Gen.SIM_PARSE_WINDOW_NS, []⟩, 0, 0⟩ rfl
  unfold parseTrace
  simpa [tcount] using this

end
end Mb.Sim
