/-
  The fail-closed argument of C16: a TunnelSent that `pick_next` pops from the queue of a side
  whose blocking is active carries the bypass flag, and that side's blocking is bypassable.
-/
import MbVerif.Proofs.SimConserve

namespace Mb.Sim
open Mb

/-- the heap of a side's queue named by a `Queue` tag -/
def EventQueue.heap (q : EventQueue) : Queue → EvHeap
  | .blocking => q.blocking
  | .bypassable => q.bypassable
  | .internal => q.internal
  | .base => q.base

/-- same packet up to the time stamp (the base queue shifts the time on pop) -/
def sameButTime (a b : SimEvent) : Prop :=
  a.event = b.event ∧ a.client = b.client ∧ a.containsPadding = b.containsPadding ∧ a.bypass = b.bypass ∧ a.replace = b.replace

theorem dsince_mono {a b : Int} (now : Int) (h : a ≤ b) : dsince a now ≤ dsince b now := by
  unfold dsince durSince
  have : (a - now).toNat ≤ (b - now).toNat := Int.toNat_le_toNat (by omega)
  omega

/-- what `EventQueue::peek` returns is the head of the heap it names -/
theorem EventQueue.peek_heap {q : EventQueue} {ds : Nat} {now : Int} {ev : SimEvent} {qi : Queue} {d : Nat}
    (h : q.peek ds now = .ok (some ev, qi, d)) : (q.heap qi).peek = some ev := by
  unfold EventQueue.peek at h
  split at h
  · cases h
  · simp only [] at h
    by_cases hb : before q.base.peek
        (if optGt q.internal.peek (if optGt q.blocking.peek q.bypassable.peek then (q.blocking.peek, Queue.blocking)
            else (q.bypassable.peek, Queue.bypassable)).1
          then (q.internal.peek, Queue.internal)
          else (if optGt q.blocking.peek q.bypassable.peek then (q.blocking.peek, Queue.blocking)
            else (q.bypassable.peek, Queue.bypassable))).1 ds = true
    · simp only [hb, if_true] at h
      cases hp : q.base.peek with
      | none => simp [hp] at h
      | some e =>
        simp only [hp] at h
        cases h
        simp [EventQueue.heap, hp]
    · simp only [hb, Bool.false_eq_true, if_false] at h
      by_cases h1 : optGt q.blocking.peek q.bypassable.peek = true
      · simp only [h1, if_true] at h
        by_cases h2 : optGt q.internal.peek q.blocking.peek = true
        · simp only [h2, if_true] at h
          cases hp : q.internal.peek with
          | none => simp [hp] at h
          | some e => simp only [hp] at h; cases h; simp [EventQueue.heap, hp]
        · simp only [h2, Bool.false_eq_true, if_false] at h
          cases hp : q.blocking.peek with
          | none => simp [hp] at h
          | some e => simp only [hp] at h; cases h; simp [EventQueue.heap, hp]
      · simp only [h1, Bool.false_eq_true, if_false] at h
        by_cases h2 : optGt q.internal.peek q.bypassable.peek = true
        · simp only [h2, if_true] at h
          cases hp : q.internal.peek with
          | none => simp [hp] at h
          | some e => simp only [hp] at h; cases h; simp [EventQueue.heap, hp]
        · simp only [h2, Bool.false_eq_true, if_false] at h
          cases hp : q.bypassable.peek with
          | none => simp [hp] at h
          | some e => simp only [hp] at h; cases h; simp [EventQueue.heap, hp]

/-- popping the heap named by `qi` returns its head (time-shifted for the base queue) -/
theorem EventQueue.pop_heap {q q' : EventQueue} {qi : Queue} {ds : Nat} {e : SimEvent}
    (h : q.pop qi ds = .ok (some (e, q'))) : ∃ hd, (q.heap qi).peek = some hd ∧ sameButTime e hd := by
  unfold EventQueue.pop at h
  cases qi with
  | blocking =>
    simp only [] at h
    cases hp : q.blocking.pop with
    | none => simp [hp] at h
    | some pr =>
      obtain ⟨x, hh⟩ := pr
      simp [hp] at h
      obtain ⟨hx, _⟩ := h
      subst hx
      exact ⟨x, (heap_pop_countP (fun _ => true) SimEvent.le hp).2, rfl, rfl, rfl, rfl, rfl⟩
  | bypassable =>
    simp only [] at h
    cases hp : q.bypassable.pop with
    | none => simp [hp] at h
    | some pr =>
      obtain ⟨x, hh⟩ := pr
      simp [hp] at h
      obtain ⟨hx, _⟩ := h
      subst hx
      exact ⟨x, (heap_pop_countP (fun _ => true) SimEvent.le hp).2, rfl, rfl, rfl, rfl, rfl⟩
  | internal =>
    simp only [] at h
    cases hp : q.internal.pop with
    | none => simp [hp] at h
    | some pr =>
      obtain ⟨x, hh⟩ := pr
      simp [hp] at h
      obtain ⟨hx, _⟩ := h
      subst hx
      exact ⟨x, (heap_pop_countP (fun _ => true) SimEvent.le hp).2, rfl, rfl, rfl, rfl, rfl⟩
  | base =>
    simp only [] at h
    cases hp : q.base.pop with
    | none => simp only [hp] at h; split at h <;> cases h
    | some pr =>
      obtain ⟨x, hh⟩ := pr
      simp [hp] at h
      obtain ⟨hx, _⟩ := h
      subst hx
      exact ⟨x, (heap_pop_countP (fun _ => true) SimEvent.le hp).2, rfl, rfl, rfl, rfl, rfl⟩

/-- every element of a well-formed side's queues belongs to that side -/
theorem EventQueue.WF.peek_client {q : EventQueue} {c : Bool} (hw : q.WF c) {qi : Queue} {ev : SimEvent}
    (h : (q.heap qi).peek = some ev) : ev.client = c := by
  have hmem : ev ∈ (q.heap qi).data := by
    unfold Heap.peek at h
    cases hd : (q.heap qi).data with
    | nil => simp [hd] at h
    | cons a r => simp [hd] at h; simp [h]
  cases qi with
  | blocking =>
    have := List.countP_eq_zero.1 hw.blocking ev hmem
    simp at this; exact this.2
  | bypassable =>
    have := List.countP_eq_zero.1 hw.bypassable ev hmem
    simp at this; exact this.2
  | internal =>
    have := List.countP_eq_zero.1 hw.internal ev hmem
    simp at this; exact this.2
  | base =>
    have := List.countP_eq_zero.1 hw.base ev hmem
    simp at this; exact this.2

/-- what `SimQueue::peek` returns is the head of the heap it names, on the event's own side -/
theorem SimQueue.peek_heap {s : SimQueue} {cs sv : Nat} {now : Int} {ev : SimEvent} {qi : Queue} {d : Nat}
    (hw : s.WF) (h : s.peek cs sv now = .ok (some ev, qi, d)) : ((s.side ev.client).heap qi).peek = some ev := by
  unfold SimQueue.peek at h
  split at h
  · cases h
  · rw [bind_ok_iff] at h
    obtain ⟨⟨ce, cq, cd⟩, h1, h2⟩ := h
    rw [bind_ok_iff] at h2
    obtain ⟨⟨se, sq', sd⟩, h3, h4⟩ := h2
    have fromClient : ∀ {e : SimEvent} {q : Queue} {dd : Nat}, s.client.peek cs now = .ok (some e, q, dd) →
        ((s.side e.client).heap q).peek = some e := by
      intro e q dd hh
      have hp := EventQueue.peek_heap hh
      have hc := hw.client.peek_client hp
      simpa [SimQueue.side, hc] using hp
    have fromServer : ∀ {e : SimEvent} {q : Queue} {dd : Nat}, s.server.peek sv now = .ok (some e, q, dd) →
        ((s.side e.client).heap q).peek = some e := by
      intro e q dd hh
      have hp := EventQueue.peek_heap hh
      have hc := hw.server.peek_client hp
      simpa [SimQueue.side, hc] using hp
    simp only [pure, Except.pure] at h4
    cases ce with
    | none =>
      cases se with
      | none => simp at h4
      | some se' =>
        simp only [] at h4
        cases h4
        exact fromServer h3
    | some ce' =>
      cases se with
      | none =>
        simp only [] at h4
        cases h4
        exact fromClient h1
      | some se' =>
        simp only [] at h4
        split at h4
        · cases h4; exact fromClient h1
        · cases h4; exact fromServer h3

end Mb.Sim

namespace Mb.Sim
open Mb

theorem dsince_le' (a b : Int) : dsince a b ≤ durMax := by
  unfold dsince; exact Nat.min_le_right _ _

/-- the queue tag `peek_non_blocking` returns -/
theorem peekNonBlocking_tag (sq : SimQueue) (byp c : Bool) (ds : Nat) :
    (sq.peekNonBlocking byp c ds).2 = .base ∨ (sq.peekNonBlocking byp c ds).2 = .internal ∨
      ((sq.peekNonBlocking byp c ds).2 = .bypassable ∧ byp = true) := by
  unfold SimQueue.peekNonBlocking EventQueue.peekNonBlockingSide
  have hinner : ((sq.side c).peekNonBlocking ds).2 = .base ∨ ((sq.side c).peekNonBlocking ds).2 = .internal := by
    unfold EventQueue.peekNonBlocking
    simp only []
    by_cases hb : before (sq.side c).base.peek (sq.side c).internal.peek ds = true
    · simp [hb]
    · simp [hb]
  cases byp with
  | true =>
    simp only [if_true]
    by_cases hg : optGt (sq.side c).bypassable.peek ((sq.side c).peekNonBlocking ds).1 = true
    · simp [hg]
    · simp only [hg, Bool.false_eq_true, if_false]
      rcases hinner with h | h
      · exact Or.inl h
      · exact Or.inr (Or.inl h)
  | false =>
    simp only [Bool.false_eq_true, if_false]
    rcases hinner with h | h
    · exact Or.inl h
    · exact Or.inr (Or.inl h)

/-- `peek_queue_earliest_side` returns a non-blocked queue (base / internal, or the bypassable
    queue when the blocking is bypassable), or an offset that is not before the blocking expiry -/
theorem peekQueueEarliestSide_spec (sq : SimQueue) (bu : Option Int) (byp : Bool) (now : Int) (ds : Nat) (c : Bool) :
    (peekQueueEarliestSide sq bu byp now ds c).2.2 = c ∧
    ((peekQueueEarliestSide sq bu byp now ds c).2.1 = .base ∨
     (peekQueueEarliestSide sq bu byp now ds c).2.1 = .internal ∨
     ((peekQueueEarliestSide sq bu byp now ds c).2.1 = .bypassable ∧ byp = true) ∨
     dsince (bu.getD now) now ≤ (peekQueueEarliestSide sq bu byp now ds c).1) := by
  have hnq := peekNonBlocking_tag sq byp c ds
  unfold peekQueueEarliestSide
  rcases hpb : sq.peekBlocking byp c with ⟨pb, bq⟩
  rcases hpn : sq.peekNonBlocking byp c ds with ⟨pn, nq⟩
  rw [hpn] at hnq
  simp only [] at hnq
  simp only []
  have tagcase : ∀ d : Nat, (d, nq, c).2.2 = c ∧ ((d, nq, c).2.1 = Queue.base ∨ (d, nq, c).2.1 = Queue.internal ∨
      ((d, nq, c).2.1 = Queue.bypassable ∧ byp = true) ∨ dsince (bu.getD now) now ≤ (d, nq, c).1) := by
    intro d
    refine ⟨rfl, ?_⟩
    rcases hnq with h | h | h
    · exact Or.inl h
    · exact Or.inr (Or.inl h)
    · exact Or.inr (Or.inr (Or.inl h))
  cases pb with
  | none =>
    cases pn with
    | none => exact ⟨rfl, Or.inr (Or.inr (Or.inr (dsince_le' _ _)))⟩
    | some n => exact tagcase _
  | some b =>
    cases pn with
    | none => exact ⟨rfl, Or.inr (Or.inr (Or.inr (dsince_mono now (Int.le_max_right _ _))))⟩
    | some n =>
      simp only []
      generalize (if nq = Queue.base then n.time + (ds : Int) else n.time) = nt
      by_cases hbf : (if max b.time (bu.getD now) < nt then true
          else if nt < max b.time (bu.getD now) then false else nq != Queue.base) = true
      · simp only [hbf, if_true]
        exact ⟨trivial, Or.inr (Or.inr (Or.inr (dsince_mono now (Int.le_max_right _ _))))⟩
      · simp only [hbf, Bool.false_eq_true, if_false]
        have := tagcase (dsince nt now)
        exact ⟨trivial, this.2⟩

/-- the blocking-expiry offset `pick_next` computes is at most the offset of either side's expiry -/
theorem peekBlockedExp_le_side (cu su : Option Int) (now : Int) (c : Bool) (u : Int)
    (h : (if c then cu else su) = some u) : (peekBlockedExp cu su now).1 ≤ dsince u now := by
  unfold peekBlockedExp
  cases cu with
  | none =>
    cases su with
    | none => cases c <;> simp at h
    | some s =>
      cases c with
      | true => simp at h
      | false => simp at h; subst h; exact Nat.le_refl _
  | some cc =>
    cases su with
    | none =>
      cases c with
      | true => simp at h; subst h; exact Nat.le_refl _
      | false => simp at h
    | some s =>
      simp only []
      split
      · rename_i hlt
        cases c with
        | true => simp at h; subst h; exact Nat.le_refl _
        | false => simp at h; subst h; exact dsince_mono now (by omega)
      · rename_i hlt
        cases c with
        | true => simp at h; subst h; exact dsince_mono now (by omega)
        | false => simp at h; subst h; exact Nat.le_refl _

section
variable {σ : Type}

/-- what the queue branch of `pick_next` knows: the triple came from `peek_queue` and the
    blocking-expiry branch was not eligible, so the queue offset is strictly before the expiry -/
theorem pickDecide_queue {st : St σ} {q : Nat} {qid : Queue} {c : Bool} (h : pickDecide st = .ok (.queue q qid c)) :
    (∃ e, peekQueue st e = .ok (q, qid, c)) ∧
    q < (peekBlockedExp st.client.blockingUntil st.server.blockingUntil st.now).1 := by
  unfold pickDecide at h
  simp only [] at h
  rw [bind_ok_iff] at h
  obtain ⟨⟨q', qid', qc'⟩, hq, h2⟩ := h
  simp only [pure, Except.pure] at h2
  split at h2
  · cases h2
  · split at h2
    · cases h2
    · rename_i hnb
      split at h2
      · cases h2
      · rename_i hnb2
        split at h2
        · rename_i hqq
          cases h2
          refine ⟨⟨_, hq⟩, ?_⟩
          simp only [Bool.and_eq_true, decide_eq_true_eq] at hnb2 hqq
          by_cases hle : (peekBlockedExp st.client.blockingUntil st.server.blockingUntil st.now).1 ≤ q
          · exfalso
            apply hnb2
            exact ⟨⟨by omega, by omega⟩, hle⟩
          · omega
        · split at h2 <;> cases h2

/-- **No leak.**  In a state whose queues are well-formed, if the queue branch of `pick_next`
    pops a TunnelSent of a side whose blocking is active, then the packet carries the bypass flag
    and the blocking of that side is bypassable. -/
theorem pickQueue_no_leak {st st' : St σ} {q : Nat} {qid : Queue} {c : Bool} {e : SimEvent} {u : Int}
    (hw : st.sq.WF) (hd : pickDecide st = .ok (.queue q qid c)) (hp : pickQueue st q qid c = .ok (e, st'))
    (hts : isTS e = true) (hblk : (st.side e.client).blockingUntil = some u) :
    e.bypass = true ∧ (st.side e.client).blockingBypassable = true := by
  obtain ⟨⟨earliest, hpq⟩, hlt⟩ := pickDecide_queue hd
  -- the popped event
  unfold pickQueue at hp
  rw [bind_ok_iff] at hp
  obtain ⟨r, hr, hp2⟩ := hp
  cases r with
  | none => simp at hp2
  | some pr =>
    obtain ⟨tmp, sq1⟩ := pr
    simp only [pure, Except.pure, Except.ok.injEq, Prod.mk.injEq] at hp2
    have hspec := simQueue_pop_spec st.sq sq1 qid c _ tmp hw hr
    have he : e.client = tmp.client ∧ e.bypass = tmp.bypass ∧ isTS e = isTS tmp := by
      rw [← hp2.1]
      split <;> exact ⟨rfl, rfl, rfl⟩
    have hec : e.client = c := by rw [he.1]; exact hspec.2.2.1
    have htmpTS : isTS tmp = true := by rw [← he.2.2]; exact hts
    have hblk' : (st.side c).blockingUntil = some u := by rw [← hec]; exact hblk
    -- the side's expiry bounds the decision's `b`
    have hside : (if c then st.client.blockingUntil else st.server.blockingUntil) = some u := by
      cases c <;> simpa [St.side] using hblk'
    have hb := peekBlockedExp_le_side st.client.blockingUntil st.server.blockingUntil st.now c u hside
    have hq_lt : q < dsince u st.now := by omega
    have hu_le : dsince u st.now ≤ durMax := dsince_le' _ _
    -- the popped event is the head of the heap `qid` on side `c`
    have hpopheap : ∃ hd', ((st.sq.side c).heap qid).peek = some hd' ∧ sameButTime tmp hd' := by
      unfold SimQueue.pop at hr
      rw [bind_ok_iff] at hr
      obtain ⟨r2, hr2, hr3⟩ := hr
      cases r2 with
      | none => simp [pure, Except.pure] at hr3
      | some pr2 =>
        obtain ⟨x, q2⟩ := pr2
        simp only [pure, Except.pure, Option.map_some, Except.ok.injEq, Option.some.injEq, Prod.mk.injEq] at hr3
        rw [← hr3.1]
        exact EventQueue.pop_heap hr2
    obtain ⟨hd', hhd, hsame⟩ := hpopheap
    -- goal in terms of side `c`
    suffices hgoal : tmp.bypass = true ∧ (st.side c).blockingBypassable = true by
      rw [hec, he.2.1]; exact hgoal
    -- common conclusion from one side's `peek_queue_earliest_side` result
    have fromSide : ∀ (res : Nat × Queue × Bool), res = (q, qid, c) →
        (res.2.1 = .base ∨ res.2.1 = .internal ∨
          (res.2.1 = .bypassable ∧ (st.side res.2.2).blockingBypassable = true) ∨
          dsince ((st.side res.2.2).blockingUntil.getD st.now) st.now ≤ res.1) →
        tmp.bypass = true ∧ (st.side c).blockingBypassable = true := by
      intro res hres hcase
      have h1 : res.1 = q := by rw [hres]
      have h2 : res.2.1 = qid := by rw [hres]
      have h3 : res.2.2 = c := by rw [hres]
      rw [h1, h2, h3] at hcase
      rcases hcase with hq | hq | hq | hq
      · exfalso
        have := hspec.2.2.2.2.1 hq
        simp only [isNS] at this
        simp only [isTS] at htmpTS
        simp only [beq_iff_eq] at this htmpTS
        rw [this] at htmpTS; cases htmpTS
      · exfalso
        have := (hspec.2.2.2.1 hq).1
        rw [this] at htmpTS; cases htmpTS
      · exact ⟨(hspec.2.2.2.2.2.2 hq.1).2, hq.2⟩
      · exfalso
        rw [hblk'] at hq
        simp only [Option.getD_some] at hq
        omega
    -- analyse `peek_queue`
    unfold peekQueue at hpq
    split at hpq
    · simp only [Except.ok.injEq, Prod.mk.injEq] at hpq
      omega
    · rw [bind_ok_iff] at hpq
      obtain ⟨⟨pk, qu, dur⟩, hpk, hpq2⟩ := hpq
      cases pk with
      | none => simp at hpq2
      | some peek =>
        simp only [pure, Except.pure] at hpq2
        have hpeekheap := SimQueue.peek_heap hw hpk
        -- when the result is the peeked triple, the popped event is the peeked one
        have samePeek : (dur, qu, peek.client) = (q, qid, c) → sameButTime tmp peek := by
          intro heq
          simp only [Prod.mk.injEq] at heq
          rw [heq.2.1, heq.2.2, hhd] at hpeekheap
          have : hd' = peek := Option.some.inj hpeekheap
          rw [← this]; exact hsame
        split at hpq2
        · simp only [Except.ok.injEq, Prod.mk.injEq] at hpq2
          omega
        · split at hpq2
          · -- not a TunnelSent
            rename_i hnts
            simp only [Except.ok.injEq] at hpq2
            have hs := samePeek hpq2
            exfalso
            have h1 : (tmp.event == TEvent.tunnelSent) = true := htmpTS
            rw [hs.1] at h1
            simp only [bne, h1, Bool.not_true] at hnts
            exact absurd hnts (by decide)
          · split at hpq2
            · -- no blocking anywhere
              rename_i _ hnb
              exfalso
              simp only [Bool.and_eq_true, Bool.not_eq_true', Option.isSome_eq_false_iff, Option.isNone_iff_eq_none] at hnb
              cases c <;> simp [hnb.1, hnb.2] at hside
            · split at hpq2
              · -- the peeked event's side is not blocked
                rename_i _ _ hns
                simp only [Except.ok.injEq, Prod.mk.injEq] at hpq2
                exfalso
                rw [hpq2.2.2] at hns
                cases c with
                | true =>
                  simp at hns hside
                  rw [hns] at hside; cases hside
                | false =>
                  simp at hns hside
                  rw [hns] at hside; cases hside
              · split at hpq2
                · -- bypass allowed
                  rename_i hbyp
                  simp only [Except.ok.injEq] at hpq2
                  have hs := samePeek hpq2
                  simp only [Prod.mk.injEq] at hpq2
                  rw [hpq2.2.2] at hbyp
                  rw [hs.2.2.2.1]
                  cases c with
                  | true =>
                    simp at hbyp
                    exact ⟨hbyp.2, by simpa [St.side] using hbyp.1.2⟩
                  | false =>
                    simp at hbyp
                    exact ⟨hbyp.2, by simpa [St.side] using hbyp.1.2⟩
                · -- both sides considered
                  have hcs := peekQueueEarliestSide_spec st.sq st.client.blockingUntil st.client.blockingBypassable
                    st.now st.net.clientAgg true
                  have hss := peekQueueEarliestSide_spec st.sq st.server.blockingUntil st.server.blockingBypassable
                    st.now st.net.serverAgg false
                  split at hpq2
                  · simp only [Except.ok.injEq] at hpq2
                    apply fromSide _ hpq2
                    rw [hcs.1]
                    simpa [St.side] using hcs.2
                  · simp only [Except.ok.injEq] at hpq2
                    apply fromSide _ hpq2
                    rw [hss.1]
                    simpa [St.side] using hss.2

end
end Mb.Sim
