/-
  Lemmas about the IEEE model `MbVerif/Fp.lean` (proof file: Mathlib modules allowed).

  Main results
  * `pow2_eq_zpow`, `ilog2_spec`
  * `roundHalfEven_mono`, `roundHalfEven_intCast`
  * `rne_nonneg`, `rne_neg`, `rne_mono`, `rne_eq_self_of_rep`, `rne_rep`, `rne_idem`
  * `Fmt.round_mono`, facts about `lt/le/fmax/fmin`, `toU64_lt`, `fround` facts.
-/
import MbVerif.Fp
import Mathlib.Data.Rat.Floor
import Mathlib.Tactic.Linarith
import Mathlib.Tactic.Positivity
import Mathlib.Tactic.Ring
import Mathlib.Tactic.FieldSimp
import Mathlib.Algebra.Order.Field.Power

namespace Mb
namespace Fp

/-! ### powers of two -/

theorem pow2_eq_zpow (e : Int) : pow2 e = (2 : ℚ) ^ e := by
  unfold pow2
  split
  · rename_i h
    have he : e = ((e.toNat : Nat) : Int) := (Int.toNat_of_nonneg h).symm
    conv_rhs => rw [he]
    rw [zpow_natCast]
    push_cast
    rfl
  · rename_i h
    have h' : 0 ≤ -e := by omega
    have he : e = -(((-e).toNat : Nat) : Int) := by rw [Int.toNat_of_nonneg h']; ring
    conv_rhs => rw [he]
    rw [zpow_neg, zpow_natCast]
    push_cast
    rw [one_div]

theorem pow2_pos (e : Int) : 0 < pow2 e := by
  rw [pow2_eq_zpow]; positivity

theorem pow2_ne_zero (e : Int) : pow2 e ≠ 0 := (pow2_pos e).ne'

theorem pow2_add (a b : Int) : pow2 (a + b) = pow2 a * pow2 b := by
  simp only [pow2_eq_zpow]; exact zpow_add₀ (by norm_num) a b

theorem pow2_sub (a b : Int) : pow2 (a - b) = pow2 a / pow2 b := by
  simp only [pow2_eq_zpow]; exact zpow_sub₀ (by norm_num) a b

theorem pow2_le_pow2 {a b : Int} (h : a ≤ b) : pow2 a ≤ pow2 b := by
  simp only [pow2_eq_zpow]; exact zpow_le_zpow_right₀ (by norm_num) h

theorem pow2_lt_pow2 {a b : Int} (h : a < b) : pow2 a < pow2 b := by
  simp only [pow2_eq_zpow]; exact zpow_lt_zpow_right₀ (by norm_num) h

theorem pow2_lt_pow2_iff {a b : Int} : pow2 a < pow2 b ↔ a < b := by
  simp only [pow2_eq_zpow]; exact zpow_lt_zpow_iff_right₀ (by norm_num)

theorem pow2_le_pow2_iff {a b : Int} : pow2 a ≤ pow2 b ↔ a ≤ b := by
  simp only [pow2_eq_zpow]; exact zpow_le_zpow_iff_right₀ (by norm_num)

theorem pow2_zero : pow2 0 = 1 := by simp [pow2_eq_zpow]

/-- a non-negative power of two is (the cast of) an integer -/
theorem pow2_nonneg_eq_intCast {e : Int} (h : 0 ≤ e) : pow2 e = (((2 : Int) ^ e.toNat : Int) : ℚ) := by
  rw [pow2_eq_zpow]
  have he : e = ((e.toNat : Nat) : Int) := (Int.toNat_of_nonneg h).symm
  conv_lhs => rw [he]
  rw [zpow_natCast]; push_cast; rfl

/-! ### floor(log2) -/

theorem ilog2_spec {q : ℚ} (hq : 0 < q) : pow2 (ilog2 q) ≤ q ∧ q < pow2 (ilog2 q + 1) := by
  have hnum : 0 < q.num := Rat.num_pos.mpr hq
  have hden : 0 < q.den := q.den_pos
  set n := q.num.toNat with hn
  have hnn : n ≠ 0 := by omega
  have hqnd : q = (n : ℚ) / (q.den : ℚ) := by
    have h1 : ((n : Nat) : Int) = q.num := by rw [hn]; exact Int.toNat_of_nonneg hnum.le
    have h2 : (n : ℚ) = (q.num : ℚ) := by exact_mod_cast congrArg (fun z : Int => (z : ℚ)) h1
    rw [h2]; exact (Rat.num_div_den q).symm
  have hnlo : ((2 : ℚ) ^ (Nat.log2 n : Int)) ≤ (n : ℚ) := by
    rw [zpow_natCast]; exact_mod_cast Nat.log2_self_le hnn
  have hnhi : (n : ℚ) < (2 : ℚ) ^ ((Nat.log2 n : Int) + 1) := by
    have : ((Nat.log2 n : Int) + 1) = ((Nat.log2 n + 1 : Nat) : Int) := by push_cast; ring
    rw [this, zpow_natCast]; exact_mod_cast Nat.lt_log2_self
  have hdlo : ((2 : ℚ) ^ (Nat.log2 q.den : Int)) ≤ (q.den : ℚ) := by
    rw [zpow_natCast]; exact_mod_cast Nat.log2_self_le (by omega)
  have hdhi : (q.den : ℚ) < (2 : ℚ) ^ ((Nat.log2 q.den : Int) + 1) := by
    have : ((Nat.log2 q.den : Int) + 1) = ((Nat.log2 q.den + 1 : Nat) : Int) := by push_cast; ring
    rw [this, zpow_natCast]; exact_mod_cast Nat.lt_log2_self
  have hdpos : (0 : ℚ) < (q.den : ℚ) := by exact_mod_cast hden
  set ln : Int := (Nat.log2 n : Int)
  set ld : Int := (Nat.log2 q.den : Int)
  -- 2^(ln - ld - 1) < q < 2^(ln - ld + 1)
  have hlow : pow2 (ln - ld - 1) < q := by
    rw [pow2_eq_zpow, show ln - ld - 1 = ln - (ld + 1) by ring, zpow_sub₀ (by norm_num : (2 : ℚ) ≠ 0), hqnd]
    rw [div_lt_div_iff₀ (by positivity) hdpos]
    calc (2 : ℚ) ^ ln * (q.den : ℚ) < (2 : ℚ) ^ ln * (2 : ℚ) ^ (ld + 1) := by
          apply mul_lt_mul_of_pos_left hdhi; positivity
      _ ≤ (n : ℚ) * (2 : ℚ) ^ (ld + 1) := by
          apply mul_le_mul_of_nonneg_right hnlo; positivity
  have hhigh : q < pow2 (ln - ld + 1) := by
    rw [pow2_eq_zpow, show ln - ld + 1 = (ln + 1) - ld by ring, zpow_sub₀ (by norm_num : (2 : ℚ) ≠ 0)]
    conv_lhs => rw [hqnd]
    rw [div_lt_div_iff₀ hdpos (by positivity)]
    calc (n : ℚ) * (2 : ℚ) ^ ld ≤ (n : ℚ) * (q.den : ℚ) := by
          apply mul_le_mul_of_nonneg_left hdlo; positivity
      _ < (2 : ℚ) ^ (ln + 1) * (q.den : ℚ) := by
          apply mul_lt_mul_of_pos_right hnhi hdpos
  unfold ilog2
  simp only []
  split
  · rename_i h
    exact ⟨h, hhigh⟩
  · rename_i h
    refine ⟨hlow.le, ?_⟩
    have : (↑n.log2 - ↑q.den.log2 - 1 + 1 : Int) = ↑n.log2 - ↑q.den.log2 := by ring
    rw [this]
    exact not_le.mp h

theorem ilog2_mono {a b : ℚ} (ha : 0 < a) (hab : a ≤ b) : ilog2 a ≤ ilog2 b := by
  have hb : 0 < b := lt_of_lt_of_le ha hab
  have h1 := (ilog2_spec ha).1
  have h2 := (ilog2_spec hb).2
  have : pow2 (ilog2 a) < pow2 (ilog2 b + 1) := lt_of_le_of_lt (le_trans h1 hab) h2
  have := pow2_lt_pow2_iff.mp this
  omega

theorem ilog2_lt_of_lt_pow2 {a : ℚ} {k : Int} (ha : 0 < a) (h : a < pow2 k) : ilog2 a < k := by
  have h1 := (ilog2_spec ha).1
  exact pow2_lt_pow2_iff.mp (lt_of_le_of_lt h1 h)

theorem le_ilog2_of_pow2_le {a : ℚ} {k : Int} (ha : 0 < a) (h : pow2 k ≤ a) : k ≤ ilog2 a := by
  have h2 := (ilog2_spec ha).2
  have := pow2_lt_pow2_iff.mp (lt_of_le_of_lt h h2)
  omega

/-! ### round half even -/

theorem floor_eq (s : ℚ) : s.floor = ⌊s⌋ := rfl

theorem roundHalfEven_cases (s : ℚ) :
    roundHalfEven s = s.floor ∨ roundHalfEven s = s.floor + 1 := by
  unfold roundHalfEven
  simp only []
  split
  · left; rfl
  · split
    · right; rfl
    · split
      · left; rfl
      · right; rfl

theorem roundHalfEven_ge_floor (s : ℚ) : s.floor ≤ roundHalfEven s := by
  rcases roundHalfEven_cases s with h | h <;> omega

theorem roundHalfEven_le_floor_succ (s : ℚ) : roundHalfEven s ≤ s.floor + 1 := by
  rcases roundHalfEven_cases s with h | h <;> omega

theorem roundHalfEven_intCast (n : Int) : roundHalfEven (n : ℚ) = n := by
  unfold roundHalfEven
  simp only [Rat.floor_intCast, sub_self]
  norm_num

theorem roundHalfEven_mono {a b : ℚ} (h : a ≤ b) : roundHalfEven a ≤ roundHalfEven b := by
  have hf : a.floor ≤ b.floor := Rat.floor_monotone h
  rcases lt_or_eq_of_le hf with hlt | heq
  · calc roundHalfEven a ≤ a.floor + 1 := roundHalfEven_le_floor_succ a
      _ ≤ b.floor := by omega
      _ ≤ roundHalfEven b := roundHalfEven_ge_floor b
  · -- same floor: compare the fractional parts
    have hr : a - (b.floor : ℚ) ≤ b - (b.floor : ℚ) := by linarith
    unfold roundHalfEven
    simp only []
    rw [heq]
    by_cases h1 : a - (b.floor : ℚ) < 1 / 2
    · rw [if_pos h1]
      split
      · exact le_refl _
      · split
        · omega
        · split <;> omega
    · rw [if_neg h1]
      have h3 : ¬ (b - (b.floor : ℚ) < 1 / 2) := by intro h4; linarith
      rw [if_neg h3]
      by_cases h2 : 1 / 2 < a - (b.floor : ℚ)
      · have h4 : 1 / 2 < b - (b.floor : ℚ) := by linarith
        rw [if_pos h2, if_pos h4]
      · rw [if_neg h2]
        by_cases h4 : 1 / 2 < b - (b.floor : ℚ)
        · rw [if_pos h4]; split <;> omega
        · rw [if_neg h4]

theorem roundHalfEven_nonneg {s : ℚ} (h : 0 ≤ s) : 0 ≤ roundHalfEven s := by
  have : (0 : Int) ≤ s.floor := Rat.le_floor_iff.mpr (by exact_mod_cast h)
  exact le_trans this (roundHalfEven_ge_floor s)

theorem intCast_le_roundHalfEven {n : Int} {s : ℚ} (h : (n : ℚ) ≤ s) : n ≤ roundHalfEven s := by
  have := roundHalfEven_mono h
  rwa [roundHalfEven_intCast] at this

theorem roundHalfEven_le_intCast {n : Int} {s : ℚ} (h : s ≤ (n : ℚ)) : roundHalfEven s ≤ n := by
  have := roundHalfEven_mono h
  rwa [roundHalfEven_intCast] at this

/-! ### rne -/

/-- the ulp exponent `rne` uses for a positive `q` -/
def expo (p : Nat) (emin : Int) (q : ℚ) : Int := max (ilog2 q - ((p : Int) - 1)) emin

theorem rne_zero (p : Nat) (emin : Int) : rne p emin 0 = 0 := by simp [rne]

theorem rne_pos_eq (p : Nat) (emin : Int) {q : ℚ} (hq : 0 < q) :
    rne p emin q = (roundHalfEven (q / pow2 (expo p emin q)) : ℚ) * pow2 (expo p emin q) := by
  unfold rne expo
  have h1 : q ≠ 0 := hq.ne'
  have h2 : ¬ q < 0 := not_lt.mpr hq.le
  simp only [h1, h2, if_false]

theorem rne_neg_eq (p : Nat) (emin : Int) {q : ℚ} (hq : q < 0) :
    rne p emin q = -rne p emin (-q) := by
  have hq' : 0 < -q := by linarith
  rw [rne_pos_eq p emin hq']
  unfold rne expo
  have h1 : q ≠ 0 := hq.ne
  simp only [h1, hq, if_false, if_true]

theorem rne_neg (p : Nat) (emin : Int) (q : ℚ) : rne p emin (-q) = -rne p emin q := by
  rcases lt_trichotomy q 0 with h | h | h
  · rw [rne_neg_eq p emin h]; simp
  · subst h; simp [rne_zero]
  · have : -q < 0 := by linarith
    rw [rne_neg_eq p emin this]; simp

theorem rne_nonneg (p : Nat) (emin : Int) {q : ℚ} (hq : 0 ≤ q) : 0 ≤ rne p emin q := by
  rcases eq_or_lt_of_le hq with h | h
  · subst h; simp [rne_zero]
  · rw [rne_pos_eq p emin h]
    apply mul_nonneg
    · have : 0 ≤ roundHalfEven (q / pow2 (expo p emin q)) :=
        roundHalfEven_nonneg (div_nonneg hq (pow2_pos _).le)
      exact_mod_cast this
    · exact (pow2_pos _).le

theorem rne_nonpos (p : Nat) (emin : Int) {q : ℚ} (hq : q ≤ 0) : rne p emin q ≤ 0 := by
  have h := rne_nonneg p emin (q := -q) (by linarith)
  rw [rne_neg] at h; linarith

theorem expo_mono (p : Nat) (emin : Int) {a b : ℚ} (ha : 0 < a) (hab : a ≤ b) :
    expo p emin a ≤ expo p emin b := by
  have := ilog2_mono ha hab
  unfold expo; omega

theorem rne_mono_pos (p : Nat) (hp : 1 ≤ p) (emin : Int) {a b : ℚ} (ha : 0 < a) (hab : a ≤ b) :
    rne p emin a ≤ rne p emin b := by
  have hb : 0 < b := lt_of_lt_of_le ha hab
  rw [rne_pos_eq p emin ha, rne_pos_eq p emin hb]
  have hle := expo_mono p emin ha hab
  rcases lt_or_eq_of_le hle with hlt | heq
  · -- different binades: the power of two 2^kb separates the two roundings
    set ea := expo p emin a with hea
    set eb := expo p emin b with heb
    have hkb : eb = ilog2 b - ((p : Int) - 1) := by
      have h1 : emin ≤ ea := by rw [hea]; unfold expo; omega
      rw [heb]; unfold expo
      have : expo p emin b = eb := rfl
      unfold expo at this
      omega
    set kb := ilog2 b with hkbdef
    have hkb' : kb = eb + ((p : Int) - 1) := by omega
    have hpow_b : pow2 kb ≤ b := (ilog2_spec hb).1
    have hka : ilog2 a < kb := by
      have : ilog2 a - ((p : Int) - 1) ≤ ea := by rw [hea]; unfold expo; omega
      omega
    have ha_lt : a < pow2 kb := lt_of_lt_of_le (ilog2_spec ha).2 (pow2_le_pow2 (by omega))
    -- rne a ≤ 2^kb
    have h1 : (roundHalfEven (a / pow2 ea) : ℚ) * pow2 ea ≤ pow2 kb := by
      have hd : 0 ≤ kb - ea := by omega
      have : a / pow2 ea ≤ (((2 : Int) ^ (kb - ea).toNat : Int) : ℚ) := by
        rw [← pow2_nonneg_eq_intCast hd, pow2_sub]
        exact div_le_div_of_nonneg_right ha_lt.le (pow2_pos _).le
      have h2 := roundHalfEven_le_intCast this
      have h3 : (roundHalfEven (a / pow2 ea) : ℚ) ≤ pow2 (kb - ea) := by
        rw [pow2_nonneg_eq_intCast hd]; exact_mod_cast h2
      calc (roundHalfEven (a / pow2 ea) : ℚ) * pow2 ea ≤ pow2 (kb - ea) * pow2 ea :=
            mul_le_mul_of_nonneg_right h3 (pow2_pos _).le
        _ = pow2 kb := by rw [← pow2_add]; congr 1; ring
    -- 2^kb ≤ rne b
    have h2 : pow2 kb ≤ (roundHalfEven (b / pow2 eb) : ℚ) * pow2 eb := by
      have hd : 0 ≤ kb - eb := by omega
      have : (((2 : Int) ^ (kb - eb).toNat : Int) : ℚ) ≤ b / pow2 eb := by
        rw [← pow2_nonneg_eq_intCast hd, pow2_sub]
        exact div_le_div_of_nonneg_right hpow_b (pow2_pos _).le
      have h2 := intCast_le_roundHalfEven this
      have h3 : pow2 (kb - eb) ≤ (roundHalfEven (b / pow2 eb) : ℚ) := by
        rw [pow2_nonneg_eq_intCast hd]; exact_mod_cast h2
      calc pow2 kb = pow2 (kb - eb) * pow2 eb := by rw [← pow2_add]; congr 1; ring
        _ ≤ (roundHalfEven (b / pow2 eb) : ℚ) * pow2 eb :=
            mul_le_mul_of_nonneg_right h3 (pow2_pos _).le
    exact le_trans h1 h2
  · rw [heq]
    apply mul_le_mul_of_nonneg_right _ (pow2_pos _).le
    have : a / pow2 (expo p emin b) ≤ b / pow2 (expo p emin b) :=
      div_le_div_of_nonneg_right hab (pow2_pos _).le
    exact_mod_cast roundHalfEven_mono this

/-- rounding to nearest is monotone -/
theorem rne_mono (p : Nat) (hp : 1 ≤ p) (emin : Int) {a b : ℚ} (hab : a ≤ b) :
    rne p emin a ≤ rne p emin b := by
  rcases lt_or_ge 0 a with ha | ha
  · exact rne_mono_pos p hp emin ha hab
  · rcases le_or_gt 0 b with hb | hb
    · exact le_trans (rne_nonpos p emin ha) (rne_nonneg p emin hb)
    · -- both negative
      have h1 : 0 < -b := by linarith
      have h2 : -b ≤ -a := by linarith
      have := rne_mono_pos p hp emin h1 h2
      rw [rne_neg, rne_neg] at this
      linarith

/-- `q` is a value of the format: `m · 2^e` with `|m| < 2^p` and `e ≥ emin` -/
def Rep (p : Nat) (emin : Int) (q : ℚ) : Prop :=
  ∃ (m e : Int), emin ≤ e ∧ |m| < (2 : Int) ^ p ∧ q = (m : ℚ) * pow2 e

theorem Rep.neg {p : Nat} {emin : Int} {q : ℚ} (h : Rep p emin q) : Rep p emin (-q) := by
  obtain ⟨m, e, h1, h2, h3⟩ := h
  exact ⟨-m, e, h1, by simpa using h2, by rw [h3]; push_cast; ring⟩

theorem rep_zero (p : Nat) (emin : Int) : Rep p emin 0 :=
  ⟨0, emin, le_refl _, by simp, by simp⟩

theorem rne_eq_self_of_rep_pos (p : Nat) (emin : Int) {q : ℚ} (hq : 0 < q) (h : Rep p emin q) :
    rne p emin q = q := by
  obtain ⟨m, e, h1, h2, h3⟩ := h
  have hm : 0 < m := by
    by_contra hc
    have : (m : ℚ) ≤ 0 := by exact_mod_cast not_lt.mp hc
    have : q ≤ 0 := by rw [h3]; exact mul_nonpos_of_nonpos_of_nonneg this (pow2_pos _).le
    linarith
  have hm2 : m < (2 : Int) ^ p := lt_of_le_of_lt (le_abs_self m) h2
  -- q < 2^(p+e)
  have hlt : q < pow2 ((p : Int) + e) := by
    rw [h3, pow2_add]
    apply mul_lt_mul_of_pos_right _ (pow2_pos _)
    rw [pow2_nonneg_eq_intCast (by omega : (0 : Int) ≤ (p : Int))]
    simp only [Int.toNat_natCast]
    exact_mod_cast hm2
  have hil : ilog2 q < (p : Int) + e := ilog2_lt_of_lt_pow2 hq hlt
  have hex : expo p emin q ≤ e := by unfold expo; omega
  rw [rne_pos_eq p emin hq]
  set ex := expo p emin q
  have hd : 0 ≤ e - ex := by omega
  have hdiv : q / pow2 ex = ((m * (2 : Int) ^ (e - ex).toNat : Int) : ℚ) := by
    rw [h3, mul_div_assoc, ← pow2_sub, pow2_nonneg_eq_intCast hd]; push_cast; ring
  rw [hdiv, roundHalfEven_intCast]
  rw [← hdiv]
  field_simp [pow2_ne_zero]

/-- representable values are fixed points of rounding -/
theorem rne_eq_self_of_rep (p : Nat) (emin : Int) {q : ℚ} (h : Rep p emin q) : rne p emin q = q := by
  rcases lt_trichotomy q 0 with hq | hq | hq
  · have := rne_eq_self_of_rep_pos p emin (q := -q) (by linarith) h.neg
    rw [rne_neg] at this; linarith
  · subst hq; exact rne_zero p emin
  · exact rne_eq_self_of_rep_pos p emin hq h

theorem rne_rep_pos (p : Nat) (hp : 1 ≤ p) (emin : Int) {q : ℚ} (hq : 0 < q) : Rep p emin (rne p emin q) := by
  rw [rne_pos_eq p emin hq]
  set ex := expo p emin q with hex
  have hemin : emin ≤ ex := by rw [hex]; unfold expo; omega
  have hil : ilog2 q + 1 - ex ≤ (p : Int) := by rw [hex]; unfold expo; omega
  -- q / 2^ex < 2^p
  have hlt : q / pow2 ex ≤ (((2 : Int) ^ p : Int) : ℚ) := by
    have h1 : q < pow2 (ilog2 q + 1) := (ilog2_spec hq).2
    have h2 : pow2 (ilog2 q + 1) ≤ pow2 ((p : Int) + ex) := pow2_le_pow2 (by omega)
    have h3 : q / pow2 ex ≤ pow2 (p : Int) := by
      rw [div_le_iff₀ (pow2_pos _), ← pow2_add]; exact (lt_of_lt_of_le h1 h2).le
    rw [pow2_nonneg_eq_intCast (by omega : (0 : Int) ≤ (p : Int))] at h3
    simpa using h3
  have hM := roundHalfEven_le_intCast hlt
  have hM0 : 0 ≤ roundHalfEven (q / pow2 ex) := roundHalfEven_nonneg (div_nonneg hq.le (pow2_pos _).le)
  set M := roundHalfEven (q / pow2 ex)
  rcases lt_or_eq_of_le hM with hlt' | heq
  · exact ⟨M, ex, hemin, by rw [abs_of_nonneg hM0]; exact hlt', rfl⟩
  · refine ⟨(2 : Int) ^ (p - 1), ex + 1, by omega, ?_, ?_⟩
    · rw [abs_of_nonneg (by positivity)]
      exact pow_lt_pow_right₀ (by norm_num) (by omega)
    · rw [heq, pow2_add]
      have : ((2 : Int) ^ p : Int) = (2 : Int) ^ (p - 1) * 2 := by
        conv_lhs => rw [show p = (p - 1) + 1 by omega]
        rw [pow_succ]
      rw [this]; push_cast
      have h21 : pow2 1 = 2 := by simp [pow2_eq_zpow]
      rw [h21]; ring

/-- the result of rounding is a value of the format -/
theorem rne_rep (p : Nat) (hp : 1 ≤ p) (emin : Int) (q : ℚ) : Rep p emin (rne p emin q) := by
  rcases lt_trichotomy q 0 with hq | hq | hq
  · have := (rne_rep_pos p hp emin (q := -q) (by linarith)).neg
    rwa [rne_neg, neg_neg] at this
  · subst hq; rw [rne_zero]; exact rep_zero p emin
  · exact rne_rep_pos p hp emin hq

theorem rne_idem (p : Nat) (hp : 1 ≤ p) (emin : Int) (q : ℚ) :
    rne p emin (rne p emin q) = rne p emin q :=
  rne_eq_self_of_rep p emin (rne_rep p hp emin q)

/-- rounding never crosses a representable value (lower bound) -/
theorem le_rne_of_rep_le (p : Nat) (hp : 1 ≤ p) (emin : Int) {f q : ℚ} (hf : Rep p emin f) (h : f ≤ q) :
    f ≤ rne p emin q := by
  have := rne_mono p hp emin h
  rwa [rne_eq_self_of_rep p emin hf] at this

/-- rounding never crosses a representable value (upper bound) -/
theorem rne_le_of_le_rep (p : Nat) (hp : 1 ≤ p) (emin : Int) {f q : ℚ} (hf : Rep p emin f) (h : q ≤ f) :
    rne p emin q ≤ f := by
  have := rne_mono p hp emin h
  rwa [rne_eq_self_of_rep p emin hf] at this

/-! ### rounding error -/

theorem roundHalfEven_err (s : ℚ) : |(roundHalfEven s : ℚ) - s| ≤ 1 / 2 := by
  have h1 : (s.floor : ℚ) ≤ s := Rat.floor_le s
  have h2 : s < (s.floor : ℚ) + 1 := by
    have : s.floor < s.floor + 1 := by omega
    have := Rat.floor_lt_iff.mp this
    push_cast at this; exact this
  rw [abs_le]
  unfold roundHalfEven
  simp only []
  split
  · rename_i h; constructor <;> linarith
  · split
    · rename_i h; push_cast; constructor <;> linarith
    · rename_i h3 h4
      have : s - (s.floor : ℚ) = 1 / 2 := le_antisymm (not_lt.mp h4) (not_lt.mp h3)
      split
      · constructor <;> linarith
      · push_cast; constructor <;> linarith

/-- the rounding error is at most half a unit in the last place -/
theorem rne_err_pos (p : Nat) (emin : Int) {q : ℚ} (hq : 0 < q) :
    |rne p emin q - q| ≤ pow2 (expo p emin q) / 2 := by
  rw [rne_pos_eq p emin hq]
  set e := expo p emin q
  have he := pow2_pos e
  have h := roundHalfEven_err (q / pow2 e)
  have : (roundHalfEven (q / pow2 e) : ℚ) * pow2 e - q = ((roundHalfEven (q / pow2 e) : ℚ) - q / pow2 e) * pow2 e := by
    field_simp
  rw [this, abs_mul, abs_of_pos he]
  calc |(roundHalfEven (q / pow2 e) : ℚ) - q / pow2 e| * pow2 e ≤ 1 / 2 * pow2 e :=
        mul_le_mul_of_nonneg_right h he.le
    _ = pow2 e / 2 := by ring

/-! ### `Fmt.round` -/

theorem Fmt.round_cases (f : Fmt) (q : ℚ) :
    f.round q = .inf false ∨ f.round q = .inf true ∨ f.round q = .fin (rne f.p f.emin q) := by
  unfold Fmt.round
  simp only []
  split
  · left; rfl
  · split
    · right; left; rfl
    · right; right; rfl

theorem Fmt.round_ne_nan (f : Fmt) (q : ℚ) : f.round q ≠ .nan := by
  rcases f.round_cases q with h | h | h <;> rw [h] <;> simp

/-- rounding a non-negative number gives `+inf` or a non-negative real -/
theorem Fmt.round_of_nonneg (f : Fmt) {q : ℚ} (hq : 0 ≤ q) :
    f.round q = .inf false ∨ (f.round q = .fin (rne f.p f.emin q) ∧ 0 ≤ rne f.p f.emin q) := by
  have hr := rne_nonneg f.p f.emin hq
  unfold Fmt.round
  simp only []
  split
  · left; rfl
  · right
    have : ¬ rne f.p f.emin q ≤ -pow2 f.emax := by
      have := pow2_pos f.emax; intro h; linarith
    rw [if_neg this]; exact ⟨rfl, hr⟩

/-- one correctly rounded operation is monotone in its exact argument -/
theorem Fmt.round_mono (f : Fmt) (hp : 1 ≤ f.p) {a b : ℚ} (hab : a ≤ b) :
    le (f.round a) (f.round b) = true := by
  have hr := rne_mono f.p hp f.emin hab
  have hpos := pow2_pos f.emax
  unfold Fmt.round
  simp only []
  by_cases h1 : pow2 f.emax ≤ rne f.p f.emin a
  · have h2 : pow2 f.emax ≤ rne f.p f.emin b := le_trans h1 hr
    rw [if_pos h1, if_pos h2]; rfl
  · rw [if_neg h1]
    by_cases h3 : rne f.p f.emin a ≤ -pow2 f.emax
    · rw [if_pos h3]
      split
      · rfl
      · split <;> rfl
    · rw [if_neg h3]
      by_cases h2 : pow2 f.emax ≤ rne f.p f.emin b
      · rw [if_pos h2]; rfl
      · rw [if_neg h2]
        have h4 : ¬ rne f.p f.emin b ≤ -pow2 f.emax := by intro h; linarith [not_le.mp h3]
        rw [if_neg h4]
        simp [le, hr]

/-- a representable value below the overflow threshold is returned unchanged -/
theorem Fmt.round_eq_self_of_rep (f : Fmt) {q : ℚ} (h : Rep f.p f.emin q)
    (h1 : q < pow2 f.emax) (h2 : -pow2 f.emax < q) : f.round q = .fin q := by
  unfold Fmt.round
  simp only [rne_eq_self_of_rep f.p f.emin h]
  rw [if_neg (not_le.mpr h1), if_neg (not_le.mpr h2)]

/-! ### IEEE comparisons, Rust `max`/`min` -/

@[simp] theorem lt_nan_left (b : FV) : lt .nan b = false := by cases b <;> rfl
@[simp] theorem lt_nan_right (a : FV) : lt a .nan = false := by cases a <;> rfl
@[simp] theorem le_nan_left (b : FV) : le .nan b = false := by cases b <;> rfl
@[simp] theorem le_nan_right (a : FV) : le a .nan = false := by cases a <;> rfl
@[simp] theorem lt_fin_fin (a b : ℚ) : lt (.fin a) (.fin b) = decide (a < b) := rfl
@[simp] theorem le_fin_fin (a b : ℚ) : le (.fin a) (.fin b) = decide (a ≤ b) := rfl

theorem le_refl_of_ne_nan {a : FV} (h : a ≠ .nan) : le a a = true := by
  cases a with
  | nan => exact absurd rfl h
  | inf s => cases s <;> rfl
  | fin q => simp

theorem lt_irrefl (a : FV) : lt a a = false := by
  cases a with
  | nan => rfl
  | inf s => cases s <;> rfl
  | fin q => simp

theorem le_of_lt {a b : FV} (h : lt a b = true) : le a b = true := by
  rcases a with _ | ⟨_ | _⟩ | a <;> rcases b with _ | ⟨_ | _⟩ | b <;> simp_all [lt, le]
  exact h.le

theorem le_trans' {a b c : FV} (h1 : le a b = true) (h2 : le b c = true) : le a c = true := by
  rcases a with _ | ⟨_ | _⟩ | a <;> rcases b with _ | ⟨_ | _⟩ | b <;> rcases c with _ | ⟨_ | _⟩ | c <;>
    simp_all [le]
  exact _root_.le_trans h1 h2

theorem lt_of_lt_of_le' {a b c : FV} (h1 : lt a b = true) (h2 : le b c = true) : lt a c = true := by
  rcases a with _ | ⟨_ | _⟩ | a <;> rcases b with _ | ⟨_ | _⟩ | b <;> rcases c with _ | ⟨_ | _⟩ | c <;>
    simp_all [lt, le]
  exact lt_of_lt_of_le h1 h2

theorem lt_of_le_of_lt' {a b c : FV} (h1 : le a b = true) (h2 : lt b c = true) : lt a c = true := by
  rcases a with _ | ⟨_ | _⟩ | a <;> rcases b with _ | ⟨_ | _⟩ | b <;> rcases c with _ | ⟨_ | _⟩ | c <;>
    simp_all [lt, le]
  exact lt_of_le_of_lt h1 h2

/-- for non-NaN operands exactly one of `a < b`, `b ≤ a` holds -/
theorem lt_or_ge_of_ne_nan {a b : FV} (ha : a ≠ .nan) (hb : b ≠ .nan) : lt a b = !le b a := by
  cases a with
  | nan => exact absurd rfl ha
  | inf s =>
    cases b with
    | nan => exact absurd rfl hb
    | inf t => cases s <;> cases t <;> rfl
    | fin q => cases s <;> rfl
  | fin p =>
    cases b with
    | nan => exact absurd rfl hb
    | inf t => cases t <;> rfl
    | fin q => simp only [lt_fin_fin, le_fin_fin, ← not_le, decide_not]

theorem fmax_nan_left (b : FV) : fmax .nan b = b := by cases b <;> rfl
theorem fmax_nan_right (a : FV) : fmax a .nan = a := by cases a <;> rfl
theorem fmin_nan_left (b : FV) : fmin .nan b = b := by cases b <;> rfl
theorem fmin_nan_right (a : FV) : fmin a .nan = a := by cases a <;> rfl

theorem fmax_of_ne_nan {a b : FV} (ha : a ≠ .nan) (hb : b ≠ .nan) :
    fmax a b = if lt a b then b else a := by
  cases a <;> cases b <;> first | rfl | (exfalso; simp at ha)

theorem fmin_of_ne_nan {a b : FV} (ha : a ≠ .nan) (hb : b ≠ .nan) :
    fmin a b = if lt b a then b else a := by
  cases a <;> cases b <;> first | rfl | (exfalso; simp at ha)

/-- Rust's `max` returns NaN only when both operands are NaN -/
theorem fmax_ne_nan_left {a : FV} (b : FV) (ha : a ≠ .nan) : fmax a b ≠ .nan := by
  by_cases hb : b = .nan
  · subst hb; rw [fmax_nan_right]; exact ha
  · rw [fmax_of_ne_nan ha hb]; split <;> assumption

theorem fmin_ne_nan_left {a : FV} (b : FV) (ha : a ≠ .nan) : fmin a b ≠ .nan := by
  by_cases hb : b = .nan
  · subst hb; rw [fmin_nan_right]; exact ha
  · rw [fmin_of_ne_nan ha hb]; split <;> assumption

theorem le_fmax_left {a : FV} (b : FV) (ha : a ≠ .nan) : le a (fmax a b) = true := by
  by_cases hb : b = .nan
  · subst hb; rw [fmax_nan_right]; exact le_refl_of_ne_nan ha
  · rw [fmax_of_ne_nan ha hb]
    split
    · rename_i h; exact le_of_lt h
    · exact le_refl_of_ne_nan ha

theorem fmin_le_right {b : FV} (a : FV) (ha : a ≠ .nan) (hb : b ≠ .nan) : le (fmin a b) b = true := by
  rw [fmin_of_ne_nan ha hb]
  split
  · exact le_refl_of_ne_nan hb
  · rename_i h
    have := lt_or_ge_of_ne_nan hb ha
    rw [this] at h
    simpa using h

theorem fmin_le_left {a : FV} (b : FV) (ha : a ≠ .nan) : le (fmin a b) a = true := by
  by_cases hb : b = .nan
  · subst hb; rw [fmin_nan_right]; exact le_refl_of_ne_nan ha
  · rw [fmin_of_ne_nan ha hb]
    split
    · rename_i h; exact le_of_lt h
    · exact le_refl_of_ne_nan ha

/-- `min` keeps lower bounds that both operands satisfy -/
theorem le_fmin {c a b : FV} (ha : a ≠ .nan) (h1 : le c a = true) (h2 : b = .nan ∨ le c b = true) :
    le c (fmin a b) = true := by
  by_cases hb : b = .nan
  · subst hb; rw [fmin_nan_right]; exact h1
  · rw [fmin_of_ne_nan ha hb]
    rcases h2 with h2 | h2
    · exact absurd h2 hb
    · split <;> assumption

/-! ### casts -/

theorem toU64_le_max (v : FV) : toU64 v ≤ u64Max := by
  unfold toU64
  split
  · exact Nat.zero_le _
  · exact Nat.zero_le _
  · exact le_refl _
  · split
    · exact Nat.zero_le _
    · simp only []
      split
      · exact le_refl _
      · rename_i h; exact not_lt.mp h

/-- the saturating cast lands in `[0, 2^64)` -/
theorem toU64_lt (v : FV) : toU64 v < 2 ^ 64 := by
  have := toU64_le_max v
  unfold u64Max at this
  omega

/-- a value that is `-inf` or a real number `≤ M` casts to at most `M` -/
theorem toU64_le_of_le {q : ℚ} {M : Nat} (h : q ≤ (M : ℚ)) : toU64 (.fin q) ≤ M := by
  unfold toU64
  simp only []
  split
  · exact Nat.zero_le _
  · rename_i h0
    have hfl : q.floor ≤ (M : Int) := by
      have : (q.floor : ℚ) ≤ (M : ℚ) := _root_.le_trans (Rat.floor_le q) h
      exact_mod_cast this
    have : q.floor.toNat ≤ M := by omega
    split
    · exact _root_.le_trans (by unfold u64Max at *; omega) this
    · exact this

/-- `f64::round` of a real number is an integer-valued real number -/
theorem fround_fin (q : ℚ) : ∃ z : Int, fround (.fin q) = .fin (z : ℚ) := by
  simp only [fround]
  split
  · exact ⟨-((-q) + 1 / 2).floor, by push_cast; rfl⟩
  · exact ⟨(q + 1 / 2).floor, rfl⟩

theorem fround_le_of_le {q : ℚ} {M : Nat} (h : q ≤ (M : ℚ)) :
    ∃ r : ℚ, fround (.fin q) = .fin r ∧ r ≤ (M : ℚ) := by
  simp only [fround]
  split
  · rename_i hneg
    refine ⟨_, rfl, ?_⟩
    have h0 : (0 : Int) ≤ ((-q) + 1 / 2).floor := Rat.le_floor_iff.mpr (by push_cast; linarith)
    have : ((((-q) + 1 / 2).floor : Int) : ℚ) ≥ 0 := by exact_mod_cast h0
    have hM : (0 : ℚ) ≤ (M : ℚ) := by positivity
    linarith
  · refine ⟨_, rfl, ?_⟩
    have : (q + 1 / 2).floor < (M : Int) + 1 := Rat.floor_lt_iff.mpr (by push_cast; linarith)
    have : (q + 1 / 2).floor ≤ (M : Int) := by omega
    exact_mod_cast this

theorem fround_nonneg_of_nonneg {q : ℚ} (h : 0 ≤ q) :
    ∃ r : ℚ, fround (.fin q) = .fin r ∧ 0 ≤ r := by
  simp only [fround]
  rw [if_neg (not_lt.mpr h)]
  refine ⟨_, rfl, ?_⟩
  have h0 : (0 : Int) ≤ (q + 1 / 2).floor := Rat.le_floor_iff.mpr (by push_cast; linarith)
  exact_mod_cast h0

/-! ### decoded bit patterns are values of the format -/

/-- every finite f64 bit pattern decodes to a representable value below the overflow threshold -/
theorem val64_rep (b : F64) {q : ℚ} (h : val64 b = .fin q) : Rep 53 (-1074) q ∧ |q| < pow2 1024 := by
  unfold val64 decodeBits at h
  simp only [] at h
  set mant := b.toNat % 2 ^ 52 with hmant
  set ex := b.toNat / 2 ^ 52 % 2 ^ 11 with hex
  have hm : mant < 2 ^ 52 := Nat.mod_lt _ (by positivity)
  have he : ex < 2 ^ 11 := Nat.mod_lt _ (by positivity)
  split at h
  · split at h <;> exact absurd h (by simp)
  · rename_i hne
    injection h with h
    have hbias : ((2 ^ (11 - 1) - 1 : Nat) : Int) = 1023 := by norm_num
    rw [hbias] at h
    -- magnitude
    have key : ∀ mag : ℚ, (∃ (m : Nat) (e : Int), -1074 ≤ e ∧ m < 2 ^ 53 ∧ e + 53 ≤ 1024 ∧ mag = (m : ℚ) * pow2 e) →
        Rep 53 (-1074) mag ∧ |mag| < pow2 1024 := by
      rintro mag ⟨m, e, h1, h2, h3, rfl⟩
      refine ⟨⟨m, e, h1, ?_, by push_cast; rfl⟩, ?_⟩
      · rw [abs_of_nonneg (by positivity)]; exact_mod_cast h2
      · rw [abs_of_nonneg (mul_nonneg (by positivity) (pow2_pos _).le)]
        calc (m : ℚ) * pow2 e < pow2 53 * pow2 e := by
              apply mul_lt_mul_of_pos_right _ (pow2_pos _)
              rw [pow2_eq_zpow]; norm_num
              exact_mod_cast h2
          _ = pow2 (53 + e) := (pow2_add _ _).symm
          _ ≤ pow2 1024 := pow2_le_pow2 (by omega)
    have hmag : ∃ (m : Nat) (e : Int), -1074 ≤ e ∧ m < 2 ^ 53 ∧ e + 53 ≤ 1024 ∧
        (if ex = 0 then (mant : ℚ) * pow2 (1 - 1023 - ((52 : Nat) : Int))
         else ((2 ^ 52 + mant : Nat) : ℚ) * pow2 ((ex : Int) - 1023 - ((52 : Nat) : Int))) = (m : ℚ) * pow2 e := by
      by_cases h0 : ex = 0
      · rw [if_pos h0]
        exact ⟨mant, _, by norm_num, by omega, by norm_num, rfl⟩
      · rw [if_neg h0]
        have : ex ≤ 2 ^ 11 - 2 := by omega
        refine ⟨2 ^ 52 + mant, _, ?_, by omega, ?_, rfl⟩
        · push_cast; omega
        · push_cast; omega
    obtain ⟨hr, hb⟩ := key _ hmag
    rw [← h]
    split
    · exact ⟨hr.neg, by rwa [abs_neg]⟩
    · exact ⟨hr, hb⟩

theorem val64_round_self (b : F64) {q : ℚ} (h : val64 b = .fin q) : f64.round q = .fin q := by
  obtain ⟨hr, hb⟩ := val64_rep b h
  rw [abs_lt] at hb
  exact Fmt.round_eq_self_of_rep f64 hr hb.2 hb.1

end Fp
end Mb
