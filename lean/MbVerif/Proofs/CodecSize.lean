/-
  No amplification in the bincode model: every decoder consumes at least as many input bytes as
  the number of cells (`Machine.cells`, Spec/C11.lean) of the value it returns.

  Each lemma has the composable "consumption" form
      dec bs = some (x, r)  →  weight x + r.length ≤ bs.length
  with the weight read off the wire format: a varint and an enum tag are at least 1 byte, a bool 1,
  an `f64` 8, an `f32` 4, an `Option` tag 1, a `Vec` length prefix at least 1.  Hence
      Dist ≥ 25 bytes, Trans ≥ 5, a present transition vector ≥ 1 + 5 per entry,
      State ≥ 16 (three option tags and 13 slot tags) + its contents, Machine header ≥ 19.

  A `Vec` length prefix that exceeds the number of remaining bytes makes `decVec` fail at once
  (`decVec_prefix_too_large`): `hasAtLeast n r` inspects at most `n` cells of `r` and the decoder
  does not iterate, let alone build anything, when it is false.
-/
import MbVerif.Spec.C11
import MbVerif.Proofs.CodecDecodeWF
import MbVerif.Proofs.CodecBase64
import MbVerif.Proofs.CodecStr

set_option linter.unusedSimpArgs false
set_option linter.unusedVariables false

namespace Mb
namespace Codec

/-! ### scalars -/

theorem decVarint_consumes {bs r : Bytes} {v : Nat} (h : decVarint bs = some (v, r)) :
    r.length + 1 ≤ bs.length := by
  cases bs with
  | nil => simp [decVarint] at h
  | cons b bs =>
    simp only [decVarint] at h
    repeat' split at h
    all_goals (try simp at h)
    · simp only [List.length_cons]; rw [← h.2]; omega
    all_goals (have := readLE_len h; simp only [List.length_cons]; omega)

theorem decU32_consumes {bs r : Bytes} {v : Nat} (h : decU32 bs = some (v, r)) :
    r.length + 1 ≤ bs.length := by
  simp only [decU32] at h
  split at h
  · rename_i hv
    split at h
    · simp at h
      have := decVarint_consumes hv
      rw [← h.2]; exact this
    · simp at h
  · simp at h

theorem decBool_consumes {bs r : Bytes} {v : Bool} (h : decBool bs = some (v, r)) :
    r.length + 1 = bs.length := by
  cases bs with
  | nil => simp [decBool] at h
  | cons b bs =>
    simp only [decBool] at h
    repeat' split at h
    all_goals (try simp at h)
    all_goals (rw [← h.2]; simp)

theorem decF64_consumes {bs r : Bytes} {v : F64} (h : decF64 bs = some (v, r)) :
    r.length + 8 = bs.length := by
  simp only [decF64] at h
  split at h
  · rename_i hx; simp at h; have := readLE_len hx; rw [← h.2]; exact this
  · simp at h

theorem decF32_consumes {bs r : Bytes} {v : F32} (h : decF32 bs = some (v, r)) :
    r.length + 4 = bs.length := by
  simp only [decF32] at h
  split at h
  · rename_i hx; simp at h; have := readLE_len hx; rw [← h.2]; exact this
  · simp at h

theorem dec2F64_consumes {bs r : Bytes} {v : F64 × F64} (h : dec2F64 bs = some (v, r)) :
    r.length + 16 = bs.length := by
  simp only [dec2F64] at h
  split at h
  · simp at h
  · rename_i h1
    split at h
    · simp at h
    · rename_i h2
      simp at h
      have := decF64_consumes h1
      have := decF64_consumes h2
      rw [← h.2]; omega

/-! ### generic combinators -/

/-- the weight of an optional value -/
def optW {α} (w : α → Nat) : Option α → Nat
  | none => 0
  | some a => w a

theorem decOption_consumes {α} {dec : Bytes → Option (α × Bytes)} {w : α → Nat}
    (hw : ∀ bs a r, dec bs = some (a, r) → w a + r.length ≤ bs.length) {bs r : Bytes} {o : Option α}
    (h : decOption dec bs = some (o, r)) : optW w o + 1 + r.length ≤ bs.length := by
  cases bs with
  | nil => simp [decOption] at h
  | cons b bs =>
    simp only [decOption] at h
    split at h
    · simp at h; rw [← h.1, ← h.2]; simp only [optW, List.length_cons]; omega
    · split at h
      · split at h
        · rename_i a r' hx
          simp at h
          have := hw _ _ _ hx
          rw [← h.1, ← h.2]
          simp only [optW, List.length_cons]
          omega
        · simp at h
      · simp at h

theorem decN_consumes {α} {dec : Bytes → Option (α × Bytes)} {w : α → Nat}
    (hw : ∀ bs a r, dec bs = some (a, r) → w a + r.length ≤ bs.length) {n : Nat} {bs r : Bytes}
    {l : List α} (h : decN dec n bs = some (l, r)) : (l.map w).sum + r.length ≤ bs.length := by
  induction n generalizing bs l r with
  | zero =>
    simp [decN] at h
    rw [h.1, h.2]; simp
  | succ n ih =>
    simp only [decN] at h
    split at h
    · simp at h
    · rename_i a0 r0 h0
      split at h
      · simp at h
      · rename_i l' r' hx
        simp at h
        have h1 := hw _ _ _ h0
        have h2 := ih hx
        rw [← h.1, ← h.2]
        simp only [List.map_cons, List.sum_cons]
        omega

theorem decVec_consumes {α} {dec : Bytes → Option (α × Bytes)} {w : α → Nat}
    (hw : ∀ bs a r, dec bs = some (a, r) → w a + r.length ≤ bs.length) {bs r : Bytes}
    {l : List α} (h : decVec dec bs = some (l, r)) : (l.map w).sum + 1 + r.length ≤ bs.length := by
  simp only [decVec] at h
  split at h
  · simp at h
  · rename_i n r' hn
    split at h
    · have := decN_consumes hw h
      have := decVarint_consumes hn
      omega
    · simp at h

/-- A length prefix larger than the number of bytes that follow it is rejected outright: the
    element decoder is never called and nothing is built. -/
theorem decVec_prefix_too_large {α} (dec : Bytes → Option (α × Bytes)) {bs r : Bytes} {n : Nat}
    (h : decVarint bs = some (n, r)) (hn : r.length < n) : decVec dec bs = none := by
  have : hasAtLeast n r = false := by
    cases hx : hasAtLeast n r with
    | false => rfl
    | true => rw [hasAtLeast_iff] at hx; omega
  simp [decVec, h, this]

/-- The decoded vector is never longer than the bytes that followed its length prefix. -/
theorem decVec_length_le {α} {dec : Bytes → Option (α × Bytes)} {bs r : Bytes} {l : List α}
    (h : decVec dec bs = some (l, r)) : l.length + 1 ≤ bs.length := by
  simp only [decVec] at h
  split at h
  · simp at h
  · rename_i n r' hn
    split at h
    · rename_i hle
      rw [hasAtLeast_iff] at hle
      have := decN_length h
      have := decVarint_consumes hn
      omega
    · simp at h

theorem sum_map_const {α} (l : List α) (c : Nat) : (l.map fun _ => c).sum = c * l.length := by
  induction l with
  | nil => simp
  | cons a l ih => simp only [List.map_cons, List.sum_cons, List.length_cons, ih, Nat.mul_succ]; omega

/-! ### Dist -/

set_option hygiene false in
/-- closes one branch of `decDistType` / `decAction` style decoders -/
local macro "dt_branch" : tactic => `(tactic|
  (simp at h
   first
     | (obtain ⟨a, b, hx, _⟩ := h; have := dec2F64_consumes hx; omega)
     | (obtain ⟨a, hx, _⟩ := h
        have := decF64_consumes hx
        first
          | (have := dec2F64_consumes (by assumption); omega)
          | (have := decVarint_consumes (by assumption); omega)
          | omega)))

theorem decDistType_consumes {bs r : Bytes} {d : DistType} (h : decDistType bs = some (d, r)) :
    r.length + 9 ≤ bs.length := by
  simp only [decDistType] at h
  split at h
  · simp at h
  · rename_i tag r' htag
    have h0 := decU32_consumes htag
    by_cases hc : tag = Gen.DT_Uniform
    · rw [if_pos hc] at h; dt_branch
    rw [if_neg hc] at h; clear hc
    by_cases hc : tag = Gen.DT_Normal
    · rw [if_pos hc] at h; dt_branch
    rw [if_neg hc] at h; clear hc
    by_cases hc : tag = Gen.DT_SkewNormal
    · rw [if_pos hc] at h
      split at h
      · simp at h
      · dt_branch
    rw [if_neg hc] at h; clear hc
    by_cases hc : tag = Gen.DT_LogNormal
    · rw [if_pos hc] at h; dt_branch
    rw [if_neg hc] at h; clear hc
    by_cases hc : tag = Gen.DT_Binomial
    · rw [if_pos hc] at h
      split at h
      · simp at h
      · dt_branch
    rw [if_neg hc] at h; clear hc
    by_cases hc : tag = Gen.DT_Geometric
    · rw [if_pos hc] at h; dt_branch
    rw [if_neg hc] at h; clear hc
    by_cases hc : tag = Gen.DT_Pareto
    · rw [if_pos hc] at h; dt_branch
    rw [if_neg hc] at h; clear hc
    by_cases hc : tag = Gen.DT_Poisson
    · rw [if_pos hc] at h; dt_branch
    rw [if_neg hc] at h; clear hc
    by_cases hc : tag = Gen.DT_Weibull
    · rw [if_pos hc] at h; dt_branch
    rw [if_neg hc] at h; clear hc
    by_cases hc : tag = Gen.DT_Gamma
    · rw [if_pos hc] at h; dt_branch
    rw [if_neg hc] at h; clear hc
    by_cases hc : tag = Gen.DT_Beta
    · rw [if_pos hc] at h; dt_branch
    rw [if_neg hc] at h; clear hc
    simp at h

theorem decDist_consumes {bs r : Bytes} {d : Dist} (h : decDist bs = some (d, r)) :
    r.length + 25 ≤ bs.length := by
  simp only [decDist] at h
  split at h
  · simp at h
  · rename_i hd
    split at h
    · simp at h
    · rename_i hx
      simp at h
      have := decDistType_consumes hd
      have := dec2F64_consumes hx
      rw [← h.2]; omega

theorem decOptDist_consumes {bs r : Bytes} {o : Option Dist} (h : decOption decDist bs = some (o, r)) :
    25 * optDistCount o + 1 + r.length ≤ bs.length := by
  have := decOption_consumes (w := fun _ => 25)
    (fun _ _ _ hx => by have := decDist_consumes hx; omega) h
  cases o <;> simp only [optW, optDistCount] at this ⊢ <;> omega

/-! ### Action, Counter -/

theorem decTimer_consumes {bs r : Bytes} {t : Timer} (h : decTimer bs = some (t, r)) :
    r.length + 1 ≤ bs.length := by
  simp only [decTimer] at h
  split at h
  · simp at h
  · rename_i tag r' htag
    have h0 := decU32_consumes htag
    repeat' split at h
    all_goals (simp at h)
    all_goals (rw [← h.2]; exact h0)

theorem decOperation_consumes {bs r : Bytes} {t : Operation} (h : decOperation bs = some (t, r)) :
    r.length + 1 ≤ bs.length := by
  simp only [decOperation] at h
  split at h
  · simp at h
  · rename_i tag r' htag
    have h0 := decU32_consumes htag
    repeat' split at h
    all_goals (simp at h)
    all_goals (rw [← h.2]; exact h0)

theorem decAction_consumes {bs r : Bytes} {a : Action} (h : decAction bs = some (a, r)) :
    25 * a.distCount + 2 + r.length ≤ bs.length := by
  simp only [decAction] at h
  split at h
  · simp at h
  · rename_i tag r' htag
    have h0 := decU32_consumes htag
    by_cases hc : tag = Gen.ACT_Cancel
    · rw [if_pos hc] at h
      simp at h
      obtain ⟨t, hx, rfl⟩ := h
      have := decTimer_consumes hx
      simp only [Action.distCount]; omega
    rw [if_neg hc] at h; clear hc
    by_cases hc : tag = Gen.ACT_SendPadding
    · rw [if_pos hc] at h
      repeat' split at h
      all_goals (try simp at h)
      rename_i hb _ _ _ hrp _ _ _ hto _ _ _ hlim
      have := decBool_consumes hb
      have := decBool_consumes hrp
      have := decDist_consumes hto
      have := decOptDist_consumes hlim
      rw [← h.1, ← h.2]
      simp only [Action.distCount]; omega
    rw [if_neg hc] at h; clear hc
    by_cases hc : tag = Gen.ACT_BlockOutgoing
    · rw [if_pos hc] at h
      repeat' split at h
      all_goals (try simp at h)
      rename_i hb _ _ _ hrp _ _ _ hto _ _ _ hdu _ _ _ hlim
      have := decBool_consumes hb
      have := decBool_consumes hrp
      have := decDist_consumes hto
      have := decDist_consumes hdu
      have := decOptDist_consumes hlim
      rw [← h.1, ← h.2]
      simp only [Action.distCount]; omega
    rw [if_neg hc] at h; clear hc
    by_cases hc : tag = Gen.ACT_UpdateTimer
    · rw [if_pos hc] at h
      repeat' split at h
      all_goals (try simp at h)
      rename_i hrp _ _ _ hdu _ _ _ hlim
      have := decBool_consumes hrp
      have := decDist_consumes hdu
      have := decOptDist_consumes hlim
      rw [← h.1, ← h.2]
      simp only [Action.distCount]; omega
    rw [if_neg hc] at h
    simp at h

theorem decOptAction_consumes {bs r : Bytes} {o : Option Action} (h : decOption decAction bs = some (o, r)) :
    25 * optActionDistCount o + 1 + r.length ≤ bs.length := by
  have := decOption_consumes (w := fun a => 25 * a.distCount)
    (fun _ _ _ hx => by have := decAction_consumes hx; omega) h
  cases o <;> simp only [optW, optActionDistCount] at this ⊢ <;> omega

theorem decCounter_consumes {bs r : Bytes} {c : Counter} (h : decCounter bs = some (c, r)) :
    25 * optDistCount c.dist + 3 + r.length ≤ bs.length := by
  simp only [decCounter] at h
  repeat' split at h
  all_goals (try simp at h)
  rename_i hop _ _ _ hd _ _ _ hb
  have := decOperation_consumes hop
  have := decOptDist_consumes hd
  have := decBool_consumes hb
  rw [← h.1, ← h.2]
  simp only; omega

theorem decOptCounter_consumes {bs r : Bytes} {o : Option Counter} (h : decOption decCounter bs = some (o, r)) :
    25 * optCounterDistCount o + 1 + r.length ≤ bs.length := by
  have := decOption_consumes (w := fun c => 25 * optDistCount c.dist)
    (fun _ _ _ hx => by have := decCounter_consumes hx; omega) h
  cases o <;> simp only [optW, optCounterDistCount] at this ⊢ <;> omega

/-! ### transitions -/

theorem decTrans_consumes {bs r : Bytes} {t : Trans} (h : decTrans bs = some (t, r)) :
    r.length + 5 ≤ bs.length := by
  simp only [decTrans] at h
  repeat' split at h
  all_goals (try simp at h)
  rename_i hv _ _ _ hp
  have := decVarint_consumes hv
  have := decF32_consumes hp
  rw [← h.2]; omega

theorem decTransVec_consumes {bs r : Bytes} {ts : List Trans} (h : decVec decTrans bs = some (ts, r)) :
    5 * ts.length + 1 + r.length ≤ bs.length := by
  have := decVec_consumes (w := fun _ => 5) (fun _ _ _ hx => by have := decTrans_consumes hx; omega) h
  rw [sum_map_const] at this
  exact this

/-- the byte weight of one event slot: its `Option` tag, and for a present vector its length prefix
    and 5 bytes per entry -/
def slotW (o : Option (List Trans)) : Nat := 5 * slotEntries o + slotVecs o + 1

theorem decSlot_consumes {bs r : Bytes} {o : Option (List Trans)}
    (h : decOption (decVec decTrans) bs = some (o, r)) : slotW o + r.length ≤ bs.length := by
  have := decOption_consumes (w := fun ts => 5 * ts.length + 1)
    (fun _ _ _ hx => decTransVec_consumes hx) h
  cases o <;> simp only [optW, slotW, slotEntries, slotVecs] at this ⊢ <;> omega

theorem sum_slotW (l : List (Option (List Trans))) :
    (l.map slotW).sum = 5 * (l.map slotEntries).sum + (l.map slotVecs).sum + l.length := by
  induction l with
  | nil => simp
  | cons a l ih => simp only [List.map_cons, List.sum_cons, List.length_cons, ih, slotW]; omega

/-! ### State, Machine -/

/-- the byte weight of one state -/
def stateW (s : State) : Nat := 16 + 25 * s.distCount + s.vecCount + 5 * s.transCount

theorem decState_consumes {bs r : Bytes} {s : State} (h : decState bs = some (s, r)) :
    stateW s + r.length ≤ bs.length := by
  simp only [decState] at h
  repeat' split at h
  all_goals (try simp at h)
  rename_i ha _ _ _ hca _ _ _ hcb _ ts _ hts
  have := decOptAction_consumes ha
  have := decOptCounter_consumes hca
  have := decOptCounter_consumes hcb
  have h4 := decN_consumes (w := slotW) (fun _ _ _ hx => decSlot_consumes hx) hts
  have h5 : ts.length = 13 := decN_length hts
  rw [sum_slotW] at h4
  rw [← h.1, ← h.2]
  simp only [stateW, State.distCount, State.vecCount, State.transCount]
  omega

theorem sum_stateW (l : List State) :
    (l.map stateW).sum = 16 * l.length + 25 * (l.map State.distCount).sum + (l.map State.vecCount).sum
      + 5 * (l.map State.transCount).sum := by
  induction l with
  | nil => simp
  | cons a l ih => simp only [List.map_cons, List.sum_cons, List.length_cons, ih, stateW]; omega

/-- The machine decoder consumes at least 19 header bytes, 16 bytes per state, 25 per
    distribution, 1 per present transition vector and 5 per transition entry. -/
theorem decMachine_consumes {bs r : Bytes} {m : Machine} (h : decMachine bs = some (m, r)) :
    16 * m.states.length + 25 * m.distCount + m.vecCount + 5 * m.transCount + 19 + r.length ≤ bs.length := by
  simp only [decMachine] at h
  repeat' split at h
  all_goals (try simp at h)
  rename_i h1 _ _ _ h2 _ _ _ h3 _ _ _ h4 _ sts _ h5
  have := decVarint_consumes h1
  have := decF64_consumes h2
  have := decVarint_consumes h3
  have := decF64_consumes h4
  have h6 := decVec_consumes (w := stateW) (fun _ _ _ hx => decState_consumes hx) h5
  rw [sum_stateW] at h6
  rw [← h.1, ← h.2]
  simp only [Machine.distCount, Machine.vecCount, Machine.transCount]
  omega

theorem decMachine_cells_le {bs r : Bytes} {m : Machine} (h : decMachine bs = some (m, r)) :
    m.cells + 15 * m.states.length + 19 + r.length ≤ bs.length := by
  have := decMachine_consumes h
  simp only [Machine.cells]; omega

theorem decodeMachine_consumes {bs : Bytes} {m : Machine} (h : decodeMachine bs = some m) :
    16 * m.states.length + 25 * m.distCount + m.vecCount + 5 * m.transCount + 19 ≤ bs.length := by
  simp only [decodeMachine] at h
  split at h
  · rename_i hm; simp at h; subst h; simpa using decMachine_consumes hm
  · simp at h

theorem decodeMachine_cells_le {bs : Bytes} {m : Machine} (h : decodeMachine bs = some m) :
    m.cells + 15 * m.states.length + 19 ≤ bs.length := by
  have := decodeMachine_consumes h
  simp only [Machine.cells]; omega

theorem decState_cells_le {bs r : Bytes} {s : State} (h : decState bs = some (s, r)) :
    1 + s.vecCount + s.transCount + s.distCount + 15 + r.length ≤ bs.length := by
  have := decState_consumes h
  simp only [stateW] at this; omega

end Codec
end Mb

namespace Mb
namespace MStr
open Codec (Bytes)

/-- Sizes of everything `from_str` builds, for a zlib whose bounded read honours its buffer: the
    base64-decoded bytes are at most 3/4 of the string, the decompressed bytes at most `MAX`, and
    the accepted machine has at most as many cells as there were decompressed bytes. -/
theorem fromStr_sizes {Z : Zlib} (hB : Z.Bounded) {s : Bytes} {m : Machine} (h : fromStr Z s = .ok m) :
    ∃ compressed raw, B64.dec (s.drop 2) = some compressed ∧ Z.readOnce compressed = some raw ∧
      Codec.decodeMachine raw = some m ∧
      4 * compressed.length + 6 ≤ 3 * s.length ∧ raw.length ≤ MAX ∧
      m.cells + 15 * m.states.length + 19 ≤ raw.length := by
  obtain ⟨c, raw, h3, _, _, hc, hr, hm, _⟩ := fromStr_ok h
  have h1 := B64.dec_length _ _ hc
  have h2 := hB _ _ hr
  have h4 := Codec.decodeMachine_cells_le hm
  refine ⟨c, raw, hc, hr, hm, ?_, h2, h4⟩
  simp only [List.length_drop] at h1
  omega

end MStr
end Mb
