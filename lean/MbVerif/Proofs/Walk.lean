/-
  A generic "walker" over the structure of `trigger_events`: any relation that is reflexive,
  transitive and contains the building blocks (a transition for any machine, a limit decrement
  for a machine that has not ended, accounting updates, faults, signal-slot resets, call start)
  relates a state to the state after a whole call. Instantiated with `Run` (primitive steps) and
  with implications between per-machine predicates (END absorption, non-interference frames).
-/
import MbVerif.Proofs.ReachMain

namespace Mb
variable {σ : Type} (ρ : Oracle σ)

/-- the part of a walker that concerns transitions only (no accounting updates) -/
structure WalkCore (R : Fw σ → Fw σ → Prop) : Prop where
  refl : ∀ s, R s s
  trans : ∀ {s t u}, R s t → R t u → R s u
  /-- for the events a call delivers from outside a transition (CounterZero is only ever delivered
      from within `update_counter`) -/
  transition : ∀ (j : Nat) (ev : Event) (s : Fw σ), ev ≠ .counterZero → R s (transition ρ FUEL j ev s).1
  decrement : ∀ (j : Nat) (s : Fw σ), notEnded s j = true → R s (decrementLimit ρ j s)
  fault : ∀ (s : Fw σ) (f : Fault), R s (s.withFault f)
  signal : ∀ (s : Fw σ) (p : Option SignalTarget), R s { s with signalPending := p }

/-- a walker over whole events (accounting included) -/
structure WalkEv (R : Fw σ → Fw σ → Prop) : Prop extends WalkCore ρ R where
  setG : ∀ (s : Fw σ) (g' : Globals), R s { s with g := g' }
  acct : ∀ (s : Fw σ) (j : Nat) (f : Runtime → Runtime),
    (∀ r, f r = { r with acct := (f r).acct }) → R s (s.modRt j f)

/-- a walker over whole calls -/
structure Walk (R : Fw σ → Fw σ → Prop) : Prop extends WalkEv ρ R where
  callStart : ∀ (s : Fw σ) (t : Int), R s (s.callStart t)

namespace WalkCore
variable {ρ} {R : Fw σ → Fw σ → Prop} (W : WalkCore ρ R)
include W

theorem foldl {α : Type} (f : Fw σ → α → Fw σ) (hf : ∀ s a, R s (f s a)) (l : List α) (s : Fw σ) :
    R s (l.foldl f s) := by
  induction l generalizing s with
  | nil => exact W.refl s
  | cons a l ih => exact W.trans (hf s a) (ih (f s a))

theorem transitionAll (ev : Event) (hev : ev ≠ .counterZero) (s : Fw σ) : R s (transitionAll ρ ev s) := by
  unfold Mb.transitionAll
  exact W.foldl _ (fun s mi => W.transition mi ev s hev) _ _

theorem transDec (mi : Nat) (ev : Event) (hev : ev ≠ .counterZero) (s : Fw σ) (c : Fw σ × Bool → Bool)
    (hc : ∀ p, c p = true → notEnded p.1 mi = true) :
    R s (if c (Mb.transition ρ FUEL mi ev s) = true then decrementLimit ρ mi (Mb.transition ρ FUEL mi ev s).1
         else (Mb.transition ρ FUEL mi ev s).1) := by
  have h := W.transition mi ev s hev
  split
  · next hcond => exact W.trans h (W.decrement mi _ (hc _ hcond))
  · exact h

theorem signalFold (excluded : Option Nat) (s : Fw σ) (n : Nat) :
    R s ((List.range n).foldl (fun s mi =>
      if (excluded == some mi) = true then s else (Mb.transition ρ FUEL mi .signal s).1) s) := by
  refine W.foldl _ (fun s mi => ?_) _ _
  split
  · exact W.refl _
  · exact W.transition _ _ _ (by decide)

theorem signalRound (s : Fw σ) : R s (signalRound ρ s) := by
  unfold Mb.signalRound
  cases hsig : s.signalPending with
  | none => exact W.refl s
  | some sig =>
    have h1 : R s { s with signalPending := none } := W.signal s none
    cases sig with
    | all =>
      simp only []
      have h3 := W.trans h1 (W.signalFold none { s with signalPending := none } s.rt.length)
      generalize ((List.range s.rt.length).foldl (fun s mi =>
          if ((none : Option Nat) == some mi) = true then s else (Mb.transition ρ FUEL mi .signal s).1)
          ({ s with signalPending := none } : Fw σ)) = s2 at h3 ⊢
      refine W.trans h3 ?_
      cases hs2 : s2.signalPending with
      | none => exact W.refl _
      | some _ => exact W.signal s2 none
    | allExcept x =>
      simp only []
      have h3 := W.trans h1 (W.signalFold (some x) { s with signalPending := none } s.rt.length)
      generalize ((List.range s.rt.length).foldl (fun s mi =>
          if (some x == some mi) = true then s else (Mb.transition ρ FUEL mi .signal s).1)
          ({ s with signalPending := none } : Fw σ)) = s2 at h3 ⊢
      refine W.trans h3 ?_
      cases hs2 : s2.signalPending with
      | none => exact W.refl _
      | some _ => exact W.trans (W.signal s2 none) (W.transition _ _ _ (by decide))

end WalkCore

namespace WalkEv
variable {ρ} {R : Fw σ → Fw σ → Prop} (W : WalkEv ρ R)
include W

theorem blockingEndAcct (s : Fw σ) (mi blocked : Nat) :
    R s (if blocked ≠ 0 then
        match s.rt[mi]? with
        | none => s.withFault .oob
        | some r =>
          (if r.acct.blockingDur + blocked > durMax then s.withFault .durOverflow else s).modRt mi
            (fun r => { r with acct := { r.acct with blockingDur := r.acct.blockingDur + blocked } })
      else s) := by
  by_cases hb : blocked ≠ 0
  · rw [if_pos hb]
    cases hr : s.rt[mi]? with
    | none => exact W.fault _ _
    | some r =>
      simp only []
      refine W.trans ?_ (W.acct _ mi
        (fun r => { r with acct := { r.acct with blockingDur := r.acct.blockingDur + blocked } }) (fun _ => rfl))
      split
      · exact W.fault _ _
      · exact W.refl _
  · rw [if_neg hb]; exact W.refl _

theorem processEvent (e : TEvent) (s : Fw σ) : R s (processEvent ρ e s) := by
  unfold Mb.processEvent
  cases e with
  | normalRecv => exact W.toWalkCore.transitionAll _ (by decide) s
  | paddingRecv => exact W.toWalkCore.transitionAll _ (by decide) s
  | tunnelRecv => exact W.toWalkCore.transitionAll _ (by decide) s
  | tunnelSent => exact W.toWalkCore.transitionAll _ (by decide) s
  | normalSent =>
    simp only []
    refine W.trans (W.setG s { s.g with normalSent := s.g.normalSent + 1 }) (W.toWalkCore.foldl _ (fun s mi => ?_) _ _)
    exact W.trans (W.acct s mi
      (fun r => { r with acct := { r.acct with normalSent := r.acct.normalSent + 1 } }) (fun _ => rfl))
      (W.transition mi _ _ (by decide))
  | paddingSent mi =>
    simp only []
    refine W.trans (W.setG s { s.g with paddingSent := s.g.paddingSent + 1 }) ?_
    split
    · exact W.refl _
    · refine W.trans (W.acct _ mi
        (fun r => { r with acct := { r.acct with paddingSent := r.acct.paddingSent + 1 } }) (fun _ => rfl)) ?_
      exact W.toWalkCore.transDec mi .paddingSent (by decide) _ (fun p => !p.2 && notEnded p.1 mi)
        (fun p hp => by simp only [Bool.and_eq_true] at hp; exact hp.2)
  | blockingBegin m =>
    simp only []
    have h1 : R s (if !s.g.blockingActive then
        { s with g := { s.g with blockingActive := true, blockingStarted := s.g.now } } else s) := by
      split
      · exact W.setG s _
      · exact W.refl s
    refine W.trans h1 (W.toWalkCore.foldl _ (fun s mi => ?_) _ _)
    exact W.toWalkCore.transDec mi .blockingBegin (by decide) _ (fun p => !p.2 && notEnded p.1 mi && mi == m)
      (fun p hp => by simp only [Bool.and_eq_true] at hp; exact hp.1.2)
  | blockingEnd =>
    simp only []
    have h1 : R s (if s.g.blockingActive then
        (let s' := if s.g.blockingDur + (if s.g.blockingActive then durSince s.g.now s.g.blockingStarted else 0) > durMax
            then s.withFault .durOverflow else s
         { s' with g := { s'.g with blockingDur := s'.g.blockingDur +
            (if s.g.blockingActive then durSince s.g.now s.g.blockingStarted else 0), blockingActive := false } })
        else s) := by
      split
      · simp only []
        refine W.trans ?_ (W.setG _ _)
        split
        · exact W.fault _ _
        · exact W.refl _
      · exact W.refl s
    refine W.trans h1 (W.toWalkCore.foldl _ (fun s mi => ?_) _ _)
    exact W.trans (W.blockingEndAcct s mi _) (W.transition mi _ _ (by decide))
  | timerBegin mi =>
    simp only []
    split
    · exact W.refl _
    · exact W.toWalkCore.transDec mi .timerBegin (by decide) _ (fun p => !p.2 && notEnded p.1 mi)
        (fun p hp => by simp only [Bool.and_eq_true] at hp; exact hp.2)
  | timerEnd mi =>
    simp only []
    split
    · exact W.refl _
    · exact W.transition mi _ _ (by decide)

end WalkEv

namespace Walk
variable {ρ} {R : Fw σ → Fw σ → Prop} (W : Walk ρ R)
include W

theorem processEvent (e : TEvent) (s : Fw σ) : R s (Mb.processEvent ρ e s) := W.toWalkEv.processEvent e s

theorem triggerEvents (es : List TEvent) (t : Int) (s : Fw σ) : R s (triggerEvents ρ es t s) := by
  unfold Mb.triggerEvents
  refine W.trans (W.callStart s t) ?_
  exact W.trans (W.toWalkCore.foldl _ (fun s e => W.processEvent e s) _ _) (W.toWalkCore.signalRound _)

theorem runCalls (s : Fw σ) (h : List Call) : R s (runCalls ρ s h) := by
  unfold Mb.runCalls
  exact W.toWalkCore.foldl _ (fun s (c : Call) => W.triggerEvents c.1 c.2 s) _ _

end Walk

/-- `Run` is a walker: every call is a run of primitive steps -/
theorem walkRun : Walk ρ (Run (σ := σ)) where
  refl := Run.refl
  trans := Run.trans
  transition j ev s _ := Run.ofReach (transition_reach ρ FUEL j ev s)
  decrement j s _ := Run.ofReach (decrementLimit_reach ρ j s)
  setG s g' := Run.single (Prim.setG s g')
  acct s j f hf := modRt_acct_run s j f hf
  fault s f := withFault_run s f
  signal s p := Run.single (Prim.step 0 (Step.signal s p))
  callStart s t := Run.single (Prim.callStart s t)

end Mb
