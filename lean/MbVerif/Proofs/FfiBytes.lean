/-
  Helper lemmas for C20: little-endian bytes, writes into a byte buffer at an offset,
  and the generic "what was written at pairwise disjoint leaves is read back" lemma.
-/
import MbVerif.Ffi

namespace Mb.Ffi

theorem leBytes_length (k n : Nat) : (leBytes k n).length = k := by
  induction k generalizing n with
  | zero => rfl
  | succ k ih => simp [leBytes, ih]

theorem leVal_leBytes (k n : Nat) : leVal (leBytes k n) = n % 256 ^ k := by
  induction k generalizing n with
  | zero => simp [leBytes, leVal, Nat.mod_one]
  | succ k ih =>
    simp only [leBytes, leVal, ih]
    have h : (UInt8.ofNat (n % 256)).toNat = n % 256 := by
      simp [UInt8.toNat_ofNat']
    rw [h, Nat.pow_succ, Nat.mul_comm (256 ^ k) 256, Nat.mod_mul]

theorem writeAt_length (buf : Bytes) (off : Nat) (seg : Bytes) (h : off + seg.length ≤ buf.length) :
    (writeAt buf off seg).length = buf.length := by
  simp [writeAt]; omega

theorem readAt_writeAt_same (buf : Bytes) (off : Nat) (seg : Bytes) (h : off + seg.length ≤ buf.length) :
    readAt (writeAt buf off seg) off seg.length = seg := by
  have h1 : (buf.take off).length = off := by simp; omega
  simp only [readAt, writeAt, List.append_assoc]
  rw [List.drop_append_of_le_length (by omega)]
  simp

theorem readAt_writeAt_disjoint (buf : Bytes) (off : Nat) (seg : Bytes) (off' n : Nat)
    (h : off + seg.length ≤ buf.length) (hd : off' + n ≤ off ∨ off + seg.length ≤ off') :
    readAt (writeAt buf off seg) off' n = readAt buf off' n := by
  apply List.ext_getElem?
  intro i
  simp only [readAt, writeAt, List.getElem?_take, List.getElem?_drop]
  by_cases hi : i < n
  · simp only [hi, if_true]
    have hlen : (buf.take off).length = off := by simp; omega
    rcases hd with hd | hd
    · rw [List.append_assoc, List.getElem?_append_left (by omega)]
      rw [List.getElem?_take]; simp; omega
    · rw [List.getElem?_append_right (by simp; omega)]
      simp only [List.getElem?_drop, List.length_append, hlen]
      congr 1; omega
  · simp [hi]

theorem writeLeaf_length (buf : Bytes) (l : Leaf) (v : Nat) (h : l.off + l.size ≤ buf.length) :
    (writeLeaf buf l v).length = buf.length := by
  unfold writeLeaf; apply writeAt_length; rw [leBytes_length]; exact h

theorem readLeaf_writeLeaf_same (buf : Bytes) (l : Leaf) (v : Nat) (h : l.off + l.size ≤ buf.length) :
    readLeaf (writeLeaf buf l v) l = v % 256 ^ l.size := by
  unfold readLeaf writeLeaf
  have := readAt_writeAt_same buf l.off (leBytes l.size v) (by rw [leBytes_length]; exact h)
  rw [leBytes_length] at this
  rw [this, leVal_leBytes]

theorem readLeaf_writeLeaf_disjoint (buf : Bytes) (l m : Leaf) (v : Nat) (h : l.off + l.size ≤ buf.length)
    (hd : m.off + m.size ≤ l.off ∨ l.off + l.size ≤ m.off) :
    readLeaf (writeLeaf buf l v) m = readLeaf buf m := by
  unfold readLeaf writeLeaf
  rw [readAt_writeAt_disjoint buf l.off (leBytes l.size v) m.off m.size (by rw [leBytes_length]; exact h)
    (by rw [leBytes_length]; exact hd)]

/-- all leaves of `ws` are in bounds -/
def inBounds (total : Nat) (ls : List Leaf) : Prop := ∀ l ∈ ls, l.off + l.size ≤ total

/-- `m` does not overlap any leaf of `ls` -/
def disjointFrom (m : Leaf) (ls : List Leaf) : Prop :=
  ∀ l ∈ ls, m.off + m.size ≤ l.off ∨ l.off + l.size ≤ m.off

theorem leavesOK_cons {total : Nat} {l : Leaf} {ls : List Leaf} (h : leavesOK total (l :: ls) = true) :
    l.off + l.size ≤ total ∧ disjointFrom l ls ∧ leavesOK total ls = true := by
  simp only [leavesOK, Bool.and_eq_true, decide_eq_true_eq, List.all_eq_true, Bool.or_eq_true] at h
  refine ⟨h.1.1, ?_, h.2⟩
  intro m hm
  have := h.1.2 m hm
  omega

theorem leavesOK_inBounds {total : Nat} {ls : List Leaf} (h : leavesOK total ls = true) : inBounds total ls := by
  induction ls with
  | nil => intro l hl; cases hl
  | cons a ls ih =>
    obtain ⟨h1, _, h3⟩ := leavesOK_cons h
    intro l hl
    cases hl with
    | head => exact h1
    | tail _ hl => exact ih h3 l hl

theorem writeAll_length (buf : Bytes) (ws : List (Leaf × Nat)) (h : inBounds buf.length (ws.map (·.1))) :
    (writeAll buf ws).length = buf.length := by
  induction ws generalizing buf with
  | nil => rfl
  | cons w ws ih =>
    have hw : w.1.off + w.1.size ≤ buf.length := h w.1 (by simp)
    have hl := writeLeaf_length buf w.1 w.2 hw
    simp only [writeAll, List.foldl_cons]
    have := ih (writeLeaf buf w.1 w.2) (by
      intro l hl'; rw [hl]; exact h l (by simp at hl' ⊢; right; exact hl'))
    simp only [writeAll] at this
    rw [this, hl]

/-- later writes at leaves disjoint from `m` do not change what is read at `m` -/
theorem readLeaf_writeAll_disjoint (buf : Bytes) (ws : List (Leaf × Nat)) (m : Leaf)
    (hb : inBounds buf.length (ws.map (·.1))) (hd : disjointFrom m (ws.map (·.1))) :
    readLeaf (writeAll buf ws) m = readLeaf buf m := by
  induction ws generalizing buf with
  | nil => rfl
  | cons w ws ih =>
    have hw : w.1.off + w.1.size ≤ buf.length := hb w.1 (by simp)
    have hl := writeLeaf_length buf w.1 w.2 hw
    simp only [writeAll, List.foldl_cons]
    have := ih (writeLeaf buf w.1 w.2)
      (by intro l hl'; rw [hl]; exact hb l (by simp at hl' ⊢; right; exact hl'))
      (by intro l hl'; exact hd l (by simp at hl' ⊢; right; exact hl'))
    simp only [writeAll] at this
    rw [this]
    apply readLeaf_writeLeaf_disjoint _ _ _ _ hw
    have := hd w.1 (by simp)
    omega

/-- GENERIC ROUND TRIP: values written at pairwise disjoint, in-bounds leaves are read back
    (modulo the width of the leaf) -/
theorem readLeaf_writeAll (buf : Bytes) (ws : List (Leaf × Nat))
    (hok : leavesOK buf.length (ws.map (·.1)) = true) :
    (ws.map (·.1)).map (readLeaf (writeAll buf ws)) = ws.map (fun w => w.2 % 256 ^ w.1.size) := by
  induction ws generalizing buf with
  | nil => rfl
  | cons w ws ih =>
    simp only [List.map_cons] at hok
    obtain ⟨h1, h2, h3⟩ := leavesOK_cons hok
    have hl := writeLeaf_length buf w.1 w.2 h1
    simp only [List.map_cons, writeAll, List.foldl_cons]
    have hrest := ih (writeLeaf buf w.1 w.2) (by rw [hl]; exact h3)
    simp only [writeAll] at hrest
    rw [hrest]
    congr 1
    have := readLeaf_writeAll_disjoint (writeLeaf buf w.1 w.2) ws w.1
      (by rw [hl]; exact leavesOK_inBounds h3) h2
    simp only [writeAll] at this
    rw [this, readLeaf_writeLeaf_same _ _ _ h1]

end Mb.Ffi
