/-
  C14: from the counts of the stream of an exact run (`sim_exact_counts`) to the property as the
  monitor states it (`C14.holds`): sorted lists of observed times against sorted lists of
  expected times.
-/
import MbVerif.Proofs.SimExact
import MbVerif.Proofs.SimMatch
import MbVerif.Spec.C14

namespace Mb.Sim
open Mb Mb.SimSpec

/-! ### sorted lists are determined by their counts -/

theorem perm_of_counts {A B : List Int} (h : ∀ p : Int → Bool, A.countP p = B.countP p) : A.Perm B := by
  rw [List.perm_iff_count]
  intro a
  exact h (· == a)

theorem asc_eq_of_perm {A B : List Int} (hA : A.Pairwise (· ≤ ·)) (hB : B.Pairwise (· ≤ ·)) (h : A.Perm B) : A = B :=
  List.Perm.eq_of_pairwise (le := (· ≤ ·)) (fun a b _ _ h1 h2 => by omega) hA hB h

theorem sortInts_perm (l : List Int) : (sortInts l).Perm l :=
  perm_of_counts (fun p => sortInts_countP p l)

theorem sortInts_of_counts {A B : List Int} (h : ∀ p : Int → Bool, A.countP p = B.countP p) :
    sortInts A = sortInts B :=
  asc_eq_of_perm (sortInts_asc A) (sortInts_asc B)
    ((sortInts_perm A).trans ((perm_of_counts h).trans (sortInts_perm B).symm))

theorem sortInts_map_add (d : Int) (l : List Int) : sortInts (l.map (· + d)) = (sortInts l).map (· + d) := by
  apply asc_eq_of_perm (sortInts_asc _)
  · rw [List.pairwise_map]
    exact (sortInts_asc l).imp (by intro a b hab; omega)
  · exact (sortInts_perm _).trans ((sortInts_perm l).map (· + d)).symm

/-! ### `firstBase` is the first base time of the parsed queue -/

theorem foldl_min_spec : ∀ (r : List Int) (x m : Int), m ∈ x :: r → (∀ y ∈ x :: r, m ≤ y) → r.foldl min x = m := by
  intro r
  induction r with
  | nil =>
    intro x m hm _
    simp only [List.mem_singleton] at hm
    simp [hm]
  | cons z r ih =>
    intro x m hm hall
    simp only [List.foldl_cons]
    apply ih
    · simp only [List.mem_cons] at hm ⊢
      have hx := hall x (by simp)
      have hz := hall z (by simp)
      rcases hm with hm | hm | hm
      · left; omega
      · left; omega
      · right; exact hm
    · intro y hy
      simp only [List.mem_cons] at hy
      rcases hy with hy | hy
      · have hx := hall x (by simp)
        have hz := hall z (by simp)
        omega
      · exact hall y (by simp [hy])

theorem firstBase_eq {trace : List TraceLine} {delay : Nat} {t0 : Int}
    (h : (parseTrace trace delay).firstTime = some t0) : firstBase trace delay = t0 := by
  obtain ⟨hs1, hs2⟩ := parseTrace_sides trace delay
  have hside := side_congr hs1 hs2
  have hroute : ∀ e ∈ trace.map (nsOf delay), route e = .base := by
    intro e he
    simp only [List.mem_map] at he
    obtain ⟨l, _, hl⟩ := he
    subst hl
    unfold nsOf route; cases l.2 <;> rfl
  have hord : (parseTrace trace delay).Ord := by
    intro c qi; rw [hside]; exact pushAll_ord _ _ empty_ord c qi
  have hemp : ∀ c qi, qi ≠ .base → (((parseTrace trace delay).side c).heap qi).data = [] := by
    intro c qi hq
    rw [hside, pushAll_heap_other _ _ c qi hroute hq]
    cases c <;> cases qi <;> first | rfl | exact absurd rfl hq
  obtain ⟨hmin, cm, rm, hrm, hrt⟩ := firstTime_min hord hemp h
  -- every line's event is not before `t0`
  have hz : tcount (fun e => decide (e.time < t0)) (parseTrace trace delay) = 0 := by
    apply tcount_zero_of_all
    intro c qi e he
    have := hmin c qi e he
    simp; omega
  rw [tcount_congr _ hs1 hs2, pushAll_tcount, tcount_empty, Nat.zero_add, List.countP_eq_zero] at hz
  -- `t0` is the time of a line's event
  have hmem : rm ∈ trace.map (nsOf delay) := by
    rw [hside] at hrm
    exact pushAll_allE (p := fun e => e ∈ trace.map (nsOf delay)) _ _
      (by intro c qi e he; cases c <;> cases qi <;> cases he) (fun e he => he) cm .base rm hrm
  have htimes : ∀ l : TraceLine, (nsOf delay l).time = if l.2 then (l.1 : Int) else (l.1 : Int) - delay := by
    intro l; unfold nsOf; cases l.2 <;> rfl
  unfold firstBase
  cases htr : trace with
  | nil => rw [htr] at hmem; simp at hmem
  | cons l0 ls =>
    simp only [List.map_cons]
    apply foldl_min_spec
    · simp only [List.mem_map] at hmem
      obtain ⟨l, hl, hle⟩ := hmem
      have : t0 = if l.2 then (l.1 : Int) else (l.1 : Int) - delay := by rw [← hrt, ← hle, htimes]
      rw [htr] at hl
      rw [this]
      simp only [List.mem_cons] at hl
      rcases hl with hl | hl
      · subst hl; simp
      · simp only [List.mem_cons, List.mem_map]
        right; exact ⟨l, hl, rfl⟩
    · intro y hy
      have hy' : y ∈ (trace.map (nsOf delay)).map (·.time) := by
        rw [htr]
        simp only [List.map_cons, List.mem_cons, List.mem_map, List.map_map] at hy ⊢
        rcases hy with hy | ⟨l, hl, hy⟩
        · left; rw [hy, htimes]
        · right; exact ⟨l, hl, by rw [← hy]; simp [htimes]⟩
      simp only [List.mem_map] at hy'
      obtain ⟨e, he, hey⟩ := hy'
      have := hz e (List.mem_map.2 he)
      simp at this
      omega

/-! ### from the stream to the observed trace -/

/-- the observed trace of a stream: kept events, on the observation time axis -/
def obsOf (a : Args) (t0 : Int) (S : List StepRec) : List SimEvent :=
  ((S.filter a.keep).map (·.ev)).map (SimEvent.shift t0)

theorem timesOf_eq (S : List StepRec) (a : Args) (t0 : Int) (c : Bool) (ev : TEvent) (B : List Int)
    (hkeep : ∀ r ∈ S, (r.ev.client == c && r.ev.event == ev) = true → a.keep r = true)
    (hcnt : ∀ p : Int → Bool, S.countP (fun r => (r.ev.client == c && r.ev.event == ev) && p r.ev.time) = B.countP p) :
    C14.timesOf (obsOf a t0 S) c ev = sortInts (B.map (· - t0)) := by
  unfold C14.timesOf obsOf
  apply sortInts_of_counts
  intro p
  rw [List.countP_map, List.countP_map, ← hcnt (p ∘ (· - t0))]
  simp only [List.countP_filter, List.countP_map]
  apply List.countP_congr
  intro r hr
  have := hkeep r hr
  cases hF : (r.ev.client == c && r.ev.event == ev)
  · simp [SimEvent.shift, Function.comp, hF]
  · simp [SimEvent.shift, Function.comp, hF, this hF]

theorem sortedByTime_of_pairwise : ∀ (l : List SimEvent), l.Pairwise (fun x y => x.time ≤ y.time) → sortedByTime l = true := by
  intro l
  induction l with
  | nil => intro _; rfl
  | cons a r ih =>
    intro h
    cases r with
    | nil => rfl
    | cons b r' =>
      have h1 := List.pairwise_cons.1 h
      simp only [sortedByTime, Bool.and_eq_true, decide_eq_true_eq]
      exact ⟨h1.1 b (by simp), ih h1.2⟩

theorem map_sub_eq_add (l : List Int) (d : Int) : l.map (· - d) = l.map (· + (-d)) := by
  apply List.map_congr_left; intro x _; omega

/-- **From counts to the monitor's predicate.** -/
theorem holds_of_counts (S : List StepRec) (a : Args) (t0 : Int) (trace : List TraceLine) (delay : Nat)
    (hflag : ∀ r ∈ S, r.net = isNetwork r.ev) (hpk : ∀ r ∈ S, pktOK r.ev = true)
    (hsorted : S.Pairwise (fun x y => x.ev.time ≤ y.ev.time))
    (hcounts : ∀ c (p : Int → Bool), S.countP (fun r => tsQ c p r.ev) = (Lof trace delay c).countP p ∧
      S.countP (fun r => trQ c p r.ev) = (Lof trace delay c).countP (fun x => p (x + delay)))
    (hfb : firstBase trace delay = t0) :
    C14.holds trace delay a.onlyClientEvents (obsOf a t0 S) = true := by
  -- network events of a visible side are kept by the filters
  have hkeep : ∀ (c : Bool) (ev : TEvent), (ev = .tunnelSent ∨ ev = .tunnelRecv) → (a.onlyClientEvents = false ∨ c = true) →
      ∀ r ∈ S, (r.ev.client == c && r.ev.event == ev) = true → a.keep r = true := by
    intro c ev hev hvis r hr hF
    simp only [Bool.and_eq_true, beq_iff_eq] at hF
    have hn : r.net = true := by
      rw [hflag r hr]
      unfold isNetwork
      rcases hev with hev | hev <;> simp [hF.2, hev]
    unfold Args.keep keep
    rw [hn, hF.1]
    rcases hvis with hvis | hvis <;> simp [hvis]
  have hTS : ∀ (c : Bool), (a.onlyClientEvents = false ∨ c = true) →
      C14.timesOf (obsOf a t0 S) c .tunnelSent = sortInts ((Lof trace delay c).map (· - t0)) := by
    intro c hvis
    apply timesOf_eq S a t0 c .tunnelSent _ (hkeep c _ (Or.inl rfl) hvis)
    intro p
    exact (hcounts c p).1
  have hTR : ∀ (c : Bool), (a.onlyClientEvents = false ∨ c = true) →
      C14.timesOf (obsOf a t0 S) c .tunnelRecv = sortInts (((Lof trace delay (!c)).map (· + (delay : Int))).map (· - t0)) := by
    intro c hvis
    apply timesOf_eq S a t0 c .tunnelRecv _ (hkeep c _ (Or.inr rfl) hvis)
    intro p
    rw [List.countP_map]
    refine Eq.trans ?_ (hcounts (!c) p).2
    apply List.countP_congr
    intro r _
    simp [trQ]
  have hS : C14.expSent trace delay = sortInts ((sTimes trace).map (· - t0)) := by
    unfold C14.expSent sTimes; rw [hfb, List.map_map]; rfl
  have hR : C14.expRecv trace delay = sortInts ((rTimes trace).map (· - t0)) := by
    unfold C14.expRecv rTimes; rw [hfb, List.map_map]; rfl
  have hLt : Lof trace delay true = sTimes trace := rfl
  have hLf : Lof trace delay false = (rTimes trace).map (· - (delay : Int)) := rfl
  unfold C14.holds
  simp only [Bool.and_eq_true, Bool.or_eq_true, beq_iff_eq]
  refine ⟨⟨⟨⟨?_, ?_⟩, ?_⟩, ?_⟩, ?_⟩
  · -- only packets
    unfold C14.onlyPackets obsOf
    rw [List.all_eq_true]
    intro e he
    simp only [List.mem_map, List.mem_filter] at he
    obtain ⟨e1, ⟨r, ⟨hr, _⟩, hre⟩, hse⟩ := he
    have := hpk r hr
    rw [hre] at this
    rw [← hse]
    simpa [pktOK, Bool.and_assoc, SimEvent.shift] using this
  · rw [hTS true (Or.inr rfl), hS, hLt]
  · rw [hTR true (Or.inr rfl), hR]
    show sortInts (((Lof trace delay false).map (· + (delay : Int))).map (· - t0)) = _
    rw [hLf]
    congr 2
    rw [List.map_map]
    conv => rhs; rw [← List.map_id (rTimes trace)]
    apply List.map_congr_left; intro x _; simp
  · cases hoc : a.onlyClientEvents with
    | true => left; rfl
    | false =>
      right
      constructor
      · rw [hTS false (Or.inl hoc), hR, hLf, map_sub_eq_add (sortInts _) (delay : Int), ← sortInts_map_add]
        congr 1
        rw [List.map_map, List.map_map]
        apply List.map_congr_left; intro x _; simp; omega
      · rw [hTR false (Or.inl hoc), hS, ← sortInts_map_add]
        show sortInts (((Lof trace delay true).map (· + (delay : Int))).map (· - t0)) = _
        rw [hLt]
        congr 1
        rw [List.map_map, List.map_map]
        apply List.map_congr_left; intro x _; simp; omega
  · apply sortedByTime_of_pairwise
    unfold obsOf
    rw [List.pairwise_map, List.pairwise_map]
    have := List.Pairwise.filter a.keep hsorted
    exact this.imp (by intro x y hxy; simp [SimEvent.shift]; omega)

/-- the static window bound from the bound on the counts a window returns when fed the list -/
theorem static_of_feed (W lim : Nat) (L : List Int) (hasc : Asc L)
    (hfeed : ∀ c ∈ feedCounts ⟨W, []⟩ L, c ≤ lim) :
    ∀ t ∈ L, L.countP (fun x => decide (x ≤ t) && inWin W t x) ≤ lim := by
  intro t ht
  obtain ⟨P, R, hL⟩ := List.append_of_mem ht
  apply static_window_bound W lim L hasc ?_ t R P hL
  intro P1 y R1 hL1
  apply hfeed
  rw [feedCounts_empty W L hasc]
  exact (mem_specCounts L [] _).2 ⟨P1, y, R1, hL1, by simp⟩

section
variable {σ : Type} (ρ : Oracle σ)

/-- **The identity, composed** (in terms of the window counts of the trace): see
    `C14_identity` in Props/C14.lean -/
theorem sim_identity (budget : Nat) (trace : List TraceLine) (delay lim : Nat) (a : Args) (orc : σ)
    (hnet : a.network = ⟨delay, none⟩) (hlim : (parseTrace trace delay).maxPps = some lim)
    (hs : Asc (sTimes trace)) (hr : Asc (rTimes trace))
    (hfs : ∀ c ∈ feedCounts ⟨Gen.SIM_BOTTLENECK_WINDOW_NS, []⟩ (sTimes trace), c ≤ lim)
    (hfr : ∀ c ∈ feedCounts ⟨Gen.SIM_BOTTLENECK_WINDOW_NS, []⟩ ((rTimes trace).map (· + (-(delay : Int)))), c ≤ lim)
    (hB : ∀ l ∈ trace, ((l.1 : Nat) : Int) + 2 * (delay : Int) ≤ durMax)
    (hstop : (simAdvanced ρ budget [] [] (parseTrace trace delay) a orc).stop = .noNormal) :
    C14.holds trace delay a.onlyClientEvents
      ((simAdvanced ρ budget [] [] (parseTrace trace delay) a orc).trace.map
        (SimEvent.shift ((parseTrace trace delay).firstTime.getD 0))) = true := by
  have hstat : ∀ c t, t ∈ Lof trace delay c →
      (Lof trace delay c).countP (fun x => decide (x ≤ t) && inWin Gen.SIM_BOTTLENECK_WINDOW_NS t x) ≤ lim := by
    intro c
    cases c
    · show ∀ t ∈ (rTimes trace).map (· - (delay : Int)), _
      rw [map_sub_eq_add]
      apply static_of_feed _ _ _ ?_ hfr
      unfold Asc
      rw [List.pairwise_map]
      exact hr.imp (by intro x y hxy; omega)
    · exact static_of_feed _ _ _ hs hfs
  have hcounts := sim_exact_counts ρ budget trace delay lim a orc hnet hlim hB hstat hstop
  unfold simAdvanced at hstop hcounts ⊢
  cases hi : initState ρ [] [] (parseTrace trace delay) a orc with
  | error f => simp [hi] at hstop
  | ok st =>
    simp only [hi] at hstop hcounts ⊢
    rw [finish_stop] at hstop
    rw [finish_stream] at hcounts
    obtain ⟨_, _, hft⟩ := initState_xinv ρ hnet hlim hB hi
    have hn := initState_nomach ρ hi
    have hall := loop_nomach ρ a (loopFuel a budget) st 0 0 hn
    have hgood := loop_stream_sorted ρ a (loopFuel a budget) st 0 0
    rw [finish_trace a _ hgood.2, hstop]
    simp only [Stop.isFault, Bool.false_eq_true, if_false]
    rw [hft]
    exact holds_of_counts _ a st.now trace delay (fun r hr => (hgood.1 r hr).2) hall hgood.2 hcounts (firstBase_eq hft)

end
end Mb.Sim
