/-
  C09: no machine receives more than one Signal per call (counted on the ghost log).
-/
import MbVerif.Proofs.WorkBound

namespace Mb
variable {σ : Type} (ρ : Oracle σ)

/-- weight 1 on the Signal deliveries to machine `mi0` -/
def μSig (mi0 : Nat) : LogEntry → Nat
  | .trans m ev _ => if m = mi0 ∧ ev = Gen.EV_Signal then 1 else 0
  | _ => 0

theorem μSig_transOnly (mi0 : Nat) : TransOnly (μSig mi0) := by
  intro e he
  cases e with
  | trans m ev st => exact absurd rfl (he m ev st)
  | _ => rfl

/-- Signal events delivered to machine `mi0` according to the log -/
def sigOf (mi0 : Nat) (s : Fw σ) : Nat := wsum (μSig mi0) s.log

theorem toNat_signal (ev : Event) : ev.toNat = Gen.EV_Signal ↔ ev = .signal := by
  cases ev <;> decide

theorem sig_transition (mi0 j : Nat) (ev : Event) (s : Fw σ) :
    sigOf mi0 (transition ρ FUEL j ev s).1 ≤ sigOf mi0 s + (if j = mi0 ∧ ev = .signal then 1 else 0) := by
  have := (count_main ρ (μSig_transOnly mi0) 0 FUEL).1 j ev (if j = mi0 ∧ ev = .signal then 1 else 0) s
    (fun st => by
      simp only [μSig, toNat_signal]
      split <;> simp_all)
    (fun st => by
      simp only [μSig]
      have : ¬ (Event.counterZero.toNat = Gen.EV_Signal) := by decide
      simp [this])
  unfold sigOf; omega

theorem sig_transition_other (mi0 j : Nat) (ev : Event) (s : Fw σ) (h : ev ≠ .signal) :
    sigOf mi0 (transition ρ FUEL j ev s).1 ≤ sigOf mi0 s := by
  have := sig_transition ρ mi0 j ev s
  simp only [h, and_false, if_false] at this
  exact this

theorem sig_decrement (mi0 j : Nat) (s : Fw σ) : sigOf mi0 (decrementLimit ρ j s) ≤ sigOf mi0 s := by
  unfold decrementLimit
  have hμ := μSig_transOnly mi0
  cases hr : s.rt[j]? with
  | none => simp only []; unfold sigOf; rw [(quiet_withFault (μ := μSig mi0) s _).w]
  | some r =>
  cases hm : s.machines[j]? with
  | none => simp only []; unfold sigOf; rw [(quiet_withFault (μ := μSig mi0) s _).w]
  | some m =>
  simp only []
  generalize (if r.stateLimit > 0 then r.stateLimit - 1 else r.stateLimit) = lim
  have q1 : QuietLog (μSig mi0) s ((s.modRt j (fun r' => { r' with stateLimit := lim })).push (.limit j lim true)) :=
    (quiet_modRt s j _).trans (quiet_push hμ _ _ (fun _ _ _ h => by cases h))
  generalize (s.modRt j (fun r' => { r' with stateLimit := lim })).push (.limit j lim true) = s1 at q1 ⊢
  have h1 : sigOf mi0 s1 ≤ sigOf mi0 s := by unfold sigOf; rw [q1.w]
  cases hst : m.states[r.currentState]? with
  | none => simp only []; unfold sigOf at *; rw [(quiet_withFault (μ := μSig mi0) s1 _).w]; exact h1
  | some st =>
  simp only []
  cases hact : st.action with
  | none => exact h1
  | some a =>
    simp only []
    split
    · split
      · unfold sigOf at *; rw [(quiet_withFault (μ := μSig mi0) s1 _).w]; exact h1
      · have := sig_transition_other ρ mi0 j .limitReached ({ s1 with actions := s1.actions.set j none } : Fw σ) (by decide)
        have e : sigOf mi0 ({ s1 with actions := s1.actions.set j none } : Fw σ) = sigOf mi0 s := by
          unfold sigOf; exact q1.w
        omega
    · exact h1

theorem sig_fold0 {α : Type} (mi0 : Nat) (F : Fw σ → α → Fw σ) (h : ∀ s j, sigOf mi0 (F s j) ≤ sigOf mi0 s)
    (l : List α) (s : Fw σ) : sigOf mi0 (l.foldl F s) ≤ sigOf mi0 s := by
  induction l generalizing s with
  | nil => exact Nat.le_refl _
  | cons a l ih => exact Nat.le_trans (ih (F s a)) (h s a)

/-- processing an external event delivers no Signal to anybody -/
theorem sig_processEvent (mi0 : Nat) (e : TEvent) (s : Fw σ) : sigOf mi0 (processEvent ρ e s) ≤ sigOf mi0 s := by
  have hall : ∀ (ev : Event) (s' : Fw σ), ev ≠ .signal → sigOf mi0 (transitionAll ρ ev s') ≤ sigOf mi0 s' := by
    intro ev s' hev
    unfold transitionAll
    exact sig_fold0 mi0 _ (fun s j => sig_transition_other ρ mi0 j ev s hev) _ _
  have hTD : ∀ (j : Nat) (ev : Event) (s' : Fw σ) (c : Fw σ × Bool → Bool), ev ≠ .signal →
      sigOf mi0 (if c (transition ρ FUEL j ev s') = true then decrementLimit ρ j (transition ρ FUEL j ev s').1
        else (transition ρ FUEL j ev s').1) ≤ sigOf mi0 s' := by
    intro j ev s' c hev
    have h := sig_transition_other ρ mi0 j ev s' hev
    split
    · exact Nat.le_trans (sig_decrement ρ mi0 j _) h
    · exact h
  unfold processEvent
  cases e with
  | normalRecv => simp only []; exact hall _ s (by decide)
  | paddingRecv => simp only []; exact hall _ s (by decide)
  | tunnelRecv => simp only []; exact hall _ s (by decide)
  | tunnelSent => simp only []; exact hall _ s (by decide)
  | normalSent =>
    simp only []
    refine sig_fold0 mi0 _ (fun s j => ?_) _ _
    have := sig_transition_other ρ mi0 j .normalSent
      (s.modRt j (fun r => { r with acct := { r.acct with normalSent := r.acct.normalSent + 1 } })) (by decide)
    unfold sigOf at this ⊢
    rw [(quiet_modRt (μ := μSig mi0) s j _).w] at this
    exact this
  | paddingSent mi =>
    simp only []
    split
    · exact Nat.le_refl _
    · have := hTD mi .paddingSent
        (({ s with g := { s.g with paddingSent := s.g.paddingSent + 1 } } : Fw σ).modRt mi
          (fun r => { r with acct := { r.acct with paddingSent := r.acct.paddingSent + 1 } }))
        (fun p => !p.2 && notEnded p.1 mi) (by decide)
      refine Nat.le_trans this ?_
      unfold sigOf; rw [(quiet_modRt (μ := μSig mi0) _ mi _).w]
  | blockingBegin m =>
    simp only []
    refine Nat.le_trans (sig_fold0 mi0 _ (fun s j => hTD j .blockingBegin s
      (fun p => !p.2 && notEnded p.1 j && j == m) (by decide)) _ _) ?_
    split <;> exact Nat.le_refl _
  | blockingEnd =>
    simp only []
    generalize (if s.g.blockingActive then durSince s.g.now s.g.blockingStarted else 0) = blocked
    refine Nat.le_trans (sig_fold0 mi0 _ (fun s' j => ?_) _ _) ?_
    · have h := sig_transition_other ρ mi0 j .blockingEnd
        (if blocked ≠ 0 then
          match s'.rt[j]? with
          | none => s'.withFault .oob
          | some r =>
            (if r.acct.blockingDur + blocked > durMax then s'.withFault .durOverflow else s').modRt j
              (fun r => { r with acct := { r.acct with blockingDur := r.acct.blockingDur + blocked } })
         else s') (by decide)
      refine Nat.le_trans h ?_
      unfold sigOf
      split
      · cases s'.rt[j]? with
        | none => simp
        | some r => simp only []; split <;> simp
      · exact Nat.le_refl _
    · unfold sigOf
      split
      · split <;> simp
      · exact Nat.le_refl _
  | timerBegin mi =>
    simp only []
    split
    · exact Nat.le_refl _
    · exact hTD mi .timerBegin s (fun p => !p.2 && notEnded p.1 mi) (by decide)
  | timerEnd mi =>
    simp only []
    split
    · exact Nat.le_refl _
    · exact sig_transition_other ρ mi0 mi .timerEnd s (by decide)

/-- a list without duplicates contains `mi0` at most once -/
theorem sum_indicator_nodup (mi0 : Nat) (l : List Nat) (h : l.Nodup) :
    (l.map (fun j => if j = mi0 then 1 else 0)).sum ≤ (if mi0 ∈ l then 1 else 0) := by
  induction l with
  | nil => simp
  | cons a l ih =>
    rw [List.nodup_cons] at h
    have := ih h.2
    simp only [List.map_cons, List.sum_cons, List.mem_cons]
    by_cases ha : a = mi0
    · subst ha
      have hn : ¬ a ∈ l := h.1
      simp only [hn, if_false] at this
      simp; omega
    · have hne : ¬ mi0 = a := fun h' => ha h'.symm
      simp only [ha, if_false, hne, false_or]
      omega

/-- The delivery round delivers at most one Signal to any machine. -/
theorem sig_signalRound (mi0 : Nat) (s : Fw σ) : sigOf mi0 (signalRound ρ s) ≤ sigOf mi0 s + 1 := by
  have hfold : ∀ (excluded : Option Nat) (s' : Fw σ) (n : Nat),
      sigOf mi0 ((C09.firstRound n excluded).foldl (fun s mi => (transition ρ FUEL mi .signal s).1) s') ≤
        sigOf mi0 s' + (if mi0 ∈ C09.firstRound n excluded then 1 else 0) := by
    intro excluded s' n
    have := wsum_foldl (μ := μSig mi0) (fun s mi => (transition ρ FUEL mi .signal s).1)
      (fun j => if j = mi0 then 1 else 0)
      (fun s j => by
        have := sig_transition ρ mi0 j .signal s
        simp only [and_true] at this
        exact this) (C09.firstRound n excluded) s'
    have hs := sum_indicator_nodup mi0 _ (C09.sr_targets_nodup n excluded)
    unfold sigOf; omega
  cases hsig : s.signalPending with
  | none => rw [C09.sr_round_none ρ s hsig]; omega
  | some sig =>
    cases sig with
    | all =>
      rw [C09.sr_round_all ρ s hsig]
      simp only []
      have h := hfold none ({ s with signalPending := none } : Fw σ) s.rt.length
      have e0 : sigOf mi0 ({ s with signalPending := none } : Fw σ) = sigOf mi0 s := rfl
      generalize ((C09.firstRound s.rt.length none).foldl (fun s mi => (transition ρ FUEL mi .signal s).1)
        ({ s with signalPending := none } : Fw σ)) = s2 at h ⊢
      have hb : (if mi0 ∈ C09.firstRound s.rt.length none then 1 else 0) ≤ 1 := by split <;> omega
      cases hs2 : s2.signalPending with
      | none => simp only []; omega
      | some _ =>
        simp only []
        have : sigOf mi0 ({ s2 with signalPending := none } : Fw σ) = sigOf mi0 s2 := rfl
        omega
    | allExcept x =>
      rw [C09.sr_round_lone ρ s x hsig]
      simp only []
      have h := hfold (some x) ({ s with signalPending := none } : Fw σ) s.rt.length
      have e0 : sigOf mi0 ({ s with signalPending := none } : Fw σ) = sigOf mi0 s := rfl
      generalize ((C09.firstRound s.rt.length (some x)).foldl (fun s mi => (transition ρ FUEL mi .signal s).1)
        ({ s with signalPending := none } : Fw σ)) = s2 at h ⊢
      cases hs2 : s2.signalPending with
      | none =>
        simp only []
        have hb : (if mi0 ∈ C09.firstRound s.rt.length (some x) then 1 else 0) ≤ 1 := by split <;> omega
        omega
      | some _ =>
        simp only []
        have h2 := sig_transition ρ mi0 x .signal ({ s2 with signalPending := none } : Fw σ)
        have e2 : sigOf mi0 ({ s2 with signalPending := none } : Fw σ) = sigOf mi0 s2 := rfl
        simp only [and_true] at h2
        by_cases hx : x = mi0
        · subst hx
          have hn : ¬ x ∈ C09.firstRound s.rt.length (some x) := C09.sr_excluded_not_visited _ _
          simp only [hn, if_false] at h
          simp only [if_true] at h2
          omega
        · simp only [hx, if_false] at h2
          have hb : (if mi0 ∈ C09.firstRound s.rt.length (some x) then 1 else 0) ≤ 1 := by split <;> omega
          omega

/-- In one call no machine receives more than one Signal. -/
theorem sig_triggerEvents (mi0 : Nat) (es : List TEvent) (t : Int) (s : Fw σ) :
    sigOf mi0 (triggerEvents ρ es t s) ≤ sigOf mi0 s + 1 := by
  unfold triggerEvents
  have h1 : sigOf mi0 (es.foldl (fun s e => processEvent ρ e s) (s.callStart t)) ≤ sigOf mi0 (s.callStart t) :=
    sig_fold0 mi0 _ (fun s e => sig_processEvent ρ mi0 e s) _ _
  have h2 := sig_signalRound ρ mi0 (es.foldl (fun s e => processEvent ρ e s) (s.callStart t))
  have e0 : sigOf mi0 (s.callStart t) = sigOf mi0 s := rfl
  omega

end Mb
