/-
  Promptness of rand's `UniformFloat::<f64>::sample_single` retry loop (C13).

  Main results
  * `roundHalfEven_nearest`, `rep_not_between`, `rne_nearest`: `rne` returns a representable
    value that is at least as close to its argument as every other representable value.
  * `rne_lt_of_lt_mid`: for representable `a < b`, every `y` strictly below the midpoint
    `(a+b)/2` rounds strictly below `b`.
  * `rne_le_bound`: one binary64 rounding of `q ≥ 0` is at most `q·(1+2^-53) + 2^-1075`
    (relative error in the normal range, half a subnormal ulp below it).
  * `quarter_prod_lt_half`: for doubles `a < b` and `0 ≤ v ≤ 1/4`,
    `fl(v · fl(b − a)) < (b − a)/2`.
  * `uniformF64_quarter`: for a validated range with `low ≠ high`, every word whose unit value
    is `≤ 1/4` ends the loop at once.
  * `unit64_word`: the unit value of the word `m·2^12 + r`.
-/
import MbVerif.Proofs.Sample

namespace Mb
namespace Fp

/-! ### `rne` returns a nearest representable value -/

/-- `roundHalfEven s` is an integer nearest to `s` -/
theorem roundHalfEven_nearest (s : ℚ) (N : Int) :
    |(roundHalfEven s : ℚ) - s| ≤ |(N : ℚ) - s| := by
  have h1 : (s.floor : ℚ) ≤ s := Rat.floor_le s
  have h2 : s < (s.floor : ℚ) + 1 := by
    have : s.floor < s.floor + 1 := by omega
    have := Rat.floor_lt_iff.mp this
    push_cast at this; exact this
  -- distance from `s` to any integer is at least the distance to the nearer neighbour
  have hlo : N ≤ s.floor → s - (s.floor : ℚ) ≤ |(N : ℚ) - s| := by
    intro h
    have : (N : ℚ) ≤ (s.floor : ℚ) := by exact_mod_cast h
    rw [abs_sub_comm, abs_of_nonneg (by linarith)]; linarith
  have hhi : s.floor + 1 ≤ N → (s.floor : ℚ) + 1 - s ≤ |(N : ℚ) - s| := by
    intro h
    have : (s.floor : ℚ) + 1 ≤ (N : ℚ) := by exact_mod_cast h
    rw [abs_of_nonneg (by linarith)]; linarith
  have hcase : N ≤ s.floor ∨ s.floor + 1 ≤ N := by omega
  unfold roundHalfEven
  simp only []
  split
  · rename_i h
    rw [abs_sub_comm, abs_of_nonneg (by linarith)]
    rcases hcase with hc | hc
    · exact hlo hc
    · have := hhi hc; linarith
  · split
    · rename_i h3 h
      push_cast
      rw [abs_of_nonneg (by linarith)]
      rcases hcase with hc | hc
      · have := hlo hc; linarith
      · exact hhi hc
    · rename_i h3 h4
      have hr : s - (s.floor : ℚ) = 1 / 2 := le_antisymm (not_lt.mp h4) (not_lt.mp h3)
      split
      · rw [abs_sub_comm, abs_of_nonneg (by linarith)]
        rcases hcase with hc | hc
        · exact hlo hc
        · have := hhi hc; linarith
      · push_cast
        rw [abs_of_nonneg (by linarith)]
        rcases hcase with hc | hc
        · have := hlo hc; linarith
        · exact hhi hc

/-- no representable value lies strictly between two neighbouring grid points of the binade of
    `y` -/
theorem rep_not_between (p : Nat) (hp : 1 ≤ p) (emin : Int) {y f : ℚ} (hy : 0 < y)
    (hf : Rep p emin f) :
    f ≤ ((y / pow2 (expo p emin y)).floor : ℚ) * pow2 (expo p emin y) ∨
    (((y / pow2 (expo p emin y)).floor : ℚ) + 1) * pow2 (expo p emin y) ≤ f := by
  obtain ⟨m, e', he', hm, rfl⟩ := hf
  set e := expo p emin y with he
  set k := (y / pow2 e).floor with hk
  have hpe := pow2_pos e
  by_cases hle : e ≤ e'
  · -- `f` is an integer multiple of `2^e`
    have hd : 0 ≤ e' - e := by omega
    have hfe : (m : ℚ) * pow2 e' = ((m * (2 : Int) ^ (e' - e).toNat : Int) : ℚ) * pow2 e := by
      rw [show e' = (e' - e) + e by ring, pow2_add, pow2_nonneg_eq_intCast hd]
      push_cast
      rw [show e' - e + e - e = e' - e by ring]
      ring
    rw [hfe]
    set N : Int := m * (2 : Int) ^ (e' - e).toNat
    rcases (by omega : N ≤ k ∨ k + 1 ≤ N) with h | h
    · left
      exact mul_le_mul_of_nonneg_right (by exact_mod_cast h) hpe.le
    · right
      exact mul_le_mul_of_nonneg_right (by exact_mod_cast h) hpe.le
  · -- `f` is below the binade of `y`
    left
    have hlt : e' < e := by omega
    have hee : e = ilog2 y - ((p : Int) - 1) := by
      have : e = max (ilog2 y - ((p : Int) - 1)) emin := rfl
      omega
    have hpow : pow2 (ilog2 y) ≤ y := (ilog2_spec hy).1
    have hk1 : ((2 : Int) ^ (p - 1) : Int) ≤ k := by
      rw [hk]
      apply Rat.le_floor_iff.mpr
      rw [le_div_iff₀ hpe]
      have : (((2 : Int) ^ (p - 1) : Int) : ℚ) = pow2 (((p - 1 : Nat) : Int)) := by
        rw [pow2_nonneg_eq_intCast (by omega)]; simp
      rw [this, ← pow2_add]
      have : ((p - 1 : Nat) : Int) + e = ilog2 y := by omega
      rw [this]; exact hpow
    have hm2 : (m : ℚ) ≤ (((2 : Int) ^ p : Int) : ℚ) := by
      have : m < (2 : Int) ^ p := lt_of_le_of_lt (le_abs_self m) hm
      exact_mod_cast this.le
    have hpp : (((2 : Int) ^ p : Int) : ℚ) = pow2 (p : Int) := by
      rw [pow2_nonneg_eq_intCast (by omega)]; simp
    calc (m : ℚ) * pow2 e' ≤ pow2 (p : Int) * pow2 e' := by
          rw [← hpp]; exact mul_le_mul_of_nonneg_right hm2 (pow2_pos _).le
      _ = pow2 ((p : Int) + e') := (pow2_add _ _).symm
      _ ≤ pow2 (((p - 1 : Nat) : Int) + e) := pow2_le_pow2 (by omega)
      _ = pow2 ((p - 1 : Nat) : Int) * pow2 e := pow2_add _ _
      _ = (((2 : Int) ^ (p - 1) : Int) : ℚ) * pow2 e := by
          rw [pow2_nonneg_eq_intCast (by omega)]; simp
      _ ≤ (k : ℚ) * pow2 e := mul_le_mul_of_nonneg_right (by exact_mod_cast hk1) hpe.le

theorem rne_nearest_pos (p : Nat) (hp : 1 ≤ p) (emin : Int) {y f : ℚ} (hy : 0 < y)
    (hf : Rep p emin f) : |rne p emin y - y| ≤ |f - y| := by
  rw [rne_pos_eq p emin hy]
  have hbt := rep_not_between p hp emin hy hf
  set e := expo p emin y
  set s := y / pow2 e with hs
  have hpe := pow2_pos e
  have hys : y = s * pow2 e := by rw [hs]; field_simp
  have h1 : (s.floor : ℚ) ≤ s := Rat.floor_le s
  have h2 : s < (s.floor : ℚ) + 1 := by
    have : s.floor < s.floor + 1 := by omega
    have := Rat.floor_lt_iff.mp this
    push_cast at this; exact this
  have hL : |(roundHalfEven s : ℚ) * pow2 e - y| = |(roundHalfEven s : ℚ) - s| * pow2 e := by
    conv_lhs => rw [hys]
    rw [← sub_mul, abs_mul, abs_of_pos hpe]
  rw [hL]
  rcases hbt with h | h
  · have hn := roundHalfEven_nearest s s.floor
    have : |((s.floor : Int) : ℚ) - s| * pow2 e ≤ |f - y| := by
      rw [abs_sub_comm, abs_of_nonneg (by linarith), abs_sub_comm f y]
      have : f ≤ y := by rw [hys]; nlinarith
      rw [abs_of_nonneg (by linarith)]
      rw [hys]; nlinarith
    exact le_trans (mul_le_mul_of_nonneg_right hn hpe.le) this
  · have hn := roundHalfEven_nearest s (s.floor + 1)
    have : |((s.floor + 1 : Int) : ℚ) - s| * pow2 e ≤ |f - y| := by
      push_cast
      rw [abs_of_nonneg (by linarith)]
      have : y ≤ f := by rw [hys]; nlinarith
      rw [abs_of_nonneg (by linarith)]
      rw [hys]; nlinarith
    exact le_trans (mul_le_mul_of_nonneg_right hn hpe.le) this

/-- `rne p emin y` is at least as close to `y` as every representable value -/
theorem rne_nearest (p : Nat) (hp : 1 ≤ p) (emin : Int) {y f : ℚ} (hf : Rep p emin f) :
    |rne p emin y - y| ≤ |f - y| := by
  rcases lt_trichotomy y 0 with hy | hy | hy
  · have := rne_nearest_pos p hp emin (y := -y) (by linarith) hf.neg
    rw [rne_neg] at this
    have e1 : |-rne p emin y - -y| = |rne p emin y - y| := by
      rw [show -rne p emin y - -y = -(rne p emin y - y) by ring, abs_neg]
    have e2 : |-f - -y| = |f - y| := by
      rw [show -f - -y = -(f - y) by ring, abs_neg]
    rwa [e1, e2] at this
  · subst hy; rw [rne_zero]; simp
  · exact rne_nearest_pos p hp emin hy hf

/-- below the midpoint of two representable values rounding stays strictly below the upper one -/
theorem rne_lt_of_lt_mid (p : Nat) (hp : 1 ≤ p) (emin : Int) {a b y : ℚ} (ha : Rep p emin a)
    (hb : Rep p emin b) (hab : a < b) (hy : y < (a + b) / 2) : rne p emin y < b := by
  have hle : rne p emin y ≤ b := rne_le_of_le_rep p hp emin hb (by linarith)
  rcases lt_or_eq_of_le hle with h | h
  · exact h
  · exfalso
    have hn := rne_nearest p hp emin (y := y) ha
    rw [h, abs_of_nonneg (by linarith)] at hn
    rcases le_or_gt a y with hay | hay
    · rw [abs_sub_comm, abs_of_nonneg (by linarith)] at hn; linarith
    · rw [abs_of_nonneg (by linarith)] at hn; linarith

/-! ### binary64: one rounding, error bound with the subnormal term -/

theorem pow2_one : pow2 1 = 2 := by simp [pow2_eq_zpow]

theorem pow2_neg1075 : pow2 (-1074) = 2 * pow2 (-1075) := by
  rw [show (-1074 : Int) = 1 + -1075 by norm_num, pow2_add, pow2_one]

/-- one rounding of `q ≥ 0` to binary64 exceeds `q` by at most the relative error `2^-53` plus
    half a subnormal ulp -/
theorem rne_le_bound {q : ℚ} (hq : 0 ≤ q) :
    rne 53 (-1074) q ≤ q * (1 + 1 / 2 ^ 53) + pow2 (-1075) := by
  have hd := pow2_pos (-1075)
  rcases eq_or_lt_of_le hq with h | h
  · subst h; rw [rne_zero]; linarith
  · have herr := (abs_le.mp (rne_err_pos 53 (-1074) h)).2
    have hb : pow2 (expo 53 (-1074) q) / 2 ≤ q * (1 / 2 ^ 53) + pow2 (-1075) := by
      unfold expo
      rcases max_choice (ilog2 q - (((53 : Nat) : Int) - 1)) (-1074) with hm | hm
      · rw [hm]
        have h1 : ilog2 q - (((53 : Nat) : Int) - 1) = ilog2 q - 52 := by push_cast; ring
        have h52 : pow2 52 = 2 ^ 52 := by rw [pow2_eq_zpow]; norm_num
        have h2 : pow2 (ilog2 q - 52) / 2 = pow2 (ilog2 q) * (1 / 2 ^ 53) := by
          rw [pow2_sub, h52]; ring
        rw [h1, h2]
        have hlo := (ilog2_spec h).1
        have := mul_le_mul_of_nonneg_right hlo (by positivity : (0 : ℚ) ≤ 1 / 2 ^ 53)
        linarith
      · rw [hm, pow2_neg1075]
        have : 0 ≤ q * (1 / 2 ^ 53) := by positivity
        linarith
    linarith

/-- every value of the format is an integer multiple of the smallest subnormal -/
theorem rep_grid {p : Nat} {emin : Int} {a : ℚ} (h : Rep p emin a) :
    ∃ N : Int, a = (N : ℚ) * pow2 emin := by
  obtain ⟨m, e, he, _, rfl⟩ := h
  have hd : 0 ≤ e - emin := by omega
  refine ⟨m * (2 : Int) ^ (e - emin).toNat, ?_⟩
  rw [show e = (e - emin) + emin by ring, pow2_add, pow2_nonneg_eq_intCast hd]
  push_cast
  rw [show e - emin + emin - emin = e - emin by ring]
  ring

/-- at most half the smallest subnormal rounds to zero (the tie goes to the even neighbour 0) -/
theorem rne_tiny {q : ℚ} (h0 : 0 ≤ q) (h : q ≤ pow2 (-1075)) : rne 53 (-1074) q = 0 := by
  have hd := pow2_pos (-1075)
  have hz : rne 53 (-1074) (pow2 (-1075)) = 0 := by
    rw [rne_pos_eq 53 (-1074) hd]
    have hil : ilog2 (pow2 (-1075)) < -1074 :=
      ilog2_lt_of_lt_pow2 hd (pow2_lt_pow2 (by norm_num))
    have hex : expo 53 (-1074) (pow2 (-1075)) = -1074 := by
      unfold expo; push_cast; omega
    rw [hex]
    have hdiv : pow2 (-1075) / pow2 (-1074) = 1 / 2 := by
      rw [pow2_neg1075]; field_simp
    rw [hdiv]
    have : roundHalfEven (1 / 2) = 0 := by decide +kernel
    rw [this]; simp
  have h1 := rne_mono 53 (by decide) (-1074) h
  have h2 := rne_nonneg 53 (-1074) h0
  rw [hz] at h1
  exact le_antisymm h1 h2

/-- the heart of the promptness bound: for doubles `a < b` and a unit value `v ≤ 1/4` the rounded
    product `fl(v · fl(b − a))` is strictly below half the exact width -/
theorem quarter_prod_lt_half {a b v : ℚ} (ha : Rep 53 (-1074) a) (hb : Rep 53 (-1074) b)
    (hab : a < b) (hv0 : 0 ≤ v) (hv : v ≤ 1 / 4) :
    rne 53 (-1074) (v * rne 53 (-1074) (b - a)) < (b - a) / 2 := by
  obtain ⟨Na, rfl⟩ := rep_grid ha
  obtain ⟨Nb, rfl⟩ := rep_grid hb
  have hg := pow2_pos (-1074)
  have hd := pow2_pos (-1075)
  have hN : Na < Nb := by
    by_contra hc
    have : (Nb : ℚ) ≤ (Na : ℚ) := by exact_mod_cast not_lt.mp hc
    have := mul_le_mul_of_nonneg_right this hg.le
    linarith
  have hD : (Nb : ℚ) * pow2 (-1074) - (Na : ℚ) * pow2 (-1074) = ((Nb - Na : Int) : ℚ) * pow2 (-1074) := by
    push_cast; ring
  rw [hD]
  set N : Int := Nb - Na with hNdef
  have hN1 : 1 ≤ N := by omega
  set D : ℚ := (N : ℚ) * pow2 (-1074) with hDdef
  have hD0 : 0 < D := mul_pos (by exact_mod_cast hN1) hg
  rcases (by omega : N ≤ 2 ∨ 3 ≤ N) with hs | hs
  · -- width of one or two subnormal steps: exact difference, the product rounds to zero
    have hrep : Rep 53 (-1074) D := ⟨N, -1074, le_refl _, by rw [abs_of_nonneg (by omega)]; omega, rfl⟩
    rw [rne_eq_self_of_rep 53 (-1074) hrep]
    have hDle : D ≤ 2 * pow2 (-1074) := by
      have : (N : ℚ) ≤ 2 := by exact_mod_cast hs
      exact mul_le_mul_of_nonneg_right this hg.le
    have hvD : v * D ≤ pow2 (-1075) := by
      have : v * D ≤ 1 / 4 * D := mul_le_mul_of_nonneg_right hv hD0.le
      rw [pow2_neg1075] at hDle; linarith
    rw [rne_tiny (mul_nonneg hv0 hD0.le) hvD]
    linarith
  · have hDge : 6 * pow2 (-1075) ≤ D := by
      have h3 : (3 : ℚ) ≤ (N : ℚ) := by exact_mod_cast hs
      have := mul_le_mul_of_nonneg_right h3 hg.le
      rw [hDdef]; rw [pow2_neg1075] at this ⊢; linarith
    set s := rne 53 (-1074) D with hsdef
    have hs0 : 0 ≤ s := rne_nonneg 53 (-1074) hD0.le
    have hsb : s ≤ D * (1 + 1 / 2 ^ 53) + pow2 (-1075) := rne_le_bound hD0.le
    have hvs : v * s ≤ s / 4 := by
      have := mul_le_mul_of_nonneg_right hv hs0; linarith
    have h1 : rne 53 (-1074) (v * s) ≤ rne 53 (-1074) (s / 4) := rne_mono 53 (by decide) (-1074) hvs
    have h2 : rne 53 (-1074) (s / 4) ≤ s / 4 * (1 + 1 / 2 ^ 53) + pow2 (-1075) :=
      rne_le_bound (by linarith)
    have h3 : s / 4 * (1 + 1 / 2 ^ 53) ≤ (D * (1 + 1 / 2 ^ 53) + pow2 (-1075)) / 4 * (1 + 1 / 2 ^ 53) := by
      apply mul_le_mul_of_nonneg_right _ (by positivity)
      linarith
    generalize pow2 (-1075) = δ at *
    norm_num at h3 hsb h2 ⊢
    linarith

end Fp

namespace C13
open Fp

theorem round_eq_fin {f : Fmt} {q r : ℚ} (h : f.round q = .fin r) :
    r = rne f.p f.emin q ∧ r < pow2 f.emax ∧ -pow2 f.emax < r := by
  unfold Fmt.round at h
  simp only [] at h
  split at h
  · exact absurd h (by simp)
  · split at h
    · exact absurd h (by simp)
    · rename_i h1 h2
      injection h with h
      subst h
      exact ⟨rfl, not_le.mp h1, not_le.mp h2⟩

/-- **promptness**: for a validated range with `low ≠ high`, every word whose unit value is at
    most `1/4` ends the `sample_single` retry loop at once -/
theorem uniformF64_quarter {lo hi : F64} (h : Validate.distType (.uniform lo hi) = true)
    (hne : feq (val64 lo) (val64 hi) = false) (w : UInt64) (hw : unit64 w ≤ 1 / 4) :
    (uniformF64 lo hi w).isSome = true := by
  obtain ⟨a, b, s, hl, hh, hab, hs, hs0⟩ := uniform_range_facts h hne
  obtain ⟨hra, hba⟩ := val64_rep lo hl
  obtain ⟨hrb, hbb⟩ := val64_rep hi hh
  rw [abs_lt] at hba hbb
  have hsub : sub f64 (.fin b) (.fin a) = f64.round (b - a) := by
    simp [sub, neg, add, sub_eq_add_neg]
  rw [hh, hl, hsub] at hs
  obtain ⟨hsr, hsmax, _⟩ := round_eq_fin hs
  have hsr' : s = rne 53 (-1074) (b - a) := hsr
  have hv0 := unit64_nonneg w
  set v := unit64 w with hvdef
  -- the product
  have hsrep : Rep 53 (-1074) s := by rw [hsr']; exact rne_rep 53 (by decide) _ _
  have hvs : v * s ≤ s := by
    have := mul_le_mul_of_nonneg_right hw hs0; linarith
  set pr := rne 53 (-1074) (v * s) with hprdef
  have hpr0 : 0 ≤ pr := rne_nonneg 53 (-1074) (mul_nonneg hv0 hs0)
  have hprs : pr ≤ s := rne_le_of_le_rep 53 (by decide) _ hsrep hvs
  have hmul : f64.round (v * s) = .fin pr := by
    have hp := pow2_pos f64.emax
    have h1 : ¬ pow2 f64.emax ≤ rne f64.p f64.emin (v * s) := by
      show ¬ pow2 f64.emax ≤ pr
      intro hc; linarith
    have h2 : ¬ rne f64.p f64.emin (v * s) ≤ -pow2 f64.emax := by
      show ¬ pr ≤ -pow2 f64.emax
      intro hc; linarith
    unfold Fmt.round
    simp only []
    rw [if_neg h1, if_neg h2]
    rfl
  have hprlt : pr < (b - a) / 2 := by
    rw [hprdef, hsr']; exact quarter_prod_lt_half hra hrb hab hv0 hw
  -- the sum
  have hlt : rne 53 (-1074) (pr + a) < b :=
    rne_lt_of_lt_mid 53 (by decide) (-1074) hra hrb hab (by linarith)
  have hge : a ≤ rne 53 (-1074) (pr + a) :=
    le_rne_of_rep_le 53 (by decide) (-1074) hra (by linarith)
  have hadd : f64.round (pr + a) = .fin (rne 53 (-1074) (pr + a)) := by
    have h1 : ¬ pow2 f64.emax ≤ rne f64.p f64.emin (pr + a) := by
      show ¬ pow2 1024 ≤ rne 53 (-1074) (pr + a)
      intro hc; linarith
    have h2 : ¬ rne f64.p f64.emin (pr + a) ≤ -pow2 f64.emax := by
      show ¬ rne 53 (-1074) (pr + a) ≤ -pow2 1024
      intro hc; linarith
    unfold Fmt.round
    simp only []
    rw [if_neg h1, if_neg h2]
    rfl
  have hres : uniformRes lo hi w = .fin (rne 53 (-1074) (pr + a)) := by
    unfold uniformRes
    simp only []
    rw [hh, hl, hsub, hs]
    simp only [mul]
    rw [← hvdef, hmul]
    simp only [add]
    exact hadd
  unfold uniformF64
  rw [hres, hh]
  simp [hlt]

/-- the unit value of the word with mantissa bits `m` and discarded low bits `r` -/
theorem unit64_word (m r : Nat) (hm : m < 2 ^ 52) (hr : r < 2 ^ 12) :
    unit64 (UInt64.ofNat (m * 2 ^ 12 + r)) = (m : ℚ) / 2 ^ 52 := by
  have hlt : m * 2 ^ 12 + r < 2 ^ 64 := by omega
  have htn : (UInt64.ofNat (m * 2 ^ 12 + r)).toNat = m * 2 ^ 12 + r := by
    rw [UInt64.toNat_ofNat']; exact Nat.mod_eq_of_lt hlt
  have hdiv : (m * 2 ^ 12 + r) / 2 ^ 12 = m := by omega
  unfold unit64
  rw [htn, hdiv]
  norm_num

end C13
end Mb
