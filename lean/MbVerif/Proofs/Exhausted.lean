/-
  C07, history level: once a machine's state limit is 0, a call returns no limitable action for
  it and leaves the limit at 0, unless the machine changed its state index during the call (which
  the ghost log records as a `limit mi _ false` entry, pushed by `enterState` only).
-/
import MbVerif.Proofs.ReachMain
import MbVerif.Proofs.DurBound

namespace Mb
variable {σ : Type} (ρ : Oracle σ)

def TAction.isCancel : TAction → Bool
  | .cancel _ _ => true
  | _ => false

/-- the limit of machine `mi` is exhausted and its slot holds no limitable action -/
structure PZ (mi : Nat) (s : Fw σ) : Prop where
  lim : ∀ r, s.rt[mi]? = some r → r.stateLimit = 0
  slot : ∀ a, s.actions[mi]? = some (some a) → a.isCancel = true

/-- the log segment records a resampling of machine `mi`'s limit (a change of state index) -/
def Resampled (mi : Nat) (l : List LogEntry) : Prop := ∃ x, LogEntry.limit mi x false ∈ l

/-- `t` extends the log of `s` by a segment which either records a resampling for `mi`, or `PZ`
    is preserved -/
def QQ (mi : Nat) (s t : Fw σ) : Prop :=
  ∃ l, t.log = l ++ s.log ∧ (PZ mi s → Resampled mi l ∨ PZ mi t)

variable {mi : Nat}

theorem QQ.refl (s : Fw σ) : QQ mi s s := ⟨[], rfl, fun h => Or.inr h⟩

theorem QQ.trans {s t u : Fw σ} (h₁ : QQ mi s t) (h₂ : QQ mi t u) : QQ mi s u := by
  obtain ⟨l1, e1, p1⟩ := h₁
  obtain ⟨l2, e2, p2⟩ := h₂
  refine ⟨l2 ++ l1, by rw [e2, e1, List.append_assoc], fun hp => ?_⟩
  rcases p1 hp with ⟨x, hx⟩ | hpt
  · exact Or.inl ⟨x, by simp [hx]⟩
  · rcases p2 hpt with ⟨x, hx⟩ | hpu
    · exact Or.inl ⟨x, by simp [hx]⟩
    · exact Or.inr hpu

/-- log unchanged, the machine's runtime and slot unchanged -/
theorem QQ.same {s t : Fw σ} (hl : t.log = s.log) (hrt : t.rt[mi]? = s.rt[mi]?) (hact : t.actions[mi]? = s.actions[mi]?) :
    QQ mi s t :=
  ⟨[], by simp [hl], fun hp => Or.inr ⟨by rw [hrt]; exact hp.lim, by rw [hact]; exact hp.slot⟩⟩

theorem QQ.withFault (s : Fw σ) (f : Fault) : QQ mi s (s.withFault f) := QQ.same (by simp) (by simp) (by simp)

/-- one more log entry that is not a resampling of `mi` -/
theorem QQ.push (s : Fw σ) (e : LogEntry) : QQ mi s (s.push e) :=
  ⟨[e], rfl, fun hp => Or.inr ⟨hp.lim, hp.slot⟩⟩

theorem PZ.modRt {s : Fw σ} (h : PZ mi s) (j : Nat) (f : Runtime → Runtime)
    (hf : ∀ r, (f r).stateLimit = r.stateLimit) : PZ mi (s.modRt j f) := by
  refine ⟨fun r hr => ?_, by simpa using h.slot⟩
  by_cases hj : mi = j
  · subst hj
    rw [Fw.modRt_rt_self] at hr
    cases hs : s.rt[mi]? with
    | none => rw [hs] at hr; cases hr
    | some r0 =>
      rw [hs] at hr
      simp only [Option.map_some, Option.some.injEq] at hr
      rw [← hr, hf]; exact h.lim r0 hs
  · rw [Fw.modRt_rt_other s j mi f hj] at hr; exact h.lim r hr

theorem QQ.modRt (s : Fw σ) (j : Nat) (f : Runtime → Runtime) (hf : ∀ r, (f r).stateLimit = r.stateLimit) :
    QQ mi s (s.modRt j f) :=
  ⟨[], by simp, fun hp => Or.inr (hp.modRt j f hf)⟩

/-! ### the log only grows -/

theorem Step.logExt {k : Nat} {s t : Fw σ} (h : Step k s t) : ∃ l, t.log = l ++ s.log := by
  cases h with
  | push e => exact ⟨[e], rfl⟩
  | fault => exact ⟨[], by simp⟩
  | rng => exact ⟨[], rfl⟩
  | setState => exact ⟨[], by simp⟩
  | setLimit => exact ⟨[], by simp⟩
  | setCtrA => exact ⟨[], by simp⟩
  | setCtrB => exact ⟨[], by simp⟩
  | signal => exact ⟨[], rfl⟩
  | zeroA => exact ⟨[], by simp⟩
  | zeroB => exact ⟨[], by simp⟩
  | clear => exact ⟨[], rfl⟩
  | sched => exact ⟨[], rfl⟩

theorem Reach.logExt {k : Nat} {s t : Fw σ} (h : Reach k s t) : ∃ l, t.log = l ++ s.log := by
  induction h with
  | refl => exact ⟨[], rfl⟩
  | tail _ st ih =>
    obtain ⟨l1, e1⟩ := ih
    obtain ⟨l2, e2⟩ := st.logExt
    exact ⟨l2 ++ l1, by rw [e2, e1, List.append_assoc]⟩

/-- steps made for another machine: the log grows, `PZ` is untouched — but the segment may not be
    inspected, so the conclusion is stated with an arbitrary segment and `PZ` preserved -/
theorem QQ.ofReachOther {j : Nat} {s t : Fw σ} (h : Reach j s t) (hj : mi ≠ j) : QQ mi s t := by
  obtain ⟨l, e⟩ := h.logExt
  have hf := h.frame
  exact ⟨l, e, fun hp => Or.inr ⟨by rw [hf.rtOther mi hj]; exact hp.lim, by rw [hf.actOther mi hj]; exact hp.slot⟩⟩

/-- steps that leave the machine's runtime and slot alone (sampling) -/
theorem QQ.ofReachSame {j : Nat} {s t : Fw σ} (h : Reach j s t) (hrt : t.rt[mi]? = s.rt[mi]?)
    (hact : t.actions[mi]? = s.actions[mi]?) : QQ mi s t := by
  obtain ⟨l, e⟩ := h.logExt
  exact ⟨l, e, fun hp => Or.inr ⟨by rw [hrt]; exact hp.lim, by rw [hact]; exact hp.slot⟩⟩

theorem QQ.ofRngLog {s t : Fw σ} (h : RngLogOnly s t ∧ Reach mi s t) : QQ mi s t :=
  QQ.ofReachSame h.2 (by rw [h.1.rt]) (by rw [h.1.actions])

/-! ### the pieces of `transition` for machine `mi` -/

theorem qq_enterState (m : Machine) (cur next : Nat) (s : Fw σ) : QQ mi s (enterState ρ mi m cur next s) := by
  unfold enterState
  split
  · simp only
    have h1 : QQ mi s (s.modRt mi (fun r => { r with currentState := next })) := QQ.modRt s mi _ (by intro _; rfl)
    split
    · exact h1.trans (QQ.withFault _ _)
    · split
      · next a _ =>
        obtain ⟨l, e⟩ := (sampleLimit_spec ρ mi a (s.modRt mi (fun r => { r with currentState := next }))).2.logExt
        refine ⟨(.limit mi (sampleLimit ρ a (s.modRt mi (fun r => { r with currentState := next }))).1 false) :: l, ?_,
          fun _ => Or.inl ⟨(sampleLimit ρ a (s.modRt mi (fun r => { r with currentState := next }))).1, by simp⟩⟩
        simp only [Fw.push, Fw.modRt_log, e, List.cons_append]
      · exact ⟨[.limit mi STATE_LIMIT_MAX false], by simp [Fw.push], fun _ => Or.inl ⟨STATE_LIMIT_MAX, by simp⟩⟩
  · exact QQ.refl s

theorem qq_storeCounterA (oldA newA : Nat) (s : Fw σ) : QQ mi s (storeCounterA mi oldA newA s).1 := by
  unfold storeCounterA
  simp only
  split
  · exact (QQ.modRt s mi _ (by intro _; rfl)).trans (QQ.modRt _ mi _ (by intro _; rfl))
  · exact QQ.modRt s mi _ (by intro _; rfl)

theorem qq_storeCounterB (oldB newB : Nat) (s : Fw σ) : QQ mi s (storeCounterB mi oldB newB s).1 := by
  unfold storeCounterB
  simp only
  split
  · exact (QQ.modRt s mi _ (by intro _; rfl)).trans (QQ.modRt _ mi _ (by intro _; rfl))
  · exact QQ.modRt s mi _ (by intro _; rfl)

theorem qq_applyCounterA (c : Option Counter) (oldA oldB : Nat) (s : Fw σ) :
    QQ mi s (applyCounterA ρ mi c oldA oldB s).1 := by
  unfold applyCounterA
  cases c with
  | none => exact QQ.refl s
  | some c => exact (QQ.ofRngLog (counterOperand_spec ρ mi c oldB s)).trans (qq_storeCounterA _ _ _)

theorem qq_applyCounterB (c : Option Counter) (oldA oldB : Nat) (s : Fw σ) :
    QQ mi s (applyCounterB ρ mi c oldA oldB s).1 := by
  unfold applyCounterB
  cases c with
  | none => exact QQ.refl s
  | some c => exact (QQ.ofRngLog (counterOperand_spec ρ mi c oldA s)).trans (qq_storeCounterB _ _ _)

/-- putting something into the slot of `mi`: fine if it is a cancel (or nothing) -/
theorem QQ.setAct (s : Fw σ) (a : Option TAction) (ha : ∀ x, a = some x → x.isCancel = true) :
    QQ mi s { s with actions := s.actions.set mi a } := by
  refine ⟨[], rfl, fun hp => Or.inr ⟨hp.lim, fun x hx => ?_⟩⟩
  simp only [List.getElem?_set_self'] at hx
  cases hs : s.actions[mi]? with
  | none => rw [hs] at hx; cases hx
  | some y =>
    rw [hs] at hx
    simp only [Option.map_eq_map, Option.map_some, Function.const_apply, Option.some.injEq] at hx
    exact ha x hx

/-- `schedule_action` for `mi`: the log grows, and `PZ` is preserved when the state's action can
    only be a cancel -/
theorem schedule_spec (next : Nat) (s : Fw σ) :
    ∃ l, (scheduleAction ρ mi next s).log = l ++ s.log ∧
      ((∀ m st act, s.machines[mi]? = some m → m.states[next]? = some st → st.action = some act →
          ∃ t, act = .cancel t) → PZ mi s → PZ mi (scheduleAction ρ mi next s)) := by
  unfold scheduleAction
  cases hm : s.machines[mi]? with
  | none => exact ⟨[], by simp, fun _ hp => ⟨by simpa using hp.lim, by simpa using hp.slot⟩⟩
  | some m =>
  simp only
  cases hst : m.states[next]? with
  | none => exact ⟨[], by simp, fun _ hp => ⟨by simpa using hp.lim, by simpa using hp.slot⟩⟩
  | some st =>
  simp only
  split
  · exact ⟨[], by simp, fun _ hp => ⟨by simpa using hp.lim, by simpa using hp.slot⟩⟩
  · cases hact : st.action with
    | none =>
      simp only
      refine ⟨[], rfl, fun _ hp => ⟨hp.lim, fun x hx => ?_⟩⟩
      simp only [List.getElem?_set_self'] at hx
      cases hs : s.actions[mi]? <;> rw [hs] at hx <;> simp at hx
    | some act =>
      cases act with
      | cancel t =>
        refine ⟨[], rfl, fun _ hp => ⟨hp.lim, fun x hx => ?_⟩⟩
        simp only [List.getElem?_set_self'] at hx
        cases hs : s.actions[mi]? with
        | none => rw [hs] at hx; cases hx
        | some y =>
          rw [hs] at hx
          simp only [Option.map_eq_map, Option.map_some, Function.const_apply, Option.some.injEq] at hx
          subst hx; rfl
      | sendPadding b rp tmo lim =>
        simp only
        obtain ⟨l, e⟩ := (sampleTimeout_spec ρ mi (.sendPadding b rp tmo lim) s).2.logExt
        refine ⟨l, e, fun hc _ => ?_⟩
        obtain ⟨t, ht⟩ := hc m st _ rfl hst hact
        cases ht
      | blockOutgoing b rp tmo du lim =>
        simp only
        obtain ⟨l, e⟩ := ((sampleTimeout_spec ρ mi (.blockOutgoing b rp tmo du lim) s).2.trans
          (sampleDuration_spec ρ mi (.blockOutgoing b rp tmo du lim) (sampleTimeout ρ (.blockOutgoing b rp tmo du lim) s).2).2).logExt
        refine ⟨l, e, fun hc _ => ?_⟩
        obtain ⟨t, ht⟩ := hc m st _ rfl hst hact
        cases ht
      | updateTimer rp du lim =>
        simp only
        obtain ⟨l, e⟩ := (sampleDuration_spec ρ mi (.updateTimer rp du lim) s).2.logExt
        refine ⟨l, e, fun hc _ => ?_⟩
        obtain ⟨t, ht⟩ := hc m st _ rfl hst hact
        cases ht

/-- with an exhausted limit the limit predicates admit only a cancel (or no action) -/
theorem below_true_cancel (g : Globals) (r : Runtime) (m : Machine) (hz : r.stateLimit = 0)
    (hb : belowActionLimits g r m = some true) :
    ∀ st act, m.states[r.currentState]? = some st → st.action = some act → ∃ t, act = .cancel t := by
  intro st act hst hact
  cases act with
  | cancel t => exact ⟨t, rfl⟩
  | sendPadding b rp tmo lim =>
    exfalso
    unfold belowActionLimits at hb
    rw [hst] at hb
    simp only [hact] at hb
    have : belowLimitPadding g r m = true := by simpa using hb
    unfold belowLimitPadding at this
    simp only [hz, Nat.lt_irrefl, decide_false, gt_iff_lt] at this
    repeat' split at this
    all_goals cases this
  | updateTimer rp du lim =>
    exfalso
    unfold belowActionLimits at hb
    rw [hst] at hb
    simp only [hact] at hb
    simp [hz] at hb
  | blockOutgoing b rp tmo du lim =>
    exfalso
    unfold belowActionLimits at hb
    rw [hst] at hb
    simp only [hact] at hb
    unfold belowLimitBlocking at hb
    simp only [hz, Nat.lt_irrefl, decide_false, gt_iff_lt] at hb
    repeat' split at hb
    all_goals cases hb


/-! ### `transition` / `update_counter` for machine `mi` -/

theorem qq_main (fuel : Nat) :
    (∀ ev (s : Fw σ), QQ mi s (transition ρ fuel mi ev s).1) ∧
    (∀ (s : Fw σ), QQ mi s (updateCounter ρ fuel mi s).1) := by
  induction fuel with
  | zero =>
    refine ⟨fun ev s => ?_, fun s => ?_⟩
    · rw [transition]; exact QQ.withFault _ _
    · rw [updateCounter]; exact QQ.withFault _ _
  | succ n ih =>
    obtain ⟨ihT, ihU⟩ := ih
    refine ⟨fun ev s => ?_, fun s => ?_⟩
    · rw [transition]
      cases hr : s.rt[mi]? with
      | none => exact QQ.withFault _ _
      | some r =>
      cases hm : s.machines[mi]? with
      | none => exact QQ.withFault _ _
      | some m =>
      simp only []
      have h0 : QQ mi s (s.push (.trans mi ev.toNat r.currentState)) := QQ.push _ _
      split
      · exact h0
      · cases hst : m.states[r.currentState]? with
        | none => exact h0.trans (QQ.withFault _ _)
        | some st =>
        simp only []
        cases htr : st.transitions[ev.toNat]? with
        | none => exact h0.trans (QQ.withFault _ _)
        | some ov =>
        cases ov with
        | none => exact h0
        | some vec =>
        simp only []
        have h1 : QQ mi s (({ s.push (.trans mi ev.toNat r.currentState) with
              rng := (ρ.u (s.push (.trans mi ev.toNat r.currentState)).rng).2 }).push
            (.draw (ρ.u (s.push (.trans mi ev.toNat r.currentState)).rng).1)) :=
          ⟨[.draw (ρ.u (s.push (.trans mi ev.toNat r.currentState)).rng).1, .trans mi ev.toNat r.currentState], rfl,
            fun hp => Or.inr ⟨hp.lim, hp.slot⟩⟩
        split
        · exact h1
        · next nxt _ =>
          have h2 := h1.trans (QQ.push (mi := mi) _ (.sampled mi ev.toNat nxt))
          split
          · exact h2.trans (QQ.modRt _ mi _ (by intro _; rfl))
          · split
            · exact h2.trans (QQ.same rfl rfl rfl)
            · -- the real transition
              have h3 := h2.trans (qq_enterState ρ m r.currentState nxt _)
              obtain ⟨r1', hr1', hr1c⟩ := enterState_cur ρ mi m r.currentState nxt
                ((({ s.push (.trans mi ev.toNat r.currentState) with
                    rng := (ρ.u (s.push (.trans mi ev.toNat r.currentState)).rng).2 }).push
                  (.draw (ρ.u (s.push (.trans mi ev.toNat r.currentState)).rng).1)).push (.sampled mi ev.toNat nxt))
                r hr rfl
              have hm3 : (enterState ρ mi m r.currentState nxt
                ((({ s.push (.trans mi ev.toNat r.currentState) with
                    rng := (ρ.u (s.push (.trans mi ev.toNat r.currentState)).rng).2 }).push
                  (.draw (ρ.u (s.push (.trans mi ev.toNat r.currentState)).rng).1)).push (.sampled mi ev.toNat nxt))).machines[mi]?
                  = some m := by
                rw [(frame_enterState ρ mi m r.currentState nxt _).machines]; exact hm
              generalize enterState ρ mi m r.currentState nxt _ = s3 at h3 hr1' hm3 ⊢
              refine h3.trans ?_
              rw [hr1']
              simp only []
              cases hb : belowActionLimits s3.g r1' m with
              | none => exact QQ.withFault _ _
              | some below =>
              simp only []
              obtain ⟨l1, e1, p1⟩ := ihU s3
              have hfU := (updateCounter_reach ρ n mi s3).frame
              have h5 : QQ mi s3 (if ((updateCounter ρ n mi s3).2.1 && below) = true
                  then scheduleAction ρ mi nxt (updateCounter ρ n mi s3).1 else (updateCounter ρ n mi s3).1) := by
                split
                · next hcond =>
                  obtain ⟨l2, e2, p2⟩ := schedule_spec ρ (mi := mi) nxt (updateCounter ρ n mi s3).1
                  refine ⟨l2 ++ l1, by rw [e2, e1, List.append_assoc], fun hp => ?_⟩
                  rcases p1 hp with ⟨x, hx⟩ | hpU
                  · exact Or.inl ⟨x, by simp [hx]⟩
                  · right
                    refine p2 (fun m' st act hm' hst' hact' => ?_) hpU
                    rw [hfU.machines, hm3] at hm'
                    cases hm'
                    have hbt : below = true := by
                      cases below
                      · simp at hcond
                      · rfl
                    rw [hbt] at hb
                    exact below_true_cancel s3.g r1' m (hp.lim r1' hr1') hb st act (by rw [hr1c]; exact hst') hact'
                · exact ⟨l1, e1, p1⟩
              generalize (if ((updateCounter ρ n mi s3).2.1 && below) = true
                  then scheduleAction ρ mi nxt (updateCounter ρ n mi s3).1 else (updateCounter ρ n mi s3).1) = s5 at h5 ⊢
              cases hr2 : s5.rt[mi]? with
              | none => exact h5.trans (QQ.withFault _ _)
              | some r2 => exact h5
    · rw [updateCounter]
      cases hr : s.rt[mi]? with
      | none => exact QQ.withFault _ _
      | some r =>
      cases hm : s.machines[mi]? with
      | none => exact QQ.withFault _ _
      | some m =>
      simp only []
      cases hst : m.states[r.currentState]? with
      | none => exact QQ.withFault _ _
      | some st =>
      simp only []
      have hA := qq_applyCounterA ρ (mi := mi) st.counterA r.counterA r.counterB s
      generalize applyCounterA ρ mi st.counterA r.counterA r.counterB s = ra at hA ⊢
      have hB := qq_applyCounterB ρ (mi := mi) st.counterB r.counterA r.counterB ra.1
      generalize applyCounterB ρ mi st.counterB r.counterA r.counterB ra.1 = rb at hB ⊢
      have h2 : QQ mi s (rb.1.push (.counter mi r.counterA (counterAOf rb.1 mi) r.counterB (counterBOf rb.1 mi))) :=
        (hA.trans hB).trans (QQ.push _ _)
      split
      · have hT := h2.trans (ihT .counterZero _)
        split
        · exact hT.trans (QQ.withFault _ _)
        · exact hT
      · exact h2

theorem qq_transition (fuel : Nat) (ev : Event) (s : Fw σ) : QQ mi s (transition ρ fuel mi ev s).1 :=
  (qq_main ρ fuel).1 ev s

/-- a transition of any machine -/
theorem qq_transitionAny (fuel j : Nat) (ev : Event) (s : Fw σ) : QQ mi s (transition ρ fuel j ev s).1 := by
  by_cases hj : mi = j
  · subst hj; exact qq_transition ρ fuel ev s
  · exact QQ.ofReachOther (transition_reach ρ fuel j ev s) hj

theorem qq_decrementAny (j : Nat) (s : Fw σ) : QQ mi s (decrementLimit ρ j s) := by
  by_cases hj : mi = j
  · subst hj
    unfold decrementLimit
    cases hr : s.rt[mi]? with
    | none => exact QQ.withFault _ _
    | some r =>
    cases hm : s.machines[mi]? with
    | none => exact QQ.withFault _ _
    | some m =>
    simp only []
    -- under PZ the limit is 0 and stays 0
    have h1 : QQ mi s ((s.modRt mi (fun r' => { r' with stateLimit :=
        (if r.stateLimit > 0 then r.stateLimit - 1 else r.stateLimit) })).push
        (.limit mi (if r.stateLimit > 0 then r.stateLimit - 1 else r.stateLimit) true)) := by
      refine ⟨[.limit mi (if r.stateLimit > 0 then r.stateLimit - 1 else r.stateLimit) true], by simp [Fw.push],
        fun hp => Or.inr ⟨fun r' hr' => ?_, by simpa using hp.slot⟩⟩
      have hz := hp.lim r hr
      simp only [Fw.push_rt] at hr'
      rw [Fw.modRt_rt_self, hr] at hr'
      simp only [Option.map_some, Option.some.injEq] at hr'
      rw [← hr']; simp [hz]
    generalize (if r.stateLimit > 0 then r.stateLimit - 1 else r.stateLimit) = lim at h1 ⊢
    cases hst : m.states[r.currentState]? with
    | none => exact h1.trans (QQ.withFault _ _)
    | some st =>
    simp only []
    cases hact : st.action with
    | none => exact h1
    | some a =>
    simp only []
    split
    · split
      · exact h1.trans (QQ.withFault _ _)
      · exact (h1.trans (QQ.setAct _ none (fun x hx => by cases hx))).trans (qq_transition ρ FUEL .limitReached _)
    · exact h1
  · exact QQ.ofReachOther (decrementLimit_reach ρ j s) hj

theorem qq_transDec (j : Nat) (ev : Event) (s : Fw σ) (cnd : Fw σ × Bool → Bool) :
    QQ mi s (if cnd (transition ρ FUEL j ev s) = true then decrementLimit ρ j (transition ρ FUEL j ev s).1
           else (transition ρ FUEL j ev s).1) := by
  split
  · exact (qq_transitionAny ρ FUEL j ev s).trans (qq_decrementAny ρ j _)
  · exact qq_transitionAny ρ FUEL j ev s

theorem qq_fold (F : Fw σ → Nat → Fw σ) (hF : ∀ s j, QQ mi s (F s j)) (l : List Nat) (s : Fw σ) :
    QQ mi s (l.foldl F s) := by
  induction l generalizing s with
  | nil => exact QQ.refl s
  | cons j t ih => exact (hF s j).trans (ih _)

theorem qq_setG (s : Fw σ) (g' : Globals) : QQ mi s { s with g := g' } := QQ.same rfl rfl rfl

theorem qq_processEvent (e : TEvent) (s : Fw σ) : QQ mi s (processEvent ρ e s) := by
  cases e with
  | normalRecv => exact qq_fold _ (fun a j => qq_transitionAny ρ FUEL j _ a) _ s
  | paddingRecv => exact qq_fold _ (fun a j => qq_transitionAny ρ FUEL j _ a) _ s
  | tunnelRecv => exact qq_fold _ (fun a j => qq_transitionAny ρ FUEL j _ a) _ s
  | tunnelSent => exact qq_fold _ (fun a j => qq_transitionAny ρ FUEL j _ a) _ s
  | normalSent =>
    simp only [processEvent]
    refine (qq_setG s { s.g with normalSent := s.g.normalSent + 1 }).trans (qq_fold _ (fun a j => ?_) _ _)
    exact (QQ.modRt a j _ (by intro _; rfl)).trans (qq_transitionAny ρ FUEL j _ _)
  | paddingSent x =>
    simp only [processEvent]
    refine (qq_setG s { s.g with paddingSent := s.g.paddingSent + 1 }).trans ?_
    split
    · exact QQ.refl _
    · exact (QQ.modRt _ x _ (by intro _; rfl)).trans (qq_transDec ρ x .paddingSent _ (fun p => !p.2 && notEnded p.1 x))
  | blockingBegin x =>
    simp only [processEvent]
    have h1 : QQ mi s (if !s.g.blockingActive then
        { s with g := { s.g with blockingActive := true, blockingStarted := s.g.now } } else s) := by
      split
      · exact qq_setG s _
      · exact QQ.refl s
    refine h1.trans (qq_fold _ (fun a j => ?_) _ _)
    exact qq_transDec ρ j .blockingBegin a (fun p => !p.2 && notEnded p.1 j && j == x)
  | blockingEnd =>
    simp only [processEvent]
    generalize (if s.g.blockingActive then durSince s.g.now s.g.blockingStarted else 0) = blocked
    have h1 : QQ mi s (if s.g.blockingActive then
        { (if s.g.blockingDur + blocked > durMax then s.withFault .durOverflow else s) with
          g := { (if s.g.blockingDur + blocked > durMax then s.withFault .durOverflow else s).g with
            blockingDur := (if s.g.blockingDur + blocked > durMax then s.withFault .durOverflow else s).g.blockingDur + blocked,
            blockingActive := false } }
        else s) := by
      split
      · refine QQ.trans (t := (if s.g.blockingDur + blocked > durMax then s.withFault .durOverflow else s)) ?_ (qq_setG _ _)
        split
        · exact QQ.withFault _ _
        · exact QQ.refl s
      · exact QQ.refl s
    refine h1.trans (qq_fold _ (fun a j => ?_) _ _)
    refine QQ.trans (t := (if blocked ≠ 0 then
          match a.rt[j]? with
          | none => a.withFault .oob
          | some r =>
            (if r.acct.blockingDur + blocked > durMax then a.withFault .durOverflow else a).modRt j
              (fun r => { r with acct := { r.acct with blockingDur := r.acct.blockingDur + blocked } })
        else a)) ?_ (qq_transitionAny ρ FUEL j _ _)
    split
    · split
      · exact QQ.withFault _ _
      · refine QQ.trans (t := (if _ then a.withFault .durOverflow else a)) ?_ (QQ.modRt _ j _ (by intro _; rfl))
        split
        · exact QQ.withFault _ _
        · exact QQ.refl a
    · exact QQ.refl a
  | timerBegin x =>
    simp only [processEvent]
    split
    · exact QQ.refl _
    · exact qq_transDec ρ x .timerBegin _ (fun p => !p.2 && notEnded p.1 x)
  | timerEnd x =>
    simp only [processEvent]
    split
    · exact QQ.refl _
    · exact qq_transitionAny ρ FUEL x _ _

theorem qq_signalFold (excluded : Option Nat) (n : Nat) (s : Fw σ) :
    QQ mi s ((List.range n).foldl (fun s j =>
      if (excluded == some j) = true then s else (transition ρ FUEL j .signal s).1) s) := by
  refine qq_fold _ (fun a j => ?_) _ s
  split
  · exact QQ.refl a
  · exact qq_transitionAny ρ FUEL j .signal a

theorem qq_signalRound (s : Fw σ) : QQ mi s (signalRound ρ s) := by
  unfold signalRound
  cases hsig : s.signalPending with
  | none => exact QQ.refl s
  | some sig =>
    have h1 : QQ mi s { s with signalPending := none } := QQ.same rfl rfl rfl
    cases sig with
    | all =>
      simp only []
      have h3 := h1.trans (qq_signalFold ρ (mi := mi) none s.rt.length { s with signalPending := none })
      generalize ((List.range s.rt.length).foldl (fun s j =>
          if ((none : Option Nat) == some j) = true then s else (transition ρ FUEL j .signal s).1)
          ({ s with signalPending := none } : Fw σ)) = s2 at h3 ⊢
      cases hs2 : s2.signalPending with
      | none => exact h3
      | some _ => exact h3.trans (QQ.same rfl rfl rfl)
    | allExcept x =>
      simp only []
      have h3 := h1.trans (qq_signalFold ρ (mi := mi) (some x) s.rt.length { s with signalPending := none })
      generalize ((List.range s.rt.length).foldl (fun s j =>
          if (some x == some j) = true then s else (transition ρ FUEL j .signal s).1)
          ({ s with signalPending := none } : Fw σ)) = s2 at h3 ⊢
      cases hs2 : s2.signalPending with
      | none => exact h3
      | some _ =>
        simp only []
        exact (h3.trans (QQ.same (t := { s2 with signalPending := none }) rfl rfl rfl)).trans (qq_transitionAny ρ FUEL x .signal _)

/-- **Exhausted limit, whole call**: if machine `mi`'s state limit is 0 when a call starts, then
    either the call's log segment records a resampling of its limit (the machine changed its state
    index), or the limit is still 0 afterwards and the slot of `mi` holds at most a Cancel. -/
theorem exhausted_call (es : List TEvent) (t : Int) (s : Fw σ) (hz : ∀ r, s.rt[mi]? = some r → r.stateLimit = 0) :
    ∃ l, (triggerEvents ρ es t s).log = l ++ s.log ∧
      (Resampled mi l ∨ PZ mi (triggerEvents ρ es t s)) := by
  unfold triggerEvents
  have hp0 : PZ mi (s.callStart t) := by
    refine ⟨fun r hr => ?_, fun a ha => ?_⟩
    · simp only [Fw.callStart, List.getElem?_map] at hr
      cases hs : s.rt[mi]? with
      | none => rw [hs] at hr; cases hr
      | some r0 =>
        rw [hs] at hr
        simp only [Option.map_some, Option.some.injEq] at hr
        rw [← hr]; exact hz r0 hs
    · simp only [Fw.callStart, List.getElem?_map] at ha
      cases hs : s.actions[mi]? <;> rw [hs] at ha <;> simp at ha
  have hev : QQ mi (s.callStart t) (es.foldl (fun s e => processEvent ρ e s) (s.callStart t)) := by
    generalize s.callStart t = a
    induction es generalizing a with
    | nil => exact QQ.refl a
    | cons e es ih => exact (qq_processEvent ρ e a).trans (ih _)
  obtain ⟨l, e, p⟩ := hev.trans (qq_signalRound ρ _)
  exact ⟨l, e, p hp0⟩

theorem triggerEvents_logExt (es : List TEvent) (t : Int) (s : Fw σ) :
    ∃ l, (triggerEvents ρ es t s).log = l ++ s.log := by
  unfold triggerEvents
  have hev : QQ 0 (s.callStart t) (es.foldl (fun s e => processEvent ρ e s) (s.callStart t)) := by
    generalize s.callStart t = a
    induction es generalizing a with
    | nil => exact QQ.refl a
    | cons e es ih => exact (qq_processEvent ρ e a).trans (ih _)
  obtain ⟨l, e, _⟩ := hev.trans (qq_signalRound ρ _)
  exact ⟨l, e⟩

theorem runCalls_logExt (h : List Call) (s : Fw σ) : ∃ l, (runCalls ρ s h).log = l ++ s.log := by
  unfold runCalls
  induction h generalizing s with
  | nil => exact ⟨[], rfl⟩
  | cons c cs ih =>
    simp only [List.foldl_cons]
    obtain ⟨l1, e1⟩ := triggerEvents_logExt ρ c.1 c.2 s
    obtain ⟨l2, e2⟩ := ih (triggerEvents ρ c.1 c.2 s)
    exact ⟨l2 ++ l1, by rw [e2, e1, List.append_assoc]⟩

end Mb
