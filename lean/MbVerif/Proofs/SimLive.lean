/-
  Liveness core of C17 / C18: whatever `pick_next` decides to serve next, its offset from the
  clock is at most the offset of every pending action timer and internal timer that is not in
  the past — so nothing due is skipped.
-/
import MbVerif.Proofs.SimTotal

namespace Mb.Sim
open Mb

/-- the offset a decision serves (`none` for "nothing left") -/
def Pick.offset : Pick → Option Nat
  | .nothing => none
  | .agg => none
  | .blockExp b _ => some b
  | .queue q _ _ => some q
  | .timer i => some i
  | .action s => some s

section
variable {σ : Type}

/-- every served offset is at most the earliest scheduled action and the earliest internal timer -/
theorem pickDecide_offset_le {st : St σ} {p : Pick} {o : Nat} (h : pickDecide st = .ok p) (ho : p.offset = some o) :
    o ≤ peekScheduledAction st.client.schedAction st.server.schedAction st.now ∧
    o ≤ peekScheduledInternalTimer st.client.schedTimer st.server.schedTimer st.now := by
  unfold pickDecide at h
  simp only [] at h
  rw [bind_ok_iff] at h
  obtain ⟨⟨q, qid, qc⟩, _, h2⟩ := h
  simp only [pure, Except.pure] at h2
  split at h2
  · cases h2; simp [Pick.offset] at ho
  · split at h2
    · cases h2; simp [Pick.offset] at ho
    · split at h2
      · rename_i hb
        cases h2
        simp only [Pick.offset, Option.some.injEq] at ho
        subst ho
        simp only [Bool.and_eq_true, decide_eq_true_eq] at hb
        exact ⟨hb.1.1, hb.1.2⟩
      · split at h2
        · rename_i hq
          cases h2
          simp only [Pick.offset, Option.some.injEq] at ho
          subst ho
          simp only [Bool.and_eq_true, decide_eq_true_eq] at hq
          exact hq
        · split at h2
          · rename_i hi
            cases h2
            simp only [Pick.offset, Option.some.injEq] at ho
            subst ho
            exact ⟨by simpa using hi, Nat.le_refl _⟩
          · rename_i hi
            cases h2
            simp only [Pick.offset, Option.some.injEq] at ho
            subst ho
            have hi' : ¬ (peekScheduledInternalTimer st.client.schedTimer st.server.schedTimer st.now ≤
                peekScheduledAction st.client.schedAction st.server.schedAction st.now) := by simpa using hi
            exact ⟨Nat.le_refl _, by omega⟩

theorem peekScheduledInternalTimer_le_mem (c s : List (Option Int)) (now : Int) (t : Int)
    (hm : some t ∈ c ∨ some t ∈ s) (hn : now ≤ t) :
    peekScheduledInternalTimer c s now ≤ dsince t now := by
  have heq : peekScheduledInternalTimer c s now = s.foldl (peekStepT now) (c.foldl (peekStepT now) durMax) := rfl
  rw [heq]
  have key : ∀ (l : List (Option Int)) (init : Nat), some t ∈ l → l.foldl (peekStepT now) init ≤ dsince t now := by
    intro l
    induction l with
    | nil => intro init h; simp at h
    | cons x xs ih =>
      intro init h
      simp only [List.mem_cons] at h
      rcases h with h | h
      · subst h
        refine Nat.le_trans (foldl_peekStepT_le_init now xs _) ?_
        unfold peekStepT
        simp only []
        split
        · exact Nat.le_refl _
        · rename_i hc
          simp at hc
          have := hc hn
          omega
      · exact ih _ h
  rcases hm with hm | hm
  · exact Nat.le_trans (foldl_peekStepT_le_init now s _) (key c _ hm)
  · exact key s _ hm

/-- **Nothing due is skipped (action timers)**: the offset served next is at most the offset of
    every pending action that is not in the past. -/
theorem served_before_action {st : St σ} {p : Pick} {o : Nat} (h : pickDecide st = .ok p) (ho : p.offset = some o)
    (a : SchedAction) (hm : some a ∈ st.client.schedAction ∨ some a ∈ st.server.schedAction) (hn : st.now ≤ a.time) :
    o ≤ dsince a.time st.now :=
  Nat.le_trans (pickDecide_offset_le h ho).1 (peekScheduledAction_le_mem _ _ _ a hm hn)

/-- **Nothing due is skipped (internal timers)** -/
theorem served_before_timer {st : St σ} {p : Pick} {o : Nat} (h : pickDecide st = .ok p) (ho : p.offset = some o)
    (t : Int) (hm : some t ∈ st.client.schedTimer ∨ some t ∈ st.server.schedTimer) (hn : st.now ≤ t) :
    o ≤ dsince t st.now :=
  Nat.le_trans (pickDecide_offset_le h ho).2 (peekScheduledInternalTimer_le_mem _ _ _ t hm hn)

end
end Mb.Sim
