/-
  Round trip and soundness of the string form.
-/
import MbVerif.MachineStr
import MbVerif.Proofs.CodecRoundtrip
import MbVerif.Proofs.CodecDecodeWF
import MbVerif.Proofs.CodecBase64

namespace Mb
namespace MStr
open Codec (Bytes)

theorem versionStr_length : versionStr.length = 2 := by decide

theorem versionStr_ascii : isAscii versionStr = true := by decide

theorem isAscii_append (a b : Bytes) : isAscii (a ++ b) = (isAscii a && isAscii b) := by
  simp [isAscii, List.all_append]

theorem isAscii_b64 (b : Bytes) : isAscii (B64.enc b) = true := by
  simp only [isAscii, List.all_eq_true, decide_eq_true_eq]
  exact B64.enc_ascii b

theorem b64_len_ge (b : Bytes) (h : b ≠ []) : 1 ≤ (B64.enc b).length := by
  match b with
  | [] => exact absurd rfl h
  | [_] => simp [B64.enc]
  | [_, _] => simp [B64.enc]
  | _ :: _ :: _ :: _ => simp [B64.enc]

theorem isBoundary_of_ascii {s : Bytes} (h : isAscii s = true) (i : Nat) (hi : i ≤ s.length) :
    isBoundary s i = true := by
  simp only [isBoundary, Bool.or_eq_true, beq_iff_eq]
  by_cases he : i = s.length
  · exact Or.inl he
  · right
    have hlt : i < s.length := by omega
    simp only [isAscii, List.all_eq_true, decide_eq_true_eq] at h
    have := h s[i] (List.getElem_mem hlt)
    simp [List.getElem?_eq_getElem hlt, this]

theorem strSlice_of_ascii {s : Bytes} (h : isAscii s = true) (lo hi : Nat) (h1 : lo ≤ hi) (h2 : hi ≤ s.length) :
    strSlice s lo hi = some ((s.drop lo).take (hi - lo)) := by
  simp [strSlice, h1, h2, isBoundary_of_ascii h lo (by omega), isBoundary_of_ascii h hi h2]

/-- the checked slices of `from_str` never fail: it computes `fromStrPure` -/
theorem fromStr_eq_pure (Z : Zlib) (s : Bytes) : fromStr Z s = fromStrPure Z s := by
  unfold fromStr fromStrPure
  split
  · rfl
  · rename_i hl
    split
    · rfl
    · rename_i ha
      have ha : isAscii s = true := by
        cases hx : isAscii s with
        | true => rfl
        | false => simp [hx] at ha
      rw [strSlice_of_ascii ha 0 2 (by omega) (by omega), strSlice_of_ascii ha 2 s.length (by omega) (by omega)]
      have : List.take (s.length - 2) (List.drop 2 s) = List.drop 2 s :=
        List.take_of_length_le (by simp)
      simp [this]

theorem fromStr_nopanic (Z : Zlib) (s : Bytes) : fromStr Z s ≠ .error .panic := by
  rw [fromStr_eq_pure]
  unfold fromStrPure fromBody
  repeat' split
  all_goals simp

theorem fromStr_serialize (Z : Zlib) (hZ : Z.Contract) (m : Machine)
    (hv : Validate.machine m = true) (hwf : Codec.WFm m = true)
    (hlen : (Codec.encMachine m).length ≤ MAX) :
    fromStr Z (serialize Z m) = .ok m := by
  have h1 := b64_len_ge _ (hZ.deflate_ne_nil (Codec.encMachine m))
  have hl : ¬ (serialize Z m).length < 3 := by
    simp [serialize, versionStr_length]; omega
  have ha : isAscii (serialize Z m) = true := by
    simp [serialize, isAscii_append, versionStr_ascii, isAscii_b64]
  have ht : (serialize Z m).take 2 = versionStr := by
    simp [serialize, versionStr_length]
  have hd : (serialize Z m).drop 2 = B64.enc (Z.deflate (Codec.encMachine m)) := by
    simp [serialize, versionStr_length]
  rw [fromStr_eq_pure]
  simp [fromStrPure, fromBody, hl, ha, ht, hd, B64.dec_enc, hZ.read_deflate _ hlen,
    Codec.decodeMachine_encMachine m hwf, hv]

theorem fromStr_ok {Z : Zlib} {s : Bytes} {m : Machine} (h : fromStr Z s = .ok m) :
    ∃ compressed raw, 3 ≤ s.length ∧ isAscii s = true ∧ s.take 2 = versionStr ∧
      B64.dec (s.drop 2) = some compressed ∧ Z.readOnce compressed = some raw ∧
      Codec.decodeMachine raw = some m ∧ Validate.machine m = true := by
  rw [fromStr_eq_pure] at h
  simp only [fromStrPure, fromBody] at h
  repeat' split at h
  all_goals (try simp at h)
  rename_i h1 h2 h3 _ c hc _ raw hr _ m' hm hv
  subst h
  exact ⟨c, raw, by omega, by simpa using h2, by simpa using h3, hc, hr, hm, hv⟩

end MStr
end Mb
