/-
  Helper lemmas for C20: the zip of the converted actions with the caller's buffer, and
  `convert_event`.
-/
import MbVerif.Proofs.FfiAction

namespace Mb.Ffi

theorem zipWrite_count (acts : List CAction) (slots : List Bytes) :
    (zipWrite acts slots).2 = min acts.length slots.length := by
  induction acts generalizing slots with
  | nil => simp [zipWrite]
  | cons a as ih => cases slots with
    | nil => simp [zipWrite]
    | cons s ss => simp [zipWrite, ih] <;> omega

theorem zipWrite_length (acts : List CAction) (slots : List Bytes) :
    (zipWrite acts slots).1.length = slots.length := by
  induction acts generalizing slots with
  | nil => simp [zipWrite]
  | cons a as ih => cases slots with
    | nil => simp [zipWrite]
    | cons s ss => simp [zipWrite, ih]

theorem zipWrite_take (acts : List CAction) (slots : List Bytes) :
    (zipWrite acts slots).1.take (zipWrite acts slots).2 =
      (acts.take (zipWrite acts slots).2).map encodeAction := by
  induction acts generalizing slots with
  | nil => simp [zipWrite]
  | cons a as ih => cases slots with
    | nil => simp [zipWrite]
    | cons s ss => simp [zipWrite, ih]

theorem zipWrite_drop (acts : List CAction) (slots : List Bytes) :
    (zipWrite acts slots).1.drop (zipWrite acts slots).2 = slots.drop (zipWrite acts slots).2 := by
  induction acts generalizing slots with
  | nil => simp [zipWrite]
  | cons a as ih => cases slots with
    | nil => simp [zipWrite]
    | cons s ss => simp [zipWrite, ih]

theorem take_drop_append_drop {α} (l : List α) (k n : Nat) (h : k ≤ n) :
    (l.take n).drop k ++ l.drop n = l.drop k := by
  have : l.drop n = (l.drop k).drop (n - k) := by rw [List.drop_drop]; congr 1; omega
  rw [List.drop_take, this, List.take_append_drop]

theorem writeSlots_count (acts : List CAction) (n : Nat) (buf : List Bytes) :
    (writeSlots acts n buf).2 = min acts.length (min n buf.length) := by
  simp [writeSlots, zipWrite_count]

theorem writeSlots_length (acts : List CAction) (n : Nat) (buf : List Bytes) :
    (writeSlots acts n buf).1.length = buf.length := by
  simp [writeSlots, zipWrite_length]; omega

/-- nothing from index `count` on is touched -/
theorem writeSlots_drop (acts : List CAction) (n : Nat) (buf : List Bytes) :
    (writeSlots acts n buf).1.drop (writeSlots acts n buf).2 = buf.drop (writeSlots acts n buf).2 := by
  have hk : (zipWrite acts (buf.take n)).2 ≤ (zipWrite acts (buf.take n)).1.length := by
    rw [zipWrite_count, zipWrite_length]; omega
  have hk' : (zipWrite acts (buf.take n)).2 ≤ n := by
    rw [zipWrite_count]; simp; omega
  simp only [writeSlots]
  rw [List.drop_append_of_le_length hk, zipWrite_drop]
  exact take_drop_append_drop buf _ n hk'

/-- the first `count` slots hold the encoded actions, in order -/
theorem writeSlots_take (acts : List CAction) (n : Nat) (buf : List Bytes) :
    (writeSlots acts n buf).1.take (writeSlots acts n buf).2 =
      (acts.take (writeSlots acts n buf).2).map encodeAction := by
  have hk : (zipWrite acts (buf.take n)).2 ≤ (zipWrite acts (buf.take n)).1.length := by
    rw [zipWrite_count, zipWrite_length]; omega
  simp only [writeSlots]
  rw [List.take_append_of_le_length hk, zipWrite_take]

/-- beyond `num_machines` nothing is ever touched, whatever the framework returns -/
theorem writeSlots_drop_n (acts : List CAction) (n : Nat) (buf : List Bytes) :
    (writeSlots acts n buf).1.drop n = buf.drop n := by
  have h1 := writeSlots_drop acts n buf
  have hk : (writeSlots acts n buf).2 ≤ n := by rw [writeSlots_count]; omega
  have : ∀ l : List Bytes, l.drop n = (l.drop (writeSlots acts n buf).2).drop (n - (writeSlots acts n buf).2) := by
    intro l; rw [List.drop_drop]; congr 1; omega
  rw [this, h1, ← this]

/-! ### events -/

/-- name of the same-named C event type -/
def evName : TEvent → String
  | .normalRecv => "NormalRecv"
  | .paddingRecv => "PaddingRecv"
  | .tunnelRecv => "TunnelRecv"
  | .normalSent => "NormalSent"
  | .paddingSent _ => "PaddingSent"
  | .tunnelSent => "TunnelSent"
  | .blockingBegin _ => "BlockingBegin"
  | .blockingEnd => "BlockingEnd"
  | .timerBegin _ => "TimerBegin"
  | .timerEnd _ => "TimerEnd"

/-- the machine carried by a per-machine event -/
def evMachine : TEvent → Option Nat
  | .paddingSent m | .blockingBegin m | .timerBegin m | .timerEnd m => some m
  | _ => none

/-- `convert_event` only ever produces the same-named event, with the C event's machine id -/
theorem convertEvent_sound (e : CEvent) (t : TEvent) (h : convertEvent e = some t) :
    e.eventType = evType (evName t) ∧ (∀ m, evMachine t = some m → m = e.machine) := by
  unfold convertEvent at h
  repeat' split at h
  all_goals (cases h)
  all_goals (refine ⟨by assumption, ?_⟩; intro m hm; simp [evMachine] at hm <;> exact hm.symm)

/-- every framework event is the image of the same-named C event (the ten constants are distinct) -/
theorem convertEvent_eventOf (t : TEvent) : convertEvent (eventOf t) = some t := by
  cases t <;> simp (config := { decide := true }) [convertEvent, eventOf]

end Mb.Ffi
