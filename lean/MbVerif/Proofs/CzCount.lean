/-
  C08, call level: a machine receives CounterZero at most twice per call (once per counter),
  counted on the ghost log. Potential: CounterZero deliveries to the machine so far + number of
  its guard flags still unset; no step of a call after its start increases it.
-/
import MbVerif.Proofs.WorkBound

namespace Mb
variable {σ : Type} (ρ : Oracle σ)

/-- weight 1 on the CounterZero deliveries to machine `mi0` -/
def μCz (mi0 : Nat) : LogEntry → Nat
  | .trans m ev _ => if m = mi0 ∧ ev = Gen.EV_CounterZero then 1 else 0
  | _ => 0

theorem μCz_transOnly (mi0 : Nat) : TransOnly (μCz mi0) := by
  intro e he
  cases e with
  | trans m ev st => exact absurd rfl (he m ev st)
  | _ => rfl

/-- CounterZero events delivered to machine `mi0` according to the log -/
def czOf (mi0 : Nat) (s : Fw σ) : Nat := wsum (μCz mi0) s.log

/-- deliveries so far plus guard flags still unset -/
def czPot (mi0 : Nat) (s : Fw σ) : Nat := czOf mi0 s + unset s mi0

theorem toNat_counterZero (ev : Event) : ev.toNat = Gen.EV_CounterZero ↔ ev = .counterZero := by
  cases ev <;> decide

theorem czPot_transition (mi0 j : Nat) (ev : Event) (s : Fw σ) (hev : ev ≠ .counterZero) :
    czPot mi0 (transition ρ FUEL j ev s).1 ≤ czPot mi0 s := by
  unfold czPot czOf
  by_cases hj : j = mi0
  · subst hj
    have := (count_main ρ (μCz_transOnly j) 1 FUEL).1 j ev 0 s
      (fun st => by
        simp only [μCz, toNat_counterZero]
        simp [hev])
      (fun st => by simp only [μCz]; split <;> omega)
    omega
  · have := (count_main ρ (μCz_transOnly mi0) 0 FUEL).1 j ev 0 s
      (fun st => by simp [μCz, hj])
      (fun st => by simp [μCz, hj])
    have hu : unset (transition ρ FUEL j ev s).1 mi0 = unset s mi0 :=
      unset_congr ((transition_reach ρ FUEL j ev s).frame.rtOther mi0 (fun h => hj h.symm))
    omega

theorem czPot_same {mi0 : Nat} {s t : Fw σ} (hl : t.log = s.log) (hr : t.rt[mi0]? = s.rt[mi0]?) :
    czPot mi0 t ≤ czPot mi0 s := by
  unfold czPot czOf
  rw [hl, unset_congr hr]

theorem czPot_modRt (mi0 j : Nat) (f : Runtime → Runtime) (s : Fw σ)
    (hA : ∀ r, (f r).zeroedA = r.zeroedA) (hB : ∀ r, (f r).zeroedB = r.zeroedB) :
    czPot mi0 (s.modRt j f) ≤ czPot mi0 s := by
  unfold czPot czOf
  rw [Fw.modRt_log]
  by_cases hj : j = mi0
  · subst hj; rw [unset_modRt_keep s j f hA hB]
  · rw [unset_congr (Fw.modRt_rt_other s j mi0 f (fun h => hj h.symm))]

theorem czPot_push (mi0 : Nat) (s : Fw σ) (e : LogEntry) (he : ∀ m ev st, e ≠ .trans m ev st) :
    czPot mi0 (s.push e) ≤ czPot mi0 s := by
  unfold czPot czOf
  rw [(quiet_push (μCz_transOnly mi0) s e he).w, unset_push]

theorem czPot_decrement (mi0 j : Nat) (s : Fw σ) : czPot mi0 (decrementLimit ρ j s) ≤ czPot mi0 s := by
  unfold decrementLimit
  cases hr : s.rt[j]? with
  | none => exact czPot_same (by simp) (by simp)
  | some r =>
  cases hm : s.machines[j]? with
  | none => exact czPot_same (by simp) (by simp)
  | some m =>
  simp only []
  generalize (if r.stateLimit > 0 then r.stateLimit - 1 else r.stateLimit) = lim
  have h1 : czPot mi0 ((s.modRt j (fun r' => { r' with stateLimit := lim })).push (.limit j lim true)) ≤ czPot mi0 s :=
    Nat.le_trans (czPot_push mi0 _ _ (fun _ _ _ h => by cases h)) (czPot_modRt mi0 j _ s (fun _ => rfl) (fun _ => rfl))
  generalize (s.modRt j (fun r' => { r' with stateLimit := lim })).push (.limit j lim true) = s1 at h1 ⊢
  cases hst : m.states[r.currentState]? with
  | none => exact Nat.le_trans (czPot_same (by simp) (by simp)) h1
  | some st =>
  simp only []
  cases hact : st.action with
  | none => exact h1
  | some a =>
    simp only []
    split
    · split
      · exact Nat.le_trans (czPot_same (by simp) (by simp)) h1
      · refine Nat.le_trans (czPot_transition ρ mi0 j .limitReached _ (by decide)) ?_
        exact Nat.le_trans (czPot_same (t := { s1 with actions := s1.actions.set j none }) rfl rfl) h1
    · exact h1

/-- after the start of a call the potential never grows: a walker over events -/
theorem walkCz (mi0 : Nat) : WalkEv ρ (fun (s t : Fw σ) => czPot mi0 t ≤ czPot mi0 s) where
  refl s := Nat.le_refl _
  trans h₁ h₂ := Nat.le_trans h₂ h₁
  transition j ev s hev := czPot_transition ρ mi0 j ev s hev
  decrement j s _ := czPot_decrement ρ mi0 j s
  fault s f := czPot_same (by simp) (by simp)
  signal s p := czPot_same rfl rfl
  setG s g' := czPot_same rfl rfl
  acct s j f hf := czPot_modRt mi0 j f s (fun r => by rw [hf r]) (fun r => by rw [hf r])

/-- **At most two CounterZero deliveries per machine per call.** -/
theorem cz_triggerEvents (mi0 : Nat) (es : List TEvent) (t : Int) (s : Fw σ) :
    czOf mi0 (triggerEvents ρ es t s) ≤ czOf mi0 s + 2 := by
  unfold triggerEvents
  have W := walkCz ρ (σ := σ) mi0
  have h1 : czPot mi0 (es.foldl (fun s e => processEvent ρ e s) (s.callStart t)) ≤ czPot mi0 (s.callStart t) :=
    W.toWalkCore.foldl _ (fun a e => W.processEvent e a) es _
  have h2 := W.toWalkCore.signalRound (es.foldl (fun s e => processEvent ρ e s) (s.callStart t))
  have h0 : czOf mi0 (s.callStart t) = czOf mi0 s := rfl
  have hu := unset_le_two (s.callStart t) mi0
  unfold czPot at h1 h2
  omega

end Mb
