/-
  Basic facts about the float model used by the framework proofs.
-/
import MbVerif.Framework
import Mathlib.Data.Rat.Floor
import Mathlib.Tactic.Linarith
import Mathlib.Tactic.NormNum

namespace Mb
open Fp

theorem toU64_fin (q : Rat) :
    toU64 (.fin q) = if q < 0 then 0 else (if q.floor.toNat > u64Max then u64Max else q.floor.toNat) := rfl

theorem fround_fin (q : Rat) :
    fround (.fin q) = if q < 0 then .fin (-(((-q) + 1/2).floor : Rat)) else .fin ((q + 1/2).floor : Rat) := rfl

theorem toU64_fin_le {x : Rat} {M : Nat} (h : x ≤ (M : Rat)) : toU64 (.fin x) ≤ M := by
  rw [toU64_fin]
  split
  · exact Nat.zero_le _
  · have hfl : x.floor < (M : Int) + 1 := by
      rw [Rat.floor_lt_iff]; push_cast; linarith
    have : x.floor.toNat ≤ M := by omega
    split <;> omega

theorem toU64_lt (v : FV) : toU64 v ≤ u64Max := by
  cases v with
  | nan => simp [toU64]
  | inf b => cases b <;> simp [toU64]
  | fin q => rw [toU64_fin]; split <;> [omega; (split <;> omega)]

theorem fround_fin_le {q : Rat} {M : Nat} (h : q ≤ (M : Rat)) :
    ∃ x, fround (.fin q) = .fin x ∧ x ≤ (M : Rat) := by
  rw [fround_fin]
  split
  · next hq =>
    refine ⟨_, rfl, ?_⟩
    have h0 : (0 : Int) ≤ (-q + 1/2).floor := by
      rw [Rat.le_floor_iff]; push_cast; linarith
    have h0' : (0:Rat) ≤ (((-q + 1/2).floor : Int) : Rat) := by exact_mod_cast h0
    have hM : (0:Rat) ≤ (M : Rat) := by exact_mod_cast Nat.zero_le M
    linarith
  · next hq =>
    refine ⟨_, rfl, ?_⟩
    have : (q + 1/2).floor < (M : Int) + 1 := by
      rw [Rat.floor_lt_iff]; push_cast; linarith
    have : (q + 1/2).floor ≤ (M : Int) := by omega
    exact_mod_cast this

/-- `min(MAX).round() as u64` never exceeds MAX, whatever the sampled value (NaN, ±inf included) -/
theorem toMicros_le (M : Nat) (v : FV) : toMicros M v ≤ M := by
  unfold toMicros
  have key : ∀ w : FV, (w = .inf true ∨ ∃ q, w = .fin q ∧ q ≤ (M : Rat)) → toU64 (fround w) ≤ M := by
    intro w hw
    rcases hw with rfl | ⟨q, rfl, hq⟩
    · simp [fround, toU64]
    · obtain ⟨x, hx, hxM⟩ := fround_fin_le hq
      rw [hx]; exact toU64_fin_le hxM
  apply key
  cases v with
  | nan => right; exact ⟨_, rfl, le_refl _⟩
  | inf b =>
    cases b
    · right; refine ⟨(M:Rat), ?_, le_refl _⟩
      simp [fmin, lt]
    · left; simp [fmin, lt]
  | fin q =>
    right
    by_cases h : (M : Rat) < q
    · refine ⟨(M:Rat), ?_, le_refl _⟩
      simp [fmin, lt, h]
    · refine ⟨q, ?_, not_lt.mp h⟩
      simp [fmin, lt, h]

end Mb
