/-
  Helper lemmas for C20: the checks of Spec/C20.lean hold of what the model of the C API lets a
  caller observe (so the monitor never rejects the modelled behaviour, and what it checks is what
  the theorems of Props/C20.lean establish).
-/
import MbVerif.Proofs.FfiBuffer
import MbVerif.Spec.C20

namespace Mb.C20
open Mb Mb.Ffi

theorem holds_nil : Holds [] := by intro c hc; cases hc

theorem holds_cons (c : Check) (cs : List Check) : Holds (c :: cs) ↔ c.1 = true ∧ Holds cs := by
  constructor
  · intro h; exact ⟨h c (by simp), fun d hd => h d (by simp [hd])⟩
  · intro h d hd
    cases hd with
    | head => exact h.1
    | tail _ hd => exact h.2 d hd

theorem holds_append (a b : List Check) : Holds (a ++ b) ↔ Holds a ∧ Holds b := by
  constructor
  · intro h; exact ⟨fun d hd => h d (by simp [hd]), fun d hd => h d (by simp [hd])⟩
  · intro h d hd
    rcases List.mem_append.mp hd with hd | hd
    · exact h.1 d hd
    · exact h.2 d hd

theorem firstFail_none_iff (cs : List Check) : firstFail cs = none ↔ Holds cs := by
  induction cs with
  | nil => simp [firstFail, holds_nil]
  | cons c cs ih =>
    rw [holds_cons, ← ih]
    cases hc : c.1 <;> simp [firstFail, hc]

/-- result codes -/
theorem rc_null_ne_ok : RC_NullPointer ≠ RC_Ok := by decide

theorem onEventsRc_cases (n : Nulls) :
    (n.any = true ∧ onEventsRc n = RC_NullPointer) ∨ (n.any = false ∧ onEventsRc n = RC_Ok) := by
  cases n with
  | mk a b c d => cases a <;> cases b <;> cases c <;> cases d <;> simp [Nulls.any, onEventsRc]

/-- decoding the slots written for in-range framework actions gives their views -/
theorem decode_written (acts : List TAction) (h : ∀ a ∈ acts, inRange a) :
    ((acts.map convertAction).map encodeAction).map decodeAction = acts.map (fun a => some (view a)) := by
  induction acts with
  | nil => rfl
  | cons a as ih =>
    simp only [List.map_cons]
    rw [ih (fun b hb => h b (by simp [hb])), decode_encode _ (convertAction_fits a (h a (by simp))),
      convertAction_eq_view]

section
variable {σ : Type} (ρ : Oracle σ)

/-- THE MODEL SATISFIES THE SPECIFICATION: for a caller whose memory is `g` guard slots, the `n`
    output slots and `g` more guard slots, all filled with `pat`, every check of
    `EvObs.checks` holds of what `apiOnEvents` lets the caller observe — given the framework's
    output contract C04 (at most one action per machine, numbers within the Rust types). -/
theorem model_satisfies_checks (nulls : Nulls) (s : Fw σ) (now : Int) (evs : List CEvent) (g : Nat) (pat : Bytes)
    (out : CallOut σ)
    (hrun : apiOnEvents ρ nulls s now evs (List.replicate (s.machines.length + g) pat) = some out)
    (hC04 : ∀ tes, evs.mapM convertEvent = some tes →
      (triggerEvents ρ tes now s).actionsOut.length ≤ s.machines.length ∧
      ∀ a ∈ (triggerEvents ρ tes now s).actionsOut, inRange a) :
    Holds (EvObs.checks { nulls := nulls, rc := out.rc, count := out.count, nm := s.machines.length, guard := g,
                          patSlot := pat, mem := List.replicate g pat ++ out.buf, ref := out.fw.actionsOut }) := by
  unfold apiOnEvents at hrun
  rcases onEventsRc_cases nulls with ⟨_, hrc⟩ | ⟨_, hrc⟩
  · -- a null pointer: nothing is touched
    rw [hrc] at hrun
    simp only [ne_eq, rc_null_ne_ok, not_false_eq_true, if_true, Option.some.injEq] at hrun
    subst hrun
    have hne : (RC_NullPointer == RC_Ok) = false := by decide
    simp only [EvObs.checks, EvObs.slots, hrc, hne, holds_append, holds_cons, holds_nil, and_true, beq_iff_eq,
      Bool.false_eq_true, if_false]
    refine ⟨⟨trivial, ?_, ?_, ?_⟩, trivial, ?_⟩
    · simp; omega
    · simp
    · rw [List.drop_append]; simp
    · rw [List.drop_append]; simp
  · -- the call goes through
    rw [hrc] at hrun
    simp only [ne_eq, not_true_eq_false, if_false] at hrun
    unfold onEvents at hrun
    cases hm : evs.mapM convertEvent with
    | none => simp [hm] at hrun
    | some tes =>
      obtain ⟨hlen, hrange⟩ := hC04 tes hm
      simp only [hm, Option.map_some, Option.some.injEq] at hrun
      subst hrun
      generalize hacts : (triggerEvents ρ tes now s).actionsOut = acts at hlen hrange
      generalize hn : s.machines.length = n at hlen
      have hcount : (writeSlots (acts.map convertAction) n (List.replicate (n + g) pat)).2 = acts.length := by
        rw [writeSlots_count]; simp; omega
      have htake := writeSlots_take (acts.map convertAction) n (List.replicate (n + g) pat)
      have hdrop := writeSlots_drop (acts.map convertAction) n (List.replicate (n + g) pat)
      have hdropn := writeSlots_drop_n (acts.map convertAction) n (List.replicate (n + g) pat)
      have hblen := writeSlots_length (acts.map convertAction) n (List.replicate (n + g) pat)
      rw [hcount] at htake hdrop
      generalize (writeSlots (acts.map convertAction) n (List.replicate (n + g) pat)).1 = buf' at *
      have hok : (RC_Ok == RC_Ok) = true := by decide
      simp only [EvObs.checks, EvObs.slots, hok, hrc, hcount, holds_append, holds_cons, holds_nil, and_true,
        beq_iff_eq, if_true, decide_eq_true_eq]
      have hg : (List.replicate g pat ++ buf').drop g = buf' := by
        rw [List.drop_append]; simp
      refine ⟨⟨trivial, ?_, ?_, ?_⟩, hlen, trivial, ?_, ?_⟩
      · simp at hblen ⊢; omega
      · simp
      · rw [List.drop_append]
        simp only [List.length_replicate, Nat.add_sub_cancel_left, List.drop_replicate, hdropn]
        simp
      · rw [hg, List.take_take, Nat.min_eq_left hlen, htake]
        rw [List.take_of_length_le (by simp)]
        exact decode_written acts hrange
      · rw [hg, List.drop_take, hdrop]
        simp
        omega
end

end Mb.C20
