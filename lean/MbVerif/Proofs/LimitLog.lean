/-
  C07, call level, the monitor's rules on the model's own log: the ghost log segment of any call
  that ends without a fault is accepted by the monitor `C07.checkLog` (Spec/C07.lean) started from
  the (state, limit) pairs of the snapshot before the call — a change of state index is directly
  followed by the assignment of a fresh limit (after the draw of the limit distribution, if any), a
  self-transition is not; every decrement lowers the tracked limit by one (not below 0) and is
  directly followed by the delivery of LimitReached to the same machine exactly when it reached 0
  in a state whose action carries a limit.

  Method (as in `CounterLog.lean`): `Good lim st c lim' st'` says that the monitor, started with the
  tracked maps `lim`/`st` in front of the chronological segment `c` followed by any continuation
  that the look-ahead of the monitor cannot confuse with a resampling or a LimitReached delivery
  (`Hb`), ends up with `lim'`/`st'` in front of the continuation. Such segments compose. `Inv` ties
  the tracked maps to the model's runtimes. The relation `R s t` ("if `t` has no fault then neither
  has `s`, and `t` extends the log of `s` by a good segment, carrying the invariant along") is
  reflexive, transitive and holds for `transition` / `updateCounter` (mutual induction on the fuel;
  no fuel potential is needed: an exhausted fuel is a fault) and for the limit decrement, hence — by
  the walker of `WalkExt.lean` — for whole calls.
-/
import MbVerif.Proofs.WalkExt
import MbVerif.Proofs.Countdown
import MbVerif.Spec.C07

namespace Mb
namespace LL
open C07 (checkLog isRegular hasLimitAt)

/-! ### the monitor, entry by entry -/

abbrev LT := Nat → Option (Nat × Nat)

/-- `f` with the value at `i` replaced by `v` (the monitor's map update) -/
def upd (f : Nat → Nat) (i v : Nat) : Nat → Nat := fun j => if j == i then v else f j

/-- the monitor's look-ahead after a sampled state: does a limit assignment for `mi` follow -/
def followsB (mi : Nat) : List LogEntry → Bool
  | .limit m _ false :: _ => m == mi
  | .distRaw _ :: .limit m _ false :: _ => m == mi
  | _ => false

/-- the monitor's look-ahead after a decrement: does the LimitReached delivery to `mi` follow -/
def nextLR (mi : Nat) : List LogEntry → Bool
  | .trans m ev _ :: _ => m == mi && ev == Gen.EV_LimitReached
  | _ => false

theorem checkLog_trans (ms : List Machine) (lim st : Nat → Nat) (lt : LT) (mi ev s : Nat) (rest : List LogEntry) :
    checkLog ms lim st lt (.trans mi ev s :: rest) =
      checkLog ms lim st (fun j => if j == mi then some (ev, s) else lt j) rest := by
  simp only [checkLog]

theorem checkLog_draw (ms : List Machine) (lim st : Nat → Nat) (lt : LT) (b : F32) (rest : List LogEntry) :
    checkLog ms lim st lt (.draw b :: rest) = checkLog ms lim st lt rest := by
  simp only [checkLog]

theorem checkLog_distRaw (ms : List Machine) (lim st : Nat → Nat) (lt : LT) (b : F64) (rest : List LogEntry) :
    checkLog ms lim st lt (.distRaw b :: rest) = checkLog ms lim st lt rest := by
  simp only [checkLog]

theorem checkLog_counter (ms : List Machine) (lim st : Nat → Nat) (lt : LT) (mi a b c d : Nat) (rest : List LogEntry) :
    checkLog ms lim st lt (.counter mi a b c d :: rest) = checkLog ms lim st lt rest := by
  simp only [checkLog]

theorem checkLog_limitF (ms : List Machine) (lim st : Nat → Nat) (lt : LT) (mi v : Nat) (rest : List LogEntry) :
    checkLog ms lim st lt (.limit mi v false :: rest) = checkLog ms (upd lim mi v) st lt rest := by
  simp only [checkLog]; rfl

theorem checkLog_limitT (ms : List Machine) (lim st : Nat → Nat) (lt : LT) (mi v : Nat) (rest : List LogEntry) :
    checkLog ms lim st lt (.limit mi v true :: rest) =
      if v != (if lim mi > 0 then lim mi - 1 else 0) then some s!"machine {mi}: limit decremented from {lim mi} to {v}" else
      if (v == 0 && hasLimitAt ms mi (st mi)) && !nextLR mi rest then
        some s!"machine {mi}: limit reached 0 in state {st mi} but LimitReached was not raised"
      else if !(v == 0 && hasLimitAt ms mi (st mi)) && nextLR mi rest then some s!"machine {mi}: LimitReached raised with limit {v}"
      else checkLog ms (upd lim mi v) st lt rest := by
  cases rest with
  | nil => (simp only [checkLog, nextLR]; try rfl)
  | cons b r => cases b <;> (simp only [checkLog, nextLR]; try rfl)

theorem checkLog_sampled (ms : List Machine) (lim st : Nat → Nat) (lt : LT) (mi ev next : Nat) (rest : List LogEntry) :
    checkLog ms lim st lt (.sampled mi ev next :: rest) =
      if isRegular next then
        if next != st mi && !followsB mi rest then
          some s!"machine {mi} moved from state {st mi} to {next} but its limit was not resampled"
        else if next == st mi && followsB mi rest then
          some s!"machine {mi}: self-transition in state {st mi} refreshed the limit"
        else checkLog ms lim (upd st mi next) lt rest
      else if next == STATE_END then checkLog ms lim (upd st mi STATE_END) lt rest
      else checkLog ms lim st lt rest := by
  cases rest with
  | nil => (simp only [checkLog, followsB]; try rfl)
  | cons b r =>
    cases b with
    | limit m v d => cases d <;> (simp only [checkLog, followsB]; try rfl)
    | distRaw x =>
      cases r with
      | nil => (simp only [checkLog, followsB]; try rfl)
      | cons b2 r2 =>
        cases b2 with
        | limit m v d => cases d <;> (simp only [checkLog, followsB]; try rfl)
        | _ => (simp only [checkLog, followsB]; try rfl)
    | _ => (simp only [checkLog, followsB]; try rfl)

/-- the result of the monitor does not depend on the (write-only) `lastTrans` map -/
theorem checkLog_lt (ms : List Machine) (l : List LogEntry) :
    ∀ (lim st : Nat → Nat) (lt lt' : LT), checkLog ms lim st lt l = checkLog ms lim st lt' l := by
  induction l with
  | nil => intro _ _ _ _; simp only [checkLog]
  | cons e l ih =>
    intro lim st lt lt'
    cases e with
    | trans mi ev s => rw [checkLog_trans, checkLog_trans]; exact ih _ _ _ _
    | draw b => rw [checkLog_draw, checkLog_draw]; exact ih _ _ _ _
    | distRaw b => rw [checkLog_distRaw, checkLog_distRaw]; exact ih _ _ _ _
    | counter mi a b c d => rw [checkLog_counter, checkLog_counter]; exact ih _ _ _ _
    | sampled mi ev next =>
      rw [checkLog_sampled, checkLog_sampled, ih _ _ lt lt', ih _ _ lt lt', ih _ _ lt lt']
    | limit mi v d =>
      cases d with
      | false => rw [checkLog_limitF, checkLog_limitF]; exact ih _ _ _ _
      | true => rw [checkLog_limitT, checkLog_limitT, ih _ _ lt lt']

/-! ### continuations and good segments -/

/-- continuations that the monitor's look-ahead cannot take for a resampling or for a LimitReached
    delivery: they start neither with a LimitReached delivery, nor with a limit assignment, nor
    with a distribution draw followed by a limit assignment -/
def Hb : List LogEntry → Bool
  | .trans _ ev _ :: _ => ev != Gen.EV_LimitReached
  | .limit _ _ false :: _ => false
  | .distRaw _ :: .limit _ _ false :: _ => false
  | _ => true

theorem Hb_follows (mi : Nat) (l : List LogEntry) (h : Hb l = true) : followsB mi l = false := by
  cases l with
  | nil => rfl
  | cons b r =>
    cases b with
    | limit m v d => cases d <;> simp_all [Hb, followsB]
    | distRaw x =>
      cases r with
      | nil => rfl
      | cons b2 r2 =>
        cases b2 with
        | limit m v d => cases d <;> simp_all [Hb, followsB]
        | _ => rfl
    | _ => rfl

theorem Hb_nextLR (mi : Nat) (l : List LogEntry) (h : Hb l = true) : nextLR mi l = false := by
  cases l with
  | nil => rfl
  | cons b r =>
    cases b with
    | trans m ev s =>
      have : (ev == Gen.EV_LimitReached) = false := by simpa [Hb] using h
      simp [nextLR, this]
    | _ => rfl

/-- entries the monitor skips -/
def plain : LogEntry → Bool
  | .trans _ ev _ => ev != Gen.EV_LimitReached
  | .draw _ => true
  | .distRaw _ => true
  | .counter .. => true
  | _ => false

theorem Hb_cons_plain (e : LogEntry) (he : plain e = true) (l : List LogEntry) (h : Hb l = true) :
    Hb (e :: l) = true := by
  cases e with
  | trans m ev s => simpa [Hb, plain] using he
  | draw b => rfl
  | counter => rfl
  | distRaw x =>
    cases l with
    | nil => rfl
    | cons b r =>
      cases b with
      | limit m v d => cases d <;> simp_all [Hb]
      | _ => rfl
  | sampled => cases he
  | limit => cases he

theorem Hb_cons_sampled (mi ev next : Nat) (l : List LogEntry) : Hb (.sampled mi ev next :: l) = true := rfl
theorem Hb_cons_limitT (mi v : Nat) (l : List LogEntry) : Hb (.limit mi v true :: l) = true := rfl

theorem checkLog_plain (ms : List Machine) (lim st : Nat → Nat) (lt : LT) (e : LogEntry) (he : plain e = true)
    (rest : List LogEntry) : checkLog ms lim st lt (e :: rest) = checkLog ms lim st lt rest := by
  cases e with
  | trans m ev s => rw [checkLog_trans]; exact checkLog_lt ms rest _ _ _ _
  | draw b => exact checkLog_draw ..
  | counter => exact checkLog_counter ..
  | distRaw x => exact checkLog_distRaw ..
  | sampled => cases he
  | limit => cases he

/-- the monitor, started with `lim`/`st` in front of `c ++ rest`, reaches `rest` with `lim'`/`st'`
    (for every continuation `rest` with `Hb rest`), and `c ++ rest` is again such a continuation -/
structure Good (ms : List Machine) (lim st : Nat → Nat) (c : List LogEntry) (lim' st' : Nat → Nat) : Prop where
  hd : ∀ rest, Hb rest = true → Hb (c ++ rest) = true
  chk : ∀ (lt : LT) rest, Hb rest = true → checkLog ms lim st lt (c ++ rest) = checkLog ms lim' st' lt rest

theorem Good.nil (ms : List Machine) (lim st : Nat → Nat) : Good ms lim st [] lim st :=
  ⟨fun _ h => h, fun _ _ _ => rfl⟩

theorem Good.append {ms : List Machine} {l0 s0 l1 s1 l2 s2 : Nat → Nat} {c₁ c₂ : List LogEntry}
    (h₁ : Good ms l0 s0 c₁ l1 s1) (h₂ : Good ms l1 s1 c₂ l2 s2) : Good ms l0 s0 (c₁ ++ c₂) l2 s2 := by
  refine ⟨fun rest hr => ?_, fun lt rest hr => ?_⟩
  · rw [List.append_assoc]; exact h₁.hd _ (h₂.hd _ hr)
  · rw [List.append_assoc, h₁.chk lt _ (h₂.hd _ hr), h₂.chk lt _ hr]

theorem Good.single (ms : List Machine) (lim st : Nat → Nat) (e : LogEntry) (he : plain e = true) :
    Good ms lim st [e] lim st :=
  ⟨fun rest hr => Hb_cons_plain e he rest hr, fun lt rest _ => checkLog_plain ms lim st lt e he rest⟩

theorem isRegular_of {next : Nat} (h1 : ¬ next = STATE_END) (h2 : ¬ next = STATE_SIGNAL) : isRegular next = true := by
  simp [isRegular, h1, h2]

/-- a sampled END: the tracked state becomes END -/
theorem Good.sampledEnd (ms : List Machine) (lim st : Nat → Nat) (mi ev : Nat) :
    Good ms lim st [.sampled mi ev STATE_END] lim (upd st mi STATE_END) := by
  refine ⟨fun rest _ => rfl, fun lt rest _ => ?_⟩
  show checkLog ms lim st lt (.sampled mi ev STATE_END :: rest) = _
  rw [checkLog_sampled]
  have h1 : isRegular STATE_END = false := by decide
  simp [h1]

/-- a sampled SIGNAL: nothing tracked changes -/
theorem Good.sampledSignal (ms : List Machine) (lim st : Nat → Nat) (mi ev : Nat) :
    Good ms lim st [.sampled mi ev STATE_SIGNAL] lim st := by
  refine ⟨fun rest _ => rfl, fun lt rest _ => ?_⟩
  show checkLog ms lim st lt (.sampled mi ev STATE_SIGNAL :: rest) = _
  rw [checkLog_sampled]
  have h1 : isRegular STATE_SIGNAL = false := by decide
  have h2 : (STATE_SIGNAL == STATE_END) = false := by decide
  simp [h1, h2]

/-- a self-transition: no limit assignment follows -/
theorem Good.sampledSelf (ms : List Machine) (lim st : Nat → Nat) (mi ev next : Nat) (hreg : isRegular next = true)
    (hcur : st mi = next) : Good ms lim st [.sampled mi ev next] lim (upd st mi next) := by
  refine ⟨fun rest _ => rfl, fun lt rest hr => ?_⟩
  show checkLog ms lim st lt (.sampled mi ev next :: rest) = _
  rw [checkLog_sampled, Hb_follows mi rest hr]
  simp [hreg, hcur]

/-- a change of the state index, directly followed by the limit assignment -/
theorem Good.resample0 (ms : List Machine) (lim st : Nat → Nat) (mi ev next v : Nat) (hreg : isRegular next = true)
    (hcur : st mi ≠ next) :
    Good ms lim st [.sampled mi ev next, .limit mi v false] (upd lim mi v) (upd st mi next) := by
  refine ⟨fun rest _ => rfl, fun lt rest hr => ?_⟩
  show checkLog ms lim st lt (.sampled mi ev next :: .limit mi v false :: rest) = _
  rw [checkLog_sampled, checkLog_limitF]
  have h1 : (next == st mi) = false := by simpa using fun h => hcur h.symm
  simp [hreg, followsB, h1]

/-- a change of the state index, followed by the draw of the limit distribution and the limit
    assignment -/
theorem Good.resample1 (ms : List Machine) (lim st : Nat → Nat) (mi ev next v : Nat) (b : F64)
    (hreg : isRegular next = true) (hcur : st mi ≠ next) :
    Good ms lim st [.sampled mi ev next, .distRaw b, .limit mi v false] (upd lim mi v) (upd st mi next) := by
  refine ⟨fun rest _ => rfl, fun lt rest hr => ?_⟩
  show checkLog ms lim st lt (.sampled mi ev next :: .distRaw b :: .limit mi v false :: rest) = _
  rw [checkLog_sampled, checkLog_distRaw, checkLog_limitF]
  have h1 : (next == st mi) = false := by simpa using fun h => hcur h.symm
  simp [hreg, followsB, h1]

/-- a decrement that does not use the limit up (or in a state whose action carries no limit): no
    LimitReached delivery follows -/
theorem Good.dec (ms : List Machine) (lim st : Nat → Nat) (mi v : Nat)
    (hv : v = if lim mi > 0 then lim mi - 1 else 0) (hnr : (v == 0 && hasLimitAt ms mi (st mi)) = false) :
    Good ms lim st [.limit mi v true] (upd lim mi v) st := by
  refine ⟨fun rest _ => rfl, fun lt rest hr => ?_⟩
  show checkLog ms lim st lt (.limit mi v true :: rest) = _
  rw [checkLog_limitT, Hb_nextLR mi rest hr, hnr, ← hv]
  simp

/-- a decrement to 0 in a state whose action carries a limit, directly followed by the LimitReached
    delivery to the same machine and then by a good segment -/
theorem Good.decLR (ms : List Machine) (lim st l2 s2 : Nat → Nat) (mi cur : Nat) (c : List LogEntry)
    (hv : 0 = if lim mi > 0 then lim mi - 1 else 0) (hr : hasLimitAt ms mi (st mi) = true)
    (hc : Good ms (upd lim mi 0) st c l2 s2) :
    Good ms lim st (.limit mi 0 true :: .trans mi Gen.EV_LimitReached cur :: c) l2 s2 := by
  refine ⟨fun rest _ => rfl, fun lt rest hrest => ?_⟩
  show checkLog ms lim st lt (.limit mi 0 true :: .trans mi Gen.EV_LimitReached cur :: (c ++ rest)) = _
  rw [checkLog_limitT, ← hv, hr, checkLog_trans]
  simp only [nextLR, beq_self_eq_true, Bool.and_self, Bool.not_true, Bool.and_false, Bool.false_eq_true, if_false,
    bne_self_eq_false]
  rw [checkLog_lt ms _ _ _ _ lt]
  exact hc.chk lt rest hrest

/-! ### the invariant tying the monitor's maps to the model -/

variable {σ : Type} (ρ : Oracle σ)

/-- the tracked maps agree with the runtimes (on the machines that exist), and the machines are
    those the monitor looks at -/
structure Inv (ms : List Machine) (lim st : Nat → Nat) (s : Fw σ) : Prop where
  ms : s.machines = ms
  rt : ∀ (j : Nat) (r : Runtime), s.rt[j]? = some r → lim j = r.stateLimit ∧ st j = r.currentState

/-- the part of a runtime the invariant depends on -/
def key (r : Runtime) : Nat × Nat := (r.stateLimit, r.currentState)

theorem Inv.congr {ms : List Machine} {lim st : Nat → Nat} {s t : Fw σ} (hm : t.machines = s.machines)
    (h : ∀ j : Nat, (t.rt[j]?).map key = (s.rt[j]?).map key) (hi : Inv ms lim st s) : Inv ms lim st t := by
  refine ⟨hm.trans hi.ms, fun j r hr => ?_⟩
  have := h j
  rw [hr] at this
  cases hs : s.rt[j]? with
  | none => rw [hs] at this; simp at this
  | some r0 =>
    rw [hs] at this
    simp only [Option.map_some, Option.some.injEq, key, Prod.mk.injEq] at this
    have hb := hi.rt j r0 hs
    rw [this.1, this.2]
    exact hb

/-- the invariant after machine `mi`'s limit / state were set -/
theorem Inv.update {ms : List Machine} {lim st : Nat → Nat} {s t : Fw σ} {mi : Nat} {r' : Runtime}
    (hi : Inv ms lim st s) (hm : t.machines = s.machines) (hr' : t.rt[mi]? = some r')
    (ho : ∀ j, j ≠ mi → t.rt[j]? = s.rt[j]?) :
    Inv ms (upd lim mi r'.stateLimit) (upd st mi r'.currentState) t := by
  refine ⟨hm.trans hi.ms, fun j r hr => ?_⟩
  by_cases hj : j = mi
  · subst hj
    rw [hr'] at hr
    cases hr
    simp [upd]
  · rw [ho j hj] at hr
    have := hi.rt j r hr
    simp [upd, hj, this]

theorem withFault_fault_ne (s : Fw σ) (f : Fault) : (s.withFault f).fault ≠ none := by
  unfold Fw.withFault
  split
  · next h => rw [h]; simp
  · simp

theorem modRt_fault (s : Fw σ) (j : Nat) (g : Runtime → Runtime) (h : (s.modRt j g).fault = none) :
    s.fault = none ∧ ∃ r, s.rt[j]? = some r := by
  unfold Fw.modRt at h
  split at h
  · next r hr => exact ⟨h, r, hr⟩
  · exact absurd h (withFault_fault_ne _ _)

/-! ### the relation carried through a call -/

/-- if `t` has no fault then `s` has none either, and `t` extends the log of `s` by a chronological
    segment `c` which the monitor accepts starting from any maps that agree with `s`, ending with
    maps that agree with `t` -/
def R (ms : List Machine) (s t : Fw σ) : Prop :=
  t.fault = none → s.fault = none ∧ ∃ c, t.log = c.reverse ++ s.log ∧
    ∀ lim st, Inv ms lim st s → ∃ lim' st', Good ms lim st c lim' st' ∧ Inv ms lim' st' t

variable {ms : List Machine}

theorem R.refl (s : Fw σ) : R ms s s :=
  fun h => ⟨h, [], rfl, fun lim st hi => ⟨lim, st, Good.nil ms lim st, hi⟩⟩

theorem R.trans {s t u : Fw σ} (h₁ : R ms s t) (h₂ : R ms t u) : R ms s u := by
  intro hu
  obtain ⟨ht, c2, e2, p2⟩ := h₂ hu
  obtain ⟨hs, c1, e1, p1⟩ := h₁ ht
  refine ⟨hs, c1 ++ c2, by rw [e2, e1, List.reverse_append, List.append_assoc], fun lim st hi => ?_⟩
  obtain ⟨l1, s1, g1, i1⟩ := p1 lim st hi
  obtain ⟨l2, s2, g2, i2⟩ := p2 l1 s1 i1
  exact ⟨l2, s2, g1.append g2, i2⟩

theorem R.vac {s t : Fw σ} (h : t.fault ≠ none) : R ms s t := fun ht => absurd ht h

theorem R.withFault (s : Fw σ) (f : Fault) : R ms s (s.withFault f) := R.vac (withFault_fault_ne s f)

theorem R.fault {s s' : Fw σ} (f : Fault) : R ms s (s'.withFault f) := R.vac (withFault_fault_ne s' f)

theorem R.keep {s t : Fw σ} (hf : t.fault = none → s.fault = none) (hl : t.log = s.log)
    (hm : t.machines = s.machines) (hk : ∀ j : Nat, (t.rt[j]?).map key = (s.rt[j]?).map key) : R ms s t :=
  fun ht => ⟨hf ht, [], by simp [hl], fun lim st hi => ⟨lim, st, Good.nil ms lim st, hi.congr hm hk⟩⟩

theorem R.same {s t : Fw σ} (hf : t.fault = s.fault) (hl : t.log = s.log) (hm : t.machines = s.machines)
    (hrt : t.rt = s.rt) : R ms s t :=
  R.keep (fun h => by rw [← hf]; exact h) hl hm (fun j => by rw [hrt])

theorem R.modRt (s : Fw σ) (j : Nat) (g : Runtime → Runtime) (hg : ∀ r, key (g r) = key r) :
    R ms s (s.modRt j g) := by
  refine R.keep (fun h => (modRt_fault s j g h).1) (by simp) (by simp) (fun i => ?_)
  by_cases hj : i = j
  · subst hj
    rw [Fw.modRt_rt_self]
    cases s.rt[i]? <;> simp [hg]
  · rw [Fw.modRt_rt_other s j i g hj]

/-- one more entry that the monitor skips -/
theorem R.log1 {s t : Fw σ} (e : LogEntry) (he : plain e = true) (hf : t.fault = s.fault) (hl : t.log = e :: s.log)
    (hm : t.machines = s.machines) (hrt : t.rt = s.rt) : R ms s t :=
  fun ht => ⟨by rw [← hf]; exact ht, [e], by simp [hl], fun lim st hi =>
    ⟨lim, st, Good.single ms lim st e he, hi.congr hm (fun j => by rw [hrt])⟩⟩

theorem R.push (s : Fw σ) (e : LogEntry) (he : plain e = true) : R ms s (s.push e) := R.log1 e he rfl rfl rfl rfl

/-- sampling: the log grows by skipped entries only; runtimes, machines and the fault flag are
    untouched -/
def Q (s t : Fw σ) : Prop :=
  ∃ c : List LogEntry, t.log = c.reverse ++ s.log ∧ (∀ e ∈ c, ∃ b, e = .distRaw b) ∧ t.rt = s.rt ∧
    t.machines = s.machines ∧ t.fault = s.fault ∧ t.actions = s.actions

theorem Q.refl (s : Fw σ) : Q s s := ⟨[], rfl, by simp, rfl, rfl, rfl, rfl⟩

theorem Q.trans {s t u : Fw σ} (h₁ : Q s t) (h₂ : Q t u) : Q s u := by
  obtain ⟨c1, e1, g1, r1, m1, f1, a1⟩ := h₁
  obtain ⟨c2, e2, g2, r2, m2, f2, a2⟩ := h₂
  refine ⟨c1 ++ c2, by rw [e2, e1, List.reverse_append, List.append_assoc], ?_, r2.trans r1, m2.trans m1, f2.trans f1,
    a2.trans a1⟩
  intro e he
  rcases List.mem_append.1 he with h | h
  · exact g1 e h
  · exact g2 e h

theorem good_plain (ms : List Machine) (lim st : Nat → Nat) (c : List LogEntry) (h : ∀ e ∈ c, plain e = true) :
    Good ms lim st c lim st := by
  induction c with
  | nil => exact Good.nil ms lim st
  | cons e c ih =>
    have := (Good.single ms lim st e (h e (by simp))).append (ih (fun e' he' => h e' (by simp [he'])))
    simpa using this

theorem Q.toR {s t : Fw σ} (h : Q s t) : R ms s t := by
  obtain ⟨c, e, g, r, m, f, _⟩ := h
  have g' : ∀ e ∈ c, plain e = true := by
    intro e he
    obtain ⟨b, rfl⟩ := g e he
    rfl
  exact fun ht => ⟨by rw [← f]; exact ht, c, e, fun lim st hi =>
    ⟨lim, st, good_plain ms lim st c g', hi.congr m (fun j => by rw [r])⟩⟩

theorem q_distSample (d : Dist) (s : Fw σ) : Q s (distSample ρ d s).2 := by
  unfold distSample
  exact ⟨[.distRaw _], rfl, by simp, rfl, rfl, rfl, rfl⟩

theorem q_sampleLimit (a : Action) (s : Fw σ) : Q s (sampleLimit ρ a s).2 := by
  unfold sampleLimit; split
  · exact Q.refl s
  · exact q_distSample ρ _ s

theorem q_sampleValue (c : Counter) (s : Fw σ) : Q s (sampleValue ρ c s).2 := by
  unfold sampleValue; split
  · exact Q.refl s
  · exact q_distSample ρ _ s

theorem q_sampleTimeout (a : Action) (s : Fw σ) : Q s (sampleTimeout ρ a s).2 := by
  unfold sampleTimeout; split
  · exact q_distSample ρ _ s
  · exact q_distSample ρ _ s
  · exact Q.refl s

theorem q_sampleDuration (a : Action) (s : Fw σ) : Q s (sampleDuration ρ a s).2 := by
  unfold sampleDuration; split
  · exact q_distSample ρ _ s
  · exact q_distSample ρ _ s
  · exact Q.refl s

theorem q_counterOperand (c : Counter) (other : Nat) (s : Fw σ) : Q s (counterOperand ρ c other s).2 := by
  unfold counterOperand; split
  · exact Q.refl s
  · exact q_sampleValue ρ c s

theorem r_scheduleAction (mi next : Nat) (s : Fw σ) : R ms s (scheduleAction ρ mi next s) := by
  unfold scheduleAction
  cases hm : s.machines[mi]? with
  | none => exact R.withFault s _
  | some m =>
    simp only []
    cases hst : m.states[next]? with
    | none => exact R.withFault s _
    | some st =>
      simp only []
      split
      · exact R.withFault s _
      · cases hact : st.action with
        | none => exact R.same rfl rfl rfl rfl
        | some act =>
          cases act with
          | cancel t => exact R.same rfl rfl rfl rfl
          | sendPadding b rp tmo lim =>
            simp only
            exact (q_sampleTimeout ρ _ s).toR.trans (R.same rfl rfl rfl rfl)
          | blockOutgoing b rp tmo du lim =>
            simp only
            exact ((q_sampleTimeout ρ _ s).trans (q_sampleDuration ρ _ _)).toR.trans (R.same rfl rfl rfl rfl)
          | updateTimer rp du lim =>
            simp only
            exact (q_sampleDuration ρ _ s).toR.trans (R.same rfl rfl rfl rfl)

theorem r_storeCounterA (mi oldA newA : Nat) (s : Fw σ) : R ms s (storeCounterA mi oldA newA s).1 := by
  unfold storeCounterA
  simp only
  split
  · exact (R.modRt s mi _ (by intro _; rfl)).trans (R.modRt _ mi _ (by intro _; rfl))
  · exact R.modRt s mi _ (fun _ => rfl)

theorem r_storeCounterB (mi oldB newB : Nat) (s : Fw σ) : R ms s (storeCounterB mi oldB newB s).1 := by
  unfold storeCounterB
  simp only
  split
  · exact (R.modRt s mi _ (by intro _; rfl)).trans (R.modRt _ mi _ (by intro _; rfl))
  · exact R.modRt s mi _ (fun _ => rfl)

theorem r_applyCounterA (mi : Nat) (c : Option Counter) (oldA oldB : Nat) (s : Fw σ) :
    R ms s (applyCounterA ρ mi c oldA oldB s).1 := by
  unfold applyCounterA
  cases c with
  | none => exact R.refl s
  | some c => exact (q_counterOperand ρ c oldB s).toR.trans (r_storeCounterA mi _ _ _)

theorem r_applyCounterB (mi : Nat) (c : Option Counter) (oldA oldB : Nat) (s : Fw σ) :
    R ms s (applyCounterB ρ mi c oldA oldB s).1 := by
  unfold applyCounterB
  cases c with
  | none => exact R.refl s
  | some c => exact (q_counterOperand ρ c oldA s).toR.trans (r_storeCounterB mi _ _ _)

/-! ### the state-change block -/

theorem sampleLimit_shape (a : Action) (s : Fw σ) :
    (sampleLimit ρ a s).2.rt = s.rt ∧ (sampleLimit ρ a s).2.machines = s.machines ∧
    (sampleLimit ρ a s).2.fault = s.fault ∧
    ∃ d : List LogEntry, (d = [] ∨ ∃ b, d = [.distRaw b]) ∧ (sampleLimit ρ a s).2.log = d.reverse ++ s.log := by
  unfold sampleLimit
  split
  · exact ⟨rfl, rfl, rfl, [], Or.inl rfl, rfl⟩
  · unfold distSample
    exact ⟨rfl, rfl, rfl, [.distRaw _], Or.inr ⟨_, rfl⟩, rfl⟩

/-- a sampled regular target different from the current state, (the draw of the limit
    distribution,) the limit assignment -/
theorem r_resample {s t : Fw σ} {mi ev next v : Nat} {r : Runtime} (d : List LogEntry)
    (hd : d = [] ∨ ∃ b, d = [.distRaw b])
    (hr : s.rt[mi]? = some r) (hne : r.currentState ≠ next) (hreg : isRegular next = true)
    (hf : t.fault = s.fault) (hm : t.machines = s.machines)
    (hl : t.log = .limit mi v false :: (d.reverse ++ .sampled mi ev next :: s.log))
    (hr' : t.rt[mi]? = some { r with currentState := next, stateLimit := v })
    (ho : ∀ j, j ≠ mi → t.rt[j]? = s.rt[j]?) : R ms s t := by
  intro ht
  refine ⟨by rw [← hf]; exact ht, .sampled mi ev next :: d ++ [.limit mi v false], by simp [hl], fun lim st hi => ?_⟩
  have hcur : st mi ≠ next := by rw [(hi.rt mi r hr).2]; exact hne
  refine ⟨upd lim mi v, upd st mi next, ?_, Inv.update hi hm hr' ho⟩
  rcases hd with rfl | ⟨b, rfl⟩
  · exact Good.resample0 ms lim st mi ev next v hreg hcur
  · exact Good.resample1 ms lim st mi ev next v b hreg hcur

/-- the sampled entry of a regular target together with the state-change block of `transition` -/
theorem r_sampledEnter (mi ev next : Nat) (m : Machine) (r : Runtime) (s : Fw σ)
    (hr : s.rt[mi]? = some r) (hreg : isRegular next = true) :
    R ms s (enterState ρ mi m r.currentState next (s.push (.sampled mi ev next))) := by
  unfold enterState
  split
  · next hne =>
    simp only
    have hr0 : ((s.push (.sampled mi ev next)).modRt mi (fun r => { r with currentState := next })).rt[mi]? =
        some { r with currentState := next } := by
      rw [Fw.modRt_rt_self, Fw.push_rt, hr]; rfl
    have hf0 : ((s.push (.sampled mi ev next)).modRt mi (fun r => { r with currentState := next })).fault = s.fault :=
      Countdown.modRt_fault_some _ _ _ r (by rw [Fw.push_rt]; exact hr)
    have ho0 : ∀ j, j ≠ mi →
        ((s.push (.sampled mi ev next)).modRt mi (fun r => { r with currentState := next })).rt[j]? = s.rt[j]? := by
      intro j hj; rw [Fw.modRt_rt_other _ mi j _ hj, Fw.push_rt]
    have hl0 : ((s.push (.sampled mi ev next)).modRt mi (fun r => { r with currentState := next })).log =
        .sampled mi ev next :: s.log := by simp [Fw.push]
    have hm0 : ((s.push (.sampled mi ev next)).modRt mi (fun r => { r with currentState := next })).machines =
        s.machines := by simp
    generalize (s.push (.sampled mi ev next)).modRt mi (fun r => { r with currentState := next }) = s0
      at hr0 hf0 ho0 hl0 hm0 ⊢
    cases hst : m.states[next]? with
    | none => simp only []; exact R.fault _
    | some nst =>
      simp only
      cases hact : nst.action with
      | none =>
        simp only
        refine r_resample (ms := ms) (ev := ev) (v := STATE_LIMIT_MAX) [] (Or.inl rfl) hr hne hreg ?_ ?_ ?_ ?_ ?_
        · rw [Fw.push_fault, Countdown.modRt_fault_some _ _ _ _ hr0]; exact hf0
        · simp [hm0]
        · simp [Fw.push, hl0]
        · rw [Fw.push_rt, Fw.modRt_rt_self, hr0]; rfl
        · intro j hj; rw [Fw.push_rt, Fw.modRt_rt_other _ mi j _ hj]; exact ho0 j hj
      | some a =>
        simp only
        obtain ⟨k1, k2, k3, d, hd, k4⟩ := sampleLimit_shape ρ a s0
        generalize sampleLimit ρ a s0 = p at k1 k2 k3 k4 ⊢
        have hrp : p.2.rt[mi]? = some { r with currentState := next } := by rw [k1]; exact hr0
        refine r_resample (ms := ms) (ev := ev) (v := p.1) d hd hr hne hreg ?_ ?_ ?_ ?_ ?_
        · rw [Fw.push_fault, Countdown.modRt_fault_some _ _ _ _ hrp, k3]; exact hf0
        · simp [k2, hm0]
        · simp [Fw.push, k4, hl0]
        · rw [Fw.push_rt, Fw.modRt_rt_self, hrp]; rfl
        · intro j hj; rw [Fw.push_rt, Fw.modRt_rt_other _ mi j _ hj, k1]; exact ho0 j hj
  · next heq =>
    have heq' : r.currentState = next := by
      rcases Nat.decEq r.currentState next with h | h
      · exact absurd h heq
      · exact h
    intro ht
    refine ⟨ht, [.sampled mi ev next], rfl, fun lim st hi => ?_⟩
    have hcur : st mi = next := by rw [(hi.rt mi r hr).2]; exact heq'
    refine ⟨lim, upd st mi next, Good.sampledSelf ms lim st mi ev next hreg hcur, ⟨hi.ms, fun j rj hj => ?_⟩⟩
    have := hi.rt j rj hj
    refine ⟨this.1, ?_⟩
    by_cases hjm : j = mi
    · subst hjm; simp [upd, ← this.2, hcur]
    · simp [upd, hjm, this.2]

/-! ### `transition` / `update_counter` -/

theorem toNat_limitReached (ev : Event) : ev.toNat = Gen.EV_LimitReached ↔ ev = .limitReached := by
  cases ev <;> decide

theorem main (mi : Nat) (fuel : Nat) :
    (∀ (ev : Event) (s : Fw σ) (r : Runtime) (m : Machine), s.rt[mi]? = some r → s.machines[mi]? = some m →
      R ms (s.push (.trans mi ev.toNat r.currentState)) (transition ρ fuel mi ev s).1) ∧
    (∀ (s : Fw σ), R ms s (updateCounter ρ fuel mi s).1) := by
  induction fuel with
  | zero =>
    refine ⟨fun ev s r m _ _ => ?_, fun s => ?_⟩
    · rw [transition]; exact R.fault _
    · rw [updateCounter]; exact R.fault _
  | succ n ih =>
    obtain ⟨ihT, ihU⟩ := ih
    refine ⟨fun ev s r m hr hm => ?_, fun s => ?_⟩
    · rw [transition, hr, hm]
      simp only []
      have h0 : R ms (s.push (.trans mi ev.toNat r.currentState)) (s.push (.trans mi ev.toNat r.currentState)) :=
        R.refl _
      split
      · exact h0
      · cases hst : m.states[r.currentState]? with
        | none => exact R.fault _
        | some st =>
        simp only []
        cases htr : st.transitions[ev.toNat]? with
        | none => exact R.fault _
        | some ov =>
        cases ov with
        | none => exact h0
        | some vec =>
        simp only []
        generalize hs1 : (({ (s.push (.trans mi ev.toNat r.currentState)) with
            rng := (ρ.u (s.push (.trans mi ev.toNat r.currentState)).rng).2 }).push
              (.draw (ρ.u (s.push (.trans mi ev.toNat r.currentState)).rng).1)) = s1
        have q1 : R ms (s.push (.trans mi ev.toNat r.currentState)) s1 := by
          subst hs1; exact R.log1 (.draw _) rfl rfl rfl rfl rfl
        have e1 : s1.rt = s.rt := by subst hs1; rfl
        have m1 : s1.machines = s.machines := by subst hs1; rfl
        have hr1 : s1.rt[mi]? = some r := by rw [e1]; exact hr
        cases hss : sampleState vec (ρ.u (s.push (.trans mi ev.toNat r.currentState)).rng).1 with
        | none => simp only []; exact q1
        | some next =>
        simp only []
        split
        · next hend =>
          subst hend
          refine q1.trans ?_
          intro ht
          have hf := Countdown.modRt_fault_some (s1.push (.sampled mi ev.toNat STATE_END)) mi
            (fun r => { r with currentState := STATE_END }) r (by rw [Fw.push_rt]; exact hr1)
          refine ⟨by rw [hf] at ht; exact ht, [.sampled mi ev.toNat STATE_END], by simp [Fw.push], fun lim st hi => ?_⟩
          refine ⟨lim, upd st mi STATE_END, Good.sampledEnd ms lim st mi ev.toNat, ?_⟩
          have := Inv.update (mi := mi) (t := (s1.push (.sampled mi ev.toNat STATE_END)).modRt mi
            (fun r => { r with currentState := STATE_END })) (r' := { r with currentState := STATE_END }) hi (by simp)
            (by rw [Fw.modRt_rt_self, Fw.push_rt, hr1]; rfl)
            (fun j hj => by rw [Fw.modRt_rt_other _ mi j _ hj, Fw.push_rt])
          refine ⟨this.ms, fun j rj hj => ?_⟩
          have h2 := this.rt j rj hj
          refine ⟨?_, h2.2⟩
          rw [← h2.1]
          by_cases hjm : j = mi
          · subst hjm; simp [upd, (hi.rt j r hr1).1]
          · simp [upd, hjm]
        · split
          · next hne hsig =>
            subst hsig
            refine q1.trans ?_
            intro ht
            refine ⟨ht, [.sampled mi ev.toNat STATE_SIGNAL], rfl, fun lim st hi => ?_⟩
            exact ⟨lim, st, Good.sampledSignal ms lim st mi ev.toNat, ⟨hi.ms, hi.rt⟩⟩
          · next hne hns =>
            have q3 := q1.trans (r_sampledEnter ρ (ms := ms) mi ev.toNat next m r s1 hr1 (isRegular_of hne hns))
            generalize enterState ρ mi m r.currentState next (s1.push (.sampled mi ev.toNat next)) = s3 at q3 ⊢
            cases hr3 : s3.rt[mi]? with
            | none => simp only []; exact R.fault _
            | some r1 =>
            simp only []
            cases hb : belowActionLimits s3.g r1 m with
            | none => simp only []; exact R.fault _
            | some below =>
            simp only []
            have q4 := q3.trans (ihU s3)
            have q5 : R ms (s.push (.trans mi ev.toNat r.currentState))
                (if ((updateCounter ρ n mi s3).2.1 && below) = true
                  then scheduleAction ρ mi next (updateCounter ρ n mi s3).1 else (updateCounter ρ n mi s3).1) := by
              split
              · exact q4.trans (r_scheduleAction ρ mi next _)
              · exact q4
            generalize (if ((updateCounter ρ n mi s3).2.1 && below) = true
                then scheduleAction ρ mi next (updateCounter ρ n mi s3).1 else (updateCounter ρ n mi s3).1) = s5 at q5 ⊢
            cases hr5 : s5.rt[mi]? with
            | none => simp only []; exact R.fault _
            | some r2 => simp only []; exact q5
    · rw [updateCounter]
      cases hr : s.rt[mi]? with
      | none => exact R.fault _
      | some r =>
      cases hm : s.machines[mi]? with
      | none => exact R.fault _
      | some m =>
      simp only []
      cases hst : m.states[r.currentState]? with
      | none => exact R.fault _
      | some st =>
      simp only []
      have qA := r_applyCounterA ρ (ms := ms) mi st.counterA r.counterA r.counterB s
      generalize applyCounterA ρ mi st.counterA r.counterA r.counterB s = ra at qA ⊢
      have qB := qA.trans (r_applyCounterB ρ (ms := ms) mi st.counterB r.counterA r.counterB ra.1)
      generalize applyCounterB ρ mi st.counterB r.counterA r.counterB ra.1 = rb at qB ⊢
      have q2 := qB.trans (R.push (ms := ms) rb.1
        (.counter mi r.counterA (counterAOf rb.1 mi) r.counterB (counterBOf rb.1 mi)) rfl)
      generalize rb.1.push (.counter mi r.counterA (counterAOf rb.1 mi) r.counterB (counterBOf rb.1 mi)) = s2 at q2 ⊢
      split
      · have qT : R ms s (transition ρ n mi .counterZero s2).1 := by
          cases n with
          | zero => rw [transition]; exact R.fault _
          | succ k =>
            cases hr2 : s2.rt[mi]? with
            | none => rw [transition, hr2]; simp only []; exact R.fault _
            | some r2 =>
            cases hm2 : s2.machines[mi]? with
            | none => rw [transition, hr2, hm2]; simp only []; exact R.fault _
            | some m2 =>
              exact (q2.trans (R.push s2 (.trans mi Event.counterZero.toNat r2.currentState) rfl)).trans
                (ihT .counterZero s2 r2 m2 hr2 hm2)
        split
        · exact R.fault _
        · exact qT
      · exact q2

/-- a transition delivered from outside (any event but LimitReached) -/
theorem r_transition (fuel j : Nat) (ev : Event) (s : Fw σ) (hev : ev ≠ .limitReached) :
    R ms s (transition ρ fuel j ev s).1 := by
  cases fuel with
  | zero => rw [transition]; exact R.fault _
  | succ n =>
    cases hr : s.rt[j]? with
    | none => rw [transition, hr]; simp only []; exact R.fault _
    | some r =>
    cases hm : s.machines[j]? with
    | none => rw [transition, hr, hm]; simp only []; exact R.fault _
    | some m =>
      refine (R.push s (.trans j ev.toNat r.currentState) ?_).trans ((main ρ j (n + 1)).1 ev s r m hr hm)
      have : ev.toNat ≠ Gen.EV_LimitReached := fun h => hev ((toNat_limitReached ev).1 h)
      simpa [plain] using this

/-! ### the limit decrement -/

theorem upd_self (f : Nat → Nat) (i v : Nat) (h : f i = v) : upd f i v = f := by
  funext j
  by_cases hj : j = i
  · subst hj; simp [upd, h]
  · simp [upd, hj]

theorem hasLimitAt_eq {lim st : Nat → Nat} {s : Fw σ} {j : Nat} {r : Runtime} {m : Machine} {stt : State}
    (hi : Inv ms lim st s) (hr : s.rt[j]? = some r) (hm : s.machines[j]? = some m)
    (hst : m.states[r.currentState]? = some stt) :
    hasLimitAt ms j (st j) = (match stt.action with | some a => a.hasLimit | none => false) := by
  unfold hasLimitAt
  rw [← hi.ms, hm, (hi.rt j r hr).2]
  simp only [hst]
  cases stt.action <;> rfl

theorem r_decrement (j : Nat) (s : Fw σ) : R ms s (decrementLimit ρ j s) := by
  unfold decrementLimit
  cases hr : s.rt[j]? with
  | none => simp only []; exact R.fault _
  | some r =>
  cases hm : s.machines[j]? with
  | none => simp only []; exact R.fault _
  | some m =>
  simp only []
  have hlim : (if r.stateLimit > 0 then r.stateLimit - 1 else r.stateLimit) =
      (if r.stateLimit > 0 then r.stateLimit - 1 else 0) := by split <;> omega
  rw [hlim]
  generalize hv : (if r.stateLimit > 0 then r.stateLimit - 1 else 0) = v
  have hf1 : ((s.modRt j (fun r' => { r' with stateLimit := v })).push (.limit j v true)).fault = s.fault := by
    rw [Fw.push_fault]; exact Countdown.modRt_fault_some _ _ _ r hr
  have hm1 : ((s.modRt j (fun r' => { r' with stateLimit := v })).push (.limit j v true)).machines = s.machines := by
    simp
  have hl1 : ((s.modRt j (fun r' => { r' with stateLimit := v })).push (.limit j v true)).log =
      .limit j v true :: s.log := by simp [Fw.push]
  have hr1 : ((s.modRt j (fun r' => { r' with stateLimit := v })).push (.limit j v true)).rt[j]? =
      some { r with stateLimit := v } := by rw [Fw.push_rt, Fw.modRt_rt_self, hr]; rfl
  have ho1 : ∀ i, i ≠ j →
      ((s.modRt j (fun r' => { r' with stateLimit := v })).push (.limit j v true)).rt[i]? = s.rt[i]? := by
    intro i hi; rw [Fw.push_rt, Fw.modRt_rt_other _ j i _ hi]
  generalize (s.modRt j (fun r' => { r' with stateLimit := v })).push (.limit j v true) = s1
    at hf1 hm1 hl1 hr1 ho1 ⊢
  -- the invariant after the decrement
  have hinv : ∀ lim st, Inv ms lim st s → Inv ms (upd lim j v) st s1 := by
    intro lim st hi
    have := Inv.update hi hm1 hr1 ho1
    rw [upd_self st j _ (hi.rt j r hr).2] at this
    exact this
  have hexp : ∀ lim st, Inv ms lim st s → v = if lim j > 0 then lim j - 1 else 0 := by
    intro lim st hi; rw [(hi.rt j r hr).1]; exact hv.symm
  -- the plain case: the decrement is the whole segment
  have hplain : ∀ stt, m.states[r.currentState]? = some stt →
      (v == 0 && (match stt.action with | some a => a.hasLimit | none => false)) = false → R ms s s1 := by
    intro stt hst hnr ht
    refine ⟨by rw [← hf1]; exact ht, [.limit j v true], by simp [hl1], fun lim st hi => ?_⟩
    refine ⟨upd lim j v, st, Good.dec ms lim st j v (hexp lim st hi) ?_, hinv lim st hi⟩
    rw [hasLimitAt_eq hi hr hm hst]; exact hnr
  cases hst : m.states[r.currentState]? with
  | none => simp only []; exact R.fault _
  | some stt =>
  simp only []
  cases hact : stt.action with
  | none => simp only []; exact hplain stt hst (by simp [hact])
  | some a =>
    simp only []
    split
    · next hc =>
      simp only [Bool.and_eq_true, decide_eq_true_eq] at hc
      have hv0 : v = 0 := hc.1
      have hal : a.hasLimit = true := hc.2
      subst hv0
      split
      · exact R.fault _
      · intro ht
        have hr1' : ({ s1 with actions := s1.actions.set j none } : Fw σ).rt[j]? = some { r with stateLimit := 0 } := hr1
        have hm1' : ({ s1 with actions := s1.actions.set j none } : Fw σ).machines[j]? = some m := by
          show s1.machines[j]? = some m
          rw [hm1]; exact hm
        obtain ⟨hfT, cT, hlT, hpT⟩ :=
          (main ρ (ms := ms) j FUEL).1 .limitReached ({ s1 with actions := s1.actions.set j none } : Fw σ) _ m hr1' hm1' ht
        refine ⟨by rw [← hf1]; exact hfT, .limit j 0 true :: .trans j Gen.EV_LimitReached r.currentState :: cT, ?_,
          fun lim st hi => ?_⟩
        · rw [hlT]; simp [Fw.push, hl1, Event.toNat]
        · have hi1 : Inv ms (upd lim j 0) st
              (({ s1 with actions := s1.actions.set j none } : Fw σ).push
                (.trans j Event.limitReached.toNat ({ r with stateLimit := 0 } : Runtime).currentState)) :=
            ⟨(hinv lim st hi).ms, (hinv lim st hi).rt⟩
          obtain ⟨l2, s2, gT, iT⟩ := hpT (upd lim j 0) st hi1
          refine ⟨l2, s2, Good.decLR ms lim st l2 s2 j r.currentState cT (hexp lim st hi) ?_ gT, iT⟩
          rw [hasLimitAt_eq hi hr hm hst, hact]; exact hal
    · next hc =>
      refine hplain stt hst ?_
      rw [hact]
      simpa using hc

/-! ### whole calls -/

/-- every building block of `trigger_events` extends the log by a segment the monitor accepts -/
theorem walkR : WalkEvX ρ (R (σ := σ) ms) where
  refl := R.refl
  trans := R.trans
  transition j ev s _ hev := r_transition ρ FUEL j ev s hev
  decrement j s _ := r_decrement ρ j s
  fault s f := R.withFault s f
  signal s p := R.same rfl rfl rfl rfl
  setG s g' := R.same rfl rfl rfl rfl
  acct s j f hf := R.modRt s j f (fun r => by rw [hf r]; rfl)

theorem r_callStart (s : Fw σ) (t : Int) : R ms s (s.callStart t) := by
  refine R.keep (fun h => h) rfl rfl (fun j => ?_)
  simp only [Fw.callStart, List.getElem?_map]
  cases s.rt[j]? <;> rfl

theorem r_call (es : List TEvent) (t : Int) (s : Fw σ) : R ms s (triggerEvents ρ es t s) := by
  unfold triggerEvents
  have W := walkR ρ (σ := σ) (ms := ms)
  exact (r_callStart s t).trans
    ((W.toWalkCoreX.foldl _ (fun a e => W.processEvent e a) es _).trans (W.toWalkCoreX.signalRound _))

/-- the maps the monitor starts a call with: limit and state of the snapshot before the call, 0 for
    an id without a runtime -/
def limOf (p : Snap) : Nat → Nat := fun j => match p.rts[j]? with | some r => r.limit | none => 0
def stOf (p : Snap) : Nat → Nat := fun j => match p.rts[j]? with | some r => r.state | none => 0

theorem limOf_snap (s : Fw σ) (j : Nat) (r : Runtime) (hr : s.rt[j]? = some r) :
    limOf s.snap j = r.stateLimit ∧ stOf s.snap j = r.currentState := by
  simp [limOf, stOf, Fw.snap, List.getElem?_map, hr]

theorem inv_snap (s : Fw σ) : Inv s.machines (limOf s.snap) (stOf s.snap) s :=
  ⟨rfl, fun j r hr => limOf_snap s j r hr⟩

/-- **The log segment of a call that ends without a fault is accepted by `C07.checkLog`**, started
    from the limits and states of the snapshot taken before the call. -/
theorem call_accepted (es : List TEvent) (t : Int) (s : Fw σ) (hok : (triggerEvents ρ es t s).fault = none)
    (l : List LogEntry) (hl : (triggerEvents ρ es t s).log = l ++ s.log) (lt : LT) :
    checkLog s.machines (limOf s.snap) (stOf s.snap) lt l.reverse = none := by
  obtain ⟨_, c, hc, hp⟩ := r_call ρ (ms := s.machines) es t s hok
  have hlc : l = c.reverse := List.append_cancel_right (hl.symm.trans hc)
  subst hlc
  rw [List.reverse_reverse]
  obtain ⟨lim', st', hg, _⟩ := hp _ _ (inv_snap s)
  have := hg.chk lt [] rfl
  rw [List.append_nil] at this
  rw [this]
  simp only [checkLog]

/-! ### what an accepted log says, in plain terms -/

/-- the tracked state map after a sampled entry -/
def stAfter (st : Nat → Nat) (mi next : Nat) : Nat → Nat :=
  if isRegular next then upd st mi next else if next == STATE_END then upd st mi STATE_END else st

/-- the maps (limits, states) the monitor holds after walking a prefix -/
def after : (Nat → Nat) × (Nat → Nat) → List LogEntry → (Nat → Nat) × (Nat → Nat)
  | f, [] => f
  | f, .sampled mi _ next :: rest => after (f.1, stAfter f.2 mi next) rest
  | f, .limit mi v _ :: rest => after (upd f.1 mi v, f.2) rest
  | f, .trans .. :: rest => after f rest
  | f, .draw _ :: rest => after f rest
  | f, .distRaw _ :: rest => after f rest
  | f, .counter .. :: rest => after f rest

/-- an accepted decrement: the logged value is the tracked limit minus one (0 stays 0), the
    LimitReached delivery to the machine follows directly iff the value is 0 in a state whose action
    carries a limit, and the rest is accepted with the updated limit -/
theorem checkLog_limitT_none (ms : List Machine) (lim st : Nat → Nat) (lt : LT) (mi v : Nat) (rest : List LogEntry)
    (h : checkLog ms lim st lt (.limit mi v true :: rest) = none) :
    v = (if lim mi > 0 then lim mi - 1 else 0) ∧ nextLR mi rest = (v == 0 && hasLimitAt ms mi (st mi)) ∧
    checkLog ms (upd lim mi v) st lt rest = none := by
  rw [checkLog_limitT] at h
  generalize (v == 0 && hasLimitAt ms mi (st mi)) = reached at h ⊢
  generalize nextLR mi rest = nx at h ⊢
  generalize (if lim mi > 0 then lim mi - 1 else 0) = ex at h ⊢
  by_cases h1 : (v != ex) = true
  · rw [if_pos h1] at h; cases h
  · rw [if_neg h1] at h
    by_cases h2 : (reached && !nx) = true
    · rw [if_pos h2] at h; cases h
    · rw [if_neg h2] at h
      by_cases h3 : (!reached && nx) = true
      · rw [if_pos h3] at h; cases h
      · rw [if_neg h3] at h
        refine ⟨by simpa using h1, ?_, h⟩
        cases reached <;> cases nx <;> simp_all

/-- an accepted sampled state: for a regular target, a limit assignment for the machine follows
    directly (possibly after one distribution draw) iff the target differs from the tracked state;
    the rest is accepted with the updated state -/
theorem checkLog_sampled_none (ms : List Machine) (lim st : Nat → Nat) (lt : LT) (mi ev next : Nat)
    (rest : List LogEntry) (h : checkLog ms lim st lt (.sampled mi ev next :: rest) = none) :
    (isRegular next = true → followsB mi rest = (next != st mi)) ∧
    checkLog ms lim (stAfter st mi next) lt rest = none := by
  rw [checkLog_sampled] at h
  unfold stAfter
  generalize followsB mi rest = fl at h ⊢
  by_cases hreg : isRegular next = true
  · rw [if_pos hreg] at h
    simp only [hreg, if_true]
    by_cases h2 : (next != st mi && !fl) = true
    · rw [if_pos h2] at h; cases h
    · rw [if_neg h2] at h
      by_cases h3 : (next == st mi && fl) = true
      · rw [if_pos h3] at h; cases h
      · rw [if_neg h3] at h
        refine ⟨fun _ => ?_, h⟩
        cases fl <;> cases hc : (next != st mi) <;> simp_all
  · rw [if_neg hreg] at h
    refine ⟨fun h' => absurd h' hreg, ?_⟩
    simp only [hreg, Bool.false_eq_true, if_false]
    split
    · next he => rw [if_pos he] at h; exact h
    · next he => rw [if_neg he] at h; exact h

/-- an accepted log is accepted from every split point, with the maps held there -/
theorem checkLog_split (ms : List Machine) (pre rest : List LogEntry) :
    ∀ (lim st : Nat → Nat) (lt : LT), checkLog ms lim st lt (pre ++ rest) = none →
      checkLog ms (after (lim, st) pre).1 (after (lim, st) pre).2 lt rest = none := by
  induction pre with
  | nil => intro lim st lt h; exact h
  | cons e pre ih =>
    intro lim st lt h
    cases e with
    | trans mi ev s =>
      rw [List.cons_append, checkLog_trans, checkLog_lt ms _ _ _ _ lt] at h
      exact ih lim st lt h
    | draw b => rw [List.cons_append, checkLog_draw] at h; exact ih lim st lt h
    | distRaw b => rw [List.cons_append, checkLog_distRaw] at h; exact ih lim st lt h
    | counter mi a b c d => rw [List.cons_append, checkLog_counter] at h; exact ih lim st lt h
    | sampled mi ev next => exact ih lim _ lt (checkLog_sampled_none ms lim st lt mi ev next _ h).2
    | limit mi v d =>
      cases d with
      | false => rw [List.cons_append, checkLog_limitF] at h; exact ih _ st lt h
      | true => exact ih _ st lt (checkLog_limitT_none ms lim st lt mi v _ h).2.2

theorem nextLR_iff (mi : Nat) (rest : List LogEntry) :
    nextLR mi rest = true ↔ ∃ st rest', rest = .trans mi Gen.EV_LimitReached st :: rest' := by
  cases rest with
  | nil => simp [nextLR]
  | cons b r =>
    cases b with
    | trans m ev st =>
      simp only [nextLR, Bool.and_eq_true, beq_iff_eq, List.cons.injEq, LogEntry.trans.injEq]
      constructor
      · rintro ⟨rfl, rfl⟩; exact ⟨st, r, ⟨rfl, rfl, rfl⟩, rfl⟩
      · rintro ⟨st', r', ⟨h1, h2, _⟩, _⟩; exact ⟨h1, h2⟩
    | _ => simp [nextLR]

theorem followsB_iff (mi : Nat) (rest : List LogEntry) :
    followsB mi rest = true ↔
      (∃ x rest', rest = .limit mi x false :: rest') ∨ (∃ b x rest', rest = .distRaw b :: .limit mi x false :: rest') := by
  cases rest with
  | nil => simp [followsB]
  | cons b r =>
    cases b with
    | limit m v d =>
      cases d with
      | false =>
        simp only [followsB, beq_iff_eq]
        constructor
        · rintro rfl; exact Or.inl ⟨v, r, rfl⟩
        · rintro (⟨x, r', h⟩ | ⟨b, x, r', h⟩)
          · simp only [List.cons.injEq, LogEntry.limit.injEq] at h; exact h.1.1
          · cases h
      | true =>
        simp only [followsB]
        constructor
        · intro h; cases h
        · rintro (⟨x, r', h⟩ | ⟨b, x, r', h⟩) <;> cases h
    | distRaw x =>
      cases r with
      | nil =>
        simp only [followsB]
        constructor
        · intro h; cases h
        · rintro (⟨x, r', h⟩ | ⟨b, x, r', h⟩) <;> cases h
      | cons b2 r2 =>
        cases b2 with
        | limit m v d =>
          cases d with
          | false =>
            simp only [followsB, beq_iff_eq]
            constructor
            · rintro rfl; exact Or.inr ⟨x, v, r2, rfl⟩
            · rintro (⟨x', r', h⟩ | ⟨b, x', r', h⟩)
              · cases h
              · simp only [List.cons.injEq, LogEntry.limit.injEq] at h; exact h.2.1.1
          | true =>
            simp only [followsB]
            constructor
            · intro h; cases h
            · rintro (⟨x', r', h⟩ | ⟨b, x', r', h⟩) <;> cases h
        | _ =>
          simp only [followsB]
          constructor
          · intro h; cases h
          · rintro (⟨x', r', h⟩ | ⟨b, x', r', h⟩) <;> cases h
    | _ =>
      simp only [followsB]
      constructor
      · intro h; cases h
      · rintro (⟨x', r', h⟩ | ⟨b, x', r', h⟩) <;> cases h

end LL
end Mb
