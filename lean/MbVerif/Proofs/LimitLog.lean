/-
  C07, call level, the monitor's rules on the model's own log: the ghost log segment of any call
  that ends without a fault is accepted by the monitor `C07.checkLog` (Spec/C07.lean) started from
  the (state, limit) pairs of the snapshot before the call — a change of state index is directly
  followed by the assignment of a fresh limit (after the draw of the limit distribution, if any), a
  self-transition is not; every decrement lowers the tracked limit by one (not below 0) and is
  directly followed by the delivery of LimitReached to the same machine exactly when it reached 0
  in a state whose action carries a limit.

  Method (as in `CounterLog.lean`): `Good lim st c lim' st'` says that the monitor, started with the
  tracked maps `lim`/`st` in front of the chronological segment `c` followed by any continuation
  that the look-ahead of the monitor cannot confuse with a resampling or a LimitReached delivery
  (`Hb`), ends up with `lim'`/`st'` in front of the continuation. Such segments compose. `Inv` ties
  the tracked maps to the model's runtimes. The relation `R s t` ("if `t` has no fault then neither
  has `s`, and `t` extends the log of `s` by a good segment, carrying the invariant along") is
  reflexive, transitive and holds for `transition` / `updateCounter` (mutual induction on the fuel;
  no fuel potential is needed: an exhausted fuel is a fault) and for the limit decrement, hence — by
  the walker of `WalkExt.lean` — for whole calls.
-/
import MbVerif.Proofs.WalkExt
import MbVerif.Proofs.Countdown
import MbVerif.Spec.C07

namespace Mb
namespace LL
open C07 (checkLog isRegular hasLimitAt)

/-! ### the monitor, entry by entry -/

abbrev LT := Nat → Option (Nat × Nat)

/-- `f` with the value at `i` replaced by `v` (the monitor's map update) -/
def upd (f : Nat → Nat) (i v : Nat) : Nat → Nat := fun j => if j == i then v else f j

/-- the monitor's look-ahead after a sampled state: does a limit assignment for `mi` follow -/
def followsB (mi : Nat) : List LogEntry → Bool
  | .limit m _ false :: _ => m == mi
  | .distRaw _ :: .limit m _ false :: _ => m == mi
  | _ => false

/-- the monitor's look-ahead after a decrement: does the LimitReached delivery to `mi` follow -/
def nextLR (mi : Nat) : List LogEntry → Bool
  | .trans m ev _ :: _ => m == mi && ev == Gen.EV_LimitReached
  | _ => false

theorem checkLog_trans (ms : List Machine) (lim st : Nat → Nat) (lt : LT) (mi ev s : Nat) (rest : List LogEntry) :
    checkLog ms lim st lt (.trans mi ev s :: rest) =
      checkLog ms lim st (fun j => if j == mi then some (ev, s) else lt j) rest := by
  simp only [checkLog]

theorem checkLog_draw (ms : List Machine) (lim st : Nat → Nat) (lt : LT) (b : F32) (rest : List LogEntry) :
    checkLog ms lim st lt (.draw b :: rest) = checkLog ms lim st lt rest := by
  simp only [checkLog]

theorem checkLog_distRaw (ms : List Machine) (lim st : Nat → Nat) (lt : LT) (b : F64) (rest : List LogEntry) :
    checkLog ms lim st lt (.distRaw b :: rest) = checkLog ms lim st lt rest := by
  simp only [checkLog]

theorem checkLog_counter (ms : List Machine) (lim st : Nat → Nat) (lt : LT) (mi a b c d : Nat) (rest : List LogEntry) :
    checkLog ms lim st lt (.counter mi a b c d :: rest) = checkLog ms lim st lt rest := by
  simp only [checkLog]

theorem checkLog_limitF (ms : List Machine) (lim st : Nat → Nat) (lt : LT) (mi v : Nat) (rest : List LogEntry) :
    checkLog ms lim st lt (.limit mi v false :: rest) = checkLog ms (upd lim mi v) st lt rest := by
  simp only [checkLog]; rfl

theorem checkLog_limitT (ms : List Machine) (lim st : Nat → Nat) (lt : LT) (mi v : Nat) (rest : List LogEntry) :
    checkLog ms lim st lt (.limit mi v true :: rest) =
      if v != (if lim mi > 0 then lim mi - 1 else 0) then some s!"machine {mi}: limit decremented from {lim mi} to {v}" else
      if (v == 0 && hasLimitAt ms mi (st mi)) && !nextLR mi rest then
        some s!"machine {mi}: limit reached 0 in state {st mi} but LimitReached was not raised"
      else if !(v == 0 && hasLimitAt ms mi (st mi)) && nextLR mi rest then some s!"machine {mi}: LimitReached raised with limit {v}"
      else checkLog ms (upd lim mi v) st lt rest := by
  cases rest with
  | nil => (simp only [checkLog, nextLR]; try rfl)
  | cons b r => cases b <;> (simp only [checkLog, nextLR]; try rfl)

theorem checkLog_sampled (ms : List Machine) (lim st : Nat → Nat) (lt : LT) (mi ev next : Nat) (rest : List LogEntry) :
    checkLog ms lim st lt (.sampled mi ev next :: rest) =
      if isRegular next then
        if next != st mi && !followsB mi rest then
          some s!"machine {mi} moved from state {st mi} to {next} but its limit was not resampled"
        else if next == st mi && followsB mi rest then
          some s!"machine {mi}: self-transition in state {st mi} refreshed the limit"
        else checkLog ms lim (upd st mi next) lt rest
      else if next == STATE_END then checkLog ms lim (upd st mi STATE_END) lt rest
      else checkLog ms lim st lt rest := by
  cases rest with
  | nil => (simp only [checkLog, followsB]; try rfl)
  | cons b r =>
    cases b with
    | limit m v d => cases d <;> (simp only [checkLog, followsB]; try rfl)
    | distRaw x =>
      cases r with
      | nil => (simp only [checkLog, followsB]; try rfl)
      | cons b2 r2 =>
        cases b2 with
        | limit m v d => cases d <;> (simp only [checkLog, followsB]; try rfl)
        | _ => (simp only [checkLog, followsB]; try rfl)
    | _ => (simp only [checkLog, followsB]; try rfl)

/-- the result of the monitor does not depend on the (write-only) `lastTrans` map -/
theorem checkLog_lt (ms : List Machine) (l : List LogEntry) :
    ∀ (lim st : Nat → Nat) (lt lt' : LT), checkLog ms lim st lt l = checkLog ms lim st lt' l := by
  induction l with
  | nil => intro _ _ _ _; simp only [checkLog]
  | cons e l ih =>
    intro lim st lt lt'
    cases e with
    | trans mi ev s => rw [checkLog_trans, checkLog_trans]; exact ih _ _ _ _
    | draw b => rw [checkLog_draw, checkLog_draw]; exact ih _ _ _ _
    | distRaw b => rw [checkLog_distRaw, checkLog_distRaw]; exact ih _ _ _ _
    | counter mi a b c d => rw [checkLog_counter, checkLog_counter]; exact ih _ _ _ _
    | sampled mi ev next =>
      rw [checkLog_sampled, checkLog_sampled, ih _ _ lt lt', ih _ _ lt lt', ih _ _ lt lt']
    | limit mi v d =>
      cases d with
      | false => rw [checkLog_limitF, checkLog_limitF]; exact ih _ _ _ _
      | true => rw [checkLog_limitT, checkLog_limitT, ih _ _ lt lt']

/-! ### continuations and good segments -/

/-- continuations that the monitor's look-ahead cannot take for a resampling or for a LimitReached
    delivery: they start neither with a LimitReached delivery, nor with a limit assignment, nor
    with a distribution draw followed by a limit assignment -/
def Hb : List LogEntry → Bool
  | .trans _ ev _ :: _ => ev != Gen.EV_LimitReached
  | .limit _ _ false :: _ => false
  | .distRaw _ :: .limit _ _ false :: _ => false
  | _ => true

theorem Hb_follows (mi : Nat) (l : List LogEntry) (h : Hb l = true) : followsB mi l = false := by
  cases l with
  | nil => rfl
  | cons b r =>
    cases b with
    | limit m v d => cases d <;> simp_all [Hb, followsB]
    | distRaw x =>
      cases r with
      | nil => rfl
      | cons b2 r2 =>
        cases b2 with
        | limit m v d => cases d <;> simp_all [Hb, followsB]
        | _ => rfl
    | _ => rfl

theorem Hb_nextLR (mi : Nat) (l : List LogEntry) (h : Hb l = true) : nextLR mi l = false := by
  cases l with
  | nil => rfl
  | cons b r =>
    cases b with
    | trans m ev s =>
      have : (ev == Gen.EV_LimitReached) = false := by simpa [Hb] using h
      simp [nextLR, this]
    | _ => rfl

/-- entries the monitor skips -/
def plain : LogEntry → Bool
  | .trans _ ev _ => ev != Gen.EV_LimitReached
  | .draw _ => true
  | .distRaw _ => true
  | .counter .. => true
  | _ => false

theorem Hb_cons_plain (e : LogEntry) (he : plain e = true) (l : List LogEntry) (h : Hb l = true) :
    Hb (e :: l) = true := by
  cases e with
  | trans m ev s => simpa [Hb, plain] using he
  | draw b => rfl
  | counter => rfl
  | distRaw x =>
    cases l with
    | nil => rfl
    | cons b r =>
      cases b with
      | limit m v d => cases d <;> simp_all [Hb]
      | _ => rfl
  | sampled => cases he
  | limit => cases he

theorem Hb_cons_sampled (mi ev next : Nat) (l : List LogEntry) : Hb (.sampled mi ev next :: l) = true := rfl
theorem Hb_cons_limitT (mi v : Nat) (l : List LogEntry) : Hb (.limit mi v true :: l) = true := rfl

theorem checkLog_plain (ms : List Machine) (lim st : Nat → Nat) (lt : LT) (e : LogEntry) (he : plain e = true)
    (rest : List LogEntry) : checkLog ms lim st lt (e :: rest) = checkLog ms lim st lt rest := by
  cases e with
  | trans m ev s => rw [checkLog_trans]; exact checkLog_lt ms rest _ _ _ _
  | draw b => exact checkLog_draw ..
  | counter => exact checkLog_counter ..
  | distRaw x => exact checkLog_distRaw ..
  | sampled => cases he
  | limit => cases he

/-- the monitor, started with `lim`/`st` in front of `c ++ rest`, reaches `rest` with `lim'`/`st'`
    (for every continuation `rest` with `Hb rest`), and `c ++ rest` is again such a continuation -/
structure Good (ms : List Machine) (lim st : Nat → Nat) (c : List LogEntry) (lim' st' : Nat → Nat) : Prop where
  hd : ∀ rest, Hb rest = true → Hb (c ++ rest) = true
  chk : ∀ (lt : LT) rest, Hb rest = true → checkLog ms lim st lt (c ++ rest) = checkLog ms lim' st' lt rest

theorem Good.nil (ms : List Machine) (lim st : Nat → Nat) : Good ms lim st [] lim st :=
  ⟨fun _ h => h, fun _ _ _ => rfl⟩

theorem Good.append {ms : List Machine} {l0 s0 l1 s1 l2 s2 : Nat → Nat} {c₁ c₂ : List LogEntry}
    (h₁ : Good ms l0 s0 c₁ l1 s1) (h₂ : Good ms l1 s1 c₂ l2 s2) : Good ms l0 s0 (c₁ ++ c₂) l2 s2 := by
  refine ⟨fun rest hr => ?_, fun lt rest hr => ?_⟩
  · rw [List.append_assoc]; exact h₁.hd _ (h₂.hd _ hr)
  · rw [List.append_assoc, h₁.chk lt _ (h₂.hd _ hr), h₂.chk lt _ hr]

theorem Good.single (ms : List Machine) (lim st : Nat → Nat) (e : LogEntry) (he : plain e = true) :
    Good ms lim st [e] lim st :=
  ⟨fun rest hr => Hb_cons_plain e he rest hr, fun lt rest _ => checkLog_plain ms lim st lt e he rest⟩

theorem isRegular_of {next : Nat} (h1 : ¬ next = STATE_END) (h2 : ¬ next = STATE_SIGNAL) : isRegular next = true := by
  simp [isRegular, h1, h2]

/-- a sampled END: the tracked state becomes END -/
theorem Good.sampledEnd (ms : List Machine) (lim st : Nat → Nat) (mi ev : Nat) :
    Good ms lim st [.sampled mi ev STATE_END] lim (upd st mi STATE_END) := by
  refine ⟨fun rest _ => rfl, fun lt rest _ => ?_⟩
  show checkLog ms lim st lt (.sampled mi ev STATE_END :: rest) = _
  rw [checkLog_sampled]
  have h1 : isRegular STATE_END = false := by decide
  simp [h1]

/-- a sampled SIGNAL: nothing tracked changes -/
theorem Good.sampledSignal (ms : List Machine) (lim st : Nat → Nat) (mi ev : Nat) :
    Good ms lim st [.sampled mi ev STATE_SIGNAL] lim st := by
  refine ⟨fun rest _ => rfl, fun lt rest _ => ?_⟩
  show checkLog ms lim st lt (.sampled mi ev STATE_SIGNAL :: rest) = _
  rw [checkLog_sampled]
  have h1 : isRegular STATE_SIGNAL = false := by decide
  have h2 : (STATE_SIGNAL == STATE_END) = false := by decide
  simp [h1, h2]

/-- a self-transition: no limit assignment follows -/
theorem Good.sampledSelf (ms : List Machine) (lim st : Nat → Nat) (mi ev next : Nat) (hreg : isRegular next = true)
    (hcur : st mi = next) : Good ms lim st [.sampled mi ev next] lim (upd st mi next) := by
  refine ⟨fun rest _ => rfl, fun lt rest hr => ?_⟩
  show checkLog ms lim st lt (.sampled mi ev next :: rest) = _
  rw [checkLog_sampled, Hb_follows mi rest hr]
  simp [hreg, hcur]

/-- a change of the state index, directly followed by the limit assignment -/
theorem Good.resample0 (ms : List Machine) (lim st : Nat → Nat) (mi ev next v : Nat) (hreg : isRegular next = true)
    (hcur : st mi ≠ next) :
    Good ms lim st [.sampled mi ev next, .limit mi v false] (upd lim mi v) (upd st mi next) := by
  refine ⟨fun rest _ => rfl, fun lt rest hr => ?_⟩
  show checkLog ms lim st lt (.sampled mi ev next :: .limit mi v false :: rest) = _
  rw [checkLog_sampled, checkLog_limitF]
  have h1 : (next == st mi) = false := by simpa using fun h => hcur h.symm
  simp [hreg, followsB, h1]

/-- a change of the state index, followed by the draw of the limit distribution and the limit
    assignment -/
theorem Good.resample1 (ms : List Machine) (lim st : Nat → Nat) (mi ev next v : Nat) (b : F64)
    (hreg : isRegular next = true) (hcur : st mi ≠ next) :
    Good ms lim st [.sampled mi ev next, .distRaw b, .limit mi v false] (upd lim mi v) (upd st mi next) := by
  refine ⟨fun rest _ => rfl, fun lt rest hr => ?_⟩
  show checkLog ms lim st lt (.sampled mi ev next :: .distRaw b :: .limit mi v false :: rest) = _
  rw [checkLog_sampled, checkLog_distRaw, checkLog_limitF]
  have h1 : (next == st mi) = false := by simpa using fun h => hcur h.symm
  simp [hreg, followsB, h1]

/-- a decrement that does not use the limit up (or in a state whose action carries no limit): no
    LimitReached delivery follows -/
theorem Good.dec (ms : List Machine) (lim st : Nat → Nat) (mi v : Nat)
    (hv : v = if lim mi > 0 then lim mi - 1 else 0) (hnr : (v == 0 && hasLimitAt ms mi (st mi)) = false) :
    Good ms lim st [.limit mi v true] (upd lim mi v) st := by
  refine ⟨fun rest _ => rfl, fun lt rest hr => ?_⟩
  show checkLog ms lim st lt (.limit mi v true :: rest) = _
  rw [checkLog_limitT, Hb_nextLR mi rest hr, hnr, ← hv]
  simp

/-- a decrement to 0 in a state whose action carries a limit, directly followed by the LimitReached
    delivery to the same machine and then by a good segment -/
theorem Good.decLR (ms : List Machine) (lim st l2 s2 : Nat → Nat) (mi cur : Nat) (c : List LogEntry)
    (hv : 0 = if lim mi > 0 then lim mi - 1 else 0) (hr : hasLimitAt ms mi (st mi) = true)
    (hc : Good ms (upd lim mi 0) st c l2 s2) :
    Good ms lim st (.limit mi 0 true :: .trans mi Gen.EV_LimitReached cur :: c) l2 s2 := by
  refine ⟨fun rest _ => rfl, fun lt rest hrest => ?_⟩
  show checkLog ms lim st lt (.limit mi 0 true :: .trans mi Gen.EV_LimitReached cur :: (c ++ rest)) = _
  rw [checkLog_limitT, ← hv, hr, checkLog_trans]
  simp only [nextLR, beq_self_eq_true, Bool.and_self, Bool.not_true, Bool.and_false, Bool.false_eq_true, if_false,
    bne_self_eq_false, Bool.not_false, Bool.true_and]
  rw [checkLog_lt ms _ _ _ _ lt]
  exact hc.chk lt rest hrest

end LL
end Mb
