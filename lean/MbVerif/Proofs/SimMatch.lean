/-
  From the Hall-form causality statement to the monitor's predicate `C15.causality`: on
  ascending lists the order-preserving matching works.
-/
import MbVerif.Proofs.SimCausal
import MbVerif.Spec.C15

namespace Mb.Sim
open Mb Mb.SimSpec

theorem insertSorted_countP (p : Int → Bool) (x : Int) : ∀ l, (insertSorted x l).countP p = (x :: l).countP p := by
  intro l
  induction l with
  | nil => rfl
  | cons y r ih =>
    simp only [insertSorted]
    split
    · rfl
    · simp only [List.countP_cons, ih]; omega

theorem sortInts_countP (p : Int → Bool) : ∀ l, (sortInts l).countP p = l.countP p := by
  intro l
  induction l with
  | nil => rfl
  | cons x r ih =>
    show (insertSorted x (sortInts r)).countP p = _
    rw [insertSorted_countP, List.countP_cons, List.countP_cons, ih]

theorem insertSorted_asc (x : Int) : ∀ l, l.Pairwise (· ≤ ·) → (insertSorted x l).Pairwise (· ≤ ·) := by
  intro l
  induction l with
  | nil => intro _; simp [insertSorted]
  | cons y r ih =>
    intro h
    simp only [insertSorted]
    have hy := (List.pairwise_cons.1 h).1
    have hr := (List.pairwise_cons.1 h).2
    split
    · rename_i hxy
      refine List.pairwise_cons.2 ⟨?_, h⟩
      intro z hz
      simp only [List.mem_cons] at hz
      rcases hz with hz | hz
      · omega
      · have := hy z hz; omega
    · rename_i hxy
      refine List.pairwise_cons.2 ⟨?_, ih hr⟩
      intro z hz
      -- members of the insertion are x or members of r
      have hmem : z = x ∨ z ∈ r := by
        have hc := insertSorted_countP (fun w => w == z) x r
        have hpos : 0 < (insertSorted x r).countP (fun w => w == z) :=
          List.countP_pos_iff.2 ⟨z, hz, by simp⟩
        rw [hc] at hpos
        obtain ⟨w, hw, hwz⟩ := List.countP_pos_iff.1 hpos
        simp only [beq_iff_eq] at hwz
        subst hwz
        simpa using hw
      rcases hmem with h1 | h1
      · omega
      · exact hy z h1

theorem sortInts_asc : ∀ l, (sortInts l).Pairwise (· ≤ ·) := by
  intro l
  induction l with
  | nil => exact List.Pairwise.nil
  | cons x r ih => exact insertSorted_asc x _ ih

/-- Hall's condition implies the order-preserving matching on ascending lists -/
theorem hall_matched (d : Nat) : ∀ (R S : List Int), R.Pairwise (· ≤ ·) → S.Pairwise (· ≤ ·) →
    (∀ T : Int, R.countP (fun r => decide (r ≤ T)) ≤ S.countP (fun s => decide (s + d ≤ T))) →
    C15.matched d S R = true := by
  intro R
  induction R with
  | nil => intro S _ _ _; cases S <;> rfl
  | cons r rs ih =>
    intro S hR hS hall
    have hrs := (List.pairwise_cons.1 hR).2
    have hr := (List.pairwise_cons.1 hR).1
    cases S with
    | nil =>
      have := hall r
      simp at this
    | cons s ss =>
      have hss := (List.pairwise_cons.1 hS).2
      have hs := (List.pairwise_cons.1 hS).1
      have hsr : s + d ≤ r := by
        have h1 := hall r
        have hpos : 0 < (s :: ss).countP (fun s => decide (s + d ≤ r)) := by
          have : 0 < (r :: rs).countP (fun x => decide (x ≤ r)) := by simp [List.countP_cons]
          omega
        obtain ⟨w, hw, hwd⟩ := List.countP_pos_iff.1 hpos
        simp only [decide_eq_true_eq] at hwd
        simp only [List.mem_cons] at hw
        rcases hw with hw | hw
        · omega
        · have := hs w hw; omega
      simp only [C15.matched, Bool.and_eq_true, decide_eq_true_eq]
      refine ⟨hsr, ih ss hrs hss ?_⟩
      intro T
      by_cases hT : r ≤ T
      · have h1 := hall T
        simp only [List.countP_cons, hT, decide_true, if_true] at h1
        have : (if decide (s + d ≤ T) = true then 1 else 0) ≤ 1 := by split <;> omega
        omega
      · have hz : rs.countP (fun x => decide (x ≤ T)) = 0 := by
          rw [List.countP_eq_zero]
          intro x hx
          have := hr x hx
          simp only [decide_eq_true_eq]; omega
        omega

end Mb.Sim

namespace Mb.Sim
open Mb Mb.SimSpec

theorem times_countP_recv (tr : List SimEvent) (c pd : Bool) (T : Int) :
    (C15.times tr c .tunnelRecv pd).countP (fun r => decide (r ≤ T)) = tr.countP (recvP c pd T) := by
  unfold C15.times
  rw [sortInts_countP, List.countP_map, List.countP_filter]
  apply List.countP_congr
  intro e _
  simp only [Function.comp, recvP, Bool.and_eq_true, beq_iff_eq, decide_eq_true_eq]
  constructor
  · rintro ⟨h1, ⟨h2, h3⟩, h4⟩; exact ⟨⟨⟨h3, h2⟩, h4⟩, h1⟩
  · rintro ⟨⟨⟨h3, h2⟩, h4⟩, h1⟩; exact ⟨h1, ⟨h2, h3⟩, h4⟩

theorem times_countP_send (tr : List SimEvent) (c pd : Bool) (T : Int) (d : Nat) :
    (C15.times tr (!c) .tunnelSent pd).countP (fun s => decide (s + d ≤ T)) = tr.countP (sendP c pd T d) := by
  unfold C15.times
  rw [sortInts_countP, List.countP_map, List.countP_filter]
  apply List.countP_congr
  intro e _
  simp only [Function.comp, sendP, Bool.and_eq_true, beq_iff_eq, decide_eq_true_eq]
  constructor
  · rintro ⟨h1, ⟨h2, h3⟩, h4⟩; exact ⟨⟨⟨h3, h2⟩, h4⟩, h1⟩
  · rintro ⟨⟨⟨h3, h2⟩, h4⟩, h1⟩; exact ⟨h1, ⟨h2, h3⟩, h4⟩

/-- the Hall-form statement for a trace yields the monitor's causality predicate -/
theorem causality_of_hall (d : Nat) (tr : List SimEvent)
    (h : ∀ (c pd : Bool) (T : Int), tr.countP (recvP c pd T) ≤ tr.countP (sendP c pd T d)) :
    C15.causality d tr = true := by
  unfold C15.causality
  simp only [List.all_cons, List.all_nil, Bool.and_true, Bool.and_eq_true]
  have key : ∀ c pd, C15.matched d (C15.times tr (!c) .tunnelSent pd) (C15.times tr c .tunnelRecv pd) = true := by
    intro c pd
    apply hall_matched d _ _ (sortInts_asc _) (sortInts_asc _)
    intro T
    have h1 := times_countP_recv tr c pd T
    have h2 := times_countP_send tr c pd T d
    have h3 := h c pd T
    unfold C15.times at h1 h2
    show List.countP _ (sortInts _) ≤ List.countP _ (sortInts _)
    rw [h1, h2]; exact h3
  exact ⟨⟨key true true, key true false⟩, ⟨key false true, key false false⟩⟩

end Mb.Sim
