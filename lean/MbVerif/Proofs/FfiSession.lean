/-
  Helper lemmas for C20: discharging the hypothesis `hC04` of the C20 theorems from the C04
  theorems (Props/C04.lean) for an instance created by `maybenot_start` and driven by any
  history of calls.
-/
import MbVerif.Proofs.FfiSpec
import MbVerif.Props.C04

namespace Mb.C20
open Mb Mb.Ffi

variable {σ : Type} (ρ : Oracle σ)

/-- the state after a history extended by one call is the last observable state of that history -/
theorem runStates_snoc (s : Fw σ) (h : List Call) (c : Call) :
    triggerEvents ρ c.1 c.2 (runCalls ρ s h) ∈ runStates ρ s (h ++ [c]) := by
  induction h generalizing s with
  | nil => simp [runStates, runCalls]
  | cons d h ih =>
    simp only [List.cons_append, runStates, runCalls, List.foldl_cons, List.mem_cons]
    right
    have := ih (triggerEvents ρ d.1 d.2 s)
    simpa [runCalls] using this

omit ρ in
theorem machines_prim {a b : Fw σ} (hp : Prim a b) : b.machines = a.machines := by
  cases hp with
  | step mi st => exact st.frame.machines
  | setG => rfl
  | setAcct => simp
  | callStart => rfl

omit ρ in
theorem machines_run {a b : Fw σ} (hr : Run a b) : b.machines = a.machines := by
  induction hr with
  | refl => rfl
  | tail _ hp ih => rw [machines_prim hp, ih]

theorem init_machines (ms : List Machine) (fp fb : F64) (t0 : Int) (rng : σ) :
    (Fw.init ρ ms fp fb t0 rng).machines = ms := by
  rw [machines_run (init_run ρ ms fp fb t0 rng)]; rfl

theorem runCalls_run (s : Fw σ) (h : List Call) : Run s (runCalls ρ s h) := by
  induction h generalizing s with
  | nil => exact Run.refl s
  | cons c h ih =>
    simp only [runCalls, List.foldl_cons]
    exact (triggerEvents_run ρ c.1 c.2 s).trans (by simpa [runCalls] using ih (triggerEvents ρ c.1 c.2 s))

/-- the machines of an instance never change -/
theorem runCalls_machines (ms : List Machine) (fp fb : F64) (t0 : Int) (rng : σ) (h : List Call) :
    (runCalls ρ (Fw.init ρ ms fp fb t0 rng) h).machines = ms := by
  rw [machines_run (runCalls_run ρ _ h), init_machines]

/-- C04's per-action contract implies the numbers fit the Rust types -/
theorem inRange_of_actionOK (ms : List Machine) (a : TAction) (hms : ms.length < 2 ^ 64)
    (h : C04.actionOK ms a = true) : inRange a := by
  unfold C04.actionOK at h
  have hm : a.machine < 2 ^ 64 := by
    cases hg : ms[a.machine]? with
    | none => simp [hg] at h
    | some m =>
      have := (List.getElem?_eq_some_iff.mp hg).1
      omega
  have ht : C04.timesOK a = true := by
    cases hg : ms[a.machine]? with
    | none => simp [hg] at h
    | some m => simp only [hg, Bool.and_eq_true] at h; exact h.2
  have b1 : Gen.MAX_SAMPLED_TIMEOUT < 2 ^ 64 := by decide
  have b2 : Gen.MAX_SAMPLED_BLOCK_DURATION < 2 ^ 64 := by decide
  have b3 : Gen.MAX_SAMPLED_TIMER_DURATION < 2 ^ 64 := by decide
  cases a <;> simp only [C04.timesOK, Bool.and_eq_true, decide_eq_true_eq, TAction.machine] at ht hm <;>
    simp only [inRange] <;> omega

end Mb.C20
