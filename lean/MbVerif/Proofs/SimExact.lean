/-
  C14, the exact identity: without machines, for a time-ordered parsed trace, every packet is
  sent into the tunnel at exactly its trace time and received exactly one network delay later.
  Ingredients: the heap order (the served event is a minimum of everything queued, so nothing is
  ever served late), the window-covering lemma (the trace-derived packets-per-second limit is
  never exceeded, so the bottleneck adds nothing) and exact counting of the queued events.
-/
import MbVerif.Proofs.SimOnlyPackets
import MbVerif.Proofs.HeapOrder
import MbVerif.Proofs.SimWindow

namespace Mb.Sim
open Mb

/-! ### the order of `SimEvent` -/

theorem simEvent_totalPre : TotalPre SimEvent.le := by
  constructor
  · intro a b
    simp only [SimEvent.le, keyLe, Bool.or_eq_true, Bool.and_eq_true, decide_eq_true_eq, beq_iff_eq]
    omega
  · intro a b c
    simp only [SimEvent.le, keyLe, Bool.or_eq_true, Bool.and_eq_true, decide_eq_true_eq, beq_iff_eq]
    omega

theorem SimEvent.le_time {y x : SimEvent} (h : SimEvent.le y x = true) : x.time ≤ y.time := by
  simp only [SimEvent.le, keyLe, Bool.or_eq_true, Bool.and_eq_true, decide_eq_true_eq, beq_iff_eq] at h
  omega

/-- the event `EventQueue::peek` selects (no aggregate delay) is not later than the head of any
    of the four heaps -/
theorem EventQueue.peek_min {q : EventQueue} {now : Int} {ev : SimEvent} {qi : Queue} {d : Nat}
    (h : q.peek 0 now = .ok (some ev, qi, d)) : ∀ qj r, (q.heap qj).peek = some r → ev.time ≤ r.time := by
  intro qj r hr
  unfold EventQueue.peek at h
  split at h
  · cases h
  · simp only [] at h
    by_cases h1 : optGt q.blocking.peek q.bypassable.peek = true
    · simp only [h1, if_true] at h
      by_cases h2 : optGt q.internal.peek q.blocking.peek = true
      · simp only [h2, if_true] at h
        by_cases hb : before q.base.peek q.internal.peek 0 = true
        · simp only [hb, if_true] at h
          cases hbX : q.base.peek <;> cases hblX : q.blocking.peek <;> cases hbyX : q.bypassable.peek <;>
            cases hiX : q.internal.peek <;> cases qj <;>
            simp_all [optGt, before, SimEvent.gt, keyLt, keyLe, EventQueue.heap] <;> omega
        · simp only [hb, Bool.false_eq_true, if_false] at h
          cases hbX : q.base.peek <;> cases hblX : q.blocking.peek <;> cases hbyX : q.bypassable.peek <;>
            cases hiX : q.internal.peek <;> cases qj <;>
            simp_all [optGt, before, SimEvent.gt, keyLt, keyLe, EventQueue.heap] <;> omega
      · simp only [h2, Bool.false_eq_true, if_false] at h
        by_cases hb : before q.base.peek q.blocking.peek 0 = true
        · simp only [hb, if_true] at h
          cases hbX : q.base.peek <;> cases hblX : q.blocking.peek <;> cases hbyX : q.bypassable.peek <;>
            cases hiX : q.internal.peek <;> cases qj <;>
            simp_all [optGt, before, SimEvent.gt, keyLt, keyLe, EventQueue.heap] <;> omega
        · simp only [hb, Bool.false_eq_true, if_false] at h
          cases hbX : q.base.peek <;> cases hblX : q.blocking.peek <;> cases hbyX : q.bypassable.peek <;>
            cases hiX : q.internal.peek <;> cases qj <;>
            simp_all [optGt, before, SimEvent.gt, keyLt, keyLe, EventQueue.heap] <;> omega
    · simp only [h1, Bool.false_eq_true, if_false] at h
      by_cases h2 : optGt q.internal.peek q.bypassable.peek = true
      · simp only [h2, if_true] at h
        by_cases hb : before q.base.peek q.internal.peek 0 = true
        · simp only [hb, if_true] at h
          cases hbX : q.base.peek <;> cases hblX : q.blocking.peek <;> cases hbyX : q.bypassable.peek <;>
            cases hiX : q.internal.peek <;> cases qj <;>
            simp_all [optGt, before, SimEvent.gt, keyLt, keyLe, EventQueue.heap] <;> omega
        · simp only [hb, Bool.false_eq_true, if_false] at h
          cases hbX : q.base.peek <;> cases hblX : q.blocking.peek <;> cases hbyX : q.bypassable.peek <;>
            cases hiX : q.internal.peek <;> cases qj <;>
            simp_all [optGt, before, SimEvent.gt, keyLt, keyLe, EventQueue.heap] <;> omega
      · simp only [h2, Bool.false_eq_true, if_false] at h
        by_cases hb : before q.base.peek q.bypassable.peek 0 = true
        · simp only [hb, if_true] at h
          cases hbX : q.base.peek <;> cases hblX : q.blocking.peek <;> cases hbyX : q.bypassable.peek <;>
            cases hiX : q.internal.peek <;> cases qj <;>
            simp_all [optGt, before, SimEvent.gt, keyLt, keyLe, EventQueue.heap] <;> omega
        · simp only [hb, Bool.false_eq_true, if_false] at h
          cases hbX : q.base.peek <;> cases hblX : q.blocking.peek <;> cases hbyX : q.bypassable.peek <;>
            cases hiX : q.internal.peek <;> cases qj <;>
            simp_all [optGt, before, SimEvent.gt, keyLt, keyLe, EventQueue.heap] <;> omega

theorem EventQueue.peek_none {q : EventQueue} {ds : Nat} {now : Int} {qi : Queue} {d : Nat}
    (h : q.peek ds now = .ok (none, qi, d)) : ∀ qj, (q.heap qj).data = [] := by
  unfold EventQueue.peek at h
  split at h
  · rename_i hl
    intro qj
    unfold EventQueue.len Heap.len at hl
    cases qj <;> simp only [EventQueue.heap] <;> apply List.eq_nil_of_length_eq_zero <;> omega
  · simp only [] at h
    repeat' split at h
    all_goals first
      | cases h
      | (simp only [Except.ok.injEq, Prod.mk.injEq] at h; obtain ⟨h0, _⟩ := h; simp_all)

theorem dsince_in_range {t now : Int} (hge : now ≤ t) (hle : t - now ≤ durMax) : (dsince t now : Int) = t - now := by
  unfold dsince durSince
  have h1 : ((t - now).toNat : Int) = t - now := Int.toNat_of_nonneg (by omega)
  have h2 : (t - now).toNat ≤ durMax := by omega
  rw [Nat.min_eq_left h2]; exact h1

theorem Heap.peek_mem {α : Type} {h : Heap α} {x : α} (hp : h.peek = some x) : x ∈ h.data := by
  unfold Heap.peek at hp
  cases hd : h.data with
  | nil => simp [hd] at hp
  | cons a r => simp [hd] at hp; simp [hp]

/-- every queued event satisfies `p` -/
def SimQueue.AllE (s : SimQueue) (p : SimEvent → Prop) : Prop :=
  ∀ c qi, ∀ e ∈ ((s.side c).heap qi).data, p e

/-- `SimQueue::peek` without aggregate delays, all queued events within `Duration::MAX` after
    the clock: the selected event is the head of the named heap of its side, its offset is exact
    and it is not later than the head of any heap of either side -/
theorem SimQueue.peek_min {s : SimQueue} {now : Int} {ev : SimEvent} {qi : Queue} {d : Nat} (hw : s.WF)
    (hr : s.AllE fun e => now ≤ e.time ∧ e.time - now ≤ durMax)
    (h : s.peek 0 0 now = .ok (some ev, qi, d)) :
    ((s.side ev.client).heap qi).peek = some ev ∧ (d : Int) = ev.time - now ∧
    ∀ c qj r, ((s.side c).heap qj).peek = some r → ev.time ≤ r.time := by
  unfold SimQueue.peek at h
  split at h
  · cases h
  · rw [bind_ok_iff] at h
    obtain ⟨⟨ce, cq, cd⟩, h1, h2⟩ := h
    rw [bind_ok_iff] at h2
    obtain ⟨⟨se, sq', sd⟩, h3, h4⟩ := h2
    simp only [pure, Except.pure] at h4
    have fromSide : ∀ (c : Bool) {e : SimEvent} {q : Queue} {dd : Nat}, (s.side c).peek 0 now = .ok (some e, q, dd) →
        e.client = c ∧ ((s.side c).heap q).peek = some e ∧ (dd : Int) = e.time - now ∧
        ∀ qj r, ((s.side c).heap qj).peek = some r → e.time ≤ r.time := by
      intro c e q dd hh
      have hh1 := EventQueue.peek_heap hh
      have hcl : e.client = c := by
        cases c
        · exact hw.server.peek_client hh1
        · exact hw.client.peek_client hh1
      have hd := EventQueue.peek_dur hh
      have hrng := hr c q e (Heap.peek_mem hh1)
      have hq0 : qShift q 0 = 0 := by unfold qShift; split <;> rfl
      rw [hq0, Int.add_zero] at hd
      refine ⟨hcl, hh1, ?_, EventQueue.peek_min hh⟩
      rw [hd]; exact dsince_in_range hrng.1 hrng.2
    have h1' : (s.side true).peek 0 now = .ok (ce, cq, cd) := h1
    have h3' : (s.side false).peek 0 now = .ok (se, sq', sd) := h3
    cases ce with
    | none =>
      cases se with
      | none => simp at h4
      | some se' =>
        simp only [] at h4
        simp only [Except.ok.injEq, Prod.mk.injEq, Option.some.injEq] at h4
        obtain ⟨he, hq, hdd⟩ := h4
        subst he; subst hq; subst hdd
        obtain ⟨f1, f2, f3, f4⟩ := fromSide false h3'
        rw [f1]
        refine ⟨f2, f3, ?_⟩
        intro c qj r hrr
        cases c
        · exact f4 qj r hrr
        · have := EventQueue.peek_none h1' qj
          have hm := Heap.peek_mem hrr
          rw [this] at hm; cases hm
    | some ce' =>
      obtain ⟨g1, g2, g3, g4⟩ := fromSide true h1'
      cases se with
      | none =>
        simp only [] at h4
        simp only [Except.ok.injEq, Prod.mk.injEq, Option.some.injEq] at h4
        obtain ⟨he, hq, hdd⟩ := h4
        subst he; subst hq; subst hdd
        rw [g1]
        refine ⟨g2, g3, ?_⟩
        intro c qj r hrr
        cases c
        · have := EventQueue.peek_none h3' qj
          have hm := Heap.peek_mem hrr
          rw [this] at hm; cases hm
        · exact g4 qj r hrr
      | some se' =>
        obtain ⟨f1, f2, f3, f4⟩ := fromSide false h3'
        simp only [] at h4
        split at h4
        · rename_i hcmp
          simp only [Except.ok.injEq, Prod.mk.injEq, Option.some.injEq] at h4
          obtain ⟨he, hq, hdd⟩ := h4
          subst he; subst hq; subst hdd
          rw [g1]
          refine ⟨g2, g3, ?_⟩
          intro c qj r hrr
          cases c
          · have := f4 qj r hrr
            simp only [Bool.or_eq_true, Bool.and_eq_true, decide_eq_true_eq, beq_iff_eq] at hcmp
            omega
          · exact g4 qj r hrr
        · rename_i hcmp
          simp only [Except.ok.injEq, Prod.mk.injEq, Option.some.injEq] at h4
          obtain ⟨he, hq, hdd⟩ := h4
          subst he; subst hq; subst hdd
          rw [f1]
          refine ⟨f2, f3, ?_⟩
          intro c qj r hrr
          cases c
          · exact f4 qj r hrr
          · have := g4 qj r hrr
            simp only [Bool.or_eq_true, Bool.and_eq_true, decide_eq_true_eq, beq_iff_eq] at hcmp
            omega

/-! ### which heap a push / pop touches -/

/-- the heap `EventQueue::push` routes an event to -/
def route (e : SimEvent) : Queue :=
  match e.event with
  | .tunnelSent => if e.bypass then .bypassable else .blocking
  | .normalSent => .base
  | _ => .internal

theorem EventQueue.push_heap (q : EventQueue) (e : SimEvent) (qi : Queue) :
    (q.push e).heap qi = if qi = route e then (q.heap qi).push e else q.heap qi := by
  unfold EventQueue.push route
  cases hev : e.event <;> cases hb : e.bypass <;> cases qi <;> simp [EventQueue.heap]

theorem SimQueue.pushSim_heap (s : SimQueue) (e : SimEvent) (c : Bool) (qi : Queue) :
    ((s.pushSim e).side c).heap qi =
      if c = e.client ∧ qi = route e then ((s.side c).heap qi).push e else (s.side c).heap qi := by
  unfold SimQueue.pushSim SimQueue.setSide SimQueue.side
  cases c <;> cases hc : e.client <;> simp [EventQueue.push_heap]

theorem SimQueue.pop_heap0 {s s' : SimQueue} {qi : Queue} {cl : Bool} {e : SimEvent}
    (h : s.pop qi cl 0 = .ok (some (e, s'))) :
    ∃ h', Heap.pop SimEvent.le ((s.side cl).heap qi) = some (e, h') ∧
      ∀ c qj, (s'.side c).heap qj = if c = cl ∧ qj = qi then h' else (s.side c).heap qj := by
  unfold SimQueue.pop at h
  rw [bind_ok_iff] at h
  obtain ⟨r, hr, h2⟩ := h
  simp only [pure, Except.pure, Except.ok.injEq] at h2
  cases r with
  | none => simp at h2
  | some pr =>
    obtain ⟨e1, q1⟩ := pr
    simp only [Option.map_some, Option.some.injEq, Prod.mk.injEq] at h2
    obtain ⟨he, hs⟩ := h2
    subst he; subst hs
    have key : ∃ h', Heap.pop SimEvent.le ((s.side cl).heap qi) = some (e1, h') ∧
        ∀ qj, q1.heap qj = if qj = qi then h' else (s.side cl).heap qj := by
      unfold EventQueue.pop at hr
      cases qi with
      | blocking =>
        simp only [Except.ok.injEq] at hr
        cases hp : (s.side cl).blocking.pop with
        | none => simp [hp] at hr
        | some pr =>
          obtain ⟨x, hh⟩ := pr
          simp only [hp, Option.map_some, Option.some.injEq, Prod.mk.injEq] at hr
          obtain ⟨hx, hq⟩ := hr
          subst hx; subst hq
          exact ⟨hh, hp, by intro qj; cases qj <;> simp [EventQueue.heap]⟩
      | bypassable =>
        simp only [Except.ok.injEq] at hr
        cases hp : (s.side cl).bypassable.pop with
        | none => simp [hp] at hr
        | some pr =>
          obtain ⟨x, hh⟩ := pr
          simp only [hp, Option.map_some, Option.some.injEq, Prod.mk.injEq] at hr
          obtain ⟨hx, hq⟩ := hr
          subst hx; subst hq
          exact ⟨hh, hp, by intro qj; cases qj <;> simp [EventQueue.heap]⟩
      | internal =>
        simp only [Except.ok.injEq] at hr
        cases hp : (s.side cl).internal.pop with
        | none => simp [hp] at hr
        | some pr =>
          obtain ⟨x, hh⟩ := pr
          simp only [hp, Option.map_some, Option.some.injEq, Prod.mk.injEq] at hr
          obtain ⟨hx, hq⟩ := hr
          subst hx; subst hq
          exact ⟨hh, hp, by intro qj; cases qj <;> simp [EventQueue.heap]⟩
      | base =>
        simp only [] at hr
        cases hp : (s.side cl).base.pop with
        | none => simp [hp] at hr
        | some pr =>
          obtain ⟨x, hh⟩ := pr
          simp only [hp, Except.ok.injEq, Option.some.injEq, Prod.mk.injEq] at hr
          obtain ⟨hx, hq⟩ := hr
          subst hq
          have hx' : e1 = x := by rw [← hx]; cases x; simp
          subst hx'
          exact ⟨hh, hp, by intro qj; cases qj <;> simp [EventQueue.heap]⟩
    obtain ⟨h', hp, hq⟩ := key
    refine ⟨h', hp, ?_⟩
    intro c qj
    unfold SimQueue.setSide SimQueue.side at *
    cases c <;> cases cl <;> simp [hq]

/-! ### heap order and "for all queued events" through push and pop -/

/-- all eight heaps are heap ordered -/
def SimQueue.Ord (s : SimQueue) : Prop := ∀ c qi, HeapInv SimEvent.le ((s.side c).heap qi).data

theorem heap_push_mem {α : Type} {le : α → α → Bool} {h : Heap α} {x y : α} (hy : y ∈ (Heap.push le h x).data) :
    y ∈ h.data ∨ y = x := by
  classical
  have h1 := heap_push_countP (fun z => decide (z = y)) le h x
  have h2 : 0 < (Heap.push le h x).data.countP (fun z => decide (z = y)) :=
    List.countP_pos_iff.2 ⟨y, hy, by simp⟩
  by_cases hxy : x = y
  · exact Or.inr hxy.symm
  · have : b2n (decide (x = y)) = 0 := by simp [b2n, hxy]
    have h3 : 0 < h.data.countP (fun z => decide (z = y)) := by omega
    obtain ⟨z, hz, hzy⟩ := List.countP_pos_iff.1 h3
    have : z = y := by simpa using hzy
    exact Or.inl (this ▸ hz)

theorem SimQueue.pushSim_ord {s : SimQueue} (e : SimEvent) (h : s.Ord) : (s.pushSim e).Ord := by
  intro c qi
  rw [SimQueue.pushSim_heap]
  split
  · exact heapInv_push simEvent_totalPre e (h c qi)
  · exact h c qi

theorem SimQueue.pushSim_allE {s : SimQueue} {p : SimEvent → Prop} {e : SimEvent} (h : s.AllE p) (he : p e) :
    (s.pushSim e).AllE p := by
  intro c qi y hy
  rw [SimQueue.pushSim_heap] at hy
  split at hy
  · rcases heap_push_mem hy with hy | hy
    · exact h c qi y hy
    · exact hy ▸ he
  · exact h c qi y hy

theorem SimQueue.allE_mono {s : SimQueue} {p p' : SimEvent → Prop} (h : s.AllE p) (hpp : ∀ e, p e → p' e) : s.AllE p' :=
  fun c qi e he => hpp e (h c qi e he)

/-- popping (no aggregate delay) keeps the heap order, keeps "for all", returns the head of the
    named heap, and — if that head is not later than any other head — leaves only events that
    are not earlier than it -/
theorem SimQueue.pop_spec0 {s s' : SimQueue} {qi : Queue} {cl : Bool} {e : SimEvent} (ho : s.Ord)
    (h : s.pop qi cl 0 = .ok (some (e, s'))) :
    s'.Ord ∧ (∀ p : SimEvent → Prop, s.AllE p → s'.AllE p ∧ p e) ∧ ((s.side cl).heap qi).peek = some e ∧
    ((∀ c qj r, ((s.side c).heap qj).peek = some r → e.time ≤ r.time) → s'.AllE fun y => e.time ≤ y.time) := by
  obtain ⟨h', hp, hq⟩ := SimQueue.pop_heap0 h
  have hpk := (heap_pop_countP (fun _ => true) SimEvent.le hp).2
  refine ⟨?_, ?_, hpk, ?_⟩
  · intro c qj
    rw [hq]
    split
    · rename_i hc
      obtain ⟨hc1, hc2⟩ := hc
      subst hc1; subst hc2
      exact heapInv_pop simEvent_totalPre (ho c qj) hp
    · exact ho c qj
  · intro p hall
    refine ⟨?_, hall cl qi e (Heap.peek_mem hpk)⟩
    intro c qj y hy
    rw [hq] at hy
    split at hy
    · rename_i hc
      obtain ⟨hc1, hc2⟩ := hc
      subst hc1; subst hc2
      exact hall c qj y (heap_pop_mem hp y hy)
    · exact hall c qj y hy
  · intro hmin c qj y hy
    rw [hq] at hy
    split at hy
    · rename_i hc
      obtain ⟨hc1, hc2⟩ := hc
      subst hc1; subst hc2
      exact SimEvent.le_time ((heap_pop_max simEvent_totalPre (ho c qj) hp).2 y hy)
    · cases hd : ((s.side c).heap qj).data with
      | nil => rw [hd] at hy; cases hy
      | cons r rest =>
        have hpr : ((s.side c).heap qj).peek = some r := by simp [Heap.peek, hd]
        have h1 := hmin c qj r hpr
        have h2 := heap_root_max simEvent_totalPre (ho c qj) y hy r (by simp [hd])
        have := SimEvent.le_time h2
        omega

/-! ### the network stack for a plain packet within the packets-per-second limit -/

/-- what a plain packet event queues when it is processed: NormalSent → TunnelSent (same side and
    time), TunnelSent → TunnelRecv (other side, one network delay later), TunnelRecv →
    NormalRecv (same side and time) -/
def succL (delay : Nat) (e : SimEvent) : List SimEvent :=
  match e.event with
  | .normalSent => [⟨.tunnelSent, e.time, e.client, false, false, false⟩]
  | .tunnelSent => [⟨.tunnelRecv, e.time + delay, !e.client, false, false, false⟩]
  | .tunnelRecv => [⟨.normalRecv, e.time, e.client, false, false, false⟩]
  | _ => []

def pushAll (sq : SimQueue) (l : List SimEvent) : SimQueue := l.foldl SimQueue.pushSim sq

/-- the bottleneck after counting a packet of side `c` at `now` -/
def winUpd (net : Bottleneck) (c : Bool) (now : Int) : Bottleneck :=
  if c then { net with clientWindow := (net.clientWindow.add now).2 }
  else { net with serverWindow := (net.serverWindow.add now).2 }

def winOf (net : Bottleneck) (c : Bool) : WindowCount := if c then net.clientWindow else net.serverWindow

theorem simNetworkStack_exact {next : SimEvent} {sq sq' : SimQueue} {byp : Bool} {net net' : Bottleneck} {now : Int}
    {na : Bool} (hok : pktOK next = true) (hnow : next.time = now)
    (hcount : next.event = .tunnelSent → ((winOf net next.client).add now).1 ≤ net.ppsLimit)
    (h : simNetworkStack next sq byp net now = .ok (na, sq', net')) :
    sq' = pushAll sq (succL net.network.delay next) ∧
    net' = (if next.event = .tunnelSent then winUpd net next.client now else net) := by
  have hpad : next.containsPadding = false := by
    simp only [pktOK, Bool.and_eq_true, Bool.not_eq_true'] at hok
    exact hok.1.1.1
  unfold simNetworkStack at h
  split at h
  · rename_i hev
    cases h
    simp [succL, pushAll, hev]
  · rename_i m hev
    simp [pktOK, hev] at hok
  · rename_i hev
    have hc := hcount hev
    rw [map_ok_iff] at h
    obtain ⟨⟨sq1, net1⟩, h1, h2⟩ := h
    simp only [Prod.mk.injEq] at h2
    obtain ⟨_, hs, hn⟩ := h2
    subst hs; subst hn
    unfold netTunnelSent at h1
    rw [bind_ok_iff] at h1
    obtain ⟨⟨r, n1⟩, hsm, h1⟩ := h1
    have hsample : r = (net.network.delay, none) ∧ n1 = winUpd net next.client now := by
      unfold Bottleneck.sample at hsm
      simp only [] at hsm
      rw [bind_ok_iff] at hsm
      obtain ⟨dl, hd, hsm⟩ := hsm
      have hd0 : dl = 0 := by
        unfold Bottleneck.ppsDelay at hd
        have hle : ¬ ((if next.client then net.clientWindow else net.serverWindow).add now).1 >
            (if next.client then { net with clientWindow := ((if next.client then net.clientWindow else net.serverWindow).add now).2 }
              else { net with serverWindow := ((if next.client then net.clientWindow else net.serverWindow).add now).2 }).ppsLimit := by
          unfold winOf at hc
          cases hcl : next.client <;> simp [hcl] at hc ⊢ <;> omega
        simp only [hle, if_false, pure, Except.pure] at hd
        cases hd; rfl
      subst hd0
      unfold Bottleneck.sampleResult at hsm
      simp only [Nat.lt_irrefl, if_false, pure, Except.pure, gt_iff_lt, Except.ok.injEq, Prod.mk.injEq] at hsm
      obtain ⟨hr, hn1⟩ := hsm
      subst hr; subst hn1
      unfold winUpd
      cases next.client <;> simp
    obtain ⟨hr, hn1⟩ := hsample
    subst hr; subst hn1
    rw [bind_ok_iff] at h1
    obtain ⟨n2, hn2, h1⟩ := h1
    simp only [ppsAgg, pure, Except.pure, Except.ok.injEq] at hn2
    subst hn2
    simp only [pure, Except.pure, Except.ok.injEq, Prod.mk.injEq] at h1
    obtain ⟨hs, hn⟩ := h1
    subst hs; subst hn
    simp only [hev, if_true, succL, pushAll, List.foldl_cons, List.foldl_nil, and_true]
    congr 1
    unfold recvFor
    simp only [hpad, Bool.not_false, if_true]
    have : max (next.time + (net.network.delay : Int)) now = next.time + net.network.delay := by
      apply Int.max_eq_left; omega
    rw [this]
  · rename_i hev
    simp only [hpad, Bool.false_eq_true, if_false] at h
    cases h
    simp [succL, pushAll, hev]
  · rename_i h1 h2 h3 h4
    cases h
    cases hev : next.event <;> simp_all [succL, pushAll]

theorem SimQueue.pop_tcount0 (P : SimEvent → Bool) {s s' : SimQueue} {qi : Queue} {cl : Bool} {e : SimEvent}
    (h : s.pop qi cl 0 = .ok (some (e, s'))) : tcount P s = tcount P s' + b2n (P e) := by
  obtain ⟨h', hp, hq⟩ := SimQueue.pop_heap0 h
  have hc := (heap_pop_countP P SimEvent.le hp).1
  have a1 := hq true .base
  have a2 := hq true .blocking
  have a3 := hq true .bypassable
  have a4 := hq true .internal
  have a5 := hq false .base
  have a6 := hq false .blocking
  have a7 := hq false .bypassable
  have a8 := hq false .internal
  unfold tcount qcount
  cases cl <;> cases qi <;>
    simp [EventQueue.heap, SimQueue.side] at a1 a2 a3 a4 a5 a6 a7 a8 hc <;>
    rw [a1, a2, a3, a4, a5, a6, a7, a8] <;> omega

theorem pushAll_tcount (P : SimEvent → Bool) : ∀ (l : List SimEvent) (sq : SimQueue),
    tcount P (pushAll sq l) = tcount P sq + l.countP P := by
  intro l
  induction l with
  | nil => intro sq; rfl
  | cons a r ih =>
    intro sq
    show tcount P (pushAll (sq.pushSim a) r) = _
    rw [ih, pushSim_tcount, List.countP_cons]
    unfold b2n; split <;> omega

theorem pushAll_ord : ∀ (l : List SimEvent) (sq : SimQueue), sq.Ord → (pushAll sq l).Ord := by
  intro l
  induction l with
  | nil => intro sq h; exact h
  | cons a r ih => intro sq h; exact ih _ (SimQueue.pushSim_ord a h)

theorem pushAll_allE {p : SimEvent → Prop} : ∀ (l : List SimEvent) (sq : SimQueue), sq.AllE p → (∀ e ∈ l, p e) →
    (pushAll sq l).AllE p := by
  intro l
  induction l with
  | nil => intro sq h _; exact h
  | cons a r ih =>
    intro sq h hl
    exact ih _ (SimQueue.pushSim_allE h (hl a (by simp))) (fun e he => hl e (by simp [he]))

/-- `WindowCount::add` on a time-ordered window at a time not before its stamps -/
theorem window_add_spec (w : WindowCount) (t : Int) (hasc : Asc w.stamps) (hle : ∀ o ∈ w.stamps, o ≤ t) :
    (w.add t).1 = w.stamps.countP (fun x => decide (x ≤ t) && inWin w.window t x) + 1 ∧
    (w.add t).2.window = w.window ∧ Asc (w.add t).2.stamps ∧ (∀ o ∈ (w.add t).2.stamps, o ≤ t) ∧
    ∀ p : Int → Bool, (w.add t).2.stamps.countP p ≤ w.stamps.countP p + b2n (p t) := by
  have hasc' : Asc (w.stamps ++ [t]) := by
    unfold Asc
    rw [List.pairwise_append]
    refine ⟨hasc, by simp, ?_⟩
    intro a ha b hb
    simp only [List.mem_singleton] at hb
    subst hb; exact hle a ha
  have hle' : ∀ o ∈ w.stamps ++ [t], o ≤ t := by
    intro o ho
    simp only [List.mem_append, List.mem_singleton] at ho
    rcases ho with ho | ho
    · exact hle o ho
    · omega
  have hpr := prune_eq_filter w.window t (w.stamps ++ [t]) hasc' hle'
  have htt : inWin w.window t t = true := by
    unfold inWin dsince durSince; simp
  unfold WindowCount.add
  simp only []
  rw [hpr]
  refine ⟨?_, by first | rfl | trivial, ?_, ?_, ?_⟩
  · rw [← List.countP_eq_length_filter, List.countP_append]
    simp only [List.countP_cons, List.countP_nil, htt, if_true, Nat.zero_add, Nat.add_right_cancel_iff]
    apply List.countP_congr
    intro x hx
    have := hle x hx
    simp [this]
  · exact List.Pairwise.sublist List.filter_sublist hasc'
  · intro o ho
    exact hle' o (List.mem_filter.1 ho).1
  · intro p
    have h1 : (List.filter (inWin w.window t) (w.stamps ++ [t])).countP p ≤ (w.stamps ++ [t]).countP p :=
      List.Sublist.countP_le List.filter_sublist
    rw [List.countP_append] at h1
    have : List.countP p [t] = b2n (p t) := by simp [List.countP_cons, b2n]
    omega

/-- the static form of the window bound: in a time-ordered list whose every "count at a
    packet" is at most `lim`, the closed window of length `W` ending at any packet holds at most
    `lim` packets that are not later than it -/
theorem static_window_bound (W lim : Nat) (L : List Int) (hasc : Asc L)
    (hM : ∀ P y R, L = P ++ y :: R → cnt W P y ≤ lim) (t : Int) :
    ∀ (R P : List Int), L = P ++ t :: R → L.countP (fun x => decide (x ≤ t) && inWin W t x) ≤ lim := by
  intro R
  induction R with
  | nil =>
    intro P hL
    have := hM P t [] hL
    unfold cnt at this
    rw [← hL] at this
    have h2 : L.countP (fun x => decide (x ≤ t) && inWin W t x) ≤ L.countP (inWin W t) := by
      apply List.countP_mono_left
      intro x _ hx
      simp only [Bool.and_eq_true] at hx
      exact hx.2
    rw [← List.countP_eq_length_filter] at this
    omega
  | cons x R' ih =>
    intro P hL
    by_cases hxt : x = t
    · subst hxt
      exact ih (P ++ [x]) (by rw [hL]; simp)
    · -- everything after `t` is strictly later
      have hasc2 := hasc
      rw [hL] at hasc2
      have hRgt : ∀ z ∈ x :: R', t < z := by
        have h1 := (List.pairwise_append.1 hasc2).2.1
        have h2 := List.pairwise_cons.1 h1
        have htx : t ≤ x := h2.1 x (by simp)
        have h3 := List.pairwise_cons.1 h2.2
        intro z hz
        simp only [List.mem_cons] at hz
        rcases hz with hz | hz
        · subst hz; omega
        · have := h3.1 z hz; omega
      have := hM P t (x :: R') hL
      unfold cnt at this
      have h0 : (x :: R').countP (fun z => decide (z ≤ t) && inWin W t z) = 0 := by
        rw [List.countP_eq_zero]
        intro z hz
        have := hRgt z hz
        simp; omega
      have hsplit : L = (P ++ [t]) ++ (x :: R') := by rw [hL]; simp
      rw [hsplit, List.countP_append, h0]
      have h2 : (P ++ [t]).countP (fun x => decide (x ≤ t) && inWin W t x) ≤ (P ++ [t]).countP (inWin W t) := by
        apply List.countP_mono_left
        intro x _ hx
        simp only [Bool.and_eq_true] at hx
        exact hx.2
      rw [← List.countP_eq_length_filter] at this
      omega

/-! ### `pick_next` without machines and without aggregate delays -/

section
variable {σ : Type} (ρ : Oracle σ)

/-- the bottleneck of a run in which nothing was ever delayed -/
structure NetQuiet (delay lim : Nat) (net : Bottleneck) : Prop where
  ca : net.clientAgg = 0
  sa : net.serverAgg = 0
  aq : net.aggQueue.data = []
  dl : net.network.delay = delay
  lm : net.ppsLimit = lim

theorem pickDecide_exact {st : St σ} {delay lim : Nat} (hn : NoMach st) (hq : NetQuiet delay lim st.net) {p : Pick}
    (h : pickDecide st = .ok p) :
    p = .nothing ∨ p = .agg ∨
      ∃ pk qid dur, p = .queue dur qid pk.client ∧ st.sq.peek 0 0 st.now = .ok (some pk, qid, dur) := by
  have hs := peekScheduledAction_none (now := st.now) hn.ac hn.as
  have hi := peekScheduledInternalTimer_none (now := st.now) hn.tc hn.ts
  have hb : peekBlockedExp st.client.blockingUntil st.server.blockingUntil st.now = (durMax, true) := by
    rw [hn.bc, hn.bs]; rfl
  have hna : st.net.peekAggregateDelay st.now = durMax := by
    unfold Bottleneck.peekAggregateDelay Heap.peek
    rw [hq.aq]; rfl
  rcases pickDecide_nomach hn h with h0 | h0 | ⟨q, qid, c, h0⟩
  · exact Or.inl h0
  · exact Or.inr (Or.inl h0)
  · right; right
    subst h0
    unfold pickDecide at h
    simp only [] at h
    rw [bind_ok_iff] at h
    obtain ⟨⟨q', qid', qc'⟩, hpq, h2⟩ := h
    rw [hs, hi, hb, hna] at hpq h2
    simp only [Nat.min_self] at hpq
    have hqq : q' = q ∧ qid' = qid ∧ qc' = c := by
      simp only [pure, Except.pure] at h2
      split at h2
      · cases h2
      · split at h2
        · cases h2
        · split at h2
          · cases h2
          · split at h2
            · simp only [Except.ok.injEq, Pick.queue.injEq] at h2; exact h2
            · split at h2 <;> cases h2
    obtain ⟨e1, e2, e3⟩ := hqq
    subst e1; subst e2; subst e3
    unfold peekQueue at hpq
    split at hpq
    · -- empty queue: the offset would be `MAX`, and then the decision is "nothing"
      exfalso
      simp only [Except.ok.injEq, Prod.mk.injEq] at hpq
      obtain ⟨e1, _, _⟩ := hpq
      subst e1
      simp [pure, Except.pure] at h2
    · rw [bind_ok_iff] at hpq
      obtain ⟨⟨peek, queue, dur⟩, hpk, h3⟩ := hpq
      rw [hq.ca, hq.sa] at hpk
      cases peek with
      | none => simp at h3
      | some pk =>
        simp only [] at h3
        have hdle : dur ≤ durMax := by
          have := simQueue_peek_le hpk
          exact this
        have hng : ¬ dur > durMax := by omega
        simp only [hng, if_false, hn.bc, hn.bs, Option.isSome_none, Bool.not_false, Bool.and_self, if_true,
          pure, Except.pure, ite_self, Except.ok.injEq, Prod.mk.injEq] at h3
        obtain ⟨e1, e2, e3⟩ := h3
        subst e1; subst e2; subst e3
        exact ⟨pk, _, _, rfl, hpk⟩

/-- `pick_next` without machines and aggregate delays: it pops the selected event, which is not
    later than the head of any heap, unchanged (not moved in time), and changes nothing else -/
theorem pickNext_exact {delay lim : Nat} (fuel : Nat) (st st' : St σ) (e : SimEvent) (hn : NoMach st)
    (hq : NetQuiet delay lim st.net) (hw : st.sq.WF)
    (hr : st.sq.AllE fun e => st.now ≤ e.time ∧ e.time - st.now ≤ durMax)
    (h : pickNext fuel st = some (.ok (some e, st'))) :
    st'.client = st.client ∧ st'.server = st.server ∧ st'.net = st.net ∧ st'.now = st.now ∧ st'.orc = st.orc ∧
    ∃ qi, st.sq.pop qi e.client 0 = .ok (some (e, st'.sq)) ∧
      (∀ c qj r, ((st.sq.side c).heap qj).peek = some r → e.time ≤ r.time) := by
  cases fuel with
  | zero => simp [pickNext] at h
  | succ n =>
    unfold pickNext at h
    cases hd : pickDecide st with
    | error f => simp [hd] at h
    | ok p =>
      simp only [hd] at h
      rcases pickDecide_exact hn hq hd with h0 | h0 | ⟨pk, qid, dur, h0, hpk⟩
      · subst h0; simp at h
      · subst h0
        simp only [] at h
        have : pickAgg st = .error .diverge := by
          unfold pickAgg Heap.len
          rw [hq.aq]; rfl
        rw [this] at h; simp at h
      · subst h0
        simp only [] at h
        obtain ⟨m1, m2, m3⟩ := SimQueue.peek_min hw hr hpk
        cases hpq : pickQueue st dur qid pk.client with
        | error f => simp [hpq] at h
        | ok pr =>
          obtain ⟨e1, st1⟩ := pr
          simp only [hpq, Option.some.injEq, Except.ok.injEq, Prod.mk.injEq] at h
          obtain ⟨he, hst⟩ := h
          subst he; subst hst
          unfold pickQueue at hpq
          rw [bind_ok_iff] at hpq
          obtain ⟨r, hpop, h2⟩ := hpq
          have hagg : st.net.agg pk.client = 0 := by
            unfold Bottleneck.agg; cases pk.client <;> simp [hq.ca, hq.sa]
          rw [hagg] at hpop
          cases r with
          | none => simp at h2
          | some pr2 =>
            obtain ⟨tmp, sq1⟩ := pr2
            obtain ⟨_, hpk2, _⟩ := SimQueue.pop_heap0 hpop
            have hpk3 := (heap_pop_countP (fun _ => true) SimEvent.le hpk2).2
            rw [m1] at hpk3
            simp only [Option.some.injEq] at hpk3
            subst hpk3
            have hnm : ¬ (st.now + (dur : Int) > pk.time) := by omega
            simp only [hnm, if_false, pure, Except.pure, Except.ok.injEq, Prod.mk.injEq] at h2
            obtain ⟨he, hst⟩ := h2
            subst he; subst hst
            exact ⟨rfl, rfl, rfl, rfl, rfl, qid, hpop, m3⟩

/-! ### the parsed trace as a sequence of pushes -/

/-- the base event `parse_trace` queues for a line -/
def nsOf (delay : Nat) (l : TraceLine) : SimEvent :=
  if l.2 then ⟨.normalSent, (l.1 : Int), true, false, false, false⟩
  else ⟨.normalSent, (l.1 : Int) - delay, false, false, false, false⟩

theorem parseTrace_sides (trace : List TraceLine) (delay : Nat) :
    (parseTrace trace delay).client = (pushAll SimQueue.empty (trace.map (nsOf delay))).client ∧
    (parseTrace trace delay).server = (pushAll SimQueue.empty (trace.map (nsOf delay))).server := by
  have key : ∀ (tr : List TraceLine) (acc : ParseAcc),
      (tr.foldl (fun (acc : ParseAcc) (l : TraceLine) =>
        let ts : Int := l.1
        if l.2 then
          let sq := acc.sq.pushSim ⟨.normalSent, ts, true, false, false, false⟩
          let (m, w) := acc.sentW.add ts
          { acc with sq := sq, sentW := w, sentMax := if m > acc.sentMax then m else acc.sentMax }
        else
          let sq := acc.sq.pushSim ⟨.normalSent, ts - delay, false, false, false, false⟩
          let (m, w) := acc.recvW.add ts
          { acc with sq := sq, recvW := w, recvMax := if m > acc.recvMax then m else acc.recvMax }) acc).sq = pushAll acc.sq (tr.map (nsOf delay)) := by
    intro tr
    induction tr with
    | nil => intro acc; rfl
    | cons l ls ih =>
      intro acc
      simp only [List.foldl_cons, List.map_cons]
      rw [ih]
      show _ = pushAll (acc.sq.pushSim (nsOf delay l)) _
      congr 1
      unfold nsOf
      by_cases hl : l.2 = true
      · simp only [hl, if_true]
      · have hl' : l.2 = false := by simpa using hl
        simp only [hl', Bool.false_eq_true, if_false]
  have := key trace ⟨SimQueue.empty, ⟨Gen.SIM_PARSE_WINDOW_NS, []⟩, ⟨Gen.SIM_PARSE_WINDOW_NS, []⟩, 0, 0⟩
  unfold parseTrace
  simp only []
  simp only [] at this
  rw [this]
  exact ⟨rfl, rfl⟩

theorem pushAll_heap_other : ∀ (l : List SimEvent) (sq : SimQueue) (c : Bool) (qi : Queue),
    (∀ e ∈ l, route e = .base) → qi ≠ .base → ((pushAll sq l).side c).heap qi = (sq.side c).heap qi := by
  intro l
  induction l with
  | nil => intro sq c qi _ _; rfl
  | cons a r ih =>
    intro sq c qi hl hq
    show ((pushAll (sq.pushSim a) r).side c).heap qi = _
    rw [ih _ c qi (fun e he => hl e (by simp [he])) hq, SimQueue.pushSim_heap]
    have := hl a (by simp)
    rw [this]
    simp [hq]

/-- the first base time is the time of a queued event and not later than any queued event, when
    only the base heaps hold events -/
theorem firstTime_min {s : SimQueue} {t0 : Int} (ho : s.Ord)
    (hemp : ∀ c qi, qi ≠ .base → ((s.side c).heap qi).data = []) (h : s.firstTime = some t0) :
    (s.AllE fun e => t0 ≤ e.time) ∧ ∃ c r, r ∈ ((s.side c).heap .base).data ∧ r.time = t0 := by
  have hside : ∀ c r, ((s.side c).heap .base).peek = some r → ∀ y ∈ ((s.side c).heap .base).data, r.time ≤ y.time := by
    intro c r hr y hy
    exact SimEvent.le_time (heap_root_max simEvent_totalPre (ho c .base) y hy r hr)
  have hc : s.client.base = (s.side true).heap .base := rfl
  have hs : s.server.base = (s.side false).heap .base := rfl
  unfold SimQueue.firstTime EventQueue.firstBaseTime at h
  rw [hc, hs] at h
  have hall : ∀ (tc ts : Option Int), (∀ r, ((s.side true).heap .base).peek = some r → tc = some r.time) →
      (∀ r, ((s.side false).heap .base).peek = some r → ts = some r.time) →
      (∀ x, tc = some x → t0 ≤ x) → (∀ x, ts = some x → t0 ≤ x) → s.AllE fun e => t0 ≤ e.time := by
    intro tc ts h1 h2 h3 h4 c qi e he
    by_cases hq : qi = .base
    · subst hq
      cases hd : ((s.side c).heap .base).data with
      | nil => rw [hd] at he; cases he
      | cons r rest =>
        have hpr : ((s.side c).heap .base).peek = some r := by simp [Heap.peek, hd]
        have := hside c r hpr e he
        cases c
        · have := h4 _ (h2 r hpr); omega
        · have := h3 _ (h1 r hpr); omega
    · rw [hemp c qi hq] at he; cases he
  cases hpc : ((s.side true).heap .base).peek with
  | none =>
    cases hps : ((s.side false).heap .base).peek with
    | none => simp [hpc, hps] at h
    | some rs =>
      simp only [hpc, hps, Option.map_none, Option.map_some, Option.some.injEq] at h
      refine ⟨hall none (some rs.time) (by simp [hpc]) (by simp [hps]) (by simp) (by simp; omega), false, rs, Heap.peek_mem hps, h⟩
  | some rc =>
    cases hps : ((s.side false).heap .base).peek with
    | none =>
      simp only [hpc, hps, Option.map_none, Option.map_some, Option.some.injEq] at h
      refine ⟨hall (some rc.time) none (by simp [hpc]) (by simp [hps]) (by simp; omega) (by simp), true, rc, Heap.peek_mem hpc, h⟩
    | some rs =>
      simp only [hpc, hps, Option.map_some, Option.some.injEq] at h
      refine ⟨hall (some rc.time) (some rs.time) (by simp [hpc]) (by simp [hps]) (by simp; omega) (by simp; omega), ?_⟩
      by_cases hle : rc.time ≤ rs.time
      · exact ⟨true, rc, Heap.peek_mem hpc, by omega⟩
      · exact ⟨false, rs, Heap.peek_mem hps, by omega⟩

/-! ### the invariant of an exact run and its preservation -/

/-- the latest time an event or its descendants reach: packets still to cross the network
    count with the network delay -/
def reach (delay : Nat) (e : SimEvent) : Int := if isNS e || isTS e then e.time + delay else e.time

/-- a packet of side `c` that has not been sent into the tunnel yet, with its time in `p` -/
def sendPend (c : Bool) (p : Int → Bool) (e : SimEvent) : Bool := (e.client == c) && (isNS e || isTS e) && p e.time

theorem succL_props {delay : Nat} {next : SimEvent} :
    ∀ e ∈ succL delay next, next.time ≤ e.time ∧ reach delay e ≤ reach delay next := by
  intro e he
  unfold succL at he
  cases hev : next.event <;> simp only [hev, List.mem_singleton, List.not_mem_nil] at he <;> subst he <;>
    simp [reach, isNS, isTS, hev] <;> omega

theorem succL_sendPend {delay : Nat} {next : SimEvent} (c : Bool) (p : Int → Bool) :
    (succL delay next).countP (sendPend c p) = if isNS next then b2n (sendPend c p next) else 0 := by
  unfold succL
  cases hev : next.event <;> simp [sendPend, isNS, isTS, hev, b2n, List.countP_cons]

theorem sendPend_other {next : SimEvent} (c : Bool) (p : Int → Bool) (h1 : isNS next = false) (h2 : isTS next = false) :
    sendPend c p next = false := by
  simp [sendPend, h1, h2]

/-- the state of a run without machines in which, so far, nothing was delayed: heap-ordered
    queues holding only events at or after the clock, a quiet bottleneck, time-ordered windows,
    and for every side the packets still to be sent plus the stamps in the window are covered by
    the side's list of send times `L` -/
structure XInv (delay lim : Nat) (L : Bool → List Int) (B : Int) (st : St σ) : Prop where
  nm : NoMach st
  nq : NetQuiet delay lim st.net
  wf : st.sq.WF
  ord : st.sq.Ord
  fut : st.sq.AllE fun e => st.now ≤ e.time ∧ reach delay e ≤ B
  bnd : B - st.now ≤ durMax
  win : ∀ c, (winOf st.net c).window = Gen.SIM_BOTTLENECK_WINDOW_NS ∧ Asc (winOf st.net c).stamps ∧
    ∀ o ∈ (winOf st.net c).stamps, o ≤ st.now
  bud : ∀ c p, tcount (sendPend c p) st.sq + (winOf st.net c).stamps.countP p ≤ (L c).countP p

theorem winOf_winUpd (net : Bottleneck) (c c' : Bool) (t : Int) :
    winOf (winUpd net c t) c' = if c' = c then ((winOf net c).add t).2 else winOf net c' := by
  unfold winOf winUpd
  cases c <;> cases c' <;> simp

theorem netQuiet_winUpd {delay lim : Nat} {net : Bottleneck} (h : NetQuiet delay lim net) (c : Bool) (t : Int) :
    NetQuiet delay lim (winUpd net c t) := by
  unfold winUpd
  cases c <;> exact ⟨h.ca, h.sa, h.aq, h.dl, h.lm⟩

/-- **One iteration of an exact run**: the event is a plain packet, it is removed from the
    queues, its successor is queued (exactly one network delay later for a TunnelSent), nothing
    else changes, and the invariant is kept. -/
theorem step_exact {delay lim : Nat} {L : Bool → List Int} {B : Int}
    (hstat : ∀ c t, t ∈ L c →
      (L c).countP (fun x => decide (x ≤ t) && inWin Gen.SIM_BOTTLENECK_WINDOW_NS t x) ≤ lim)
    {st st' : St σ} {r : StepRec} (hx : XInv delay lim L B st) (h : step ρ st = .ok (some (r, st'))) :
    XInv delay lim L B st' ∧ pktOK r.ev = true ∧
    ∀ P, tcount P st'.sq + b2n (P r.ev) = tcount P st.sq + (succL delay r.ev).countP P := by
  have hnm := step_nomach ρ hx.nm h
  have hwf := (step_conserve ρ hx.wf h).1
  have hsp := step_spec ρ h
  unfold step at h
  rw [bind_ok_iff] at h
  obtain ⟨⟨next, st1⟩, hp, h2⟩ := h
  have hp' : pickNext (pickMeasure st + 1) st = some (.ok (next, st1)) := by
    cases hpn : pickNext (pickMeasure st + 1) st with
    | none => simp [hpn] at hp
    | some x => simp [hpn] at hp; rw [hp]
  cases next with
  | none => simp [pure, Except.pure] at h2
  | some next =>
    have hr : st.sq.AllE fun e => st.now ≤ e.time ∧ e.time - st.now ≤ durMax := by
      refine SimQueue.allE_mono (p' := fun e => st.now ≤ e.time ∧ e.time - st.now ≤ durMax) hx.fut ?_
      intro e he
      refine ⟨he.1, ?_⟩
      have h1 := hx.bnd
      have h2 := he.2
      unfold reach at h2
      split at h2 <;> omega
    obtain ⟨e1, e2, e3, e4, e5, qi, hpop, hmin⟩ := pickNext_exact _ _ _ _ hx.nm hx.nq hx.wf hr hp'
    obtain ⟨ho1, hall1, hpk1, hmin1⟩ := SimQueue.pop_spec0 hx.ord hpop
    have hfn := (hall1 _ hx.fut).2
    have hfut1 := (hall1 _ hx.fut).1
    have hge1 := hmin1 hmin
    have hcnt1 := fun P => SimQueue.pop_tcount0 P hpop
    simp only [] at h2
    split at h2
    · cases h2
    · rw [bind_ok_iff] at h2
      obtain ⟨⟨na, sq, net⟩, hs, h3⟩ := h2
      rw [bind_ok_iff] at h3
      obtain ⟨⟨acts, st2⟩, ht, h4⟩ := h3
      simp only [pure, Except.pure, Except.ok.injEq, Option.some.injEq, Prod.mk.injEq] at h4
      obtain ⟨hrr, hst⟩ := h4
      subst hrr; subst hst
      simp only [] at hsp hnm ⊢
      have hnow : (if next.time > st1.now then next.time else st1.now) = next.time := by
        rw [e4]; split <;> omega
      simp only [hnow] at hs ht
      have hq : Quiet (({ ({ st1 with now := next.time } : St σ) with sq := sq, net := net } : St σ).side next.client).fw := by
        unfold St.side
        simp only [e1, e2]
        cases next.client
        · exact hx.nm.qs
        · exact hx.nm.qc
      obtain ⟨_, t1, _, t3, _⟩ := triggerUpdate_quiet ρ hq ht
      have t4 := triggerUpdate_now ρ ht
      simp only [] at t1 t3 t4
      -- the window count of a TunnelSent is within the limit
      have hcount : next.event = .tunnelSent → ((winOf st1.net next.client).add next.time).1 ≤ st1.net.ppsLimit := by
        intro hev
        rw [e3, hx.nq.lm]
        obtain ⟨w1, w2, w3⟩ := hx.win next.client
        have hle : ∀ o ∈ (winOf st.net next.client).stamps, o ≤ next.time := fun o ho => by
          have := w3 o ho; omega
        rw [(window_add_spec _ next.time w2 hle).1, w1]
        have hts : isTS next = true := by simp [isTS, hev]
        -- the event itself is one of the packets still to be sent
        have hin : ∀ p : Int → Bool, p next.time = true →
            (winOf st.net next.client).stamps.countP p + 1 ≤ (L next.client).countP p := by
          intro p hpt
          have hb := hx.bud next.client p
          have hc := hcnt1 (sendPend next.client p)
          have : sendPend next.client p next = true := by simp [sendPend, hts, hpt]
          rw [this] at hc
          simp only [b2n, if_true] at hc
          omega
        have hmem : next.time ∈ L next.client := by
          have := hin (fun x => x == next.time) (by simp)
          have hpos : 0 < (L next.client).countP (fun x => x == next.time) := by omega
          obtain ⟨z, hz, hzz⟩ := List.countP_pos_iff.1 hpos
          have : z = next.time := by simpa using hzz
          exact this ▸ hz
        have h1 := hin (fun x => decide (x ≤ next.time) && inWin Gen.SIM_BOTTLENECK_WINDOW_NS next.time x)
          (by simp [inWin, dsince, durSince])
        have h2 := hstat next.client next.time hmem
        omega
      obtain ⟨hsq, hnet⟩ := simNetworkStack_exact hnm.2 rfl hcount hs
      rw [e3, hx.nq.dl] at hsq
      rw [e3] at hnet
      have hsq2 : st2.sq = pushAll st1.sq (succL delay next) := by rw [t1, hsq]
      have hcnt2 : ∀ P, tcount P st2.sq + b2n (P next) = tcount P st.sq + (succL delay next).countP P := by
        intro P
        rw [hsq2, pushAll_tcount, hcnt1 P]; omega
      refine ⟨?_, hnm.2, hcnt2⟩
      have hnow2 : st2.now = next.time := hsp.1
      have hnet2 : st2.net = if next.event = .tunnelSent then winUpd st.net next.client next.time else st.net := by
        rw [t3, hnet]
      refine ⟨hnm.1, ?_, hwf, ?_, ?_, ?_, ?_, ?_⟩
      · rw [hnet2]; split
        · exact netQuiet_winUpd hx.nq _ _
        · exact hx.nq
      · rw [hsq2]; exact pushAll_ord _ _ ho1
      · rw [hsq2, hnow2]
        apply pushAll_allE
        · intro c qj y hy
          exact ⟨hge1 c qj y hy, (hfut1 c qj y hy).2⟩
        · intro e he
          have := succL_props e he
          exact ⟨this.1, by omega⟩
      · rw [hnow2]; have := hx.bnd; omega
      · intro c
        rw [hnet2, hnow2]
        obtain ⟨w1, w2, w3⟩ := hx.win c
        split
        · rw [winOf_winUpd]
          split
          · rename_i hcc
            subst hcc
            have hle : ∀ o ∈ (winOf st.net next.client).stamps, o ≤ next.time := fun o ho => by
              have := w3 o ho; omega
            obtain ⟨_, a2, a3, a4, _⟩ := window_add_spec _ next.time w2 hle
            exact ⟨by rw [a2, w1], a3, a4⟩
          · exact ⟨w1, w2, fun o ho => by have := w3 o ho; omega⟩
        · exact ⟨w1, w2, fun o ho => by have := w3 o ho; omega⟩
      · intro c p
        have hb := hx.bud c p
        have hc := hcnt2 (sendPend c p)
        rw [succL_sendPend] at hc
        rw [hnet2]
        by_cases hns : isNS next = true
        · have hnts : ¬ next.event = .tunnelSent := by
            simp only [isNS, beq_iff_eq] at hns; rw [hns]; simp
          simp only [hnts, if_false]
          simp only [hns, if_true] at hc
          omega
        · simp only [hns, Bool.false_eq_true, if_false] at hc
          by_cases hev : next.event = .tunnelSent
          · simp only [hev, if_true]
            rw [winOf_winUpd]
            obtain ⟨w1, w2, w3⟩ := hx.win next.client
            have hle : ∀ o ∈ (winOf st.net next.client).stamps, o ≤ next.time := fun o ho => by
              have := w3 o ho; omega
            obtain ⟨_, _, _, _, a5⟩ := window_add_spec _ next.time w2 hle
            have hts : isTS next = true := by simp [isTS, hev]
            split
            · rename_i hcc
              subst hcc
              have := a5 p
              have hsp2 : sendPend next.client p next = p next.time := by simp [sendPend, hts]
              rw [hsp2] at hc
              omega
            · rename_i hcc
              have hsp2 : sendPend c p next = false := by
                simp only [sendPend, Bool.and_eq_false_imp, Bool.and_eq_true, beq_iff_eq]
                intro hh; exact absurd hh.1.symm hcc
              rw [hsp2] at hc
              simp only [b2n, Bool.false_eq_true, if_false] at hc
              omega
          · simp only [hev, if_false]
            have hsp2 : sendPend c p next = false :=
              sendPend_other c p (by simpa using hns) (by simp [isTS, hev])
            rw [hsp2] at hc
            simp only [b2n, Bool.false_eq_true, if_false] at hc
            omega

/-- **The main loop of an exact run**: for every pair of event predicates `P` (what is counted in
    the queues) and `Q` (what is counted in the stream) such that processing a plain packet `e`
    moves `P`-weight from `e` to its successor except for the `Q` events, which consume it, the
    `P`-count of the initial queues is the `P`-count of the final queues plus the `Q`-count of the
    stream. -/
theorem loop_exact {delay lim : Nat} {L : Bool → List Int} {B : Int}
    (hstat : ∀ c t, t ∈ L c →
      (L c).countP (fun x => decide (x ≤ t) && inWin Gen.SIM_BOTTLENECK_WINDOW_NS t x) ≤ lim)
    (args : Args) (P Q : SimEvent → Bool)
    (hPQ : ∀ e, pktOK e = true → (succL delay e).countP P + b2n (Q e) = b2n (P e)) :
    ∀ (fuel : Nat) (st : St σ) (iters cnt : Nat), XInv delay lim L B st →
      ∀ stf, (loop ρ args fuel st iters cnt).final = some stf →
        XInv delay lim L B stf ∧
        tcount P st.sq = tcount P stf.sq + (loop ρ args fuel st iters cnt).stream.countP (fun r => Q r.ev) := by
  intro fuel
  induction fuel with
  | zero =>
    intro st iters cnt hx stf h
    simp only [loop] at h ⊢
    cases h; exact ⟨hx, by simp⟩
  | succ n ih =>
    intro st iters cnt hx stf h
    cases hs : step ρ st with
    | error f => simp only [loop, hs] at h; cases h
    | ok o =>
      cases o with
      | none =>
        simp only [loop, hs] at h ⊢
        cases h; exact ⟨hx, by simp⟩
      | some pr =>
        obtain ⟨r, st'⟩ := pr
        obtain ⟨hx', hok, hc⟩ := step_exact ρ hstat hx hs
        have h1 := hc P
        have h2 := hPQ r.ev hok
        have hkey : tcount P st.sq = tcount P st'.sq + (if Q r.ev = true then 1 else 0) := by
          unfold b2n at h1 h2; omega
        rw [loop_succ_some ρ args n st st' iters cnt r hs] at h ⊢
        cases hstop : stopCheck args st' iters (bump args r cnt) with
        | some s =>
          simp only [hstop] at h ⊢
          cases h
          refine ⟨hx', ?_⟩
          simp only [List.countP_cons, List.countP_nil]
          omega
        | none =>
          simp only [hstop] at h ⊢
          obtain ⟨i1, i2⟩ := ih st' (iters + 1) (bump args r cnt) hx' stf h
          refine ⟨i1, ?_⟩
          simp only [List.countP_cons]
          omega

/-! ### the initial state -/

/-- the send times of a side: the client sends at its `s` times, the server one network delay
    before the client's `r` times -/
def Lof (trace : List TraceLine) (delay : Nat) (c : Bool) : List Int :=
  if c then sTimes trace else (rTimes trace).map (· - (delay : Int))

theorem init_budget (delay : Nat) (c : Bool) (p : Int → Bool) : ∀ (trace : List TraceLine),
    (trace.map (nsOf delay)).countP (sendPend c p) = (Lof trace delay c).countP p := by
  intro trace
  induction trace with
  | nil => cases c <;> rfl
  | cons l ls ih =>
    rw [List.map_cons, List.countP_cons, ih]
    cases c <;> cases hl : l.2 <;>
      simp [Lof, sTimes, rTimes, List.filter_cons, hl, nsOf, sendPend, isNS, isTS, List.countP_cons]

theorem tcount_congr (P : SimEvent → Bool) {a b : SimQueue} (h1 : a.client = b.client) (h2 : a.server = b.server) :
    tcount P a = tcount P b := by
  unfold tcount; rw [h1, h2]

theorem side_congr {a b : SimQueue} (h1 : a.client = b.client) (h2 : a.server = b.server) (c : Bool) :
    a.side c = b.side c := by
  unfold SimQueue.side; cases c <;> simp [h1, h2]

theorem empty_ord : SimQueue.empty.Ord := by
  intro c qi
  cases c <;> cases qi <;> exact heapInv_empty _

theorem tcount_empty (P : SimEvent → Bool) : tcount P SimQueue.empty = 0 := rfl

/-- the initial state of a run without machines on a parsed trace satisfies the invariant -/
theorem initState_xinv {trace : List TraceLine} {delay lim : Nat} {a : Args} {orc : σ} {st : St σ}
    (hnet : a.network = ⟨delay, none⟩) (hlim : (parseTrace trace delay).maxPps = some lim)
    (hB : ∀ l ∈ trace, ((l.1 : Nat) : Int) + 2 * (delay : Int) ≤ durMax)
    (h : initState ρ [] [] (parseTrace trace delay) a orc = .ok st) :
    XInv delay lim (Lof trace delay) (st.now + durMax) st ∧ st.sq = parseTrace trace delay ∧
    (parseTrace trace delay).firstTime = some st.now := by
  have hnm := initState_nomach ρ h
  have hsq := initState_sq ρ h
  obtain ⟨hs1, hs2⟩ := parseTrace_sides trace delay
  have hside := side_congr hs1 hs2
  let evs := trace.map (nsOf delay)
  have hroute : ∀ e ∈ evs, route e = .base := by
    intro e he
    simp only [evs, List.mem_map] at he
    obtain ⟨l, _, hl⟩ := he
    subst hl
    unfold nsOf route; cases l.2 <;> rfl
  -- heap order, emptiness of the other heaps, bounds of the queued events
  have hord : (parseTrace trace delay).Ord := by
    intro c qi; rw [hside]; exact pushAll_ord _ _ empty_ord c qi
  have hemp : ∀ c qi, qi ≠ .base → (((parseTrace trace delay).side c).heap qi).data = [] := by
    intro c qi hq
    rw [hside, pushAll_heap_other _ _ c qi hroute hq]
    cases c <;> cases qi <;> first | rfl | exact absurd rfl hq
  have hrange : (parseTrace trace delay).AllE fun e => -(delay : Int) ≤ e.time ∧ e.time + 2 * (delay : Int) ≤ durMax := by
    intro c qi e he
    rw [hside] at he
    refine pushAll_allE (p := fun e => -(delay : Int) ≤ e.time ∧ e.time + 2 * (delay : Int) ≤ durMax) evs _ ?_ ?_ c qi e he
    · intro c qi e he; cases c <;> cases qi <;> cases he
    · intro e he
      simp only [evs, List.mem_map] at he
      obtain ⟨l, hl, hle⟩ := he
      subst hle
      have := hB l hl
      unfold nsOf; split <;> simp <;> omega
  unfold initState at h
  rw [bind_ok_iff] at h
  obtain ⟨t0, ht0, h⟩ := h
  rw [bind_ok_iff] at h
  obtain ⟨⟨c, o1⟩, hc, h⟩ := h
  rw [bind_ok_iff] at h
  obtain ⟨⟨sv, o2⟩, hsv, h⟩ := h
  rw [bind_ok_iff] at h
  obtain ⟨net, hnew, h⟩ := h
  simp only [pure, Except.pure, Except.ok.injEq] at h
  subst h
  simp only [] at hnm hsq ⊢
  have hft : (parseTrace trace delay).firstTime = some t0 := by
    unfold firstTimeE at ht0
    split at ht0
    · rename_i t hh; cases ht0; exact hh
    · cases ht0
  obtain ⟨hmin, cm, rm, hrm, hrt⟩ := firstTime_min hord hemp hft
  have ht0lo : -(delay : Int) ≤ t0 := by rw [← hrt]; exact (hrange cm .base rm hrm).1
  -- the bottleneck
  have hnetq : NetQuiet delay lim net ∧ net.clientWindow = ⟨Gen.SIM_BOTTLENECK_WINDOW_NS, []⟩ ∧
      net.serverWindow = ⟨Gen.SIM_BOTTLENECK_WINDOW_NS, []⟩ := by
    unfold Bottleneck.new at hnew
    simp only [hnet, hlim, Option.getD_none, Option.getD_some] at hnew
    split at hnew
    · cases hnew
    · cases hnew
      exact ⟨⟨rfl, rfl, rfl, rfl, rfl⟩, rfl, rfl⟩
  obtain ⟨hq, hcw, hsw⟩ := hnetq
  refine ⟨⟨hnm, hq, (parseTrace_spec trace delay).1, hord, ?_, by show t0 + (durMax : Int) - t0 ≤ durMax; omega, ?_, ?_⟩, by first | rfl | trivial, hft⟩
  · intro c' qi e he
    have h1 := hmin c' qi e he
    have h2 := hrange c' qi e he
    refine ⟨h1, ?_⟩
    unfold reach; split <;> omega
  · intro c'
    unfold winOf
    cases c' <;> simp [hcw, hsw, Asc]
  · intro c' p
    have : (winOf net c').stamps = [] := by unfold winOf; cases c' <;> simp [hcw, hsw]
    rw [this, tcount_congr _ hs1 hs2, pushAll_tcount, tcount_empty, init_budget]
    simp

/-! ### the final state and the counts of the stream -/

theorem tcount_zero_of_all {P : SimEvent → Bool} {sq : SimQueue}
    (h : ∀ c qi, ∀ e ∈ ((sq.side c).heap qi).data, P e = false) : tcount P sq = 0 := by
  have z : ∀ c qi, ((sq.side c).heap qi).data.countP P = 0 := by
    intro c qi
    rw [List.countP_eq_zero]
    intro e he
    simp [h c qi e he]
  have a1 := z true .base
  have a2 := z true .blocking
  have a3 := z true .bypassable
  have a4 := z true .internal
  have a5 := z false .base
  have a6 := z false .blocking
  have a7 := z false .bypassable
  have a8 := z false .internal
  simp only [EventQueue.heap, SimQueue.side, if_true, Bool.false_eq_true, if_false] at a1 a2 a3 a4 a5 a6 a7 a8
  unfold tcount qcount
  omega

/-- when all normal packets are processed the queues hold no NormalSent, no TunnelSent and no
    TunnelRecv -/
theorem noNormal_no_packets {sq : SimQueue} (hw : sq.WF) (h : sq.noNormalPackets = true) :
    ∀ c qi, ∀ e ∈ ((sq.side c).heap qi).data, isNS e = false ∧ isTS e = false ∧ (e.event == .tunnelRecv) = false := by
  have key : ∀ (q : EventQueue) (c' : Bool), q.WF c' → q.noNormalPackets = true →
      ∀ qi, ∀ e ∈ (q.heap qi).data, isNS e = false ∧ isTS e = false ∧ (e.event == .tunnelRecv) = false := by
    intro q c' hq hn qi e he
    unfold EventQueue.noNormalPackets at hn
    simp only [Bool.and_eq_true] at hn
    obtain ⟨⟨⟨hb, hbl⟩, hby⟩, hin⟩ := hn
    cases qi with
    | base =>
      have h1 : q.base.data = [] := by simpa [Heap.isEmpty] using hb
      simp only [EventQueue.heap] at he
      rw [h1] at he; cases he
    | blocking =>
      simp only [EventQueue.heap] at he
      have hall := List.all_eq_true.1 hbl e he
      have hts : isTS e = true := by
        have := List.countP_eq_zero.1 hq.blocking e he
        simp at this; exact this.1.1
      simp [isTS] at hts
      simp [hts] at hall
    | bypassable =>
      simp only [EventQueue.heap] at he
      have hall := List.all_eq_true.1 hby e he
      have hts : isTS e = true := by
        have := List.countP_eq_zero.1 hq.bypassable e he
        simp at this; exact this.1.1
      simp [isTS] at hts
      simp [hts] at hall
    | internal =>
      simp only [EventQueue.heap] at he
      have hall := List.all_eq_true.1 hin e he
      have := List.countP_eq_zero.1 hq.internal e he
      simp at this
      simp at hall
      refine ⟨this.1.2, this.1.1, ?_⟩
      simp [hall.1]
  unfold SimQueue.noNormalPackets at h
  simp only [Bool.and_eq_true] at h
  intro c
  cases c
  · exact key sq.server false hw.server h.2
  · exact key sq.client true hw.client h.1

/-- TunnelSent of side `c` with time in `p` -/
def tsQ (c : Bool) (p : Int → Bool) (e : SimEvent) : Bool := (e.client == c) && isTS e && p e.time
/-- TunnelRecv at the other side of `c` with time in `p` -/
def trQ (c : Bool) (p : Int → Bool) (e : SimEvent) : Bool := (e.client == !c) && (e.event == .tunnelRecv) && p e.time
/-- a packet of side `c` on its way whose arrival time at the other side is in `p` -/
def trP (delay : Nat) (c : Bool) (p : Int → Bool) (e : SimEvent) : Bool :=
  sendPend c (fun x => p (x + delay)) e || trQ c p e

theorem hPQ_ts (delay : Nat) (c : Bool) (p : Int → Bool) (e : SimEvent) (_ : pktOK e = true) :
    (succL delay e).countP (sendPend c p) + b2n (tsQ c p e) = b2n (sendPend c p e) := by
  unfold succL
  cases hev : e.event <;> cases hc : (e.client == c) <;> cases hp : p e.time <;>
    simp [sendPend, tsQ, isNS, isTS, hev, hc, hp, b2n, List.countP_cons]

theorem hPQ_tr (delay : Nat) (c : Bool) (p : Int → Bool) (e : SimEvent) (_ : pktOK e = true) :
    (succL delay e).countP (trP delay c p) + b2n (trQ c p e) = b2n (trP delay c p e) := by
  unfold succL
  cases hev : e.event <;> cases c <;> cases hc : e.client <;> cases hp : p e.time <;>
    cases hp2 : p (e.time + delay) <;>
    simp [trP, sendPend, trQ, isNS, isTS, hev, hc, hp, hp2, b2n, List.countP_cons]

/-- **The stream of an exact run.**  A run without machines on a parsed trace (network without an
    explicit packets-per-second limit, times within `Duration::MAX`), whose trace-derived limit
    covers every one-second window (`hstat`), that ended because all normal packets were
    processed: for every side `c` and every set of times `p`, the TunnelSent events of side `c`
    with time in `p` are as many as the side's send times in `p`, and the TunnelRecv events at the
    other side with time in `p` are as many as the send times `x` with `x + delay` in `p`. -/
theorem sim_exact_counts (budget : Nat) (trace : List TraceLine) (delay lim : Nat) (a : Args) (orc : σ)
    (hnet : a.network = ⟨delay, none⟩) (hlim : (parseTrace trace delay).maxPps = some lim)
    (hB : ∀ l ∈ trace, ((l.1 : Nat) : Int) + 2 * (delay : Int) ≤ durMax)
    (hstat : ∀ c t, t ∈ Lof trace delay c →
      (Lof trace delay c).countP (fun x => decide (x ≤ t) && inWin Gen.SIM_BOTTLENECK_WINDOW_NS t x) ≤ lim)
    (hstop : (simAdvanced ρ budget [] [] (parseTrace trace delay) a orc).stop = .noNormal) (c : Bool) (p : Int → Bool) :
    (simAdvanced ρ budget [] [] (parseTrace trace delay) a orc).stream.countP (fun r => tsQ c p r.ev) =
      (Lof trace delay c).countP p ∧
    (simAdvanced ρ budget [] [] (parseTrace trace delay) a orc).stream.countP (fun r => trQ c p r.ev) =
      (Lof trace delay c).countP (fun x => p (x + delay)) := by
  unfold simAdvanced at hstop ⊢
  cases hi : initState ρ [] [] (parseTrace trace delay) a orc with
  | error f => simp [hi] at hstop
  | ok st =>
    simp only [hi] at hstop ⊢
    rw [finish_stop] at hstop
    rw [finish_stream]
    obtain ⟨hx, hsq, _⟩ := initState_xinv ρ hnet hlim hB hi
    obtain ⟨stf, hfin, hnn⟩ := loop_noNormal ρ a _ st 0 0 hstop
    obtain ⟨hs1, hs2⟩ := parseTrace_sides trace delay
    constructor
    · obtain ⟨hxf, hc⟩ := loop_exact ρ hstat a (sendPend c p) (tsQ c p) (hPQ_ts delay c p) _ st 0 0 hx stf hfin
      have hz : tcount (sendPend c p) stf.sq = 0 := by
        apply tcount_zero_of_all
        intro c' qi e he
        obtain ⟨n1, n2, _⟩ := noNormal_no_packets hxf.wf hnn c' qi e he
        simp [sendPend, n1, n2]
      rw [hz, hsq, tcount_congr _ hs1 hs2, pushAll_tcount, tcount_empty, init_budget] at hc
      omega
    · obtain ⟨hxf, hc⟩ := loop_exact ρ hstat a (trP delay c p) (trQ c p) (hPQ_tr delay c p) _ st 0 0 hx stf hfin
      have hz : tcount (trP delay c p) stf.sq = 0 := by
        apply tcount_zero_of_all
        intro c' qi e he
        obtain ⟨n1, n2, n3⟩ := noNormal_no_packets hxf.wf hnn c' qi e he
        simp [trP, sendPend, trQ, n1, n2, n3]
      have hcongr : (trace.map (nsOf delay)).countP (trP delay c p) =
          (trace.map (nsOf delay)).countP (sendPend c (fun x => p (x + delay))) := by
        apply List.countP_congr
        intro e he
        simp only [List.mem_map] at he
        obtain ⟨l, _, hl⟩ := he
        subst hl
        unfold nsOf
        cases l.2 <;> simp [trP, trQ]
      rw [hz, hsq, tcount_congr _ hs1 hs2, pushAll_tcount, tcount_empty, hcongr, init_budget] at hc
      omega

end
end Mb.Sim
