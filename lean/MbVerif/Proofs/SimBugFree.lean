/-
  The internal consistency assertions of `pick_next` cannot fire: candidate offsets are at most
  `Duration::MAX`, the internal-timer / scheduled-action branches are only taken for an offset
  that belongs to a pending slot, and that slot is then found.
-/
import MbVerif.Proofs.SimNoLeak

namespace Mb.Sim
open Mb

theorem eventQueue_peek_le {q : EventQueue} {ds : Nat} {now : Int} {e : Option SimEvent} {qi : Queue} {d : Nat}
    (h : q.peek ds now = .ok (e, qi, d)) : d ≤ durMax := by
  unfold EventQueue.peek at h
  by_cases h0 : q.len = 0
  · simp only [h0, if_true] at h
    simp only [Except.ok.injEq, Prod.mk.injEq] at h
    omega
  · simp only [h0, if_false] at h
    generalize (if optGt q.internal.peek (if optGt q.blocking.peek q.bypassable.peek then (q.blocking.peek, Queue.blocking)
            else (q.bypassable.peek, Queue.bypassable)).1
          then (q.internal.peek, Queue.internal)
          else (if optGt q.blocking.peek q.bypassable.peek then (q.blocking.peek, Queue.blocking)
            else (q.bypassable.peek, Queue.bypassable))) = fq at h
    by_cases hb : before q.base.peek fq.1 ds = true
    · simp only [hb, if_true] at h
      cases hp : q.base.peek with
      | none => simp [hp] at h
      | some x =>
        simp only [hp, Except.ok.injEq, Prod.mk.injEq] at h
        rw [← h.2.2]; exact dsince_le' _ _
    · simp only [hb, Bool.false_eq_true, if_false] at h
      cases hp : fq.1 with
      | none => simp [hp] at h
      | some x =>
        simp only [hp, Except.ok.injEq, Prod.mk.injEq] at h
        rw [← h.2.2]; exact dsince_le' _ _

theorem simQueue_peek_le {s : SimQueue} {c sv : Nat} {now : Int} {e : Option SimEvent} {qi : Queue} {d : Nat}
    (h : s.peek c sv now = .ok (e, qi, d)) : d ≤ durMax := by
  unfold SimQueue.peek at h
  by_cases h0 : s.len = 0
  · simp only [h0, if_true, Except.ok.injEq, Prod.mk.injEq] at h
    omega
  · simp only [h0, if_false] at h
    rw [bind_ok_iff] at h
    obtain ⟨⟨ce, cq, cd⟩, h1, h2⟩ := h
    rw [bind_ok_iff] at h2
    obtain ⟨⟨se, sq', sd⟩, h3, h4⟩ := h2
    have hc := eventQueue_peek_le h1
    have hs := eventQueue_peek_le h3
    simp only [pure, Except.pure] at h4
    cases ce with
    | none =>
      cases se with
      | none => simp only [Except.ok.injEq, Prod.mk.injEq] at h4; omega
      | some x => simp only [Except.ok.injEq, Prod.mk.injEq] at h4; omega
    | some y =>
      cases se with
      | none => simp only [Except.ok.injEq, Prod.mk.injEq] at h4; omega
      | some x =>
        simp only [] at h4
        split at h4 <;> (simp only [Except.ok.injEq, Prod.mk.injEq] at h4; omega)

theorem peekQueueEarliestSide_le (sq : SimQueue) (bu : Option Int) (byp : Bool) (now : Int) (ds : Nat) (cl : Bool) :
    (peekQueueEarliestSide sq bu byp now ds cl).1 ≤ durMax := by
  unfold peekQueueEarliestSide
  rcases sq1 : sq.peekBlocking byp cl with ⟨pb, bq⟩
  rcases sq2 : sq.peekNonBlocking byp cl ds with ⟨pn, nq⟩
  simp only []
  cases pb with
  | none =>
    cases pn with
    | none => exact Nat.le_refl _
    | some n => exact dsince_le' _ _
  | some b =>
    cases pn with
    | none => exact dsince_le' _ _
    | some n =>
      simp only []
      generalize (if nq = Queue.base then n.time + (ds : Int) else n.time) = nt
      by_cases hbf : (if max b.time (bu.getD now) < nt then true
          else if nt < max b.time (bu.getD now) then false else nq != Queue.base) = true
      · simp only [hbf, if_true]; exact dsince_le' _ _
      · simp only [hbf, Bool.false_eq_true, if_false]; exact dsince_le' _ _

section
variable {σ : Type}

theorem peekQueue_le {st : St σ} {e : Nat} {q : Nat} {qid : Queue} {c : Bool}
    (h : peekQueue st e = .ok (q, qid, c)) : q ≤ durMax := by
  unfold peekQueue at h
  by_cases h0 : st.sq.isEmpty = true
  · simp only [h0, if_true, Except.ok.injEq, Prod.mk.injEq] at h
    omega
  · simp only [h0, Bool.false_eq_true, if_false] at h
    rw [bind_ok_iff] at h
    obtain ⟨⟨pk, qu, dur⟩, h1, h2⟩ := h
    have hd := simQueue_peek_le h1
    cases pk with
    | none => simp at h2
    | some peek =>
      simp only [pure, Except.pure] at h2
      repeat (first
        | (simp only [Except.ok.injEq, Prod.mk.injEq] at h2; omega)
        | split at h2)
      all_goals
        simp only [Except.ok.injEq] at h2
        first
          | (have := peekQueueEarliestSide_le st.sq st.client.blockingUntil st.client.blockingBypassable st.now st.net.clientAgg true
             rw [h2] at this; exact this)
          | (have := peekQueueEarliestSide_le st.sq st.server.blockingUntil st.server.blockingBypassable st.now st.net.serverAgg false
             rw [h2] at this; exact this)

/-- the five candidates of a decision -/
theorem pickDecide_timer {st : St σ} {i : Nat} (h : pickDecide st = .ok (.timer i)) :
    i = peekScheduledInternalTimer st.client.schedTimer st.server.schedTimer st.now ∧ i < durMax := by
  unfold pickDecide at h
  simp only [] at h
  rw [bind_ok_iff] at h
  obtain ⟨⟨q, qid, qc⟩, hq, h2⟩ := h
  have hq' := peekQueue_le hq
  simp only [pure, Except.pure] at h2
  split at h2
  · cases h2
  · split at h2
    · cases h2
    · split at h2
      · cases h2
      · rename_i hnb
        split at h2
        · cases h2
        · rename_i hnq
          split at h2
          · rename_i his
            simp only [Except.ok.injEq, Pick.timer.injEq] at h2
            refine ⟨h2.symm, ?_⟩
            rw [← h2]
            simp only [Bool.and_eq_true, decide_eq_true_eq, not_and] at hnq his
            by_cases hqs : q ≤ peekScheduledAction st.client.schedAction st.server.schedAction st.now
            · have := hnq hqs
              omega
            · omega
          · cases h2

theorem pickDecide_action {st : St σ} {s : Nat} (h : pickDecide st = .ok (.action s)) :
    s = peekScheduledAction st.client.schedAction st.server.schedAction st.now ∧ s < durMax := by
  unfold pickDecide at h
  simp only [] at h
  rw [bind_ok_iff] at h
  obtain ⟨⟨q, qid, qc⟩, hq, h2⟩ := h
  have hq' := peekQueue_le hq
  simp only [pure, Except.pure] at h2
  split at h2
  · cases h2
  · split at h2
    · cases h2
    · split at h2
      · cases h2
      · split at h2
        · cases h2
        · rename_i hnq
          split at h2
          · cases h2
          · rename_i his
            simp only [Except.ok.injEq, Pick.action.injEq] at h2
            refine ⟨h2.symm, ?_⟩
            rw [← h2]
            simp only [Bool.and_eq_true, decide_eq_true_eq, not_and, Nat.not_le] at hnq his
            by_cases hqs : q ≤ peekScheduledAction st.client.schedAction st.server.schedAction st.now
            · have := hnq hqs
              omega
            · omega

end

/-! ### the minimum is attained by a slot -/

/-- the fold step of `peek_scheduled_internal_timer` -/
def peekStepT (now : Int) (earliest : Nat) (t : Option Int) : Nat :=
  match t with
  | some t => if t ≥ now && dsince t now < earliest then dsince t now else earliest
  | none => earliest

theorem foldl_peekStepT_attained (now : Int) : ∀ (l : List (Option Int)) (init : Nat),
    l.foldl (peekStepT now) init = init ∨
    ∃ t, some t ∈ l ∧ t ≥ now ∧ l.foldl (peekStepT now) init = dsince t now := by
  intro l
  induction l with
  | nil => intro init; left; rfl
  | cons x xs ih =>
    intro init
    simp only [List.foldl_cons]
    rcases ih (peekStepT now init x) with h | ⟨t, hm, hge, h⟩
    · rw [h]
      cases x with
      | none => left; rfl
      | some t =>
        simp only [peekStepT]
        split
        · rename_i hc
          simp only [Bool.and_eq_true, decide_eq_true_eq] at hc
          right; exact ⟨t, by simp, hc.1, rfl⟩
        · left; rfl
    · right; exact ⟨t, by simp [hm], hge, h⟩

theorem foldl_peekStep_attained (now : Int) : ∀ (l : List (Option SchedAction)) (init : Nat),
    l.foldl (peekStep now) init = init ∨
    ∃ a, some a ∈ l ∧ a.time ≥ now ∧ l.foldl (peekStep now) init = dsince a.time now := by
  intro l
  induction l with
  | nil => intro init; left; rfl
  | cons x xs ih =>
    intro init
    simp only [List.foldl_cons]
    rcases ih (peekStep now init x) with h | ⟨t, hm, hge, h⟩
    · rw [h]
      cases x with
      | none => left; rfl
      | some t =>
        simp only [peekStep]
        split
        · rename_i hc
          simp only [Bool.and_eq_true, decide_eq_true_eq] at hc
          right; exact ⟨t, by simp, hc.1, rfl⟩
        · left; rfl
    · right; exact ⟨t, by simp [hm], hge, h⟩

theorem dsince_exact {t now : Int} (hge : t ≥ now) (hlt : dsince t now < durMax) : now + (dsince t now : Int) = t := by
  unfold dsince durSince at hlt ⊢
  have h1 : ((t - now).toNat : Int) = t - now := Int.toNat_of_nonneg (by omega)
  have h2 : (t - now).toNat < durMax := by
    by_cases h : (t - now).toNat ≤ durMax
    · rw [Nat.min_eq_left h] at hlt; exact hlt
    · rw [Nat.min_eq_right (by omega)] at hlt; omega
  rw [Nat.min_eq_left (by omega)]
  omega

theorem findSlot_some_of_mem {α : Type} (p : α → Bool) : ∀ (l : List (Option α)) (i : Nat) (a : α),
    some a ∈ l → p a = true → (findSlot p l i).isSome = true := by
  intro l
  induction l with
  | nil => intro i a h; simp at h
  | cons x xs ih =>
    intro i a hm hp
    cases x with
    | none =>
      simp only [findSlot]
      simp only [List.mem_cons] at hm
      rcases hm with h | h
      · cases h
      · exact ih _ a h hp
    | some b =>
      simp only [findSlot]
      split
      · rfl
      · simp only [List.mem_cons] at hm
        rcases hm with h | h
        · simp only [Option.some.injEq] at h
          subst h
          rename_i hn; rw [hp] at hn; exact absurd rfl hn
        · exact ih _ a h hp

section
variable {σ : Type}

/-- **"BUG: no internal action found" cannot fire**: when `pick_next` decides for the internal
    timer branch, the timer it computed the offset from is found. -/
theorem doInternalTimer_found {st : St σ} {i : Nat} (h : pickDecide st = .ok (.timer i)) :
    doInternalTimer st (st.now + i) ≠ .error .noInternal := by
  obtain ⟨hi, hlt⟩ := pickDecide_timer h
  have heq : peekScheduledInternalTimer st.client.schedTimer st.server.schedTimer st.now =
      st.server.schedTimer.foldl (peekStepT st.now) (st.client.schedTimer.foldl (peekStepT st.now) durMax) := rfl
  rw [heq] at hi
  -- the offset is attained by a client or a server timer
  have hatt : ∃ t, (some t ∈ st.client.schedTimer ∨ some t ∈ st.server.schedTimer) ∧ st.now + (i : Int) = t := by
    rcases foldl_peekStepT_attained st.now st.server.schedTimer (st.client.schedTimer.foldl (peekStepT st.now) durMax) with hs | ⟨t, hm, hge, hs⟩
    · rw [hs] at hi
      rcases foldl_peekStepT_attained st.now st.client.schedTimer durMax with hc | ⟨t, hm, hge, hc⟩
      · rw [hc] at hi; omega
      · rw [hc] at hi
        exact ⟨t, Or.inl hm, by rw [hi]; exact dsince_exact hge (by omega)⟩
    · rw [hs] at hi
      exact ⟨t, Or.inr hm, by rw [hi]; exact dsince_exact hge (by omega)⟩
  obtain ⟨t, hm, ht⟩ := hatt
  unfold doInternalTimer
  rcases hm with hm | hm
  · have := findSlot_some_of_mem (fun x => x == st.now + (i : Int)) st.client.schedTimer 0 t hm (by simp [ht])
    cases hf : findSlot (fun x => x == st.now + (i : Int)) st.client.schedTimer 0 with
    | none => rw [hf] at this; cases this
    | some p => simp
  · cases hf : findSlot (fun x => x == st.now + (i : Int)) st.client.schedTimer 0 with
    | some p => simp
    | none =>
      simp only []
      have := findSlot_some_of_mem (fun x => x == st.now + (i : Int)) st.server.schedTimer 0 t hm (by simp [ht])
      cases hf2 : findSlot (fun x => x == st.now + (i : Int)) st.server.schedTimer 0 with
      | none => rw [hf2] at this; cases this
      | some p => simp

/-- **"BUG: no action found" cannot fire**: when `pick_next` decides for the scheduled-action
    branch, the action it computed the offset from is found. -/
theorem doScheduledAction_found {st : St σ} {s : Nat} (h : pickDecide st = .ok (.action s)) :
    doScheduledAction st (st.now + s) ≠ .error .noAction := by
  obtain ⟨hi, hlt⟩ := pickDecide_action h
  rw [peekScheduledAction_eq] at hi
  have hatt : ∃ a : SchedAction, (some a ∈ st.client.schedAction ∨ some a ∈ st.server.schedAction) ∧
      st.now + (s : Int) = a.time := by
    rcases foldl_peekStep_attained st.now st.server.schedAction (st.client.schedAction.foldl (peekStep st.now) durMax) with hs | ⟨t, hm, hge, hs⟩
    · rw [hs] at hi
      rcases foldl_peekStep_attained st.now st.client.schedAction durMax with hc | ⟨t, hm, hge, hc⟩
      · rw [hc] at hi; omega
      · rw [hc] at hi
        exact ⟨t, Or.inl hm, by rw [hi]; exact dsince_exact hge (by omega)⟩
    · rw [hs] at hi
      exact ⟨t, Or.inr hm, by rw [hi]; exact dsince_exact hge (by omega)⟩
  obtain ⟨a, hm, ht⟩ := hatt
  have hfound : (findAction st (st.now + (s : Int))).isSome = true := by
    unfold findAction
    rcases hm with hm | hm
    · have := findSlot_some_of_mem (fun (x : SchedAction) => x.time == st.now + (s : Int)) st.client.schedAction 0 a hm (by simp [ht])
      cases hf : findSlot (fun (x : SchedAction) => x.time == st.now + (s : Int)) st.client.schedAction 0 with
      | none => rw [hf] at this; cases this
      | some p => rfl
    · cases hf : findSlot (fun (x : SchedAction) => x.time == st.now + (s : Int)) st.client.schedAction 0 with
      | some p => rfl
      | none =>
        simp only []
        have := findSlot_some_of_mem (fun (x : SchedAction) => x.time == st.now + (s : Int)) st.server.schedAction 0 a hm (by simp [ht])
        cases hf2 : findSlot (fun (x : SchedAction) => x.time == st.now + (s : Int)) st.server.schedAction 0 with
        | none => rw [hf2] at this; cases this
        | some p => rfl
  unfold doScheduledAction
  cases hfa : findAction st (st.now + (s : Int)) with
  | none => rw [hfa] at hfound; cases hfound
  | some p =>
    obtain ⟨isClient, idx, a'⟩ := p
    simp only []
    split <;> simp

end
end Mb.Sim

namespace Mb.Sim
open Mb

theorem peekStepT_le (now : Int) (acc : Nat) (x : Option Int) : peekStepT now acc x ≤ acc := by
  unfold peekStepT
  cases x with
  | none => exact Nat.le_refl _
  | some a =>
    simp only []
    split
    · rename_i h
      simp at h
      omega
    · exact Nat.le_refl _

theorem foldl_peekStepT_le_init (now : Int) : ∀ (l : List (Option Int)) (init : Nat),
    l.foldl (peekStepT now) init ≤ init := by
  intro l
  induction l with
  | nil => intro init; exact Nat.le_refl _
  | cons x xs ih =>
    intro init
    exact Nat.le_trans (ih _) (peekStepT_le now init x)

theorem peekBlockedExp_le (c s : Option Int) (now : Int) : (peekBlockedExp c s now).1 ≤ durMax := by
  unfold peekBlockedExp
  cases c with
  | none =>
    cases s with
    | none => exact Nat.le_refl _
    | some x => exact dsince_le' _ _
  | some y =>
    cases s with
    | none => exact dsince_le' _ _
    | some x => simp only []; split <;> exact dsince_le' _ _

section
variable {σ : Type}

/-- the aggregate-delay branch is only taken when a delay is pending, so `pick_next` cannot
    recurse forever there (`diverge` is unreachable) -/
theorem pickAgg_no_diverge {st : St σ} (h : pickDecide st = .ok .agg) : pickAgg st ≠ .error .diverge := by
  have hne : st.net.aggQueue.len ≠ 0 := by
    intro hz
    unfold pickDecide at h
    simp only [] at h
    rw [bind_ok_iff] at h
    obtain ⟨⟨q, qid, qc⟩, hq, h2⟩ := h
    have hq' := peekQueue_le hq
    have hs : peekScheduledAction st.client.schedAction st.server.schedAction st.now ≤ durMax := by
      rw [peekScheduledAction_eq]
      exact Nat.le_trans (foldl_peekStep_le_init _ _ _) (foldl_peekStep_le_init _ _ _)
    have hi : peekScheduledInternalTimer st.client.schedTimer st.server.schedTimer st.now ≤ durMax := by
      have : peekScheduledInternalTimer st.client.schedTimer st.server.schedTimer st.now =
        st.server.schedTimer.foldl (peekStepT st.now) (st.client.schedTimer.foldl (peekStepT st.now) durMax) := rfl
      rw [this]
      exact Nat.le_trans (foldl_peekStepT_le_init _ _ _) (foldl_peekStepT_le_init _ _ _)
    have hb := peekBlockedExp_le st.client.blockingUntil st.server.blockingUntil st.now
    have hn : st.net.peekAggregateDelay st.now = durMax := by
      unfold Bottleneck.peekAggregateDelay
      have : st.net.aggQueue.peek = none := by
        unfold Heap.peek
        cases hd : st.net.aggQueue.data with
        | nil => rfl
        | cons a r => simp [Heap.len, hd] at hz
      rw [this]
    simp only [pure, Except.pure] at h2
    split at h2
    · cases h2
    · rename_i hall
      split at h2
      · rename_i hnb
        rw [hn] at hall hnb
        simp only [Bool.and_eq_true, decide_eq_true_eq] at hnb
        apply hall
        simp only [Bool.and_eq_true, decide_eq_true_eq]
        refine ⟨⟨⟨⟨?_, ?_⟩, ?_⟩, trivial⟩, ?_⟩ <;> omega
      · split at h2
        · cases h2
        · split at h2
          · cases h2
          · split at h2 <;> cases h2
  unfold pickAgg
  simp only [hne, if_false]
  intro hc
  rw [bind_error_iff] at hc
  rcases hc with hc | ⟨net, _, hc⟩
  · unfold Bottleneck.popAggregateDelay at hc
    split at hc
    · cases hc
    · split at hc
      · rw [bind_error_iff] at hc
        rcases hc with hc | ⟨v, _, hc⟩
        · unfold durChk at hc; split at hc <;> cases hc
        · cases hc
      · rw [bind_error_iff] at hc
        rcases hc with hc | ⟨v, _, hc⟩
        · unfold durChk at hc; split at hc <;> cases hc
        · cases hc
  · cases hc

end
end Mb.Sim
