/-
  A variant of the generic walker of `Walk.lean` for relations that only contain the transitions a
  call delivers FROM OUTSIDE: every event except CounterZero (delivered by `update_counter`) and
  LimitReached (delivered by `decrement_limit`). Needed for properties about the ORDER of log
  entries in which a LimitReached delivery may only come directly after a limit decrement.
  The proofs are those of `Walk.lean` with the extra side condition discharged by `decide`.
-/
import MbVerif.Proofs.Walk

namespace Mb
variable {σ : Type} (ρ : Oracle σ)

/-- the part of a walker that concerns transitions only (no accounting updates) -/
structure WalkCoreX (R : Fw σ → Fw σ → Prop) : Prop where
  refl : ∀ s, R s s
  trans : ∀ {s t u}, R s t → R t u → R s u
  /-- for the events a call delivers from outside a transition (CounterZero is only ever delivered
      from within `update_counter`) -/
  transition : ∀ (j : Nat) (ev : Event) (s : Fw σ), ev ≠ .counterZero → ev ≠ .limitReached → R s (transition ρ FUEL j ev s).1
  decrement : ∀ (j : Nat) (s : Fw σ), notEnded s j = true → R s (decrementLimit ρ j s)
  fault : ∀ (s : Fw σ) (f : Fault), R s (s.withFault f)
  signal : ∀ (s : Fw σ) (p : Option SignalTarget), R s { s with signalPending := p }

/-- a walker over whole events (accounting included) -/
structure WalkEvX (R : Fw σ → Fw σ → Prop) : Prop extends WalkCoreX ρ R where
  setG : ∀ (s : Fw σ) (g' : Globals), R s { s with g := g' }
  acct : ∀ (s : Fw σ) (j : Nat) (f : Runtime → Runtime),
    (∀ r, f r = { r with acct := (f r).acct }) → R s (s.modRt j f)

namespace WalkCoreX
variable {ρ} {R : Fw σ → Fw σ → Prop} (W : WalkCoreX ρ R)
include W

theorem foldl {α : Type} (f : Fw σ → α → Fw σ) (hf : ∀ s a, R s (f s a)) (l : List α) (s : Fw σ) :
    R s (l.foldl f s) := by
  induction l generalizing s with
  | nil => exact W.refl s
  | cons a l ih => exact W.trans (hf s a) (ih (f s a))

theorem transitionAll (ev : Event) (hev : ev ≠ .counterZero) (hev2 : ev ≠ .limitReached) (s : Fw σ) : R s (transitionAll ρ ev s) := by
  unfold Mb.transitionAll
  exact W.foldl _ (fun s mi => W.transition mi ev s hev hev2) _ _

theorem transDec (mi : Nat) (ev : Event) (hev : ev ≠ .counterZero) (hev2 : ev ≠ .limitReached) (s : Fw σ) (c : Fw σ × Bool → Bool)
    (hc : ∀ p, c p = true → notEnded p.1 mi = true) :
    R s (if c (Mb.transition ρ FUEL mi ev s) = true then decrementLimit ρ mi (Mb.transition ρ FUEL mi ev s).1
         else (Mb.transition ρ FUEL mi ev s).1) := by
  have h := W.transition mi ev s hev hev2
  split
  · next hcond => exact W.trans h (W.decrement mi _ (hc _ hcond))
  · exact h

theorem signalFold (excluded : Option Nat) (s : Fw σ) (n : Nat) :
    R s ((List.range n).foldl (fun s mi =>
      if (excluded == some mi) = true then s else (Mb.transition ρ FUEL mi .signal s).1) s) := by
  refine W.foldl _ (fun s mi => ?_) _ _
  split
  · exact W.refl _
  · exact W.transition _ _ _ (by decide) (by decide)

theorem signalRound (s : Fw σ) : R s (signalRound ρ s) := by
  unfold Mb.signalRound
  cases hsig : s.signalPending with
  | none => exact W.refl s
  | some sig =>
    have h1 : R s { s with signalPending := none } := W.signal s none
    cases sig with
    | all =>
      simp only []
      have h3 := W.trans h1 (W.signalFold none { s with signalPending := none } s.rt.length)
      generalize ((List.range s.rt.length).foldl (fun s mi =>
          if ((none : Option Nat) == some mi) = true then s else (Mb.transition ρ FUEL mi .signal s).1)
          ({ s with signalPending := none } : Fw σ)) = s2 at h3 ⊢
      refine W.trans h3 ?_
      cases hs2 : s2.signalPending with
      | none => exact W.refl _
      | some _ => exact W.signal s2 none
    | allExcept x =>
      simp only []
      have h3 := W.trans h1 (W.signalFold (some x) { s with signalPending := none } s.rt.length)
      generalize ((List.range s.rt.length).foldl (fun s mi =>
          if (some x == some mi) = true then s else (Mb.transition ρ FUEL mi .signal s).1)
          ({ s with signalPending := none } : Fw σ)) = s2 at h3 ⊢
      refine W.trans h3 ?_
      cases hs2 : s2.signalPending with
      | none => exact W.refl _
      | some _ => exact W.trans (W.signal s2 none) (W.transition _ _ _ (by decide) (by decide))

end WalkCoreX

namespace WalkEvX
variable {ρ} {R : Fw σ → Fw σ → Prop} (W : WalkEvX ρ R)
include W

theorem blockingEndAcct (s : Fw σ) (mi blocked : Nat) :
    R s (if blocked ≠ 0 then
        match s.rt[mi]? with
        | none => s.withFault .oob
        | some r =>
          (if r.acct.blockingDur + blocked > durMax then s.withFault .durOverflow else s).modRt mi
            (fun r => { r with acct := { r.acct with blockingDur := r.acct.blockingDur + blocked } })
      else s) := by
  by_cases hb : blocked ≠ 0
  · rw [if_pos hb]
    cases hr : s.rt[mi]? with
    | none => exact W.fault _ _
    | some r =>
      simp only []
      refine W.trans ?_ (W.acct _ mi
        (fun r => { r with acct := { r.acct with blockingDur := r.acct.blockingDur + blocked } }) (fun _ => rfl))
      split
      · exact W.fault _ _
      · exact W.refl _
  · rw [if_neg hb]; exact W.refl _

theorem processEvent (e : TEvent) (s : Fw σ) : R s (processEvent ρ e s) := by
  unfold Mb.processEvent
  cases e with
  | normalRecv => exact W.toWalkCoreX.transitionAll _ (by decide) (by decide) s
  | paddingRecv => exact W.toWalkCoreX.transitionAll _ (by decide) (by decide) s
  | tunnelRecv => exact W.toWalkCoreX.transitionAll _ (by decide) (by decide) s
  | tunnelSent => exact W.toWalkCoreX.transitionAll _ (by decide) (by decide) s
  | normalSent =>
    simp only []
    refine W.trans (W.setG s { s.g with normalSent := s.g.normalSent + 1 }) (W.toWalkCoreX.foldl _ (fun s mi => ?_) _ _)
    exact W.trans (W.acct s mi
      (fun r => { r with acct := { r.acct with normalSent := r.acct.normalSent + 1 } }) (fun _ => rfl))
      (W.transition mi _ _ (by decide) (by decide))
  | paddingSent mi =>
    simp only []
    refine W.trans (W.setG s { s.g with paddingSent := s.g.paddingSent + 1 }) ?_
    split
    · exact W.refl _
    · refine W.trans (W.acct _ mi
        (fun r => { r with acct := { r.acct with paddingSent := r.acct.paddingSent + 1 } }) (fun _ => rfl)) ?_
      exact W.toWalkCoreX.transDec mi .paddingSent (by decide) (by decide) _ (fun p => !p.2 && notEnded p.1 mi)
        (fun p hp => by simp only [Bool.and_eq_true] at hp; exact hp.2)
  | blockingBegin m =>
    simp only []
    have h1 : R s (if !s.g.blockingActive then
        { s with g := { s.g with blockingActive := true, blockingStarted := s.g.now } } else s) := by
      split
      · exact W.setG s _
      · exact W.refl s
    refine W.trans h1 (W.toWalkCoreX.foldl _ (fun s mi => ?_) _ _)
    exact W.toWalkCoreX.transDec mi .blockingBegin (by decide) (by decide) _ (fun p => !p.2 && notEnded p.1 mi && mi == m)
      (fun p hp => by simp only [Bool.and_eq_true] at hp; exact hp.1.2)
  | blockingEnd =>
    simp only []
    have h1 : R s (if s.g.blockingActive then
        (let s' := if s.g.blockingDur + (if s.g.blockingActive then durSince s.g.now s.g.blockingStarted else 0) > durMax
            then s.withFault .durOverflow else s
         { s' with g := { s'.g with blockingDur := s'.g.blockingDur +
            (if s.g.blockingActive then durSince s.g.now s.g.blockingStarted else 0), blockingActive := false } })
        else s) := by
      split
      · simp only []
        refine W.trans ?_ (W.setG _ _)
        split
        · exact W.fault _ _
        · exact W.refl _
      · exact W.refl s
    refine W.trans h1 (W.toWalkCoreX.foldl _ (fun s mi => ?_) _ _)
    exact W.trans (W.blockingEndAcct s mi _) (W.transition mi _ _ (by decide) (by decide))
  | timerBegin mi =>
    simp only []
    split
    · exact W.refl _
    · exact W.toWalkCoreX.transDec mi .timerBegin (by decide) (by decide) _ (fun p => !p.2 && notEnded p.1 mi)
        (fun p hp => by simp only [Bool.and_eq_true] at hp; exact hp.2)
  | timerEnd mi =>
    simp only []
    split
    · exact W.refl _
    · exact W.transition mi _ _ (by decide) (by decide)

end WalkEvX

end Mb
