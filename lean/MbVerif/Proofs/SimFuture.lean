/-
  Trace-level liveness of C17 / C18: in every reachable state all pending action timers and
  internal timers are at or after the clock ("simulated time never moves past a pending
  timer"), because the event `pick_next` returns is never later than any of them.
-/
import MbVerif.Proofs.SimLive

namespace Mb.Sim
open Mb

/-- the delay a queue adds to the head's time when it is served -/
def qShift (qi : Queue) (ds : Nat) : Int := if qi = .base then (ds : Int) else 0

theorem EventQueue.peek_dur {q : EventQueue} {ds : Nat} {now : Int} {ev : SimEvent} {qi : Queue} {d : Nat}
    (h : q.peek ds now = .ok (some ev, qi, d)) : d = dsince (ev.time + qShift qi ds) now := by
  unfold EventQueue.peek at h
  split at h
  · cases h
  · simp only [] at h
    by_cases hb : before q.base.peek
        (if optGt q.internal.peek (if optGt q.blocking.peek q.bypassable.peek then (q.blocking.peek, Queue.blocking)
            else (q.bypassable.peek, Queue.bypassable)).1
          then (q.internal.peek, Queue.internal)
          else (if optGt q.blocking.peek q.bypassable.peek then (q.blocking.peek, Queue.blocking)
            else (q.bypassable.peek, Queue.bypassable))).1 ds = true
    · simp only [hb, if_true] at h
      cases hp : q.base.peek with
      | none => simp [hp] at h
      | some e =>
        simp only [hp] at h
        cases h
        simp [qShift]
    · simp only [hb, Bool.false_eq_true, if_false] at h
      by_cases h1 : optGt q.blocking.peek q.bypassable.peek = true
      · simp only [h1, if_true] at h
        by_cases h2 : optGt q.internal.peek q.blocking.peek = true
        · simp only [h2, if_true] at h
          cases hp : q.internal.peek with
          | none => simp [hp] at h
          | some e => simp only [hp] at h; cases h; simp [qShift]
        · simp only [h2, Bool.false_eq_true, if_false] at h
          cases hp : q.blocking.peek with
          | none => simp [hp] at h
          | some e => simp only [hp] at h; cases h; simp [qShift]
      · simp only [h1, Bool.false_eq_true, if_false] at h
        by_cases h2 : optGt q.internal.peek q.bypassable.peek = true
        · simp only [h2, if_true] at h
          cases hp : q.internal.peek with
          | none => simp [hp] at h
          | some e => simp only [hp] at h; cases h; simp [qShift]
        · simp only [h2, Bool.false_eq_true, if_false] at h
          cases hp : q.bypassable.peek with
          | none => simp [hp] at h
          | some e => simp only [hp] at h; cases h; simp [qShift]

/-- popping the heap named by `qi` returns its head with the queue's shift added to the time -/
theorem EventQueue.pop_time {q q' : EventQueue} {qi : Queue} {ds : Nat} {e : SimEvent}
    (h : q.pop qi ds = .ok (some (e, q'))) : ∃ hd, (q.heap qi).peek = some hd ∧ e.time = hd.time + qShift qi ds := by
  unfold EventQueue.pop at h
  cases qi with
  | blocking =>
    simp only [] at h
    cases hp : q.blocking.pop with
    | none => simp [hp] at h
    | some pr =>
      obtain ⟨x, hh⟩ := pr
      simp [hp] at h
      obtain ⟨hx, _⟩ := h
      subst hx
      exact ⟨x, (heap_pop_countP (fun _ => true) SimEvent.le hp).2, by simp [qShift]⟩
  | bypassable =>
    simp only [] at h
    cases hp : q.bypassable.pop with
    | none => simp [hp] at h
    | some pr =>
      obtain ⟨x, hh⟩ := pr
      simp [hp] at h
      obtain ⟨hx, _⟩ := h
      subst hx
      exact ⟨x, (heap_pop_countP (fun _ => true) SimEvent.le hp).2, by simp [qShift]⟩
  | internal =>
    simp only [] at h
    cases hp : q.internal.pop with
    | none => simp [hp] at h
    | some pr =>
      obtain ⟨x, hh⟩ := pr
      simp [hp] at h
      obtain ⟨hx, _⟩ := h
      subst hx
      exact ⟨x, (heap_pop_countP (fun _ => true) SimEvent.le hp).2, by simp [qShift]⟩
  | base =>
    simp only [] at h
    cases hp : q.base.pop with
    | none => simp only [hp] at h; split at h <;> cases h
    | some pr =>
      obtain ⟨x, hh⟩ := pr
      simp [hp] at h
      obtain ⟨hx, _⟩ := h
      subst hx
      exact ⟨x, (heap_pop_countP (fun _ => true) SimEvent.le hp).2, by simp [qShift]⟩

/-- `SimQueue::peek`: head of the named heap on the event's side, with its exact offset -/
theorem SimQueue.peek_dur {s : SimQueue} {cs sv : Nat} {now : Int} {ev : SimEvent} {qi : Queue} {d : Nat}
    (hw : s.WF) (h : s.peek cs sv now = .ok (some ev, qi, d)) :
    d = dsince (ev.time + qShift qi (if ev.client then cs else sv)) now := by
  unfold SimQueue.peek at h
  split at h
  · cases h
  · rw [bind_ok_iff] at h
    obtain ⟨⟨ce, cq, cd⟩, h1, h2⟩ := h
    rw [bind_ok_iff] at h2
    obtain ⟨⟨se, sq', sd⟩, h3, h4⟩ := h2
    have fromClient : ∀ {e : SimEvent} {q : Queue} {dd : Nat}, s.client.peek cs now = .ok (some e, q, dd) →
        dd = dsince (e.time + qShift q (if e.client then cs else sv)) now := by
      intro e q dd hh
      have hc := hw.client.peek_client (EventQueue.peek_heap hh)
      rw [hc]; simpa using EventQueue.peek_dur hh
    have fromServer : ∀ {e : SimEvent} {q : Queue} {dd : Nat}, s.server.peek sv now = .ok (some e, q, dd) →
        dd = dsince (e.time + qShift q (if e.client then cs else sv)) now := by
      intro e q dd hh
      have hc := hw.server.peek_client (EventQueue.peek_heap hh)
      rw [hc]; simpa using EventQueue.peek_dur hh
    simp only [pure, Except.pure] at h4
    cases ce with
    | none =>
      cases se with
      | none => simp at h4
      | some se' => simp only [] at h4; cases h4; exact fromServer h3
    | some ce' =>
      cases se with
      | none => simp only [] at h4; cases h4; exact fromClient h1
      | some se' =>
        simp only [] at h4
        split at h4
        · cases h4; exact fromClient h1
        · cases h4; exact fromServer h3

/-- the heads `peek_blocking` / `peek_non_blocking` return are the heads of the heaps they name -/
theorem peekBlocking_head (sq : SimQueue) (byp c : Bool) :
    (sq.peekBlocking byp c).1 = ((sq.side c).heap (sq.peekBlocking byp c).2).peek := by
  unfold SimQueue.peekBlocking EventQueue.peekBlockingSide
  cases byp with
  | true => simp [EventQueue.heap]
  | false =>
    simp only [Bool.false_eq_true, if_false]
    split <;> simp [EventQueue.heap]

theorem peekNonBlocking_head (sq : SimQueue) (byp c : Bool) (ds : Nat) :
    (sq.peekNonBlocking byp c ds).1 = ((sq.side c).heap (sq.peekNonBlocking byp c ds).2).peek := by
  have hinner : ((sq.side c).peekNonBlocking ds).1 = ((sq.side c).heap ((sq.side c).peekNonBlocking ds).2).peek := by
    unfold EventQueue.peekNonBlocking
    simp only []
    split <;> simp [EventQueue.heap]
  unfold SimQueue.peekNonBlocking EventQueue.peekNonBlockingSide
  cases byp with
  | true =>
    simp only [if_true]
    split
    · simp [EventQueue.heap]
    · exact hinner
  | false =>
    simp only [Bool.false_eq_true, if_false]
    exact hinner

/-- `peek_queue_earliest_side`: the offset is at least the offset of the head of the queue it
    names (with that queue's shift), or it is `MAX` -/
theorem peekQueueEarliestSide_dur (sq : SimQueue) (bu : Option Int) (byp : Bool) (now : Int) (ds : Nat) (c : Bool) :
    (peekQueueEarliestSide sq bu byp now ds c).1 = durMax ∨
    ∃ hd, ((sq.side c).heap (peekQueueEarliestSide sq bu byp now ds c).2.1).peek = some hd ∧
      dsince (hd.time + qShift (peekQueueEarliestSide sq bu byp now ds c).2.1 ds) now ≤
        (peekQueueEarliestSide sq bu byp now ds c).1 := by
  have hb := peekBlocking_head sq byp c
  have hn := peekNonBlocking_head sq byp c ds
  have hbq : (sq.peekBlocking byp c).2 ≠ .base := by
    unfold SimQueue.peekBlocking EventQueue.peekBlockingSide
    cases byp with
    | true => simp
    | false => simp only [Bool.false_eq_true, if_false]; split <;> simp
  unfold peekQueueEarliestSide
  rcases hpb : sq.peekBlocking byp c with ⟨pb, bq⟩
  rcases hpn : sq.peekNonBlocking byp c ds with ⟨pn, nq⟩
  rw [hpb] at hb hbq
  rw [hpn] at hn
  simp only [] at hb hn hbq
  simp only []
  have hshiftb : qShift bq ds = 0 := by simp [qShift, hbq]
  cases pb with
  | none =>
    cases pn with
    | none => left; rfl
    | some n =>
      right
      refine ⟨n, hn.symm, ?_⟩
      simp only [qShift]
      split <;> simp_all
  | some b =>
    cases pn with
    | none =>
      right
      refine ⟨b, hb.symm, ?_⟩
      simp only [hshiftb, Int.add_zero]
      exact dsince_mono now (Int.le_max_left _ _)
    | some n =>
      simp only []
      generalize hnt : (if nq = Queue.base then n.time + (ds : Int) else n.time) = nt
      by_cases hbf : (if max b.time (bu.getD now) < nt then true
          else if nt < max b.time (bu.getD now) then false else nq != Queue.base) = true
      · simp only [hbf, if_true]
        right
        refine ⟨b, hb.symm, ?_⟩
        simp only [hshiftb, Int.add_zero]
        exact dsince_mono now (Int.le_max_left _ _)
      · simp only [hbf, Bool.false_eq_true, if_false]
        right
        refine ⟨n, hn.symm, ?_⟩
        rw [← hnt]
        simp only [qShift]
        split <;> simp_all

end Mb.Sim

namespace Mb.Sim
open Mb

section
variable {σ : Type}

/-- the offset the queue branch was decided with is at least the offset of the event it pops -/
theorem pickQueue_offset_ge {st st' : St σ} {q : Nat} {qid : Queue} {c : Bool} {e : SimEvent}
    (hw : st.sq.WF) (hd : pickDecide st = .ok (.queue q qid c)) (hp : pickQueue st q qid c = .ok (e, st')) :
    ∃ tmp : SimEvent, dsince tmp.time st.now ≤ q ∧ e.time = (if st.now + (q : Int) > tmp.time then st.now + q else tmp.time) := by
  obtain ⟨⟨earliest, hpq⟩, _⟩ := pickDecide_queue hd
  unfold pickQueue at hp
  rw [bind_ok_iff] at hp
  obtain ⟨r, hr, hp2⟩ := hp
  cases r with
  | none => simp at hp2
  | some pr =>
    obtain ⟨tmp, sq1⟩ := pr
    simp only [pure, Except.pure, Except.ok.injEq, Prod.mk.injEq] at hp2
    have hetime : e.time = (if st.now + (q : Int) > tmp.time then st.now + q else tmp.time) := by
      rw [← hp2.1]; split <;> rfl
    refine ⟨tmp, ?_, hetime⟩
    -- the popped event is the head of heap `qid` on side `c`, shifted
    have hpop : ∃ hd', ((st.sq.side c).heap qid).peek = some hd' ∧ tmp.time = hd'.time + qShift qid (st.net.agg c) := by
      unfold SimQueue.pop at hr
      rw [bind_ok_iff] at hr
      obtain ⟨r2, hr2, hr3⟩ := hr
      cases r2 with
      | none => simp [pure, Except.pure] at hr3
      | some pr2 =>
        obtain ⟨x, q2⟩ := pr2
        simp only [pure, Except.pure, Option.map_some, Except.ok.injEq, Option.some.injEq, Prod.mk.injEq] at hr3
        rw [← hr3.1]
        exact EventQueue.pop_time hr2
    obtain ⟨hd', hhd, htime⟩ := hpop
    have fromSide : ∀ (X : Bool) (res : Nat × Queue × Bool), res = (q, qid, c) → res.2.2 = X →
        (res.1 = durMax ∨ ∃ h2, ((st.sq.side X).heap res.2.1).peek = some h2 ∧
          dsince (h2.time + qShift res.2.1 (st.net.agg X)) st.now ≤ res.1) →
        dsince tmp.time st.now ≤ q := by
      intro X res hres hX hcase
      have h1 : res.1 = q := by rw [hres]
      have h2 : res.2.1 = qid := by rw [hres]
      have h3 : res.2.2 = c := by rw [hres]
      rw [h3] at hX
      subst hX
      rw [h1, h2] at hcase
      rcases hcase with hm | ⟨hh, hpk, hle⟩
      · rw [hm]; exact dsince_le' _ _
      · rw [hhd] at hpk
        have : hd' = hh := Option.some.inj hpk
        subst this
        rw [htime]; exact hle
    unfold peekQueue at hpq
    split at hpq
    · simp only [Except.ok.injEq, Prod.mk.injEq] at hpq
      rw [← hpq.1]; exact dsince_le' _ _
    · rw [bind_ok_iff] at hpq
      obtain ⟨⟨pk, qu, dur⟩, hpk, hpq2⟩ := hpq
      cases pk with
      | none => simp at hpq2
      | some peek =>
        simp only [pure, Except.pure] at hpq2
        have hpeekheap := SimQueue.peek_heap hw hpk
        have hpeekdur := SimQueue.peek_dur hw hpk
        have early : (dur, qu, peek.client) = (q, qid, c) → dsince tmp.time st.now ≤ q := by
          intro heq
          simp only [Prod.mk.injEq] at heq
          obtain ⟨h1, h2, h3⟩ := heq
          rw [h2, h3, hhd] at hpeekheap
          have : hd' = peek := Option.some.inj hpeekheap
          rw [← h1, hpeekdur, htime, this, h2, h3]
          cases c <;> simp [Bottleneck.agg]
        have hMax : (durMax, Queue.blocking, false) = (q, qid, c) → dsince tmp.time st.now ≤ q := by
          intro heq
          simp only [Prod.mk.injEq] at heq
          rw [← heq.1]; exact dsince_le' _ _
        have hcs := peekQueueEarliestSide_dur st.sq st.client.blockingUntil st.client.blockingBypassable
          st.now st.net.clientAgg true
        have hss := peekQueueEarliestSide_dur st.sq st.server.blockingUntil st.server.blockingBypassable
          st.now st.net.serverAgg false
        have hcs2 := (peekQueueEarliestSide_spec st.sq st.client.blockingUntil st.client.blockingBypassable
          st.now st.net.clientAgg true).1
        have hss2 := (peekQueueEarliestSide_spec st.sq st.server.blockingUntil st.server.blockingBypassable
          st.now st.net.serverAgg false).1
        split at hpq2
        · simp only [Except.ok.injEq] at hpq2; exact hMax hpq2
        · split at hpq2
          · simp only [Except.ok.injEq] at hpq2; exact early hpq2
          · split at hpq2
            · simp only [Except.ok.injEq] at hpq2; exact early hpq2
            · split at hpq2
              · simp only [Except.ok.injEq] at hpq2; exact early hpq2
              · split at hpq2
                · simp only [Except.ok.injEq] at hpq2; exact early hpq2
                · split at hpq2
                  · simp only [Except.ok.injEq] at hpq2
                    exact fromSide true _ hpq2 hcs2 (by simpa [Bottleneck.agg] using hcs)
                  · simp only [Except.ok.injEq] at hpq2
                    exact fromSide false _ hpq2 hss2 (by simpa [Bottleneck.agg] using hss)

/-- all pending action timers and internal timers are at or after the clock -/
structure FutureOK (st : St σ) : Prop where
  actC : ∀ a, some a ∈ st.client.schedAction → st.now ≤ a.time
  actS : ∀ a, some a ∈ st.server.schedAction → st.now ≤ a.time
  timC : ∀ t, some t ∈ st.client.schedTimer → st.now ≤ t
  timS : ∀ t, some t ∈ st.server.schedTimer → st.now ≤ t

/-- the slots of `st'` are among those of `st` (pick_next only clears slots) -/
def SlotsSub (st' st : St σ) : Prop :=
  (∀ a, some a ∈ st'.client.schedAction → some a ∈ st.client.schedAction) ∧
  (∀ a, some a ∈ st'.server.schedAction → some a ∈ st.server.schedAction) ∧
  (∀ t, some t ∈ st'.client.schedTimer → some t ∈ st.client.schedTimer) ∧
  (∀ t, some t ∈ st'.server.schedTimer → some t ∈ st.server.schedTimer)

theorem SlotsSub.refl (st : St σ) : SlotsSub st st := ⟨fun _ h => h, fun _ h => h, fun _ h => h, fun _ h => h⟩

theorem SlotsSub.trans {a b c : St σ} (h1 : SlotsSub a b) (h2 : SlotsSub b c) : SlotsSub a c :=
  ⟨fun x h => h2.1 x (h1.1 x h), fun x h => h2.2.1 x (h1.2.1 x h), fun x h => h2.2.2.1 x (h1.2.2.1 x h),
   fun x h => h2.2.2.2 x (h1.2.2.2 x h)⟩

theorem mem_set_none {α : Type} {l : List (Option α)} {i : Nat} {x : α} (h : some x ∈ l.set i none) : some x ∈ l := by
  rcases List.mem_or_eq_of_mem_set h with h1 | h1
  · exact h1
  · cases h1

theorem pickAgg_sub {st st' : St σ} (h : pickAgg st = .ok st') : SlotsSub st' st := by
  unfold pickAgg at h
  split at h
  · cases h
  rw [bind_ok_iff] at h
  obtain ⟨net, _, h2⟩ := h
  simp only [pure, Except.pure] at h2
  cases h2; exact SlotsSub.refl _

theorem pickBlockExp_sub {st st' : St σ} {b : Nat} {c : Bool} {e : SimEvent} (h : pickBlockExp st b c = .ok (e, st')) :
    SlotsSub st' st := by
  unfold pickBlockExp at h
  rw [bind_ok_iff] at h
  obtain ⟨net, _, h2⟩ := h
  simp only [pure, Except.pure] at h2
  cases h2
  cases c <;> exact ⟨fun _ h => by simpa [St.setSide, St.side] using h, fun _ h => by simpa [St.setSide, St.side] using h,
    fun _ h => by simpa [St.setSide, St.side] using h, fun _ h => by simpa [St.setSide, St.side] using h⟩

theorem pickQueue_sub {st st' : St σ} {q : Nat} {qid : Queue} {c : Bool} {e : SimEvent}
    (h : pickQueue st q qid c = .ok (e, st')) : SlotsSub st' st := by
  unfold pickQueue at h
  rw [bind_ok_iff] at h
  obtain ⟨r, _, h2⟩ := h
  cases r with
  | none => simp at h2
  | some p =>
    obtain ⟨tmp, sq⟩ := p
    simp only [pure, Except.pure] at h2
    cases h2; exact SlotsSub.refl _

theorem pickTimer_sub {st st' : St σ} {i : Nat} (h : pickTimer st i = .ok st') : SlotsSub st' st := by
  unfold pickTimer at h
  rw [bind_ok_iff] at h
  obtain ⟨⟨ev, st1⟩, h1, h2⟩ := h
  simp only [pure, Except.pure] at h2
  cases h2
  unfold doInternalTimer at h1
  split at h1
  · cases h1
    exact ⟨fun _ h => h, fun _ h => h, fun _ h => mem_set_none h, fun _ h => h⟩
  · split at h1
    · cases h1
      exact ⟨fun _ h => h, fun _ h => h, fun _ h => h, fun _ h => mem_set_none h⟩
    · cases h1

theorem pickAction_sub {st st' : St σ} {s : Nat} (h : pickAction st s = .ok st') : SlotsSub st' st := by
  unfold pickAction at h
  rw [bind_ok_iff] at h
  obtain ⟨⟨ev, st1⟩, h1, h2⟩ := h
  simp only [pure, Except.pure] at h2
  cases h2
  unfold doScheduledAction at h1
  split at h1
  · cases h1
  · rename_i isClient idx a' _
    have key : ∀ (sd : Side σ), sd.schedAction = (st.side isClient).schedAction.set idx none →
        sd.schedTimer = (st.side isClient).schedTimer → SlotsSub (st.setSide isClient sd) st := by
      intro sd ha ht
      cases isClient
      · refine ⟨fun _ h => h, fun x h => ?_, fun _ h => h, fun x h => ?_⟩
        · simp only [St.setSide, Bool.false_eq_true, if_false] at h
          rw [ha] at h; exact mem_set_none (by simpa [St.side] using h)
        · simp only [St.setSide, Bool.false_eq_true, if_false] at h
          rw [ht] at h; simpa [St.side] using h
      · refine ⟨fun x h => ?_, fun _ h => h, fun x h => ?_, fun _ h => h⟩
        · simp only [St.setSide, if_true] at h
          rw [ha] at h; exact mem_set_none (by simpa [St.side] using h)
        · simp only [St.setSide, if_true] at h
          rw [ht] at h; simpa [St.side] using h
    split at h1
    · cases h1
    · cases h1
    · cases h1; exact key _ rfl rfl
    · cases h1; exact key _ rfl rfl

/-- **The event `pick_next` returns is not later than any pending timer**: for every slot /
    timer still pending afterwards (and not in the past before), the event's time is at most its
    time — provided the event is not absurdly far in the future (within `Duration::MAX`). -/
theorem pickNext_before_pending : ∀ (fuel : Nat) (st st' : St σ) (e : SimEvent), st.sq.WF → FutureOK st →
    pickNext fuel st = some (.ok (some e, st')) → e.time - st.now < durMax →
    SlotsSub st' st ∧
    (∀ a, (some a ∈ st'.client.schedAction ∨ some a ∈ st'.server.schedAction) → e.time ≤ a.time) ∧
    (∀ t, (some t ∈ st'.client.schedTimer ∨ some t ∈ st'.server.schedTimer) → e.time ≤ t) := by
  intro fuel
  induction fuel with
  | zero => intro st st' e _ _ h; simp [pickNext] at h
  | succ n ih =>
    intro st st' e hw hf h hreal
    unfold pickNext at h
    -- shared: from an offset bound to a time bound
    have toTime : ∀ (o : Nat) (t : Int), st.now ≤ t → o ≤ dsince t st.now → st.now + (o : Int) ≤ t := by
      intro o t hge hle
      unfold dsince durSince at hle
      have : ((t - st.now).toNat : Int) = t - st.now := Int.toNat_of_nonneg (by omega)
      have h2 : o ≤ (t - st.now).toNat := Nat.le_trans hle (Nat.min_le_left _ _)
      omega
    cases hd : pickDecide st with
    | error f => simp [hd] at h
    | ok p =>
      simp only [hd] at h
      cases p with
      | nothing => simp at h
      | agg =>
        simp only [] at h
        cases ha : pickAgg st with
        | error f => simp [ha] at h
        | ok st1 =>
          simp only [ha] at h
          have hsub := pickAgg_sub ha
          have hnow := pickAgg_now ha
          have hsq := pickAgg_sq ha
          have hf1 : FutureOK st1 := ⟨fun a h => by rw [hnow]; exact hf.actC a (hsub.1 a h),
            fun a h => by rw [hnow]; exact hf.actS a (hsub.2.1 a h),
            fun t h => by rw [hnow]; exact hf.timC t (hsub.2.2.1 t h),
            fun t h => by rw [hnow]; exact hf.timS t (hsub.2.2.2 t h)⟩
          have := ih st1 st' e (by rw [hsq]; exact hw) hf1 h (by rw [hnow]; exact hreal)
          exact ⟨this.1.trans hsub, this.2⟩
      | blockExp b c =>
        simp only [] at h
        cases hb : pickBlockExp st b c with
        | error f => simp [hb] at h
        | ok pr =>
          obtain ⟨e1, st1⟩ := pr
          simp only [hb, Option.some.injEq, Except.ok.injEq, Prod.mk.injEq] at h
          obtain ⟨he, hst⟩ := h
          subst hst
          have he' : e1 = e := by simpa using he
          subst he'
          have hsub := pickBlockExp_sub hb
          have hev := pickBlockExp_ev hb
          have hoff := pickDecide_offset_le hd (o := b) rfl
          refine ⟨hsub, ?_, ?_⟩
          · intro a ha
            have hmem : some a ∈ st.client.schedAction ∨ some a ∈ st.server.schedAction := by
              rcases ha with ha | ha
              · exact Or.inl (hsub.1 a ha)
              · exact Or.inr (hsub.2.1 a ha)
            have hge : st.now ≤ a.time := by
              rcases hmem with hm | hm
              · exact hf.actC a hm
              · exact hf.actS a hm
            have := Nat.le_trans hoff.1 (peekScheduledAction_le_mem _ _ _ a hmem hge)
            rw [hev]; exact toTime b a.time hge this
          · intro t ht
            have hmem : some t ∈ st.client.schedTimer ∨ some t ∈ st.server.schedTimer := by
              rcases ht with ht | ht
              · exact Or.inl (hsub.2.2.1 t ht)
              · exact Or.inr (hsub.2.2.2 t ht)
            have hge : st.now ≤ t := by
              rcases hmem with hm | hm
              · exact hf.timC t hm
              · exact hf.timS t hm
            have := Nat.le_trans hoff.2 (peekScheduledInternalTimer_le_mem _ _ _ t hmem hge)
            rw [hev]; exact toTime b t hge this
      | queue q qid c =>
        simp only [] at h
        cases hq : pickQueue st q qid c with
        | error f => simp [hq] at h
        | ok pr =>
          obtain ⟨e1, st1⟩ := pr
          simp only [hq, Option.some.injEq, Except.ok.injEq, Prod.mk.injEq] at h
          obtain ⟨he, hst⟩ := h
          subst hst
          have he' : e1 = e := by simpa using he
          subst he'
          have hsub := pickQueue_sub hq
          have hoff := pickDecide_offset_le hd (o := q) rfl
          obtain ⟨tmp, htmp, hetime⟩ := pickQueue_offset_ge hw hd hq
          -- the event's time is exactly `now + q` or earlier than that
          have hle : e1.time ≤ st.now + (q : Int) := by
            rw [hetime]
            split
            · omega
            · rename_i hng
              -- tmp.time ≥ now + q, and the offset bound gives the other direction
              have hreal' : tmp.time - st.now < durMax := by rw [hetime] at hreal; simp only [hng, if_false] at hreal; exact hreal
              unfold dsince durSince at htmp
              by_cases hpos : 0 ≤ tmp.time - st.now
              · have h1 : ((tmp.time - st.now).toNat : Int) = tmp.time - st.now := Int.toNat_of_nonneg hpos
                have h2 : (tmp.time - st.now).toNat < durMax := by omega
                rw [Nat.min_eq_left (by omega)] at htmp
                omega
              · omega
          refine ⟨hsub, ?_, ?_⟩
          · intro a ha
            have hmem : some a ∈ st.client.schedAction ∨ some a ∈ st.server.schedAction := by
              rcases ha with ha | ha
              · exact Or.inl (hsub.1 a ha)
              · exact Or.inr (hsub.2.1 a ha)
            have hge : st.now ≤ a.time := by
              rcases hmem with hm | hm
              · exact hf.actC a hm
              · exact hf.actS a hm
            have := Nat.le_trans hoff.1 (peekScheduledAction_le_mem _ _ _ a hmem hge)
            have := toTime q a.time hge this
            omega
          · intro t ht
            have hmem : some t ∈ st.client.schedTimer ∨ some t ∈ st.server.schedTimer := by
              rcases ht with ht | ht
              · exact Or.inl (hsub.2.2.1 t ht)
              · exact Or.inr (hsub.2.2.2 t ht)
            have hge : st.now ≤ t := by
              rcases hmem with hm | hm
              · exact hf.timC t hm
              · exact hf.timS t hm
            have := Nat.le_trans hoff.2 (peekScheduledInternalTimer_le_mem _ _ _ t hmem hge)
            have := toTime q t hge this
            omega
      | timer i =>
        simp only [] at h
        cases ht : pickTimer st i with
        | error f => simp [ht] at h
        | ok st1 =>
          simp only [ht] at h
          have hsub := pickTimer_sub ht
          have hnow := pickTimer_now ht
          have hc := pickTimer_conserve hw ht
          have hf1 : FutureOK st1 := ⟨fun a h => by rw [hnow]; exact hf.actC a (hsub.1 a h),
            fun a h => by rw [hnow]; exact hf.actS a (hsub.2.1 a h),
            fun t h => by rw [hnow]; exact hf.timC t (hsub.2.2.1 t h),
            fun t h => by rw [hnow]; exact hf.timS t (hsub.2.2.2 t h)⟩
          have := ih st1 st' e hc.1 hf1 h (by rw [hnow]; exact hreal)
          exact ⟨this.1.trans hsub, this.2⟩
      | action s =>
        simp only [] at h
        cases ha : pickAction st s with
        | error f => simp [ha] at h
        | ok st1 =>
          simp only [ha] at h
          have hsub := pickAction_sub ha
          have hnow := pickAction_now ha
          have hc := pickAction_conserve hw ha
          have hf1 : FutureOK st1 := ⟨fun a h => by rw [hnow]; exact hf.actC a (hsub.1 a h),
            fun a h => by rw [hnow]; exact hf.actS a (hsub.2.1 a h),
            fun t h => by rw [hnow]; exact hf.timC t (hsub.2.2.1 t h),
            fun t h => by rw [hnow]; exact hf.timS t (hsub.2.2.2 t h)⟩
          have := ih st1 st' e hc.1 hf1 h (by rw [hnow]; exact hreal)
          exact ⟨this.1.trans hsub, this.2⟩

end
end Mb.Sim

namespace Mb.Sim
open Mb

section
variable {σ : Type} (ρ : Oracle σ)

/-- one side's pending timers are at or after `now` -/
def sideFuture (now : Int) (sd : Side σ) : Prop :=
  (∀ a, some a ∈ sd.schedAction → now ≤ a.time) ∧ (∀ t, some t ∈ sd.schedTimer → now ≤ t)

theorem mem_set_some {α : Type} {l : List (Option α)} {i : Nat} {x y : α} (h : some x ∈ l.set i (some y)) :
    some x ∈ l ∨ x = y := by
  rcases List.mem_or_eq_of_mem_set h with h1 | h1
  · exact Or.inl h1
  · exact Or.inr (Option.some.inj h1)

theorem timerUpdate_set {cur : Option Int} {now : Int} {d : Nat} {r : Bool}
    (h : (timerUpdate cur now d r).2 = true) : (timerUpdate cur now d r).1 = some (now + (d : Int)) := by
  cases cur with
  | none => simp [timerUpdate]
  | some c =>
    cases r with
    | true => simp [timerUpdate]
    | false =>
      by_cases hc : c < now + (d : Int)
      · simp [timerUpdate, hc]
      · simp [timerUpdate, hc] at h

theorem applyAction_future {sd sd' : Side σ} {sq sq' : SimQueue} {now : Int} {cl : Bool} {a : TAction}
    (hf : sideFuture now sd) (h : applyAction sd sq now cl a = .ok (sd', sq')) : sideFuture now sd' := by
  cases a with
  | cancel m t =>
    simp only [applyAction] at h
    split at h
    · cases h
    · split at h
      · cases h
      · cases t <;> simp at h <;> obtain ⟨h1, _⟩ := h <;> subst h1
        · exact ⟨fun x hx => hf.1 x (mem_set_none hx), hf.2⟩
        · exact ⟨hf.1, fun x hx => hf.2 x (mem_set_none hx)⟩
        · exact ⟨fun x hx => hf.1 x (mem_set_none hx), fun x hx => hf.2 x (mem_set_none hx)⟩
  | sendPadding to b r m =>
    simp only [applyAction] at h
    split at h
    · cases h
    · simp at h; obtain ⟨h1, _⟩ := h; subst h1
      refine ⟨fun x hx => ?_, hf.2⟩
      rcases mem_set_some hx with h2 | h2
      · exact hf.1 x h2
      · subst h2; simp; omega
  | blockOutgoing to d b r m =>
    simp only [applyAction] at h
    split at h
    · cases h
    · simp at h; obtain ⟨h1, _⟩ := h; subst h1
      refine ⟨fun x hx => ?_, hf.2⟩
      rcases mem_set_some hx with h2 | h2
      · exact hf.1 x h2
      · subst h2; simp; omega
  | updateTimer d r m =>
    simp only [applyAction] at h
    cases hc : sd.schedTimer[m]? with
    | none => simp [hc] at h
    | some cur =>
      simp only [hc] at h
      split at h
      · rename_i hb
        simp at h; obtain ⟨h1, _⟩ := h; subst h1
        refine ⟨hf.1, fun x hx => ?_⟩
        -- the stored value is `now + dur` when the timer was updated
        have hv : (timerUpdate cur now (d * 1000) r).1 = some (now + ((d * 1000 : Nat) : Int)) :=
          timerUpdate_set hb
        rw [hv] at hx
        rcases mem_set_some hx with h2 | h2
        · exact hf.2 x h2
        · subst h2; omega
      · simp at h; obtain ⟨h1, _⟩ := h; subst h1; exact hf

theorem applyActions_future : ∀ (acts : List TAction) (sd sd' : Side σ) (sq sq' : SimQueue) (now : Int) (cl : Bool),
    sideFuture now sd → applyActions sd sq now cl acts = .ok (sd', sq') → sideFuture now sd' := by
  intro acts
  induction acts with
  | nil => intro sd sd' sq sq' now cl hf h; simp only [applyActions] at h; cases h; exact hf
  | cons a r ih =>
    intro sd sd' sq sq' now cl hf h
    simp only [applyActions] at h
    rw [bind_ok_iff] at h
    obtain ⟨⟨sd1, sq1⟩, h1, h2⟩ := h
    exact ih sd1 sd' sq1 sq' now cl (applyAction_future hf h1) h2

/-- **Simulated time never moves past a pending timer** (inductive step): if all pending action
    timers and internal timers are at or after the clock, they still are after one iteration of
    the main loop (for an event within `Duration::MAX` of the clock). -/
theorem step_future {st st' : St σ} {r : StepRec} (hw : st.sq.WF) (hf : FutureOK st)
    (h : step ρ st = .ok (some (r, st'))) (hreal : r.ev.time - st.now < durMax) : FutureOK st' := by
  unfold step at h
  rw [bind_ok_iff] at h
  obtain ⟨⟨next, st1⟩, hp, h2⟩ := h
  have hp' : pickNext (pickMeasure st + 1) st = some (.ok (next, st1)) := by
    cases hpn : pickNext (pickMeasure st + 1) st with
    | none => simp [hpn] at hp
    | some x => simp [hpn] at hp; rw [hp]
  cases next with
  | none => simp [pure, Except.pure] at h2
  | some next =>
    simp only [] at h2
    split at h2
    · cases h2
    · rw [bind_ok_iff] at h2
      obtain ⟨⟨na, sq, net⟩, hs, h3⟩ := h2
      rw [bind_ok_iff] at h3
      obtain ⟨⟨acts, st2⟩, ht, h4⟩ := h3
      simp only [pure, Except.pure, Except.ok.injEq, Option.some.injEq, Prod.mk.injEq] at h4
      obtain ⟨hr, hst⟩ := h4
      subst hr; subst hst
      have hnow1 := pickNext_now _ _ _ _ hp'
      have hge := pickNext_time_ge _ _ _ _ hp'
      have hbp := pickNext_before_pending _ _ _ _ hw hf hp' hreal
      -- the clock after the iteration is the event's time
      have hnewnow : (if next.time > st1.now then next.time else st1.now) = next.time := by
        split <;> omega
      -- unfold trigger_update
      unfold triggerUpdate at ht
      simp only [] at ht
      split at ht
      · cases ht
      · rw [bind_ok_iff] at ht
        obtain ⟨⟨sd, sq2⟩, h5, h6⟩ := ht
        simp only [pure, Except.pure] at h6
        cases h6
        simp only [hnewnow] at h5 ⊢
        -- the side that was triggered
        have hside0 : sideFuture next.time ({ (({ st1 with now := next.time, sq := sq, net := net } : St σ).side next.client) with
            fw := triggerEvents ρ [next.event] next.time
              { (({ st1 with now := next.time, sq := sq, net := net } : St σ).side next.client).fw with rng := st1.orc, log := [] } } : Side σ) := by
          cases hc : next.client
          · exact ⟨fun a ha => hbp.2.1 a (Or.inr (by simpa [St.side, hc] using ha)),
                   fun t ht' => hbp.2.2 t (Or.inr (by simpa [St.side, hc] using ht'))⟩
          · exact ⟨fun a ha => hbp.2.1 a (Or.inl (by simpa [St.side, hc] using ha)),
                   fun t ht' => hbp.2.2 t (Or.inl (by simpa [St.side, hc] using ht'))⟩
        have hsd := applyActions_future _ _ _ _ _ _ _ hside0 h5
        cases hc : next.client
        · refine ⟨fun a ha => hbp.2.1 a (Or.inl (by simpa [St.setSide, hc] using ha)),
                  fun a ha => hsd.1 a (by simpa [St.setSide, hc] using ha),
                  fun t ht' => hbp.2.2 t (Or.inl (by simpa [St.setSide, hc] using ht')),
                  fun t ht' => hsd.2 t (by simpa [St.setSide, hc] using ht')⟩
        · refine ⟨fun a ha => hsd.1 a (by simpa [St.setSide, hc] using ha),
                  fun a ha => hbp.2.1 a (Or.inr (by simpa [St.setSide, hc] using ha)),
                  fun t ht' => hsd.2 t (by simpa [St.setSide, hc] using ht'),
                  fun t ht' => hbp.2.2 t (Or.inr (by simpa [St.setSide, hc] using ht'))⟩

/-- the initial state has no pending timers at all -/
theorem initState_future {mc ms : List Machine} {sq : SimQueue} {a : Args} {orc : σ} {st : St σ}
    (h : initState ρ mc ms sq a orc = .ok st) : FutureOK st := by
  unfold initState at h
  rw [bind_ok_iff] at h
  obtain ⟨t0, _, h⟩ := h
  rw [bind_ok_iff] at h
  obtain ⟨⟨c, o1⟩, hc, h⟩ := h
  rw [bind_ok_iff] at h
  obtain ⟨⟨s, o2⟩, hs, h⟩ := h
  rw [bind_ok_iff] at h
  obtain ⟨net, _, h⟩ := h
  simp only [pure, Except.pure] at h
  cases h
  have side : ∀ (m : List Machine) (t0 : Int) (fp fb : F64) (o : σ) (sd : Side σ) (o' : σ),
      Side.new ρ m t0 fp fb o = .ok (sd, o') →
      (∀ a, some a ∉ sd.schedAction) ∧ (∀ t, some t ∉ sd.schedTimer) := by
    intro m t0 fp fb o sd o' hh
    unfold Side.new at hh
    split at hh
    · cases hh
    · simp only [] at hh
      split at hh
      · cases hh
      · cases hh
        constructor <;> intro x hx <;> simp only [List.mem_map] at hx <;> obtain ⟨_, _, hx⟩ := hx <;> cases hx
  have h1 := side _ _ _ _ _ _ _ hc
  have h2 := side _ _ _ _ _ _ _ hs
  exact ⟨fun a ha => absurd ha (h1.1 a), fun a ha => absurd ha (h2.1 a),
         fun t ht => absurd ht (h1.2 t), fun t ht => absurd ht (h2.2 t)⟩

end
end Mb.Sim

namespace Mb.Sim
open Mb

section
variable {σ : Type}

/-- the scheduled-action branch is taken exactly when the earliest pending action is strictly
    earlier than every other candidate `pick_next` sees (aggregate delay, blocking expiry, queue,
    internal timer) -/
theorem pickDecide_action_strict {st : St σ} {s : Nat} (h : pickDecide st = .ok (.action s)) :
    s = peekScheduledAction st.client.schedAction st.server.schedAction st.now ∧
    s < peekScheduledInternalTimer st.client.schedTimer st.server.schedTimer st.now ∧
    s < (peekBlockedExp st.client.blockingUntil st.server.blockingUntil st.now).1 ∧
    s < st.net.peekAggregateDelay st.now ∧
    ∃ e q qid c, peekQueue st e = .ok (q, qid, c) ∧ s < q := by
  unfold pickDecide at h
  simp only [] at h
  rw [bind_ok_iff] at h
  obtain ⟨⟨q, qid, qc⟩, hq, h2⟩ := h
  simp only [pure, Except.pure] at h2
  split at h2
  · cases h2
  · split at h2
    · cases h2
    · rename_i hna
      split at h2
      · cases h2
      · rename_i hnb
        split at h2
        · cases h2
        · rename_i hnq
          split at h2
          · cases h2
          · rename_i hni
            simp only [Except.ok.injEq, Pick.action.injEq] at h2
            simp only [Bool.and_eq_true, decide_eq_true_eq, not_and, Nat.not_le] at hna hnb hnq hni
            have hsi : peekScheduledAction st.client.schedAction st.server.schedAction st.now <
                peekScheduledInternalTimer st.client.schedTimer st.server.schedTimer st.now := by
              simpa using hni
            have hsq : peekScheduledAction st.client.schedAction st.server.schedAction st.now < q := by
              by_cases hqs : q ≤ peekScheduledAction st.client.schedAction st.server.schedAction st.now
              · have := hnq hqs; omega
              · omega
            refine ⟨h2.symm, by rw [← h2]; exact hsi, ?_, ?_, ⟨_, q, qid, qc, hq, by rw [← h2]; exact hsq⟩⟩
            · rw [← h2]
              by_cases hbs : (peekBlockedExp st.client.blockingUntil st.server.blockingUntil st.now).1 ≤
                  peekScheduledAction st.client.schedAction st.server.schedAction st.now
              · have := hnb ⟨hbs, by omega⟩; omega
              · omega
            · rw [← h2]
              have hsb : peekScheduledAction st.client.schedAction st.server.schedAction st.now <
                  (peekBlockedExp st.client.blockingUntil st.server.blockingUntil st.now).1 := by
                by_cases hbs : (peekBlockedExp st.client.blockingUntil st.server.blockingUntil st.now).1 ≤
                    peekScheduledAction st.client.schedAction st.server.schedAction st.now
                · have := hnb ⟨hbs, by omega⟩; omega
                · omega
              by_cases hns : st.net.peekAggregateDelay st.now ≤
                  peekScheduledAction st.client.schedAction st.server.schedAction st.now
              · have := hna ⟨⟨hns, by omega⟩, by omega⟩; omega
              · omega

end
end Mb.Sim
