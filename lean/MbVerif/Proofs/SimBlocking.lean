/-
  Lemmas about scheduled actions and the blocking-expiry branch of `pick_next`.
-/
import MbVerif.Proofs.SimFuel

namespace Mb.Sim
open Mb

/-- `findSlot` returns the first slot satisfying the predicate -/
theorem findSlot_sat {α : Type} (p : α → Bool) : ∀ (l : List (Option α)) (i j : Nat) (a : α),
    findSlot p l i = some (j, a) → p a = true := by
  intro l
  induction l with
  | nil => intro i j a h; simp [findSlot] at h
  | cons x xs ih =>
    intro i j a h
    cases x with
    | none => simp only [findSlot] at h; exact ih _ _ _ h
    | some b =>
      simp only [findSlot] at h
      split at h
      · rename_i hp; cases h; exact hp
      · exact ih _ _ _ h

section
variable {σ : Type}

@[simp] theorem side_setSide_same (st : St σ) (c : Bool) (x : Side σ) : (st.setSide c x).side c = x := by
  cases c <;> simp [St.setSide, St.side]

theorem doScheduledAction_spec {st st' : St σ} {target : Int} {e : SimEvent}
    (h : doScheduledAction st target = .ok (e, st')) :
    e.time = target ∧ ∃ i a, (st.side e.client).schedAction[i]? = some (some a) ∧ a.time = target ∧
      (st'.side e.client).schedAction = (st.side e.client).schedAction.set i none := by
  unfold doScheduledAction at h
  simp only [] at h
  split at h
  · cases h
  · rename_i isClient i a hfound
    have hslot : (st.side isClient).schedAction[i]? = some (some a) ∧ a.time = target := by
      unfold findAction at hfound
      split at hfound
      · rename_i j b hf
        cases hfound
        obtain ⟨k, hk, hl⟩ := findSlot_spec _ _ _ _ _ hf
        have hp := findSlot_sat _ _ _ _ _ hf
        rw [Nat.zero_add] at hk
        subst hk
        exact ⟨by simpa [St.side] using hl, by simpa using hp⟩
      · split at hfound
        · rename_i j b hf
          cases hfound
          obtain ⟨k, hk, hl⟩ := findSlot_spec _ _ _ _ _ hf
          have hp := findSlot_sat _ _ _ _ _ hf
          rw [Nat.zero_add] at hk
          subst hk
          exact ⟨by simpa [St.side] using hl, by simpa using hp⟩
        · cases hfound
    split at h
    · cases h
    · cases h
    · cases h
      exact ⟨hslot.2, i, a, hslot.1, hslot.2, by simp⟩
    · cases h
      exact ⟨hslot.2, i, a, hslot.1, hslot.2, by simp⟩

theorem peekBlockedExp_spec (cu su : Option Int) (now : Int) (b : Nat) (c : Bool)
    (h : peekBlockedExp cu su now = (b, c)) (hs : (if c then cu else su).isSome) :
    ∃ u, (if c then cu else su) = some u ∧ b = dsince u now := by
  unfold peekBlockedExp at h
  cases cu with
  | none =>
    cases su with
    | none => simp at h; obtain ⟨_, hc⟩ := h; subst hc; simp at hs
    | some s => simp at h; obtain ⟨hb, hc⟩ := h; subst hc; exact ⟨s, by simp, hb.symm⟩
  | some cc =>
    cases su with
    | none => simp at h; obtain ⟨hb, hc⟩ := h; subst hc; exact ⟨cc, by simp, hb.symm⟩
    | some s =>
      simp only [] at h
      split at h
      · simp at h; obtain ⟨hb, hc⟩ := h; subst hc; exact ⟨cc, by simp, hb.symm⟩
      · simp at h; obtain ⟨hb, hc⟩ := h; subst hc; exact ⟨s, by simp, hb.symm⟩

theorem pickDecide_blockExp {st : St σ} {b : Nat} {c : Bool} (h : pickDecide st = .ok (.blockExp b c)) :
    peekBlockedExp st.client.blockingUntil st.server.blockingUntil st.now = (b, c) := by
  unfold pickDecide at h
  simp only [] at h
  rw [bind_ok_iff] at h
  obtain ⟨⟨q, qid, qc⟩, _, h2⟩ := h
  simp only [pure, Except.pure] at h2
  split at h2
  · cases h2
  · split at h2
    · cases h2
    · split at h2
      · cases h2; rfl
      · split at h2
        · cases h2
        · split at h2 <;> cases h2

theorem pickBlockExp_spec {st st' : St σ} {b : Nat} {c : Bool} {e : SimEvent}
    (hd : pickDecide st = .ok (.blockExp b c)) (hp : pickBlockExp st b c = .ok (e, st'))
    (hsome : (st.side c).blockingUntil.isSome) :
    e.event = .blockingEnd ∧ e.client = c ∧ (st'.side c).blockingUntil = none ∧
    ∃ u, (st.side c).blockingUntil = some u ∧ (st.now ≤ u → u - st.now ≤ durMax → e.time = u) := by
  have hpk := pickDecide_blockExp hd
  have hside : (if c then st.client.blockingUntil else st.server.blockingUntil) = (st.side c).blockingUntil := by
    cases c <;> simp [St.side]
  obtain ⟨u, hu, hb⟩ := peekBlockedExp_spec _ _ _ _ _ hpk (by rw [hside]; exact hsome)
  rw [hside] at hu
  have hev := pickBlockExp_ev hp
  unfold pickBlockExp at hp
  rw [bind_ok_iff] at hp
  obtain ⟨net, _, h2⟩ := hp
  simp only [pure, Except.pure] at h2
  cases h2
  refine ⟨rfl, rfl, ?_, u, hu, ?_⟩
  · cases c <;> simp [St.side, St.setSide]
  · intro h1 h2
    show st.now + (b : Int) = u
    rw [hb]
    unfold dsince durSince
    have : ((u - st.now).toNat : Int) = u - st.now := Int.toNat_of_nonneg (by omega)
    have h3 : (u - st.now).toNat ≤ durMax := by omega
    rw [Nat.min_eq_left h3]
    omega

end
end Mb.Sim
