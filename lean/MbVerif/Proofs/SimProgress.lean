/-
  C14, progress: a run without machines on a non-empty time-ordered parsed trace never faults,
  never stops early, and — when the caps and the loop fuel are not binding — stops because all
  normal packets were processed (`Stop.noNormal`).

  The argument: the state invariant `XInv` of `Proofs/SimExact.lean` (nothing was delayed so
  far), strengthened by "no framework fault" and "every queued event is strictly less than
  `Duration::MAX` after the clock", implies that one iteration of the main loop succeeds
  (`step_progress`): `pick_next` takes the queue branch and pops the head it peeked,
  `sim_network_stack` stays within the packets-per-second limit (so no checked duration
  arithmetic is reached), and `trigger_update` on a framework without machines returns no action
  and no fault.  The weight `4·#NormalSent + 3·#TunnelSent + 2·#TunnelRecv + #NormalRecv` of the
  queued events drops by exactly one per iteration, and the loop's third stop test fires exactly
  when no NormalSent, TunnelSent or TunnelRecv is queued.
-/
import MbVerif.Proofs.SimIdentity

namespace Mb.Sim
open Mb Mb.SimSpec

/-! ### peeking and popping a non-empty queue succeeds -/

theorem Heap.peek_some_pop {α : Type} (le : α → α → Bool) {h : Heap α} {x : α} (hp : h.peek = some x) :
    ∃ y h', Heap.pop le h = some (y, h') := by
  cases hpop : Heap.pop le h with
  | some pr => exact ⟨pr.1, pr.2, rfl⟩
  | none =>
    have := heap_pop_none le hpop
    have hm := Heap.peek_mem hp
    unfold Heap.len at this
    have : h.data = [] := List.eq_nil_of_length_eq_zero this
    rw [this] at hm; cases hm

theorem optGt_pick_none {a b : Option SimEvent} {qa qb : Queue}
    (h : (if optGt a b = true then (a, qa) else (b, qb)).fst = none) : a = none ∧ b = none := by
  cases a <;> cases b
  · exact ⟨rfl, rfl⟩
  · simp [optGt] at h
  · simp [optGt] at h
  · split at h <;> simp at h

/-- `EventQueue::peek` never faults: on an empty queue it reports nothing, otherwise an event -/
theorem EventQueue.peek_total (q : EventQueue) (ds : Nat) (now : Int) :
    (q.len = 0 ∧ q.peek ds now = .ok (none, .blocking, 0)) ∨ ∃ ev qi d, q.peek ds now = .ok (some ev, qi, d) := by
  by_cases hl : q.len = 0
  · left
    refine ⟨hl, ?_⟩
    unfold EventQueue.peek
    simp [hl]
  · right
    unfold EventQueue.peek
    simp only [hl, if_false]
    generalize hF1 : (if optGt q.blocking.peek q.bypassable.peek = true then (q.blocking.peek, Queue.blocking)
      else (q.bypassable.peek, Queue.bypassable)) = F1
    have h1 : F1.fst = none → q.blocking.peek = none ∧ q.bypassable.peek = none := by
      intro h; rw [← hF1] at h; exact optGt_pick_none h
    generalize hF2 : (if optGt q.internal.peek F1.fst = true then (q.internal.peek, Queue.internal)
      else (F1.fst, F1.snd)) = F2
    have h2 : F2.fst = none → q.internal.peek = none ∧ F1.fst = none := by
      intro h; rw [← hF2] at h; exact optGt_pick_none h
    by_cases hb : before q.base.peek F2.fst ds = true
    · simp only [hb, if_true]
      cases hbp : q.base.peek with
      | none => rw [hbp] at hb; simp [before] at hb
      | some e => exact ⟨_, _, _, rfl⟩
    · simp only [hb]
      cases hf : F2.fst with
      | some e => exact ⟨_, _, _, rfl⟩
      | none =>
        exfalso
        obtain ⟨hi, hf1⟩ := h2 hf
        obtain ⟨hbl, hby⟩ := h1 hf1
        have hbase : q.base.peek = none := by
          cases hbp : q.base.peek with
          | none => rfl
          | some e => rw [hbp, hf] at hb; simp [before] at hb
        apply hl
        have a1 := heap_peek_none hbase
        have a2 := heap_peek_none hbl
        have a3 := heap_peek_none hby
        have a4 := heap_peek_none hi
        unfold EventQueue.len; omega

/-- `SimQueue::peek` on a non-empty queue reports an event -/
theorem SimQueue.peek_some (s : SimQueue) (c sv : Nat) (now : Int) (hl : s.len ≠ 0) :
    ∃ ev qi d, s.peek c sv now = .ok (some ev, qi, d) := by
  unfold SimQueue.peek
  simp only [hl, if_false]
  rcases EventQueue.peek_total s.client c now with ⟨hc0, hc⟩ | ⟨ce, cq, cd, hc⟩ <;>
    rcases EventQueue.peek_total s.server sv now with ⟨hs0, hs⟩ | ⟨se, sq, sd, hs⟩
  · exfalso; apply hl; unfold SimQueue.len; omega
  · rw [hc, hs]; exact ⟨_, _, _, rfl⟩
  · rw [hc, hs]; exact ⟨_, _, _, rfl⟩
  · rw [hc, hs]
    simp only [bind, Except.bind, pure, Except.pure]
    split <;> exact ⟨_, _, _, rfl⟩

/-- popping (no aggregate delay) the heap whose head was peeked succeeds -/
theorem SimQueue.pop_some0 {s : SimQueue} {qi : Queue} {cl : Bool} {e : SimEvent}
    (h : ((s.side cl).heap qi).peek = some e) : ∃ e' s', s.pop qi cl 0 = .ok (some (e', s')) := by
  obtain ⟨y, h', hp⟩ := Heap.peek_some_pop SimEvent.le h
  unfold SimQueue.pop EventQueue.pop
  cases qi <;> simp only [EventQueue.heap] at hp
  · have : (s.side cl).blocking.pop = some (y, h') := hp
    simp only [this]; exact ⟨_, _, rfl⟩
  · have : (s.side cl).bypassable.pop = some (y, h') := hp
    simp only [this]; exact ⟨_, _, rfl⟩
  · have : (s.side cl).internal.pop = some (y, h') := hp
    simp only [this]; exact ⟨_, _, rfl⟩
  · have : (s.side cl).base.pop = some (y, h') := hp
    simp only [this]; exact ⟨_, _, rfl⟩

/-! ### `pick_next` serves the queue -/

section
variable {σ : Type} (ρ : Oracle σ)

/-- without machines and aggregate delays, with a non-empty queue whose events are all strictly
    less than `Duration::MAX` after the clock, `pick_next` decides for the queue and names the
    event `SimQueue::peek` selects -/
theorem pickDecide_progress {st : St σ} {delay lim : Nat} (hn : NoMach st) (hq : NetQuiet delay lim st.net)
    (hw : st.sq.WF) (hl : st.sq.len ≠ 0)
    (hr : st.sq.AllE fun e => st.now ≤ e.time ∧ e.time - st.now < durMax) :
    ∃ pk qid dur, st.sq.peek 0 0 st.now = .ok (some pk, qid, dur) ∧
      pickDecide st = .ok (.queue dur qid pk.client) := by
  obtain ⟨pk, qid, dur, hpk⟩ := SimQueue.peek_some st.sq 0 0 st.now hl
  refine ⟨pk, qid, dur, hpk, ?_⟩
  have hr' : st.sq.AllE fun e => st.now ≤ e.time ∧ e.time - st.now ≤ durMax :=
    SimQueue.allE_mono hr (fun e he => ⟨he.1, by omega⟩)
  obtain ⟨m1, m2, _⟩ := SimQueue.peek_min hw hr' hpk
  have hlt : dur < durMax := by
    have := (hr pk.client qid pk (Heap.peek_mem m1)).2
    omega
  have hs := peekScheduledAction_none (now := st.now) hn.ac hn.as
  have hi := peekScheduledInternalTimer_none (now := st.now) hn.tc hn.ts
  have hb : peekBlockedExp st.client.blockingUntil st.server.blockingUntil st.now = (durMax, true) := by
    rw [hn.bc, hn.bs]; rfl
  have hna : st.net.peekAggregateDelay st.now = durMax := by
    unfold Bottleneck.peekAggregateDelay Heap.peek
    rw [hq.aq]; rfl
  have hpq : peekQueue st durMax = .ok (dur, qid, pk.client) := by
    unfold peekQueue
    have he : st.sq.isEmpty = false := by
      unfold SimQueue.isEmpty; simpa using hl
    rw [he, hq.ca, hq.sa, hpk]
    have hng : ¬ dur > durMax := by omega
    simp [bind, Except.bind, pure, Except.pure, hng, hn.bc, hn.bs]
  unfold pickDecide
  simp only []
  rw [hs, hi, hb, hna]
  simp only [Nat.min_self]
  rw [hpq]
  have h1 : ¬ dur = durMax := by omega
  have h2 : ¬ durMax ≤ dur := by omega
  simp [bind, Except.bind, pure, Except.pure, h1, h2]
  omega

/-- hence `pick_next` returns an event -/
theorem pickNext_progress {st : St σ} {delay lim : Nat} (fuel : Nat) (hn : NoMach st) (hq : NetQuiet delay lim st.net)
    (hw : st.sq.WF) (hl : st.sq.len ≠ 0)
    (hr : st.sq.AllE fun e => st.now ≤ e.time ∧ e.time - st.now < durMax) :
    ∃ e st', pickNext (fuel + 1) st = some (.ok (some e, st')) := by
  obtain ⟨pk, qid, dur, hpk, hd⟩ := pickDecide_progress hn hq hw hl hr
  have hr' : st.sq.AllE fun e => st.now ≤ e.time ∧ e.time - st.now ≤ durMax :=
    SimQueue.allE_mono hr (fun e he => ⟨he.1, by omega⟩)
  obtain ⟨m1, _, _⟩ := SimQueue.peek_min hw hr' hpk
  obtain ⟨e', s', hpop⟩ := SimQueue.pop_some0 m1
  have hagg : st.net.agg pk.client = 0 := by
    unfold Bottleneck.agg; cases pk.client <;> simp [hq.ca, hq.sa]
  unfold pickNext
  simp only [hd]
  unfold pickQueue
  rw [hagg, hpop]
  simp only [bind, Except.bind, pure, Except.pure]
  exact ⟨_, _, rfl⟩

end

end Mb.Sim
