/-
  C14, progress: a run without machines on a non-empty time-ordered parsed trace never faults,
  never stops early, and — when the caps and the loop fuel are not binding — stops because all
  normal packets were processed (`Stop.noNormal`).

  The argument: the state invariant `XInv` of `Proofs/SimExact.lean` (nothing was delayed so
  far), strengthened by "no framework fault" and "every queued event is strictly less than
  `Duration::MAX` after the clock", implies that one iteration of the main loop succeeds
  (`step_progress`): `pick_next` takes the queue branch and pops the head it peeked,
  `sim_network_stack` stays within the packets-per-second limit (so no checked duration
  arithmetic is reached), and `trigger_update` on a framework without machines returns no action
  and no fault.  The weight `4·#NormalSent + 3·#TunnelSent + 2·#TunnelRecv + #NormalRecv` of the
  queued events drops by exactly one per iteration, and the loop's third stop test fires exactly
  when no NormalSent, TunnelSent or TunnelRecv is queued.
-/
import MbVerif.Proofs.SimIdentity

namespace Mb.Sim
open Mb Mb.SimSpec

/-! ### peeking and popping a non-empty queue succeeds -/

theorem Heap.peek_some_pop {α : Type} (le : α → α → Bool) {h : Heap α} {x : α} (hp : h.peek = some x) :
    ∃ y h', Heap.pop le h = some (y, h') := by
  cases hpop : Heap.pop le h with
  | some pr => exact ⟨pr.1, pr.2, rfl⟩
  | none =>
    have := heap_pop_none le hpop
    have hm := Heap.peek_mem hp
    unfold Heap.len at this
    have : h.data = [] := List.eq_nil_of_length_eq_zero this
    rw [this] at hm; cases hm

theorem optGt_pick_none {a b : Option SimEvent} {qa qb : Queue}
    (h : (if optGt a b = true then (a, qa) else (b, qb)).fst = none) : a = none ∧ b = none := by
  cases a <;> cases b
  · exact ⟨rfl, rfl⟩
  · simp [optGt] at h
  · simp [optGt] at h
  · split at h <;> simp at h

/-- `EventQueue::peek` never faults: on an empty queue it reports nothing, otherwise an event -/
theorem EventQueue.peek_total (q : EventQueue) (ds : Nat) (now : Int) :
    (q.len = 0 ∧ q.peek ds now = .ok (none, .blocking, 0)) ∨ ∃ ev qi d, q.peek ds now = .ok (some ev, qi, d) := by
  by_cases hl : q.len = 0
  · left
    refine ⟨hl, ?_⟩
    unfold EventQueue.peek
    simp [hl]
  · right
    unfold EventQueue.peek
    simp only [hl, if_false]
    generalize hF1 : (if optGt q.blocking.peek q.bypassable.peek = true then (q.blocking.peek, Queue.blocking)
      else (q.bypassable.peek, Queue.bypassable)) = F1
    have h1 : F1.fst = none → q.blocking.peek = none ∧ q.bypassable.peek = none := by
      intro h; rw [← hF1] at h; exact optGt_pick_none h
    generalize hF2 : (if optGt q.internal.peek F1.fst = true then (q.internal.peek, Queue.internal)
      else (F1.fst, F1.snd)) = F2
    have h2 : F2.fst = none → q.internal.peek = none ∧ F1.fst = none := by
      intro h; rw [← hF2] at h; exact optGt_pick_none h
    by_cases hb : before q.base.peek F2.fst ds = true
    · simp only [hb, if_true]
      cases hbp : q.base.peek with
      | none => rw [hbp] at hb; simp [before] at hb
      | some e => exact ⟨_, _, _, rfl⟩
    · simp only [hb]
      cases hf : F2.fst with
      | some e => exact ⟨_, _, _, rfl⟩
      | none =>
        exfalso
        obtain ⟨hi, hf1⟩ := h2 hf
        obtain ⟨hbl, hby⟩ := h1 hf1
        have hbase : q.base.peek = none := by
          cases hbp : q.base.peek with
          | none => rfl
          | some e => rw [hbp, hf] at hb; simp [before] at hb
        apply hl
        have a1 := heap_peek_none hbase
        have a2 := heap_peek_none hbl
        have a3 := heap_peek_none hby
        have a4 := heap_peek_none hi
        unfold EventQueue.len; omega

/-- `SimQueue::peek` on a non-empty queue reports an event -/
theorem SimQueue.peek_some (s : SimQueue) (c sv : Nat) (now : Int) (hl : s.len ≠ 0) :
    ∃ ev qi d, s.peek c sv now = .ok (some ev, qi, d) := by
  unfold SimQueue.peek
  simp only [hl, if_false]
  rcases EventQueue.peek_total s.client c now with ⟨hc0, hc⟩ | ⟨ce, cq, cd, hc⟩ <;>
    rcases EventQueue.peek_total s.server sv now with ⟨hs0, hs⟩ | ⟨se, sq, sd, hs⟩
  · exfalso; apply hl; unfold SimQueue.len; omega
  · rw [hc, hs]; exact ⟨_, _, _, rfl⟩
  · rw [hc, hs]; exact ⟨_, _, _, rfl⟩
  · rw [hc, hs]
    simp only [bind, Except.bind, pure, Except.pure]
    split <;> exact ⟨_, _, _, rfl⟩

/-- popping (no aggregate delay) the heap whose head was peeked succeeds -/
theorem SimQueue.pop_some0 {s : SimQueue} {qi : Queue} {cl : Bool} {e : SimEvent}
    (h : ((s.side cl).heap qi).peek = some e) : ∃ e' s', s.pop qi cl 0 = .ok (some (e', s')) := by
  obtain ⟨y, h', hp⟩ := Heap.peek_some_pop SimEvent.le h
  unfold SimQueue.pop EventQueue.pop
  cases qi <;> simp only [EventQueue.heap] at hp
  · have : (s.side cl).blocking.pop = some (y, h') := hp
    simp only [this]; exact ⟨_, _, rfl⟩
  · have : (s.side cl).bypassable.pop = some (y, h') := hp
    simp only [this]; exact ⟨_, _, rfl⟩
  · have : (s.side cl).internal.pop = some (y, h') := hp
    simp only [this]; exact ⟨_, _, rfl⟩
  · have : (s.side cl).base.pop = some (y, h') := hp
    simp only [this]; exact ⟨_, _, rfl⟩

/-! ### `pick_next` serves the queue -/

section
variable {σ : Type} (ρ : Oracle σ)

/-- without machines and aggregate delays, with a non-empty queue whose events are all strictly
    less than `Duration::MAX` after the clock, `pick_next` decides for the queue and names the
    event `SimQueue::peek` selects -/
theorem pickDecide_progress {st : St σ} {delay lim : Nat} (hn : NoMach st) (hq : NetQuiet delay lim st.net)
    (hw : st.sq.WF) (hl : st.sq.len ≠ 0)
    (hr : st.sq.AllE fun e => st.now ≤ e.time ∧ e.time - st.now < durMax) :
    ∃ pk qid dur, st.sq.peek 0 0 st.now = .ok (some pk, qid, dur) ∧
      pickDecide st = .ok (.queue dur qid pk.client) := by
  obtain ⟨pk, qid, dur, hpk⟩ := SimQueue.peek_some st.sq 0 0 st.now hl
  refine ⟨pk, qid, dur, hpk, ?_⟩
  have hr' : st.sq.AllE fun e => st.now ≤ e.time ∧ e.time - st.now ≤ durMax :=
    SimQueue.allE_mono hr (fun e he => ⟨he.1, by omega⟩)
  obtain ⟨m1, m2, _⟩ := SimQueue.peek_min hw hr' hpk
  have hlt : dur < durMax := by
    have := (hr pk.client qid pk (Heap.peek_mem m1)).2
    omega
  have hs := peekScheduledAction_none (now := st.now) hn.ac hn.as
  have hi := peekScheduledInternalTimer_none (now := st.now) hn.tc hn.ts
  have hb : peekBlockedExp st.client.blockingUntil st.server.blockingUntil st.now = (durMax, true) := by
    rw [hn.bc, hn.bs]; rfl
  have hna : st.net.peekAggregateDelay st.now = durMax := by
    unfold Bottleneck.peekAggregateDelay Heap.peek
    rw [hq.aq]; rfl
  have hpq : peekQueue st durMax = .ok (dur, qid, pk.client) := by
    unfold peekQueue
    have he : st.sq.isEmpty = false := by
      unfold SimQueue.isEmpty; simpa using hl
    rw [he, hq.ca, hq.sa, hpk]
    have hng : ¬ dur > durMax := by omega
    simp [bind, Except.bind, pure, Except.pure, hng, hn.bc, hn.bs]
  unfold pickDecide
  simp only []
  rw [hs, hi, hb, hna]
  simp only [Nat.min_self]
  rw [hpq]
  have h1 : ¬ dur = durMax := by omega
  have h2 : ¬ durMax ≤ dur := by omega
  simp [bind, Except.bind, pure, Except.pure, h1, h2]
  omega

/-- hence `pick_next` returns an event -/
theorem pickNext_progress {st : St σ} {delay lim : Nat} (fuel : Nat) (hn : NoMach st) (hq : NetQuiet delay lim st.net)
    (hw : st.sq.WF) (hl : st.sq.len ≠ 0)
    (hr : st.sq.AllE fun e => st.now ≤ e.time ∧ e.time - st.now < durMax) :
    ∃ e st', pickNext (fuel + 1) st = some (.ok (some e, st')) := by
  obtain ⟨pk, qid, dur, hpk, hd⟩ := pickDecide_progress hn hq hw hl hr
  have hr' : st.sq.AllE fun e => st.now ≤ e.time ∧ e.time - st.now ≤ durMax :=
    SimQueue.allE_mono hr (fun e he => ⟨he.1, by omega⟩)
  obtain ⟨m1, _, _⟩ := SimQueue.peek_min hw hr' hpk
  obtain ⟨e', s', hpop⟩ := SimQueue.pop_some0 m1
  have hagg : st.net.agg pk.client = 0 := by
    unfold Bottleneck.agg; cases pk.client <;> simp [hq.ca, hq.sa]
  unfold pickNext
  simp only [hd]
  unfold pickQueue
  rw [hagg, hpop]
  simp only [bind, Except.bind, pure, Except.pure]
  exact ⟨_, _, rfl⟩

/-! ### the network stack and `trigger_update` succeed -/

end

theorem simNetworkStack_ok {next : SimEvent} {sq : SimQueue} {byp : Bool} {net : Bottleneck} {now : Int}
    (hok : pktOK next = true)
    (hcount : next.event = .tunnelSent → ((winOf net next.client).add now).1 ≤ net.ppsLimit) :
    ∃ na sq' net', simNetworkStack next sq byp net now = .ok (na, sq', net') := by
  unfold simNetworkStack
  split
  · exact ⟨_, _, _, rfl⟩
  · rename_i m hev
    simp [pktOK, hev] at hok
  · rename_i hev
    have hc := hcount hev
    have hle : ¬ ((if next.client then net.clientWindow else net.serverWindow).add now).1 >
        (if next.client then { net with clientWindow := ((if next.client then net.clientWindow else net.serverWindow).add now).2 }
          else { net with serverWindow := ((if next.client then net.clientWindow else net.serverWindow).add now).2 }).ppsLimit := by
      unfold winOf at hc
      cases hcl : next.client <;> simp [hcl] at hc ⊢ <;> omega
    unfold netTunnelSent Bottleneck.sample Bottleneck.ppsDelay
    simp only [hle, if_false, bind, Except.bind, pure, Except.pure]
    unfold Bottleneck.sampleResult
    simp only [Nat.lt_irrefl, if_false, gt_iff_lt, pure, Except.pure, ppsAgg, Except.map]
    exact ⟨_, _, _, rfl⟩
  · split <;> exact ⟨_, _, _, rfl⟩
  · exact ⟨_, _, _, rfl⟩

section
variable {σ : Type} (ρ : Oracle σ)

/-- a framework without machines that is fed a packet event does not fault -/
theorem triggerEvents_quiet_fault (e : TEvent) (t : Int) (s : Fw σ) (h : Quiet s)
    (he : e = .normalSent ∨ e = .tunnelSent ∨ e = .tunnelRecv ∨ e = .normalRecv) :
    (triggerEvents ρ [e] t s).fault = s.fault := by
  obtain ⟨hrt, hact, hsig⟩ := h
  have hq : Quiet (s.callStart t) := by
    simp [Quiet, Fw.callStart, hrt, hact, hsig]
  have hf : (s.callStart t).fault = s.fault := by simp [Fw.callStart]
  have h1 := processEvent_quiet ρ e _ hq
  have hpf : (processEvent ρ e (s.callStart t)).fault = (s.callStart t).fault := by
    rcases he with he | he | he | he <;> subst he <;> simp [processEvent, transitionAll, hq.1]
  unfold triggerEvents
  simp only [List.foldl_cons, List.foldl_nil]
  have hsr : signalRound ρ (processEvent ρ e (s.callStart t)) = processEvent ρ e (s.callStart t) := by
    unfold signalRound
    simp [h1.1.2.2]
  rw [hsr, hpf, hf]

theorem pktOK_event {e : SimEvent} (h : pktOK e = true) :
    e.event = .normalSent ∨ e.event = .tunnelSent ∨ e.event = .tunnelRecv ∨ e.event = .normalRecv := by
  simp only [pktOK, Bool.and_eq_true, Bool.or_eq_true, beq_iff_eq] at h
  rcases h.2 with ((h | h) | h) | h
  · exact Or.inl h
  · exact Or.inr (Or.inl h)
  · exact Or.inr (Or.inr (Or.inl h))
  · exact Or.inr (Or.inr (Or.inr h))

/-- `trigger_update` for a packet event on sides without machines and without fault succeeds and
    leaves both frameworks without fault -/
theorem triggerUpdate_ok (st : St σ) (next : SimEvent) (hqc : Quiet st.client.fw) (hqs : Quiet st.server.fw)
    (hfc : st.client.fw.fault = none) (hfs : st.server.fw.fault = none) (hok : pktOK next = true) :
    ∃ acts st', triggerUpdate ρ st next = .ok (acts, st') ∧ st'.client.fw.fault = none ∧ st'.server.fw.fault = none := by
  have hq : Quiet (st.side next.client).fw := by
    unfold St.side; cases next.client <;> simp [hqc, hqs]
  have hf : (st.side next.client).fw.fault = none := by
    unfold St.side; cases next.client <;> simp [hfc, hfs]
  have hq' : Quiet ({ (st.side next.client).fw with rng := st.orc, log := [] } : Fw σ) := hq
  have ht := triggerEvents_quiet ρ [next.event] st.now _ hq'
  have hfl := (triggerEvents_quiet_fault ρ next.event st.now _ hq' (pktOK_event hok)).trans hf
  unfold triggerUpdate
  simp only [hfl, ht.2.2, applyActions, bind, Except.bind, pure, Except.pure]
  refine ⟨_, _, rfl, ?_, ?_⟩
  · cases hc : next.client
    · simpa [St.setSide, hc] using hfc
    · simpa [St.setSide, hc] using hfl
  · cases hc : next.client
    · simpa [St.setSide, hc] using hfl
    · simpa [St.setSide, hc] using hfs

/-! ### one iteration succeeds -/

/-- the invariant of a run that makes progress: the exact-run invariant, no framework fault, and
    the horizon `B` strictly less than `Duration::MAX` after the clock -/
structure PInv (delay lim : Nat) (L : Bool → List Int) (B : Int) (st : St σ) : Prop where
  x : XInv delay lim L B st
  fc : st.client.fw.fault = none
  fs : st.server.fw.fault = none
  lt : B - st.now < durMax

theorem reach_ge (delay : Nat) (e : SimEvent) : e.time ≤ reach delay e := by
  unfold reach; split <;> omega

/-- **One iteration of an exact run succeeds**: with a non-empty queue the iteration returns an
    event (no fault, not "nothing to do"), and the invariant is kept. -/
theorem step_progress {delay lim : Nat} {L : Bool → List Int} {B : Int}
    (hstat : ∀ c t, t ∈ L c →
      (L c).countP (fun x => decide (x ≤ t) && inWin Gen.SIM_BOTTLENECK_WINDOW_NS t x) ≤ lim)
    {st : St σ} (hp : PInv delay lim L B st) (hl : st.sq.len ≠ 0) :
    ∃ r st', step ρ st = .ok (some (r, st')) ∧ PInv delay lim L B st' := by
  have hx := hp.x
  have hr : st.sq.AllE fun e => st.now ≤ e.time ∧ e.time - st.now < durMax := by
    refine SimQueue.allE_mono (p' := fun e => st.now ≤ e.time ∧ e.time - st.now < durMax) hx.fut ?_
    intro e he
    have := reach_ge delay e
    have := hp.lt
    exact ⟨he.1, by omega⟩
  have hr' : st.sq.AllE fun e => st.now ≤ e.time ∧ e.time - st.now ≤ durMax :=
    SimQueue.allE_mono hr (fun e he => ⟨he.1, by omega⟩)
  obtain ⟨next, st1, hpn⟩ := pickNext_progress (pickMeasure st) hx.nm hx.nq hx.wf hl hr
  obtain ⟨e1, e2, e3, e4, e5, qi, hpop, hmin⟩ := pickNext_exact _ _ _ _ hx.nm hx.nq hx.wf hr' hpn
  have hpkt := (pickNext_nomach _ _ _ _ hx.nm hpn).2
  obtain ⟨ho1, hall1, hpk1, hmin1⟩ := SimQueue.pop_spec0 hx.ord hpop
  have hfn := (hall1 _ hx.fut).2
  have hcnt1 := fun P => SimQueue.pop_tcount0 P hpop
  -- the window count of a TunnelSent is within the limit
  have hcount : next.event = .tunnelSent → ((winOf st1.net next.client).add next.time).1 ≤ st1.net.ppsLimit := by
    intro hev
    rw [e3, hx.nq.lm]
    obtain ⟨w1, w2, w3⟩ := hx.win next.client
    have hle : ∀ o ∈ (winOf st.net next.client).stamps, o ≤ next.time := fun o ho => by
      have := w3 o ho; omega
    rw [(window_add_spec _ next.time w2 hle).1, w1]
    have hts : isTS next = true := by simp [isTS, hev]
    have hin : ∀ p : Int → Bool, p next.time = true →
        (winOf st.net next.client).stamps.countP p + 1 ≤ (L next.client).countP p := by
      intro p hpt
      have hb := hx.bud next.client p
      have hc := hcnt1 (sendPend next.client p)
      have : sendPend next.client p next = true := by simp [sendPend, hts, hpt]
      rw [this] at hc
      simp only [b2n, if_true] at hc
      omega
    have hmem : next.time ∈ L next.client := by
      have := hin (fun x => x == next.time) (by simp)
      have hpos : 0 < (L next.client).countP (fun x => x == next.time) := by omega
      obtain ⟨z, hz, hzz⟩ := List.countP_pos_iff.1 hpos
      have : z = next.time := by simpa using hzz
      exact this ▸ hz
    have h1 := hin (fun x => decide (x ≤ next.time) && inWin Gen.SIM_BOTTLENECK_WINDOW_NS next.time x)
      (by simp [inWin, dsince, durSince])
    have h2 := hstat next.client next.time hmem
    omega
  have hnb : ¬ next.time < st1.now := by rw [e4]; omega
  have hnow : (if next.time > st1.now then next.time else st1.now) = next.time := by
    rw [e4]; split <;> omega
  obtain ⟨na, sq, net, hs⟩ := simNetworkStack_ok (sq := st1.sq)
    (byp := (({ st1 with now := next.time } : St σ).side next.client).blockingBypassable)
    (net := st1.net) (now := next.time) hpkt hcount
  obtain ⟨acts, st2, ht, hf1, hf2⟩ := triggerUpdate_ok ρ
    ({ ({ st1 with now := next.time } : St σ) with sq := sq, net := net } : St σ) next
    (by simp only [e1]; exact hx.nm.qc) (by simp only [e2]; exact hx.nm.qs)
    (by simp only [e1]; exact hp.fc) (by simp only [e2]; exact hp.fs) hpkt
  have hstep : step ρ st = .ok (some (⟨next, na, acts⟩, st2)) := by
    unfold step
    simp only [hpn, Option.getD_some, bind, Except.bind, hnb, if_false, hnow, hs, ht, pure, Except.pure]
  refine ⟨_, _, hstep, ?_⟩
  obtain ⟨hx', _, _⟩ := step_exact ρ hstat hx hstep
  have hsp := step_spec ρ hstep
  exact ⟨hx', hf1, hf2, by have := hp.lt; omega⟩

end

/-! ### the weight of the queued events -/

def isTR (e : SimEvent) : Bool := e.event == .tunnelRecv
def isNR (e : SimEvent) : Bool := e.event == .normalRecv

/-- iterations the queued events still need if all of them are served: a NormalSent is followed
    by its TunnelSent, TunnelRecv and NormalRecv -/
def wgt (sq : SimQueue) : Nat := 4 * tcount isNS sq + 3 * tcount isTS sq + 2 * tcount isTR sq + tcount isNR sq

/-- queued events that are normal packets in the sense of the loop's third stop test -/
def act (sq : SimQueue) : Nat := tcount isNS sq + tcount isTS sq + tcount isTR sq

theorem tcount_le_len (P : SimEvent → Bool) (sq : SimQueue) : tcount P sq ≤ sq.len := by
  have h : ∀ l : List SimEvent, l.countP P ≤ l.length := fun l => List.countP_le_length
  unfold tcount qcount SimQueue.len EventQueue.len Heap.len
  have a1 := h sq.client.base.data
  have a2 := h sq.client.blocking.data
  have a3 := h sq.client.bypassable.data
  have a4 := h sq.client.internal.data
  have a5 := h sq.server.base.data
  have a6 := h sq.server.blocking.data
  have a7 := h sq.server.bypassable.data
  have a8 := h sq.server.internal.data
  omega

theorem tcount_zero_all {P : SimEvent → Bool} {sq : SimQueue} (h : tcount P sq = 0) :
    ∀ c qi, ∀ e ∈ ((sq.side c).heap qi).data, P e = false := by
  unfold tcount qcount at h
  intro c qi e he
  have hz : ((sq.side c).heap qi).data.countP P = 0 := by
    cases c <;> cases qi <;> simp only [SimQueue.side, EventQueue.heap, if_true, Bool.false_eq_true, if_false] <;> omega
  have := List.countP_eq_zero.1 hz e he
  simpa using this

/-- the loop's third stop test on a queue of plain packets: "no normal packets" means exactly
    that no NormalSent, TunnelSent or TunnelRecv is queued -/
theorem noNormal_iff_act {sq : SimQueue} (hw : sq.WF) (hpk : tcount notPkt sq = 0) :
    sq.noNormalPackets = true ↔ act sq = 0 := by
  constructor
  · intro h
    have hno := noNormal_no_packets hw h
    have z1 : tcount isNS sq = 0 := tcount_zero_of_all (fun c qi e he => (hno c qi e he).1)
    have z2 : tcount isTS sq = 0 := tcount_zero_of_all (fun c qi e he => (hno c qi e he).2.1)
    have z3 : tcount isTR sq = 0 := tcount_zero_of_all (fun c qi e he => (hno c qi e he).2.2)
    unfold act; omega
  · intro h
    unfold act at h
    have z1 := tcount_zero_all (show tcount isNS sq = 0 by omega)
    have z2 := tcount_zero_all (show tcount isTS sq = 0 by omega)
    have z3 := tcount_zero_all (show tcount isTR sq = 0 by omega)
    have zp := tcount_zero_all hpk
    have key : ∀ (c : Bool), ((sq.side c).WF c) → (sq.side c).noNormalPackets = true := by
      intro c hq
      have emp : ∀ (l : List SimEvent), (∀ e ∈ l, False) → l = [] := by
        intro l hl
        cases l with
        | nil => rfl
        | cons a r => exact absurd (hl a (by simp)) id
      have hb : (sq.side c).base.data = [] := by
        apply emp
        intro e he
        have h1 := z1 c .base e he
        have h2 := List.countP_eq_zero.1 hq.base e he
        simp [h1] at h2
      have hbl : (sq.side c).blocking.data = [] := by
        apply emp
        intro e he
        have h1 := z2 c .blocking e he
        have h2 := List.countP_eq_zero.1 hq.blocking e he
        simp [h1] at h2
      have hby : (sq.side c).bypassable.data = [] := by
        apply emp
        intro e he
        have h1 := z2 c .bypassable e he
        have h2 := List.countP_eq_zero.1 hq.bypassable e he
        simp [h1] at h2
      unfold EventQueue.noNormalPackets Heap.isEmpty Heap.toList
      rw [hb, hbl, hby]
      simp only [List.isEmpty_nil, List.all_nil, Bool.and_true, Bool.true_and, List.all_eq_true,
        Bool.and_eq_true, bne_iff_ne, ne_eq, Bool.not_eq_true']
      intro e he
      have h3 := z3 c .internal e he
      have h4 := zp c .internal e he
      simp only [isTR, beq_eq_false_iff_ne, ne_eq] at h3
      simp only [notPkt, pktOK, Bool.not_eq_false', Bool.and_eq_true, Bool.not_eq_true'] at h4
      exact ⟨h3, h4.1.1.1⟩
    unfold SimQueue.noNormalPackets
    have kc := key true hw.client
    have ks := key false hw.server
    simp only [SimQueue.side, if_true, Bool.false_eq_true, if_false] at kc ks
    rw [kc, ks]; rfl

section
variable {σ : Type} (ρ : Oracle σ)

/-- every iteration of an exact run lowers the weight by exactly one -/
theorem step_wgt {delay lim : Nat} {L : Bool → List Int} {B : Int}
    (hstat : ∀ c t, t ∈ L c →
      (L c).countP (fun x => decide (x ≤ t) && inWin Gen.SIM_BOTTLENECK_WINDOW_NS t x) ≤ lim)
    {st st' : St σ} {r : StepRec} (hx : XInv delay lim L B st) (h : step ρ st = .ok (some (r, st'))) :
    wgt st'.sq + 1 = wgt st.sq := by
  obtain ⟨_, hok, hc⟩ := step_exact ρ hstat hx h
  have c1 := hc isNS
  have c2 := hc isTS
  have c3 := hc isTR
  have c4 := hc isNR
  unfold wgt
  rcases pktOK_event hok with hev | hev | hev | hev <;>
    simp [succL, hev, isNS, isTS, isTR, isNR, b2n] at c1 c2 c3 c4 <;> omega

/-- the stop tests when neither cap binds -/
theorem stopCheck_nocaps (a : Args) (st : St σ) (iters cnt : Nat) (hcont : a.continueAfterAllNormal = false)
    (h1 : a.maxTraceLength = 0 ∨ cnt < a.maxTraceLength)
    (h2 : a.maxSimIterations = 0 ∨ iters + 1 < a.maxSimIterations) :
    stopCheck a st iters cnt = if st.sq.noNormalPackets then some .noNormal else none := by
  unfold stopCheck
  have c1 : (decide (a.maxTraceLength > 0) && decide (cnt ≥ a.maxTraceLength)) = false := by
    rcases h1 with h | h <;> simp <;> omega
  have c2 : (decide (a.maxSimIterations > 0) && decide (iters + 1 ≥ a.maxSimIterations)) = false := by
    rcases h2 with h | h <;> simp <;> omega
  simp [c1, c2, hcont]

/-- **Progress of the main loop.**  From a state of an exact run in which a normal packet is
    still queued, with fuel and caps that leave room for the weight of the queue, the loop stops
    because all normal packets were processed; the number of iterations is the weight it
    consumed, and at least one event (the NormalRecv of the TunnelRecv served last) is
    still queued. -/
theorem loop_progress {delay lim : Nat} {L : Bool → List Int} {B : Int}
    (hstat : ∀ c t, t ∈ L c →
      (L c).countP (fun x => decide (x ≤ t) && inWin Gen.SIM_BOTTLENECK_WINDOW_NS t x) ≤ lim)
    (a : Args) (hcont : a.continueAfterAllNormal = false) :
    ∀ (fuel : Nat) (st : St σ) (iters cnt : Nat), PInv delay lim L B st → 0 < act st.sq →
      wgt st.sq ≤ fuel + 1 →
      (a.maxSimIterations = 0 ∨ iters + wgt st.sq ≤ a.maxSimIterations) →
      (a.maxTraceLength = 0 ∨ cnt + wgt st.sq ≤ a.maxTraceLength) →
      (loop ρ a fuel st iters cnt).stop = .noNormal ∧
      ∃ stf, (loop ρ a fuel st iters cnt).final = some stf ∧ act stf.sq = 0 ∧ 0 < wgt stf.sq ∧
        (loop ρ a fuel st iters cnt).stream.length + wgt stf.sq = wgt st.sq := by
  intro fuel
  induction fuel with
  | zero =>
    intro st iters cnt _ hact hfuel _ _
    exfalso
    unfold act at hact; unfold wgt at hfuel; omega
  | succ n ih =>
    intro st iters cnt hp hact hfuel hit hlen
    have hw2 : 2 ≤ wgt st.sq := by unfold act at hact; unfold wgt; omega
    have hl : st.sq.len ≠ 0 := by
      have h1 := tcount_le_len isNS st.sq
      have h2 := tcount_le_len isTS st.sq
      have h3 := tcount_le_len isTR st.sq
      unfold act at hact; omega
    obtain ⟨r, st', hs, hp'⟩ := step_progress ρ hstat hp hl
    have hwg := step_wgt ρ hstat hp.x hs
    rw [loop_succ_some ρ a n st st' iters cnt r hs]
    have hb : bump a r cnt ≤ cnt + 1 := by unfold bump; split <;> omega
    rw [stopCheck_nocaps a st' iters (bump a r cnt) hcont
      (by rcases hlen with h | h; exact Or.inl h; right; omega)
      (by rcases hit with h | h; exact Or.inl h; right; omega)]
    have hiff := noNormal_iff_act hp'.x.wf hp'.x.nm.pk
    cases hnn : st'.sq.noNormalPackets with
    | true =>
      rw [if_pos rfl]
      refine ⟨rfl, st', rfl, hiff.1 hnn, by omega, ?_⟩
      show [r].length + wgt st'.sq = wgt st.sq
      simp only [List.length_cons, List.length_nil]; omega
    | false =>
      rw [if_neg (by simp)]
      have hact' : 0 < act st'.sq := by
        rcases Nat.eq_zero_or_pos (act st'.sq) with h0 | h0
        · rw [hiff.2 h0] at hnn; cases hnn
        · exact h0
      obtain ⟨i1, stf, i2, i3, i5, i4⟩ := ih st' (iters + 1) (bump a r cnt) hp' hact' (by omega)
        (by rcases hit with h | h; exact Or.inl h; right; omega)
        (by rcases hlen with h | h; exact Or.inl h; right; omega)
      refine ⟨i1, stf, i2, i3, i5, ?_⟩
      show (r :: (loop ρ a n st' (iters + 1) (bump a r cnt)).stream).length + wgt stf.sq = wgt st.sq
      simp only [List.length_cons]; omega

end

/-! ### the initial state -/

theorem tcount_mono {P Q : SimEvent → Bool} (h : ∀ e, P e = true → Q e = true) (sq : SimQueue) :
    tcount P sq ≤ tcount Q sq := by
  have hm : ∀ l : List SimEvent, l.countP P ≤ l.countP Q := fun l => List.countP_mono_left (fun e _ he => h e he)
  unfold tcount qcount
  have a1 := hm sq.client.base.data
  have a2 := hm sq.client.blocking.data
  have a3 := hm sq.client.bypassable.data
  have a4 := hm sq.client.internal.data
  have a5 := hm sq.server.base.data
  have a6 := hm sq.server.blocking.data
  have a7 := hm sq.server.bypassable.data
  have a8 := hm sq.server.internal.data
  omega

/-- the parsed queue holds one NormalSent per line and nothing else -/
theorem parseTrace_counts (trace : List TraceLine) (delay : Nat) :
    tcount isNS (parseTrace trace delay) = trace.length ∧ tcount isTS (parseTrace trace delay) = 0 ∧
    tcount isTR (parseTrace trace delay) = 0 ∧ tcount isNR (parseTrace trace delay) = 0 ∧
    tcount (fun _ => true) (parseTrace trace delay) = trace.length := by
  obtain ⟨hs1, hs2⟩ := parseTrace_sides trace delay
  have hall : ∀ (P : SimEvent → Bool), tcount P (parseTrace trace delay) = (trace.map (nsOf delay)).countP P := by
    intro P
    rw [tcount_congr _ hs1 hs2, pushAll_tcount, tcount_empty, Nat.zero_add]
  have hev : ∀ e ∈ trace.map (nsOf delay), e.event = .normalSent := by
    intro e he
    simp only [List.mem_map] at he
    obtain ⟨l, _, hl⟩ := he
    subst hl
    unfold nsOf; split <;> rfl
  have hyes : ∀ (P : SimEvent → Bool), (∀ e, e.event = .normalSent → P e = true) →
      (trace.map (nsOf delay)).countP P = trace.length := by
    intro P hP
    rw [List.countP_eq_length.2 (fun e he => hP e (hev e he)), List.length_map]
  have hno : ∀ (P : SimEvent → Bool), (∀ e, e.event = .normalSent → P e = false) →
      (trace.map (nsOf delay)).countP P = 0 := by
    intro P hP
    rw [List.countP_eq_zero]
    intro e he
    simp [hP e (hev e he)]
  refine ⟨?_, ?_, ?_, ?_, ?_⟩
  · rw [hall]; exact hyes _ (fun e h => by simp [isNS, h])
  · rw [hall]; exact hno _ (fun e h => by simp [isTS, h])
  · rw [hall]; exact hno _ (fun e h => by simp [isTR, h])
  · rw [hall]; exact hno _ (fun e h => by simp [isNR, h])
  · rw [hall]; exact hyes _ (fun e _ => rfl)

/-- every event of the parsed queue is the NormalSent of a line -/
theorem parseTrace_mem (trace : List TraceLine) (delay : Nat) :
    (parseTrace trace delay).AllE fun e => e ∈ trace.map (nsOf delay) := by
  obtain ⟨hs1, hs2⟩ := parseTrace_sides trace delay
  have hside := side_congr hs1 hs2
  intro c qi e he
  rw [hside] at he
  exact pushAll_allE (p := fun e => e ∈ trace.map (nsOf delay)) _ _
    (by intro c qi e he; cases c <;> cases qi <;> cases he) (fun e he => he) c qi e he

theorem parseTrace_other_empty (trace : List TraceLine) (delay : Nat) :
    ∀ c qi, qi ≠ .base → (((parseTrace trace delay).side c).heap qi).data = [] := by
  obtain ⟨hs1, hs2⟩ := parseTrace_sides trace delay
  have hside := side_congr hs1 hs2
  have hroute : ∀ e ∈ trace.map (nsOf delay), route e = .base := by
    intro e he
    simp only [List.mem_map] at he
    obtain ⟨l, _, hl⟩ := he
    subst hl
    unfold nsOf route; cases l.2 <;> rfl
  intro c qi hq
  rw [hside, pushAll_heap_other _ _ c qi hroute hq]
  cases c <;> cases qi <;> first | rfl | exact absurd rfl hq

/-- a non-empty trace has a first base time -/
theorem parseTrace_firstTime_some (trace : List TraceLine) (delay : Nat) (hne : trace ≠ []) :
    ∃ t0, (parseTrace trace delay).firstTime = some t0 := by
  cases hft : (parseTrace trace delay).firstTime with
  | some t0 => exact ⟨t0, rfl⟩
  | none =>
    exfalso
    have hemp := parseTrace_other_empty trace delay
    have hbase : ∀ c, (((parseTrace trace delay).side c).heap .base).data = [] := by
      unfold SimQueue.firstTime EventQueue.firstBaseTime at hft
      have hc : (parseTrace trace delay).client.base = ((parseTrace trace delay).side true).heap .base := rfl
      have hs : (parseTrace trace delay).server.base = ((parseTrace trace delay).side false).heap .base := rfl
      rw [hc, hs] at hft
      intro c
      cases hpc : (((parseTrace trace delay).side true).heap .base).peek <;>
        cases hps : (((parseTrace trace delay).side false).heap .base).peek <;>
        simp [hpc, hps] at hft
      have h1 := heap_peek_none hpc
      have h2 := heap_peek_none hps
      unfold Heap.len at h1 h2
      cases c
      · exact List.eq_nil_of_length_eq_zero h2
      · exact List.eq_nil_of_length_eq_zero h1
    have hz : tcount (fun _ => true) (parseTrace trace delay) = 0 := by
      apply tcount_zero_of_all
      intro c qi e he
      by_cases hq : qi = .base
      · subst hq; rw [hbase c] at he; cases he
      · rw [hemp c qi hq] at he; cases he
    have := (parseTrace_counts trace delay).2.2.2.2
    have hl : 0 < trace.length := List.length_pos_iff.2 hne
    omega

theorem feedCounts_head (w : Nat) (x : Int) (r : List Int) : 1 ∈ feedCounts ⟨w, []⟩ (x :: r) := by
  have : ((⟨w, []⟩ : WindowCount).add x).1 = 1 := by
    unfold WindowCount.add
    simp [WindowCount.prune, dsince, durSince]
  simp [feedCounts, this]

section
variable {σ : Type} (ρ : Oracle σ)

theorem Side.new_nomach (t0 : Int) (fp fb : F64) (orc : σ) (h1 : Validate.fracOK fp = true) (h2 : Validate.fracOK fb = true) :
    ∃ sd o, Side.new ρ [] t0 fp fb orc = .ok (sd, o) ∧ sd.fw.fault = none := by
  unfold Side.new
  have hv : Validate.frameworkNew [] fp fb = true := by simp [Validate.frameworkNew, h1, h2]
  have hf : (Fw.init ρ [] fp fb t0 orc).fault = none := by simp [Fw.init, Fw.init0]
  simp only [hv, Bool.not_true, Bool.false_eq_true, if_false, hf]
  exact ⟨_, _, rfl, hf⟩

/-- the initial state of a run without machines on a non-empty parsed trace exists and satisfies
    the progress invariant with the horizon one nanosecond short of `Duration::MAX` -/
theorem initState_pinv {trace : List TraceLine} {delay lim : Nat} {a : Args} {orc : σ} (hne : trace ≠ [])
    (hnet : a.network = ⟨delay, none⟩) (hlim : (parseTrace trace delay).maxPps = some lim) (hpos : 0 < lim)
    (hB : ∀ l ∈ trace, ((l.1 : Nat) : Int) + 2 * (delay : Int) < durMax)
    (hfrac : Validate.fracOK a.fpClient = true ∧ Validate.fracOK a.fbClient = true ∧
      Validate.fracOK a.fpServer = true ∧ Validate.fracOK a.fbServer = true) :
    ∃ st, initState ρ [] [] (parseTrace trace delay) a orc = .ok st ∧
      PInv delay lim (Lof trace delay) (st.now + durMax - 1) st ∧ st.sq = parseTrace trace delay := by
  obtain ⟨t0, hft⟩ := parseTrace_firstTime_some trace delay hne
  obtain ⟨c, o1, hc, hfc⟩ := Side.new_nomach ρ t0 a.fpClient a.fbClient orc hfrac.1 hfrac.2.1
  obtain ⟨s, o2, hsv, hfs⟩ := Side.new_nomach ρ t0 a.fpServer a.fbServer o1 hfrac.2.2.1 hfrac.2.2.2
  have hnew : ∃ net, Bottleneck.new a.network Gen.SIM_BOTTLENECK_WINDOW_NS (parseTrace trace delay).maxPps = .ok net := by
    unfold Bottleneck.new
    simp only [hnet, hlim, Option.getD_none, Option.getD_some]
    have : ¬ min lim (2 ^ 32 - 1) = 0 := by
      have : (2 : Nat) ^ 32 - 1 ≠ 0 := by decide
      omega
    simp only [this, if_false]
    exact ⟨_, rfl⟩
  obtain ⟨net, hnew⟩ := hnew
  have hi : initState ρ [] [] (parseTrace trace delay) a orc =
      .ok { sq := parseTrace trace delay, client := c, server := s, net := net, now := t0, orc := o2 } := by
    unfold initState firstTimeE
    simp only [hft, bind, Except.bind, hc, hsv, hnew, pure, Except.pure]
  refine ⟨_, hi, ?_, rfl⟩
  have hB' : ∀ l ∈ trace, ((l.1 : Nat) : Int) + 2 * (delay : Int) ≤ durMax := fun l hl => by
    have := hB l hl; omega
  obtain ⟨hx, _, _⟩ := initState_xinv ρ hnet hlim hB' hi
  simp only [] at hx ⊢
  -- every queued event is a line's NormalSent: bounds on its time
  have hrange : (parseTrace trace delay).AllE fun e =>
      -(delay : Int) ≤ e.time ∧ reach delay e + (delay : Int) < durMax := by
    refine SimQueue.allE_mono (parseTrace_mem trace delay) ?_
    intro e he
    simp only [List.mem_map] at he
    obtain ⟨l, hl, hle⟩ := he
    subst hle
    have := hB l hl
    unfold nsOf reach
    split <;> simp [isNS] <;> omega
  obtain ⟨_, cm, rm, hrm, hrt⟩ := firstTime_min hx.ord (parseTrace_other_empty trace delay) hft
  have ht0lo : -(delay : Int) ≤ t0 := by rw [← hrt]; exact (hrange cm .base rm hrm).1
  refine ⟨⟨hx.nm, hx.nq, hx.wf, hx.ord, ?_, ?_, hx.win, hx.bud⟩, hfc, hfs, ?_⟩
  · intro c' qi e he
    have h1 := hx.fut c' qi e he
    have h2 := hrange c' qi e he
    exact ⟨h1.1, by omega⟩
  · show t0 + (durMax : Int) - 1 - t0 ≤ durMax
    omega
  · show t0 + (durMax : Int) - 1 - t0 < durMax
    omega

/-! ### the whole run -/

theorem finish_final_noNormal (args : Args) (o : LoopOut σ) (h : o.stop = .noNormal) : (finish args o).final = o.final := by
  unfold finish; rw [h]

/-- **Progress, in terms of the window counts of the trace** (see `C14_progress` in
    Props/C14.lean for the statement in terms of the trace alone). -/
theorem sim_progress (budget : Nat) (trace : List TraceLine) (delay lim : Nat) (a : Args) (orc : σ)
    (hne : trace ≠ []) (hnet : a.network = ⟨delay, none⟩) (hlim : (parseTrace trace delay).maxPps = some lim)
    (hs : Asc (sTimes trace)) (hr : Asc (rTimes trace))
    (hfs : ∀ c ∈ feedCounts ⟨Gen.SIM_BOTTLENECK_WINDOW_NS, []⟩ (sTimes trace), c ≤ lim)
    (hfr : ∀ c ∈ feedCounts ⟨Gen.SIM_BOTTLENECK_WINDOW_NS, []⟩ ((rTimes trace).map (· + (-(delay : Int)))), c ≤ lim)
    (hB : ∀ l ∈ trace, ((l.1 : Nat) : Int) + 2 * (delay : Int) < durMax)
    (hfrac : Validate.fracOK a.fpClient = true ∧ Validate.fracOK a.fbClient = true ∧
      Validate.fracOK a.fpServer = true ∧ Validate.fracOK a.fbServer = true)
    (hcont : a.continueAfterAllNormal = false)
    (hit : a.maxSimIterations = 0 ∨ 4 * trace.length ≤ a.maxSimIterations)
    (hlen : a.maxTraceLength = 0 ∨ 4 * trace.length ≤ a.maxTraceLength)
    (hbud : 4 * trace.length ≤ budget + 1) :
    (simAdvanced ρ budget [] [] (parseTrace trace delay) a orc).stop = .noNormal ∧
    ∃ stf, (simAdvanced ρ budget [] [] (parseTrace trace delay) a orc).final = some stf ∧
      stf.sq.noNormalPackets = true ∧
      (simAdvanced ρ budget [] [] (parseTrace trace delay) a orc).stream.length + tcount isNR stf.sq = 4 * trace.length ∧
      1 ≤ tcount isNR stf.sq ∧ tcount isNR stf.sq ≤ trace.length := by
  have hstat : ∀ c t, t ∈ Lof trace delay c →
      (Lof trace delay c).countP (fun x => decide (x ≤ t) && inWin Gen.SIM_BOTTLENECK_WINDOW_NS t x) ≤ lim := by
    intro c
    cases c
    · show ∀ t ∈ (rTimes trace).map (· - (delay : Int)), _
      rw [map_sub_eq_add]
      apply static_of_feed _ _ _ ?_ hfr
      unfold Asc
      rw [List.pairwise_map]
      exact hr.imp (by intro x y hxy; omega)
    · exact static_of_feed _ _ _ hs hfs
  -- the trace-derived limit is positive
  have hpos : 0 < lim := by
    cases htr : trace with
    | nil => exact absurd htr hne
    | cons l ls =>
      cases hl : l.2
      · have : (rTimes trace).map (· + (-(delay : Int))) = ((l.1 : Int) + (-(delay : Int))) :: (rTimes ls).map (· + (-(delay : Int))) := by
          rw [htr]; simp [rTimes, hl]
        rw [this] at hfr
        exact hfr 1 (feedCounts_head _ _ _)
      · have : sTimes trace = (l.1 : Int) :: sTimes ls := by
          rw [htr]; simp [sTimes, hl]
        rw [this] at hfs
        exact hfs 1 (feedCounts_head _ _ _)
  obtain ⟨st, hi, hp, hsq⟩ := initState_pinv ρ (orc := orc) hne hnet hlim hpos hB hfrac
  obtain ⟨c1, c2, c3, c4, c5⟩ := parseTrace_counts trace delay
  have hw0 : wgt st.sq = 4 * trace.length := by unfold wgt; rw [hsq, c1, c2, c3, c4]; omega
  have ha0 : 0 < act st.sq := by
    unfold act; rw [hsq, c1, c2, c3]
    have := List.length_pos_iff.2 hne; omega
  have hfuel : wgt st.sq ≤ loopFuel a budget + 1 := by
    rw [hw0]; unfold loopFuel
    split
    · rcases hit with h | h <;> omega
    · omega
  obtain ⟨hstop, stf, hfin, hact, hwpos, hcnt⟩ := loop_progress ρ hstat a hcont (loopFuel a budget) st 0 0 hp ha0 hfuel
    (by rw [hw0]; rcases hit with h | h; exact Or.inl h; right; omega)
    (by rw [hw0]; rcases hlen with h | h; exact Or.inl h; right; omega)
  -- the events still queued at the end are at most as many as the lines
  obtain ⟨hxf, hT⟩ := loop_exact ρ hstat a (fun _ => true) isNR
    (by
      intro e hok
      rcases pktOK_event hok with hev | hev | hev | hev <;> simp [succL, hev, isNR, b2n])
    (loopFuel a budget) st 0 0 hp.x stf hfin
  have hnr : tcount isNR stf.sq ≤ trace.length := by
    have h1 := tcount_mono (P := isNR) (Q := fun _ => true) (fun _ _ => rfl) stf.sq
    rw [hsq, c5] at hT
    omega
  have hwf : wgt stf.sq = tcount isNR stf.sq := by
    unfold act at hact; unfold wgt; omega
  unfold simAdvanced
  simp only [hi]
  rw [finish_stop, finish_stream, finish_final_noNormal a _ hstop]
  refine ⟨hstop, stf, hfin, (noNormal_iff_act hxf.wf hxf.nm.pk).2 hact, ?_, by omega, hnr⟩
  rw [← hwf, hcnt, hw0]

end

end Mb.Sim
